// Package fakemongo is a tiny in-process stand-in for a MongoDB server.
//
// It speaks just enough of the MongoDB wire protocol for mongo-driver 1.11.x
// as used through github.com/free5gc/util/mongoapi (SetMongoDB,
// RestfulAPIGetOne, RestfulAPIPutOne): the legacy OP_QUERY handshake, then
// OP_MSG with the commands isMaster/hello, find, update, insert, delete, ping
// and endSessions.  Every other command is answered with {ok: 1}.
//
// Collections are identified by their name only (the database name is
// ignored), documents are kept in insertion order.
package fakemongo

import (
	"encoding/binary"
	"errors"
	"fmt"
	"io"
	"math"
	"net"
	"reflect"
	"strings"
	"sync"
	"time"

	"go.mongodb.org/mongo-driver/bson"
	"go.mongodb.org/mongo-driver/bson/primitive"
)

const (
	opReply = 1
	opQuery = 2004
	opMsg   = 2013

	maxMessageSize = 48000000
)

// Server is a running fake MongoDB server.
type Server struct {
	ln net.Listener

	mu     sync.Mutex
	colls  map[string][]bson.M
	conns  map[net.Conn]struct{}
	closed bool
	nreq   int64

	wg sync.WaitGroup
}

// Start listens on a free loopback port and serves connections until Close.
func Start() (*Server, error) {
	ln, err := net.Listen("tcp", "127.0.0.1:0")
	if err != nil {
		return nil, err
	}
	s := &Server{
		ln:    ln,
		colls: make(map[string][]bson.M),
		conns: make(map[net.Conn]struct{}),
	}
	s.wg.Add(1)
	go s.acceptLoop()
	return s, nil
}

// URL is the connection string of the server (mongodb://127.0.0.1:port).
func (s *Server) URL() string {
	return "mongodb://" + s.ln.Addr().String()
}

// Addr is the host:port the server listens on.
func (s *Server) Addr() string { return s.ln.Addr().String() }

// Requests is the number of wire messages handled so far.
func (s *Server) Requests() int64 {
	s.mu.Lock()
	defer s.mu.Unlock()
	return s.nreq
}

// Close stops the listener and drops all connections.
func (s *Server) Close() {
	s.mu.Lock()
	if s.closed {
		s.mu.Unlock()
		return
	}
	s.closed = true
	conns := make([]net.Conn, 0, len(s.conns))
	for c := range s.conns {
		conns = append(conns, c)
	}
	s.mu.Unlock()
	_ = s.ln.Close()
	for _, c := range conns {
		_ = c.Close()
	}
	s.wg.Wait()
}

// Put inserts doc into coll, replacing an existing document with the same
// (ueId, ratingGroup) pair.
func (s *Server) Put(coll string, doc bson.M) {
	d := normalize(doc).(bson.M)
	if _, ok := d["_id"]; !ok {
		d["_id"] = primitive.NewObjectID()
	}
	key := bson.M{"ueId": d["ueId"], "ratingGroup": d["ratingGroup"]}
	s.mu.Lock()
	defer s.mu.Unlock()
	for i, old := range s.colls[coll] {
		if matches(old, key, false) {
			d["_id"] = old["_id"]
			s.colls[coll][i] = d
			return
		}
	}
	s.colls[coll] = append(s.colls[coll], d)
}

// Find returns copies (without _id) of the documents of coll matching filter.
func (s *Server) Find(coll string, filter bson.M) []bson.M {
	f := normalize(filter).(bson.M)
	s.mu.Lock()
	defer s.mu.Unlock()
	out := []bson.M{}
	for _, d := range s.colls[coll] {
		if matches(d, f, false) {
			out = append(out, export(d))
		}
	}
	return out
}

// Dump returns copies (without _id) of all documents of coll.
func (s *Server) Dump(coll string) []bson.M {
	s.mu.Lock()
	defer s.mu.Unlock()
	out := make([]bson.M, 0, len(s.colls[coll]))
	for _, d := range s.colls[coll] {
		out = append(out, export(d))
	}
	return out
}

// Collections lists the names of the non-empty collections.
func (s *Server) Collections() []string {
	s.mu.Lock()
	defer s.mu.Unlock()
	out := []string{}
	for k, v := range s.colls {
		if len(v) > 0 {
			out = append(out, k)
		}
	}
	return out
}

func export(d bson.M) bson.M {
	c := copyDoc(d)
	delete(c, "_id")
	return c
}

func copyDoc(d bson.M) bson.M {
	c := make(bson.M, len(d))
	for k, v := range d {
		c[k] = copyVal(v)
	}
	return c
}

func copyVal(v interface{}) interface{} {
	switch t := v.(type) {
	case bson.M:
		return copyDoc(t)
	case bson.A:
		a := make(bson.A, len(t))
		for i := range t {
			a[i] = copyVal(t[i])
		}
		return a
	default:
		return v
	}
}

// normalize brings a Go value into the shape it would have after a BSON round
// trip (bson.M / bson.A / int32 / int64 / float64 / string / ...).
func normalize(v interface{}) interface{} {
	switch t := v.(type) {
	case nil:
		return nil
	case bson.M:
		m := make(bson.M, len(t))
		for k, x := range t {
			m[k] = normalize(x)
		}
		return m
	case map[string]interface{}:
		m := make(bson.M, len(t))
		for k, x := range t {
			m[k] = normalize(x)
		}
		return m
	case bson.D:
		m := make(bson.M, len(t))
		for _, e := range t {
			m[e.Key] = normalize(e.Value)
		}
		return m
	case bson.A:
		a := make(bson.A, len(t))
		for i := range t {
			a[i] = normalize(t[i])
		}
		return a
	case []interface{}:
		a := make(bson.A, len(t))
		for i := range t {
			a[i] = normalize(t[i])
		}
		return a
	case string, bool, int32, int64, float64, primitive.ObjectID, primitive.DateTime, time.Time:
		return v
	}
	rv := reflect.ValueOf(v)
	switch rv.Kind() {
	case reflect.Int, reflect.Int8, reflect.Int16, reflect.Int32, reflect.Int64:
		i := rv.Int()
		if i >= math.MinInt32 && i <= math.MaxInt32 && rv.Kind() != reflect.Int64 {
			return int32(i)
		}
		return i
	case reflect.Uint, reflect.Uint8, reflect.Uint16, reflect.Uint32, reflect.Uint64, reflect.Uintptr:
		u := rv.Uint()
		if u <= math.MaxInt32 && rv.Kind() != reflect.Uint64 {
			return int32(u)
		}
		if u <= math.MaxInt64 {
			return int64(u)
		}
		return float64(u)
	case reflect.Float32, reflect.Float64:
		return rv.Float()
	case reflect.String:
		return rv.String()
	case reflect.Bool:
		return rv.Bool()
	}
	return v
}

// ---------------------------------------------------------------------------
// matching

func asNumber(v interface{}) (i int64, f float64, isInt, ok bool) {
	switch t := v.(type) {
	case int32:
		return int64(t), float64(t), true, true
	case int64:
		return t, float64(t), true, true
	case float64:
		return 0, t, false, true
	case primitive.Decimal128:
		return 0, 0, false, false
	}
	rv := reflect.ValueOf(v)
	switch rv.Kind() {
	case reflect.Int, reflect.Int8, reflect.Int16, reflect.Int32, reflect.Int64:
		return rv.Int(), float64(rv.Int()), true, true
	case reflect.Uint, reflect.Uint8, reflect.Uint16, reflect.Uint32, reflect.Uint64:
		u := rv.Uint()
		if u > math.MaxInt64 {
			return 0, float64(u), false, true
		}
		return int64(u), float64(u), true, true
	case reflect.Float32, reflect.Float64:
		return 0, rv.Float(), false, true
	}
	return 0, 0, false, false
}

func valueEqual(a, b interface{}, foldCase bool) bool {
	ai, af, aInt, aNum := asNumber(a)
	bi, bf, bInt, bNum := asNumber(b)
	if aNum || bNum {
		if !(aNum && bNum) {
			return false
		}
		if aInt && bInt {
			return ai == bi
		}
		return af == bf
	}
	switch x := a.(type) {
	case nil:
		return b == nil
	case string:
		y, ok := b.(string)
		if !ok {
			return false
		}
		if foldCase {
			return strings.EqualFold(x, y)
		}
		return x == y
	case bson.M:
		y, ok := b.(bson.M)
		if !ok || len(x) != len(y) {
			return false
		}
		for k, xv := range x {
			yv, ok := y[k]
			if !ok || !valueEqual(xv, yv, foldCase) {
				return false
			}
		}
		return true
	case bson.A:
		y, ok := b.(bson.A)
		if !ok || len(x) != len(y) {
			return false
		}
		for i := range x {
			if !valueEqual(x[i], y[i], foldCase) {
				return false
			}
		}
		return true
	}
	return reflect.DeepEqual(a, b)
}

// fieldMatches implements equality (with MongoDB's "array contains" rule) and
// the $eq / $ne / $in / $exists operators.
func fieldMatches(docVal interface{}, present bool, cond interface{}, foldCase bool) bool {
	if m, ok := cond.(bson.M); ok && len(m) > 0 {
		allOps := true
		for k := range m {
			if !strings.HasPrefix(k, "$") {
				allOps = false
				break
			}
		}
		if allOps {
			for op, arg := range m {
				switch op {
				case "$eq":
					if !fieldMatches(docVal, present, arg, foldCase) {
						return false
					}
				case "$ne":
					if fieldMatches(docVal, present, arg, foldCase) {
						return false
					}
				case "$in":
					arr, _ := arg.(bson.A)
					hit := false
					for _, x := range arr {
						if fieldMatches(docVal, present, x, foldCase) {
							hit = true
							break
						}
					}
					if !hit {
						return false
					}
				case "$exists":
					want := truthy(arg)
					if present != want {
						return false
					}
				default:
					return false
				}
			}
			return true
		}
	}
	if !present {
		return cond == nil
	}
	if valueEqual(docVal, cond, foldCase) {
		return true
	}
	if arr, ok := docVal.(bson.A); ok {
		for _, x := range arr {
			if valueEqual(x, cond, foldCase) {
				return true
			}
		}
	}
	return false
}

func truthy(v interface{}) bool {
	switch t := v.(type) {
	case nil:
		return false
	case bool:
		return t
	}
	if _, f, _, ok := asNumber(v); ok {
		return f != 0
	}
	return true
}

func lookup(doc bson.M, path string) (interface{}, bool) {
	if v, ok := doc[path]; ok {
		return v, true
	}
	cur := interface{}(doc)
	for _, p := range strings.Split(path, ".") {
		m, ok := cur.(bson.M)
		if !ok {
			return nil, false
		}
		cur, ok = m[p]
		if !ok {
			return nil, false
		}
	}
	return cur, true
}

func matches(doc, filter bson.M, foldCase bool) bool {
	for k, cond := range filter {
		switch k {
		case "$and":
			arr, _ := cond.(bson.A)
			for _, x := range arr {
				sub, _ := x.(bson.M)
				if !matches(doc, sub, foldCase) {
					return false
				}
			}
		case "$or":
			arr, _ := cond.(bson.A)
			hit := false
			for _, x := range arr {
				sub, _ := x.(bson.M)
				if matches(doc, sub, foldCase) {
					hit = true
					break
				}
			}
			if !hit {
				return false
			}
		default:
			v, present := lookup(doc, k)
			if !fieldMatches(v, present, cond, foldCase) {
				return false
			}
		}
	}
	return true
}

// collation strength 1 and 2 ignore case.
func foldFromCollation(c interface{}) bool {
	m, ok := c.(bson.M)
	if !ok {
		return false
	}
	st, ok := m["strength"]
	if !ok {
		return false
	}
	i, _, isInt, ok := asNumber(st)
	return ok && isInt && (i == 1 || i == 2)
}

// ---------------------------------------------------------------------------
// wire protocol

func (s *Server) acceptLoop() {
	defer s.wg.Done()
	for {
		c, err := s.ln.Accept()
		if err != nil {
			return
		}
		s.mu.Lock()
		if s.closed {
			s.mu.Unlock()
			_ = c.Close()
			return
		}
		s.conns[c] = struct{}{}
		s.mu.Unlock()
		s.wg.Add(1)
		go s.serve(c)
	}
}

func (s *Server) serve(c net.Conn) {
	defer func() {
		_ = recover()
		_ = c.Close()
		s.mu.Lock()
		delete(s.conns, c)
		s.mu.Unlock()
		s.wg.Done()
	}()
	var hdr [16]byte
	for {
		if _, err := io.ReadFull(c, hdr[:]); err != nil {
			return
		}
		length := int(int32(binary.LittleEndian.Uint32(hdr[0:4])))
		reqID := int32(binary.LittleEndian.Uint32(hdr[4:8]))
		opcode := int32(binary.LittleEndian.Uint32(hdr[12:16]))
		if length < 16 || length > maxMessageSize {
			return
		}
		body := make([]byte, length-16)
		if _, err := io.ReadFull(c, body); err != nil {
			return
		}
		s.mu.Lock()
		s.nreq++
		s.mu.Unlock()

		var out []byte
		var err error
		switch opcode {
		case opQuery:
			out, err = s.handleQuery(reqID, body)
		case opMsg:
			out, err = s.handleMsg(reqID, body)
		default:
			err = fmt.Errorf("unsupported opcode %d", opcode)
		}
		if err != nil {
			return
		}
		if out != nil {
			if _, err := c.Write(out); err != nil {
				return
			}
		}
	}
}

func header(length int, responseTo, opcode int32) []byte {
	b := make([]byte, 16, length)
	binary.LittleEndian.PutUint32(b[0:4], uint32(length))
	binary.LittleEndian.PutUint32(b[4:8], uint32(nextID()))
	binary.LittleEndian.PutUint32(b[8:12], uint32(responseTo))
	binary.LittleEndian.PutUint32(b[12:16], uint32(opcode))
	return b
}

var (
	idMu  sync.Mutex
	idCtr int32
)

func nextID() int32 {
	idMu.Lock()
	defer idMu.Unlock()
	idCtr++
	return idCtr
}

func helloReply() bson.D {
	return bson.D{
		{Key: "ismaster", Value: true},
		{Key: "isWritablePrimary", Value: true},
		{Key: "maxBsonObjectSize", Value: int32(16777216)},
		{Key: "maxMessageSizeBytes", Value: int32(maxMessageSize)},
		{Key: "maxWriteBatchSize", Value: int32(100000)},
		{Key: "localTime", Value: primitive.NewDateTimeFromTime(time.Now())},
		{Key: "logicalSessionTimeoutMinutes", Value: int32(30)},
		{Key: "connectionId", Value: int32(1)},
		{Key: "minWireVersion", Value: int32(0)},
		{Key: "maxWireVersion", Value: int32(13)},
		{Key: "readOnly", Value: false},
		{Key: "ok", Value: float64(1)},
	}
}

func cstring(b []byte) (string, []byte, error) {
	for i, x := range b {
		if x == 0 {
			return string(b[:i]), b[i+1:], nil
		}
	}
	return "", nil, errors.New("unterminated cstring")
}

func readDoc(b []byte) (bson.Raw, []byte, error) {
	if len(b) < 5 {
		return nil, nil, errors.New("short document")
	}
	n := int(int32(binary.LittleEndian.Uint32(b[0:4])))
	if n < 5 || n > len(b) {
		return nil, nil, errors.New("bad document length")
	}
	return bson.Raw(b[:n]), b[n:], nil
}

// handleQuery answers a legacy OP_QUERY (only used for the handshake).
func (s *Server) handleQuery(reqID int32, body []byte) ([]byte, error) {
	if len(body) < 4 {
		return nil, errors.New("short OP_QUERY")
	}
	rest := body[4:] // flags
	_, rest, err := cstring(rest)
	if err != nil {
		return nil, err
	}
	if len(rest) < 8 {
		return nil, errors.New("short OP_QUERY")
	}
	rest = rest[8:] // numberToSkip, numberToReturn
	raw, _, err := readDoc(rest)
	if err != nil {
		return nil, err
	}
	var cmd bson.D
	if err = bson.Unmarshal(raw, &cmd); err != nil {
		return nil, err
	}
	reply := s.dispatch(cmd, nil)
	doc, err := bson.Marshal(reply)
	if err != nil {
		return nil, err
	}
	total := 16 + 20 + len(doc)
	out := header(total, reqID, opReply)
	var fixed [20]byte
	binary.LittleEndian.PutUint32(fixed[0:4], 8)   // responseFlags: AwaitCapable
	binary.LittleEndian.PutUint64(fixed[4:12], 0)  // cursorID
	binary.LittleEndian.PutUint32(fixed[12:16], 0) // startingFrom
	binary.LittleEndian.PutUint32(fixed[16:20], 1) // numberReturned
	out = append(out, fixed[:]...)
	out = append(out, doc...)
	return out, nil
}

// handleMsg answers an OP_MSG.
func (s *Server) handleMsg(reqID int32, body []byte) ([]byte, error) {
	if len(body) < 4 {
		return nil, errors.New("short OP_MSG")
	}
	flags := binary.LittleEndian.Uint32(body[0:4])
	rest := body[4:]
	if flags&1 != 0 { // checksumPresent
		if len(rest) < 4 {
			return nil, errors.New("short OP_MSG")
		}
		rest = rest[:len(rest)-4]
	}
	var cmd bson.D
	seqs := map[string][]bson.Raw{}
	haveBody := false
	for len(rest) > 0 {
		kind := rest[0]
		rest = rest[1:]
		switch kind {
		case 0:
			raw, r, err := readDoc(rest)
			if err != nil {
				return nil, err
			}
			rest = r
			if err = bson.Unmarshal(raw, &cmd); err != nil {
				return nil, err
			}
			haveBody = true
		case 1:
			if len(rest) < 4 {
				return nil, errors.New("short sequence")
			}
			size := int(int32(binary.LittleEndian.Uint32(rest[0:4])))
			if size < 4 || size > len(rest) {
				return nil, errors.New("bad sequence size")
			}
			sec := rest[4:size]
			rest = rest[size:]
			id, sec, err := cstring(sec)
			if err != nil {
				return nil, err
			}
			for len(sec) > 0 {
				raw, r, err := readDoc(sec)
				if err != nil {
					return nil, err
				}
				sec = r
				seqs[id] = append(seqs[id], raw)
			}
		default:
			return nil, fmt.Errorf("unknown section kind %d", kind)
		}
	}
	if !haveBody {
		return nil, errors.New("OP_MSG without body")
	}
	reply := s.dispatch(cmd, seqs)
	if flags&2 != 0 { // moreToCome: unacknowledged, no reply expected
		return nil, nil
	}
	doc, err := bson.Marshal(reply)
	if err != nil {
		return nil, err
	}
	total := 16 + 4 + 1 + len(doc)
	out := header(total, reqID, opMsg)
	out = append(out, 0, 0, 0, 0) // flagBits
	out = append(out, 0)          // kind 0
	out = append(out, doc...)
	return out, nil
}

func okReply() bson.D { return bson.D{{Key: "ok", Value: float64(1)}} }

func errReply(code int32, msg string) bson.D {
	return bson.D{
		{Key: "ok", Value: float64(0)},
		{Key: "errmsg", Value: msg},
		{Key: "code", Value: code},
		{Key: "codeName", Value: "BadValue"},
	}
}

func get(cmd bson.D, key string) interface{} {
	for _, e := range cmd {
		if e.Key == key {
			return e.Value
		}
	}
	return nil
}

// docsOf collects the documents of a command argument that may come either
// inline (array in the body) or as a kind-1 document sequence.
func docsOf(cmd bson.D, seqs map[string][]bson.Raw, key string) ([]bson.M, error) {
	var out []bson.M
	if arr, ok := get(cmd, key).(bson.A); ok {
		for _, x := range arr {
			out = append(out, normalize(x).(bson.M))
		}
	}
	for _, raw := range seqs[key] {
		var d bson.D
		if err := bson.Unmarshal(raw, &d); err != nil {
			return nil, err
		}
		out = append(out, normalize(d).(bson.M))
	}
	return out, nil
}

func (s *Server) dispatch(cmd bson.D, seqs map[string][]bson.Raw) bson.D {
	if len(cmd) == 0 {
		return errReply(2, "empty command")
	}
	name := cmd[0].Key
	// Legacy wrapped form {$query: {...}} / {query: {...}}.
	if name == "$query" || name == "query" {
		if inner, ok := cmd[0].Value.(bson.D); ok && len(inner) > 0 {
			cmd = inner
			name = cmd[0].Key
		}
	}
	switch strings.ToLower(name) {
	case "ismaster", "hello":
		return helloReply()
	case "ping", "endsessions":
		return okReply()
	case "find":
		return s.cmdFind(cmd)
	case "insert":
		return s.cmdInsert(cmd, seqs)
	case "update":
		return s.cmdUpdate(cmd, seqs)
	case "delete":
		return s.cmdDelete(cmd, seqs)
	case "count":
		return s.cmdCount(cmd)
	case "buildinfo":
		return bson.D{
			{Key: "version", Value: "5.0.0"},
			{Key: "versionArray", Value: bson.A{int32(5), int32(0), int32(0), int32(0)}},
			{Key: "ok", Value: float64(1)},
		}
	}
	return okReply()
}

func collName(cmd bson.D) string {
	c, _ := cmd[0].Value.(string)
	return c
}

func dbName(cmd bson.D) string {
	d, _ := get(cmd, "$db").(string)
	return d
}

func (s *Server) cmdFind(cmd bson.D) bson.D {
	coll := collName(cmd)
	filter := bson.M{}
	if f := get(cmd, "filter"); f != nil {
		if m, ok := normalize(f).(bson.M); ok {
			filter = m
		}
	}
	fold := foldFromCollation(normalize(get(cmd, "collation")))
	limit := int64(0)
	if l := get(cmd, "limit"); l != nil {
		if i, _, isInt, ok := asNumber(l); ok && isInt {
			limit = i
			if limit < 0 {
				limit = -limit
			}
		}
	}
	skip := int64(0)
	if l := get(cmd, "skip"); l != nil {
		if i, _, isInt, ok := asNumber(l); ok && isInt && i > 0 {
			skip = i
		}
	}
	batch := bson.A{}
	s.mu.Lock()
	for _, d := range s.colls[coll] {
		if !matches(d, filter, fold) {
			continue
		}
		if skip > 0 {
			skip--
			continue
		}
		batch = append(batch, copyDoc(d))
		if limit > 0 && int64(len(batch)) >= limit {
			break
		}
	}
	s.mu.Unlock()
	return bson.D{
		{Key: "cursor", Value: bson.D{
			{Key: "firstBatch", Value: batch},
			{Key: "id", Value: int64(0)},
			{Key: "ns", Value: dbName(cmd) + "." + coll},
		}},
		{Key: "ok", Value: float64(1)},
	}
}

func (s *Server) cmdCount(cmd bson.D) bson.D {
	coll := collName(cmd)
	filter := bson.M{}
	if f := get(cmd, "query"); f != nil {
		if m, ok := normalize(f).(bson.M); ok {
			filter = m
		}
	}
	n := int32(0)
	s.mu.Lock()
	for _, d := range s.colls[coll] {
		if matches(d, filter, false) {
			n++
		}
	}
	s.mu.Unlock()
	return bson.D{{Key: "n", Value: n}, {Key: "ok", Value: float64(1)}}
}

func (s *Server) cmdInsert(cmd bson.D, seqs map[string][]bson.Raw) bson.D {
	coll := collName(cmd)
	docs, err := docsOf(cmd, seqs, "documents")
	if err != nil {
		return errReply(2, err.Error())
	}
	s.mu.Lock()
	for _, d := range docs {
		if _, ok := d["_id"]; !ok {
			d["_id"] = primitive.NewObjectID()
		}
		s.colls[coll] = append(s.colls[coll], d)
	}
	s.mu.Unlock()
	return bson.D{{Key: "n", Value: int32(len(docs))}, {Key: "ok", Value: float64(1)}}
}

// setPath assigns doc[path] = v, creating intermediate documents for dotted
// paths.
func setPath(doc bson.M, path string, v interface{}) {
	parts := strings.Split(path, ".")
	cur := doc
	for _, p := range parts[:len(parts)-1] {
		next, ok := cur[p].(bson.M)
		if !ok {
			next = bson.M{}
			cur[p] = next
		}
		cur = next
	}
	cur[parts[len(parts)-1]] = v
}

func unsetPath(doc bson.M, path string) {
	parts := strings.Split(path, ".")
	cur := doc
	for _, p := range parts[:len(parts)-1] {
		next, ok := cur[p].(bson.M)
		if !ok {
			return
		}
		cur = next
	}
	delete(cur, parts[len(parts)-1])
}

// applyUpdate applies an update specification to doc and reports whether the
// document changed.
func applyUpdate(doc bson.M, u bson.M) (bson.M, bool) {
	hasOps := false
	for k := range u {
		if strings.HasPrefix(k, "$") {
			hasOps = true
			break
		}
	}
	if !hasOps { // replacement document
		repl := copyDoc(u)
		if id, ok := doc["_id"]; ok {
			repl["_id"] = id
		}
		return repl, !valueEqual(doc, repl, false)
	}
	before := copyDoc(doc)
	for op, arg := range u {
		fields, _ := arg.(bson.M)
		switch op {
		case "$set":
			for k, v := range fields {
				setPath(doc, k, copyVal(v))
			}
		case "$unset":
			for k := range fields {
				unsetPath(doc, k)
			}
		case "$inc":
			for k, v := range fields {
				cur, _ := lookup(doc, k)
				ci, cf, cInt, cok := asNumber(cur)
				vi, vf, vInt, vok := asNumber(v)
				if !vok {
					continue
				}
				if !cok {
					setPath(doc, k, v)
				} else if cInt && vInt {
					setPath(doc, k, ci+vi)
				} else {
					setPath(doc, k, cf+vf)
				}
			}
		case "$setOnInsert":
			// handled by the caller on upsert
		}
	}
	return doc, !valueEqual(before, doc, false)
}

func (s *Server) cmdUpdate(cmd bson.D, seqs map[string][]bson.Raw) bson.D {
	coll := collName(cmd)
	ups, err := docsOf(cmd, seqs, "updates")
	if err != nil {
		return errReply(2, err.Error())
	}
	var n, nModified int32
	upserted := bson.A{}
	s.mu.Lock()
	for idx, up := range ups {
		q, _ := up["q"].(bson.M)
		u, _ := up["u"].(bson.M)
		multi := truthy(up["multi"])
		upsert := truthy(up["upsert"])
		fold := foldFromCollation(up["collation"])
		matched := false
		for i, d := range s.colls[coll] {
			if !matches(d, q, fold) {
				continue
			}
			matched = true
			n++
			nd, changed := applyUpdate(d, u)
			s.colls[coll][i] = nd
			if changed {
				nModified++
			}
			if !multi {
				break
			}
		}
		if !matched && upsert {
			nd := bson.M{}
			for k, v := range q {
				if strings.HasPrefix(k, "$") {
					continue
				}
				if m, ok := v.(bson.M); ok {
					if eq, ok := m["$eq"]; ok {
						setPath(nd, k, copyVal(eq))
					}
					continue
				}
				setPath(nd, k, copyVal(v))
			}
			if soi, ok := u["$setOnInsert"].(bson.M); ok {
				for k, v := range soi {
					setPath(nd, k, copyVal(v))
				}
			}
			nd, _ = applyUpdate(nd, u)
			if _, ok := nd["_id"]; !ok {
				nd["_id"] = primitive.NewObjectID()
			}
			s.colls[coll] = append(s.colls[coll], nd)
			n++
			upserted = append(upserted, bson.D{
				{Key: "index", Value: int32(idx)},
				{Key: "_id", Value: nd["_id"]},
			})
		}
	}
	s.mu.Unlock()
	reply := bson.D{
		{Key: "n", Value: n},
		{Key: "nModified", Value: nModified},
	}
	if len(upserted) > 0 {
		reply = append(reply, bson.E{Key: "upserted", Value: upserted})
	}
	reply = append(reply, bson.E{Key: "ok", Value: float64(1)})
	return reply
}

func (s *Server) cmdDelete(cmd bson.D, seqs map[string][]bson.Raw) bson.D {
	coll := collName(cmd)
	dels, err := docsOf(cmd, seqs, "deletes")
	if err != nil {
		return errReply(2, err.Error())
	}
	var n int32
	s.mu.Lock()
	for _, del := range dels {
		q, _ := del["q"].(bson.M)
		one := truthy(del["limit"])
		fold := foldFromCollation(del["collation"])
		kept := s.colls[coll][:0:0]
		done := false
		for _, d := range s.colls[coll] {
			if !done && matches(d, q, fold) {
				n++
				if one {
					done = true
				}
				continue
			}
			kept = append(kept, d)
		}
		s.colls[coll] = kept
	}
	s.mu.Unlock()
	return bson.D{{Key: "n", Value: n}, {Key: "ok", Value: float64(1)}}
}
