package fakemongo

import (
	"sync"
	"testing"

	"go.mongodb.org/mongo-driver/bson"

	"github.com/free5gc/util/mongoapi"
)

type unsigned32 uint32

const coll = "policyData.ues.chargingData"

func TestMongoapiRoundTrip(t *testing.T) {
	s, err := Start()
	if err != nil {
		t.Fatal(err)
	}
	defer s.Close()
	if err = mongoapi.SetMongoDB("free5gc", s.URL()); err != nil {
		t.Fatal(err)
	}

	s.Put(coll, bson.M{"ueId": "imsi-208930000000001", "ratingGroup": int32(1), "quota": "1000", "unitCost": "2"})
	s.Put(coll, bson.M{"ueId": "imsi-208930000000001", "ratingGroup": int32(2), "quota": "5", "unitCost": "1"})
	s.Put(coll, bson.M{"ueId": "imsi-208930000000001", "ratingGroup": 1, "quota": "900", "unitCost": "2"})
	if n := len(s.Dump(coll)); n != 2 {
		t.Fatalf("Put did not replace: %d docs", n)
	}

	// uint32 (encoded as int64 by the driver) against a stored int32.
	got, err := mongoapi.RestfulAPIGetOne(coll, bson.M{"ueId": "imsi-208930000000001", "ratingGroup": uint32(1)})
	if err != nil || got == nil || got["quota"] != "900" {
		t.Fatalf("GetOne uint32: %v %v", got, err)
	}
	// named uint32 type plus collation strength 2 (case-insensitive).
	got, err = mongoapi.RestfulAPIGetOne(coll, bson.M{"ueId": "IMSI-208930000000001", "ratingGroup": unsigned32(2)}, 2)
	if err != nil || got == nil || got["quota"] != "5" {
		t.Fatalf("GetOne collation: %v %v", got, err)
	}
	got, err = mongoapi.RestfulAPIGetOne(coll, bson.M{"ueId": "IMSI-208930000000001", "ratingGroup": unsigned32(2)})
	if err != nil || got != nil {
		t.Fatalf("GetOne case-sensitive should miss: %v %v", got, err)
	}
	got, err = mongoapi.RestfulAPIGetOne(coll, bson.M{"ueId": "imsi-1", "ratingGroup": uint32(1)})
	if err != nil || got != nil {
		t.Fatalf("GetOne unknown: %v %v", got, err)
	}

	existed, err := mongoapi.RestfulAPIPutOne(coll,
		bson.M{"ueId": "imsi-208930000000001", "ratingGroup": unsigned32(1)}, bson.M{"quota": "123"})
	if err != nil || !existed {
		t.Fatalf("PutOne existing: %v %v", existed, err)
	}
	docs := s.Find(coll, bson.M{"ueId": "imsi-208930000000001", "ratingGroup": float64(1)})
	if len(docs) != 1 || docs[0]["quota"] != "123" || docs[0]["unitCost"] != "2" {
		t.Fatalf("after PutOne: %v", docs)
	}

	existed, err = mongoapi.RestfulAPIPutOne(coll,
		bson.M{"ueId": "imsi-3", "ratingGroup": unsigned32(1)}, bson.M{"quota": "7"})
	if err != nil || existed {
		t.Fatalf("PutOne new: %v %v", existed, err)
	}
	if n := len(s.Dump(coll)); n != 3 {
		t.Fatalf("want 3 docs, have %d", n)
	}

	// concurrency smoke test
	var wg sync.WaitGroup
	for i := 0; i < 16; i++ {
		wg.Add(1)
		go func() {
			defer wg.Done()
			for j := 0; j < 20; j++ {
				if _, e := mongoapi.RestfulAPIGetOne(coll, bson.M{"ueId": "imsi-208930000000001", "ratingGroup": uint32(2)}); e != nil {
					t.Error(e)
					return
				}
				if _, e := mongoapi.RestfulAPIPutOne(coll, bson.M{"ueId": "imsi-208930000000001", "ratingGroup": uint32(2)}, bson.M{"quota": "6"}); e != nil {
					t.Error(e)
					return
				}
			}
		}()
	}
	wg.Wait()
}
