// Package faultproxy is a message-level TLS relay between the CHF's Diameter clients and the real
// rating / account-balance servers.  Requests and the capability / watchdog exchange pass through
// untouched; every application answer (SUA, CCA) travelling from the server to the client consumes
// one scripted action: deliver, delay, drop, duplicate, or deliver and repeat later.
package faultproxy

import (
	"crypto/tls"
	"encoding/binary"
	"io"
	"net"
	"sync"
	"time"
)

// Action applied to one application answer.
type Action struct {
	Kind string `json:"kind"` // ok | delay | drop | dup | latedup
	Ms   int    `json:"ms"`   // delay (delay, latedup)
}

// Event is what happened to one answer.
type Event struct {
	Seq      int    `json:"seq"`      // n-th application answer seen by this proxy
	Conn     int    `json:"conn"`     // n-th client connection
	Cmd      uint32 `json:"cmd"`      // command code (111 SU, 272 CC)
	Kind     string `json:"kind"`     // action applied
	Ms       int    `json:"ms"`       // its delay
	HopByHop uint32 `json:"hopByHop"` // identifies the request it answers
	Written  int    `json:"written"`  // copies that reached the client socket without a write error
}

type Proxy struct {
	ln      net.Listener
	backend string
	cfg     *tls.Config

	mu      sync.Mutex
	script  []Action
	events  []*Event
	nconn   int
	nanswer int
}

// Start listens on a free loopback port with the given certificate and relays to backend (TLS).
func Start(backend, certPem, certKey string) (*Proxy, error) {
	cert, err := tls.LoadX509KeyPair(certPem, certKey)
	if err != nil {
		return nil, err
	}
	cfg := &tls.Config{Certificates: []tls.Certificate{cert}}
	ln, err := tls.Listen("tcp", "127.0.0.1:0", cfg)
	if err != nil {
		return nil, err
	}
	p := &Proxy{ln: ln, backend: backend, cfg: cfg}
	go p.accept()
	return p, nil
}

func (p *Proxy) Port() int { return p.ln.Addr().(*net.TCPAddr).Port }
func (p *Proxy) Close()    { _ = p.ln.Close() }

// Script appends actions for the next application answers (default, when the script is empty: ok).
func (p *Proxy) Script(a []Action) {
	p.mu.Lock()
	p.script = append(p.script, a...)
	p.mu.Unlock()
}

// Events returns what happened to the answers so far.
func (p *Proxy) Events() []Event {
	p.mu.Lock()
	defer p.mu.Unlock()
	out := make([]Event, len(p.events))
	for i, e := range p.events {
		out[i] = *e
	}
	return out
}

func (p *Proxy) accept() {
	for {
		c, err := p.ln.Accept()
		if err != nil {
			return
		}
		p.mu.Lock()
		p.nconn++
		id := p.nconn
		p.mu.Unlock()
		go p.serve(c, id)
	}
}

func readMsg(r io.Reader) ([]byte, error) {
	hdr := make([]byte, 20)
	if _, err := io.ReadFull(r, hdr); err != nil {
		return nil, err
	}
	n := int(hdr[1])<<16 | int(hdr[2])<<8 | int(hdr[3])
	if n < 20 || n > 1<<22 {
		return nil, io.ErrUnexpectedEOF
	}
	msg := make([]byte, n)
	copy(msg, hdr)
	if _, err := io.ReadFull(r, msg[20:]); err != nil {
		return nil, err
	}
	return msg, nil
}

func (p *Proxy) serve(client net.Conn, id int) {
	defer client.Close()
	server, err := tls.Dial("tcp", p.backend, &tls.Config{InsecureSkipVerify: true})
	if err != nil {
		return
	}
	defer server.Close()
	var wmu sync.Mutex
	write := func(b []byte) bool {
		wmu.Lock()
		defer wmu.Unlock()
		_, err := client.Write(b)
		return err == nil
	}
	// client -> server: untouched
	go func() {
		for {
			m, err := readMsg(client)
			if err != nil {
				_ = server.Close()
				return
			}
			if _, err := server.Write(m); err != nil {
				return
			}
		}
	}()
	// server -> client
	for {
		m, err := readMsg(server)
		if err != nil {
			return
		}
		request := m[4]&0x80 != 0
		cmd := uint32(m[5])<<16 | uint32(m[6])<<8 | uint32(m[7])
		if request || (cmd != 111 && cmd != 272) {
			if !write(m) {
				return
			}
			continue
		}
		p.mu.Lock()
		a := Action{Kind: "ok"}
		if len(p.script) > 0 {
			a, p.script = p.script[0], p.script[1:]
		}
		p.nanswer++
		ev := &Event{Seq: p.nanswer, Conn: id, Cmd: cmd, Kind: a.Kind, Ms: a.Ms, HopByHop: binary.BigEndian.Uint32(m[12:16])}
		p.events = append(p.events, ev)
		p.mu.Unlock()
		deliver := func() {
			if write(m) {
				p.mu.Lock()
				ev.Written++
				p.mu.Unlock()
			}
		}
		switch a.Kind {
		case "drop":
		case "delay":
			go func() { time.Sleep(time.Duration(a.Ms) * time.Millisecond); deliver() }()
		case "dup":
			deliver()
			deliver()
		case "latedup":
			deliver()
			go func() { time.Sleep(time.Duration(a.Ms) * time.Millisecond); deliver() }()
		default:
			deliver()
		}
	}
}
