// Package berlib: shared pieces of the BER correspondence tooling: conversion
// of Go reflect types to the Coq type descriptors of coq/Ber/Model.v, random
// value generation, and printers of Go values as Coq terms.
package berlib

import (
	"fmt"
	"math/rand"
	"reflect"
	"strconv"
	"strings"

	"github.com/free5gc/chf/cdr/asn"
)

// ---- parameters (mirror of asn.parseFieldParameters for the members the codec reads)

type Params struct {
	Optional, Open, Explicit, Set bool
	Tag                           *uint64
	StrType                       int
}

func ParseParams(s string) Params {
	var p Params
	for _, part := range strings.Split(s, ",") {
		switch {
		case part == "optional":
			p.Optional = true
		case part == "openType":
			p.Open = true
		case strings.HasPrefix(part, "tagNum:"):
			if i, err := strconv.ParseInt(part[7:], 10, 64); err == nil {
				u := uint64(i)
				p.Tag = &u
			}
		case part == "explicit":
			p.Explicit = true
		case part == "set":
			p.Set = true
		case part == "utf8":
			p.StrType = asn.TagUTF8String
		case part == "ia5":
			p.StrType = asn.TagIA5String
		case part == "graphic":
			p.StrType = asn.TagGraphicString
		}
	}
	return p
}

func b(x bool) string {
	if x {
		return "true"
	}
	return "false"
}

func (p Params) Coq() string {
	tag := "None"
	if p.Tag != nil {
		tag = fmt.Sprintf("(Some %d)", *p.Tag)
	}
	return fmt.Sprintf("(mkP %s %s %s %s %s %d)", b(p.Optional), b(p.Open), tag, b(p.Explicit), b(p.Set), p.StrType)
}

// ---- types

type Kind int

const (
	KBool Kind = iota
	KInt
	KEnum
	KOctets
	KBits
	KNull
	KOid
	KString
	KPtr
	KWrap
	KChoice
	KSeq
	KSlice
	KUnsupported
)

func Classify(t reflect.Type) Kind {
	switch t {
	case asn.BitStringType:
		return KBits
	case asn.ObjectIdentifierType:
		return KOid
	case asn.OctetStringType:
		return KOctets
	case asn.EnumeratedType:
		return KEnum
	case asn.NullType:
		return KNull
	}
	switch t.Kind() {
	case reflect.Ptr:
		return KPtr
	case reflect.Bool:
		return KBool
	case reflect.Int, reflect.Int32, reflect.Int64:
		return KInt
	case reflect.Struct:
		if t.NumField() == 0 {
			return KSeq
		}
		switch t.Field(0).Name {
		case "Value", "List":
			return KWrap
		case "Present":
			return KChoice
		}
		return KSeq
	case reflect.Slice:
		return KSlice
	case reflect.String:
		return KString
	}
	return KUnsupported
}

// Conv converts reflect types to Coq terms, emitting one Definition per named
// struct type of package cdrType (so that the schema stays a DAG in the .v).
type Conv struct {
	Names map[reflect.Type]string
	Defs  []string // in dependency order
	Notes []string // things outside the modelled language (int32 members, ...)
	done  map[reflect.Type]bool
}

func NewConv() *Conv {
	return &Conv{Names: map[reflect.Type]string{}, done: map[reflect.Type]bool{}}
}

func (c *Conv) Register(t reflect.Type) {
	if t.Kind() == reflect.Struct && t.Name() != "" && strings.HasSuffix(t.PkgPath(), "cdr/cdrType") {
		c.Names[t] = "ty_" + t.Name()
	}
}

func (c *Conv) Ty(t reflect.Type) string {
	if n, ok := c.Names[t]; ok {
		if !c.done[t] {
			c.done[t] = true
			body := c.inline(t)
			c.Defs = append(c.Defs, fmt.Sprintf("Definition %s : ty := %s.", n, body))
		}
		return n
	}
	return c.inline(t)
}

func (c *Conv) fields(t reflect.Type, from int) string {
	var parts []string
	for i := from; i < t.NumField(); i++ {
		f := t.Field(i)
		p := ParseParams(f.Tag.Get("ber"))
		parts = append(parts, fmt.Sprintf("(%s, %s)", p.Coq(), c.Ty(f.Type)))
	}
	return "[" + strings.Join(parts, "; ") + "]"
}

func (c *Conv) inline(t reflect.Type) string {
	switch Classify(t) {
	case KBool:
		return "TBool"
	case KInt:
		if t.Kind() == reflect.Int32 {
			c.Notes = append(c.Notes, "int32 member modelled as TInt: "+t.String())
		}
		return "TInt"
	case KEnum:
		return "TEnum"
	case KOctets:
		return "TOctets"
	case KBits:
		return "TBits"
	case KNull:
		return "TNull"
	case KOid:
		return "TOid"
	case KString:
		switch t {
		case asn.UTF8StringType:
			return "(TString 12)"
		case asn.IA5StringType:
			return "(TString 22)"
		case asn.GraphicStringType:
			return "(TString 25)"
		}
		return "(TString 0)"
	case KPtr:
		return "(TPtr " + c.Ty(t.Elem()) + ")"
	case KWrap:
		return "(TWrap " + c.Ty(t.Field(0).Type) + ")"
	case KChoice:
		return "(TChoice " + c.fields(t, 1) + ")"
	case KSeq:
		return "(TSeq " + c.fields(t, 0) + ")"
	case KSlice:
		return "(TSlice " + c.Ty(t.Elem()) + ")"
	}
	c.Notes = append(c.Notes, "unsupported: "+t.String())
	return "TUnsupported"
}

// ---- byte lists as Coq terms (periodic runs compressed)

func ZList(bs []byte) string {
	var sb strings.Builder
	sb.WriteString("[")
	for i, x := range bs {
		if i > 0 {
			sb.WriteString(";")
		}
		sb.WriteString(strconv.Itoa(int(x)))
	}
	sb.WriteString("]")
	return sb.String()
}

func Compress(bs []byte) string {
	n := len(bs)
	if n <= 40 {
		return ZList(bs)
	}
	var parts []string
	var lit []byte
	flush := func() {
		for len(lit) > 0 {
			k := len(lit)
			if k > 1500 {
				k = 1500
			}
			parts = append(parts, ZList(lit[:k]))
			lit = lit[k:]
		}
	}
	for i := 0; i < n; {
		best, bestL := 0, 0
		for _, l := range []int{1, 2, 3, 5, 7} {
			j := i + l
			for j < n && bs[j] == bs[j-l] {
				j++
			}
			u := ((j - i) / l) * l
			if u > best {
				best, bestL = u, l
			}
		}
		if best >= 64 {
			flush()
			parts = append(parts, fmt.Sprintf("(rep_patZ %s %d)", ZList(bs[i:i+bestL]), best/bestL))
			i += best
		} else {
			lit = append(lit, bs[i])
			i++
		}
	}
	flush()
	if len(parts) == 1 {
		return parts[0]
	}
	return "(" + strings.Join(parts, " ++ ") + ")"
}

// ---- values as Coq terms

func CoqValue(v reflect.Value) string {
	t := v.Type()
	switch Classify(t) {
	case KPtr:
		if v.IsNil() {
			return "VNil"
		}
		return "(VPtr " + CoqValue(v.Elem()) + ")"
	case KBits:
		bs := v.Interface().(asn.BitString)
		return fmt.Sprintf("(VBits %s %d)", Compress(bs.Bytes), int64(bs.BitLength))
	case KOctets, KOid:
		if v.IsNil() {
			return "VNil"
		}
		return "(VBytes " + Compress(v.Bytes()) + ")"
	case KEnum, KInt:
		return fmt.Sprintf("(VInt (%d))", v.Int())
	case KNull, KBool:
		return "(VBool " + b(v.Bool()) + ")"
	case KString:
		return "(VBytes " + Compress([]byte(v.String())) + ")"
	case KWrap:
		return "(VStruct [" + CoqValue(v.Field(0)) + "])"
	case KChoice, KSeq:
		var parts []string
		for i := 0; i < v.NumField(); i++ {
			if i == 0 && Classify(t) == KChoice {
				parts = append(parts, fmt.Sprintf("VInt (%d)", v.Field(0).Int()))
				continue
			}
			parts = append(parts, CoqValue(v.Field(i)))
		}
		return "(VStruct [" + strings.Join(parts, "; ") + "])"
	case KSlice:
		if v.IsNil() {
			return "VNil"
		}
		var parts []string
		for i := 0; i < v.Len(); i++ {
			parts = append(parts, CoqValue(v.Index(i)))
		}
		return "(VSlice [" + strings.Join(parts, "; ") + "])"
	}
	return "VNil"
}

// ---- random values

type Gen struct {
	R        *rand.Rand
	Explicit bool // allow EXPLICIT member tags in random types (decoder does not support them)
	// statistics for the evidence
	Stats map[string]int
	NoSet map[reflect.Type]bool // generated SEQUENCE types that rely on member order
}

func (g *Gen) hit(k string) { g.Stats[k]++ }

func (g *Gen) Int() int64 {
	r := g.R
	switch r.Intn(10) {
	case 0:
		g.hit("int:small")
		return int64(r.Intn(5) - 2)
	case 1, 2, 3:
		k := uint(r.Intn(64))
		var base int64
		if k == 63 {
			base = -1 << 63
			g.hit("int:min")
			return base + int64(r.Intn(2))
		}
		base = int64(1) << k
		d := int64(r.Intn(3) - 1)
		x := base + d
		if r.Intn(2) == 0 {
			x = -x
		}
		g.hit("int:2^k+-1")
		return x
	case 4:
		g.hit("int:max")
		return 1<<63 - 1 - int64(r.Intn(2))
	case 5:
		g.hit("int:3octets")
		return int64(r.Intn(1<<24)) - 1<<23
	default:
		g.hit("int:random")
		w := uint(1 + r.Intn(63))
		x := int64(r.Uint64() >> (64 - w))
		if r.Intn(2) == 0 {
			x = -x
		}
		return x
	}
}

func (g *Gen) Len() int {
	r := g.R
	switch r.Intn(24) {
	case 0, 1, 2, 3:
		return 0
	case 4, 5:
		return 1
	case 6:
		g.hit("len:127")
		return 127
	case 7:
		g.hit("len:128")
		return 128
	case 8:
		g.hit("len:255/256")
		return 255 + r.Intn(2)
	case 9:
		if r.Intn(6) == 0 {
			g.hit("len:65535+")
			return 65535 + r.Intn(3)
		}
		return r.Intn(400)
	case 10:
		g.hit("len:126")
		return 126 - r.Intn(4)
	default:
		return r.Intn(20)
	}
}

func (g *Gen) Bytes(n int) []byte {
	out := make([]byte, n)
	if n > 64 {
		// periodic, so that the Coq text stays small
		pat := make([]byte, 1+g.R.Intn(3))
		g.R.Read(pat)
		for i := range out {
			out[i] = pat[i%len(pat)]
		}
		return out
	}
	g.R.Read(out)
	return out
}

// Fill sets v to a random value of its type.  Optional members (per the ber
// tag) are nil with a probability growing with depth; CHOICE picks a valid
// alternative (or, rarely, an invalid Present when allowBad).
func (g *Gen) Fill(v reflect.Value, depth int, allowBad bool) {
	t := v.Type()
	switch Classify(t) {
	case KPtr:
		p := reflect.New(t.Elem())
		g.Fill(p.Elem(), depth, allowBad)
		v.Set(p)
	case KBits:
		var bs asn.BitString
		nbits := 0
		switch g.R.Intn(6) {
		case 0:
			nbits = 0
		case 1:
			nbits = 8 * (1 + g.R.Intn(4))
			g.hit("bits:multiple-of-8")
		default:
			nbits = g.R.Intn(40)
		}
		if g.R.Intn(30) == 0 {
			nbits = 8 * g.Len()
		}
		nb := (nbits + 7) / 8
		bs.Bytes = g.Bytes(nb)
		if nbits%8 != 0 && nb > 0 {
			if g.R.Intn(2) == 0 {
				bs.Bytes[nb-1] &= byte(0xff << (8 - uint(nbits%8))) // clean padding
			} else {
				bs.Bytes[nb-1] |= byte(1 << uint(g.R.Intn(8-nbits%8))) // a padding bit set: still marshalable
				g.hit("bits:dirty-padding")
			}
		}
		bs.BitLength = uint64(nbits)
		v.Set(reflect.ValueOf(bs))
	case KOctets, KOid:
		v.SetBytes(g.Bytes(g.Len()))
	case KEnum, KInt:
		x := g.Int()
		if t.Kind() == reflect.Int32 {
			x = int64(int32(x))
		}
		v.SetInt(x)
	case KNull:
		v.SetBool(true)
	case KBool:
		v.SetBool(g.R.Intn(2) == 0)
	case KString:
		bs := g.Bytes(g.Len())
		v.SetString(string(bs))
	case KWrap:
		g.Fill(v.Field(0), depth, allowBad)
	case KChoice:
		n := t.NumField() - 1
		if n == 0 {
			return
		}
		pr := 1 + g.R.Intn(n)
		if allowBad && g.R.Intn(25) == 0 {
			pr = []int{0, n + 1, -1, n + 7}[g.R.Intn(4)]
			g.hit("choice:bad-present")
			v.Field(0).SetInt(int64(pr))
			return
		}
		v.Field(0).SetInt(int64(pr))
		g.Fill(v.Field(pr), depth+1, allowBad)
	case KSeq:
		for i := 0; i < t.NumField(); i++ {
			f := t.Field(i)
			if f.PkgPath != "" {
				continue
			}
			p := ParseParams(f.Tag.Get("ber"))
			k := Classify(f.Type)
			nillable := k == KPtr || k == KSlice || k == KOctets || k == KOid
			if p.Optional && nillable {
				// presence probability shrinks with depth
				if g.R.Intn(2+depth*2) != 0 {
					continue
				}
			}
			g.Fill(v.Field(i), depth+1, allowBad)
		}
	case KSlice:
		n := []int{0, 0, 1, 1, 2, 3}[g.R.Intn(6)]
		if depth > 4 && n > 1 {
			n = 1
		}
		if n == 0 && g.R.Intn(2) == 0 {
			return // nil slice
		}
		s := reflect.MakeSlice(t, n, n)
		for i := 0; i < n; i++ {
			g.Fill(s.Index(i), depth+1, allowBad)
		}
		v.Set(s)
	}
}

// ---- random types (reflect.StructOf with the same tag language)

var prim = []reflect.Type{
	reflect.TypeOf(int64(0)), reflect.TypeOf(int(0)), reflect.TypeOf(false), asn.OctetStringType, asn.BitStringType,
	asn.EnumeratedType, reflect.TypeOf(asn.UTF8String("")), reflect.TypeOf(asn.IA5String("")), asn.NullType,
}

func (g *Gen) tagNum() uint64 {
	switch g.R.Intn(12) {
	case 0:
		return 30
	case 1:
		return 31
	case 2:
		return 127
	case 3:
		return 128
	case 4:
		return 16383
	case 5:
		return 16384
	case 6:
		return 1 << 21
	case 7:
		return 2097151
	default:
		return uint64(g.R.Intn(30))
	}
}

// RandType builds a random type of the given depth using the codec's conventions.
func (g *Gen) RandType(depth int) reflect.Type {
	if depth <= 0 {
		return prim[g.R.Intn(len(prim))]
	}
	switch g.R.Intn(8) {
	case 0, 1: // SEQUENCE / SET
		return g.randStruct(depth, "seq")
	case 2:
		return g.randStruct(depth, "choice")
	case 3:
		return reflect.SliceOf(g.RandType(depth - 1))
	case 4: // Value wrapper
		return reflect.StructOf([]reflect.StructField{{Name: "Value", Type: g.RandType(depth - 1)}})
	case 5: // List wrapper
		return reflect.StructOf([]reflect.StructField{{Name: "List", Type: reflect.SliceOf(g.RandType(depth - 1))}})
	default:
		return prim[g.R.Intn(len(prim))]
	}
}

// untaggedIdent returns the universal tag number an untagged member of type t starts with
// (through "Value"/"List" wrappers), or 0 when the member is not to be left untagged here.
func untaggedIdent(t reflect.Type) int {
	switch Classify(t) {
	case KBool:
		return asn.TagBoolean
	case KInt:
		return asn.TagInteger
	case KBits:
		return asn.TagBitString
	case KOctets:
		return asn.TagOctetString
	case KNull:
		return asn.TagNull
	case KEnum:
		return asn.TagEnumerated
	case KString:
		switch t {
		case asn.UTF8StringType:
			return asn.TagUTF8String
		case asn.IA5StringType:
			return asn.TagIA5String
		}
		return 0
	case KSeq, KSlice:
		return asn.TagSequence
	case KWrap:
		return untaggedIdent(t.Field(0).Type)
	}
	return 0
}

// OrderDependent reports whether decoding t relies on the order of the members of a generated SEQUENCE
// (looking through pointers, slices and "Value"/"List" wrappers, which all hand the "set" parameter down).
func (g *Gen) OrderDependent(t reflect.Type) bool {
	for {
		switch {
		case g.NoSet[t]:
			return true
		case t.Kind() == reflect.Ptr || (t.Kind() == reflect.Slice && t != asn.OctetStringType):
			t = t.Elem()
		case Classify(t) == KWrap:
			t = t.Field(0).Type
		default:
			return false
		}
	}
}

func (g *Gen) randStruct(depth int, kind string) reflect.Type {
	n := 1 + g.R.Intn(4)
	var fs []reflect.StructField
	if kind == "choice" {
		fs = append(fs, reflect.StructField{Name: "Present", Type: reflect.TypeOf(int(0))})
	}
	// ordered: a SEQUENCE that relies on the order of its members -- an identifier (context tag or, for a member
	// declared without one, the universal identifier of its type) may be used again once every earlier member
	// carrying it is mandatory, as ASN.1 allows.  Such a type is never used as a SET (NoSet).
	ordered := kind == "seq" && g.R.Intn(3) == 0
	type use struct{ optional bool }
	used := map[string][]use{}
	free := func(key string) bool {
		if !ordered {
			return len(used[key]) == 0
		}
		for _, u := range used[key] {
			if u.optional {
				return false
			}
		}
		return true
	}
	reused := false
	for i := 0; i < n; i++ {
		ft := g.RandType(depth - 1)
		k := Classify(ft)
		optional := kind != "choice" && g.R.Intn(3) == 0
		// the identifier of the member: no context tag (matched by the universal identifier of its type), an
		// identifier already in use where the order allows it, or a fresh context tag
		tag, key := "", ""
		if u := untaggedIdent(ft); u != 0 && g.R.Intn(4) == 0 && free(fmt.Sprintf("univ:%d", u)) {
			key = fmt.Sprintf("univ:%d", u)
			g.Stats["member:untagged"]++
		} else {
			for {
				tn := g.tagNum()
				if ordered && g.R.Intn(2) == 0 && i > 0 {
					// try the tag of the previous member again
					prev := fs[len(fs)-1].Tag.Get("ber")
					if strings.HasPrefix(prev, "tagNum:") {
						fmt.Sscanf(prev, "tagNum:%d", &tn)
					}
				}
				key = fmt.Sprintf("ctx:%d", tn)
				if free(key) {
					tag = fmt.Sprintf("tagNum:%d", tn)
					break
				}
			}
		}
		if len(used[key]) > 0 {
			reused = true
			g.Stats["member:identifier-reused"]++
		}
		used[key] = append(used[key], use{optional})
		untagged := tag == ""
		add := func(x string) {
			if tag == "" {
				tag = x
			} else {
				tag += "," + x
			}
		}
		if kind == "choice" {
			ft = reflect.PtrTo(ft)
		} else {
			if optional {
				if !(k == KSlice || k == KOctets) {
					ft = reflect.PtrTo(ft)
				}
				add("optional")
			} else if g.R.Intn(4) == 0 {
				ft = reflect.PtrTo(ft)
			}
		}
		if k == KSeq && g.R.Intn(3) == 0 && !untagged && !g.OrderDependent(ft) {
			add("set")
		}
		if g.Explicit && kind != "choice" && k != KChoice && !untagged && g.R.Intn(3) == 0 {
			add("explicit")
		}
		if k == KString && !untagged {
			// strings need a string type when their universal tag is visible
			add([]string{"utf8", "ia5", "graphic"}[g.R.Intn(3)])
		}
		// a name starting with an upper-case letter other than Value/List/Present
		fs = append(fs, reflect.StructField{Name: fmt.Sprintf("F%d", i), Type: ft, Tag: reflect.StructTag(`ber:"` + tag + `"`)})
	}
	t := reflect.StructOf(fs)
	if reused {
		if g.NoSet == nil {
			g.NoSet = map[reflect.Type]bool{}
		}
		g.NoSet[t] = true
	}
	return t
}
