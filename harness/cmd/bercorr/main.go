// bercorr: correspondence driver for cdr/asn (C04, C05, C16).
//
//	-mode rt  : values of schema types, random types and primitives are
//	            marshalled and unmarshalled by the real codec (under recover);
//	            cases (type, params, value, Go bytes, Go decoded value) go to
//	            BerCases<k>.v for evaluation against the Coq model and monitors.
//	-mode dec : arbitrary / mutated byte strings are unmarshalled by the real
//	            decoder; cases (type, params, bytes, Go outcome) likewise.
//	-mode sweep : Go-side monitor only: every byte string up to -sweeplen
//	            octets into the primitive types, counting panics.
package main

import (
	"flag"
	"fmt"
	"hash/fnv"
	"math/rand"
	"os"
	"path/filepath"
	"reflect"
	"sort"
	"strings"
	"time"

	"github.com/free5gc/chf/cdr/asn"
	"github.com/free5gc/chf/verifh/berlib"
	"github.com/free5gc/chf/verifh/cdrreg"
)

type tcase struct {
	t      reflect.Type
	tyCoq  string
	params string
	kind   string
}

func marshal(v interface{}, p string) (bs []byte, res string) {
	defer func() {
		if r := recover(); r != nil {
			bs, res = nil, "Panic"
		}
	}()
	b, err := asn.BerMarshalWithParams(v, p)
	if err != nil {
		return nil, "Err"
	}
	return b, "Ok"
}

// unmarshal under recover and a deadline
func unmarshal(bs []byte, t reflect.Type, p string) (val reflect.Value, res string) {
	type out struct {
		v reflect.Value
		r string
	}
	ch := make(chan out, 1)
	go func() {
		ptr := reflect.New(t)
		defer func() {
			if r := recover(); r != nil {
				ch <- out{ptr.Elem(), "Panic"}
			}
		}()
		if err := asn.UnmarshalWithParams(bs, ptr.Interface(), p); err != nil {
			ch <- out{ptr.Elem(), "Err"}
			return
		}
		ch <- out{ptr.Elem(), "Ok"}
	}()
	select {
	case o := <-ch:
		return o.v, o.r
	case <-time.After(5 * time.Second):
		return reflect.Value{}, "Timeout"
	}
}

var conv = berlib.NewConv()

func tyRef(t reflect.Type) string {
	if n, ok := conv.Names[t]; ok {
		return n
	}
	return conv.Ty(t)
}

type writer struct {
	files []*os.File
	first []bool
	n     int
}

func newWriter(dir, prefix, recname string, shards int) *writer {
	w := &writer{}
	for s := 0; s < shards; s++ {
		f, err := os.Create(filepath.Join(dir, fmt.Sprintf("%s%d.v", prefix, s)))
		if err != nil {
			panic(err)
		}
		fmt.Fprintf(f, "From Coq Require Import List ZArith String.\nFrom Verif Require Import Common.Outcome Common.Bytes Ber.Model Ber.SchemaGen Ber.Corr.\nImport ListNotations.\nOpen Scope Z_scope.\nDefinition cases : list %s := [\n", recname)
		w.files = append(w.files, f)
		w.first = append(w.first, false)
	}
	return w
}

func (w *writer) add(line string) {
	s := w.n % len(w.files)
	if w.first[s] {
		fmt.Fprintf(w.files[s], ";\n")
	}
	w.first[s] = true
	fmt.Fprint(w.files[s], line)
	w.n++
}

func (w *writer) close(runner string) {
	for _, f := range w.files {
		fmt.Fprintf(f, "\n].\nDefinition M := Eval vm_compute in %s cases.\nPrint M.\n", runner)
		f.Close()
	}
}

func trunc(s string, n int) string {
	if len(s) > n {
		return s[:n] + "..."
	}
	return s
}

func hashOf(s string) uint64 {
	h := fnv.New64a()
	h.Write([]byte(s))
	return h.Sum64()
}

var primTypes = []struct {
	name string
	t    reflect.Type
	coq  string
}{
	{"int64", reflect.TypeOf(int64(0)), "TInt"},
	{"bool", reflect.TypeOf(false), "TBool"},
	{"OctetString", asn.OctetStringType, "TOctets"},
	{"BitString", asn.BitStringType, "TBits"},
	{"Enumerated", asn.EnumeratedType, "TEnum"},
	{"UTF8String", reflect.TypeOf(asn.UTF8String("")), "(TString 12)"},
	{"NULL", asn.NullType, "TNull"},
}

func main() {
	seed := flag.Int64("seed", 1, "seed")
	n := flag.Int("n", 600, "cases")
	mode := flag.String("mode", "rt", "rt|dec|sweep")
	shards := flag.Int("shards", 8, "shards")
	out := flag.String("out", ".", "output dir")
	sweeplen := flag.Int("sweeplen", 2, "sweep: max input length")
	flag.Parse()
	rng := rand.New(rand.NewSource(*seed))
	g := &berlib.Gen{R: rng, Stats: map[string]int{}}
	for _, t := range cdrreg.Types {
		conv.Register(t)
	}
	for _, t := range cdrreg.Types {
		conv.Ty(t)
	}
	devnull, _ := os.OpenFile(os.DevNull, os.O_WRONLY, 0)
	stdout := os.Stdout
	os.Stdout = devnull // the codec prints diagnostics
	defer func() { os.Stdout = stdout }()

	index, _ := os.Create(filepath.Join(*out, *mode+"_index.tsv"))
	defer index.Close()

	topParams := []string{"", "", "explicit,choice", "tagNum:0", "tagNum:30", "tagNum:31", "tagNum:127", "tagNum:128", "tagNum:16384", "tagNum:2097152", "set", "utf8", "tagNum:5,ia5"}

	pickType := func(i int) tcase {
		switch {
		case i%3 == 0: // schema types, round robin so that all 195 are hit
			t := cdrreg.Types[(i/3)%len(cdrreg.Types)]
			p := []string{"", "explicit,choice", "tagNum:7"}[rng.Intn(3)]
			return tcase{t, tyRef(t), p, "schema:" + t.Name()}
		case i%3 == 1:
			g.Explicit = i%12 == 1
			t := g.RandType(1 + rng.Intn(3))
			p := topParams[rng.Intn(len(topParams))]
			if p == "set" && g.OrderDependent(t) {
				p = ""
			}
			if berlib.Classify(t) == berlib.KString && !strings.Contains(p, "utf8") && !strings.Contains(p, "ia5") {
				p = strings.TrimPrefix(p+",utf8", ",")
			}
			kind := "random"
			if g.Explicit {
				kind = "random-explicit"
				if rng.Intn(2) == 0 {
					p = "explicit,tagNum:3"
				}
			}
			return tcase{t, tyRef(t), p, kind}
		default:
			pt := primTypes[rng.Intn(len(primTypes))]
			p := topParams[rng.Intn(len(topParams))]
			if strings.HasPrefix(pt.coq, "(TString") && !strings.Contains(p, "utf8") && !strings.Contains(p, "ia5") {
				p = strings.TrimPrefix(p+",graphic", ",")
			}
			return tcase{pt.t, pt.coq, p, "prim:" + pt.name}
		}
	}

	switch *mode {
	case "rt":
		w := newWriter(*out, "BerCases", "bcase", *shards)
		for i := 0; i < *n; i++ {
			tc := pickType(i)
			v := reflect.New(tc.t).Elem()
			g.Fill(v, 0, true)
			val := berlib.CoqValue(v)
			bs, res := marshal(v.Interface(), tc.params)
			encS := res
			decS := "Err"
			if res == "Ok" {
				encS = "(Ok " + berlib.Compress(bs) + ")"
				dv, dres := unmarshal(bs, tc.t, tc.params)
				decS = dres
				if dres == "Ok" {
					decS = "(Ok " + berlib.CoqValue(dv) + ")"
				} else if dres == "Timeout" {
					decS = "OutOfFuel"
				}
			} else {
				decS = "Err"
			}
			pp := berlib.ParseParams(tc.params)
			w.add(fmt.Sprintf("mkBcase %d %s %s\n  %s\n  %s\n  %s", i, tc.tyCoq, pp.Coq(), val, encS, decS))
			nontrivial := res == "Ok" && len(bs) > 2
			fmt.Fprintf(index, "%d\t%s\t%s\t%x\t%v\t%d\t%s\n", i, tc.kind, tc.params, hashOf(tc.tyCoq+val+tc.params), nontrivial, len(bs), trunc(tc.tyCoq+" | "+tc.params+" | "+val, 300))
		}
		w.close("run_bcases")
	case "dec":
		w := newWriter(*out, "DecCases", "dcase", *shards)
		emit := func(i int, tc tcase, bs []byte, how string) {
			dv, dres := unmarshal(bs, tc.t, tc.params)
			decS := dres
			g.Stats["outcome:"+how+":"+dres]++
			if dres == "Ok" {
				decS = "(Ok " + berlib.CoqValue(dv) + ")"
			} else if dres == "Timeout" {
				decS = "OutOfFuel"
			}
			pp := berlib.ParseParams(tc.params)
			w.add(fmt.Sprintf("mkDcase %d %s %s %s %s", i, tc.tyCoq, pp.Coq(), berlib.Compress(bs), decS))
			fmt.Fprintf(index, "%d\t%s\t%s\t%x\t%v\t%d\t%s\n", i, how, tc.params, hashOf(tc.tyCoq+string(bs)+tc.params), len(bs) > 0, len(bs), trunc(tc.tyCoq+" | "+fmt.Sprintf("%x", bs), 200))
		}
		i := 0
		// fixed corpus of classic malformed inputs into every primitive type
		corpus := [][]byte{{}, {0x02}, {0x02, 0x82, 0x01}, {0x01, 0x00}, {0x02, 0x00}, {0x03, 0x00}, {0x03, 0x01, 0x09}, {0x03, 0x02, 0x09, 0xff},
			{0x1f}, {0x1f, 0x81}, {0x1f, 0x81, 0x82, 0x83, 0x84, 0x85, 0x86, 0x87, 0x88, 0x89, 0x8a, 0x01, 0x00}, {0x02, 0x85, 1, 2, 3, 4, 5}, {0x02, 0x84, 0xff, 0xff, 0xff, 0xff},
			{0x02, 0x09, 1, 2, 3, 4, 5, 6, 7, 8, 9}, {0x30, 0x0a, 0x02, 0x88, 0xff, 0xff, 0xff, 0xff, 0xff, 0xff, 0xff, 0xf6}, {0x04, 0x88, 0xff, 0xff, 0xff, 0xff, 0xff, 0xff, 0xff, 0xf0}, {0x30, 0x0b, 0x80, 0x88, 0x80, 0, 0, 0, 0, 0, 0, 1, 0x05}, {0x02, 0x85, 0, 0, 0, 0, 1, 7}, {0x04, 0x01, 0x05}, {0x30, 0x03, 0x80, 0x01}, {0x30, 0x80}, {0xa0, 0x03, 0x02, 0x01, 0x05}, {0x02, 0x81, 0x01, 0x07}}
		for _, c := range corpus {
			for _, pt := range primTypes {
				emit(i, tcase{pt.t, pt.coq, "", "prim"}, c, "corpus")
				i++
			}
			for _, t := range []reflect.Type{reflect.TypeOf([]int64{}), reflect.TypeOf([]asn.OctetString{})} {
				emit(i, tcase{t, tyRef(t), "", "slice"}, c, "corpus")
				i++
			}
			for _, t := range []reflect.Type{cdrreg.Types[14], cdrreg.Types[100]} {
				emit(i, tcase{t, tyRef(t), "explicit,choice", "schema"}, c, "corpus")
				i++
			}
		}
		for i < *n {
			tc := pickType(i)
			v := reflect.New(tc.t).Elem()
			g.Fill(v, 0, false)
			bs, res := marshal(v.Interface(), tc.params)
			if res != "Ok" || len(bs) == 0 {
				// random short bytes instead
				bs = g.Bytes(rng.Intn(6))
				emit(i, tc, bs, "random-bytes")
				i++
				continue
			}
			m := append([]byte{}, bs...)
			how := ""
			switch rng.Intn(9) {
			case 7, 8:
				// wrong type: rewrite the identifier octets of some (possibly nested) element,
				// keeping its length and contents
				hs := tlvHeaders(m, 0, 0)
				if len(hs) > 0 {
					h := hs[0]
					if rng.Intn(3) == 0 {
						h = hs[rng.Intn(len(hs))]
					}
					old := m[h.start]
					var id []byte
					switch rng.Intn(6) {
					case 0:
						id = []byte{old ^ 0x20} // other form
					case 1:
						id = []byte{old ^ byte(0x40<<uint(rng.Intn(2)))} // other class
					case 2:
						id = []byte{old&0xe0 | byte(rng.Intn(31))} // other low tag number
					case 3:
						id = []byte{byte(rng.Intn(31))} // some universal primitive
					case 4:
						tn := []uint64{31, 127, 128, 16384, 2097152}[rng.Intn(5)]
						id = []byte{old | 0x1f}
						var tmp []byte
						for ; tn > 0; tn >>= 7 {
							tmp = append([]byte{byte(tn & 0x7f)}, tmp...)
						}
						for k := 0; k < len(tmp)-1; k++ {
							tmp[k] |= 0x80
						}
						id = append(id, tmp...)
					default:
						id = []byte{byte(rng.Intn(256))}
						if id[0]&0x1f == 0x1f {
							id = append(id, byte(1+rng.Intn(126)))
						}
					}
					nm := append([]byte{}, m[:h.start]...)
					nm = append(nm, id...)
					nm = append(nm, m[h.lenStart:]...)
					m = nm
				}
				how = "retag"
			case 0:
				m = m[:rng.Intn(len(m))]
				how = "truncate"
			case 1:
				k := rng.Intn(len(m))
				m[k] ^= 1 << uint(rng.Intn(8))
				how = "bitflip"
			case 2:
				// overshoot a length octet
				k := 1
				if len(m) > 1 {
					m[k] = byte(int(m[k]) + 1 + rng.Intn(3))
				}
				how = "length+"
			case 3:
				m = append(m, g.Bytes(1+rng.Intn(3))...)
				how = "trailing"
			case 4:
				k := rng.Intn(len(m))
				m[k] = byte(rng.Intn(256))
				how = "byte-replace"
			default:
				// rewrite the length octets of some (possibly nested) element in long form
				hs := tlvHeaders(m, 0, 0)
				if len(hs) > 0 {
					h := hs[rng.Intn(len(hs))]
					n := 1 + rng.Intn(9)
					var v uint64
					switch rng.Intn(6) {
					case 0:
						v = uint64(h.length) // same length, non-minimal form
					case 1:
						v = ^uint64(0) - uint64(rng.Intn(32)) // top bits set: negative as int64
					case 2:
						v = uint64(1)<<63 + uint64(rng.Intn(16))
					case 3:
						v = uint64(h.length) + uint64(1+rng.Intn(3))
					case 4:
						v = uint64(int64(-(h.contentStart - h.start))) // minus the header size
					default:
						v = rng.Uint64()
					}
					lo := []byte{0x80 | byte(n)}
					for i := n - 1; i >= 0; i-- {
						if i >= 8 {
							lo = append(lo, 0)
						} else {
							lo = append(lo, byte(v>>(8*uint(i))))
						}
					}
					nm := append([]byte{}, m[:h.lenStart]...)
					nm = append(nm, lo...)
					nm = append(nm, m[h.contentStart:]...)
					m = nm
				}
				how = "length-form"
			}
			if len(m) > 3000 {
				m = m[:3000]
			}
			emit(i, tc, m, how)
			i++
		}
		w.close("run_dcases")
	case "sweep":
		// Go-side monitor: exhaustive short inputs into primitive and a few schema types
		targets := []tcase{}
		for _, pt := range primTypes {
			targets = append(targets, tcase{pt.t, pt.coq, "", "prim"})
		}
		for _, k := range []int{14, 15, 30, 100, 120} {
			t := cdrreg.Types[k%len(cdrreg.Types)]
			targets = append(targets, tcase{t, "", "explicit,choice", "schema"})
		}
		total, panics := 0, 0
		var firstPanic string
		var rec func(prefix []byte, depth int)
		rec = func(prefix []byte, depth int) {
			for _, tc := range targets {
				_, res := unmarshalFast(prefix, tc.t, tc.params)
				total++
				if res == "Panic" {
					panics++
					if firstPanic == "" {
						firstPanic = fmt.Sprintf("%x into %s", prefix, tc.t.String())
					}
				}
			}
			if depth == 0 {
				return
			}
			for b := 0; b < 256; b++ {
				rec(append(prefix, byte(b)), depth-1)
			}
		}
		rec([]byte{}, *sweeplen)
		os.Stdout = stdout
		fmt.Printf("sweep total=%d panics=%d first=%q\n", total, panics, firstPanic)
		return
	}
	os.Stdout = stdout
	fmt.Printf("cases=%d mode=%s\n", *n, *mode)
	keys := make([]string, 0, len(g.Stats))
	for k := range g.Stats {
		keys = append(keys, k)
	}
	sort.Strings(keys)
	for _, k := range keys {
		fmt.Printf("class %s %d\n", k, g.Stats[k])
	}
}

type hdrPos struct{ start, lenStart, contentStart, length int }

// tlvHeaders walks a (valid) BER encoding and returns the position of every header, nested ones included.
func tlvHeaders(bs []byte, off int, depth int) []hdrPos {
	var out []hdrPos
	for off < len(bs) && depth < 12 {
		start := off
		b0 := bs[off]
		off++
		if b0&0x1f == 0x1f {
			for off < len(bs) && bs[off]&0x80 != 0 {
				off++
			}
			off++
		}
		if off >= len(bs) {
			break
		}
		lenStart := off
		l := int(bs[off])
		off++
		if l > 127 {
			n := l & 0x7f
			if n > 4 || off+n > len(bs) {
				break
			}
			l = 0
			for i := 0; i < n; i++ {
				l = l<<8 | int(bs[off+i])
			}
			off += n
		}
		if off+l > len(bs) {
			break
		}
		out = append(out, hdrPos{start, lenStart, off, l})
		if b0&0x20 != 0 {
			for _, h := range tlvHeaders(bs[off:off+l], 0, depth+1) {
				out = append(out, hdrPos{h.start + off, h.lenStart + off, h.contentStart + off, h.length})
			}
		}
		off += l
	}
	return out
}

func unmarshalFast(bs []byte, t reflect.Type, p string) (val reflect.Value, res string) {
	ptr := reflect.New(t)
	defer func() {
		if r := recover(); r != nil {
			val, res = ptr.Elem(), "Panic"
		}
	}()
	if err := asn.UnmarshalWithParams(bs, ptr.Interface(), p); err != nil {
		return ptr.Elem(), "Err"
	}
	return ptr.Elem(), "Ok"
}
