// berexample: prints, as a Coq term, the CHFRecord that OpenCDR/UpdateCDR build
// for a typical session (used as the non-vacuity example of C05).
package main

import (
	"fmt"
	"reflect"
	"time"

	"github.com/free5gc/chf/cdr/asn"
	"github.com/free5gc/chf/cdr/cdrConvert"
	"github.com/free5gc/chf/cdr/cdrType"
	"github.com/free5gc/chf/verifh/berlib"
	"github.com/free5gc/openapi/models"
)

func main() {
	t := time.Date(2026, 9, 30, 12, 0, 0, 0, time.FixedZone("", 3600))
	seq := int64(1)
	rec := cdrType.ChargingRecord{
		RecordType:                 cdrType.RecordType{Value: 200},
		RecordingNetworkFunctionID: cdrType.NetworkFunctionName{Value: asn.IA5String("CHF")},
		SubscriberIdentifier: &cdrType.SubscriptionID{
			SubscriptionIDType: cdrType.SubscriptionIDType{Value: cdrType.SubscriptionIDTypePresentENDUSERIMSI},
			SubscriptionIDData: asn.UTF8String("208930000000001"),
		},
		RecordOpeningTime:         cdrConvert.TimeStampToCdr(&t),
		Duration:                  cdrType.CallDuration{Value: 0},
		LocalRecordSequenceNumber: &cdrType.LocalSequenceNumber{Value: seq},
		ChargingSessionIdentifier: &cdrType.ChargingSessionIdentifier{Value: asn.OctetString("imsi-208930000000001smf10")},
		ChargingID:                &cdrType.ChargingID{Value: 7},
	}
	rec.NFunctionConsumerInformation.NetworkFunctionName = &cdrType.NetworkFunctionName{Value: asn.IA5String("smf1")}
	rec.NFunctionConsumerInformation.NetworkFunctionality.Value = cdrType.NetworkFunctionalityPresentSMF
	rec.ListOfMultipleUnitUsage = cdrConvert.MultiUnitUsageToCdr([]models.ChfConvergedChargingMultipleUnitUsage{{
		RatingGroup: 1, UPFID: "upf",
		UsedUnitContainer: []models.ChfConvergedChargingUsedUnitContainer{{TotalVolume: 40, UplinkVolume: 10, DownlinkVolume: 30, LocalSequenceNumber: 3}},
	}})
	cdr := cdrType.CHFRecord{Present: 1, ChargingFunctionRecord: &rec}
	fmt.Println(berlib.CoqValue(reflect.ValueOf(cdr)))
}
