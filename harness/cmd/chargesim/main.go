// chargesim drives the real CHF (router + processor + rf/abmf Diameter servers
// + fake MongoDB, all in-process) with a script of JSON-line operations read
// from stdin and writes exactly one JSON line of observations per operation to
// stdout.  See the harness documentation for the operation and output formats.
package main

import (
	"bufio"
	"bytes"
	"encoding/hex"
	"encoding/json"
	"flag"
	"fmt"
	"net/url"
	"os"
	"path/filepath"
	"regexp"
	"runtime"
	"sort"
	"strconv"
	"strings"
	"sync"
	"time"

	"github.com/sirupsen/logrus"

	"github.com/free5gc/chf/cdr/asn"
	"github.com/free5gc/chf/cdr/cdrType"

	chf_context "github.com/free5gc/chf/internal/context"
	"github.com/free5gc/chf/verifh/faultproxy"
	"github.com/free5gc/chf/verifh/stack"
)

const ccPrefix = "/nchf-convergedcharging/v3"

type op struct {
	Op       string              `json:"op"`
	Supi     string              `json:"supi"`
	Rg       int64               `json:"rg"`
	Quota    *string             `json:"quota"`
	UnitCost *string             `json:"unitCost"`
	Body     json.RawMessage     `json:"body"`
	Ref      string              `json:"ref"`
	Param    string              `json:"param"`
	Method   string              `json:"method"`
	Path     string              `json:"path"`
	Headers  map[string]string   `json:"headers"`
	Ms       int                 `json:"ms"`
	Peer     string              `json:"peer"`    // fault: rf | abmf
	Actions  []faultproxy.Action `json:"actions"` // fault: what happens to the next application answers
	N        string              `json:"n"`       // elapse: how far the record counter advances
	Burst    []op                `json:"burst"`   // burst: requests served concurrently (the first one is started Ms earlier)
}

type ueState struct {
	Reserved     map[string]int64  `json:"reserved"`
	RatingType   map[string]int    `json:"ratingType"`
	UnitCost     map[string]uint32 `json:"unitCost"`
	AcctReqNum   map[string]uint32 `json:"acctReqNum"`
	RatingGroups []int32           `json:"ratingGroups"`
	NotifyUri    string            `json:"notifyUri"`
	NRecords     int               `json:"nrecords"`
	CdrKeys      []string          `json:"cdrKeys"`
	RecordSeq    []int64           `json:"recordSeq"`
	Records      []recSummary      `json:"records"`
	CdrIndex     map[string]int    `json:"cdrIndex"` // session reference -> index of its record in Records (-1: not there)
}

// recSummary: the members of one CHF record that the properties speak about, read
// from the in-memory record (ChfUe.Records), plus the size of its BER encoding.
type recSummary struct {
	SessionId  string    `json:"sessionId"`
	Subscriber string    `json:"subscriber"`
	SubType    int64     `json:"subType"`
	ChargingId int64     `json:"chargingId"`
	Consumer   string    `json:"consumer"`
	Cause      int64     `json:"cause"`
	Lrsn       int64     `json:"lrsn"`
	RecSeq     int64     `json:"recSeq"`
	OpenTs     string    `json:"openTs"`
	Usages     [][]int64 `json:"usages"` // [rg, total, uplink, downlink, serviceSpecificUnits, localSequenceNumber]
	BerLen     int       `json:"berLen"`
}

func summarize(r *cdrType.CHFRecord) (s recSummary) {
	s = recSummary{Lrsn: -1, RecSeq: -1, ChargingId: -1, SubType: -1, Usages: [][]int64{}, BerLen: -1}
	defer func() { _ = recover() }()
	if r == nil || r.ChargingFunctionRecord == nil {
		return s
	}
	c := r.ChargingFunctionRecord
	if c.ChargingSessionIdentifier != nil {
		s.SessionId = string(c.ChargingSessionIdentifier.Value)
	}
	if c.SubscriberIdentifier != nil {
		s.Subscriber = string(c.SubscriberIdentifier.SubscriptionIDData)
		s.SubType = int64(c.SubscriberIdentifier.SubscriptionIDType.Value)
	}
	if c.ChargingID != nil {
		s.ChargingId = c.ChargingID.Value
	}
	if c.NFunctionConsumerInformation.NetworkFunctionName != nil {
		s.Consumer = string(c.NFunctionConsumerInformation.NetworkFunctionName.Value)
	}
	s.Cause = int64(c.CauseForRecClosing.Value)
	if c.LocalRecordSequenceNumber != nil {
		s.Lrsn = c.LocalRecordSequenceNumber.Value
	}
	if c.RecordSequenceNumber != nil {
		s.RecSeq = *c.RecordSequenceNumber
	}
	s.OpenTs = hex.EncodeToString(c.RecordOpeningTime.Value)
	d := func(p *cdrType.DataVolumeOctets) int64 {
		if p == nil {
			return -1
		}
		return p.Value
	}
	for _, m := range c.ListOfMultipleUnitUsage {
		for _, u := range m.UsedUnitContainers {
			ssu, lsn := int64(-1), int64(-1)
			if u.ServiceSpecificUnits != nil {
				ssu = *u.ServiceSpecificUnits
			}
			if u.LocalSequenceNumber != nil {
				lsn = u.LocalSequenceNumber.Value
			}
			s.Usages = append(s.Usages, []int64{m.RatingGroup.Value, d(u.DataTotalVolume), d(u.DataVolumeUplink), d(u.DataVolumeDownlink), ssu, lsn})
		}
		if len(m.UsedUnitContainers) == 0 {
			s.Usages = append(s.Usages, []int64{m.RatingGroup.Value, -2, -2, -2, -2, -2})
		}
	}
	if b, err := asn.BerMarshalWithParams(&r, "explicit,choice"); err == nil {
		s.BerLen = len(b)
	}
	return s
}

type notif struct {
	Method string      `json:"method"`
	Path   string      `json:"path"`
	Body   interface{} `json:"body"`
}

type result struct {
	I             int                               `json:"i"`
	Op            string                            `json:"op,omitempty"`
	Error         string                            `json:"error,omitempty"`
	Status        int                               `json:"status"`
	Location      string                            `json:"location"`
	Body          interface{}                       `json:"body"`
	Hung          bool                              `json:"hung"`
	ElapsedMs     int64                             `json:"elapsed_ms"`
	ElapsedUs     int64                             `json:"elapsed_us"`
	DB            map[string]map[string]interface{} `json:"db"`
	Ues           map[string]*ueState               `json:"ues"`
	Lrsn          uint64                            `json:"lrsn"`
	CdrFiles      map[string]string                 `json:"cdrfiles"`
	Notifications []notif                           `json:"notifications"`
	Goroutines    int                               `json:"goroutines"`
	RfConns       int                               `json:"rfConns"`
	AbmfConns     int                               `json:"abmfConns"`
	RfEvents      []faultproxy.Event                `json:"rfEvents,omitempty"`
	AbmfEvents    []faultproxy.Event                `json:"abmfEvents,omitempty"`
	Suas          int64                             `json:"suas"`
	Ccas          int64                             `json:"ccas"`
	Sub           []*result                         `json:"sub,omitempty"`
	ErrLog        []string                          `json:"errlog,omitempty"`
}

// parseBody renders a response body as parsed JSON (numbers kept exact) when
// it is JSON, as a string otherwise.
func parseBody(b []byte) interface{} {
	if len(bytes.TrimSpace(b)) == 0 {
		return string(b)
	}
	dec := json.NewDecoder(bytes.NewReader(b))
	dec.UseNumber()
	var v interface{}
	if err := dec.Decode(&v); err != nil {
		return string(b)
	}
	if dec.More() {
		return string(b)
	}
	return v
}

func snapshotUes() (out map[string]*ueState) {
	out = map[string]*ueState{}
	defer func() { _ = recover() }()
	chf_context.GetSelf().UePool.Range(func(k, v interface{}) bool {
		supi, _ := k.(string)
		ue, ok := v.(*chf_context.ChfUe)
		if !ok || ue == nil {
			return true
		}
		out[supi] = snapshotUe(ue)
		return true
	})
	return out
}

func snapshotUe(ue *chf_context.ChfUe) (st *ueState) {
	st = &ueState{
		Reserved:     map[string]int64{},
		RatingType:   map[string]int{},
		UnitCost:     map[string]uint32{},
		AcctReqNum:   map[string]uint32{},
		RatingGroups: []int32{},
		CdrKeys:      []string{},
		RecordSeq:    []int64{},
		Records:      []recSummary{},
		CdrIndex:     map[string]int{},
	}
	defer func() { _ = recover() }()
	for rg, v := range ue.ReservedQuota {
		st.Reserved[strconv.Itoa(int(rg))] = v
	}
	for rg, v := range ue.RatingType {
		st.RatingType[strconv.Itoa(int(rg))] = int(v)
	}
	for rg, v := range ue.UnitCost {
		st.UnitCost[strconv.Itoa(int(rg))] = v
	}
	for rg, v := range ue.AcctRequestNum {
		st.AcctReqNum[strconv.Itoa(int(rg))] = v
	}
	st.RatingGroups = append(st.RatingGroups, ue.RatingGroups...)
	st.NotifyUri = ue.NotifyUri
	records := ue.Records
	st.NRecords = len(records)
	for k := range ue.Cdr {
		st.CdrKeys = append(st.CdrKeys, k)
	}
	sort.Strings(st.CdrKeys)
	for _, r := range records {
		seq := int64(-1)
		if r != nil && r.ChargingFunctionRecord != nil && r.ChargingFunctionRecord.LocalRecordSequenceNumber != nil {
			seq = r.ChargingFunctionRecord.LocalRecordSequenceNumber.Value
		}
		st.RecordSeq = append(st.RecordSeq, seq)
		st.Records = append(st.Records, summarize(r))
	}
	st.CdrIndex = map[string]int{}
	for k, r := range ue.Cdr {
		idx := -1
		for i, q := range records {
			if q == r {
				idx = i
			}
		}
		st.CdrIndex[k] = idx
	}
	return st
}

// cdrTracker watches the /tmp/<supi>.cdr files the CHF writes.
type cdrTracker struct {
	last    map[string][]byte // supi -> content at the previous look (nil = absent)
	touched map[string]bool   // files that appeared or changed during this run
}

// The CHF builds the name by plain concatenation; so do we.
func cdrPath(supi string) string { return "/tmp/" + supi + ".cdr" }

func readCdr(supi string) []byte {
	if supi == "" || strings.ContainsRune(supi, 0) {
		return nil
	}
	b, err := os.ReadFile(cdrPath(supi))
	if err != nil {
		return nil
	}
	if b == nil {
		b = []byte{}
	}
	return b
}

// baseline records the pre-operation content for SUPIs seen for the first time.
func (t *cdrTracker) baseline(supis []string) {
	for _, s := range supis {
		if _, ok := t.last[s]; !ok {
			t.last[s] = readCdr(s)
		}
	}
}

func (t *cdrTracker) changes(extra []string) map[string]string {
	out := map[string]string{}
	for _, s := range extra {
		if _, ok := t.last[s]; !ok {
			t.last[s] = nil
		}
	}
	for s, old := range t.last {
		cur := readCdr(s)
		if (cur == nil) != (old == nil) || !bytes.Equal(cur, old) {
			t.last[s] = cur
			if cur != nil {
				t.touched[s] = true
				out[s] = hex.EncodeToString(cur)
			}
		}
	}
	return out
}

func (t *cdrTracker) cleanup() {
	for s := range t.touched {
		p := filepath.Clean(cdrPath(s))
		if filepath.Dir(p) != "/tmp" || !strings.HasSuffix(p, ".cdr") {
			fmt.Fprintf(os.Stderr, "chargesim: not removing %q (outside /tmp)\n", p)
			continue
		}
		_ = os.Remove(p)
	}
}

var supiRe = regexp.MustCompile(`(?:imsi|nai|gci|gli)-[^"\\\s]*`)

// candidateSupis lists everything in the operation that could become a
// /tmp/<supi>.cdr name.
func candidateSupis(o *op, line []byte) []string {
	seen := map[string]bool{}
	var out []string
	add := func(s string) {
		if s != "" && !seen[s] {
			seen[s] = true
			out = append(out, s)
		}
	}
	add(o.Supi)
	if len(o.Body) > 0 {
		var b struct {
			SubscriberIdentifier string `json:"subscriberIdentifier"`
		}
		if json.Unmarshal(o.Body, &b) == nil {
			add(b.SubscriberIdentifier)
		}
	}
	if i := strings.LastIndex(o.Param, "_"); i > 0 {
		add(o.Param[:i])
	}
	for _, m := range supiRe.FindAll(line, -1) {
		add(string(m))
	}
	return out
}

func main() {
	dir := flag.String("dir", "", "scratch directory (required)")
	timeout := flag.Duration("timeout", 15*time.Second, "per-operation timeout")
	services := flag.String("services", "", "comma separated serviceNameList (default nchf-convergedcharging)")
	volumeLimit := flag.Int("volume-limit", 0, "configuration.volumeLimit")
	volumeLimitPDU := flag.Int("volume-limit-pdu", 0, "configuration.volumeLimitPDU")
	quotaValidity := flag.Int("quota-validity", 0, "configuration.quotaValidityTime")
	oauth := flag.Bool("oauth", false, "set OAuth2Required in the CHF context")
	faults := flag.Bool("faults", false, "relay the Diameter clients through fault-injecting proxies (op \"fault\")")
	countAns := flag.Bool("countanswers", false, "count the Diameter answers received by the CHF's clients (trace log level)")
	errlog := flag.Bool("errlog", false, "add the CHF's error-level log lines of each op as \"errlog\"")
	logFile := flag.String("log", "", "write the CHF log (debug level) to this file (must be inside -dir)")
	flag.Parse()
	if *dir == "" {
		fmt.Fprintln(os.Stderr, "chargesim: -dir is required")
		os.Exit(2)
	}

	opts := stack.Options{
		VolumeLimit:       int32(*volumeLimit),
		VolumeLimitPDU:    int32(*volumeLimitPDU),
		QuotaValidityTime: int32(*quotaValidity),
		OAuth2Required:    *oauth,
		CaptureErrors:     *errlog,
		CountAnswers:      *countAns,
		FaultProxies:      *faults,
	}
	for _, s := range strings.Split(*services, ",") {
		if s = strings.TrimSpace(s); s != "" {
			opts.Services = append(opts.Services, s)
		}
	}
	if err := os.MkdirAll(*dir, 0o755); err != nil {
		fmt.Fprintln(os.Stderr, "chargesim:", err)
		os.Exit(1)
	}
	if *logFile != "" {
		f, err := os.OpenFile(*logFile, os.O_CREATE|os.O_WRONLY|os.O_TRUNC, 0o644)
		if err != nil {
			fmt.Fprintln(os.Stderr, "chargesim:", err)
			os.Exit(1)
		}
		defer f.Close()
		opts.LogOutput = f
		opts.LogLevel = logrus.TraceLevel
	}

	st, err := stack.Start(*dir, opts)
	if err != nil {
		fmt.Fprintln(os.Stderr, "chargesim: start:", err)
		os.Exit(1)
	}
	tracker := &cdrTracker{last: map[string][]byte{}, touched: map[string]bool{}}
	code := run(st, tracker, *timeout)
	tracker.cleanup()
	st.Close()
	os.Exit(code)
}

func run(st *stack.Stack, tracker *cdrTracker, timeout time.Duration) int {
	in := bufio.NewReaderSize(os.Stdin, 1<<20)
	out := bufio.NewWriter(os.Stdout)
	defer out.Flush()
	enc := json.NewEncoder(out)
	enc.SetEscapeHTML(false)

	idx := 0
	for {
		line, rerr := in.ReadBytes('\n')
		if len(bytes.TrimSpace(line)) > 0 {
			res := doOp(st, tracker, idx, bytes.TrimSpace(line), timeout)
			if err := enc.Encode(res); err != nil {
				fmt.Fprintln(os.Stderr, "chargesim: encode:", err)
				return 1
			}
			if err := out.Flush(); err != nil {
				return 1
			}
			idx++
		}
		if rerr != nil {
			break
		}
	}
	return 0
}

func doOp(st *stack.Stack, tracker *cdrTracker, idx int, line []byte, timeout time.Duration) *result {
	res := &result{I: idx, Body: ""}
	var o op
	dec := json.NewDecoder(bytes.NewReader(line))
	if err := dec.Decode(&o); err != nil {
		res.Error = "bad op: " + err.Error()
		observe(st, tracker, res, nil, false)
		return res
	}
	res.Op = o.Op
	tracker.baseline(candidateSupis(&o, line))

	subst := func(b []byte) []byte {
		return bytes.ReplaceAll(b, []byte("$NOTIFY"), []byte(st.NotifyURL()))
	}
	var method, path string
	var body []byte
	headers := o.Headers
	isHTTP := true
	start := time.Now()
	switch o.Op {
	case "account":
		isHTTP = false
		st.PutAccount(o.Supi, o.Rg, o.Quota, o.UnitCost)
	case "sleep":
		isHTTP = false
		time.Sleep(time.Duration(o.Ms) * time.Millisecond)
	case "fault":
		// script the next application answers of one peer
		isHTTP = false
		switch {
		case st.RfProxy == nil:
			res.Error = "chargesim was not started with -faults"
		case o.Peer == "rf":
			st.RfProxy.Script(o.Actions)
		case o.Peer == "abmf":
			st.AbmfProxy.Script(o.Actions)
		default:
			res.Error = "peer must be rf or abmf"
		}
	case "stacks":
		// where the goroutines are: count per (top function, creator)
		isHTTP = false
		buf := make([]byte, 8<<20)
		n := runtime.Stack(buf, true)
		counts := map[string]int{}
		for _, g := range strings.Split(string(buf[:n]), "\n\n") {
			lines := strings.Split(g, "\n")
			top, created := "", ""
			for i, l := range lines {
				if i == 1 {
					top = strings.TrimSpace(l)
				}
				if strings.HasPrefix(l, "created by ") {
					created = strings.TrimSpace(strings.TrimPrefix(l, "created by "))
				}
			}
			if k := strings.Index(top, "("); k > 0 {
				top = top[:k]
			}
			if k := strings.Index(created, " in goroutine"); k > 0 {
				created = created[:k]
			}
			counts[top+" <- "+created]++
		}
		res.Body = counts
	case "elapse":
		// stands for n records opened for subscribers outside the history
		isHTTP = false
		n, err := strconv.ParseUint(o.N, 10, 64)
		if err != nil {
			res.Error = "bad n"
		} else {
			self := chf_context.GetSelf()
			self.Lock()
			self.LocalRecordSequenceNumber += n
			self.Unlock()
		}
	case "burst":
		isHTTP = false
		res.Sub = make([]*result, len(o.Burst))
		var wg sync.WaitGroup
		for i := range o.Burst {
			b := o.Burst[i]
			var m, pth string
			var bd []byte
			switch b.Op {
			case "create":
				m, pth, bd = "POST", ccPrefix+"/chargingdata", subst(b.Body)
			case "update":
				m, pth, bd = "POST", ccPrefix+"/chargingdata/"+url.PathEscape(b.Ref)+"/update", subst(b.Body)
			case "release":
				m, pth, bd = "POST", ccPrefix+"/chargingdata/"+url.PathEscape(b.Ref)+"/release", subst(b.Body)
			case "recharge":
				m, pth = "PUT", ccPrefix+"/recharging/"+url.PathEscape(b.Param)
			}
			wg.Add(1)
			go func(i int) {
				defer wg.Done()
				r := &result{I: i, Op: b.Op, Body: ""}
				t0 := time.Now()
				status, hdr, rb, hung := st.Do(m, pth, bd, b.Headers, timeout)
				r.Status, r.Hung, r.Location, r.Body = status, hung, hdr.Get("Location"), parseBody(rb)
				r.ElapsedUs = time.Since(t0).Microseconds()
				res.Sub[i] = r
			}(i)
			if i == 0 && o.Ms > 0 {
				time.Sleep(time.Duration(o.Ms) * time.Millisecond)
			}
		}
		wg.Wait()
	case "create":
		method, path, body = "POST", ccPrefix+"/chargingdata", subst(o.Body)
	case "update":
		method, path, body = "POST", ccPrefix+"/chargingdata/"+url.PathEscape(o.Ref)+"/update", subst(o.Body)
	case "release":
		method, path, body = "POST", ccPrefix+"/chargingdata/"+url.PathEscape(o.Ref)+"/release", subst(o.Body)
	case "recharge":
		method, path = "PUT", ccPrefix+"/recharging/"+url.PathEscape(o.Param)
	case "raw":
		method, path = o.Method, o.Path
		if len(o.Body) > 0 && string(o.Body) != "null" {
			var s string
			if json.Unmarshal(o.Body, &s) == nil {
				body = subst([]byte(s))
			} else {
				body = subst(o.Body)
			}
		}
	default:
		isHTTP = false
		res.Error = "unknown op " + strconv.Quote(o.Op)
	}

	if isHTTP {
		start = time.Now()
		status, hdr, rb, hung := st.Do(method, path, body, headers, timeout)
		res.Status = status
		res.Hung = hung
		res.Location = hdr.Get("Location")
		res.Body = parseBody(rb)
	}
	el := time.Since(start)
	res.ElapsedMs = el.Milliseconds()
	res.ElapsedUs = el.Microseconds()

	observe(st, tracker, res, &o, o.Op == "recharge")
	return res
}

func observe(st *stack.Stack, tracker *cdrTracker, res *result, o *op, waitNotify bool) {
	if waitNotify && st.NotificationCount() == 0 {
		deadline := time.Now().Add(200 * time.Millisecond)
		for st.NotificationCount() == 0 && time.Now().Before(deadline) {
			time.Sleep(5 * time.Millisecond)
		}
	}
	res.DB = st.DBSnapshot()
	res.Ues = snapshotUes()
	res.Lrsn = chf_context.GetSelf().LocalRecordSequenceNumber
	extra := make([]string, 0, len(res.Ues))
	for supi := range res.Ues {
		extra = append(extra, supi)
	}
	res.CdrFiles = tracker.changes(extra)
	res.Notifications = []notif{}
	for _, n := range st.DrainNotifications() {
		res.Notifications = append(res.Notifications, notif{Method: n.Method, Path: n.Path, Body: parseBody(n.Body)})
	}
	res.ErrLog = st.DrainErrorLogs()
	res.Goroutines = runtime.NumGoroutine()
	res.RfConns, res.AbmfConns = st.PeerConns()
	res.Suas, res.Ccas = st.Answers()
	if st.RfProxy != nil {
		res.RfEvents, res.AbmfEvents = st.RfProxy.Events(), st.AbmfProxy.Events()
	}
}
