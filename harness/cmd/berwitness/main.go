// berwitness: concrete witnesses for the BER codec defects found on the
// unchanged tree (see DESIGN.md section 7 and known_findings.txt).  Each line
// prints what the real asn package does; "want" is what C04/C05/C16 require.
// Run before and after the fix: commits; kept as a regression corpus.
package main

import (
	"encoding/hex"
	"fmt"
	"reflect"

	"github.com/free5gc/chf/cdr/asn"
	"github.com/free5gc/chf/cdr/cdrType"
)

func try(name, want string, f func() string) {
	defer func() {
		if r := recover(); r != nil {
			fmt.Printf("%-34s got PANIC(%v) | want %s\n", name, r, want)
		}
	}()
	fmt.Printf("%-34s got %s | want %s\n", name, f(), want)
}

func enc(v interface{}, p string) string {
	b, err := asn.BerMarshalWithParams(v, p)
	if err != nil {
		return "ERR(" + err.Error() + ")"
	}
	return hex.EncodeToString(b)
}

func dec(h string, v interface{}, p string) string {
	b, _ := hex.DecodeString(h)
	if err := asn.UnmarshalWithParams(b, v, p); err != nil {
		return "ERR(" + err.Error() + ")"
	}
	return fmt.Sprintf("%+v", reflect.ValueOf(v).Elem().Interface())
}

type optStruct struct {
	A *int64 `ber:"tagNum:0,optional"`
}
type choiceT struct {
	Present int
	A       *int64 `ber:"tagNum:0"`
	B       *int64 `ber:"tagNum:1"`
}
type holder struct {
	C choiceT `ber:"tagNum:5"`
}
type holderBig struct {
	C choiceBig `ber:"tagNum:5"`
}
type choiceBig struct {
	Present int
	S       *asn.OctetString `ber:"tagNum:0"`
}
type sliceOfChoice struct {
	L []choiceT `ber:"tagNum:0"`
}
type untagged struct {
	A int64 `ber:"tagNum:0"`
	B *int64 `ber:"optional"`
}
type nullS struct {
	N asn.NULL `ber:"tagNum:0"`
}

func main() {
	try("E1 bitstring 8 bits", "030200aa", func() string { return enc(asn.BitString{Bytes: []byte{0xaa}, BitLength: 8}, "") })
	try("E2 all-optional-absent struct", "3000", func() string { return enc(optStruct{}, "") })
	try("E2 UsedUnitContainer{}", "3000", func() string { return enc(cdrType.UsedUnitContainer{}, "") })
	try("E3 tagged choice, nil alternative", "ERR", func() string { return enc(holder{choiceT{Present: 1}}, "") })
	try("E4 choice present=7", "ERR", func() string { return enc(choiceT{Present: 7}, "") })
	try("E4 choice present=-1", "ERR", func() string { return enc(choiceT{Present: -1}, "") })
	try("E5 IA5String universal tag", "16026869", func() string { return enc(asn.IA5String("hi"), "") })
	var i int64
	try("D1 empty input", "ERR", func() string { return dec("", &i, "") })
	try("D3 length runs past end", "ERR", func() string { return dec("028201", &i, "") })
	try("D4 4-octet length", "ERR or value", func() string { return dec("028400000001aa", &i, "") })
	var b bool
	try("D5 boolean of length 0", "ERR", func() string { return dec("0100", &b, "") })
	var bs asn.BitString
	try("D6 bit string of length 0", "ERR", func() string { return dec("0300", &bs, "") })
	try("D6 bit string unused=9", "ERR", func() string { return dec("030209ff", &bs, "") })
	try("D7 -1 round trip", "-1", func() string { return dec(enc(int64(-1), ""), &i, "") })
	try("D7 -129 round trip", "-129", func() string { return dec(enc(int64(-129), ""), &i, "") })
	try("D8 integer of length 0", "ERR", func() string { return dec("0200", &i, "") })
	var bs2 asn.BitString
	try("E1/D6 bitstring 8 bits round trip", "{Bytes:[170] BitLength:8}", func() string {
		return dec(enc(asn.BitString{Bytes: []byte{0xaa}, BitLength: 8}, ""), &bs2, "")
	})
	var u untagged
	try("D10 untagged member", "ERR or value", func() string { return dec("3003800105", &u, "") })
	var hb holderBig
	big := asn.OctetString(make([]byte, 126))
	try("D11 embedded choice, long outer hdr", "Present:1 len 126", func() string {
		s := dec(enc(holderBig{choiceBig{Present: 1, S: &big}}, ""), &hb, "")
		if hb.C.S != nil {
			return fmt.Sprintf("Present:%d len %d (%s)", hb.C.Present, len(*hb.C.S), s[:min(len(s), 20)])
		}
		return s
	})
	var sc sliceOfChoice
	one := int64(1)
	try("D12 slice of choice round trip", "[{1 1 nil}]", func() string {
		s := dec(enc(sliceOfChoice{[]choiceT{{Present: 1, A: &one}}}, ""), &sc, "")
		if len(sc.L) == 1 && sc.L[0].A != nil {
			return fmt.Sprintf("[{%d %d nil}]", sc.L[0].Present, *sc.L[0].A)
		}
		return s
	})
	try("D13 OCTET STRING bytes as INTEGER", "ERR", func() string { return dec("040105", &i, "") })
	var ns nullS
	try("D18 decode NULL", "{N:true}", func() string { return dec("30028000", &ns, "") })
	var tr []cdrType.Trigger
	try("schema: []Trigger round trip", "1 element", func() string {
		v := int64(3)
		in := []cdrType.Trigger{{Present: 1, SMFTrigger: &cdrType.SMFTrigger{Value: v}}}
		s := dec(enc(in, ""), &tr, "")
		return fmt.Sprintf("%d element(s) %s", len(tr), s[:min(len(s), 40)])
	})
}
