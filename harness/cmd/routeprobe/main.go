// routeprobe: translator + exhaustive probe for C13.
// For every duplicate-free ordered list over the three service names (16 lists) it
// builds the real gin engine with newRouter (hook NewRouterForVerif), enumerates
// engine.Routes(), and - with OAuth2Required = true and a real RSA key as NRF
// certificate - sends every (method, path) with eleven kinds of bad token
// through httptest, in three modes: the order of the real start-up (router built
// while OAuth2Required is still false, the flag set by the NRF registration
// afterwards), the flag set before the router is built, and the flag set with no
// NRF certificate configured.  A probe counts as refused only if the answer is
// 401, its body is the single problem object, no later handler wrote anything
// (gin's "headers were already written" warning), no subscriber context was
// created or changed and no notification left.  Output: coq/Router/RoutesGen.v
// (routes per list and probe results; status 1000+code = answered code but a
// handler ran) and a summary on stdout.
package main

import (
	"bytes"
	"context"
	"crypto/rand"
	"crypto/rsa"
	"crypto/x509"
	"encoding/json"
	"encoding/pem"
	"fmt"
	"io"
	"net/http"
	"net/http/httptest"
	"os"
	"path/filepath"
	"sort"
	"strings"
	"sync/atomic"
	"time"

	"github.com/gin-gonic/gin"
	"github.com/golang-jwt/jwt/v5"
	"github.com/sirupsen/logrus"

	chf_context "github.com/free5gc/chf/internal/context"
	"github.com/free5gc/chf/internal/logger"
	"github.com/free5gc/chf/internal/sbi"
	"github.com/free5gc/chf/internal/sbi/consumer"
	"github.com/free5gc/chf/internal/sbi/processor"
	"github.com/free5gc/chf/pkg/factory"
)

type app struct {
	ctx  context.Context
	proc *processor.Processor
}

func (a *app) SetLogEnable(bool)                {}
func (a *app) SetLogLevel(string)               {}
func (a *app) SetReportCaller(bool)             {}
func (a *app) Start()                           {}
func (a *app) Terminate()                       {}
func (a *app) Context() *chf_context.CHFContext { return chf_context.GetSelf() }
func (a *app) Config() *factory.Config          { return factory.ChfConfig }
func (a *app) Consumer() *consumer.Consumer     { return nil }
func (a *app) Processor() *processor.Processor  { return a.proc }
func (a *app) CancelContext() context.Context   { return a.ctx }

var names = []string{"nchf-convergedcharging", "nchf-offlineonlycharging", "nchf-spendinglimitcontrol"}

func lists() [][]string {
	var out [][]string
	var rec func(cur []string, used int)
	rec = func(cur []string, used int) {
		out = append(out, append([]string{}, cur...))
		for i, n := range names {
			if used&(1<<uint(i)) == 0 {
				rec(append(cur, n), used|1<<uint(i))
			}
		}
	}
	rec(nil, 0)
	return out
}

func coqStr(s string) string { return "\"" + strings.ReplaceAll(s, "\"", "\"\"") + "\"" }

func main() {
	dir := os.Args[1]
	out := os.Args[2]
	gin.SetMode(gin.ReleaseMode)
	for _, l := range []*logrus.Entry{logger.GinLog, logger.UtilLog, logger.SBILog, logger.InitLog, logger.CtxLog} {
		l.Logger.SetOutput(io.Discard)
	}
	nrfKey, _ := rsa.GenerateKey(rand.Reader, 2048)
	otherKey, _ := rsa.GenerateKey(rand.Reader, 2048)
	pub, _ := x509.MarshalPKIXPublicKey(&nrfKey.PublicKey)
	certPath := filepath.Join(dir, "nrf_pub.pem")
	_ = os.WriteFile(certPath, pem.EncodeToMemory(&pem.Block{Type: "PUBLIC KEY", Bytes: pub}), 0o600)

	factory.ChfConfig = &factory.Config{
		Info: &factory.Info{Version: "1.0.3"},
		Configuration: &factory.Configuration{
			ChfName: "CHF", Sbi: &factory.Sbi{Scheme: "http", RegisterIPv4: "127.0.0.1", BindingIPv4: "127.0.0.1", Port: 8000},
			NrfUri: "http://127.0.0.10:8000", Mongodb: &factory.Mongodb{Name: "free5gc", Url: "mongodb://127.0.0.1:1"},
			RfDiameter:   &factory.Diameter{Protocol: "tcp", HostIPv4: "127.0.0.1", Port: 3868, Tls: &factory.Tls{Pem: "x", Key: "y"}},
			AbmfDiameter: &factory.Diameter{Protocol: "tcp", HostIPv4: "127.0.0.1", Port: 3869, Tls: &factory.Tls{Pem: "x", Key: "y"}},
			Cgf:          &factory.Cgf{HostIPv4: "127.0.0.1", Port: 2121, ListenPort: 2122},
		},
		Logger: &factory.Logger{Level: "error"},
	}
	chf_context.Init()
	self := chf_context.GetSelf()

	claims := jwt.MapClaims{"sub": "smf", "aud": "CHF", "scope": strings.Join(names, " "), "exp": time.Now().Add(time.Hour).Unix()}
	sign := func(m jwt.SigningMethod, key interface{}) string {
		s, err := jwt.NewWithClaims(m, claims).SignedString(key)
		if err != nil {
			panic(err)
		}
		return s
	}
	tokens := []struct{ kind, header string }{
		{"absent", ""},
		{"garbage", "Bearer not.a.token"},
		{"alg-none", "Bearer " + sign(jwt.SigningMethodNone, jwt.UnsafeAllowNoneSignatureType)},
		{"hs256", "Bearer " + sign(jwt.SigningMethodHS256, []byte("secret"))},
		{"rs512-wrong-key", "Bearer " + sign(jwt.SigningMethodRS512, otherKey)},
		{"rs256-right-key", "Bearer " + sign(jwt.SigningMethodRS256, nrfKey)},
		{"no-bearer-prefix", sign(jwt.SigningMethodRS512, otherKey)},
		// credentials of another scheme, or no credentials after the scheme: not a token signed by the NRF key either
		{"basic-scheme", "Basic dXNlcjpwYXNzd29yZA=="},
		{"token-scheme-foreign-key", "Token " + sign(jwt.SigningMethodRS512, otherKey)},
		{"bearer-no-credentials", "Bearer"},
		{"one-word", "garbage"},
	}
	valid := "Bearer " + sign(jwt.SigningMethodRS512, nrfKey)

	a := &app{ctx: context.Background()}
	if p, err := processor.NewProcessor(a); err == nil {
		a.proc = p
	} else {
		panic(err)
	}
	// where a recharge notification would go
	var notes int64
	stub := httptest.NewServer(http.HandlerFunc(func(w http.ResponseWriter, r *http.Request) {
		atomic.AddInt64(&notes, 1)
		w.WriteHeader(204)
	}))
	defer stub.Close()
	const planted = "imsi-208930000000001"
	plant := func() {
		self.UePool.Range(func(k, v interface{}) bool { self.UePool.Delete(k); return true })
		ue, err := self.NewCHFUe(planted)
		if err != nil {
			panic(err)
		}
		ue.NotifyUri = stub.URL + "/cb"
		ue.RatingType[1] = 2 // DEBIT: a recharge that runs flips it to RESERVE
	}
	untouched := func() bool {
		n := 0
		self.UePool.Range(func(k, v interface{}) bool { n++; return true })
		ue, ok := self.ChfUeFindBySupi(planted)
		return n == 1 && ok && ue.RatingType[1] == 2 && len(ue.Cdr) == 0 && len(ue.Records) == 0 && atomic.LoadInt64(&notes) == 0
	}
	var ginOut bytes.Buffer
	gin.SetMode(gin.DebugMode)
	gin.DefaultWriter = &ginOut
	gin.DefaultErrorWriter = &ginOut

	modes := []struct {
		name        string
		flagAtBuild bool
		cert        string
	}{
		{"startup-order", false, certPath}, // NewServer builds the router, Run() registers at the NRF, which sets the flag
		{"flag-before-build", true, certPath},
		{"no-nrf-certificate", false, ""},
	}
	var sb strings.Builder
	sb.WriteString("(* Generated by harness/cmd/routeprobe from the real gin engine of /repo. DO NOT EDIT. *)\nFrom Coq Require Import List String ZArith.\nFrom Verif Require Import Router.Model.\nImport ListNotations.\nOpen Scope string_scope.\n\n")
	sb.WriteString("(* for each service list: the routes registered by newRouter, and for every route, mode and bad-token kind the status answered\n   (1000 + status: that status was answered but a handler behind the check ran) *)\nDefinition observed : list (list string * list (string * string) * list (string * string * string * Z)) := [\n")
	nroutes, nprobes, bad, control := 0, 0, 0, 0
	for li, l := range lists() {
		factory.ChfConfig.Configuration.ServiceNameList = l
		var routeS, probeS []string
		for mi, md := range modes {
			self.OAuth2Required = md.flagAtBuild
			self.NrfCertPem = md.cert
			engine := sbi.NewRouterForVerif(a)
			self.OAuth2Required = true
			rs := engine.Routes()
			sort.Slice(rs, func(i, j int) bool {
				if rs[i].Path != rs[j].Path {
					return rs[i].Path < rs[j].Path
				}
				return rs[i].Method < rs[j].Method
			})
			for _, r := range rs {
				if mi == 0 {
					nroutes++
					routeS = append(routeS, fmt.Sprintf("(%s, %s)", coqStr(r.Method), coqStr(r.Path)))
				}
				path := strings.ReplaceAll(strings.ReplaceAll(strings.ReplaceAll(strings.ReplaceAll(r.Path, ":ChargingDataRef", planted+"smf1-0"), ":rechargingInfo", planted+"_1"), ":OfflineChargingDataRef", "ref2"), ":subscriptionId", "sub1")
				body := `{"subscriberIdentifier":"imsi-208930000000002","nfConsumerIdentification":{"nFName":"smf1","nodeFunctionality":"SMF"},"invocationSequenceNumber":1,"chargingId":1}`
				for _, tk := range tokens {
					plant()
					atomic.StoreInt64(&notes, 0)
					ginOut.Reset()
					req := httptest.NewRequest(r.Method, path, strings.NewReader(body))
					req.Header.Set("Content-Type", "application/json")
					if tk.header != "" {
						req.Header.Set("Authorization", tk.header)
					}
					w := httptest.NewRecorder()
					code := func() (code int) {
						defer func() {
							if recover() != nil {
								code = 1000 + w.Code // a handler ran and panicked through the engine
							}
						}()
						engine.ServeHTTP(w, req)
						return w.Code
					}()
					time.Sleep(0)
					var obj map[string]interface{}
					dec := json.NewDecoder(bytes.NewReader(w.Body.Bytes()))
					oneObject := dec.Decode(&obj) == nil && len(obj) == 1 && obj["error"] != nil && !dec.More()
					clean := oneObject && !strings.Contains(ginOut.String(), "already written") && !strings.Contains(ginOut.String(), "panic") && untouched()
					if code < 1000 && !clean {
						code += 1000
					}
					nprobes++
					if code != 401 {
						bad++
					}
					probeS = append(probeS, fmt.Sprintf("(%s, %s, %s, %d%%Z)", coqStr(r.Method), coqStr(r.Path), coqStr(md.name+"/"+tk.kind), code))
				}
				// positive control: a token signed by the NRF key is let through on the greeting routes
				if md.cert != "" && r.Method == "GET" && strings.HasSuffix(r.Path, "/") {
					req := httptest.NewRequest(r.Method, path, nil)
					req.Header.Set("Authorization", valid)
					w := httptest.NewRecorder()
					engine.ServeHTTP(w, req)
					if w.Code == 200 {
						control++
					}
				}
			}
		}
		var ls []string
		for _, n := range l {
			ls = append(ls, coqStr(n))
		}
		if li > 0 {
			sb.WriteString(";\n")
		}
		fmt.Fprintf(&sb, "  ([%s],\n   [%s],\n   [%s])", strings.Join(ls, "; "), strings.Join(routeS, "; "), strings.Join(probeS, ";\n    "))
	}
	sb.WriteString("\n].\n")
	old, _ := os.ReadFile(out)
	if string(old) != sb.String() {
		if err := os.WriteFile(out, []byte(sb.String()), 0o644); err != nil {
			panic(err)
		}
	}
	fmt.Printf("lists=16 routes=%d probes=%d not401=%d control_ok=%d\n", nroutes, nprobes, bad, control)
}
