// cfgprobe: one configuration, one process (C20).
//
//	cfgprobe <config.yaml> <nrf-port> [settle-ms]
//
// Reads the configuration the way cmd/main.go does (factory.ReadConfig).  When validation accepts
// it, starts the CHF the way the binary does - service.NewApp, then app.Start() - against a stub
// NRF listening on <nrf-port>, lets it settle and reports.  Output (last line):
//
//	REJECTED <error>       validation refused the configuration
//	STARTED                the components came up (or failed with an ordinary error) without a crash
//
// A crash (nil dereference, gin's duplicate-route panic, logger.Fatal in a recover) ends the
// process with a non-zero status before STARTED is printed; the parent classifies that as CRASHED.
// "oracle" mode prints how govalidator's leaf validators judge the strings given:
//
//	cfgprobe -oracle host|port|url <string>...
package main

import (
	"context"
	"encoding/json"
	"fmt"
	"io"
	"net/http"
	"os"
	"reflect"
	"sort"
	"strconv"
	"strings"
	"time"

	"github.com/asaskevich/govalidator"
	"golang.org/x/net/http2"
	"golang.org/x/net/http2/h2c"
	"go.mongodb.org/mongo-driver/x/mongo/driver/connstring"

	"github.com/free5gc/chf/internal/logger"
	"github.com/free5gc/chf/pkg/factory"
	"github.com/free5gc/chf/pkg/service"
)

func cq(s string) string { return "\"" + strings.ReplaceAll(s, "\"", "\"\"") + "\"" }

// dump renders a configuration value as the cval of Config/Model.v and records the verdicts of
// govalidator's leaf validators (and of the MongoDB connection-string parser) on its leaves
func dump(v reflect.Value, orc map[string]bool) string {
	switch v.Kind() {
	case reflect.String:
		s := v.String()
		orc[fmt.Sprintf("(\"host\", %s, %v)", cq(s), govalidator.IsHost(s))] = true
		orc[fmt.Sprintf("(\"url\", %s, %v)", cq(s), govalidator.IsURL(s))] = true
		_, err := connstring.ParseAndValidate(s)
		orc[fmt.Sprintf("(\"mongo\", %s, %v)", cq(s), err == nil)] = true
		return "CStr " + cq(s)
	case reflect.Int, reflect.Int32, reflect.Int64:
		orc[fmt.Sprintf("(\"port\", %s, %v)", cq(strconv.FormatInt(v.Int(), 10)), govalidator.IsPort(strconv.FormatInt(v.Int(), 10)))] = true
		return fmt.Sprintf("CInt (%d)", v.Int())
	case reflect.Bool:
		return fmt.Sprintf("CBool %v", v.Bool())
	case reflect.Float32, reflect.Float64:
		return fmt.Sprintf("CFloat %v", v.Float() == 0)
	case reflect.Slice:
		var xs []string
		for i := 0; i < v.Len(); i++ {
			xs = append(xs, cq(v.Index(i).String()))
		}
		return "CStrs [" + strings.Join(xs, "; ") + "]"
	case reflect.Ptr:
		if v.IsNil() {
			return "CNil"
		}
		return dump(v.Elem(), orc)
	case reflect.Struct:
		var fs []string
		t := v.Type()
		for i := 0; i < t.NumField(); i++ {
			if t.Field(i).PkgPath != "" || t.Field(i).Anonymous {
				continue
			}
			fs = append(fs, "("+cq(t.Field(i).Name)+", "+dump(v.Field(i), orc)+")")
		}
		return "CStruct [" + strings.Join(fs, "; ") + "]"
	}
	panic("dump: " + v.Kind().String())
}

func main() {
	if len(os.Args) >= 3 && os.Args[1] == "-oracle" {
		for _, s := range os.Args[3:] {
			var ok bool
			switch os.Args[2] {
			case "host":
				ok = govalidator.IsHost(s)
			case "port":
				ok = govalidator.IsPort(s)
			case "url":
				ok = govalidator.IsURL(s)
			case "mongo":
				_, err := connstring.ParseAndValidate(s)
				ok = err == nil
			}
			fmt.Printf("%s %q %v\n", os.Args[2], s, ok)
		}
		return
	}
	path := os.Args[1]
	nrfPort, _ := strconv.Atoi(os.Args[2])
	settle := 700
	if len(os.Args) > 3 {
		settle, _ = strconv.Atoi(os.Args[3])
	}
	quiet := os.Getenv("CFGPROBE_VERBOSE") == ""
	if quiet {
		logger.Log.SetOutput(io.Discard)
	}
	// what yaml.Unmarshal makes of the file, as a Coq value, and what the leaf validators say
	parsed := &factory.Config{}
	if perr := factory.InitConfigFactory(path, parsed); perr == nil {
		orc := map[string]bool{}
		fmt.Println("CVAL " + dump(reflect.ValueOf(parsed).Elem(), orc))
		var keys []string
		for k := range orc {
			keys = append(keys, k)
		}
		sort.Strings(keys)
		for _, k := range keys {
			fmt.Println("ORACLE " + k)
		}
	} else {
		fmt.Println("UNPARSED " + strings.ReplaceAll(perr.Error(), "\n", " "))
	}
	cfg, err := factory.ReadConfig(path)
	if err != nil {
		fmt.Println("REJECTED", strings.ReplaceAll(err.Error(), "\n", " "))
		return
	}
	factory.ChfConfig = cfg

	// stub NRF: accepts the registration so that Server.Run goes on to start the SBI server
	mux := http.NewServeMux()
	mux.HandleFunc("/", func(w http.ResponseWriter, r *http.Request) {
		body, _ := io.ReadAll(r.Body)
		var prof map[string]interface{}
		_ = json.Unmarshal(body, &prof)
		if prof == nil {
			prof = map[string]interface{}{}
		}
		w.Header().Set("Content-Type", "application/json")
		w.Header().Set("Location", fmt.Sprintf("http://127.0.0.1:%d/nnrf-nfm/v1/nf-instances/%v", nrfPort, prof["nfInstanceId"]))
		w.WriteHeader(http.StatusCreated)
		_ = json.NewEncoder(w).Encode(prof)
	})
	// the NRF client speaks HTTP/2 over cleartext
	go func() {
		_ = http.ListenAndServe(fmt.Sprintf("127.0.0.1:%d", nrfPort), h2c.NewHandler(mux, &http2.Server{}))
	}()
	time.Sleep(30 * time.Millisecond)

	ctx, cancel := context.WithCancel(context.Background())
	defer cancel()
	app, err := service.NewApp(ctx, cfg, "")
	if err != nil {
		fmt.Println("STARTED (NewApp returned an error: " + err.Error() + ")")
		return
	}
	if quiet {
		logger.Log.SetOutput(io.Discard)
	}
	go app.Start()
	time.Sleep(time.Duration(settle) * time.Millisecond)
	fmt.Println("STARTED")
	os.Exit(0)
}
