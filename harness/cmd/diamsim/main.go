// diamsim starts the in-process CHF stack and talks Diameter, as a client, to
// the real rating (rf) and account balance (abmf) servers the same way
// internal/rating and internal/abmf do.  Operations are JSON lines on stdin,
// one JSON line of observations per operation goes to stdout.
package main

import (
	"bufio"
	"bytes"
	"encoding/hex"
	"encoding/json"
	"flag"
	"fmt"
	"io"
	"log"
	"os"
	"reflect"
	"strconv"
	"strings"
	"sync"
	"time"

	"github.com/fiorix/go-diameter/diam"
	"github.com/fiorix/go-diameter/diam/avp"
	"github.com/fiorix/go-diameter/diam/datatype"
	"github.com/fiorix/go-diameter/diam/dict"
	"github.com/fiorix/go-diameter/diam/sm"
	"github.com/fiorix/go-diameter/diam/sm/smpeer"

	charging_code "github.com/free5gc/chf/ccs_diameter/code"
	charging_datatype "github.com/free5gc/chf/ccs_diameter/datatype"
	chf_context "github.com/free5gc/chf/internal/context"
	"github.com/free5gc/chf/pkg/factory"
	"github.com/free5gc/chf/verifh/stack"
)

// u64 accepts a JSON number or a decimal string (so that values >= 2^53 can be
// given exactly).
type u64 uint64

func (u *u64) UnmarshalJSON(b []byte) error {
	s := strings.Trim(string(b), `"`)
	v, err := strconv.ParseUint(s, 10, 64)
	if err != nil {
		return fmt.Errorf("not an unsigned 64-bit integer: %s", string(b))
	}
	*u = u64(v)
	return nil
}

type op struct {
	Op        string  `json:"op"`
	Supi      string  `json:"supi"`
	Rg        int64   `json:"rg"`
	Quota     *string `json:"quota"`    // account: string; sur: see SurQuota
	UnitCost  *string `json:"unitCost"` // account
	SessionId string  `json:"sessionId"`
	Ms        int     `json:"ms"`

	// ccr
	Action    int32  `json:"action"`
	ReqType   int32  `json:"reqType"`
	ReqNum    uint32 `json:"reqNum"`
	Requested *u64   `json:"requested"`
	Used      *u64   `json:"used"`
	OmitMscc  bool   `json:"omitMscc"`

	// sur
	SubType  int32  `json:"subType"`
	Consumed uint32 `json:"consumed"`
	OmitSR   bool   `json:"omitServiceRating"`
}

// The "quota" member is a string for account ops and a number for sur ops, so
// it is decoded separately.
type surQuota struct {
	Quota uint32 `json:"quota"`
}

type result struct {
	I         int                               `json:"i"`
	Op        string                            `json:"op,omitempty"`
	Error     string                            `json:"error,omitempty"`
	Answered  bool                              `json:"answered"`
	Answer    interface{}                       `json:"answer"`
	Panic     string                            `json:"panic,omitempty"`
	ElapsedMs int64                             `json:"elapsed_ms"`
	DB        map[string]map[string]interface{} `json:"db"`
}

// logCapture collects what go-diameter writes to the standard logger (it
// reports recovered handler panics there) and forwards it to stderr.
type logCapture struct {
	mu  sync.Mutex
	buf bytes.Buffer
	fwd io.Writer
}

func (l *logCapture) Write(p []byte) (int, error) {
	l.mu.Lock()
	if l.buf.Len() < 1<<20 {
		l.buf.Write(p)
	}
	l.mu.Unlock()
	if l.fwd != nil {
		_, _ = l.fwd.Write(p)
	}
	return len(p), nil
}

func (l *logCapture) hasPanic() bool {
	l.mu.Lock()
	defer l.mu.Unlock()
	return bytes.Contains(l.buf.Bytes(), []byte("diam: panic serving "))
}

// takePanic returns the first "diam: panic serving" line seen since the last
// call, with the peer address removed.
func (l *logCapture) takePanic() string {
	l.mu.Lock()
	s := l.buf.String()
	l.buf.Reset()
	l.mu.Unlock()
	const marker = "diam: panic serving "
	i := strings.Index(s, marker)
	if i < 0 {
		return ""
	}
	s = s[i+len(marker):]
	if j := strings.IndexByte(s, '\n'); j >= 0 {
		s = s[:j]
	}
	if j := strings.Index(s, ": "); j >= 0 { // drop "ip:port: "
		s = s[j+2:]
	}
	return s
}

func subscriptionId(supi string) *charging_datatype.SubscriptionId {
	// Same mapping as sessionChargingReservation.
	switch strings.Split(supi, "-")[0] {
	case "imsi":
		return &charging_datatype.SubscriptionId{
			SubscriptionIdType: charging_datatype.END_USER_IMSI,
			SubscriptionIdData: datatype.UTF8String(supi[5:]),
		}
	case "nai", "gci", "gli":
		return &charging_datatype.SubscriptionId{
			SubscriptionIdType: charging_datatype.END_USER_NAI,
			SubscriptionIdData: datatype.UTF8String(supi[4:]),
		}
	}
	return nil
}

func newClient(settings *sm.Settings) (*sm.Client, *sm.StateMachine) {
	mux := sm.New(settings)
	cli := &sm.Client{
		Dict:               dict.Default,
		Handler:            mux,
		MaxRetransmits:     3,
		RetransmitInterval: time.Second,
		EnableWatchdog:     false,
		WatchdogInterval:   5 * time.Second,
		AuthApplicationID: []*diam.AVP{
			diam.NewAVP(avp.AuthApplicationID, avp.Mbit, 0, datatype.Unsigned32(4)), // RFC 4006
		},
	}
	return cli, mux
}

// exchange opens a connection, sends one request built by build (which gets
// the peer's realm and host) and waits for the answer command.
func exchange(settings *sm.Settings, d *factory.Diameter, answerCmd string, cmdCode uint32,
	build func(realm, host datatype.DiameterIdentity) interface{}, wait time.Duration, aborted func() bool,
) (*diam.Message, error) {
	cli, mux := newClient(settings)
	ch := make(chan *diam.Message, 4)
	mux.Handle(answerCmd, diam.HandlerFunc(func(c diam.Conn, m *diam.Message) {
		select {
		case ch <- m:
		default:
		}
	}))
	go func() {
		for range mux.ErrorReports() {
		}
	}()
	addr := d.HostIPv4 + ":" + strconv.Itoa(d.Port)
	conn, err := cli.DialNetworkTLS(d.Protocol, addr, d.Tls.Pem, d.Tls.Key)
	if err != nil {
		return nil, fmt.Errorf("dial: %w", err)
	}
	defer conn.Close()
	meta, ok := smpeer.FromContext(conn.Context())
	if !ok {
		return nil, fmt.Errorf("peer metadata unavailable")
	}
	req := build(meta.OriginRealm, meta.OriginHost)
	msg := diam.NewRequest(cmdCode, charging_code.Re_interface, dict.Default)
	if err = msg.Marshal(req); err != nil {
		return nil, fmt.Errorf("marshal: %w", err)
	}
	if _, err = msg.WriteTo(conn); err != nil {
		return nil, fmt.Errorf("send: %w", err)
	}
	// go-diameter's CloseNotify does not fire for a reader that is already
	// blocked, so a server-side panic (connection closed, no answer) is noticed
	// through the panic line the server logs instead of waiting out the timer.
	t := time.NewTimer(wait)
	defer t.Stop()
	tick := time.NewTicker(5 * time.Millisecond)
	defer tick.Stop()
	for {
		select {
		case m := <-ch:
			return m, nil
		case <-tick.C:
			if aborted != nil && aborted() {
				select {
				case m := <-ch:
					return m, nil
				case <-time.After(20 * time.Millisecond):
				}
				return nil, fmt.Errorf("server handler panicked, connection closed without answer")
			}
		case <-t.C:
			return nil, fmt.Errorf("no answer within %v", wait)
		}
	}
}

var timeType = reflect.TypeOf(datatype.Time{})

// toJSON renders a decoded Diameter struct: 64-bit integers as decimal
// strings, nil pointers as null, Grouped blobs as hex, times left out.
func toJSON(v reflect.Value) interface{} {
	switch v.Kind() {
	case reflect.Ptr:
		if v.IsNil() {
			return nil
		}
		return toJSON(v.Elem())
	case reflect.Struct:
		out := map[string]interface{}{}
		t := v.Type()
		for i := 0; i < t.NumField(); i++ {
			f := t.Field(i)
			if f.PkgPath != "" || f.Type == timeType {
				continue
			}
			out[f.Name] = toJSON(v.Field(i))
		}
		return out
	case reflect.Int64:
		return strconv.FormatInt(v.Int(), 10)
	case reflect.Uint64:
		return strconv.FormatUint(v.Uint(), 10)
	case reflect.Int, reflect.Int8, reflect.Int16, reflect.Int32:
		return v.Int()
	case reflect.Uint, reflect.Uint8, reflect.Uint16, reflect.Uint32:
		return v.Uint()
	case reflect.Float32, reflect.Float64:
		return v.Float()
	case reflect.String:
		return v.String()
	case reflect.Bool:
		return v.Bool()
	case reflect.Slice:
		if v.IsNil() {
			return nil
		}
		if v.Type().Elem().Kind() == reflect.Uint8 {
			return hex.EncodeToString(v.Bytes())
		}
		out := make([]interface{}, v.Len())
		for i := range out {
			out[i] = toJSON(v.Index(i))
		}
		return out
	}
	return fmt.Sprintf("%v", v.Interface())
}

func main() {
	dir := flag.String("dir", "", "scratch directory (required)")
	ansTimeout := flag.Duration("anstimeout", 1500*time.Millisecond, "how long to wait for a Diameter answer")
	quiet := flag.Bool("quiet", false, "do not forward go-diameter's log output to stderr")
	flag.Parse()
	if *dir == "" {
		fmt.Fprintln(os.Stderr, "diamsim: -dir is required")
		os.Exit(2)
	}
	capt := &logCapture{fwd: os.Stderr}
	if *quiet {
		capt.fwd = nil
	}
	log.SetOutput(capt)

	st, err := stack.Start(*dir, stack.Options{})
	if err != nil {
		fmt.Fprintln(os.Stderr, "diamsim: start:", err)
		os.Exit(1)
	}
	code := run(st, capt, *ansTimeout)
	st.Close()
	os.Exit(code)
}

func run(st *stack.Stack, capt *logCapture, wait time.Duration) int {
	in := bufio.NewReaderSize(os.Stdin, 1<<20)
	out := bufio.NewWriter(os.Stdout)
	defer out.Flush()
	enc := json.NewEncoder(out)
	enc.SetEscapeHTML(false)
	idx := 0
	for {
		line, rerr := in.ReadBytes('\n')
		if len(bytes.TrimSpace(line)) > 0 {
			res := doOp(st, capt, idx, bytes.TrimSpace(line), wait)
			if err := enc.Encode(res); err != nil {
				fmt.Fprintln(os.Stderr, "diamsim: encode:", err)
				return 1
			}
			if err := out.Flush(); err != nil {
				return 1
			}
			idx++
		}
		if rerr != nil {
			break
		}
	}
	return 0
}

func doOp(st *stack.Stack, capt *logCapture, idx int, line []byte, wait time.Duration) (res *result) {
	res = &result{I: idx}
	start := time.Now()
	defer func() {
		if p := recover(); p != nil {
			res.Error = fmt.Sprintf("harness panic: %v", p)
		}
		res.ElapsedMs = time.Since(start).Milliseconds()
		if !res.Answered {
			// give the server's deferred recover a moment to log
			time.Sleep(20 * time.Millisecond)
		}
		res.Panic = capt.takePanic()
		res.DB = st.DBSnapshot()
	}()

	// "quota" is a string in account ops and a number in sur ops.
	var probe struct {
		Op string `json:"op"`
	}
	if err := json.Unmarshal(line, &probe); err != nil {
		res.Error = "bad op: " + err.Error()
		return res
	}
	res.Op = probe.Op
	var o op
	var sq surQuota
	if probe.Op == "sur" {
		var m map[string]json.RawMessage
		if err := json.Unmarshal(line, &m); err != nil {
			res.Error = "bad op: " + err.Error()
			return res
		}
		if q, ok := m["quota"]; ok {
			if err := json.Unmarshal(q, &sq.Quota); err != nil {
				res.Error = "bad op: quota: " + err.Error()
				return res
			}
			delete(m, "quota")
		}
		rest, _ := json.Marshal(m)
		if err := json.Unmarshal(rest, &o); err != nil {
			res.Error = "bad op: " + err.Error()
			return res
		}
	} else if err := json.Unmarshal(line, &o); err != nil {
		res.Error = "bad op: " + err.Error()
		return res
	}

	self := chf_context.GetSelf()
	cfg := factory.ChfConfig.Configuration
	switch o.Op {
	case "account":
		st.PutAccount(o.Supi, o.Rg, o.Quota, o.UnitCost)
	case "sleep":
		time.Sleep(time.Duration(o.Ms) * time.Millisecond)
	case "ccr":
		m, err := exchange(self.AbmfCfg, cfg.AbmfDiameter, "CCA", charging_code.ABMF_CreditControl,
			func(realm, host datatype.DiameterIdentity) interface{} {
				ccr := &charging_datatype.AccountDebitRequest{
					SessionId:        datatype.UTF8String(o.SessionId),
					OriginHost:       self.AbmfCfg.OriginHost,
					OriginRealm:      self.AbmfCfg.OriginRealm,
					DestinationRealm: realm,
					DestinationHost:  host,
					EventTimestamp:   datatype.Time(time.Now()),
					SubscriptionId:   subscriptionId(o.Supi),
					UserName:         datatype.OctetString(self.Name),
					CcRequestNumber:  datatype.Unsigned32(o.ReqNum),
					CcRequestType:    charging_datatype.CcRequestType(o.ReqType),
					RequestedAction:  charging_datatype.RequestedAction(o.Action),
				}
				if !o.OmitMscc {
					mscc := &charging_datatype.MultipleServicesCreditControl{
						RatingGroup: datatype.Unsigned32(o.Rg),
					}
					if o.Requested != nil {
						mscc.RequestedServiceUnit = &charging_datatype.RequestedServiceUnit{
							CCTotalOctets: datatype.Unsigned64(*o.Requested),
						}
					}
					if o.Used != nil {
						mscc.UsedServiceUnit = &charging_datatype.UsedServiceUnit{
							CCTotalOctets: datatype.Unsigned64(*o.Used),
						}
					}
					ccr.MultipleServicesCreditControl = mscc
				}
				return ccr
			}, wait, capt.hasPanic)
		if err != nil {
			res.Error = err.Error()
			return res
		}
		var cca charging_datatype.AccountDebitResponse
		if err = m.Unmarshal(&cca); err != nil {
			res.Error = "unmarshal CCA: " + err.Error()
			return res
		}
		res.Answered = true
		res.Answer = toJSON(reflect.ValueOf(&cca))
	case "sur":
		m, err := exchange(self.RatingCfg, cfg.RfDiameter, "SUA", charging_code.ServiceUsageMessage,
			func(realm, host datatype.DiameterIdentity) interface{} {
				sur := &charging_datatype.ServiceUsageRequest{
					SessionId:        datatype.UTF8String(o.SessionId),
					OriginHost:       self.RatingCfg.OriginHost,
					OriginRealm:      self.RatingCfg.OriginRealm,
					DestinationRealm: realm,
					DestinationHost:  host,
					ActualTime:       datatype.Time(time.Now()),
					SubscriptionId:   subscriptionId(o.Supi),
					UserName:         datatype.OctetString(self.Name),
				}
				if !o.OmitSR {
					sur.ServiceRating = &charging_datatype.ServiceRating{
						ServiceIdentifier: datatype.Unsigned32(o.Rg),
						ConsumedUnits:     datatype.Unsigned32(o.Consumed),
						MonetaryQuota:     datatype.Unsigned32(sq.Quota),
						RequestSubType:    charging_datatype.RequestSubType(o.SubType),
					}
				}
				return sur
			}, wait, capt.hasPanic)
		if err != nil {
			res.Error = err.Error()
			return res
		}
		var sua charging_datatype.ServiceUsageResponse
		if err = m.Unmarshal(&sua); err != nil {
			res.Error = "unmarshal SUA: " + err.Error()
			return res
		}
		res.Answered = true
		res.Answer = toJSON(reflect.ValueOf(&sua))
	default:
		res.Error = "unknown op " + strconv.Quote(o.Op)
	}
	return res
}
