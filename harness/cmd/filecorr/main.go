// filecorr: correspondence driver for cdr/cdrFile (C14, C15).
//
// Generates CDR file structures from one PRNG, runs the real
// CDRFile.Encoding / CDRFile.Decoding on them (under recover) and writes a Coq
// file of cases: the structure, the bytes Go wrote, and what Go decoded.  The
// Coq side (CdrFile/Corr.v) evaluates the model and the monitors on them.
package main

import (
	"flag"
	"hash/fnv"
	"fmt"
	"math/rand"
	"os"
	"path/filepath"
	"strings"

	"github.com/free5gc/chf/cdr/cdrFile"
)

type pat struct { // payload = pattern repeated n times (kept symbolic in the .v)
	p []byte
	n int
}

func (p pat) bytes() []byte {
	out := make([]byte, 0, len(p.p)*p.n)
	for i := 0; i < p.n; i++ {
		out = append(out, p.p...)
	}
	return out
}

func (p pat) coq() string {
	if p.n == 0 || len(p.p) == 0 {
		return "[]"
	}
	if p.n == 1 {
		return zlist(p.p)
	}
	return fmt.Sprintf("(rep_patZ %s %d)", zlist(p.p), p.n)
}

func zlist(b []byte) string {
	var sb strings.Builder
	sb.WriteString("[")
	for i, x := range b {
		if i > 0 {
			sb.WriteString(";")
		}
		fmt.Fprintf(&sb, "%d", x)
	}
	sb.WriteString("]")
	return sb.String()
}

var rng *rand.Rand

func pick[T any](xs ...T) T { return xs[rng.Intn(len(xs))] }

func genPat(total int) pat {
	if total == 0 {
		return pat{nil, 0}
	}
	if total <= 24 {
		b := make([]byte, total)
		rng.Read(b)
		return pat{b, 1}
	}
	// find a pattern length dividing total
	for _, l := range []int{5, 3, 7, 2, 11, 13, 1} {
		if total%l == 0 {
			b := make([]byte, l)
			rng.Read(b)
			return pat{b, total / l}
		}
	}
	b := []byte{byte(rng.Intn(256))}
	return pat{b, total}
}

func genLen(class string) int {
	switch class {
	case "filter":
		return pick(0, 0, 0, 1, 2, 3, 17, 255, 256, 65483, 65484, 65485, 65486, 65487, 65535, rng.Intn(300), rng.Intn(65536))
	case "payload":
		return pick(0, 0, 1, 2, 5, 100, 65534, 65535, rng.Intn(300), rng.Intn(300), rng.Intn(65536))
	}
	return 0
}

func width(bits uint, wf bool) uint8 {
	max := 1 << bits
	if !wf && rng.Intn(3) == 0 {
		return uint8(rng.Intn(256))
	}
	return uint8(pick(0, max-1, rng.Intn(max), rng.Intn(max)))
}

func genTs(wf bool) cdrFile.CdrHdrTimeStamp {
	return cdrFile.CdrHdrTimeStamp{
		MonthLocal: width(4, wf), DateLocal: width(5, wf), HourLocal: width(5, wf), MinuteLocal: width(6, wf),
		SignOfTheLocalTimeDifferentialFromUtc: width(1, wf), HourDeviation: width(5, wf), MinuteDeviation: width(6, wf),
	}
}

func u32() uint32 {
	return pick(uint32(0), 1, 0xffffffff, 0x80000000, 0x01020304, rng.Uint32(), rng.Uint32())
}

type gcase struct {
	f       cdrFile.CDRFile
	filter  pat
	ext     pat
	pay     []pat
	wf      bool
	class   string
	consist bool
}

// hi, lo in 0..7 chosen by the caller so that all 64 pairs are covered.
func genCase(i int, malformed bool) gcase {
	var g gcase
	g.wf = !malformed
	hi := uint8((i / 8) % 8)
	lo := uint8(i % 8)
	if i >= 64 {
		hi = pick[uint8](7, 7, 0, 3, uint8(rng.Intn(8)))
		lo = pick[uint8](7, 7, 0, 5, uint8(rng.Intn(8)))
	}
	h := &g.f.Hdr
	h.HighReleaseIdentifier, h.LowReleaseIdentifier = hi, lo
	h.HighVersionIdentifier, h.LowVersionIdentifier = width(5, g.wf), width(5, g.wf)
	if hi == 7 || malformed {
		h.HighReleaseIdentifierExtension = uint8(pick(0, 1, 255, rng.Intn(256)))
	}
	if lo == 7 || malformed {
		h.LowReleaseIdentifierExtension = uint8(pick(0, 2, 255, rng.Intn(256)))
	}
	h.FileOpeningTimestamp = genTs(g.wf)
	h.TimestampWhenLastCdrWasAppendedToFIle = genTs(g.wf)
	h.FileSequenceNumber = u32()
	h.FileClosureTriggerReason = cdrFile.FileClosureTriggerReasonType(pick(0, 1, 5, 128, 131, 255, rng.Intn(256)))
	rng.Read(h.IpAddressOfNodeThatGeneratedFile[:])
	h.LostCdrIndicator = uint8(pick(0, 1, 127, 128, 255, rng.Intn(256)))
	fl, el := 0, 0
	if i%3 != 0 {
		fl = genLen("filter")
		el = genLen("filter")
		if rng.Intn(4) != 0 && fl > 1000 && el > 1000 { // keep most cases small
			el = rng.Intn(20)
		}
	}
	g.filter, g.ext = genPat(fl), genPat(el)
	h.CDRRouteingFilter, h.PrivateExtension = g.filter.bytes(), g.ext.bytes()
	h.LengthOfCdrRouteingFilter, h.LengthOfPrivateExtension = uint16(fl), uint16(el)
	nrec := pick(0, 0, 1, 1, 2, 3, 5)
	total := 52 + fl + el
	if hi == 7 {
		total++
	}
	if lo == 7 {
		total++
	}
	hdrLen := total
	for r := 0; r < nrec; r++ {
		pl := genLen("payload")
		if r > 1 && pl > 1000 {
			pl = rng.Intn(50)
		}
		p := genPat(pl)
		g.pay = append(g.pay, p)
		rel := cdrFile.ReleaseIdentifierType(pick(0, 1, 6, 7, 7, rng.Intn(8)))
		ch := cdrFile.CdrHeader{
			CdrLength: uint16(pl), ReleaseIdentifier: rel, VersionIdentifier: width(5, g.wf),
			DataRecordFormat: cdrFile.DataRecordFormatType(width(3, g.wf)), TsNumber: cdrFile.TsNumberIdentifier(width(5, g.wf)),
		}
		if rel == 7 || malformed {
			ch.ReleaseIdentifierExtension = uint8(pick(0, 9, 255, rng.Intn(256)))
		}
		g.f.CdrList = append(g.f.CdrList, cdrFile.CDR{Hdr: ch, CdrByte: p.bytes()})
		total += 4 + pl
		if rel == 7 {
			total++
		}
	}
	h.NumberOfCdrsInFile = uint32(nrec)
	g.consist = rng.Intn(2) == 0
	if g.consist {
		h.HeaderLength, h.FileLength = uint32(hdrLen), uint32(total)
	} else {
		h.HeaderLength, h.FileLength = u32(), u32()
	}
	if malformed {
		// inconsistent lengths / counts: only Ok-vs-Panic and model agreement are compared
		switch rng.Intn(5) {
		case 0:
			h.NumberOfCdrsInFile = uint32(nrec + pick(1, 2, 1000, 1<<31))
		case 1:
			h.LengthOfCdrRouteingFilter = uint16(fl + pick(1, 5, 60000))
		case 2:
			h.LengthOfPrivateExtension = uint16(el + pick(1, 7, 65000))
		case 3:
			if nrec > 0 {
				g.f.CdrList[nrec-1].Hdr.CdrLength += uint16(pick(1, 3, 40000))
			}
		case 4:
			if nrec > 0 {
				h.NumberOfCdrsInFile = uint32(nrec - 1)
			}
		}
	}
	g.class = fmt.Sprintf("hi%d-lo%d-fl%s-el%s-n%d", b2i(hi == 7), b2i(lo == 7), lclass(fl), lclass(el), nrec)
	return g
}

func b2i(b bool) int {
	if b {
		return 1
	}
	return 0
}

func lclass(n int) string {
	switch {
	case n == 0:
		return "0"
	case n < 256:
		return "s"
	case n < 65483:
		return "m"
	default:
		return "L"
	}
}

func tsCoq(t cdrFile.CdrHdrTimeStamp) string {
	return fmt.Sprintf("(mkTs %d %d %d %d %d %d %d)", t.MonthLocal, t.DateLocal, t.HourLocal, t.MinuteLocal,
		t.SignOfTheLocalTimeDifferentialFromUtc, t.HourDeviation, t.MinuteDeviation)
}

func fileCoq(f cdrFile.CDRFile, filter, ext string, pay []string) string {
	h := f.Hdr
	var sb strings.Builder
	fmt.Fprintf(&sb, "(mkFile (mkFhdr %d %d %d %d %d %d %s %s %d %d %d %s %d %d %s %d %s %d %d) [",
		h.FileLength, h.HeaderLength, h.HighReleaseIdentifier, h.HighVersionIdentifier, h.LowReleaseIdentifier,
		h.LowVersionIdentifier, tsCoq(h.FileOpeningTimestamp), tsCoq(h.TimestampWhenLastCdrWasAppendedToFIle),
		h.NumberOfCdrsInFile, h.FileSequenceNumber, h.FileClosureTriggerReason, zlist(h.IpAddressOfNodeThatGeneratedFile[:]),
		h.LostCdrIndicator, h.LengthOfCdrRouteingFilter, filter, h.LengthOfPrivateExtension, ext,
		h.HighReleaseIdentifierExtension, h.LowReleaseIdentifierExtension)
	for i, c := range f.CdrList {
		if i > 0 {
			sb.WriteString("; ")
		}
		fmt.Fprintf(&sb, "mkCdr (mkChdr %d %d %d %d %d %d) %s", c.Hdr.CdrLength, c.Hdr.ReleaseIdentifier,
			c.Hdr.VersionIdentifier, c.Hdr.DataRecordFormat, c.Hdr.TsNumber, c.Hdr.ReleaseIdentifierExtension, pay[i])
	}
	sb.WriteString("])")
	return sb.String()
}

// compress a byte slice: periodic runs become rep_patZ, the rest chunked literals
func compress(b []byte) string {
	n := len(b)
	if n <= 24 {
		return zlist(b)
	}
	var parts []string
	var lit []byte
	flush := func() {
		for len(lit) > 0 {
			k := len(lit)
			if k > 1500 {
				k = 1500
			}
			parts = append(parts, zlist(lit[:k]))
			lit = lit[k:]
		}
	}
	for i := 0; i < n; {
		best, bestL := 0, 0
		for _, l := range []int{1, 2, 3, 5, 7, 11, 13} {
			j := i + l
			for j < n && b[j] == b[j-l] {
				j++
			}
			usable := ((j - i) / l) * l
			if usable > best {
				best, bestL = usable, l
			}
		}
		if best >= 48 {
			flush()
			parts = append(parts, fmt.Sprintf("(rep_patZ %s %d)", zlist(b[i:i+bestL]), best/bestL))
			i += best
		} else {
			lit = append(lit, b[i])
			i++
		}
	}
	flush()
	if len(parts) == 1 {
		return parts[0]
	}
	return "(" + strings.Join(parts, " ++ ") + ")"
}

func decode(path string) (out cdrFile.CDRFile, panicked bool) {
	defer func() {
		if r := recover(); r != nil {
			panicked = true
		}
	}()
	out.Decoding(path)
	return
}

func main() {
	seed := flag.Int64("seed", 1, "PRNG seed")
	n := flag.Int("n", 200, "number of well-formed cases")
	nmal := flag.Int("nmal", 40, "number of malformed cases")
	shards := flag.Int("shards", 4, "number of .v shards")
	out := flag.String("out", ".", "output directory")
	flag.Parse()
	rng = rand.New(rand.NewSource(*seed))
	// silence the codec's own warnings
	devnull, _ := os.OpenFile(os.DevNull, os.O_WRONLY, 0)
	stdout := os.Stdout
	tmp := filepath.Join(*out, "tmp.cdr")
	classes := map[string]int{}
	files := make([]*os.File, *shards)
	for s := range files {
		f, err := os.Create(filepath.Join(*out, fmt.Sprintf("FileCases%d.v", s)))
		if err != nil {
			panic(err)
		}
		fmt.Fprintf(f, "From Coq Require Import List ZArith.\nFrom Verif Require Import Common.Outcome Common.Bytes CdrFile.Model CdrFile.Corr.\nImport ListNotations.\nOpen Scope Z_scope.\nDefinition cases : list fcase := [\n")
		files[s] = f
	}
	first := make([]bool, *shards)
	total := *n + *nmal
	samples, _ := os.Create(filepath.Join(*out, "samples.txt"))
	index, _ := os.Create(filepath.Join(*out, "index.tsv"))
	for i := 0; i < total; i++ {
		mal := i >= *n
		g := genCase(i, mal)
		os.Stdout = devnull
		g.f.Encoding(tmp)
		os.Stdout = stdout
		bs, err := os.ReadFile(tmp)
		if err != nil {
			panic(err)
		}
		os.Stdout = devnull
		dec, panicked := decode(tmp)
		os.Stdout = stdout
		pay := make([]string, len(g.pay))
		for k, p := range g.pay {
			pay[k] = p.coq()
		}
		in := fileCoq(g.f, g.filter.coq(), g.ext.coq(), pay)
		// expected bytes are the Go bytes, in symbolic form where possible
		goBytes := goBytesCoq(g, bs)
		var decS string
		if panicked {
			decS = "Panic"
		} else {
			dp := make([]string, len(dec.CdrList))
			for k, c := range dec.CdrList {
				dp[k] = compress(c.CdrByte)
			}
			decS = "(Ok " + fileCoq(dec, compress(dec.Hdr.CDRRouteingFilter), compress(dec.Hdr.PrivateExtension), dp) + ")"
		}
		s := i % *shards
		if first[s] {
			fmt.Fprintf(files[s], ";\n")
		}
		first[s] = true
		fmt.Fprintf(files[s], "mkFcase %d %v %s\n  %s\n  %s", i, !mal, in, goBytes, decS)
		if !mal {
			classes[g.class]++
		} else {
			classes["malformed"]++
		}
		nontrivial := len(g.f.CdrList) > 0 || len(g.f.Hdr.CDRRouteingFilter) > 0 || len(g.f.Hdr.PrivateExtension) > 0 ||
			g.f.Hdr.HighReleaseIdentifier == 7 || g.f.Hdr.LowReleaseIdentifier == 7
		h := fnv.New64a()
		h.Write([]byte(in))
		fmt.Fprintf(index, "%d\t%v\t%s\t%x\t%v\t%s\n", i, !mal, g.class, h.Sum64(), nontrivial, trunc(in, 300))
		if i < 3 || (mal && i < *n+2) {
			fmt.Fprintf(samples, "case %d wf=%v %s\n", i, !mal, trunc(in, 400))
		}
	}
	for _, f := range files {
		fmt.Fprintf(f, "].\nDefinition M := Eval vm_compute in run_cases cases.\nPrint M.\n")
		f.Close()
	}
	samples.Close()
	index.Close()
	os.Remove(tmp)
	fmt.Printf("cases=%d wf=%d malformed=%d\n", total, *n, *nmal)
	for k, v := range classes {
		fmt.Printf("class %s %d\n", k, v)
	}
}

func trunc(s string, n int) string {
	if len(s) > n {
		return s[:n] + "..."
	}
	return s
}

// Go's output bytes, written as literal segments ++ symbolic big fields when
// the bytes follow the expected layout; any deviation falls back to a literal.
func goBytesCoq(g gcase, bs []byte) string {
	parts := []string{}
	pos := 0
	lit := func(n int) bool {
		if pos+n > len(bs) {
			return false
		}
		if n > 0 {
			parts = append(parts, compress(bs[pos:pos+n]))
			pos += n
		}
		return true
	}
	field := func(p pat) bool {
		b := p.bytes()
		if pos+len(b) > len(bs) || string(bs[pos:pos+len(b)]) != string(b) {
			return false
		}
		if len(b) <= 24 {
			return lit(len(b))
		}
		parts = append(parts, p.coq())
		pos += len(b)
		return true
	}
	ok := lit(50) && field(g.filter) && lit(2) && field(g.ext)
	if ok {
		n := 0
		if g.f.Hdr.HighReleaseIdentifier == 7 {
			n++
		}
		if g.f.Hdr.LowReleaseIdentifier == 7 {
			n++
		}
		ok = lit(n)
	}
	for i := 0; ok && i < len(g.pay); i++ {
		n := 4
		if g.f.CdrList[i].Hdr.ReleaseIdentifier == 7 {
			n = 5
		}
		ok = lit(n) && field(g.pay[i])
	}
	lit(len(bs) - pos)
	if len(parts) == 0 {
		return "[]"
	}
	return "(" + strings.Join(parts, " ++ ") + ")"
}
