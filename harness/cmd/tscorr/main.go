// tscorr: correspondence driver for cdrConvert.TimeStampToCdr (C02): every
// minute-aligned zone offset from -14:00 to +14:00 (and a few odd ones) x random
// instants; prints Coq cases (fields, offset, bytes written by the real code).
package main

import (
	"flag"
	"fmt"
	"math/rand"
	"os"
	"strings"
	"time"

	"github.com/free5gc/chf/cdr/cdrConvert"
)

func main() {
	seed := flag.Int64("seed", 1, "seed")
	per := flag.Int("per", 1, "instants per offset")
	out := flag.String("out", "TsCases.v", "output file")
	flag.Parse()
	rng := rand.New(rand.NewSource(*seed))
	var cases []string
	offs := []int{}
	for m := -840; m <= 840; m++ {
		offs = append(offs, m*60)
	}
	offs = append(offs, 1, -1, 59, -59, 3599, -3599, 3601, 19830, -12345)
	for _, off := range offs {
		for k := 0; k < *per; k++ {
			y := 1970 + rng.Intn(130)
			t := time.Date(y, time.Month(1+rng.Intn(12)), 1+rng.Intn(28), rng.Intn(24), rng.Intn(60), rng.Intn(60), 0, time.FixedZone("", off))
			ts := cdrConvert.TimeStampToCdr(&t)
			var bs []string
			for _, b := range ts.Value {
				bs = append(bs, fmt.Sprint(b))
			}
			cases = append(cases, fmt.Sprintf("(%d, %d, %d, %d, %d, %d, (%d), [%s])", t.Year(), int(t.Month()), t.Day(), t.Hour(), t.Minute(), t.Second(), off, strings.Join(bs, ";")))
		}
	}
	f, _ := os.Create(*out)
	fmt.Fprintf(f, "From Coq Require Import List ZArith.\nFrom Verif Require Import Charging.TimeStamp Charging.CorrTs.\nImport ListNotations.\nOpen Scope Z_scope.\nDefinition cases : list (Z*Z*Z*Z*Z*Z*Z*list Z) := [\n%s\n].\nDefinition M := Eval vm_compute in run_ts cases.\nPrint M.\n", strings.Join(cases, ";\n"))
	f.Close()
	fmt.Printf("cases=%d offsets=%d\n", len(cases), len(offs))
}
