// accessgen: translator for C09.  Reads the request-processing code of the CHF with go/ast
// (internal/sbi/processor, internal/context) and writes coq/Conc/AccessGen.v:
//   - every access to the shared subscriber and global state (the fields listed in `guarded`),
//     with the function it occurs in, whether it writes, and the locks held at that point:
//     the locks taken in the function itself (Lock / Unlock / defer Unlock, followed through if, for,
//     switch and select bodies; a branch that returns does not flow on) plus the locks held at every call
//     site of the function (fixpoint over the call graph of the scanned packages; a function nobody
//     in them calls starts with none);
//   - every lock acquisition with the locks already held (for the lock order);
//   - every function that reads and then writes the subscriber pool by separate operations.
// Constructors working on an object that is not yet published ((*ChfUe).init, and NewCHFUe up to
// its LoadOrStore) are listed with the pseudo-lock "unpublished".
package main

import (
	"fmt"
	"go/ast"
	"go/parser"
	"go/token"
	"os"
	"path/filepath"
	"sort"
	"strings"
)

var guarded = map[string]bool{
	"RatingType": true, "ReservedQuota": true, "AcctRequestNum": true, "UnitCost": true, "Cdr": true, "Records": true,
	"NotifyUri": true, "RatingGroups": true, "LocalRecordSequenceNumber": true, "RecordSequenceNumber": true,
}

// fields of the CHF context (as opposed to a subscriber context) are told apart by the receiver's name
var ctxNames = map[string]bool{"self": true, "context": true, "chfContext": true, "c": true}

type access struct {
	fn, field string
	write     bool
	held      []string
	pos       string
}
type acquire struct {
	fn, lock string
	held     []string
	pos      string
}
type call struct {
	caller, callee string
	held           []string
}

var (
	accesses []access
	acquires []acquire
	calls    []call
	funcs    = map[string]bool{}
	poolOps  = map[string][]string{}
	fset     = token.NewFileSet()
)

func copySet(s map[string]bool) map[string]bool {
	o := map[string]bool{}
	for k, v := range s {
		if v {
			o[k] = true
		}
	}
	return o
}
func inter(a, b map[string]bool) map[string]bool {
	o := map[string]bool{}
	for k := range a {
		if a[k] && b[k] {
			o[k] = true
		}
	}
	return o
}
func list(s map[string]bool) []string {
	var o []string
	for k, v := range s {
		if v {
			o = append(o, k)
		}
	}
	sort.Strings(o)
	return o
}

// lockOf recognises X.CULock.Lock() / Unlock() and <context>.Lock() / Unlock()
func lockOf(c *ast.CallExpr) (lock string, op string) {
	sel, ok := c.Fun.(*ast.SelectorExpr)
	if !ok || (sel.Sel.Name != "Lock" && sel.Sel.Name != "Unlock") {
		return "", ""
	}
	switch x := sel.X.(type) {
	case *ast.SelectorExpr:
		if x.Sel.Name == "CULock" {
			return "CULock", sel.Sel.Name
		}
	case *ast.Ident:
		switch x.Name {
		case "self", "context", "chfContext", "c":
			return "ctx", sel.Sel.Name
		}
	}
	return "", ""
}

type walker struct {
	fn string
}

func terminates(b *ast.BlockStmt) bool {
	if b == nil || len(b.List) == 0 {
		return false
	}
	switch s := b.List[len(b.List)-1].(type) {
	case *ast.ReturnStmt:
		return true
	case *ast.ExprStmt:
		if c, ok := s.X.(*ast.CallExpr); ok {
			if id, ok := c.Fun.(*ast.Ident); ok && id.Name == "panic" {
				return true
			}
		}
	}
	return false
}

// expr records the accesses and calls inside an expression; writeTarget marks the expression as assigned to
func (w *walker) expr(e ast.Node, held map[string]bool, write bool) {
	if e == nil {
		return
	}
	ast.Inspect(e, func(n ast.Node) bool {
		switch x := n.(type) {
		case *ast.FuncLit:
			// a closure: analysed as part of the function, with the locks held where it is created
			w.block(x.Body, copySet(held))
			return false
		case *ast.CallExpr:
			if lock, op := lockOf(x); lock != "" {
				_ = op
				return false // handled at statement level
			}
			name := ""
			switch f := x.Fun.(type) {
			case *ast.Ident:
				name = f.Name
			case *ast.SelectorExpr:
				name = f.Sel.Name
				if id, ok := f.X.(*ast.SelectorExpr); ok && id.Sel.Name == "UePool" {
					poolOps[w.fn] = append(poolOps[w.fn], f.Sel.Name)
				}
				if id, ok := f.X.(*ast.Ident); ok && id.Name == "UePool" {
					poolOps[w.fn] = append(poolOps[w.fn], f.Sel.Name)
				}
			}
			if name == "delete" && len(x.Args) > 0 {
				w.expr(x.Args[0], held, true)
				for _, a := range x.Args[1:] {
					w.expr(a, held, false)
				}
				return false
			}
			if name != "" {
				calls = append(calls, call{w.fn, name, list(held)})
			}
		case *ast.SelectorExpr:
			if guarded[x.Sel.Name] {
				name := x.Sel.Name
				if id, ok := x.X.(*ast.Ident); ok && ctxNames[id.Name] && name != "LocalRecordSequenceNumber" {
					name = "ctx." + name
				}
				accesses = append(accesses, access{w.fn, name, write, list(held), fset.Position(x.Pos()).String()})
			}
		}
		return true
	})
}

func (w *walker) stmt(s ast.Stmt, held map[string]bool) (out map[string]bool, returns bool) {
	switch x := s.(type) {
	case *ast.ExprStmt:
		if c, ok := x.X.(*ast.CallExpr); ok {
			if lock, op := lockOf(c); lock != "" {
				if op == "Lock" {
					acquires = append(acquires, acquire{w.fn, lock, list(held), fset.Position(c.Pos()).String()})
					held[lock] = true
				} else {
					delete(held, lock)
				}
				return held, false
			}
		}
		w.expr(x.X, held, false)
	case *ast.DeferStmt:
		if lock, _ := lockOf(x.Call); lock != "" {
			return held, false // released when the function returns
		}
		w.expr(x.Call, held, false)
	case *ast.GoStmt:
		// a new task starts with no lock
		w.expr(x.Call, map[string]bool{}, false)
	case *ast.AssignStmt:
		for _, l := range x.Lhs {
			// the field (or an element of it) is written
			switch t := l.(type) {
			case *ast.IndexExpr:
				w.expr(t.X, held, true)
				w.expr(t.Index, held, false)
			default:
				w.expr(l, held, true)
			}
		}
		for _, r := range x.Rhs {
			w.expr(r, held, false)
		}
	case *ast.IncDecStmt:
		w.expr(x.X, held, true)
	case *ast.ReturnStmt:
		for _, r := range x.Results {
			w.expr(r, held, false)
		}
		return held, true
	case *ast.BlockStmt:
		return w.block(x, held), terminates(x)
	case *ast.IfStmt:
		if x.Init != nil {
			held, _ = w.stmt(x.Init, held)
		}
		w.expr(x.Cond, held, false)
		a := w.block(x.Body, copySet(held))
		aRet := terminates(x.Body)
		var b map[string]bool
		bRet := false
		switch e := x.Else.(type) {
		case *ast.BlockStmt:
			b = w.block(e, copySet(held))
			bRet = terminates(e)
		case *ast.IfStmt:
			b, bRet = w.stmt(e, copySet(held))
		default:
			b = copySet(held)
		}
		switch {
		case aRet && bRet:
			return held, true
		case aRet:
			return b, false
		case bRet:
			return a, false
		}
		return inter(a, b), false
	case *ast.ForStmt:
		if x.Init != nil {
			held, _ = w.stmt(x.Init, held)
		}
		w.expr(x.Cond, held, false)
		a := w.block(x.Body, copySet(held))
		if x.Post != nil {
			w.stmt(x.Post, copySet(a))
		}
		return inter(held, a), false
	case *ast.RangeStmt:
		w.expr(x.X, held, false)
		a := w.block(x.Body, copySet(held))
		return inter(held, a), false
	case *ast.SwitchStmt:
		if x.Init != nil {
			held, _ = w.stmt(x.Init, held)
		}
		w.expr(x.Tag, held, false)
		out := copySet(held)
		for _, c := range x.Body.List {
			cc := c.(*ast.CaseClause)
			for _, e := range cc.List {
				w.expr(e, held, false)
			}
			h := copySet(held)
			ret := false
			for _, st := range cc.Body {
				h, ret = w.stmt(st, h)
			}
			if !ret {
				out = inter(out, h)
			}
		}
		return out, false
	case *ast.TypeSwitchStmt:
		out := copySet(held)
		for _, c := range x.Body.List {
			cc := c.(*ast.CaseClause)
			h := copySet(held)
			ret := false
			for _, st := range cc.Body {
				h, ret = w.stmt(st, h)
			}
			if !ret {
				out = inter(out, h)
			}
		}
		return out, false
	case *ast.SelectStmt:
		out := copySet(held)
		for _, c := range x.Body.List {
			cc := c.(*ast.CommClause)
			h := copySet(held)
			if cc.Comm != nil {
				h, _ = w.stmt(cc.Comm, h)
			}
			ret := false
			for _, st := range cc.Body {
				h, ret = w.stmt(st, h)
			}
			if !ret {
				out = inter(out, h)
			}
		}
		return out, false
	case *ast.DeclStmt:
		ast.Inspect(x, func(n ast.Node) bool {
			if v, ok := n.(*ast.ValueSpec); ok {
				for _, e := range v.Values {
					w.expr(e, held, false)
				}
			}
			return true
		})
	case *ast.SendStmt:
		w.expr(x.Chan, held, false)
		w.expr(x.Value, held, false)
	case *ast.LabeledStmt:
		return w.stmt(x.Stmt, held)
	}
	return held, false
}

func (w *walker) block(b *ast.BlockStmt, held map[string]bool) map[string]bool {
	if b == nil {
		return held
	}
	for _, s := range b.List {
		var ret bool
		held, ret = w.stmt(s, held)
		if ret {
			break
		}
	}
	return held
}

func q(s string) string { return "\"" + s + "\"" }
func ql(l []string) string {
	var o []string
	for _, s := range l {
		o = append(o, q(s))
	}
	return "[" + strings.Join(o, "; ") + "]"
}

func main() {
	if len(os.Args) != 3 {
		fmt.Fprintln(os.Stderr, "usage: accessgen <repo> <out AccessGen.v>")
		os.Exit(2)
	}
	repo := os.Args[1]
	var files []string
	for _, dir := range []string{"internal/sbi/processor", "internal/context"} {
		ms, _ := filepath.Glob(filepath.Join(repo, dir, "*.go"))
		for _, m := range ms {
			if !strings.HasSuffix(m, "_test.go") {
				files = append(files, m)
			}
		}
	}
	sort.Strings(files)
	type fdecl struct {
		name string
		body *ast.BlockStmt
	}
	var decls []fdecl
	for _, p := range files {
		f, err := parser.ParseFile(fset, p, nil, 0)
		if err != nil {
			fmt.Fprintln(os.Stderr, "accessgen:", err)
			os.Exit(1)
		}
		for _, d := range f.Decls {
			if fd, ok := d.(*ast.FuncDecl); ok && fd.Body != nil {
				name := fd.Name.Name
				if fd.Recv != nil && len(fd.Recv.List) == 1 {
					if st, ok := fd.Recv.List[0].Type.(*ast.StarExpr); ok {
						if id, ok := st.X.(*ast.Ident); ok && id.Name == "ChfUe" && name == "init" {
							name = "ChfUe.init"
						}
					}
				}
				funcs[name] = true
				decls = append(decls, fdecl{name, fd.Body})
			}
		}
	}
	// functions nobody refers to anywhere in the repository are dead code: they are left out (and listed)
	used := map[string]bool{}
	_ = filepath.Walk(repo, func(p string, info os.FileInfo, err error) error {
		if err != nil || info.IsDir() || !strings.HasSuffix(p, ".go") || strings.HasSuffix(p, "_test.go") {
			return nil
		}
		f, perr := parser.ParseFile(token.NewFileSet(), p, nil, 0)
		if perr != nil {
			return nil
		}
		ast.Inspect(f, func(n ast.Node) bool {
			switch x := n.(type) {
			case *ast.FuncDecl:
				if x.Body != nil {
					ast.Inspect(x.Body, func(m ast.Node) bool {
						switch y := m.(type) {
						case *ast.SelectorExpr:
							used[y.Sel.Name] = true
						case *ast.Ident:
							used[y.Name] = true
						}
						return true
					})
				}
				return false
			}
			return true
		})
		return nil
	})
	var dead []string
	var live []fdecl
	for _, d := range decls {
		base := d.name
		if k := strings.LastIndex(base, "."); k >= 0 {
			base = base[k+1:]
		}
		if !used[base] && base != "init" && base != "main" {
			dead = append(dead, d.name)
			delete(funcs, d.name)
			continue
		}
		live = append(live, d)
	}
	decls = live
	sort.Strings(dead)
	for _, d := range dead {
		fmt.Printf("dead %s\n", d)
	}
	for _, d := range decls {
		w := &walker{fn: d.name}
		held := map[string]bool{}
		if d.name == "ChfUe.init" || d.name == "InitChfContext" {
			held["unpublished"] = true // constructor of a subscriber context; start-up, before any request is served
		}
		w.block(d.body, held)
	}
	// entry locksets: intersection over the call sites inside the scanned packages
	entry := map[string]map[string]bool{}
	called := map[string]bool{}
	for _, c := range calls {
		if funcs[c.callee] && c.callee != c.caller {
			called[c.callee] = true
		}
	}
	all := map[string]bool{"CULock": true, "ctx": true, "unpublished": true}
	for f := range funcs {
		if called[f] {
			entry[f] = copySet(all)
		} else {
			entry[f] = map[string]bool{}
		}
	}
	for changed := true; changed; {
		changed = false
		for _, c := range calls {
			if !funcs[c.callee] || c.callee == c.caller {
				continue
			}
			at := copySet(entry[c.caller])
			for _, h := range c.held {
				at[h] = true
			}
			n := inter(entry[c.callee], at)
			if len(n) != len(entry[c.callee]) {
				entry[c.callee] = n
				changed = true
			}
		}
	}
	if os.Getenv("ACCESSGEN_DEBUG") != "" {
		for _, c := range calls {
			if funcs[c.callee] {
				fmt.Printf("call %s -> %s held=%v\n", c.caller, c.callee, c.held)
			}
		}
		for f, e := range entry {
			fmt.Printf("entry %s = %v\n", f, list(e))
		}
	}
	with := func(fn string, held []string) []string {
		s := copySet(entry[fn])
		for _, h := range held {
			s[h] = true
		}
		return list(s)
	}
	var b strings.Builder
	b.WriteString("(* GENERATED by harness/cmd/accessgen from internal/sbi/processor and internal/context. Do not edit. *)\n")
	b.WriteString("From Coq Require Import String List.\nFrom Verif Require Import Conc.Model.\nImport ListNotations.\nOpen Scope string_scope.\n\n")
	var rows []string
	for _, a := range accesses {
		rows = append(rows, fmt.Sprintf("mkAccess %s %s %v %s", q(a.fn), q(a.field), a.write, ql(with(a.fn, a.held))))
	}
	b.WriteString("Definition accesses_gen : list access := [\n  " + strings.Join(rows, ";\n  ") + "].\n\n")
	rows = nil
	for _, a := range acquires {
		rows = append(rows, fmt.Sprintf("(%s, %s, %s)", q(a.fn), q(a.lock), ql(with(a.fn, a.held))))
	}
	b.WriteString("(* (function, lock acquired, locks already held) *)\nDefinition acquires_gen : list (string * string * list string) := [\n  " + strings.Join(rows, ";\n  ") + "].\n\n")
	rows = nil
	var pfs []string
	for f := range poolOps {
		pfs = append(pfs, f)
	}
	sort.Strings(pfs)
	for _, f := range pfs {
		rows = append(rows, fmt.Sprintf("(%s, %s)", q(f), ql(poolOps[f])))
	}
	b.WriteString("(* operations on the subscriber pool (a sync.Map), per function, in source order *)\nDefinition pool_ops_gen : list (string * list string) := [\n  " + strings.Join(rows, ";\n  ") + "].\n")
	if err := os.WriteFile(os.Args[2], []byte(b.String()), 0o644); err != nil {
		fmt.Fprintln(os.Stderr, err)
		os.Exit(1)
	}
	bad := 0
	for _, a := range accesses {
		l := with(a.fn, a.held)
		need := "CULock"
		if a.field == "LocalRecordSequenceNumber" || strings.HasPrefix(a.field, "ctx.") {
			need = "ctx"
		}
		ok := false
		written := false
		for _, b := range accesses {
			if b.field == a.field && b.write {
				unpub := false
				for _, h := range with(b.fn, b.held) {
					unpub = unpub || h == "unpublished"
				}
				written = written || !unpub
			}
		}
		if !written {
			ok = true // never written once published: read-only
		}
		for _, h := range l {
			if h == need || h == "unpublished" {
				ok = true
			}
		}
		if !ok {
			bad++
			fmt.Printf("unguarded %s %s write=%v held=%v at %s\n", a.fn, a.field, a.write, l, a.pos)
		}
	}
	fmt.Printf("accesses=%d unguarded=%d acquires=%d functions=%d\n", len(accesses), bad, len(acquires), len(funcs))
}

func init() {
	if os.Getenv("ACCESSGEN_DEBUG") != "" {
		defer func() {}()
	}
}
