// diamcorr: correspondence harness for C17.  Builds random and boundary values of the four
// message structs of ccs_diameter/datatype, sends each through the real
// Marshal -> WriteTo -> ReadMessage -> Unmarshal of go-diameter with the dictionaries loaded
// the way the CHF loads them, and writes Coq case files: (message, sent value, octets of the
// message body, received value).
//
//	diamcorr <seed> <cases> <shards> <outdir>
package main

import (
	"bytes"
	"fmt"
	"math/rand"
	"os"
	"path/filepath"
	"reflect"
	"strconv"
	"strings"
	"time"

	"github.com/fiorix/go-diameter/diam"
	"github.com/fiorix/go-diameter/diam/datatype"
	"github.com/fiorix/go-diameter/diam/dict"

	charging_code "github.com/free5gc/chf/ccs_diameter/code"
	charging_datatype "github.com/free5gc/chf/ccs_diameter/datatype"
	charging_dict "github.com/free5gc/chf/ccs_diameter/dict"
)

const dtPkg = "github.com/fiorix/go-diameter/diam/datatype"

var rng *rand.Rand
var stats = map[string]int{}

func pickU(bits uint) uint64 {
	max := uint64(1)<<bits - 1
	if bits == 64 {
		max = ^uint64(0)
	}
	switch rng.Intn(10) {
	case 0:
		stats["num:zero"]++
		return 0
	case 1:
		stats["num:max"]++
		return max
	case 2:
		return max - 1
	case 3:
		return max/2 + 1 // the sign bit alone
	case 4:
		return max / 2
	case 5:
		return 1
	case 6:
		return uint64(rng.Intn(256))
	default:
		return rng.Uint64() & max
	}
}

func pickBytes() []byte {
	var n int
	switch rng.Intn(20) {
	case 0:
		n = 0
		stats["str:empty"]++
	case 1:
		n = 253 + rng.Intn(8)
	case 2:
		n = 1000 + rng.Intn(3000)
		stats["str:long"]++
	default:
		n = rng.Intn(24)
	}
	b := make([]byte, n)
	switch rng.Intn(3) {
	case 0:
		rng.Read(b) // any octets, valid UTF-8 or not
	default:
		const al = "abcdefghijklmnopqrstuvwxyz0123456789-.@:imsi"
		for i := range b {
			b[i] = al[rng.Intn(len(al))]
		}
	}
	return b
}

// fill sets v (addressable) to a random value of its type
func fill(v reflect.Value, depth int) {
	t := v.Type()
	if t.PkgPath() == dtPkg {
		switch t.Name() {
		case "Unsigned32":
			v.SetUint(pickU(32))
		case "Unsigned64":
			v.SetUint(pickU(64))
		case "Integer32", "Enumerated":
			v.SetInt(int64(int32(uint32(pickU(32)))))
		case "Integer64":
			v.SetInt(int64(pickU(64)))
		case "OctetString", "UTF8String", "DiameterIdentity", "DiameterURI", "IPFilterRule":
			v.SetString(string(pickBytes()))
		case "Time":
			var tm time.Time
			switch rng.Intn(6) {
			case 0: // the zero time.Time
				stats["time:zero"]++
			case 1:
				tm = time.Unix(int64(pickU(32))-2208988800, 0)
			case 2:
				tm = time.Unix(rng.Int63n(1<<33)-1<<31, int64(rng.Intn(1000000000)))
			default:
				tm = time.Unix(1700000000+rng.Int63n(100000000), 0)
			}
			v.Set(reflect.ValueOf(datatype.Time(tm)))
		case "Grouped":
			// the components never fill the raw grouped members: they stay nil
		default:
			panic("datatype not handled: " + t.String())
		}
		return
	}
	switch t.Kind() {
	case reflect.Ptr:
		p := 0.75
		if depth > 3 {
			p = 0.5
		}
		if rng.Float64() < p {
			v.Set(reflect.New(t.Elem()))
			fill(v.Elem(), depth+1)
		} else {
			stats["ptr:nil"]++
		}
	case reflect.Struct:
		for i := 0; i < t.NumField(); i++ {
			if t.Field(i).Tag.Get("avp") != "" {
				fill(v.Field(i), depth+1)
			}
		}
	case reflect.Int32:
		v.SetInt(int64(int32(uint32(pickU(32)))))
	default:
		panic("field type not handled: " + t.String())
	}
}

func zl(b []byte) string {
	if len(b) == 0 {
		return "[]"
	}
	var parts []string
	for i := 0; i < len(b); i += 1500 {
		j := i + 1500
		if j > len(b) {
			j = len(b)
		}
		s := make([]string, j-i)
		for k, x := range b[i:j] {
			s[k] = strconv.Itoa(int(x))
		}
		parts = append(parts, "["+strings.Join(s, ";")+"]")
	}
	if len(parts) == 1 {
		return parts[0]
	}
	return "(" + strings.Join(parts, " ++ ") + ")%list"
}

// gval renders the value as the Coq gval of Diam/Avp.v
func gval(v reflect.Value) string {
	t := v.Type()
	if t.PkgPath() == dtPkg {
		switch t.Name() {
		case "Unsigned32", "Unsigned64":
			return "VNum " + strconv.FormatUint(v.Uint(), 10)
		case "Integer32", "Enumerated", "Integer64":
			return "VNum (" + strconv.FormatInt(v.Int(), 10) + ")"
		case "OctetString", "UTF8String", "DiameterIdentity", "DiameterURI", "IPFilterRule":
			return "VStr " + zl([]byte(v.String()))
		case "Time":
			tm := time.Time(v.Interface().(datatype.Time))
			return "VTime " + strconv.FormatUint(uint64(uint32(tm.Unix())+2208988800), 10)
		case "Grouped":
			return "VRaw " + zl(v.Bytes())
		}
	}
	switch t.Kind() {
	case reflect.Ptr:
		if v.IsNil() {
			return "VNil"
		}
		return "VSome (" + gval(v.Elem()) + ")"
	case reflect.Struct:
		var fs []string
		for i := 0; i < t.NumField(); i++ {
			if t.Field(i).Tag.Get("avp") != "" {
				fs = append(fs, gval(v.Field(i)))
			}
		}
		return "VStruct [" + strings.Join(fs, "; ") + "]"
	case reflect.Int32:
		return "VNum (" + strconv.FormatInt(v.Int(), 10) + ")"
	}
	panic("gval: " + t.String())
}

func main() {
	seed, _ := strconv.ParseInt(os.Args[1], 10, 64)
	n, _ := strconv.Atoi(os.Args[2])
	shards, _ := strconv.Atoi(os.Args[3])
	outdir := os.Args[4]
	rng = rand.New(rand.NewSource(seed))
	for _, x := range []string{charging_dict.RateDictionary, charging_dict.AbmfDictionary} {
		if err := dict.Default.Load(bytes.NewReader([]byte(x))); err != nil {
			fmt.Fprintln(os.Stderr, "dictionary does not load:", err)
			os.Exit(1)
		}
	}
	type msgT struct {
		name    string
		mk      func() interface{}
		cmd     uint32
		request bool
	}
	msgs := []msgT{
		{"ServiceUsageRequest", func() interface{} { return &charging_datatype.ServiceUsageRequest{} }, charging_code.ServiceUsageMessage, true},
		{"ServiceUsageResponse", func() interface{} { return &charging_datatype.ServiceUsageResponse{} }, charging_code.ServiceUsageMessage, false},
		{"AccountDebitRequest", func() interface{} { return &charging_datatype.AccountDebitRequest{} }, charging_code.ABMF_CreditControl, true},
		{"AccountDebitResponse", func() interface{} { return &charging_datatype.AccountDebitResponse{} }, charging_code.ABMF_CreditControl, false},
	}
	lines := make([][]string, shards)
	failures := 0
	for i := 0; i < n; i++ {
		mt := msgs[i%len(msgs)]
		src := mt.mk()
		fill(reflect.ValueOf(src).Elem(), 0)
		var m *diam.Message
		if mt.request {
			m = diam.NewRequest(mt.cmd, charging_code.Re_interface, dict.Default)
		} else {
			req := diam.NewRequest(mt.cmd, charging_code.Re_interface, dict.Default)
			m = req.Answer(2001)
			m.AVP = nil
		}
		stats["msg:"+mt.name]++
		var wire bytes.Buffer
		dst := mt.mk()
		status := "true"
		if err := m.Marshal(src); err != nil {
			status = "false"
			stats["marshal-error"]++
		} else if _, err := m.WriteTo(&wire); err != nil {
			status = "false"
		} else {
			all := append([]byte{}, wire.Bytes()...)
			m2, err := diam.ReadMessage(bytes.NewReader(all), dict.Default)
			if err != nil {
				status = "false"
				stats["read-error"]++
			} else if err := m2.Unmarshal(dst); err != nil {
				stats["unmarshal-error"]++
			}
		}
		if status == "false" {
			failures++
		}
		body := []byte{}
		if wire.Len() >= 20 {
			body = wire.Bytes()[20:]
		}
		stats["bytes"] += len(body)
		lines[i%shards] = append(lines[i%shards], fmt.Sprintf("(%d, %d, %s,\n  %s,\n  %s,\n  %s)", i, i%len(msgs), status,
			gval(reflect.ValueOf(src).Elem()), zl(body), gval(reflect.ValueOf(dst).Elem())))
	}
	for s := 0; s < shards; s++ {
		var b strings.Builder
		b.WriteString("From Coq Require Import List ZArith String.\nFrom Verif Require Import Diam.Avp Diam.DictGen Diam.Corr.\nImport ListNotations.\nOpen Scope Z_scope.\n")
		b.WriteString("Definition cases : list dcase := [\n" + strings.Join(lines[s], ";\n") + "\n].\n")
		b.WriteString("Definition M := Eval vm_compute in run_diam cases.\nPrint M.\n")
		if err := os.WriteFile(filepath.Join(outdir, fmt.Sprintf("DiamCases%d.v", s)), []byte(b.String()), 0o644); err != nil {
			panic(err)
		}
	}
	var ks []string
	for k, v := range stats {
		ks = append(ks, fmt.Sprintf("%s=%d", k, v))
	}
	fmt.Printf("cases=%d go_failures=%d %s\n", n, failures, strings.Join(ks, " "))
}
