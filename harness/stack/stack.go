//go:build verif

// Package stack brings up the real CHF in-process for the verification
// harness: a fake MongoDB, the real rating (rf) and account balance (abmf)
// Diameter servers on loopback TLS ports, the real processor and the real gin
// router (driven through httptest, no SBI listener), plus a stub notification
// consumer that records what the CHF posts to a notifyUri.
//
// The CHF keeps its state in package-level variables (factory.ChfConfig,
// chf_context, mongoapi.Client, dict.Default), so only one Stack can live in a
// process.
package stack

import (
	"context"
	"crypto/ecdsa"
	"crypto/elliptic"
	"crypto/rand"
	"crypto/x509"
	"crypto/x509/pkix"
	"encoding/pem"
	"errors"
	"fmt"
	"io"
	"math/big"
	"net"
	"net/http"
	"net/http/httptest"
	"os"
	"path/filepath"
	"sort"
	"strconv"
	"strings"
	"sync"
	"sync/atomic"
	"time"

	"github.com/gin-gonic/gin"
	"github.com/sirupsen/logrus"
	"go.mongodb.org/mongo-driver/bson"
	"golang.org/x/net/http2"
	"golang.org/x/net/http2/h2c"

	chf_context "github.com/free5gc/chf/internal/context"
	"github.com/free5gc/chf/internal/logger"
	"github.com/free5gc/chf/internal/sbi"
	"github.com/free5gc/chf/internal/sbi/consumer"
	"github.com/free5gc/chf/internal/sbi/processor"
	"github.com/free5gc/chf/pkg/abmf"
	"github.com/free5gc/chf/pkg/factory"
	"github.com/free5gc/chf/pkg/rf"
	"github.com/free5gc/chf/verifh/fakemongo"
)

// ChargingColl is the collection the CHF keeps its account documents in.
const ChargingColl = "policyData.ues.chargingData"

// Options configures the CHF instance.
type Options struct {
	Services          []string // ServiceNameList, default ["nchf-convergedcharging"]
	NrfUri            string   // default http://127.0.0.10:8000 (never contacted)
	VolumeLimit       int32
	VolumeLimitPDU    int32
	QuotaValidityTime int32
	OAuth2Required    bool // sets CHFContext.OAuth2Required after Init

	// LogOutput receives the CHF's logrus output at LogLevel.  When nil all
	// logging is discarded.
	LogOutput io.Writer
	LogLevel  logrus.Level // used only with LogOutput; zero value means Info
	// CaptureErrors records error-level (and worse) log messages so they can
	// be fetched with DrainErrorLogs (gin's recovered panics end up there).
	CaptureErrors bool
	// CountAnswers raises the log level to trace (output still discarded) and counts the answers
	// received by the Diameter clients.
	CountAnswers bool
}

// Notification is one request received by the stub notification consumer.
type Notification struct {
	Method string
	Path   string
	Proto  string
	Body   []byte
}

// Stack is a running in-process CHF.
type Stack struct {
	Router   http.Handler
	Mongo    *fakemongo.Server
	RfAddr   string
	AbmfAddr string

	ans              *ansHook
	sockMu           sync.Mutex
	seenRf, seenAbmf map[int]bool
	CertPem          string
	CertKey          string
	Dir              string

	app    *chfApp
	cancel context.CancelFunc
	wg     sync.WaitGroup

	notifyLn  net.Listener
	notifySrv *http.Server

	nmu    sync.Mutex
	notifs []Notification

	hook *errHook
}

var (
	startMu sync.Mutex
	started bool
)

// chfApp implements app.App and sbi.ServerChf the way pkg/service.ChfApp does.
type chfApp struct {
	ctx  context.Context
	proc *processor.Processor
	cons *consumer.Consumer
}

func (a *chfApp) SetLogEnable(bool)                {}
func (a *chfApp) SetLogLevel(string)               {}
func (a *chfApp) SetReportCaller(bool)             {}
func (a *chfApp) Start()                           {}
func (a *chfApp) Terminate()                       {}
func (a *chfApp) Context() *chf_context.CHFContext { return chf_context.GetSelf() }
func (a *chfApp) Config() *factory.Config          { return factory.ChfConfig }
func (a *chfApp) Consumer() *consumer.Consumer     { return a.cons }
func (a *chfApp) Processor() *processor.Processor  { return a.proc }
func (a *chfApp) CancelContext() context.Context   { return a.ctx }

var _ sbi.ServerChf = (*chfApp)(nil)

// errHook keeps the first line of error-level log entries.
// ansHook counts the answers the Diameter clients of the CHF receive (trace messages of
// internal/rating.HandleSUA and internal/abmf.HandleCCA): one per completed exchange.
type ansHook struct{ sua, cca int64 }

func (h *ansHook) Levels() []logrus.Level { return []logrus.Level{logrus.TraceLevel} }
func (h *ansHook) Fire(e *logrus.Entry) error {
	switch {
	case strings.HasPrefix(e.Message, "Received SUA"):
		atomic.AddInt64(&h.sua, 1)
	case strings.HasPrefix(e.Message, "Received CCA"):
		atomic.AddInt64(&h.cca, 1)
	}
	return nil
}

// Answers: service-usage and credit-control answers received by the CHF's clients so far
// (Options.CountAnswers).
func (s *Stack) Answers() (sua, cca int64) {
	if s.ans == nil {
		return 0, 0
	}
	return atomic.LoadInt64(&s.ans.sua), atomic.LoadInt64(&s.ans.cca)
}

type errHook struct {
	mu   sync.Mutex
	msgs []string
}

func (h *errHook) Levels() []logrus.Level {
	return []logrus.Level{logrus.PanicLevel, logrus.FatalLevel, logrus.ErrorLevel}
}

func (h *errHook) Fire(e *logrus.Entry) error {
	msg := e.Message
	if i := strings.IndexByte(msg, '\n'); i >= 0 {
		msg = msg[:i]
	}
	if len(msg) > 300 {
		msg = msg[:300]
	}
	if cat, ok := e.Data["CAT"].(string); ok {
		msg = "[" + cat + "] " + msg
	}
	h.mu.Lock()
	if len(h.msgs) < 10000 {
		h.msgs = append(h.msgs, msg)
	}
	h.mu.Unlock()
	return nil
}

// FreePort returns a loopback TCP port that was free a moment ago.
func FreePort() (int, error) {
	ln, err := net.Listen("tcp", "127.0.0.1:0")
	if err != nil {
		return 0, err
	}
	port := ln.Addr().(*net.TCPAddr).Port
	if err = ln.Close(); err != nil {
		return 0, err
	}
	return port, nil
}

// writeSelfSignedCert writes a fresh self-signed ECDSA certificate and its key
// as PEM files.
func writeSelfSignedCert(pemPath, keyPath string) error {
	key, err := ecdsa.GenerateKey(elliptic.P256(), rand.Reader)
	if err != nil {
		return err
	}
	serial, err := rand.Int(rand.Reader, new(big.Int).Lsh(big.NewInt(1), 120))
	if err != nil {
		return err
	}
	tmpl := &x509.Certificate{
		SerialNumber:          serial,
		Subject:               pkix.Name{CommonName: "chf.verif.local", Organization: []string{"verif"}},
		NotBefore:             time.Now().Add(-time.Hour),
		NotAfter:              time.Now().Add(10 * 365 * 24 * time.Hour),
		KeyUsage:              x509.KeyUsageDigitalSignature | x509.KeyUsageCertSign,
		ExtKeyUsage:           []x509.ExtKeyUsage{x509.ExtKeyUsageServerAuth, x509.ExtKeyUsageClientAuth},
		BasicConstraintsValid: true,
		IsCA:                  true,
		DNSNames:              []string{"localhost"},
		IPAddresses:           []net.IP{net.ParseIP("127.0.0.1")},
	}
	der, err := x509.CreateCertificate(rand.Reader, tmpl, tmpl, &key.PublicKey, key)
	if err != nil {
		return err
	}
	keyDer, err := x509.MarshalECPrivateKey(key)
	if err != nil {
		return err
	}
	if err = os.WriteFile(pemPath, pem.EncodeToMemory(&pem.Block{Type: "CERTIFICATE", Bytes: der}), 0o600); err != nil {
		return err
	}
	return os.WriteFile(keyPath, pem.EncodeToMemory(&pem.Block{Type: "EC PRIVATE KEY", Bytes: keyDer}), 0o600)
}

func waitTCP(addr string, timeout time.Duration) error {
	deadline := time.Now().Add(timeout)
	for {
		c, err := net.DialTimeout("tcp", addr, 200*time.Millisecond)
		if err == nil {
			_ = c.Close()
			return nil
		}
		if time.Now().After(deadline) {
			return fmt.Errorf("%s does not accept connections: %w", addr, err)
		}
		time.Sleep(5 * time.Millisecond)
	}
}

// Start brings the CHF up.  dir must exist (or be creatable); certificate files
// are written to a fresh sub-directory of it.
func Start(dir string, opts Options) (*Stack, error) {
	startMu.Lock()
	defer startMu.Unlock()
	if started {
		return nil, errors.New("stack: only one Stack per process (the CHF state is global)")
	}

	if err := os.MkdirAll(dir, 0o755); err != nil {
		return nil, err
	}
	sub, err := os.MkdirTemp(dir, "stack-"+strconv.Itoa(os.Getpid())+"-")
	if err != nil {
		return nil, err
	}
	st := &Stack{
		Dir:     sub,
		CertPem: filepath.Join(sub, "chf.pem"),
		CertKey: filepath.Join(sub, "chf.key"),
	}
	if err = writeSelfSignedCert(st.CertPem, st.CertKey); err != nil {
		return nil, err
	}

	// logging
	gin.SetMode(gin.ReleaseMode)
	gin.DefaultWriter = io.Discard
	gin.DefaultErrorWriter = io.Discard
	if opts.LogOutput != nil {
		lvl := opts.LogLevel
		if lvl == 0 {
			lvl = logrus.InfoLevel
		}
		logger.Log.SetOutput(opts.LogOutput)
		logger.Log.SetLevel(lvl)
	} else {
		logger.Log.SetOutput(io.Discard)
		if opts.CaptureErrors {
			logger.Log.SetLevel(logrus.ErrorLevel)
		} else {
			logger.Log.SetLevel(logrus.PanicLevel)
		}
	}
	if opts.CaptureErrors {
		st.hook = &errHook{}
		logger.Log.AddHook(st.hook)
	}
	if opts.CountAnswers {
		st.ans = &ansHook{}
		logger.Log.SetLevel(logrus.TraceLevel)
		logger.Log.AddHook(st.ans)
	}

	if st.Mongo, err = fakemongo.Start(); err != nil {
		return nil, err
	}
	fail := func(e error) (*Stack, error) {
		st.Close()
		return nil, e
	}

	if err = st.startNotifyStub(); err != nil {
		return fail(err)
	}

	sbiPort, err := FreePort()
	if err != nil {
		return fail(err)
	}
	rfPort, err := FreePort()
	if err != nil {
		return fail(err)
	}
	abmfPort, err := FreePort()
	if err != nil {
		return fail(err)
	}
	for abmfPort == rfPort {
		if abmfPort, err = FreePort(); err != nil {
			return fail(err)
		}
	}

	services := opts.Services
	if len(services) == 0 {
		services = []string{"nchf-convergedcharging"}
	}
	nrfUri := opts.NrfUri
	if nrfUri == "" {
		nrfUri = "http://127.0.0.10:8000"
	}
	tlsCfg := func() *factory.Tls { return &factory.Tls{Pem: st.CertPem, Key: st.CertKey} }
	cgfCfg := &factory.Cgf{
		Enable:      false,
		HostIPv4:    "127.0.0.1",
		Port:        2121,
		ListenPort:  2122,
		Tls:         tlsCfg(),
		CdrFilePath: factory.CgfDefaultCdrFilePath,
	}
	cgfCfg.PassiveTransferPortRange.Start = 2123
	cgfCfg.PassiveTransferPortRange.End = 2130

	factory.ChfConfig = &factory.Config{
		Info: &factory.Info{Version: "1.0.3", Description: "CHF verification harness configuration"},
		Configuration: &factory.Configuration{
			ChfName: "CHF",
			Sbi: &factory.Sbi{
				Scheme:       "http",
				RegisterIPv4: "127.0.0.1",
				BindingIPv4:  "127.0.0.1",
				Port:         sbiPort,
				Tls:          tlsCfg(),
			},
			ServiceNameList:     services,
			NrfUri:              nrfUri,
			NrfCertPem:          st.CertPem,
			Mongodb:             &factory.Mongodb{Name: "free5gc", Url: st.Mongo.URL()},
			VolumeLimit:         opts.VolumeLimit,
			VolumeLimitPDU:      opts.VolumeLimitPDU,
			VolumeThresholdRate: 0.8,
			QuotaValidityTime:   opts.QuotaValidityTime,
			RfDiameter:          &factory.Diameter{Protocol: "tcp", HostIPv4: "127.0.0.1", Port: rfPort, Tls: tlsCfg()},
			AbmfDiameter:        &factory.Diameter{Protocol: "tcp", HostIPv4: "127.0.0.1", Port: abmfPort, Tls: tlsCfg()},
			Cgf:                 cgfCfg,
		},
		Logger: &factory.Logger{Enable: opts.LogOutput != nil, Level: "info", ReportCaller: false},
	}
	st.RfAddr = net.JoinHostPort("127.0.0.1", strconv.Itoa(rfPort))
	st.AbmfAddr = net.JoinHostPort("127.0.0.1", strconv.Itoa(abmfPort))

	started = true
	chf_context.Init()
	chf_context.GetSelf().OAuth2Required = opts.OAuth2Required

	ctx, cancel := context.WithCancel(context.Background())
	st.cancel = cancel

	// Same order as pkg/service.(*ChfApp).Start (CGF disabled).
	st.wg.Add(1)
	rf.OpenServer(ctx, &st.wg)
	st.wg.Add(1)
	abmf.OpenServer(ctx, &st.wg)

	if err = waitTCP(st.RfAddr, 10*time.Second); err != nil {
		return fail(fmt.Errorf("rf server: %w", err))
	}
	if err = waitTCP(st.AbmfAddr, 10*time.Second); err != nil {
		return fail(fmt.Errorf("abmf server: %w", err))
	}

	a := &chfApp{ctx: ctx}
	if a.proc, err = processor.NewProcessor(a); err != nil {
		return fail(err)
	}
	if a.cons, err = consumer.NewConsumer(a); err != nil {
		return fail(err)
	}
	st.app = a
	st.Router = sbi.NewRouterForVerif(a)
	return st, nil
}

// Processor gives direct access to the real processor.
// PeerConns counts the established TCP connections of this process whose remote end is the rating
// server and the account-balance server (client side of the Diameter connections), read from
// /proc/self/net/tcp.
func (s *Stack) PeerConns() (rf, abmf int) {
	rf, abmf, _, _ = s.PeerSockets()
	return rf, abmf
}

// PeerSockets: established client-side connections to the two peers, and how many connections to each
// have been seen so far (distinct client ports, whatever state the socket is in and whichever end
// holds the TIME_WAIT entry: a closed connection stays visible for a minute, so the difference
// between two readings is the number of connections dialled in between).
func (s *Stack) PeerSockets() (rf, abmf, rfAll, abmfAll int) {
	port := func(addr string) int {
		_, p, _ := net.SplitHostPort(addr)
		n, _ := strconv.Atoi(p)
		return n
	}
	hexPort := func(a string) int {
		k := strings.LastIndex(a, ":")
		if k < 0 {
			return -1
		}
		n, err := strconv.ParseInt(a[k+1:], 16, 32)
		if err != nil {
			return -1
		}
		return int(n)
	}
	rfPort, abmfPort := port(s.RfAddr), port(s.AbmfAddr)
	s.sockMu.Lock()
	defer s.sockMu.Unlock()
	if s.seenRf == nil {
		s.seenRf, s.seenAbmf = map[int]bool{}, map[int]bool{}
	}
	for _, f := range []string{"/proc/self/net/tcp", "/proc/self/net/tcp6"} {
		data, err := os.ReadFile(f)
		if err != nil {
			continue
		}
		for i, line := range strings.Split(string(data), "\n") {
			fs := strings.Fields(line)
			if i == 0 || len(fs) < 4 || fs[3] == "0A" { // 0A = LISTEN
				continue
			}
			lp, rp := hexPort(fs[1]), hexPort(fs[2])
			est := fs[3] == "01" // 01 = ESTABLISHED
			switch {
			case rp == rfPort:
				s.seenRf[lp] = true
				if est {
					rf++
				}
			case rp == abmfPort:
				s.seenAbmf[lp] = true
				if est {
					abmf++
				}
			case lp == rfPort:
				s.seenRf[rp] = true
			case lp == abmfPort:
				s.seenAbmf[rp] = true
			}
		}
	}
	return rf, abmf, len(s.seenRf), len(s.seenAbmf)
}

// WatchPeers samples the socket table every 100 microseconds until stop is closed, so that connections
// which are opened and closed within one operation are seen (a closed loopback connection disappears
// from the table at once when it is reset).
func (s *Stack) WatchPeers(stop <-chan struct{}, done chan<- struct{}) {
	defer close(done)
	for {
		select {
		case <-stop:
			s.PeerSockets()
			return
		default:
		}
		s.PeerSockets()
		time.Sleep(100 * time.Microsecond)
	}
}

func (s *Stack) Processor() *processor.Processor { return s.app.proc }

// Context is the CHF context singleton.
func (s *Stack) Context() *chf_context.CHFContext { return chf_context.GetSelf() }

// Do runs one request through the real router.  When the handler does not
// finish within timeout, hung is true and the handler goroutine is abandoned.
func (s *Stack) Do(method, path string, body []byte, headers map[string]string, timeout time.Duration,
) (status int, hdr http.Header, respBody []byte, hung bool) {
	type result struct {
		status int
		hdr    http.Header
		body   []byte
	}
	done := make(chan result, 1)
	go func() {
		var res result
		defer func() {
			if p := recover(); p != nil {
				res = result{status: -1, hdr: http.Header{}, body: []byte(fmt.Sprintf("harness: panic escaped router: %v", p))}
			}
			done <- res
		}()
		var rd io.Reader
		if body != nil {
			rd = strings.NewReader(string(body))
		}
		req, err := http.NewRequest(method, "http://"+s.SbiHost()+path, rd)
		if err != nil {
			res = result{status: -2, hdr: http.Header{}, body: []byte("harness: bad request: " + err.Error())}
			return
		}
		req.RemoteAddr = "127.0.0.1:54321"
		req.RequestURI = path
		if body != nil {
			req.Header.Set("Content-Type", "application/json")
		}
		for k, v := range headers {
			req.Header.Set(k, v)
		}
		rec := httptest.NewRecorder()
		s.Router.ServeHTTP(rec, req)
		res = result{status: rec.Code, hdr: rec.Header().Clone(), body: rec.Body.Bytes()}
	}()
	t := time.NewTimer(timeout)
	defer t.Stop()
	select {
	case r := <-done:
		return r.status, r.hdr, r.body, false
	case <-t.C:
		return 0, http.Header{}, nil, true
	}
}

// SbiHost is the host:port the CHF believes its SBI is reachable at (nothing
// listens there).
func (s *Stack) SbiHost() string {
	c := factory.ChfConfig.Configuration.Sbi
	return net.JoinHostPort(c.RegisterIPv4, strconv.Itoa(c.Port))
}

// ---------------------------------------------------------------------------
// stub notification consumer

func (s *Stack) startNotifyStub() error {
	ln, err := net.Listen("tcp", "127.0.0.1:0")
	if err != nil {
		return err
	}
	s.notifyLn = ln
	h := http.HandlerFunc(func(w http.ResponseWriter, r *http.Request) {
		b, _ := io.ReadAll(r.Body)
		s.nmu.Lock()
		s.notifs = append(s.notifs, Notification{
			Method: r.Method,
			Path:   r.URL.RequestURI(),
			Proto:  r.Proto,
			Body:   b,
		})
		s.nmu.Unlock()
		w.WriteHeader(http.StatusNoContent)
	})
	// The CHF's openapi client speaks HTTP/2 cleartext with prior knowledge for
	// http:// URIs; h2c.NewHandler accepts that as well as plain HTTP/1.1.
	s.notifySrv = &http.Server{
		Handler:           h2c.NewHandler(h, &http2.Server{}),
		ReadHeaderTimeout: 10 * time.Second,
		ErrorLog:          nil,
	}
	go func() { _ = s.notifySrv.Serve(ln) }()
	return nil
}

// NotifyURL is the base URI of the stub notification consumer.
func (s *Stack) NotifyURL() string { return "http://" + s.notifyLn.Addr().String() }

// DrainNotifications returns and forgets the notifications received so far.
func (s *Stack) DrainNotifications() []Notification {
	s.nmu.Lock()
	defer s.nmu.Unlock()
	out := s.notifs
	s.notifs = nil
	return out
}

// NotificationCount is the number of not yet drained notifications.
func (s *Stack) NotificationCount() int {
	s.nmu.Lock()
	defer s.nmu.Unlock()
	return len(s.notifs)
}

// DrainErrorLogs returns and forgets the captured error-level log lines (only
// with Options.CaptureErrors).
func (s *Stack) DrainErrorLogs() []string {
	if s.hook == nil {
		return nil
	}
	s.hook.mu.Lock()
	defer s.hook.mu.Unlock()
	out := s.hook.msgs
	s.hook.msgs = nil
	return out
}

// ---------------------------------------------------------------------------
// account documents

// PutAccount stores or replaces the account document of (supi, rg).  Nil quota
// or unitCost leave the field out of the document.
func (s *Stack) PutAccount(supi string, rg int64, quota, unitCost *string) {
	doc := bson.M{"ueId": supi}
	if rg >= -2147483648 && rg <= 2147483647 {
		doc["ratingGroup"] = int32(rg)
	} else {
		doc["ratingGroup"] = rg
	}
	if quota != nil {
		doc["quota"] = *quota
	}
	if unitCost != nil {
		doc["unitCost"] = *unitCost
	}
	s.Mongo.Put(ChargingColl, doc)
}

// DBSnapshot renders all account documents as
// {"<supi>|<rg>": {"quota": .., "unitCost": ..}}.
func (s *Stack) DBSnapshot() map[string]map[string]interface{} {
	out := map[string]map[string]interface{}{}
	for _, d := range s.Mongo.Dump(ChargingColl) {
		key := fmt.Sprintf("%v|%v", d["ueId"], d["ratingGroup"])
		for n := 2; ; n++ { // duplicates (inserted by the CHF itself) stay visible
			if _, dup := out[key]; !dup {
				break
			}
			key = fmt.Sprintf("%v|%v#%d", d["ueId"], d["ratingGroup"], n)
		}
		fields := map[string]interface{}{}
		names := make([]string, 0, len(d))
		for k := range d {
			names = append(names, k)
		}
		sort.Strings(names)
		for _, k := range names {
			if k == "ueId" || k == "ratingGroup" {
				continue
			}
			fields[k] = d[k]
		}
		out[key] = fields
	}
	return out
}

// Close stops what can be stopped (the go-diameter listeners have no shutdown
// hook and live until the process exits).
func (s *Stack) Close() {
	if s.cancel != nil {
		s.cancel()
		done := make(chan struct{})
		go func() { s.wg.Wait(); close(done) }()
		select {
		case <-done:
		case <-time.After(2 * time.Second):
		}
	}
	if s.notifySrv != nil {
		_ = s.notifySrv.Close()
	}
	if s.Mongo != nil {
		s.Mongo.Close()
	}
	if s.Dir != "" {
		_ = os.RemoveAll(s.Dir)
	}
}
