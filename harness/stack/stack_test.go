//go:build verif

package stack

import (
	"encoding/json"
	"fmt"
	"os"
	"strings"
	"testing"
	"time"
)

func TestStackEndToEnd(t *testing.T) {
	st, err := Start(t.TempDir(), Options{CaptureErrors: true})
	if err != nil {
		t.Fatal(err)
	}
	defer st.Close()
	if _, err = Start(t.TempDir(), Options{}); err == nil {
		t.Fatal("second Start must fail")
	}

	supi := fmt.Sprintf("imsi-2089399%08d", os.Getpid()%100000000)
	defer os.Remove("/tmp/" + supi + ".cdr")
	quota, cost := "1000", "2"
	st.PutAccount(supi, 1, &quota, &cost)

	body := func(seq, used int) []byte {
		return []byte(fmt.Sprintf(`{"subscriberIdentifier":%q,"nfConsumerIdentification":{"nFName":"smf1","nodeFunctionality":"SMF"},`+
			`"invocationSequenceNumber":%d,"notifyUri":"%s/cb","chargingId":7,"multipleUnitUsage":[{"ratingGroup":1,`+
			`"requestedUnit":{"totalVolume":100},"usedUnitContainer":[{"quotaManagementIndicator":"ONLINE_CHARGING",`+
			`"totalVolume":%d,"localSequenceNumber":1}]}]}`, supi, seq, st.NotifyURL(), used))
	}
	status, hdr, _, hung := st.Do("POST", "/nchf-convergedcharging/v3/chargingdata", body(1, 0), nil, 10*time.Second)
	if hung || status != 201 {
		t.Fatalf("create: status %d hung %v", status, hung)
	}
	loc := hdr.Get("Location")
	ref := loc[strings.LastIndex(loc, "/")+1:]
	if !strings.HasPrefix(ref, supi) {
		t.Fatalf("unexpected Location %q", loc)
	}

	status, _, rb, hung := st.Do("POST", "/nchf-convergedcharging/v3/chargingdata/"+ref+"/update", body(2, 40), nil, 10*time.Second)
	if hung || status != 200 {
		t.Fatalf("update: status %d hung %v body %s", status, hung, rb)
	}
	var rsp struct {
		MultipleUnitInformation []struct {
			GrantedUnit struct{ TotalVolume int }
		}
	}
	if err = json.Unmarshal(rb, &rsp); err != nil || len(rsp.MultipleUnitInformation) != 1 ||
		rsp.MultipleUnitInformation[0].GrantedUnit.TotalVolume != 100 {
		t.Fatalf("update response %s (%v)", rb, err)
	}
	db := st.DBSnapshot()
	if got := db[supi+"|1"]["quota"]; got != "720" {
		t.Fatalf("quota after update = %v, want 720 (db %v)", got, db)
	}
	if _, err = os.Stat("/tmp/" + supi + ".cdr"); err != nil {
		t.Fatalf("CDR file: %v", err)
	}

	status, _, _, hung = st.Do("PUT", "/nchf-convergedcharging/v3/recharging/"+supi+"_1", nil, nil, 10*time.Second)
	if hung || status != 204 {
		t.Fatalf("recharge: status %d hung %v", status, hung)
	}
	ns := st.DrainNotifications()
	if len(ns) != 1 || ns[0].Method != "POST" || ns[0].Path != "/cb" || !strings.HasPrefix(ns[0].Proto, "HTTP/2") ||
		!strings.Contains(string(ns[0].Body), `"ratingGroup":1`) {
		t.Fatalf("notifications: %+v", ns)
	}
	if logs := st.DrainErrorLogs(); len(logs) != 0 {
		t.Fatalf("unexpected error logs: %q", logs)
	}
}
