module github.com/free5gc/chf/verifh

go 1.21

require (
	github.com/asaskevich/govalidator v0.0.0-20230301143203-a9d515a09cc2
	github.com/fiorix/go-diameter v3.0.2+incompatible
	github.com/free5gc/chf v0.0.0
	github.com/free5gc/openapi v1.1.0
	github.com/gin-gonic/gin v1.9.1
	github.com/golang-jwt/jwt/v5 v5.2.2
	github.com/sirupsen/logrus v1.9.3
	go.mongodb.org/mongo-driver v1.11.3
	golang.org/x/net v0.33.0
)

require (
	cloud.google.com/go/compute/metadata v0.3.0 // indirect
	github.com/aws/aws-sdk-go v1.44.177 // indirect
	github.com/dropbox/dropbox-sdk-go-unofficial v5.6.0+incompatible // indirect
	github.com/evanphx/json-patch v0.5.2 // indirect
	github.com/fclairamb/afero-dropbox v0.1.0 // indirect
	github.com/fclairamb/afero-gdrive v0.3.0 // indirect
	github.com/fclairamb/afero-s3 v0.3.1 // indirect
	github.com/fclairamb/afero-snd v0.1.0 // indirect
	github.com/fclairamb/ftpserver v0.13.0 // indirect
	github.com/fclairamb/ftpserverlib v0.21.0 // indirect
	github.com/fclairamb/go-log v0.4.1 // indirect
	github.com/felixge/httpsnoop v1.0.4 // indirect
	github.com/free5gc/util v1.0.6 // indirect
	github.com/gabriel-vasile/mimetype v1.4.2 // indirect
	github.com/gin-contrib/sse v0.1.0 // indirect
	github.com/go-logr/logr v1.4.1 // indirect
	github.com/go-logr/stdr v1.2.2 // indirect
	github.com/go-mail/mail v2.3.1+incompatible // indirect
	github.com/go-playground/locales v0.14.1 // indirect
	github.com/go-playground/universal-translator v0.18.1 // indirect
	github.com/go-playground/validator/v10 v10.14.0 // indirect
	github.com/golang/groupcache v0.0.0-20200121045136-8c9f03a8e57e // indirect
	github.com/golang/protobuf v1.5.3 // indirect
	github.com/golang/snappy v0.0.3 // indirect
	github.com/google/uuid v1.3.0 // indirect
	github.com/googleapis/enterprise-certificate-proxy v0.2.3 // indirect
	github.com/googleapis/gax-go/v2 v2.7.1 // indirect
	github.com/h2non/gock v1.2.0 // indirect
	github.com/h2non/parth v0.0.0-20190131123155-b4df798d6542 // indirect
	github.com/hashicorp/errwrap v1.0.0 // indirect
	github.com/hashicorp/go-multierror v1.1.1 // indirect
	github.com/ishidawataru/sctp v0.0.0-20230406120618-7ff4192f6ff2 // indirect
	github.com/jlaffaye/ftp v0.1.0 // indirect
	github.com/jmespath/go-jmespath v0.4.0 // indirect
	github.com/klauspost/compress v1.13.6 // indirect
	github.com/kr/fs v0.1.0 // indirect
	github.com/leodido/go-urn v1.2.4 // indirect
	github.com/mattn/go-isatty v0.0.19 // indirect
	github.com/mitchellh/mapstructure v1.5.0 // indirect
	github.com/montanaflynn/stats v0.0.0-20171201202039-1bf9dbcd8cbe // indirect
	github.com/pelletier/go-toml/v2 v2.0.8 // indirect
	github.com/pkg/errors v0.9.1 // indirect
	github.com/pkg/sftp v1.13.5 // indirect
	github.com/spf13/afero v1.9.3 // indirect
	github.com/tidwall/gjson v1.14.4 // indirect
	github.com/tidwall/match v1.1.1 // indirect
	github.com/tidwall/pretty v1.2.1 // indirect
	github.com/tidwall/sjson v1.2.5 // indirect
	github.com/tim-ywliu/nested-logrus-formatter v1.3.2 // indirect
	github.com/ugorji/go/codec v1.2.11 // indirect
	github.com/xdg-go/pbkdf2 v1.0.0 // indirect
	github.com/xdg-go/scram v1.1.1 // indirect
	github.com/xdg-go/stringprep v1.0.3 // indirect
	github.com/youmark/pkcs8 v0.0.0-20181117223130-1be2e3e5546d // indirect
	go.opencensus.io v0.24.0 // indirect
	go.opentelemetry.io/contrib/instrumentation/net/http/httptrace/otelhttptrace v0.49.0 // indirect
	go.opentelemetry.io/contrib/instrumentation/net/http/otelhttp v0.49.0 // indirect
	go.opentelemetry.io/otel v1.24.0 // indirect
	go.opentelemetry.io/otel/metric v1.24.0 // indirect
	go.opentelemetry.io/otel/trace v1.24.0 // indirect
	go.uber.org/mock v0.4.0 // indirect
	golang.org/x/crypto v0.31.0 // indirect
	golang.org/x/exp v0.0.0-20231127185646-65229373498e // indirect
	golang.org/x/oauth2 v0.21.0 // indirect
	golang.org/x/sync v0.10.0 // indirect
	golang.org/x/sys v0.28.0 // indirect
	golang.org/x/text v0.21.0 // indirect
	google.golang.org/api v0.114.0 // indirect
	google.golang.org/genproto v0.0.0-20230410155749-daa745c078e1 // indirect
	google.golang.org/grpc v1.56.3 // indirect
	google.golang.org/protobuf v1.33.0 // indirect
	gopkg.in/yaml.v2 v2.4.0 // indirect
	gopkg.in/yaml.v3 v3.0.1 // indirect
)

replace github.com/free5gc/chf => /repo
