module github.com/free5gc/chf/verifh

go 1.21

require github.com/free5gc/chf v0.0.0

replace github.com/free5gc/chf => /repo
