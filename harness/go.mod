module github.com/free5gc/chf/verifh

go 1.21

require (
	github.com/free5gc/chf v0.0.0
	github.com/free5gc/openapi v1.1.0
)

require github.com/golang-jwt/jwt/v5 v5.2.2 // indirect

replace github.com/free5gc/chf => /repo
