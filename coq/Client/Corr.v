(* Correspondence for C19: a scenario is the list of client events reconstructed from what the
   fault-injecting proxy did to each answer; the model must predict whether the subscriber ended up
   blocked (a request that never returned). *)
From Coq Require Import String List Arith Bool ZArith.
From Verif Require Import Client.Model Client.ClientGen.
Import ListNotations.

Definition facts_of (name : string) : facts :=
  match find (fun c => String.eqb (fst c) name) clients_gen with
  | Some c => snd c
  | None => original
  end.

(* (id, client, events, observed: did a request hang) *)
Definition scase := (Z * string * list ev * bool)%type.

Definition run_client (cs : list scase) : list (Z * Z) :=
  flat_map (fun c => let '(id, name, h, hung) := c in
                     let s := run (facts_of name) h in
                     let stuck_m := match stuck s with [] => false | _ => true end in
                     let cross_m := existsb (fun p => negb (Nat.eqb (fst p) (snd p))) (got s) in
                     ((if Bool.eqb stuck_m hung then [] else [(id, 1%Z)]) ++
                      (if cross_m then [(id, 2%Z)] else []))%list) cs.
