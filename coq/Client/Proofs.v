From Coq Require Import String List Arith Bool Lia.
From Verif Require Import Client.Model.
Import ListNotations.

Section Proofs.
  Variable F : facts.
  Hypothesis HF : all_facts F = true.

  Lemma facts_all : per_request F = true /\ buffered F = true /\ nonblocking F = true /\ conn_check F = true /\ closes F = true.
  Proof.
    pose proof HF as H. unfold all_facts in H.
    apply andb_prop in H. destruct H as [H H5]. apply andb_prop in H. destruct H as [H H4].
    apply andb_prop in H. destruct H as [H H3]. apply andb_prop in H. destruct H as [H1 H2]. tauto.
  Qed.

  Definition inv (s : st) : Prop := no_crosstalk s /\ blocked s = [] /\ stuck s = [].

  Lemma inv_step s e : inv s -> inv (step F s e).
  Proof.
    destruct facts_all as [Hp [Hb [Hn [Hc Hcl]]]].
    intros [Hx [Hbl Hst]]. destruct e as [r|a|r|r]; cbn [step].
    - rewrite Hbl, Hp. cbn. repeat split; assumption.
    - destruct (mem a (closed s)); [repeat split; assumption|]. rewrite Hc. cbn [andb].
      destruct (cur s) as [r|] eqn:Ec.
      + destruct (Nat.eqb r a) eqn:E; cbn [negb]; [|repeat split; assumption].
        apply Nat.eqb_eq in E. subst a.
        destruct (waiting s).
        * split; [|split; assumption]. intros r' a' [Hin|Hin]; [inversion Hin; reflexivity|apply (Hx r' a' Hin)].
        * rewrite Hb, Hn. cbn [andb]. destruct (Nat.ltb (length (chan s)) 1); repeat split; assumption.
      + cbn [negb]. repeat split; assumption.
    - destruct (cur s) as [r'|]; [|repeat split; assumption].
      destruct (Nat.eqb r r'); repeat split; assumption.
    - destruct (cur s) as [r'|]; [|repeat split; assumption].
      destruct (Nat.eqb r r'); repeat split; assumption.
  Qed.

  Theorem client_sound h : no_crosstalk (run F h) /\ never_blocks (run F h).
  Proof.
    assert (H : inv (run F h)).
    { unfold run. assert (Hi : inv init) by (repeat split; intros r a []).
      revert Hi. generalize init. induction h as [|e r IH]; intros s Hi; [exact Hi|].
      cbn [fold_left]. apply IH. apply inv_step. exact Hi. }
    destruct H as [A [B C]]. split; [exact A|split; assumption].
  Qed.

  (* an answer is never lost to the request that waits for it: the first copy delivered while the
     request waits, on its own open connection, is the one it acts on *)
  Lemma own_answer_taken s r :
    inv s -> cur s = Some r -> waiting s = true -> mem r (closed s) = false ->
    In (r, r) (got (step F s (Deliver r))).
  Proof.
    destruct facts_all as [_ [_ [_ [Hc _]]]].
    intros _ Hcur Hw Hcl. cbn [step]. rewrite Hcl, Hc, Hcur, Nat.eqb_refl, Hw. cbn. left. reflexivity.
  Qed.
End Proofs.
