(* The Diameter client of one subscriber towards one peer (internal/rating/rating.go,
   internal/abmf/abmf.go; C19).  One request at a time (the subscriber's CULock): it registers its
   answer handler on the subscriber's mux (write lock), dials its own connection, sends, and waits
   for an answer or the 5 s timer; the handler runs in the reader task of a connection, under the
   read lock of the mux.  How the handler delivers and what the sender waits on are facts of the
   source, regenerated on every run (ClientGen.v). *)
From Coq Require Import String List Arith Bool.
Import ListNotations.

Record facts := mkFacts {
  per_request : bool;    (* the sender waits on a channel made for this request *)
  buffered : bool;       (* the channel has room for one message *)
  nonblocking : bool;    (* the handler's send never blocks (select with default) *)
  conn_check : bool;     (* the handler ignores messages that arrived on another connection *)
  closes : bool }.       (* the sender closes its connection when it returns *)

(* request r uses connection r; the peer's answers to request r travel on connection r *)
Inductive ev :=
| Start (r : nat)        (* Mux.Handle, dial, send; the sender starts waiting *)
| Deliver (a : nat)      (* a copy of the answer to request a reaches the client on connection a *)
| Timeout (r : nat)      (* the 5 s timer of request r fires *)
| Return (r : nat).      (* the sending function returns *)

Record st := mkSt {
  cur : option nat;            (* the request in flight *)
  waiting : bool;              (* it is still waiting in its select *)
  chan : list nat;             (* answers sitting in the channel's buffer *)
  blocked : list nat;          (* handlers blocked on their send, each holding the mux read lock *)
  closed : list nat;           (* connections closed *)
  got : list (nat * nat);      (* (r, a): request r acted on the answer to request a *)
  stuck : list nat }.          (* requests blocked for ever in Mux.Handle *)

Definition init : st := mkSt None false [] [] [] [] [].

Section Client.
  Variable F : facts.

  Definition mem (x : nat) (l : list nat) : bool := existsb (Nat.eqb x) l.

  Definition step (s : st) (e : ev) : st :=
    match e with
    | Start r =>
      match blocked s with
      | _ :: _ =>
        (* a handler holds the read lock for ever: Mux.Handle never gets the write lock *)
        mkSt (cur s) (waiting s) (chan s) (blocked s) (closed s) (got s) (r :: stuck s)
      | [] =>
        let ch := if per_request F then [] else chan s in
        match ch with
        | a :: rest =>
          (* a message is already in the buffer of the shared channel: the select takes it at once *)
          mkSt (Some r) false rest [] (closed s) ((r, a) :: got s) (stuck s)
        | [] => mkSt (Some r) true [] [] (closed s) (got s) (stuck s)
        end
      end
    | Deliver a =>
      if mem a (closed s) then s                 (* the connection is gone: the copy is lost *)
      else if conn_check F && negb (match cur s with Some r => Nat.eqb r a | None => false end) then s
      else
        match cur s, waiting s with
        | Some r, true =>                         (* a receiver is waiting: it takes the message *)
          mkSt (cur s) false (chan s) (blocked s) (closed s) ((r, a) :: got s) (stuck s)
        | _, _ =>
          if buffered F && Nat.ltb (length (chan s)) 1
          then mkSt (cur s) (waiting s) (chan s ++ [a]) (blocked s) (closed s) (got s) (stuck s)
          else if nonblocking F then s
          else mkSt (cur s) (waiting s) (chan s) (a :: blocked s) (closed s) (got s) (stuck s)
        end
    | Timeout r =>
      match cur s with
      | Some r' => if Nat.eqb r r' then mkSt (cur s) false (chan s) (blocked s) (closed s) (got s) (stuck s) else s
      | None => s
      end
    | Return r =>
      match cur s with
      | Some r' =>
        if Nat.eqb r r'
        then mkSt None false (chan s) (blocked s) (if closes F then r :: closed s else closed s) (got s) (stuck s)
        else s
      | None => s
      end
    end.

  Definition run (h : list ev) : st := fold_left step h init.

  (* the two halves of the property *)
  Definition no_crosstalk (s : st) : Prop := forall r a, In (r, a) (got s) -> r = a.
  Definition never_blocks (s : st) : Prop := blocked s = [] /\ stuck s = [].
End Client.

Definition all_facts (F : facts) : bool :=
  per_request F && buffered F && nonblocking F && conn_check F && closes F.

(* the client before the fixes, and with only the connection closed *)
Definition original : facts := mkFacts false false false false false.
Definition closing_only : facts := mkFacts false false false false true.
