(* C19 — late or lost Diameter answers neither cross-talk nor block later requests. *)
From Coq Require Import String List Arith Bool.
From Verif Require Import Client.Model Client.Proofs Client.ClientGen.
Import ListNotations.

(* both clients, as regenerated from the sources on this run: per-request buffered channel, handler
   that never blocks and ignores other connections, connection closed on return *)
Theorem C19_clients :
  map fst clients_gen = ["SendServiceUsageRequest"; "SendAccountDebitRequest"]%string /\
  forallb (fun c => all_facts (snd c)) clients_gen = true.
Proof. vm_compute. split; reflexivity. Qed.
Print Assumptions C19_clients.

(* Whatever the peer and the network do - answers delayed beyond the timer, dropped, repeated, arriving
   after the request returned or while a later request waits, in any order and number - every answer a
   request acts on is the answer to that request, no handler stays blocked and no later request of the
   subscriber blocks. *)
Theorem C19_sound : forall name F h,
  In (name, F) clients_gen ->
  no_crosstalk (run F h) /\ never_blocks (run F h).
Proof.
  intros name F h Hin. apply client_sound.
  pose proof (proj2 C19_clients) as H. rewrite forallb_forall in H. apply (H (name, F) Hin).
Qed.
Print Assumptions C19_sound.

(* and the answer is not lost: delivered while its request waits, it is the one acted on *)
Theorem C19_own_answer : forall name F h r,
  In (name, F) clients_gen ->
  cur (run F h) = Some r -> waiting (run F h) = true -> mem r (closed (run F h)) = false ->
  In (r, r) (got (step F (run F h) (Deliver r))).
Proof.
  intros name F h r Hin Hc Hw Hcl.
  pose proof (proj2 C19_clients) as H. rewrite forallb_forall in H. specialize (H (name, F) Hin). cbn [snd] in H.
  apply (own_answer_taken F H); try assumption.
  destruct (client_sound F H h) as [A [B C]]. split; [exact A|split; assumption].
Qed.
Print Assumptions C19_own_answer.

(* what the two repairs bought.  The client as it was: an answer arriving after the timeout blocks its
   handler, and the next request never returns from Mux.Handle; had the next request been waiting
   already, it would have taken the stale answer as its own. *)
Theorem C19_original_refuted :
  stuck (run original [Start 0; Timeout 0; Return 0; Deliver 0; Start 1]) = [1] /\
  got (run original [Start 0; Timeout 0; Return 0; Start 1; Deliver 0]) = [(1, 0)].
Proof. vm_compute. split; reflexivity. Qed.

(* with the connection closed on return but the shared blocking channel kept: a repeated answer *)
Theorem C19_closing_only_refuted :
  stuck (run closing_only [Start 0; Deliver 0; Deliver 0; Return 0; Start 1]) = [1].
Proof. vm_compute. reflexivity. Qed.

Example C19_nonvacuous :
  got (run (mkFacts true true true true true)
           [Start 0; Deliver 0; Deliver 0; Return 0; Deliver 0; Start 1; Timeout 1; Return 1; Deliver 1; Start 2; Deliver 1; Deliver 2])
  = [(2, 2); (0, 0)].
Proof. vm_compute. reflexivity. Qed.
