From Coq Require Import List String ZArith Bool Lia.
From Verif Require Import Router.Model.
Import ListNotations.
Open Scope string_scope.

Lemma substring_prefix p s : substring 0 (String.length p) (p ++ s) = p.
Proof.
  induction p as [|c p IH]; cbn [String.length append substring].
  - destruct s; reflexivity.
  - rewrite IH. reflexivity.
Qed.

Lemma has_prefix_app p s : has_prefix p (p ++ s) = true.
Proof. unfold has_prefix. rewrite substring_prefix. apply String.eqb_refl. Qed.

Lemma group_auth prefix rs e : In e (group_entries prefix rs) -> e_auth e = true /\ has_prefix prefix (e_path e) = true.
Proof.
  unfold group_entries. intros H. apply in_map_iff in H. destruct H as [r [<- _]]. cbn [e_auth e_path].
  split; [reflexivity | apply has_prefix_app].
Qed.

Lemma service_prefix s p rs : service_routes s = Some (p, rs) ->
  p = conv_prefix \/ p = off_prefix \/ p = slc_prefix.
Proof.
  unfold service_routes.
  destruct (String.eqb s "nchf-convergedcharging"); [intros H; inversion H; auto|].
  destruct (String.eqb s "nchf-offlineonlycharging"); [intros H; inversion H; auto|].
  destruct (String.eqb s "nchf-spendinglimitcontrol"); [intros H; inversion H; auto|]. discriminate.
Qed.

Theorem router_entries services e : In e (new_router services) ->
  e_auth e = true /\ protected_path (e_path e) = true.
Proof.
  induction services as [|s r IH]; cbn [new_router]; [contradiction|].
  intros H. apply in_app_or in H. destruct H as [H|H]; [|apply IH, H].
  destruct (service_routes s) as [[p rs]|] eqn:E; [|contradiction].
  destruct (group_auth p rs e H) as [A B]. split; [exact A|].
  unfold protected_path. destruct (service_prefix s p rs E) as [Ep | [Ep | Ep]]; subst p; rewrite B;
    rewrite ?orb_true_r; reflexivity.
Qed.

Theorem all_protected verify services e tok :
  In e (new_router services) -> verify tok = false -> serve verify e tok = Unauthorized.
Proof.
  intros H Hv. destruct (router_entries services e H) as [A _]. unfold serve. rewrite A, Hv. reflexivity.
Qed.

(* ---- the generated table ---- *)
Definition pair_eqb (a b : string * string) : bool := String.eqb (fst a) (fst b) && String.eqb (snd a) (snd b).
Definition subset (a b : list (string * string)) : bool := forallb (fun x => existsb (pair_eqb x) b) a.

Definition check_list (o : list string * list (string * string) * list (string * string * string * Z)) : bool :=
  let '(services, routes, probes) := o in
  let model := map (fun e => (e_method e, e_path e)) (new_router services) in
  subset routes model && subset model routes && Nat.eqb (List.length routes) (List.length model) &&
  forallb (fun p => let '(m, pa, k, st) := p in (st =? 401)%Z && existsb (pair_eqb (m, pa)) routes) probes &&
  (* every route was probed in each of the 3 modes with every one of the 11 bad-token kinds *)
  Nat.eqb (List.length probes) (33 * List.length routes).

Definition violations (obs : list (list string * list (string * string) * list (string * string * string * Z)))
  : list (list string) := map (fun o => fst (fst o)) (filter (fun o => negb (check_list o)) obs).
