(* Model of internal/sbi/server.go newRouter + routes.go applyRoutes +
   internal/util/router_auth_check.go: which (method, path) pairs are registered
   for a service-name list, under which protected group, and what a request with
   a token the NRF key does not verify gets. *)
From Coq Require Import List String ZArith Bool.
Import ListNotations.
Open Scope string_scope.

Definition route := (string * string)%type.     (* method, full path *)

Definition conv_prefix := "/nchf-convergedcharging/v3".
Definition off_prefix := "/nchf-offlineonlycharging/v1".
Definition slc_prefix := "/nchf-spendinglimitcontrol/v1".

(* getConvergenChargingRoutes / getOfflineOnlyChargingRoutes / getSpendingLimitControlRoutes *)
Definition service_routes (name : string) : option (string * list route) :=
  if String.eqb name "nchf-convergedcharging" then
    Some (conv_prefix,
          [("GET", "/"); ("POST", "/chargingdata/:ChargingDataRef/release");
           ("POST", "/chargingdata/:ChargingDataRef/update"); ("POST", "/chargingdata");
           ("GET", "/recharging"); ("PUT", "/recharging/:rechargingInfo")])
  else if String.eqb name "nchf-offlineonlycharging" then
    Some (off_prefix,
          [("GET", "/"); ("POST", "/offlinechargingdata/:OfflineChargingDataRef/release");
           ("POST", "/offlinechargingdata/:OfflineChargingDataRef/update"); ("POST", "/offlinechargingdata")])
  else if String.eqb name "nchf-spendinglimitcontrol" then
    Some (slc_prefix,
          [("GET", "/"); ("POST", "/subscriptions"); ("DELETE", "/subscriptions/:subscriptionId");
           ("PUT", "/subscriptions/:subscriptionId")])
  else None.

(* a registered route: method, full path, and the middleware chain in front of the
   handler: true = the OAuth2 check of its service group is installed *)
Record entry := mkEntry { e_method : string; e_path : string; e_auth : bool }.

Definition group_entries (prefix : string) (rs : list route) : list entry :=
  map (fun r => mkEntry (fst r) (prefix ++ snd r) true) rs.   (* group.Use(auth) precedes applyRoutes *)

Fixpoint new_router (services : list string) : list entry :=
  match services with
  | [] => []
  | s :: r =>
    (match service_routes s with Some (p, rs) => group_entries p rs | None => [] end) ++ new_router r
  end.

Section Serve.
  (* oauth.VerifyOAuth on the Authorization header: external *)
  Variable verify_token : string -> bool.

  (* RouterAuthorizationCheck.Check: error -> 401 + Abort; otherwise the handler runs *)
  Inductive outcome := Unauthorized | HandlerRuns.
  Definition serve (e : entry) (token : string) : outcome :=
    if e_auth e && negb (verify_token token) then Unauthorized else HandlerRuns.
End Serve.

Definition has_prefix (p s : string) : bool := String.eqb (substring 0 (String.length p) s) p.
Definition protected_path (s : string) : bool :=
  has_prefix conv_prefix s || has_prefix off_prefix s || has_prefix slc_prefix s.
