(* C13 — with OAuth2 required, every route rejects unauthenticated requests. *)
From Coq Require Import List String ZArith Bool.
From Verif Require Import Router.Model Router.Proofs Router.RoutesGen.
Import ListNotations.
Open Scope string_scope.

(* For every list of service names (any subset, order, repetition, unknown names),
   every route the router registers sits behind the OAuth2 check of its group: a
   request whose token the NRF key does not verify - whatever its text - is
   answered 401 and the handler is not run; and no route lies outside the three
   protected prefixes.  [verify] stands for oauth.VerifyOAuth. *)
Theorem C13_all_protected : forall (verify : string -> bool) services e tok,
  In e (new_router services) -> verify tok = false ->
  serve verify e tok = Unauthorized /\ protected_path (e_path e) = true.
Proof.
  intros verify services e tok H Hv. split; [apply (all_protected verify services e tok H Hv)|].
  apply (router_entries services e H).
Qed.
Print Assumptions C13_all_protected.

(* The table regenerated from the real gin engine on this run: for each of the 16
   duplicate-free service lists, Engine.Routes() is exactly the model's route set,
   and every route x every mode (router built before the NRF registration sets
   OAuth2Required, as at start-up; flag set before the router is built; flag set and
   no NRF certificate configured) x every bad-token kind (absent, garbage, alg none,
   HS256, RS512 with a foreign key, RS256 with the right key, no Bearer prefix, Basic
   credentials, a foreign-key token under the scheme name Token, "Bearer" alone, one word) was
   answered 401 with no handler behind the check run (a probe during which a handler
   wrote, a subscriber context changed or a notification left is tabled as 1000+status). *)
Theorem C13_routes_agree_and_probes_401 : violations observed = [] /\ List.length observed = 16%nat.
Proof. vm_compute. split; reflexivity. Qed.
Print Assumptions C13_routes_agree_and_probes_401.

Example C13_nonvacuous :
  List.length (new_router ["nchf-spendinglimitcontrol"; "nchf-convergedcharging"]) = 10%nat.
Proof. reflexivity. Qed.
