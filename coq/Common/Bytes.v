(* Bytes, big-endian fields and Go slice expressions. *)
From Coq Require Import List ZArith Lia Bool.
From Verif Require Import Common.Outcome.
Import ListNotations.
Open Scope Z_scope.

Definition byte := Z.
Definition byte_ok (b : Z) : bool := (0 <=? b) && (b <? 256).
Definition bytes_ok (l : list Z) : bool := forallb byte_ok l.

(* Go: data[i] *)
Definition idx (data : list Z) (i : Z) : outcome Z :=
  if i <? 0 then Panic else of_option (nth_error data (Z.to_nat i)).

(* Go: data[lo:hi] for a slice whose cap = len (true for os.ReadFile
   results re-sliced from 0 and for all callers in this code base: an access
   beyond len is classed as Panic). *)
Definition slice (data : list Z) (lo hi : Z) : outcome (list Z) :=
  if (lo <? 0) || (hi <? lo) || (Z.of_nat (length data) <? hi) then Panic
  else Ok (firstn (Z.to_nat (hi - lo)) (skipn (Z.to_nat lo) data)).

(* Go: data[lo:] *)
Definition slice_from (data : list Z) (lo : Z) : outcome (list Z) :=
  slice data lo (Z.of_nat (length data)).

(* big-endian unsigned value of a byte list *)
Definition ufold (l : list Z) : Z := fold_left (fun acc b => acc * 256 + b) l 0.

Definition be16 (v : Z) : list Z := [v / 256 mod 256; v mod 256].
Definition be32 (v : Z) : list Z :=
  [v / 16777216 mod 256; v / 65536 mod 256; v / 256 mod 256; v mod 256].

(* Go: binary.BigEndian.Uint16(data[lo:lo+2]) etc. *)
Definition rd16 (data : list Z) (off : Z) : outcome Z :=
  do s <- slice data off (off + 2); Ok (ufold s).
Definition rd32 (data : list Z) (off : Z) : outcome Z :=
  do s <- slice data off (off + 4); Ok (ufold s).

Definition zlen {A} (l : list A) : Z := Z.of_nat (length l).

(* repeated pattern, used by generated correspondence cases to keep large
   payloads small in the source text *)
Fixpoint rep_pat (pat : list Z) (n : nat) : list Z :=
  match n with O => [] | S k => pat ++ rep_pat pat k end.
Definition rep_patZ (pat : list Z) (n : Z) : list Z := rep_pat pat (Z.to_nat n).
