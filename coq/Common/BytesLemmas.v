(* Lemmas about bytes, big-endian fields, [Z.lor] of disjoint fields and Go
   slice expressions. *)
From Coq Require Import List ZArith Lia Bool ZifyBool.
From Verif Require Import Common.Outcome Common.Bytes.
Import ListNotations.
Open Scope Z_scope.

Ltac Zify.zify_post_hook ::= Z.div_mod_to_equations.

Lemma zlen_app {A} (a b : list A) : zlen (a ++ b) = zlen a + zlen b.
Proof. unfold zlen. rewrite app_length. lia. Qed.
Lemma zlen_cons {A} (x : A) l : zlen (x :: l) = 1 + zlen l.
Proof. unfold zlen. cbn [length]. lia. Qed.
Lemma zlen_nil {A} : zlen (@nil A) = 0.
Proof. reflexivity. Qed.
Lemma zlen_nonneg {A} (l : list A) : 0 <= zlen l.
Proof. unfold zlen. lia. Qed.

(* ---- disjoint or = plus ---- *)

Lemma land_shift_small a b k :
  0 <= k -> 0 <= b < 2 ^ k -> Z.land (a * 2 ^ k) b = 0.
Proof.
  intros Hk Hb. apply Z.bits_inj'. intros n Hn.
  rewrite Z.land_spec, Z.bits_0.
  destruct (Z.ltb_spec n k) as [Hlt|Hge].
  - rewrite Z.mul_pow2_bits_low by lia. reflexivity.
  - replace b with (b mod 2 ^ k) by (apply Z.mod_small; lia).
    rewrite Z.mod_pow2_bits_high by lia. apply andb_false_r.
Qed.

Lemma lor_shift_add a b k :
  0 <= k -> 0 <= b < 2 ^ k -> Z.lor (a * 2 ^ k) b = a * 2 ^ k + b.
Proof.
  intros Hk Hb.
  rewrite <- Z.lxor_lor by (apply land_shift_small; assumption).
  symmetry. apply Z.add_nocarry_lxor. apply land_shift_small; assumption.
Qed.

(* ---- big endian ---- *)

Lemma ufold_be16 v : 0 <= v < 65536 -> ufold (be16 v) = v.
Proof. intros H. unfold ufold, be16. cbn [fold_left]. lia. Qed.

Lemma ufold_be32 v : 0 <= v < 4294967296 -> ufold (be32 v) = v.
Proof. intros H. unfold ufold, be32. cbn [fold_left]. lia. Qed.

Lemma be32_bytes_ok v : 0 <= v -> bytes_ok (be32 v) = true.
Proof.
  intros H. unfold bytes_ok, be32, byte_ok. cbn [forallb].
  rewrite !andb_true_iff, !Z.leb_le, !Z.ltb_lt. lia.
Qed.

(* ---- slices ---- *)

Lemma slice_ok data lo hi :
  0 <= lo <= hi -> hi <= zlen data ->
  slice data lo hi = Ok (firstn (Z.to_nat (hi - lo)) (skipn (Z.to_nat lo) data)).
Proof.
  intros H1 H2. unfold slice, zlen in *.
  destruct (lo <? 0) eqn:E1; [lia|].
  destruct (hi <? lo) eqn:E2; [lia|].
  destruct (Z.of_nat (length data) <? hi) eqn:E3; [lia|]. reflexivity.
Qed.

Lemma skipn_app_len {A} (a b : list A) n :
  n = length a -> skipn n (a ++ b) = b.
Proof.
  intros ->. rewrite skipn_app, skipn_all, Nat.sub_diag. reflexivity.
Qed.

Lemma firstn_app_len {A} (a b : list A) n :
  n = length a -> firstn n (a ++ b) = a.
Proof.
  intros ->. rewrite firstn_app, firstn_all, Nat.sub_diag, firstn_O, app_nil_r.
  reflexivity.
Qed.

Lemma skipn_app_plus {A} (a b : list A) m :
  skipn (length a + m) (a ++ b) = skipn m b.
Proof. induction a as [|x a IH]; cbn [length app Nat.add skipn]; auto. Qed.

(* reading relative to a known prefix *)
Lemma slice_shift pre suf a b :
  0 <= a -> slice (pre ++ suf) (zlen pre + a) (zlen pre + b) = slice suf a b.
Proof.
  intros Ha. unfold slice. rewrite app_length.
  unfold zlen.
  replace (Z.of_nat (length pre) + a <? 0) with false by lia.
  replace (a <? 0) with false by lia.
  replace (Z.of_nat (length pre) + b <? Z.of_nat (length pre) + a) with (b <? a) by lia.
  replace (Z.of_nat (length pre + length suf) <? Z.of_nat (length pre) + b)
    with (Z.of_nat (length suf) <? b) by lia.
  cbn [orb].
  destruct (b <? a) eqn:E1; [reflexivity|].
  destruct (Z.of_nat (length suf) <? b) eqn:E2; [reflexivity|]. cbn [orb].
  f_equal. f_equal; [lia|].
  replace (Z.to_nat (Z.of_nat (length pre) + a)) with (length pre + Z.to_nat a)%nat by lia.
  apply skipn_app_plus.
Qed.

Lemma nth_error_app_plus {A} (a b : list A) m :
  nth_error (a ++ b) (length a + m) = nth_error b m.
Proof. induction a as [|x a IH]; cbn [length app Nat.add nth_error]; auto. Qed.

Lemma idx_shift pre suf a :
  0 <= a -> idx (pre ++ suf) (zlen pre + a) = idx suf a.
Proof.
  intros Ha. unfold idx, zlen.
  replace (Z.of_nat (length pre) + a <? 0) with false by lia.
  replace (a <? 0) with false by lia.
  replace (Z.to_nat (Z.of_nat (length pre) + a)) with (length pre + Z.to_nat a)%nat by lia.
  rewrite nth_error_app_plus. reflexivity.
Qed.

Lemma rd16_shift pre suf a :
  0 <= a -> rd16 (pre ++ suf) (zlen pre + a) = rd16 suf a.
Proof.
  intros Ha. unfold rd16. rewrite <- Z.add_assoc, slice_shift by lia. reflexivity.
Qed.

Lemma rd32_shift pre suf a :
  0 <= a -> rd32 (pre ++ suf) (zlen pre + a) = rd32 suf a.
Proof.
  intros Ha. unfold rd32. rewrite <- Z.add_assoc, slice_shift by lia. reflexivity.
Qed.

(* reading from the start of a list *)
Lemma slice0_app a b n :
  n = zlen a -> slice (a ++ b) 0 n = Ok a.
Proof.
  intros ->. rewrite slice_ok.
  - cbn [Z.to_nat skipn]. rewrite Z.sub_0_r. unfold zlen. rewrite Nat2Z.id.
    rewrite firstn_app_len; reflexivity.
  - pose proof (zlen_nonneg a). lia.
  - rewrite zlen_app. pose proof (zlen_nonneg b). lia.
Qed.

Lemma bytes_ok_app a b : bytes_ok (a ++ b) = bytes_ok a && bytes_ok b.
Proof. unfold bytes_ok. apply forallb_app. Qed.
