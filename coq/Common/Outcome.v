(* Outcomes of modelled Go functions.  [Panic] is produced exactly where Go
   would panic (index out of range, nil dereference, division by zero);
   nothing is totalised with defaults. *)
From Coq Require Import List ZArith.
Import ListNotations.

Inductive outcome (A : Type) : Type :=
| Ok : A -> outcome A
| Err : outcome A          (* the Go function returned a non-nil error *)
| Panic : outcome A        (* the Go function panicked *)
| OutOfFuel : outcome A.   (* model artefact: excluded by theorems *)
Arguments Ok {A} _.
Arguments Err {A}.
Arguments Panic {A}.
Arguments OutOfFuel {A}.

Definition bind {A B} (m : outcome A) (f : A -> outcome B) : outcome B :=
  match m with
  | Ok a => f a
  | Err => Err
  | Panic => Panic
  | OutOfFuel => OutOfFuel
  end.

Notation "'do' x <- m ; k" := (bind m (fun x => k))
  (at level 200, x pattern, m at level 100, k at level 200, right associativity).

Definition is_ok {A} (o : outcome A) : bool :=
  match o with Ok _ => true | _ => false end.
Definition is_panic {A} (o : outcome A) : bool :=
  match o with Panic => true | _ => false end.

Definition of_option {A} (o : option A) : outcome A :=
  match o with Some a => Ok a | None => Panic end.

Fixpoint mapM {A B} (f : A -> outcome B) (l : list A) : outcome (list B) :=
  match l with
  | [] => Ok []
  | x :: xs => do y <- f x; do ys <- mapM f xs; Ok (y :: ys)
  end.
