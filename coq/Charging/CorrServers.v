(* Correspondence and monitors for the ABMF and RF servers (C07, C08).  Cases are
   written by lib/p_diam.py from the observations of harness/cmd/diamsim, which
   drives the real servers started by abmf.OpenServer / rf.OpenServer over real
   Diameter connections.
   run_abmf codes: 1 answer differs from the model (correspondence)
                   2 stored balances differ from the model (correspondence)
                   3 C07 monitor fails on the implementation's own trace
                   31 as 3, refund whose sum exceeds int64 (known-finding class)
   run_rf codes:   5 answer differs from the model (correspondence)
                   6 C08 monitor fails on the implementation's own answers
   run_ucost:      8 ChfUe.UnitCost differs from the model's unit cost (correspondence)
                   9 C08 monitor: CHF-side unit cost <> cost applied by the server
                  10 C08 monitor: a stored unit cost of decimal digits is not priced as that number *)
From Coq Require Import List ZArith Bool.
From Verif Require Import Charging.Servers.
Import ListNotations.
Open Scope Z_scope.

Definition optZ_eqb (a b : option Z) : bool :=
  match a, b with Some x, Some y => x =? y | None, None => true | _, _ => false end.

Definition cca_eqb (a b : cca) : bool :=
  (a_session a =? a_session b) && (a_type a =? a_type b) && (a_reqnum a =? a_reqnum b) &&
  optZ_eqb (a_granted a) (a_granted b) && Bool.eqb (a_fui a) (a_fui b) &&
  (a_rem_digits a =? a_rem_digits b) && (a_rem_exp a =? a_rem_exp b).

Definition ans_eqb {A} (eqb : A -> A -> bool) (a b : answer A) : bool :=
  match a, b with Answer x, Answer y => eqb x y | NoAnswer, NoAnswer => true | _, _ => false end.

Definition doc_q_eqb (a b : doc) : bool :=
  (d_ue a =? d_ue b) && (d_rg a =? d_rg b) && (d_quota a =? d_quota b).
Fixpoint db_eqb (a b : db) : bool :=
  match a, b with
  | [], [] => true
  | x :: r, y :: s => doc_q_eqb x y && db_eqb r s
  | _, _ => false
  end.

(* observed database: same documents in the same order, with the observed quotas *)
Fixpoint with_quotas (d : db) (qs : list Z) : db :=
  match d, qs with
  | x :: r, q :: s => mkDoc (d_ue x) (d_rg x) q (d_cost x) :: with_quotas r s
  | _, _ => d
  end.

Definition quota_of (d : db) (ue rg : Z) : option Z :=
  match lookup d ue rg with Some x => Some (d_quota x) | None => None end.

(* every account other than (ue, rg) keeps its balance *)
Fixpoint others_same (a b : db) (ue rg : Z) : bool :=
  match a, b with
  | [], [] => true
  | x :: r, y :: s =>
    (if (d_ue x =? ue) && (d_rg x =? rg) then true else d_quota x =? d_quota y) && others_same r s ue rg
  | _, _ => false
  end.

Definition in63 (a : Z) : bool := (0 <=? a) && (a <? 9223372036854775808).

(* the statement of C07 on one observed step; returns 0 ok, 3 violated, 31 overflow class *)
Definition c07_step (before after : db) (c : ccr) (obs : answer cca) : Z :=
  if negb (c_has_sub c) || negb (c_has_mscc c) then 0 else
  match quota_of before (c_ue c) (c_rg c) with
  | None => if db_eqb before after then 0 else 3      (* unknown account: nothing changes *)
  | Some bal =>
    if negb (others_same before after (c_ue c) (c_rg c)) then 3 else
    let echo (a : cca) := (a_session a =? c_session c) && (a_type a =? c_type c) && (a_reqnum a =? c_reqnum c) in
    let newq := match quota_of after (c_ue c) (c_rg c) with Some q => q | None => bal - 1 end in
    if (c_action c =? 0) && ((c_type c =? 1) || (c_type c =? 2)) then
      match c_requested c with
      | Some a =>
        if in63 a && (0 <=? bal) then
          match obs with
          | Answer x =>
            let g := Z.min a bal in
            if echo x && optZ_eqb (a_granted x) (Some g) && (newq =? bal - g) && (0 <=? newq) &&
               Bool.eqb (a_fui x) (a >? bal) then 0 else 3
          | NoAnswer => 3
          end
        else 0
      | None => 0
      end
    else if c_action c =? 1 then
      match c_requested c with
      | Some a =>
        if in63 a then
          if bal + a <? 9223372036854775808 then
            match obs with
            | Answer x => if echo x && (newq =? bal + a) then 0 else 3
            | NoAnswer => 3
            end
          else (if newq =? bal + a then 0 else 31)
        else 0
      | None => 0
      end
    else if (c_action c =? 0) && (c_type c =? 3) then
      match c_used c with
      | Some u =>
        if in63 u && (- 9223372036854775808 <=? bal - u) then
          match obs with
          | Answer x => if echo x && (newq =? bal - u) then 0 else 3
          | NoAnswer => 3
          end
        else 0
      | None => 0
      end
    else
      match obs with
      | Answer x => if echo x && (newq =? bal) then 0 else 3
      | NoAnswer => 3
      end
  end.

Record abmf_case := mkAcase {
  ac_id : Z; ac_db : db;
  ac_steps : list (ccr * answer cca * list Z) }.   (* request, observed answer, observed quotas after *)

Fixpoint abmf_steps (id : Z) (k : Z) (model obs : db) (steps : list (ccr * answer cca * list Z)) : list (Z * Z * Z) :=
  match steps with
  | [] => []
  | (c, oa, qs) :: r =>
    let '(model', ma) := abmf_ccr model c in
    let obs' := with_quotas obs qs in
    (if ans_eqb cca_eqb ma oa then [] else [(id, k, 1)]) ++
    (if db_eqb model' obs' then [] else [(id, k, 2)]) ++
    (let m := c07_step obs obs' c oa in if m =? 0 then [] else [(id, k, m)]) ++
    (* continue from the observed state so that one divergence is reported once *)
    abmf_steps id (k + 1) obs' obs' r
  end.

Definition run_abmf (cs : list abmf_case) : list (Z * Z * Z) :=
  flat_map (fun c => abmf_steps (ac_id c) 0 (ac_db c) (ac_db c) (ac_steps c)) cs.

(* ---------------- RF ---------------- *)

Definition sua_eqb (a b : sua) : bool :=
  (u_session a =? u_session b) && (u_digits a =? u_digits b) && (u_exp a =? u_exp b) &&
  (u_allowed a =? u_allowed b) && (u_price a =? u_price b).

Record rf_case := mkRcase { rc_id : Z; rc_db : db; rc_req : sur; rc_obs : answer sua }.

(* the statement of C08 on one observed answer, in terms of the unit cost the
   CHF derives from that very answer *)
Definition c08_step (d : db) (s : sur) (obs : answer sua) : bool :=
  if negb (s_has_sub s) || negb (s_has_sr s) then true else
  match lookup d (s_ue s) (s_rg s) with
  | None => true
  | Some _ =>
    match obs with
    | NoAnswer => false                         (* known account: the server must answer *)
    | Answer a =>
      let cost := chf_unit_cost a in
      (u_session a =? s_session s) &&
      (if s_subtype s =? 2 then
         if s_consumed s * cost <? 4294967296 then u_price a =? s_consumed s * cost else true
       else if s_subtype s =? 1 then
         if cost =? 0 then true
         else (u_allowed a =? s_quota s / cost) && (u_price a =? u_allowed a * cost) && (u_price a <=? s_quota s)
       else true)
    end
  end.

Definition check_rf (c : rf_case) : list (Z * Z * Z) :=
  (if ans_eqb sua_eqb (rf_sur (rc_db c) (rc_req c)) (rc_obs c) then [] else [(rc_id c, 0, 5)]) ++
  (if c08_step (rc_db c) (rc_req c) (rc_obs c) then [] else [(rc_id c, 0, 6)]).

Definition run_rf (cs : list rf_case) : list (Z * Z * Z) := flat_map check_rf cs.

(* ---- the CHF side of the tariff (getUnitCost), observed as ChfUe.UnitCost ---- *)
Record ucase := mkUcase { uc_id : Z; uc_cost : list Z; uc_chf : Z; uc_server : Z }.
  (* uc_chf: unit cost stored by the CHF after an update; uc_server: price the
     server charges for one consumed unit (-1: not observed) *)

(* an oracle that owes nothing to the model: a stored unit cost that is a plain string of decimal
   digits (below 2^32) is that number -- whatever its leading zeros *)
Definition all_digits (s : list Z) : bool :=
  match s with [] => false | _ => forallb (fun c => (48 <=? c) && (c <=? 57)) s end.
Definition decimal (s : list Z) : Z := fold_left (fun a c => a * 10 + (c - 48)) s 0.

Definition check_ucost (c : ucase) : list (Z * Z * Z) :=
  let '(dg, ex) := tariff (uc_cost c) in
  (if uc_chf c =? unit_cost dg ex then [] else [(uc_id c, 0, 8)]) ++
  (if (uc_server c =? -1) || (uc_chf c =? -1) || (uc_chf c =? uc_server c) then [] else [(uc_id c, 0, 9)]) ++
  (if all_digits (uc_cost c) && (decimal (uc_cost c) <? 4294967296) &&
      negb (uc_server c =? -1) && negb (uc_server c =? decimal (uc_cost c))
   then [(uc_id c, 0, 10)] else []).

Definition run_ucost (cs : list ucase) : list (Z * Z * Z) := flat_map check_ucost cs.
