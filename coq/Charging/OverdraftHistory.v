(* C06 over whole histories: for a consumer that never reports more usage than the grant the
   CHF last gave for that subscriber and rating group, no account balance ever becomes negative,
   and every grant stays backed by the reservation the CHF holds.

   The last grants are a ghost [G : supi -> rg -> volume] threaded along the history: after an
   update it holds the granted volume of each MultipleUnitInformation entry of the answer, after
   a release it is 0 for that subscriber (a release answers 204 without grants).  The ghost is
   kept per subscriber and rating group, as the CHF keeps its reservation: with two sessions of
   one subscriber on one rating group "what the consumer was last granted" is not one number
   (known finding C06/shared-reservation-across-sessions). *)
From Coq Require Import List ZArith Lia Bool ZifyBool.
From Verif Require Import Charging.Servers Charging.ServersProofs Charging.Chf Charging.ChargeProofs
  Charging.HistoryProofs.
Import ListNotations.
Open Scope Z_scope.

#[local] Arguments Z.mul : simpl never.
#[local] Arguments charge_rg : simpl never.

Definition ghost := Z -> Z -> Z.
Definition gupd (G : Z -> Z) (rg v : Z) : Z -> Z := fun r => if r =? rg then v else G r.
Definition gupd_muis (G : Z -> Z) (ms : list mui) : Z -> Z :=
  fold_left (fun G m => match m_granted m with Some v => gupd G (m_rg m) v | None => G end) ms G.

Definition nonneg (d : db) : Prop := forall s r x, lookup d s r = Some x -> 0 <= d_quota x.

(* grants of one subscriber are backed by its reservations *)
Definition backed_u (G : Z -> Z) (d : db) (u : uectx) : Prop :=
  forall rg x, lookup d (u_supi u) rg = Some x ->
    0 <= aget (u_reserved u) rg 0 /\ cost_of x * G rg <= aget (u_reserved u) rg 0.

(* ---- one credit-control round ---- *)

Lemma bal_lookup d s r q : bal d s r = Some q -> exists x, lookup d s r = Some x /\ d_quota x = q.
Proof. unfold bal. destruct (lookup d s r) as [x|]; [|discriminate]. intros H. inversion H. eauto. Qed.

Lemma charge_rg_safe d supi rg x st req used :
  lookup d supi rg = Some x -> (q_mode st = 1 \/ q_mode st = 2) -> 0 <= d_quota x ->
  round_ok (d_quota x) (q_reserved st) (cost_of x) used (reqv_of req) ->
  cost_of x * used <= q_reserved st ->
  let '(d', st', m) := charge_rg d supi rg st req used in
  (exists b, bal d' supi rg = Some b /\ 0 <= b) /\
  0 <= q_reserved st' /\
  (exists mu g, m = Some mu /\ m_rg mu = rg /\ m_granted mu = Some g /\ cost_of x * g <= q_reserved st').
Proof.
  intros Hl Hm Hq Hok Hcov.
  pose proof (charge_rg_conserves d supi rg x st req used Hl Hm Hok) as C.
  destruct Hm as [Hm|Hm].
  - pose proof (charge_rg_grant d supi rg x st req used Hl Hm Hq Hok) as Gr. cbv zeta in Gr.
    assert (Hrg : forall d' st' mu, charge_rg d supi rg st req used = (d', st', Some mu) -> m_rg mu = rg).
    { intros d' st' mu E. unfold charge_rg in E. rewrite Hm in E. cbn [Z.eqb Pos.eqb] in E.
      repeat match type of E with
             | context [if ?c then _ else _] => destruct c
             | context [match abmf_ccr ?a ?b with _ => _ end] => destruct (abmf_ccr a b) as [? [?|]]
             | context [match rf_sur ?a ?b with _ => _ end] => destruct (rf_sur a b)
             end; inversion E; reflexivity. }
    destruct (charge_rg d supi rg st req used) as [[d' st'] m] eqn:E.
    destruct Gr as [mu [g [Em [Eg [_ [_ [Hback [b [Hb Hb0]]]]]]]]].
    destruct C as [C _]. rewrite Hb in C. inversion C as [Cb].
    assert (HR' : 0 <= q_reserved st') by lia.
    split; [exists b; split; [exact Hb|lia]|]. split; [exact HR'|].
    exists mu, g. subst m. split; [reflexivity|]. split; [exact (Hrg d' st' mu eq_refl)|].
    split; [exact Eg | lia].
  - pose proof (charge_rg_debit_no_overdraft d supi rg x st req used Hl Hm Hq Hok Hcov) as Db.
    assert (Hmu : forall d' st' m, charge_rg d supi rg st req used = (d', st', m) ->
              exists mu, m = Some mu /\ m_rg mu = rg).
    { intros d' st' m E. unfold charge_rg in E. rewrite Hm in E. cbn [Z.eqb Pos.eqb] in E.
      assert (K : known_sur d (mkSur true supi true rg 2 used 0 0) x) by (repeat split; exact Hl).
      destruct (rf_answers _ _ _ K) as [a [Ha _]]. rewrite Ha in E.
      pose proof (charge_rg_conserves d supi rg x st req used Hl (or_intror Hm) Hok) as C'.
      unfold charge_rg in C'. rewrite Hm in C'. cbn [Z.eqb Pos.eqb] in C'. rewrite Ha in C'.
      match type of E with context [abmf_ccr d ?c] =>
        destruct (abmf_ccr d c) as [d1 [b|]] eqn:Eab end.
      + inversion E. eexists. split; reflexivity.
      + (* the account server always answers for a known account *)
        exfalso. unfold abmf_ccr in Eab.
        destruct (u_price a <? q_reserved st); cbn in Eab; rewrite Hl in Eab; cbn in Eab;
          repeat match type of Eab with
                 | context [if ?c then _ else _] => destruct c
                 | context [let '(_, _) := ?r in _] => destruct r
                 end; discriminate Eab. }
    destruct (charge_rg d supi rg st req used) as [[d' st'] m] eqn:E.
    destruct Db as [Hb HR']. destruct (Hmu d' st' m eq_refl) as [mu [Em Hrg]].
    split; [eexists; split; [exact Hb|lia]|]. split; [lia|].
    destruct (charge_rg_debit_final d supi rg st req used d' st' mu Hm ltac:(rewrite E, Em; reflexivity)) as [Hg _].
    exists mu, 0. split; [exact Em|]. split; [exact Hrg|]. split; [exact Hg|lia].
Qed.

(* ---- one unit usage of a request ---- *)

Lemma nonneg_bal d d' :
  nonneg d -> (forall s r, bal d' s r = bal d s r \/ exists b, bal d' s r = Some b /\ 0 <= b) -> nonneg d'.
Proof.
  intros Hn H s r x' Hl'. destruct (H s r) as [E|[b [E Hb]]]; unfold bal in E; rewrite Hl' in E.
  - destruct (lookup d s r) as [x|] eqn:Hl; [|discriminate]. inversion E as [Eq]. rewrite Eq. exact (Hn s r x Hl).
  - inversion E. lia.
Qed.

Lemma cost_at_lookup_rev d d' s r x' :
  cost_at d' s r = cost_at d s r -> lookup d' s r = Some x' ->
  exists x, lookup d s r = Some x /\ cost_of x = cost_of x'.
Proof. intros H Hl. symmetry in H. exact (cost_at_lookup d' d s r x' H Hl). Qed.

Lemma charge_usage_safe (G : Z -> Z) d u muis p triggers g :
  nonneg d -> backed_u G d u -> usage_ok d u triggers g ->
  (has_online (g_conts g) = true -> total_used (g_conts g) <= G (g_rg g)) ->
  let '(d', u', muis', _) := charge_usage (d, u, muis, p) triggers g in
  exists new, muis' = muis ++ new /\
    nonneg d' /\ backed_u (gupd_muis G new) d' u' /\ u_supi u' = u_supi u /\
    (forall s r, cost_at d' s r = cost_at d s r) /\
    (forall s r, s <> u_supi u -> bal d' s r = bal d s r).
Proof.
  intros Hn Hb Hok Hcomp. unfold charge_usage.
  set (rg := g_rg g).
  set (u1 := if existsb (Z.eqb rg) (u_rgs u) then u else _).
  assert (Hs1 : u_supi u1 = u_supi u) by (unfold u1; destruct (existsb _ _); reflexivity).
  assert (Hr1 : u_reserved u1 = u_reserved u) by (unfold u1; destruct (existsb _ _); reflexivity).
  destruct (trig_all (g_conts g) triggers (aget (u_mode u1) rg 0, p)) as [mode1 partial1] eqn:Et.
  destruct (has_online (g_conts g)) eqn:Eo; cbn [negb].
  2:{ exists []. rewrite app_nil_r. split; [reflexivity|]. split; [exact Hn|]. split.
      - cbn [gupd_muis fold_left]. unfold backed_u. rewrite Hs1, Hr1. exact Hb.
      - split; [exact Hs1|]. split; reflexivity. }
  destruct (Hok Eo) as [x [Hx [Hm Hround]]]. fold rg in Hx, Hm, Hround.
  specialize (Hcomp eq_refl). fold rg in Hcomp.
  set (u2 := mkUe (u_supi u1) (u_rgs u1) (u_reserved u1) (aset (u_mode u1) rg mode1) (u_cost u1) (u_reqnum u1)
                  (u_notify u1) (u_cdr u1) (u_records u1) (u_sess u1)).
  assert (Hmode : q_mode (rg_get u2 rg) = 1 \/ q_mode (rg_get u2 rg) = 2).
  { unfold rg_get, u2. cbn [q_mode u_mode]. rewrite aget_aset_same.
    assert (E : mode1 = fst (trig_all (g_conts g) triggers (aget (u_mode u1) rg 0, p))) by (rewrite Et; reflexivity).
    rewrite (trig_all_fst _ _ _ p false) in E.
    assert (E0 : aget (u_mode u1) rg 0 = (if existsb (Z.eqb rg) (u_rgs u) then aget (u_mode u) rg 0 else 1)).
    { unfold u1. destruct (existsb (Z.eqb rg) (u_rgs u)); [reflexivity|]. cbn [u_mode]. apply aget_aset_same. }
    rewrite E0 in E. rewrite E. exact Hm. }
  assert (Hres : q_reserved (rg_get u2 rg) = aget (u_reserved u) rg 0).
  { unfold rg_get, u2. cbn [q_reserved u_reserved]. rewrite Hr1. reflexivity. }
  destruct (Hb rg x Hx) as [HR0 HRG].
  assert (Hcov : cost_of x * total_used (g_conts g) <= q_reserved (rg_get u2 rg)).
  { rewrite Hres. pose proof (ok_cost _ _ _ _ _ Hround). nia. }
  pose proof (charge_rg_safe d (u_supi u) rg x (rg_get u2 rg) (g_req g) (total_used (g_conts g)) Hx Hmode
                (Hn _ _ _ Hx) ltac:(rewrite Hres; exact Hround) Hcov) as S.
  pose proof (charge_rg_conserves d (u_supi u) rg x (rg_get u2 rg) (g_req g) (total_used (g_conts g)) Hx Hmode
                ltac:(rewrite Hres; exact Hround)) as C.
  pose proof (charge_rg_cost d (u_supi u) rg (rg_get u2 rg) (g_req g) (total_used (g_conts g))) as Hcost.
  destruct (charge_rg d (u_supi u) rg (rg_get u2 rg) (g_req g) (total_used (g_conts g))) as [[d' st'] m] eqn:Ec.
  cbn [fst] in Hcost. destruct C as [_ Hframe].
  destruct S as [[b [Hbal Hb0]] [HR' [mu [g0 [Em [Hmrg [Hmg Hback]]]]]]]. subst m.
  exists [mu]. split; [reflexivity|]. split; [|split; [|split; [|split]]].
  - apply (nonneg_bal d d' Hn). intros s r.
    destruct (Z.eq_dec s (u_supi u)) as [Es|Es]; [destruct (Z.eq_dec r rg) as [Er|Er]|].
    + subst s r. right. exists b. split; assumption.
    + left. apply Hframe. congruence.
    + left. apply Hframe. congruence.
  - cbn [gupd_muis fold_left]. rewrite Hmg, Hmrg. unfold backed_u. cbn [u_supi u_reserved]. unfold u2. cbn [u_supi u_reserved].
    rewrite Hs1, Hr1. intros rg' x' Hl'.
    destruct (cost_at_lookup_rev d d' (u_supi u) rg' x' (Hcost _ _) Hl') as [x0 [Hl0 Hc0]].
    unfold gupd. destruct (Z.eqb_spec rg' rg) as [E|E].
    + subst rg'. rewrite aget_aset_same. rewrite Hx in Hl0. inversion Hl0; subst x0. rewrite <- Hc0. split; assumption.
    + rewrite aget_aset_other by congruence. rewrite <- Hc0. exact (Hb rg' x0 Hl0).
  - cbn [u_supi]. unfold u2. cbn [u_supi]. exact Hs1.
  - exact Hcost.
  - intros s r Hs. apply Hframe. congruence.
Qed.

(* ---- a whole request ---- *)

Definition new_muis (old all : list mui) : list mui := skipn (length old) all.
Lemma new_muis_app old new : new_muis old (old ++ new) = new.
Proof. unfold new_muis. rewrite skipn_app, skipn_all, Nat.sub_diag. reflexivity. Qed.

(* each reported usage is at most the grant last given for its rating group (the ghost is
   brought up to date after every unit usage, in the order the CHF processes them) *)
Fixpoint request_compliant (G : Z -> Z) (d : db) (u : uectx) (muis : list mui) (p : bool)
         (triggers : list Z) (gs : list usage) : Prop :=
  match gs with
  | [] => True
  | g :: rest =>
    (has_online (g_conts g) = true -> total_used (g_conts g) <= G (g_rg g)) /\
    let '(d', u', m', p') := charge_usage (d, u, muis, p) triggers g in
    request_compliant (gupd_muis G (new_muis muis m')) d' u' m' p' triggers rest
  end.

Lemma gupd_muis_app G a b : gupd_muis G (a ++ b) = gupd_muis (gupd_muis G a) b.
Proof. unfold gupd_muis. apply fold_left_app. Qed.

Lemma charge_fold_safe triggers : forall gs (G : Z -> Z) d u muis p,
  nonneg d -> backed_u G d u ->
  request_ok d u muis p triggers gs -> request_compliant G d u muis p triggers gs ->
  let '(d', u', muis', _) := fold_left (fun acc g => charge_usage acc triggers g) gs (d, u, muis, p) in
  exists new, muis' = muis ++ new /\
    nonneg d' /\ backed_u (gupd_muis G new) d' u' /\ u_supi u' = u_supi u /\
    (forall s r, cost_at d' s r = cost_at d s r) /\
    (forall s r, s <> u_supi u -> bal d' s r = bal d s r).
Proof.
  induction gs as [|g rest IH]; intros G d u muis p Hn Hb Hok Hc.
  - cbn [fold_left]. exists []. rewrite app_nil_r. cbn [gupd_muis fold_left].
    split; [reflexivity|]. split; [exact Hn|]. split; [exact Hb|]. split; [reflexivity|]. split; reflexivity.
  - cbn [request_ok] in Hok. destruct Hok as [Hg Hrest]. cbn [request_compliant] in Hc. destruct Hc as [Hcg Hcrest].
    cbn [fold_left].
    pose proof (charge_usage_safe G d u muis p triggers g Hn Hb Hg Hcg) as H1.
    destruct (charge_usage (d, u, muis, p) triggers g) as [[[d1 u1] m1] p1].
    destruct H1 as [new1 [Em1 [Hn1 [Hb1 [Hs1 [Hc1 Hf1]]]]]]. subst m1.
    rewrite new_muis_app in Hcrest.
    pose proof (IH (gupd_muis G new1) d1 u1 (muis ++ new1) p1 Hn1 Hb1 Hrest Hcrest) as H2.
    destruct (fold_left (fun acc g0 => charge_usage acc triggers g0) rest (d1, u1, muis ++ new1, p1)) as [[[d2 u2] m2] p2].
    destruct H2 as [new2 [Em2 [Hn2 [Hb2 [Hs2 [Hc2 Hf2]]]]]].
    exists (new1 ++ new2). split; [rewrite Em2, app_assoc; reflexivity|].
    split; [exact Hn2|]. split; [rewrite gupd_muis_app; exact Hb2|]. split; [congruence|]. split.
    + intros s r. rewrite Hc2. apply Hc1.
    + intros s r Hs. rewrite Hf2 by congruence. apply Hf1. exact Hs.
Qed.

(* ---- operations and histories ---- *)

Section History.
  Variable rsize : record -> Z.
  Variable usize : list (Z * list entry) -> Z.
  Notation step := (step rsize usize).
  Notation reaches := (reaches).

  (* every grant is backed by the reservation the CHF holds for that subscriber and rating group *)
  Definition backed (G : ghost) (w : world) : Prop :=
    forall s rg x, lookup (w_db w) s rg = Some x ->
      0 <= reserved_of (w_ues w) s rg /\ cost_of x * G s rg <= reserved_of (w_ues w) s rg.

  (* the grants the consumer holds after an operation: those of the answer to an update;
     none after a release *)
  Definition ghost_step (G : ghost) (w : world) (o : op) : ghost :=
    match o with
    | Update ref rq =>
      fun s => if s =? r_supi rq then gupd_muis (G (r_supi rq)) (rs_mui (snd (step w o))) else G s
    | Release ref rq =>
      match reaches w ref rq with
      | Some _ => fun s => if s =? r_supi rq then (fun _ => 0) else G s
      | None => G
      end
    | _ => G
    end.

  (* the consumer stays within its grants; the operator never credits an account below zero *)
  Definition op_compliant (G : ghost) (w : world) (o : op) : Prop :=
    match o with
    | Update ref rq | Release ref rq =>
      match reaches w ref rq with
      | Some u => request_compliant (G (r_supi rq)) (w_db w) u [] false (r_triggers rq) (r_usages rq)
      | None => True
      end
    | Credit s r a => forall x, lookup (w_db w) s r = Some x -> 0 <= d_quota x + a
    | _ => True
    end.

  Lemma backed_of_u G w u s : find_ue (w_ues w) s = Some u -> backed G w -> backed_u (G s) (w_db w) u.
  Proof.
    intros Ef Hb rg x Hl. rewrite (find_ue_supi _ _ _ Ef) in Hl.
    pose proof (Hb s rg x Hl) as H. unfold reserved_of in H. rewrite Ef in H. exact H.
  Qed.

  (* what charging a request leaves behind, for every subscriber *)
  Lemma charged_backed G w u rq d' u1 (G1 : Z -> Z) w' :
    find_ue (w_ues w) (r_supi rq) = Some u -> backed G w ->
    backed_u G1 d' u1 -> u_supi u1 = r_supi rq ->
    (forall s r, cost_at d' s r = cost_at (w_db w) s r) ->
    w_db w' = d' ->
    (forall s r, reserved_of (w_ues w') s r =
                 if r_supi rq =? s then aget (u_reserved u1) r 0 else reserved_of (w_ues w) s r) ->
    backed (fun s => if s =? r_supi rq then G1 else G s) w'.
  Proof.
    intros Ef Hb Hb1 Hs1 Hc Hd Hres s rg x' Hl'. rewrite Hd in Hl'.
    rewrite Hres. destruct (Z.eqb_spec s (r_supi rq)) as [E|E].
    - subst s. rewrite Z.eqb_refl. rewrite <- Hs1 in Hl'. exact (Hb1 rg x' Hl').
    - replace (r_supi rq =? s) with false by lia.
      destruct (cost_at_lookup_rev (w_db w) d' s rg x' (Hc _ _) Hl') as [x0 [Hl0 Hc0]].
      rewrite <- Hc0. exact (Hb s rg x0 Hl0).
  Qed.

  Lemma step_safe G w o :
    nonneg (w_db w) -> backed G w -> op_ok w o -> op_compliant G w o ->
    nonneg (w_db (fst (step w o))) /\ backed (ghost_step G w o) (fst (step w o)).
  Proof.
    intros Hn Hb Hok Hc. destruct o as [rq|ref rq|ref rq|s' r'|s' r' a|n]; cbn [ghost_step].
    - (* create *)
      cbn [Chf.step]. unfold do_create. destruct (r_consumer rq) as [c|]; [|split; assumption].
      destruct (match find_ue (w_ues w) (r_supi rq) with Some _ => false | None => negb (r_supi_ok rq) end);
        [split; assumption|].
      cbn [fst w_db]. split; [exact Hn|]. intros s rg x Hl. cbn [w_db w_ues] in *.
      rewrite reserved_put. cbn [u_supi u_reserved]. pose proof (Hb s rg x Hl) as H. unfold reserved_of in *.
      destruct (find_ue (w_ues w) (r_supi rq)) as [u0|] eqn:Ef.
      + rewrite (find_ue_supi _ _ _ Ef). destruct (r_supi rq =? s) eqn:E; [|exact H].
        apply Z.eqb_eq in E. subst s. rewrite Ef in H. exact H.
      + cbn [fresh_ue u_supi u_reserved]. destruct (r_supi rq =? s) eqn:E; [|exact H].
        apply Z.eqb_eq in E. subst s. rewrite Ef in H. cbn [aget]. exact H.
    - (* update *)
      cbn [op_ok op_compliant] in Hok, Hc. unfold HistoryProofs.reaches in *.
      cbn [Chf.step]. unfold do_update.
      destruct (find_ue (w_ues w) (r_supi rq)) as [u|] eqn:Ef.
      2:{ cbn [fst snd reject rs_mui gupd_muis fold_left]. split; [exact Hn|].
          intros s rg x Hl. destruct (Z.eqb_spec s (r_supi rq)) as [E|E]; [subst s|]; exact (Hb _ rg x Hl). }
      destruct (cdr_find (u_cdr u) ref) as [idx|].
      2:{ cbn [fst snd reject rs_mui gupd_muis fold_left]. split; [exact Hn|].
          intros s rg x Hl. destruct (Z.eqb_spec s (r_supi rq)) as [E|E]; [subst s|]; exact (Hb _ rg x Hl). }
      destruct (nth_error (u_records u) idx) as [rec|].
      2:{ cbn [fst snd reject rs_mui gupd_muis fold_left]. split; [exact Hn|].
          intros s rg x Hl. destruct (Z.eqb_spec s (r_supi rq)) as [E|E]; [subst s|]; exact (Hb _ rg x Hl). }
      pose proof (charge_fold_safe (r_triggers rq) (r_usages rq) (G (r_supi rq)) (w_db w) u [] false Hn
                    (backed_of_u G w u _ Ef Hb) Hok Hc) as S.
      destruct (charge_request (w_db w) u rq) as [[[d' u1] muis] partial] eqn:Ec.
      unfold charge_request in Ec. rewrite Ec in S.
      destruct S as [new [Em [Hn' [Hb' [Hs1 [Hcost _]]]]]]. cbn [app] in Em. subst new.
      rewrite (find_ue_supi _ _ _ Ef) in Hs1.
      destruct (rsize rec + _ >? 65535); cbn [fst snd w_db rs_mui]; (split; [exact Hn'|]);
        (match goal with |- backed _ ?W =>
           apply (charged_backed G w u rq d' u1 (gupd_muis (G (r_supi rq)) muis) W Ef Hb Hb' Hs1 Hcost) end);
        try reflexivity;
        intros s r; cbn [w_ues]; rewrite reserved_put; cbn [u_supi u_reserved]; rewrite Hs1; reflexivity.
    - (* release *)
      cbn [op_ok op_compliant] in Hok, Hc. unfold HistoryProofs.reaches in *.
      cbn [Chf.step]. unfold do_release.
      destruct (find_ue (w_ues w) (r_supi rq)) as [u|] eqn:Ef; [|split; assumption].
      destruct (cdr_find (u_cdr u) ref) as [idx|]; [|split; assumption].
      destruct (nth_error (u_records u) idx) as [rec|]; [|split; assumption].
      pose proof (charge_fold_safe (r_triggers rq) (r_usages rq) (G (r_supi rq)) (w_db w) u [] false Hn
                    (backed_of_u G w u _ Ef Hb) Hok Hc) as S.
      destruct (charge_request (w_db w) u rq) as [[[d' u1] muis] partial] eqn:Ec.
      unfold charge_request in Ec. rewrite Ec in S.
      destruct S as [new [Em [Hn' [Hb' [Hs1 [Hcost _]]]]]]. cbn [app] in Em. subst new.
      rewrite (find_ue_supi _ _ _ Ef) in Hs1.
      cbn [fst w_db]. split; [exact Hn'|].
      match goal with |- backed _ ?W => apply (charged_backed G w u rq d' u1 (fun _ => 0) W Ef Hb) end; try assumption.
      + intros rg x Hl. destruct (Hb' rg x Hl) as [H0 _]. split; [exact H0 | lia].
      + reflexivity.
      + intros s r. cbn [w_ues]. rewrite reserved_put. cbn [u_supi u_reserved]. rewrite Hs1. reflexivity.
    - (* recharge *)
      cbn [Chf.step]. unfold do_recharge. destruct (find_ue (w_ues w) s') as [u|] eqn:Ef; cbn [fst]; [|split; assumption].
      split; [exact Hn|]. intros s rg x Hl. cbn [w_db w_ues] in *. rewrite reserved_put. cbn [u_supi u_reserved].
      pose proof (Hb s rg x Hl) as H. unfold reserved_of in *. rewrite (find_ue_supi _ _ _ Ef).
      destruct (s' =? s) eqn:E; [|exact H]. apply Z.eqb_eq in E. subst s'. rewrite Ef in H. exact H.
    - (* credit *)
      cbn [op_compliant] in Hc. cbn [Chf.step]. unfold do_credit.
      destruct (lookup (w_db w) s' r') as [y|] eqn:Ey; cbn [fst w_db w_ues]; [|split; assumption].
      split.
      + apply (nonneg_bal (w_db w) _ Hn). intros s r.
        destruct (Z.eq_dec s s') as [E1|E1]; [destruct (Z.eq_dec r r') as [E2|E2]|].
        * subst. right. eexists. split; [apply (bal_set_same _ _ _ _ _ Ey) | exact (Hc y eq_refl)].
        * left. apply bal_set_other. congruence.
        * left. apply bal_set_other. congruence.
      + intros s rg x' Hl'. cbn [w_db w_ues] in *.
        destruct (cost_at_lookup_rev (w_db w) _ s rg x' (cost_set_quota _ _ _ _ _ _) Hl') as [x0 [Hl0 Hc0]].
        rewrite <- Hc0. exact (Hb s rg x0 Hl0).
    - (* elapse *)
      cbn [Chf.step fst w_db]. split; [exact Hn|]. exact Hb.
  Qed.

  (* ---- histories ---- *)

  Fixpoint history_compliant (G : ghost) (w : world) (ops : list op) : Prop :=
    match ops with
    | [] => True
    | o :: rest => op_compliant G w o /\ history_compliant (ghost_step G w o) (fst (step w o)) rest
    end.

  Theorem history_no_overdraft : forall ops G w,
    nonneg (w_db w) -> backed G w ->
    history_ok rsize usize w ops -> history_compliant G w ops ->
    nonneg (w_db (run rsize usize w ops)).
  Proof.
    induction ops as [|o rest IH]; intros G w Hn Hb Hok Hc.
    - exact Hn.
    - cbn [history_ok] in Hok. destruct Hok as [Ho Hrest]. cbn [history_compliant] in Hc. destruct Hc as [Hco Hcrest].
      destruct (step_safe G w o Hn Hb Ho Hco) as [Hn' Hb'].
      unfold run. cbn [fold_left]. exact (IH _ _ Hn' Hb' Hrest Hcrest).
  Qed.

  (* the start of every history: no subscriber context, nothing granted *)
  Lemma backed_start d lr fs ns : backed (fun _ _ => 0) (mkWorld d [] lr fs ns).
  Proof. intros s rg x _. cbn. lia. Qed.
End History.

(* ---- the hypotheses, decidably: to discharge them on concrete histories and to count how many
   of the harness's histories lie in the theorem's domain ---- *)

Definition nonnegb (d : db) : bool := forallb (fun x => 0 <=? d_quota x) d.
Lemma lookup_in d s r x : lookup d s r = Some x -> In x d.
Proof.
  induction d as [|y d IH]; cbn [lookup]; [discriminate|].
  destruct ((d_ue y =? s) && (d_rg y =? r)); intros H; [inversion H; left; reflexivity | right; apply IH, H].
Qed.
Lemma nonnegb_ok d : nonnegb d = true -> nonneg d.
Proof.
  unfold nonnegb. rewrite forallb_forall. intros H s r x Hl. specialize (H x (lookup_in d s r x Hl)). lia.
Qed.

Fixpoint request_compliantb (G : Z -> Z) (d : db) (u : uectx) (muis : list mui) (p : bool)
         (triggers : list Z) (gs : list usage) : bool :=
  match gs with
  | [] => true
  | g :: rest =>
    (negb (has_online (g_conts g)) || (total_used (g_conts g) <=? G (g_rg g))) &&
    let '(d', u', m', p') := charge_usage (d, u, muis, p) triggers g in
    request_compliantb (gupd_muis G (new_muis muis m')) d' u' m' p' triggers rest
  end.

Lemma request_compliantb_ok triggers : forall gs G d u muis p,
  request_compliantb G d u muis p triggers gs = true -> request_compliant G d u muis p triggers gs.
Proof.
  induction gs as [|g rest IH]; intros G d u muis p H; [exact I|]. cbn [request_compliantb request_compliant] in *.
  apply andb_prop in H. destruct H as [Hg Hr]. split.
  - intros Ho. rewrite Ho in Hg. cbn [negb orb] in Hg. lia.
  - destruct (charge_usage (d, u, muis, p) triggers g) as [[[d1 u1] m1] p1]. apply IH. exact Hr.
Qed.

Section HistoryB.
  Variable rsize : record -> Z.
  Variable usize : list (Z * list entry) -> Z.

  Definition op_compliantb (G : ghost) (w : world) (o : op) : bool :=
    match o with
    | Update ref rq | Release ref rq =>
      match reaches w ref rq with
      | Some u => request_compliantb (G (r_supi rq)) (w_db w) u [] false (r_triggers rq) (r_usages rq)
      | None => true
      end
    | Credit s r a => match lookup (w_db w) s r with Some x => 0 <=? d_quota x + a | None => true end
    | _ => true
    end.

  Fixpoint history_compliantb (G : ghost) (w : world) (ops : list op) : bool :=
    match ops with
    | [] => true
    | o :: rest => op_compliantb G w o &&
                   history_compliantb (ghost_step rsize usize G w o) (fst (step rsize usize w o)) rest
    end.

  Lemma history_compliantb_ok : forall ops G w,
    history_compliantb G w ops = true -> history_compliant rsize usize G w ops.
  Proof.
    induction ops as [|o rest IH]; intros G w H; [exact I|]. cbn [history_compliantb history_compliant] in *.
    apply andb_prop in H. destruct H as [Ho Hr]. split; [|apply IH; exact Hr].
    destruct o as [rq|ref rq|ref rq|s' r'|s' r' a|n]; try exact I; cbn [op_compliantb op_compliant] in *.
    - destruct (reaches w ref rq) as [u|]; [apply request_compliantb_ok; exact Ho|exact I].
    - destruct (reaches w ref rq) as [u|]; [apply request_compliantb_ok; exact Ho|exact I].
    - intros x Hl. rewrite Hl in Ho. lia.
  Qed.

  (* a history from the CHF's start (no subscriber context yet) *)
  Corollary history_no_overdraft_b ops d lr :
    nonnegb d = true ->
    history_okb rsize usize (mkWorld d [] lr [] []) ops = true ->
    history_compliantb (fun _ _ => 0) (mkWorld d [] lr [] []) ops = true ->
    nonneg (w_db (run rsize usize (mkWorld d [] lr [] []) ops)).
  Proof.
    intros Hn Hok Hc.
    apply (history_no_overdraft rsize usize ops (fun _ _ => 0)).
    - apply nonnegb_ok. exact Hn.
    - apply backed_start.
    - apply history_okb_ok. exact Hok.
    - apply history_compliantb_ok. exact Hc.
  Qed.
End HistoryB.
