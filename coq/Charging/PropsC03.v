(* C03 — every CDR file the CHF writes is a well-formed, decodable TS 32.297 file. *)
From Coq Require Import List ZArith Bool.
From Verif Require Import Common.Outcome Common.Bytes CdrFile.Model CdrFile.Spec Charging.DumpProofs
  Charging.Servers Charging.Chf Charging.RecordBer.
Import ListNotations.
Open Scope Z_scope.

(* dumpCdrFile: for any number of records whose encodings fit the 16-bit record
   length, the file it writes is well formed: header and file length fields equal
   the real sizes, the count equals the number of records, every record header
   length equals its payload size, and the independent TS 32.297 reader recovers
   exactly the structure (so every payload is the record encoding it was given). *)
Theorem C03_dump_wf : forall ps,
  forallb payload_ok ps = true ->
  52 + fold_right (fun p acc => zlen p + 4 + acc) 0 ps < 4294967296 ->
  wf_file (dump_file ps) = true /\ lengths_consistent (dump_file ps) = true /\
  spec_read (enc_file (dump_file ps)) = Some (dump_file ps).
Proof. exact dump_file_wf. Qed.
Print Assumptions C03_dump_wf.

(* KNOWN FINDING C03/record-exceeds-65535: nothing bounds the size of one request's
   usage: a record with 4000 containers encodes to more than 65535 octets, its
   CdrLength is truncated. *)
Definition big_record : record :=
  mkRec [45; 48] 208930000000001 1 [115] 1
        [(1, map (fun i => (1, 1, 0, 1, 0, Z.of_nat i)) (seq 0 4000))] false 0 None.
Theorem C03_oversize_refuted : rsize big_record > 65535.
Proof. vm_compute. reflexivity. Qed.
Print Assumptions C03_oversize_refuted.
