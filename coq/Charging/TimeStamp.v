(* cdrConvert.TimeStampToCdr: YYMMDDhhmmssShhmm, BCD (TS 32.298 5.1.5 TimeStamp),
   with its inverse and the round trip for every zone offset. *)
From Coq Require Import List ZArith Lia Bool ZifyBool.
From Verif Require Import Common.BytesLemmas.
Import ListNotations.
Open Scope Z_scope.

Ltac Zify.zify_post_hook ::= Z.div_mod_to_equations.

(* (byte(x/10) << 4) | byte(x%10) *)
Definition bcd (x : Z) : Z := Z.lor (((x / 10) mod 256 * 16) mod 256) ((x mod 10) mod 256).

(* broken-down local time and zone offset in seconds east of UTC *)
Definition ts_to_cdr (y mo d h mi s off : Z) : list Z :=
  let a := Z.abs off in
  [bcd (y mod 100); bcd mo; bcd d; bcd h; bcd mi; bcd s;
   (if off >=? 0 then 43 else 45);
   bcd (a / 3600); bcd (a mod 3600 / 60)].

Definition unbcd (b : Z) : option Z :=
  if (b / 16 <=? 9) && (b mod 16 <=? 9) && (0 <=? b) then Some (b / 16 * 10 + b mod 16) else None.

Definition ts_decode (bs : list Z) : option (Z * Z * Z * Z * Z * Z * bool * Z * Z) :=
  match bs with
  | [b0; b1; b2; b3; b4; b5; sg; b7; b8] =>
    match unbcd b0, unbcd b1, unbcd b2, unbcd b3, unbcd b4, unbcd b5, unbcd b7, unbcd b8 with
    | Some y, Some mo, Some d, Some h, Some mi, Some s, Some zh, Some zm =>
      if sg =? 43 then Some (y, mo, d, h, mi, s, true, zh, zm)
      else if sg =? 45 then Some (y, mo, d, h, mi, s, false, zh, zm)
      else None
    | _, _, _, _, _, _, _, _ => None
    end
  | _ => None
  end.

Definition two_digits (x : Z) : bool := (0 <=? x) && (x <? 100).
Definition ts_fields_ok (y mo d h mi s : Z) : bool :=
  (0 <=? y) && two_digits mo && two_digits d && two_digits h && two_digits mi && two_digits s.

Lemma bcd_val x : 0 <= x < 100 -> bcd x = x / 10 * 16 + x mod 10.
Proof.
  intros H. unfold bcd. rewrite !Z.mod_small by lia.
  change 16 with (2 ^ 4). apply lor_shift_add; [lia|]. change (2 ^ 4) with 16. lia.
Qed.

Lemma unbcd_bcd x : 0 <= x < 100 -> unbcd (bcd x) = Some x.
Proof.
  intros H. rewrite bcd_val by exact H. unfold unbcd.
  replace ((x / 10 * 16 + x mod 10) / 16) with (x / 10) by lia.
  replace ((x / 10 * 16 + x mod 10) mod 16) with (x mod 10) by lia.
  replace (x / 10 <=? 9) with true by lia. replace (x mod 10 <=? 9) with true by lia.
  replace (0 <=? x / 10 * 16 + x mod 10) with true by lia. cbn [andb]. f_equal. lia.
Qed.

Theorem ts_roundtrip y mo d h mi s off :
  ts_fields_ok y mo d h mi s = true -> -50400 <= off <= 50400 ->
  ts_decode (ts_to_cdr y mo d h mi s off) =
  Some (y mod 100, mo, d, h, mi, s, off >=? 0, Z.abs off / 3600, Z.abs off mod 3600 / 60).
Proof.
  unfold ts_fields_ok, two_digits. intros H Ho.
  repeat (apply andb_true_iff in H; destruct H as [H ?]).
  unfold ts_to_cdr, ts_decode.
  rewrite !unbcd_bcd by lia.
  destruct (off >=? 0) eqn:E; reflexivity.
Qed.
