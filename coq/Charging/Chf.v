(* Model of the charging core: internal/sbi/processor/converged_charging.go
   (ChargingDataCreate/Update/Release, sessionChargingReservation, NotifyRecharge),
   cdr.go (OpenCDR/UpdateCDR/CloseCDR/dumpCdrFile) and internal/context, on top of
   the server models of Servers.v.  Definitions only.

   Subscribers are numbers (the harness numbers its SUPIs "imsi-2089300<n>");
   consumer names and session references are ASCII strings (list Z).  The size
   of a record's BER encoding - which drives record splitting - is a parameter
   [rsize] of the step function: the correspondence instantiates it with the real
   encoder model (Ber.enc on the regenerated schema), the theorems hold for any. *)
From Coq Require Import List ZArith Bool.
From Verif Require Import Charging.Servers.
Import ListNotations.
Open Scope Z_scope.

(* ---- requests ---- *)

Record container := mkCont {
  k_qmi : Z;            (* quotaManagementIndicator: 1 ONLINE_CHARGING, 0 OFFLINE_CHARGING, 2 anything else *)
  k_total : Z; k_ul : Z; k_dl : Z; k_ssu : Z; k_lsn : Z }.

Record usage := mkUsage {
  g_rg : Z;
  g_req : option Z;                 (* requestedUnit.totalVolume, when requestedUnit present *)
  g_conts : list container }.

Record request := mkReq {
  r_supi : Z;
  r_supi_ok : bool;                 (* SUPI is "imsi-" + 5..15 digits *)
  r_consumer : option (list Z);     (* nfConsumerIdentification.nFName, when the member is present *)
  r_usages : list usage;
  r_triggers : list Z;              (* trigger types: 1 FINAL, 0 any other *)
  r_seq : Z; r_notify : Z; r_cid : Z }.

Inductive op :=
| Create (r : request)
| Update (ref : list Z) (r : request)
| Release (ref : list Z) (r : request)
| Recharge (supi rg : Z)            (* PUT /recharging/<supi>_<rg> *)
| Credit (supi rg amount : Z)       (* the operator tops the account up in the database *)
| Elapse (n : Z).                   (* n records are opened for subscribers outside the history: the
                                       CHF-wide record counter advances by n, nothing else changes *)

(* ---- state ---- *)

Definition amap := list (Z * Z).
Fixpoint aget (m : amap) (k : Z) (d : Z) : Z :=
  match m with [] => d | (k', v) :: r => if k' =? k then v else aget r k d end.
Fixpoint aset (m : amap) (k v : Z) : amap :=
  match m with
  | [] => [(k, v)]
  | (k', v') :: r => if k' =? k then (k, v) :: r else (k', v') :: aset r k v
  end.
Definition amem (m : amap) (k : Z) : bool := existsb (fun e => fst e =? k) m.

(* one used-unit container as recorded: rating group + the five recorded numbers *)
Definition entry := (Z * Z * Z * Z * Z * Z)%type.   (* rg, total, uplink, downlink, ssu, lsn *)

Record record := mkRec {
  rec_sid : list Z;          (* charging session reference (suffix after the SUPI) *)
  rec_supi : Z; rec_cid : Z; rec_consumer : list Z;
  rec_lrsn : Z;              (* localRecordSequenceNumber *)
  rec_usages : list (Z * list entry);   (* listOfMultipleUnitUsage: per reported unit usage, its rating group and containers *)
  rec_musage_nil : bool;     (* list still nil (never appended to, not reset by a split) *)
  rec_cause : Z;             (* causeForRecClosing *)
  rec_seq : option Z }.      (* recordSequenceNumber (partial records) *)

Record uectx := mkUe {
  u_supi : Z;
  u_rgs : list Z;
  u_reserved : amap; u_mode : amap; u_cost : amap; u_reqnum : amap;
  u_notify : Z;
  u_cdr : list (list Z * nat);      (* session reference -> index into u_records *)
  u_records : list record;
  u_sess : Z * Z }.                 (* Diameter session ids (Acct, Rate); not observable *)

Record world := mkWorld {
  w_db : db; w_ues : list uectx; w_lrsn : Z;
  w_files : list (Z * list record);   (* supi -> records of the last dumped CDR file *)
  w_notes : list (Z * Z * Z) }.       (* notifications sent: (notify uri, supi, rg) *)

Fixpoint find_ue (l : list uectx) (supi : Z) : option uectx :=
  match l with [] => None | u :: r => if u_supi u =? supi then Some u else find_ue r supi end.
Fixpoint put_ue (l : list uectx) (u : uectx) : list uectx :=
  match l with
  | [] => [u]
  | x :: r => if u_supi x =? u_supi u then u :: r else x :: put_ue r u
  end.

Fixpoint str_eqb (a b : list Z) : bool :=
  match a, b with
  | [], [] => true
  | x :: r, y :: s => (x =? y) && str_eqb r s
  | _, _ => false
  end.
Fixpoint cdr_find (m : list (list Z * nat)) (k : list Z) : option nat :=
  match m with [] => None | (k', i) :: r => if str_eqb k' k then Some i else cdr_find r k end.
Fixpoint cdr_set (m : list (list Z * nat)) (k : list Z) (i : nat) : list (list Z * nat) :=
  match m with
  | [] => [(k, i)]
  | (k', j) :: r => if str_eqb k' k then (k, i) :: r else (k', j) :: cdr_set r k i
  end.
Fixpoint cdr_del (m : list (list Z * nat)) (k : list Z) : list (list Z * nat) :=
  match m with
  | [] => []
  | (k', j) :: r => if str_eqb k' k then r else (k', j) :: cdr_del r k
  end.

Fixpoint list_set {A} (l : list A) (n : nat) (x : A) : list A :=
  match l, n with
  | [], _ => []
  | _ :: r, O => x :: r
  | y :: r, S k => y :: list_set r k x
  end.

(* strconv.Itoa *)
Fixpoint dec_digits (fuel : nat) (n : Z) (acc : list Z) : list Z :=
  match fuel with
  | O => acc
  | S k => let acc' := (48 + n mod 10) :: acc in
           if n / 10 =? 0 then acc' else dec_digits k (n / 10) acc'
  end.
Definition itoa (n : Z) : list Z :=
  if n <? 0 then 45 :: dec_digits 20 (- n) [] else dec_digits 20 n [].

(* chargingSessionId without the SUPI prefix: consumer ++ "-" ++ counter *)
Definition session_suffix (consumer : list Z) (lrsn : Z) : list Z := consumer ++ [45] ++ itoa lrsn.

(* ---- responses ---- *)

Record mui := mkMui { m_rg : Z; m_granted : option Z; m_fui : bool }.

Record resp := mkResp {
  rs_status : Z;
  rs_ref : list Z;           (* create: tail of the Location URI after the SUPI *)
  rs_seq : Z;                (* invocationSequenceNumber echoed (-1: no body) *)
  rs_mui : list mui }.

Definition reject (code : Z) : resp := mkResp code [] (-1) [].

(* ---- credit control for one reported unit usage (body of the loop of
   sessionChargingReservation) ---- *)

Definition total_used (cs : list container) : Z :=
  fold_left (fun acc k => if k_qmi k =? 1 then u32 (acc + u32 (k_total k)) else acc) cs 0.
Definition has_online (cs : list container) : bool := existsb (fun k => k_qmi k =? 1) cs.

(* the trigger loop, run once per ONLINE container: (mode, partial) *)
Definition trig_loop (triggers : list Z) (st : Z * bool) : Z * bool :=
  fold_left (fun s t => if t =? 1 then (2, false) else (fst s, true)) triggers st.
Definition trig_all (cs : list container) (triggers : list Z) (st : Z * bool) : Z * bool :=
  fold_left (fun s k => if k_qmi k =? 1 then trig_loop triggers s else s) cs st.

(* getUnitCost: a RESERVE request with quota 0; 1 when the server does not answer *)
Definition get_unit_cost (d : db) (supi rg : Z) : Z :=
  match rf_sur d (mkSur true supi true rg 1 0 0 0) with
  | Answer a => chf_unit_cost a
  | NoAnswer => 1
  end.

Record rgstate := mkRg { q_reserved : Z; q_mode : Z; q_cost : Z; q_reqnum : Z }.

(* returns the new database, the new per-rating-group state, and the
   MultipleUnitInformation entry when one is produced *)
Definition charge_rg (d : db) (supi rg : Z) (st : rgstate) (req : option Z) (used : Z)
  : db * rgstate * option mui :=
  if q_mode st =? 1 then
    let cost := get_unit_cost d supi rg in
    let used_q := u32 (used * cost) in
    let req_vol := match req with Some v => u32 v | None => 0 end in
    let req_q := u32 (req_vol * cost) in
    let res1 := wrap64 (q_reserved st - used_q) in
    let st1 := mkRg res1 1 cost (q_reqnum st) in
    (* top the reservation up to the requested quota *)
    let after_reserve :=
      if res1 <? req_q then
        match abmf_ccr d (mkCcr true supi true rg 0 2 (q_reqnum st) 0 (Some (u64 (req_q - res1))) None) with
        | (d', Answer a) =>
          let g := match a_granted a with Some g => g | None => 0 end in
          Some (d', wrap64 (res1 + wrap64 g), a_fui a)
        | (_, NoAnswer) => None
        end
      else Some (d, res1, false) in
    match after_reserve with
    | None => (d, st1, None)                       (* `continue`: nothing more for this rating group *)
    | Some (d', res2, fui) =>
      let mode2 := if fui then 2 else 1 in
      let mq := if res2 <=? 0 then 0 else if res2 <? req_q then res2 else req_q in
      match rf_sur d' (mkSur true supi true rg 1 0 (u32 mq) 0) with
      | NoAnswer => (d', mkRg res2 mode2 cost (q_reqnum st), None)
      | Answer a =>
        let cost2 := get_unit_cost d' supi rg in
        let granted := Z.min (u_allowed a) req_vol in
        (d', mkRg res2 mode2 cost2 (u32 (q_reqnum st + 1)), Some (mkMui rg (Some granted) fui))
      end
    end
  else if q_mode st =? 2 then
    match rf_sur d (mkSur true supi true rg 2 used 0 0) with
    | NoAnswer => (d, st, None)
    | Answer a =>
      let price := u_price a in
      let refund := price <? q_reserved st in
      let c := if refund
               then mkCcr true supi true rg 1 0 (q_reqnum st) 0 (Some (u64 (q_reserved st - price))) None
               else mkCcr true supi true rg 0 3 (q_reqnum st) 0 None (Some (u64 (price - q_reserved st))) in
      let mode' := if refund then 1 else 2 in
      match abmf_ccr d c with
      | (_, NoAnswer) => (d, mkRg (q_reserved st) mode' (q_cost st) (q_reqnum st), None)
      | (d', Answer _) =>
        (d', mkRg 0 mode' (q_cost st) (u32 (q_reqnum st + 1)), Some (mkMui rg (Some 0) true))   (* debit mode: no grant, final unit *)
      end
    end
  else (d, mkRg (q_reserved st) (q_mode st) (q_cost st) (u32 (q_reqnum st + 1)), Some (mkMui rg None false)).

Definition rg_get (u : uectx) (rg : Z) : rgstate :=
  mkRg (aget (u_reserved u) rg 0) (aget (u_mode u) rg 0) (aget (u_cost u) rg 0) (aget (u_reqnum u) rg 0).
(* sessionChargingReservation for a whole request *)
Definition charge_usage (acc : db * uectx * list mui * bool) (triggers : list Z) (g : usage)
  : db * uectx * list mui * bool :=
  let '(d, u, muis, partial) := acc in
  let rg := g_rg g in
  (* a rating group seen for the first time starts in RESERVE mode *)
  let u1 := if existsb (Z.eqb rg) (u_rgs u) then u
            else mkUe (u_supi u) (u_rgs u ++ [rg]) (u_reserved u) (aset (u_mode u) rg 1) (u_cost u) (u_reqnum u)
                      (u_notify u) (u_cdr u) (u_records u) (u_sess u) in
  let '(mode1, partial1) := trig_all (g_conts g) triggers (aget (u_mode u1) rg 0, partial) in
  let u2 := if has_online (g_conts g)
            then mkUe (u_supi u1) (u_rgs u1) (u_reserved u1) (aset (u_mode u1) rg mode1) (u_cost u1) (u_reqnum u1)
                      (u_notify u1) (u_cdr u1) (u_records u1) (u_sess u1)
            else u1 in
  if negb (has_online (g_conts g)) then (d, u2, muis, partial1)
  else
    let st := rg_get u2 rg in
    let '(d', st', m) := charge_rg d (u_supi u) rg st (g_req g) (total_used (g_conts g)) in
    (* map entries with value 0 and absent entries are not distinguished (see CorrChf.v) *)
    let u3 := mkUe (u_supi u2) (u_rgs u2)
                   (aset (u_reserved u2) rg (q_reserved st'))
                   (aset (u_mode u2) rg (q_mode st'))
                   (aset (u_cost u2) rg (q_cost st'))
                   (aset (u_reqnum u2) rg (q_reqnum st'))
                   (u_notify u2) (u_cdr u2) (u_records u2) (u_sess u2) in
    (d', u3, muis ++ match m with Some x => [x] | None => [] end, partial1).

Definition charge_request (d : db) (u : uectx) (r : request) : db * uectx * list mui * bool :=
  fold_left (fun acc g => charge_usage acc (r_triggers r) g) (r_usages r) (d, u, [], false).

(* ---- CDR handling ---- *)

Definition cont_entry (rg : Z) (k : container) : entry :=
  (rg, k_total k, k_ul k, k_dl k, k_ssu k, k_lsn k).
(* MultiUnitUsageToCdr: every reported unit usage and every container, online or not *)
Definition usages_to_cdr (us : list usage) : list (Z * list entry) :=
  map (fun g => (g_rg g, map (cont_entry (g_rg g)) (g_conts g))) us.

Definition update_cdr (rec : record) (r : request) : record :=
  match r_usages r with
  | [] => rec
  | us => mkRec (rec_sid rec) (rec_supi rec) (rec_cid rec) (rec_consumer rec) (rec_lrsn rec)
                (rec_usages rec ++ usages_to_cdr us) false (rec_cause rec) (rec_seq rec)
  end.

Definition set_cause (rec : record) (c : Z) : record :=
  mkRec (rec_sid rec) (rec_supi rec) (rec_cid rec) (rec_consumer rec) (rec_lrsn rec)
        (rec_usages rec) (rec_musage_nil rec) c (rec_seq rec).
Definition set_seq (rec : record) (s : Z) : record :=
  mkRec (rec_sid rec) (rec_supi rec) (rec_cid rec) (rec_consumer rec) (rec_lrsn rec)
        (rec_usages rec) (rec_musage_nil rec) (rec_cause rec) (Some s).

Fixpoint files_set (fs : list (Z * list record)) (supi : Z) (rs : list record) : list (Z * list record) :=
  match fs with
  | [] => [(supi, rs)]
  | (s, x) :: r => if s =? supi then (s, rs) :: r else (s, x) :: files_set r supi rs
  end.

Section Step.
  (* size of the BER encoding of a record, and of a standalone list of unit usages *)
  Variable rsize : record -> Z.
  Variable usize : list (Z * list entry) -> Z.

  Definition fresh_ue (supi : Z) : uectx := mkUe supi [] [] [] [] [] 0 [] [] (0, 0).

  Definition do_create (w : world) (r : request) : world * resp :=
    match r_consumer r with
    | None => (w, reject 400)
    | Some consumer =>
      let found := find_ue (w_ues w) (r_supi r) in
      if (match found with Some _ => false | None => negb (r_supi_ok r) end) then (w, reject 400)
      else
        let u := match found with Some u0 => u0 | None => fresh_ue (r_supi r) end in
        let sid := session_suffix consumer (w_lrsn w) in
        let lrsn' := u64 (w_lrsn w + 1) in
        let rec0 := mkRec sid (r_supi r) (r_cid r) consumer (wrap64 lrsn') [] true 0 None in   (* int64(counter) in the record *)
        let rec1 := update_cdr rec0 r in
        let idx := length (u_records u) in
        let u' := mkUe (u_supi u) (u_rgs u) (u_reserved u) (u_mode u) (u_cost u) (u_reqnum u) (r_notify r)
                       (cdr_set (u_cdr u) sid idx) (u_records u ++ [rec1]) (u_sess u) in
        (mkWorld (w_db w) (put_ue (w_ues w) u') lrsn' (w_files w) (w_notes w),
         mkResp 201 sid (r_seq r) [])
    end.

  Definition do_update (w : world) (ref : list Z) (r : request) : world * resp :=
    match find_ue (w_ues w) (r_supi r) with
    | None => (w, reject 400)
    | Some u =>
      match cdr_find (u_cdr u) ref with
      | None => (w, reject 404)
      | Some idx =>
        match nth_error (u_records u) idx with
        | None => (w, reject 404)
        | Some rec =>
          let '(d', u1, muis, partial) := charge_request (w_db w) u r in
          let chg := match r_usages r with [] => 0 | us => usize (usages_to_cdr us) end in
          (* split when the record would pass the 16-bit length *)
          let '(u2, idx2, rec2) :=
            if rsize rec + chg >? 65535 then
              let nrec := mkRec (rec_sid rec) (rec_supi rec) (rec_cid rec) (rec_consumer rec) (rec_lrsn rec)
                                [] false (rec_cause rec) (rec_seq rec) in
              let i := length (u_records u1) in
              (mkUe (u_supi u1) (u_rgs u1) (u_reserved u1) (u_mode u1) (u_cost u1) (u_reqnum u1) (u_notify u1)
                    (cdr_set (u_cdr u1) ref i) (u_records u1 ++ [nrec]) (u_sess u1), i, nrec)
            else (u1, idx, rec) in
          let rec3 := update_cdr rec2 r in
          let rec4 := if partial then set_seq (set_cause rec3 1) 1 else rec3 in
          let u3 := mkUe (u_supi u2) (u_rgs u2) (u_reserved u2) (u_mode u2) (u_cost u2) (u_reqnum u2) (u_notify u2)
                         (u_cdr u2) (list_set (u_records u2) idx2 rec4) (u_sess u2) in
          (mkWorld d' (put_ue (w_ues w) u3) (w_lrsn w) (files_set (w_files w) (r_supi r) (u_records u3)) (w_notes w),
           mkResp 200 [] (r_seq r) muis)
        end
      end
    end.

  Definition do_release (w : world) (ref : list Z) (r : request) : world * resp :=
    match find_ue (w_ues w) (r_supi r) with
    | None => (w, reject 400)
    | Some u =>
      match cdr_find (u_cdr u) ref with
      | None => (w, reject 404)
      | Some idx =>
        match nth_error (u_records u) idx with
        | None => (w, reject 404)
        | Some rec =>
          let '(d', u1, _, _) := charge_request (w_db w) u r in
          let rec2 := set_cause (update_cdr rec r) 0 in
          let u2 := mkUe (u_supi u1) (u_rgs u1) (u_reserved u1) (u_mode u1) (u_cost u1) (u_reqnum u1) (u_notify u1)
                         (cdr_del (u_cdr u1) ref) (list_set (u_records u1) idx rec2) (u_sess u1) in
          (mkWorld d' (put_ue (w_ues w) u2) (w_lrsn w) (files_set (w_files w) (r_supi r) [rec2]) (w_notes w),
           mkResp 204 [] (-1) [])
        end
      end
    end.

  Definition do_recharge (w : world) (supi rg : Z) : world * resp :=
    match find_ue (w_ues w) supi with
    | None => (w, mkResp 204 [] (-1) [])
    | Some u =>
      let u' := mkUe (u_supi u) (u_rgs u) (u_reserved u) (aset (u_mode u) rg 1) (u_cost u) (u_reqnum u) (u_notify u)
                     (u_cdr u) (u_records u) (u_sess u) in
      (* no notification URI registered (-1): the POST has nowhere to go *)
      (mkWorld (w_db w) (put_ue (w_ues w) u') (w_lrsn w) (w_files w)
               (if u_notify u <? 0 then w_notes w else w_notes w ++ [(u_notify u, supi, rg)]),
       mkResp 204 [] (-1) [])
    end.

  Definition do_credit (w : world) (supi rg amount : Z) : world * resp :=
    match lookup (w_db w) supi rg with
    | None => (w, mkResp 0 [] (-1) [])
    | Some x => (mkWorld (set_quota (w_db w) supi rg (d_quota x + amount)) (w_ues w) (w_lrsn w) (w_files w) (w_notes w),
                 mkResp 0 [] (-1) [])
    end.

  Definition step (w : world) (o : op) : world * resp :=
    match o with
    | Create r => do_create w r
    | Update ref r => do_update w ref r
    | Release ref r => do_release w ref r
    | Recharge supi rg => do_recharge w supi rg
    | Credit supi rg a => do_credit w supi rg a
    | Elapse n => (mkWorld (w_db w) (w_ues w) (u64 (w_lrsn w + Z.max 0 n)) (w_files w) (w_notes w), mkResp 0 [] (-1) [])
    end.

  Definition run (w : world) (ops : list op) : world := fold_left (fun w o => fst (step w o)) ops w.
End Step.
