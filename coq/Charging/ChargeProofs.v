(* The accounting core: one credit-control round for one rating group
   ([charge_rg], the loop body of sessionChargingReservation) conserves credit
   (C01) and never grants more than the reserved money buys (C06). *)
From Coq Require Import List ZArith Lia Bool ZifyBool.
From Verif Require Import Charging.Servers Charging.ServersProofs Charging.Chf.
Import ListNotations.
Open Scope Z_scope.

Ltac Zify.zify_post_hook ::= Z.div_mod_to_equations.

#[local] Arguments Z.add : simpl never.
#[local] Arguments Z.sub : simpl never.
#[local] Arguments Z.mul : simpl never.
#[local] Arguments Z.opp : simpl never.
#[local] Arguments Z.modulo : simpl never.
#[local] Arguments Z.div : simpl never.
#[local] Arguments Z.pow : simpl never.
#[local] Arguments Z.ltb : simpl never.
#[local] Arguments Z.gtb : simpl never.
#[local] Arguments Z.leb : simpl never.
#[local] Arguments wrap64 : simpl never.
#[local] Arguments u64 : simpl never.
#[local] Arguments u32 : simpl never.
#[local] Arguments remaining : simpl never.
#[local] Arguments rf_sur : simpl never.
#[local] Arguments set_quota : simpl never.
#[local] Arguments lookup : simpl never.

(* the unit cost in force for an account *)
Definition cost_of (x : doc) : Z := unit_cost (fst (tariff (d_cost x))) (snd (tariff (d_cost x))).

Lemma get_unit_cost_known d supi rg x :
  lookup d supi rg = Some x -> get_unit_cost d supi rg = cost_of x.
Proof.
  intros Hl. unfold get_unit_cost.
  assert (K : known_sur d (mkSur true supi true rg 1 0 0 0) x) by (repeat split; exact Hl).
  destruct (rf_answers _ _ _ K) as [a [Ha _]]. rewrite Ha.
  apply (rf_cost_agrees _ _ _ _ K Ha).
Qed.

Lemma cost_of_range x : 0 <= cost_of x < 4294967296.
Proof. apply unit_cost_range. Qed.

(* hypotheses under which no fixed-width operation wraps in one round *)
Record round_ok (q R cost used reqv : Z) : Prop := {
  ok_q : - 2 ^ 61 < q < 2 ^ 61;
  ok_R : - 2 ^ 61 < R < 2 ^ 61;
  ok_used : 0 <= used < 2 ^ 31;
  ok_reqv : 0 <= reqv < 2 ^ 31;
  ok_cost : 0 < cost;
  ok_pu : used * cost < 2 ^ 32;           (* the products fit the Unsigned32 AVPs *)
  ok_pr : reqv * cost < 2 ^ 32 }.

Definition reqv_of (req : option Z) : Z := match req with Some v => v | None => 0 end.

Lemma set_quota_same_cost d supi rg q x :
  lookup d supi rg = Some x ->
  exists y, lookup (set_quota d supi rg q) supi rg = Some y /\ d_quota y = q /\ d_cost y = d_cost x.
Proof.
  intros H. rewrite (lookup_set_same _ _ _ _ _ H). eexists. repeat split.
Qed.

(* C01, one round: whatever the mode (reserve or debit), the balance plus the
   reservation drops by exactly unit cost x reported usage *)
Theorem charge_rg_conserves d supi rg x st req used :
  lookup d supi rg = Some x -> (q_mode st = 1 \/ q_mode st = 2) ->
  round_ok (d_quota x) (q_reserved st) (cost_of x) used (reqv_of req) ->
  let '(d', st', _) := charge_rg d supi rg st req used in
  bal d' supi rg = Some (d_quota x + q_reserved st - cost_of x * used - q_reserved st') /\
  (forall ue' rg', (ue', rg') <> (supi, rg) -> bal d' ue' rg' = bal d ue' rg').
Proof.
  intros Hl Hm [Hq HR Hu Hv Hc Hpu Hpr].
  change (2 ^ 61) with 2305843009213693952 in *. change (2 ^ 31) with 2147483648 in *.
  change (2 ^ 32) with 4294967296 in *.
  pose proof (get_unit_cost_known d supi rg x Hl) as Hcost.
  set (cost := cost_of x) in *. set (q := d_quota x) in *. set (R := q_reserved st) in *.
  assert (Hbal : bal d supi rg = Some q) by (unfold bal; rewrite Hl; reflexivity).
  unfold charge_rg. destruct Hm as [Hm|Hm]; rewrite Hm; cbn [Z.eqb Pos.eqb].
  - (* RESERVE *)
    rewrite Hcost. fold R.
    assert (Ev : (match req with Some v => u32 v | None => 0 end) = reqv_of req).
    { destruct req; cbn [reqv_of] in *; [apply u32_id; lia | reflexivity]. }
    rewrite Ev. set (v := reqv_of req) in *.
    rewrite (u32_id (used * cost)) by lia. rewrite (u32_id (v * cost)) by lia.
    rewrite (wrap64_id (R - used * cost)) by lia.
    set (res1 := R - used * cost). set (rq := v * cost).
    destruct (res1 <? rq) eqn:En.
    + (* a reservation is needed: ask the ABMF for rq - res1 *)
      unfold abmf_ccr. cbn. rewrite Hl. cbn. fold q.
      rewrite (u64_id (rq - res1)) by lia. rewrite (wrap64_id (rq - res1)) by lia.
      destruct (rq - res1 >? q) eqn:Eg.
      * destruct (remaining (wrap64 (q - q))) as [rd re].
        cbn [a_granted a_fui]. rewrite (wrap64_id (q - q)) by lia.
        destruct (set_quota_same_cost d supi rg (q - q) x Hl) as [y [Hy [Hyq Hyc]]].
        assert (Wq : wrap64 (res1 + wrap64 (u64 q)) = res1 + q).
        { unfold wrap64, u64. lia. }
        rewrite Wq.
        destruct (rf_sur _ _) as [a|]; cbn [fst snd].
        -- split; [rewrite (bal_set_same _ _ _ _ _ Hl); f_equal; cbn [q_reserved]; lia|].
           intros ue' rg' Hne. apply bal_set_other, Hne.
        -- split; [rewrite (bal_set_same _ _ _ _ _ Hl); f_equal; cbn [q_reserved]; lia|].
           intros ue' rg' Hne. apply bal_set_other, Hne.
      * destruct (remaining (wrap64 (q - (rq - res1)))) as [rd re].
        cbn [a_granted a_fui]. rewrite (wrap64_id (q - (rq - res1))) by lia.
        rewrite (u64_id (rq - res1)) by lia. rewrite (wrap64_id (rq - res1)) by lia.
        rewrite (wrap64_id (res1 + (rq - res1))) by lia.
        destruct (rf_sur _ _) as [a|]; cbn [fst snd].
        -- split; [rewrite (bal_set_same _ _ _ _ _ Hl); f_equal; cbn [q_reserved]; lia|].
           intros ue' rg' Hne. apply bal_set_other, Hne.
        -- split; [rewrite (bal_set_same _ _ _ _ _ Hl); f_equal; cbn [q_reserved]; lia|].
           intros ue' rg' Hne. apply bal_set_other, Hne.
    + destruct (rf_sur _ _) as [a|]; cbn [fst snd].
      * split; [rewrite Hbal; f_equal; cbn [q_reserved]; lia | intros; reflexivity].
      * split; [rewrite Hbal; f_equal; cbn [q_reserved]; lia | intros; reflexivity].
  - (* DEBIT *)
    assert (K : known_sur d (mkSur true supi true rg 2 used 0 0) x) by (repeat split; exact Hl).
    destruct (rf_answers _ _ _ K) as [a [Ha _]]. rewrite Ha.
    assert (Hp : u_price a = used * cost).
    { pose proof (rf_cost_agrees _ _ _ _ K Ha) as Hca. fold (cost_of x) in Hca. fold cost in Hca.
      pose proof (rf_debit d _ x a K eq_refl Ha) as P. cbn [s_consumed] in P. rewrite Hca in P. apply P; lia. }
    rewrite Hp. fold R.
    destruct (used * cost <? R) eqn:Er.
    + (* refund the unused part of the reservation *)
      unfold abmf_ccr. cbn. rewrite Hl. cbn. fold q.
      rewrite (u64_id (R - used * cost)) by lia. rewrite (wrap64_id (R - used * cost)) by lia.
      rewrite (wrap64_id (q + (R - used * cost))) by lia.
      destruct (remaining (q + (R - used * cost))) as [rd re]. cbn [fst snd].
      split; [rewrite (bal_set_same _ _ _ _ _ Hl); f_equal; cbn [q_reserved]; lia|].
      intros ue' rg' Hne. apply bal_set_other, Hne.
    + (* debit what was used beyond the reservation *)
      unfold abmf_ccr. cbn. rewrite Hl. cbn. fold q.
      rewrite (u64_id (used * cost - R)) by lia. rewrite (wrap64_id (used * cost - R)) by lia.
      rewrite (wrap64_id (q - (used * cost - R))) by lia.
      destruct (remaining (q - (used * cost - R))) as [rd re]. cbn [fst snd].
      split; [rewrite (bal_set_same _ _ _ _ _ Hl); f_equal; cbn [q_reserved]; lia|].
      intros ue' rg' Hne. apply bal_set_other, Hne.
Qed.

Ltac ifs := repeat match goal with |- context [if ?b then _ else _] => destruct b eqn:? end; try lia.

(* C06, one round in RESERVE mode: the granted volume is exactly what the money
   available (balance + unconsumed reservation) buys, capped by the request; a
   final-unit indication is given exactly when that money buys less than the
   request; the balance stays non-negative and the grant is backed by the
   reservation left after the round. *)
Theorem charge_rg_grant d supi rg x st req used :
  lookup d supi rg = Some x -> q_mode st = 1 -> 0 <= d_quota x ->
  round_ok (d_quota x) (q_reserved st) (cost_of x) used (reqv_of req) ->
  let money := d_quota x + (q_reserved st - cost_of x * used) in
  let '(d', st', m) := charge_rg d supi rg st req used in
  exists mu g, m = Some mu /\ m_granted mu = Some g /\
    g = Z.min (Z.max 0 (Z.min money (reqv_of req * cost_of x)) / cost_of x) (reqv_of req) /\
    m_fui mu = (money <? reqv_of req * cost_of x) /\
    cost_of x * g <= Z.max 0 (q_reserved st') /\
    (exists b, bal d' supi rg = Some b /\ 0 <= b <= d_quota x).
Proof.
  intros Hl Hm Hq0 [Hq HR Hu Hv Hc Hpu Hpr].
  change (2 ^ 61) with 2305843009213693952 in *. change (2 ^ 31) with 2147483648 in *.
  change (2 ^ 32) with 4294967296 in *.
  pose proof (get_unit_cost_known d supi rg x Hl) as Hcost.
  set (cost := cost_of x) in *. set (q := d_quota x) in *. set (R := q_reserved st) in *.
  assert (Hbal : bal d supi rg = Some q) by (unfold bal; rewrite Hl; reflexivity).
  cbv zeta. unfold charge_rg. rewrite Hm. cbn [Z.eqb Pos.eqb]. rewrite Hcost. fold R.
  assert (Ev : (match req with Some v => u32 v | None => 0 end) = reqv_of req).
  { destruct req; cbn [reqv_of] in *; [apply u32_id; lia | reflexivity]. }
  rewrite Ev. set (v := reqv_of req) in *.
  rewrite (u32_id (used * cost)) by lia. rewrite (u32_id (v * cost)) by lia.
  rewrite (wrap64_id (R - used * cost)) by lia.
  replace (R - cost * used) with (R - used * cost) by lia.
  set (res1 := R - used * cost). set (rq := v * cost).
  assert (Hrq : 0 <= rq < 4294967296) by (unfold rq; nia).
  (* the rating answer for a monetary quota mq *)
  assert (RF : forall d1 y mq, lookup d1 supi rg = Some y -> d_cost y = d_cost x -> 0 <= mq < 4294967296 ->
             exists a, rf_sur d1 (mkSur true supi true rg 1 0 (u32 mq) 0) = Answer a /\ u_allowed a = mq / cost).
  { intros d1 y mq Hy Hyc Hmq.
    assert (K : known_sur d1 (mkSur true supi true rg 1 0 (u32 mq) 0) y) by (repeat split; exact Hy).
    destruct (rf_answers _ _ _ K) as [a [Ha _]]. exists a. split; [exact Ha|].
    pose proof (rf_cost_agrees _ _ _ _ K Ha) as Hca. rewrite Hyc in Hca. fold (cost_of x) in Hca. fold cost in Hca.
    destruct (rf_reserve d1 _ y a K eq_refl Ha) as [A _]; cbn [s_quota]; rewrite ?Hca, ?u32_id; try lia.
    rewrite A. cbn [s_quota]. rewrite Hca, u32_id by lia. reflexivity. }
  destruct (res1 <? rq) eqn:En.
  - unfold abmf_ccr. cbn. rewrite Hl. cbn. fold q.
    rewrite (u64_id (rq - res1)) by lia. rewrite (wrap64_id (rq - res1)) by lia.
    destruct (rq - res1 >? q) eqn:Eg.
    + destruct (remaining (wrap64 (q - q))) as [rd re]. cbn.
      rewrite (wrap64_id (q - q)) by lia.
      assert (Wq : wrap64 (res1 + wrap64 (u64 q)) = res1 + q) by (unfold wrap64, u64; lia).
      rewrite Wq.
      destruct (set_quota_same_cost d supi rg (q - q) x Hl) as [y [Hy [Hyq Hyc]]].
      set (mq := if res1 + q <=? 0 then 0 else if res1 + q <? rq then res1 + q else rq).
      destruct (RF _ y mq Hy Hyc ltac:(unfold mq; ifs)) as [a [Ha Hal]]. rewrite Ha. cbn.
      eexists. eexists. split; [reflexivity|]. cbn.
      split; [reflexivity|]. rewrite Hal.
      split; [unfold mq; f_equal; f_equal; ifs|].
      split; [lia|].
      split.
      * assert (0 <= mq) by (unfold mq; ifs).
        assert (0 <= mq / cost) by (apply Z.div_pos; lia).
        assert (cost * (mq / cost) <= mq) by (apply Z.mul_div_le; lia).
        assert (mq <= Z.max 0 (res1 + q)) by (unfold mq; ifs). nia.
      * exists (q - q). split; [apply (bal_set_same _ _ _ _ _ Hl) | lia].
    + destruct (remaining (wrap64 (q - (rq - res1)))) as [rd re]. cbn.
      rewrite (wrap64_id (q - (rq - res1))) by lia.
      rewrite (u64_id (rq - res1)) by lia. rewrite (wrap64_id (rq - res1)) by lia.
      rewrite (wrap64_id (res1 + (rq - res1))) by lia.
      replace (res1 + (rq - res1)) with rq by lia.
      destruct (set_quota_same_cost d supi rg (q - (rq - res1)) x Hl) as [y [Hy [Hyq Hyc]]].
      set (mq := if rq <=? 0 then 0 else if rq <? rq then rq else rq).
      destruct (RF _ y mq Hy Hyc ltac:(unfold mq; ifs)) as [a [Ha Hal]]. rewrite Ha. cbn.
      eexists. eexists. split; [reflexivity|]. cbn.
      split; [reflexivity|]. rewrite Hal.
      assert (Emq : mq = rq) by (unfold mq; ifs).
      assert (Ediv : rq / cost = v) by (unfold rq; apply Z.div_mul; lia).
      split; [rewrite Emq; f_equal; f_equal; lia|].
      split; [lia|].
      split; [rewrite Emq, Ediv; unfold rq; nia|].
      exists (q - (rq - res1)). split; [apply (bal_set_same _ _ _ _ _ Hl) | lia].
  - set (mq := if res1 <=? 0 then 0 else if res1 <? rq then res1 else rq).
    destruct (RF d x mq Hl eq_refl ltac:(unfold mq; ifs)) as [a [Ha Hal]]. rewrite Ha. cbn.
    eexists. eexists. split; [reflexivity|]. cbn.
    split; [reflexivity|]. rewrite Hal.
    assert (Emq : mq = rq) by (unfold mq; ifs).
    assert (Ediv : rq / cost = v) by (unfold rq; apply Z.div_mul; lia).
    split; [rewrite Emq; f_equal; f_equal; lia|].
    split; [lia|].
    split; [rewrite Emq, Ediv; unfold rq; nia|].
    exists q. split; [exact Hbal | lia].
Qed.

(* C06, one round in DEBIT mode: when the reported usage is covered by the
   reservation (a compliant consumer: used <= last grant, and grants are backed by
   the reservation), nothing is debited from the account: only the remainder of
   the reservation is refunded *)
Theorem charge_rg_debit_no_overdraft d supi rg x st req used :
  lookup d supi rg = Some x -> q_mode st = 2 -> 0 <= d_quota x ->
  round_ok (d_quota x) (q_reserved st) (cost_of x) used (reqv_of req) ->
  cost_of x * used <= q_reserved st ->
  let '(d', st', _) := charge_rg d supi rg st req used in
  bal d' supi rg = Some (d_quota x + (q_reserved st - cost_of x * used)) /\ q_reserved st' = 0.
Proof.
  intros Hl Hm Hq0 Hok Hcov.
  pose proof (charge_rg_conserves d supi rg x st req used Hl (or_intror Hm) Hok) as C.
  destruct Hok as [Hq HR Hu Hv Hc Hpu Hpr].
  change (2 ^ 61) with 2305843009213693952 in *. change (2 ^ 31) with 2147483648 in *.
  change (2 ^ 32) with 4294967296 in *.
  unfold charge_rg in *. rewrite Hm in *. cbn [Z.eqb Pos.eqb] in *.
  assert (K : known_sur d (mkSur true supi true rg 2 used 0 0) x) by (repeat split; exact Hl).
  destruct (rf_answers _ _ _ K) as [a [Ha _]]. rewrite Ha in *.
  destruct (u_price a <? q_reserved st);
    unfold abmf_ccr in *; cbn in *; rewrite Hl in *; cbn in *;
    match goal with |- context [remaining ?z] => destruct (remaining z) end; cbn in *;
    destruct C as [C _]; split; try reflexivity; rewrite C; f_equal; cbn; lia.
Qed.

(* debit mode: whatever is settled, no unit is granted and the answer says it was the final unit *)
Theorem charge_rg_debit_final d supi rg st req used d' st' mu :
  q_mode st = 2 -> charge_rg d supi rg st req used = (d', st', Some mu) ->
  m_granted mu = Some 0 /\ m_fui mu = true.
Proof.
  intros Hm. unfold charge_rg. rewrite Hm. cbn [Z.eqb Pos.eqb].
  destruct (rf_sur d _) as [a|]; [|discriminate].
  match goal with |- context [abmf_ccr d ?c] => destruct (abmf_ccr d c) as [d1 [b|]] end; [|discriminate].
  intros H. inversion H; subst. split; reflexivity.
Qed.
