(* Proofs about the ABMF and RF server models (C07, C08). *)
From Coq Require Import List ZArith Lia Bool ZifyBool.
From Verif Require Import Charging.Servers.
Import ListNotations.
Open Scope Z_scope.

Ltac Zify.zify_post_hook ::= Z.div_mod_to_equations.

Lemma wrap64_id x : - 9223372036854775808 <= x < 9223372036854775808 -> wrap64 x = x.
Proof. unfold wrap64. lia. Qed.
Lemma u64_id x : 0 <= x < 18446744073709551616 -> u64 x = x.
Proof. unfold u64. lia. Qed.
Lemma u32_id x : 0 <= x < 4294967296 -> u32 x = x.
Proof. unfold u32. lia. Qed.

Lemma lookup_set_same d ue rg q x :
  lookup d ue rg = Some x ->
  lookup (set_quota d ue rg q) ue rg = Some (mkDoc (d_ue x) (d_rg x) q (d_cost x)).
Proof.
  induction d as [|y d IH]; cbn [lookup set_quota]; [discriminate|].
  destruct ((d_ue y =? ue) && (d_rg y =? rg)) eqn:E; intros H.
  - inversion H; subst. cbn [lookup d_ue d_rg]. rewrite E. reflexivity.
  - cbn [lookup]. rewrite E. apply IH, H.
Qed.

Lemma lookup_set_other d ue rg q ue' rg' :
  (ue', rg') <> (ue, rg) -> lookup (set_quota d ue rg q) ue' rg' = lookup d ue' rg'.
Proof.
  intros Hne. induction d as [|y d IH]; cbn [lookup set_quota]; [reflexivity|].
  destruct ((d_ue y =? ue) && (d_rg y =? rg)) eqn:E.
  - cbn [lookup d_ue d_rg]. destruct ((d_ue y =? ue') && (d_rg y =? rg')) eqn:E'; [|reflexivity].
    exfalso. apply Hne. f_equal; lia.
  - cbn [lookup]. destruct ((d_ue y =? ue') && (d_rg y =? rg')); [reflexivity | exact IH].
Qed.

Lemma lookup_set_none d ue rg q : lookup d ue rg = None -> set_quota d ue rg q = d.
Proof.
  induction d as [|y d IH]; cbn [lookup set_quota]; [reflexivity|].
  destruct ((d_ue y =? ue) && (d_rg y =? rg)); [discriminate|]. intros H. f_equal. apply IH, H.
Qed.

Definition bal (d : db) (ue rg : Z) : option Z :=
  match lookup d ue rg with Some x => Some (d_quota x) | None => None end.

Lemma bal_set_same d ue rg q x : lookup d ue rg = Some x -> bal (set_quota d ue rg q) ue rg = Some q.
Proof. intros H. unfold bal. rewrite (lookup_set_same _ _ _ _ _ H). reflexivity. Qed.
Lemma bal_set_other d ue rg q ue' rg' :
  (ue', rg') <> (ue, rg) -> bal (set_quota d ue rg q) ue' rg' = bal d ue' rg'.
Proof. intros H. unfold bal. rewrite lookup_set_other by exact H. reflexivity. Qed.

Definition valid_req (c : ccr) : Prop := c_has_sub c = true /\ c_has_mscc c = true.
Definition in63 (a : Z) : Prop := 0 <= a < 9223372036854775808.

(* ---- C07 ---- *)

(* reservation: INITIAL/UPDATE with DIRECT_DEBITING *)
Theorem abmf_reserve d c x a :
  valid_req c -> lookup d (c_ue c) (c_rg c) = Some x ->
  c_action c = 0 -> (c_type c = 1 \/ c_type c = 2) -> c_requested c = Some a ->
  in63 a -> in63 (d_quota x) ->
  exists d' ans, abmf_ccr d c = (d', Answer ans) /\
    a_granted ans = Some (Z.min a (d_quota x)) /\
    bal d' (c_ue c) (c_rg c) = Some (d_quota x - Z.min a (d_quota x)) /\
    0 <= d_quota x - Z.min a (d_quota x) /\
    a_fui ans = (a >? d_quota x) /\
    a_session ans = c_session c /\ a_type ans = c_type c /\ a_reqnum ans = c_reqnum c.
Proof.
  intros [Hs Hm] Hl Ha Ht Hr Ia Iq. unfold in63 in *. unfold abmf_ccr.
  rewrite Hs, Hm, Hl, Ha, Hr. cbn [negb orb Z.eqb].
  replace ((c_type c =? 1) || (c_type c =? 2)) with true by lia.
  rewrite (wrap64_id a) by lia.
  destruct (a >? d_quota x) eqn:E.
  - destruct (remaining (wrap64 (d_quota x - d_quota x))) as [rd re] eqn:R.
    eexists. eexists. split; [reflexivity|]. cbn [a_granted a_fui a_session a_type a_reqnum].
    rewrite u64_id by lia. rewrite (bal_set_same _ _ _ _ _ Hl).
    rewrite wrap64_id by lia. repeat split; try lia; f_equal; lia.
  - destruct (remaining (wrap64 (d_quota x - a))) as [rd re] eqn:R.
    eexists. eexists. split; [reflexivity|]. cbn [a_granted a_fui a_session a_type a_reqnum].
    rewrite u64_id by lia. rewrite (bal_set_same _ _ _ _ _ Hl).
    rewrite wrap64_id by lia. repeat split; try lia; f_equal; lia.
Qed.

Theorem abmf_refund d c x a :
  valid_req c -> lookup d (c_ue c) (c_rg c) = Some x ->
  c_action c = 1 -> c_requested c = Some a -> in63 a ->
  - 9223372036854775808 <= d_quota x -> d_quota x + a < 9223372036854775808 ->
  exists d' ans, abmf_ccr d c = (d', Answer ans) /\
    bal d' (c_ue c) (c_rg c) = Some (d_quota x + a) /\
    a_session ans = c_session c /\ a_type ans = c_type c /\ a_reqnum ans = c_reqnum c.
Proof.
  intros [Hs Hm] Hl Ha Hr Ia Iq Hsum. unfold in63 in *. unfold abmf_ccr.
  rewrite Hs, Hm, Hl, Ha, Hr. cbn [negb orb Z.eqb].
  rewrite (wrap64_id a) by lia.
  destruct (remaining (wrap64 (d_quota x + a))) as [rd re] eqn:R.
  eexists. eexists. split; [reflexivity|]. cbn [a_session a_type a_reqnum].
  rewrite (bal_set_same _ _ _ _ _ Hl). rewrite wrap64_id by lia. repeat split.
Qed.

Theorem abmf_terminate d c x u :
  valid_req c -> lookup d (c_ue c) (c_rg c) = Some x ->
  c_action c = 0 -> c_type c = 3 -> c_used c = Some u -> in63 u ->
  d_quota x < 9223372036854775808 -> - 9223372036854775808 <= d_quota x - u ->
  exists d' ans, abmf_ccr d c = (d', Answer ans) /\
    bal d' (c_ue c) (c_rg c) = Some (d_quota x - u) /\
    a_session ans = c_session c /\ a_type ans = c_type c /\ a_reqnum ans = c_reqnum c.
Proof.
  intros [Hs Hm] Hl Ha Ht Hu Iu Iq Hd. unfold in63 in *. unfold abmf_ccr.
  rewrite Hs, Hm, Hl, Ha, Ht, Hu. cbn [negb orb Z.eqb].
  rewrite (wrap64_id u) by lia.
  destruct (remaining (wrap64 (d_quota x - u))) as [rd re] eqn:R.
  eexists. eexists. split; [reflexivity|]. cbn [a_session a_type a_reqnum].
  rewrite (bal_set_same _ _ _ _ _ Hl). rewrite wrap64_id by lia. repeat split.
Qed.

(* every answer echoes the request's identification *)
Theorem abmf_echo d c d' ans :
  abmf_ccr d c = (d', Answer ans) ->
  a_session ans = c_session c /\ a_type ans = c_type c /\ a_reqnum ans = c_reqnum c.
Proof.
  unfold abmf_ccr. destruct (negb (c_has_sub c) || negb (c_has_mscc c)); [intros H; discriminate H|].
  destruct (lookup d (c_ue c) (c_rg c)) as [x|]; [|intros H; discriminate H].
  repeat match goal with
  | |- context [if ?b then _ else _] => destruct b
  | |- context [match ?o with Some _ => _ | None => _ end] => destruct o
  | |- context [let '(_, _) := remaining ?q in _] => destruct (remaining q)
  end; intros H; inversion H; subst; repeat split.
Qed.

(* unknown subscriber or rating group: nothing is answered, nothing changes *)
Theorem abmf_unknown d c :
  lookup d (c_ue c) (c_rg c) = None -> abmf_ccr d c = (d, NoAnswer).
Proof.
  intros H. unfold abmf_ccr. destruct (negb (c_has_sub c) || negb (c_has_mscc c)); [reflexivity|].
  rewrite H. reflexivity.
Qed.

(* no request touches another account *)
Theorem abmf_frame d c ue rg :
  (ue, rg) <> (c_ue c, c_rg c) -> bal (fst (abmf_ccr d c)) ue rg = bal d ue rg.
Proof.
  intros Hne. unfold abmf_ccr. destruct (negb (c_has_sub c) || negb (c_has_mscc c)); [reflexivity|].
  destruct (lookup d (c_ue c) (c_rg c)) as [x|]; [|reflexivity].
  repeat match goal with
  | |- context [if ?b then _ else _] => destruct b
  | |- context [match ?o with Some _ => _ | None => _ end] => destruct o
  | |- context [let '(_, _) := remaining ?q in _] => destruct (remaining q)
  end; cbn [fst]; try reflexivity; apply bal_set_other; exact Hne.
Qed.

(* ---- the running balance over any request sequence: refinement to a
   one-number specification of the account ---- *)
Definition spec_step (q : Z) (c : ccr) : Z :=
  if c_action c =? 1 then
    match c_requested c with Some a => wrap64 (q + wrap64 a) | None => q end
  else if c_action c =? 0 then
    if (c_type c =? 1) || (c_type c =? 2) then
      match c_requested c with
      | Some a => if wrap64 a >? q then wrap64 (q - q) else wrap64 (q - wrap64 a)
      | None => q end
    else if c_type c =? 3 then
      match c_used c with Some u => wrap64 (q - wrap64 u) | None => q end
    else q
  else q.

Definition targets (c : ccr) (ue rg : Z) : bool :=
  c_has_sub c && c_has_mscc c && (c_ue c =? ue) && (c_rg c =? rg).

Lemma abmf_step_spec d c ue rg q :
  bal d ue rg = Some q ->
  bal (fst (abmf_ccr d c)) ue rg = Some (if targets c ue rg then spec_step q c else q).
Proof.
  intros Hb. unfold targets.
  destruct ((c_ue c =? ue) && (c_rg c =? rg)) eqn:Ek.
  - assert (c_ue c = ue /\ c_rg c = rg) as [E1 E2] by lia. subst ue rg.
    unfold abmf_ccr, spec_step. destruct (c_has_sub c), (c_has_mscc c); cbn [negb orb andb]; try exact Hb.
    unfold bal in Hb. destruct (lookup d (c_ue c) (c_rg c)) as [x|] eqn:El; [|discriminate Hb].
    inversion Hb; subst q. rewrite !Z.eqb_refl. cbn [andb].
    repeat match goal with
    | |- context [if ?b then _ else _] => destruct b
    | |- context [match ?o with Some _ => _ | None => _ end] => destruct o
    | |- context [let '(_, _) := remaining ?q in _] => destruct (remaining q)
    end; cbn [fst]; try (rewrite (bal_set_same _ _ _ _ _ El); reflexivity);
      unfold bal; rewrite El; reflexivity.
  - replace (c_has_sub c && c_has_mscc c && (c_ue c =? ue) && (c_rg c =? rg)) with false
      by (destruct (c_has_sub c), (c_has_mscc c); cbn; lia).
    rewrite abmf_frame; [exact Hb|]. intros E. inversion E. lia.
Qed.

Theorem abmf_sequence : forall cs d ue rg q,
  bal d ue rg = Some q ->
  bal (fold_left (fun d c => fst (abmf_ccr d c)) cs d) ue rg =
  Some (fold_left (fun q c => if targets c ue rg then spec_step q c else q) cs q).
Proof.
  induction cs as [|c cs IH]; intros d ue rg q Hb; cbn [fold_left]; [exact Hb|].
  apply IH. apply abmf_step_spec, Hb.
Qed.

(* ---- no history of reservations, refunds and queries drives a balance below zero ---- *)

(* requests other than a termination debit, with amounts in 0..2^63-1 *)
Definition no_final_debit (c : ccr) : Prop :=
  (c_action c = 0 -> c_type c <> 3) /\ (forall a, c_requested c = Some a -> in63 a).

Lemma spec_step_nonneg q c :
  no_final_debit c -> 0 <= q < 9223372036854775808 ->
  (* the account never goes below zero; without overflow of a refund it only moves by the amounts *)
  (c_action c <> 1 -> 0 <= spec_step q c <= q) /\
  (c_action c = 1 -> forall a, c_requested c = Some a -> q + a < 9223372036854775808 -> spec_step q c = q + a).
Proof.
  intros [Ht Ha] Hq. unfold spec_step. split.
  - intros Hn. destruct (c_action c =? 1) eqn:E1; [lia|].
    destruct (c_action c =? 0) eqn:E0; [|lia].
    destruct ((c_type c =? 1) || (c_type c =? 2)) eqn:E12.
    + destruct (c_requested c) as [a|] eqn:Er; [|lia].
      pose proof (Ha a eq_refl) as Hin. unfold in63 in Hin.
      rewrite (wrap64_id a) by lia.
      destruct (a >? q) eqn:Eg.
      * rewrite wrap64_id by lia. lia.
      * rewrite wrap64_id by lia. lia.
    + destruct (c_type c =? 3) eqn:E3; [|lia]. exfalso. apply Ht; lia.
  - intros H1 a Er Hs. rewrite H1. cbn [Z.eqb Pos.eqb]. rewrite Er.
    pose proof (Ha a Er) as Hin. unfold in63 in Hin.
    rewrite (wrap64_id a) by lia. rewrite wrap64_id by lia. reflexivity.
Qed.

(* along every sequence of such requests (any mix of accounts) in which no refund
   overflows, the stored balance of an account that starts in 0..2^63-1 stays there *)
Fixpoint refunds_fit (ue rg : Z) (q : Z) (cs : list ccr) : Prop :=
  match cs with
  | [] => True
  | c :: cs' =>
      let q' := if targets c ue rg then spec_step q c else q in
      (targets c ue rg = true -> c_action c = 1 -> forall a, c_requested c = Some a -> q + a < 9223372036854775808) /\
      refunds_fit ue rg q' cs'
  end.

Theorem abmf_never_negative : forall cs d ue rg q,
  bal d ue rg = Some q -> 0 <= q < 9223372036854775808 ->
  Forall no_final_debit cs -> refunds_fit ue rg q cs ->
  exists q', bal (fold_left (fun d c => fst (abmf_ccr d c)) cs d) ue rg = Some q' /\
             0 <= q' < 9223372036854775808.
Proof.
  intros cs d ue rg q Hb Hq Hf Hr. rewrite (abmf_sequence cs d ue rg q Hb).
  eexists; split; [reflexivity|].
  clear Hb d. revert q Hq Hr. induction Hf as [|c cs Hc Hf IH]; intros q Hq Hr; cbn [fold_left]; [exact Hq|].
  cbn [refunds_fit] in Hr. destruct Hr as [Hr1 Hr2]. apply IH; [|exact Hr2].
  destruct (targets c ue rg) eqn:Et; [|exact Hq].
  destruct (spec_step_nonneg q c Hc Hq) as [Hn Hp].
  destruct (Z.eq_dec (c_action c) 1) as [E|E].
  - destruct (c_requested c) as [a|] eqn:Er.
    + rewrite (Hp E a eq_refl (Hr1 eq_refl E a eq_refl)).
      destruct Hc as [_ Ha]. pose proof (Ha a Er) as Hin. unfold in63 in Hin.
      pose proof (Hr1 eq_refl E a eq_refl). lia.
    + unfold spec_step. rewrite E. cbn [Z.eqb Pos.eqb]. rewrite Er. exact Hq.
  - specialize (Hn E). lia.
Qed.

(* ---- C08 ---- *)

Definition known_sur (d : db) (s : sur) (x : doc) : Prop :=
  s_has_sub s = true /\ s_has_sr s = true /\ lookup d (s_ue s) (s_rg s) = Some x.

(* the server answers for every stored unit-cost string *)
Theorem rf_answers d s x : known_sur d s x -> exists a, rf_sur d s = Answer a /\ u_session a = s_session s.
Proof.
  intros [Hs [Hr Hl]]. unfold rf_sur. rewrite Hs, Hr, Hl. cbn [negb orb].
  destruct (tariff (d_cost x)) as [dg ex].
  repeat match goal with |- context [if ?b then _ else _] => destruct b end;
    eexists; split; reflexivity.
Qed.

(* and the CHF derives from the answer exactly the unit cost the server applied *)
Theorem rf_cost_agrees d s x a :
  known_sur d s x -> rf_sur d s = Answer a ->
  chf_unit_cost a = unit_cost (fst (tariff (d_cost x))) (snd (tariff (d_cost x))).
Proof.
  intros [Hs [Hr Hl]]. unfold rf_sur. rewrite Hs, Hr, Hl. cbn [negb orb].
  destruct (tariff (d_cost x)) as [dg ex]. cbn [fst snd].
  repeat match goal with |- context [if ?b then _ else _] => destruct b end;
    intros H; inversion H; subst; reflexivity.
Qed.

Lemma unit_cost_range dg ex : 0 <= unit_cost dg ex < 4294967296.
Proof. unfold unit_cost, u32. lia. Qed.

Theorem rf_debit d s x a :
  known_sur d s x -> s_subtype s = 2 -> rf_sur d s = Answer a ->
  0 <= s_consumed s -> s_consumed s * chf_unit_cost a < 4294967296 ->
  u_price a = s_consumed s * chf_unit_cost a.
Proof.
  intros K Ht Ha Hc Hfit. pose proof (rf_cost_agrees d s x a K Ha) as Hcost.
  destruct K as [Hs [Hr Hl]]. unfold rf_sur in Ha. rewrite Hs, Hr, Hl, Ht in Ha. cbn [negb orb Z.eqb] in Ha.
  destruct (tariff (d_cost x)) as [dg ex]. cbn [fst snd] in Hcost.
  inversion Ha; subst a. cbn [u_price]. unfold chf_unit_cost in *. cbn [u_digits u_exp] in *.
  pose proof (unit_cost_range dg ex). apply u32_id. nia.
Qed.

Theorem rf_reserve d s x a :
  known_sur d s x -> s_subtype s = 1 -> rf_sur d s = Answer a ->
  0 <= s_quota s < 4294967296 -> 0 < chf_unit_cost a ->
  u_allowed a = s_quota s / chf_unit_cost a /\
  u_price a = u_allowed a * chf_unit_cost a /\ u_price a <= s_quota s.
Proof.
  intros K Ht Ha Hq Hpos. pose proof (rf_cost_agrees d s x a K Ha) as Hcost.
  destruct K as [Hs [Hr Hl]]. unfold rf_sur in Ha. rewrite Hs, Hr, Hl, Ht in Ha. cbn [negb orb Z.eqb] in Ha.
  destruct (tariff (d_cost x)) as [dg ex]. cbn [fst snd] in Hcost.
  set (cost := unit_cost dg ex) in *.
  destruct (cost =? 0) eqn:E0.
  - inversion Ha; subst a. unfold chf_unit_cost in Hpos. cbn [u_digits u_exp] in Hpos. fold cost in Hpos. lia.
  - inversion Ha; subst a. unfold chf_unit_cost. cbn [u_allowed u_price u_digits u_exp]. fold cost.
    assert (0 <= s_quota s / cost) by (apply Z.div_pos; lia).
    assert (cost * (s_quota s / cost) <= s_quota s) by (apply Z.mul_div_le; lia).
    rewrite u32_id by nia. repeat split; nia.
Qed.
