(* C06 — grants never exceed what the subscriber's money buys (no overdraft). *)
From Coq Require Import List ZArith Bool.
From Verif Require Import Charging.Servers Charging.ServersProofs Charging.Chf Charging.ChargeProofs
  Charging.HistoryProofs Charging.OverdraftHistory.
Import ListNotations.
Open Scope Z_scope.

(* Reserve mode: with money = balance + unconsumed reservation,
     granted = min (floor (min money (requested x cost) / cost), requested)   (0 when nothing is left)
     final-unit indication  <->  money < requested x cost
   the account never goes below zero (nor grows: a reserve round only moves money into the
   reservation) and cost x granted is backed by the reservation the CHF holds afterwards. *)
Theorem C06_grant_limited : forall d supi rg x st req used,
  lookup d supi rg = Some x -> q_mode st = 1 -> 0 <= d_quota x ->
  round_ok (d_quota x) (q_reserved st) (cost_of x) used (reqv_of req) ->
  let money := d_quota x + (q_reserved st - cost_of x * used) in
  let '(d', st', m) := charge_rg d supi rg st req used in
  exists mu g, m = Some mu /\ m_granted mu = Some g /\
    g = Z.min (Z.max 0 (Z.min money (reqv_of req * cost_of x)) / cost_of x) (reqv_of req) /\
    m_fui mu = (money <? reqv_of req * cost_of x) /\
    cost_of x * g <= Z.max 0 (q_reserved st') /\
    (exists b, bal d' supi rg = Some b /\ 0 <= b <= d_quota x).
Proof. exact charge_rg_grant. Qed.
Print Assumptions C06_grant_limited.

(* Debit mode: a report covered by the reservation (what a consumer that stays
   within its grant produces, by the invariant above) debits nothing: the unused
   reservation is refunded, the balance only grows. *)
Theorem C06_debit_no_overdraft : forall d supi rg x st req used,
  lookup d supi rg = Some x -> q_mode st = 2 -> 0 <= d_quota x ->
  round_ok (d_quota x) (q_reserved st) (cost_of x) used (reqv_of req) ->
  cost_of x * used <= q_reserved st ->
  let '(d', st', _) := charge_rg d supi rg st req used in
  bal d' supi rg = Some (d_quota x + (q_reserved st - cost_of x * used)) /\ q_reserved st' = 0.
Proof. exact charge_rg_debit_no_overdraft. Qed.
Print Assumptions C06_debit_no_overdraft.

(* Debit mode (entered when the account server signalled the final unit): the answer grants nothing and
   carries the final-unit indication (since the fix; it carried none before). *)
Theorem C06_debit_final_unit : forall d supi rg st req used d' st' mu,
  q_mode st = 2 -> charge_rg d supi rg st req used = (d', st', Some mu) ->
  m_granted mu = Some 0 /\ m_fui mu = true.
Proof. exact charge_rg_debit_final. Qed.
Print Assumptions C06_debit_final_unit.

(* non-vacuity: balance 0: nothing is granted and the final unit is indicated *)
Example C06_nonvacuous :
  charge_rg [mkDoc 1 1 0 [50]] 1 1 (mkRg 0 1 0 0) (Some 100) 0 =
  ([mkDoc 1 1 0 [50]], mkRg 0 2 2 1, Some (mkMui 1 (Some 0) true)).
Proof. vm_compute. reflexivity. Qed.

(* Along every history: if every stored balance starts non-negative, every grant the consumers hold
   is backed by the reservation the CHF holds for it ([backed]; true of the start of every history,
   [backed_start]), every credit-control round is within the ranges of the Diameter AVPs
   ([history_ok], as for C01_history) and no consumer reports more usage for a rating group than the
   grant last given for it ([history_compliant]: the ghost of last grants follows the answers to the
   updates and is 0 after a release; the operator never credits an account below zero), then no
   stored balance is negative at the end -- and, the statement holding for every history, at no
   point of it.  The hypotheses are decidable ([history_okb], [history_compliantb]) and counted on
   the harness's histories.  The ghost is kept per subscriber and rating group like the CHF's
   reservation; with two sessions of one subscriber on one rating group it is not what either
   consumer was granted (known finding C06/shared-reservation-across-sessions). *)
Theorem C06_history : forall rsize usize ops G w,
  nonneg (w_db w) -> backed G w ->
  history_ok rsize usize w ops -> history_compliant rsize usize G w ops ->
  nonneg (w_db (run rsize usize w ops)).
Proof. exact history_no_overdraft. Qed.
Print Assumptions C06_history.

Theorem C06_history_decidable : forall rsize usize ops d lr,
  nonnegb d = true ->
  history_okb rsize usize (mkWorld d [] lr [] []) ops = true ->
  history_compliantb rsize usize (fun _ _ => 0) (mkWorld d [] lr [] []) ops = true ->
  nonneg (w_db (run rsize usize (mkWorld d [] lr [] []) ops)).
Proof. exact history_no_overdraft_b. Qed.
Print Assumptions C06_history_decidable.

(* non-vacuity: balance 70 at unit cost 2; the consumer asks for 100 units, is granted the 35 the
   money buys (final unit), reports 30 of them and asks again, then releases reporting 0: the
   hypotheses hold along the history; the balance ends at 10, the unused reservation refunded *)
Definition ex_req (used : Z) (req : option Z) : request :=
  mkReq 1 true (Some [99]) [mkUsage 1 req [mkCont 1 used 0 0 0 0]] [] 0 (-1) 0.
Definition ex_ops : list op :=
  [Create (mkReq 1 true (Some [99]) [] [] 0 (-1) 0);
   Update [99; 45; 48] (ex_req 0 (Some 100));
   Update [99; 45; 48] (ex_req 30 (Some 100));
   Release [99; 45; 48] (ex_req 0 None)].
Example C06_history_nonvacuous :
  let w := mkWorld [mkDoc 1 1 70 [50]] [] 0 [] [] in
  let sz := fun _ : record => 0 in let uz := fun _ : list (Z * list entry) => 0 in
  nonnegb (w_db w) = true /\ history_okb sz uz w ex_ops = true /\
  history_compliantb sz uz (fun _ _ => 0) w ex_ops = true /\
  map rs_status (snd (fold_left (fun '(w, acc) o => let '(w', r) := step sz uz w o in (w', acc ++ [r])) ex_ops (w, []))) = [201; 200; 200; 204] /\
  w_db (run sz uz w ex_ops) = [mkDoc 1 1 10 [50]].
Proof. vm_compute. repeat split. Qed.
