(* C06 — grants never exceed what the subscriber's money buys (no overdraft). *)
From Coq Require Import List ZArith Bool.
From Verif Require Import Charging.Servers Charging.ServersProofs Charging.Chf Charging.ChargeProofs.
Import ListNotations.
Open Scope Z_scope.

(* Reserve mode: with money = balance + unconsumed reservation,
     granted = min (floor (min money (requested x cost) / cost), requested)   (0 when nothing is left)
     final-unit indication  <->  money < requested x cost
   the account never goes below zero and cost x granted is backed by the
   reservation the CHF holds afterwards. *)
Theorem C06_grant_limited : forall d supi rg x st req used,
  lookup d supi rg = Some x -> q_mode st = 1 -> 0 <= d_quota x ->
  round_ok (d_quota x) (q_reserved st) (cost_of x) used (reqv_of req) ->
  let money := d_quota x + (q_reserved st - cost_of x * used) in
  let '(d', st', m) := charge_rg d supi rg st req used in
  exists mu g, m = Some mu /\ m_granted mu = Some g /\
    g = Z.min (Z.max 0 (Z.min money (reqv_of req * cost_of x)) / cost_of x) (reqv_of req) /\
    m_fui mu = (money <? reqv_of req * cost_of x) /\
    cost_of x * g <= Z.max 0 (q_reserved st') /\
    (exists b, bal d' supi rg = Some b /\ 0 <= b).
Proof. exact charge_rg_grant. Qed.
Print Assumptions C06_grant_limited.

(* Debit mode: a report covered by the reservation (what a consumer that stays
   within its grant produces, by the invariant above) debits nothing: the unused
   reservation is refunded, the balance only grows. *)
Theorem C06_debit_no_overdraft : forall d supi rg x st req used,
  lookup d supi rg = Some x -> q_mode st = 2 -> 0 <= d_quota x ->
  round_ok (d_quota x) (q_reserved st) (cost_of x) used (reqv_of req) ->
  cost_of x * used <= q_reserved st ->
  let '(d', st', _) := charge_rg d supi rg st req used in
  bal d' supi rg = Some (d_quota x + (q_reserved st - cost_of x * used)) /\ q_reserved st' = 0.
Proof. exact charge_rg_debit_no_overdraft. Qed.
Print Assumptions C06_debit_no_overdraft.

(* Debit mode (entered when the account server signalled the final unit): the answer grants nothing and
   carries the final-unit indication (since the fix; it carried none before). *)
Theorem C06_debit_final_unit : forall d supi rg st req used d' st' mu,
  q_mode st = 2 -> charge_rg d supi rg st req used = (d', st', Some mu) ->
  m_granted mu = Some 0 /\ m_fui mu = true.
Proof. exact charge_rg_debit_final. Qed.
Print Assumptions C06_debit_final_unit.

(* non-vacuity: balance 0: nothing is granted and the final unit is indicated *)
Example C06_nonvacuous :
  charge_rg [mkDoc 1 1 0 [50]] 1 1 (mkRg 0 1 0 0) (Some 100) 0 =
  ([mkDoc 1 1 0 [50]], mkRg 0 2 2 1, Some (mkMui 1 (Some 0) true)).
Proof. vm_compute. reflexivity. Qed.
