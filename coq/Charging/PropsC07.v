(* C07 — account-balance server: grants min(requested, balance), exact
   debits/refunds, echo, no effect for unknown accounts; running balance over
   any request sequence. *)
From Coq Require Import List ZArith Bool Lia.
From Verif Require Import Charging.Servers Charging.ServersProofs.
Import ListNotations.
Open Scope Z_scope.

(* reservation (INITIAL or UPDATE request with DIRECT_DEBITING) for a known
   account, all amounts and balances in 0..2^63-1 *)
Theorem C07_reserve : forall d c x a,
  valid_req c -> lookup d (c_ue c) (c_rg c) = Some x ->
  c_action c = 0 -> (c_type c = 1 \/ c_type c = 2) -> c_requested c = Some a ->
  in63 a -> in63 (d_quota x) ->
  exists d' ans, abmf_ccr d c = (d', Answer ans) /\
    a_granted ans = Some (Z.min a (d_quota x)) /\
    bal d' (c_ue c) (c_rg c) = Some (d_quota x - Z.min a (d_quota x)) /\
    0 <= d_quota x - Z.min a (d_quota x) /\
    a_fui ans = (a >? d_quota x) /\
    a_session ans = c_session c /\ a_type ans = c_type c /\ a_reqnum ans = c_reqnum c.
Proof. exact abmf_reserve. Qed.
Print Assumptions C07_reserve.

(* a refund raises the stored balance by exactly the stated amount (while the
   sum is representable: see the known finding C07/int64-overflow below) *)
Theorem C07_refund : forall d c x a,
  valid_req c -> lookup d (c_ue c) (c_rg c) = Some x ->
  c_action c = 1 -> c_requested c = Some a -> in63 a ->
  - 9223372036854775808 <= d_quota x -> d_quota x + a < 9223372036854775808 ->
  exists d' ans, abmf_ccr d c = (d', Answer ans) /\
    bal d' (c_ue c) (c_rg c) = Some (d_quota x + a) /\
    a_session ans = c_session c /\ a_type ans = c_type c /\ a_reqnum ans = c_reqnum c.
Proof. exact abmf_refund. Qed.
Print Assumptions C07_refund.

(* a termination debit lowers it by exactly the stated amount *)
Theorem C07_terminate : forall d c x u,
  valid_req c -> lookup d (c_ue c) (c_rg c) = Some x ->
  c_action c = 0 -> c_type c = 3 -> c_used c = Some u -> in63 u ->
  d_quota x < 9223372036854775808 -> - 9223372036854775808 <= d_quota x - u ->
  exists d' ans, abmf_ccr d c = (d', Answer ans) /\
    bal d' (c_ue c) (c_rg c) = Some (d_quota x - u) /\
    a_session ans = c_session c /\ a_type ans = c_type c /\ a_reqnum ans = c_reqnum c.
Proof. exact abmf_terminate. Qed.
Print Assumptions C07_terminate.

(* every answer, whatever the action, echoes Session-Id, request type and number *)
Theorem C07_echo : forall d c d' ans, abmf_ccr d c = (d', Answer ans) ->
  a_session ans = c_session c /\ a_type ans = c_type c /\ a_reqnum ans = c_reqnum c.
Proof. exact abmf_echo. Qed.
Print Assumptions C07_echo.

(* unknown subscriber or rating group: no stored balance changes *)
Theorem C07_unknown : forall d c, lookup d (c_ue c) (c_rg c) = None -> abmf_ccr d c = (d, NoAnswer).
Proof. exact abmf_unknown. Qed.
Print Assumptions C07_unknown.

(* no request changes the balance of another account *)
Theorem C07_frame : forall d c ue rg,
  (ue, rg) <> (c_ue c, c_rg c) -> bal (fst (abmf_ccr d c)) ue rg = bal d ue rg.
Proof. exact abmf_frame. Qed.
Print Assumptions C07_frame.

(* over any sequence of requests (any mix of actions, types, accounts), the stored
   balance of an account is the fold of the one-number specification over the
   requests that address it *)
Theorem C07_sequence : forall cs d ue rg q,
  bal d ue rg = Some q ->
  bal (fold_left (fun d c => fst (abmf_ccr d c)) cs d) ue rg =
  Some (fold_left (fun q c => if targets c ue rg then spec_step q c else q) cs q).
Proof. exact abmf_sequence. Qed.
Print Assumptions C07_sequence.

(* "never below zero" over histories: along every sequence of reservations,
   refunds, balance checks and price enquiries (any mix, any accounts; amounts in
   0..2^63-1; no termination debit, which by the property lowers the balance by
   exactly the stated amount whatever is left; no refund past 2^63-1, the known
   finding below) the stored balance of an account that starts in 0..2^63-1 is
   never negative. *)
Theorem C07_never_negative : forall cs d ue rg q,
  bal d ue rg = Some q -> 0 <= q < 9223372036854775808 ->
  Forall no_final_debit cs -> refunds_fit ue rg q cs ->
  exists q', bal (fold_left (fun d c => fst (abmf_ccr d c)) cs d) ue rg = Some q' /\
             0 <= q' < 9223372036854775808.
Proof. exact abmf_never_negative. Qed.
Print Assumptions C07_never_negative.

(* its hypotheses hold on a history that over-asks (300 of 120), refunds and asks again *)
Example C07_never_negative_nonvacuous :
  let cs := [mkCcr true 7 true 2 0 2 6 55 (Some 300) None;
             mkCcr true 7 true 2 1 2 7 55 (Some 40) None;
             mkCcr true 7 true 2 0 1 8 55 (Some 41) None;
             mkCcr true 7 true 1 0 2 9 55 (Some 5) None] in
  let d := [mkDoc 7 1 1000 [50]; mkDoc 7 2 120 [50]] in
  Forall no_final_debit cs /\ refunds_fit 7 2 120 cs /\
  bal (fold_left (fun d c => fst (abmf_ccr d c)) cs d) 7 2 = Some 0 /\
  bal (fold_left (fun d c => fst (abmf_ccr d c)) cs d) 7 1 = Some 995.
Proof.
  cbv zeta. split; [|split; [|vm_compute; split; reflexivity]].
  - idtac.
    apply Forall_cons; [split; [cbn [c_action c_type]; intros _ H; discriminate H | cbn [c_requested]; intros a Ha; injection Ha as <-; unfold in63; lia]|].
    apply Forall_cons; [split; [cbn [c_action c_type]; intros _ H; discriminate H | cbn [c_requested]; intros a Ha; injection Ha as <-; unfold in63; lia]|].
    apply Forall_cons; [split; [cbn [c_action c_type]; intros _ H; discriminate H | cbn [c_requested]; intros a Ha; injection Ha as <-; unfold in63; lia]|].
    apply Forall_cons; [split; [cbn [c_action c_type]; intros _ H; discriminate H | cbn [c_requested]; intros a Ha; injection Ha as <-; unfold in63; lia]|].
    apply Forall_nil.
  - cbn [refunds_fit].
    assert (F : forall (P : Prop), (false = true -> P)) by (intros P H; discriminate H).
    split; [intros _ H; vm_compute in H; discriminate H|].
    split; [intros _ _ a Ha; cbn [c_requested] in Ha; injection Ha as <-; vm_compute; reflexivity|].
    split; [intros _ H; vm_compute in H; discriminate H|].
    split; [intros H; vm_compute in H; discriminate H|].
    exact I.
Qed.

(* KNOWN FINDING C07/int64-overflow: the balance is an int64; a refund whose sum
   exceeds 2^63-1 wraps to a negative balance. *)
Theorem C07_refund_overflow_refuted :
  exists d c, valid_req c /\ c_action c = 1 /\
    bal d (c_ue c) (c_rg c) = Some 9223372036854775807 /\ c_requested c = Some 1 /\
    bal (fst (abmf_ccr d c)) (c_ue c) (c_rg c) = Some (- 9223372036854775808).
Proof.
  exists [mkDoc 1 1 9223372036854775807 [49]], (mkCcr true 1 true 1 1 2 0 0 (Some 1) None).
  vm_compute. repeat split; reflexivity.
Qed.
Print Assumptions C07_refund_overflow_refuted.

(* non-vacuity: request 300 on balance 1000; request 300 on balance 120 *)
Example C07_nonvacuous :
  let d := [mkDoc 7 1 1000 [50]; mkDoc 7 2 120 [50]] in
  let c1 := mkCcr true 7 true 1 0 2 5 55 (Some 300) None in
  let c2 := mkCcr true 7 true 2 0 2 6 55 (Some 300) None in
  valid_req c1 /\ lookup d 7 1 = Some (mkDoc 7 1 1000 [50]) /\
  bal (fst (abmf_ccr d c1)) 7 1 = Some 700 /\ bal (fst (abmf_ccr d c2)) 7 2 = Some 0.
Proof. vm_compute. repeat split; reflexivity. Qed.
