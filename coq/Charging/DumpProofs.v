(* C03: the file dumpCdrFile writes for a list of record encodings is a
   well-formed TS 32.297 file as long as every encoding fits 16 bits. *)
From Coq Require Import List ZArith Lia Bool ZifyBool.
From Verif Require Import Common.Outcome Common.Bytes Common.BytesLemmas CdrFile.Model CdrFile.Spec CdrFile.Proofs.
Import ListNotations.
Open Scope Z_scope.

Definition zero_ts : tstamp := mkTs 0 0 0 0 0 0 0.

(* the structure built by dumpCdrFile for the given payloads *)
Definition dump_cdr (p : list Z) : cdr :=
  mkCdr (mkChdr (zlen p mod 65536) 0 0 1 0 0) p.          (* CdrLength = uint16(len), BER *)
Definition dump_file (ps : list (list Z)) : cfile :=
  let total := 52 + fold_right (fun p acc => zlen p + 4 + acc) 0 ps in
  mkFile (mkFhdr (total mod 4294967296) 52 0 0 0 0 zero_ts zero_ts (zlen ps mod 4294967296) 0 0 (repeat 0 20) 0
                 0 [] 0 [] 0 0)
         (map dump_cdr ps).

Definition payload_ok (p : list Z) : bool := (zlen p <=? 65535) && bytes_ok p.

Lemma dump_cdrs_wf ps : forallb payload_ok ps = true -> forallb cdr_wf (map dump_cdr ps) = true.
Proof.
  induction ps as [|p ps IH]; intros H; [reflexivity|].
  cbn [forallb map] in *. apply andb_true_iff in H. destruct H as [Hp Hr].
  rewrite IH by exact Hr. rewrite andb_true_r.
  unfold payload_ok in Hp. apply andb_true_iff in Hp. destruct Hp as [Hl Hb].
  unfold cdr_wf, chdr_wf, dump_cdr, inb. cbn [c_hdr c_payload cdr_len c_rel c_ver c_fmt c_tsnum c_ext].
  pose proof (zlen_nonneg p). rewrite Hb. rewrite Z.mod_small by lia.
  cbn. replace (0 <=? zlen p) with true by lia. replace (zlen p <? 65536) with true by lia.
  replace (zlen p =? zlen p) with true by lia. reflexivity.
Qed.

Lemma enc_dump_len ps :
  zlen (concat (map enc_cdr (map dump_cdr ps))) = fold_right (fun p acc => zlen p + 4 + acc) 0 ps.
Proof.
  induction ps as [|p ps IH]; [reflexivity|].
  cbn [map concat fold_right]. rewrite zlen_app, IH.
  unfold enc_cdr, enc_chdr, dump_cdr. cbn [c_hdr c_payload cdr_len c_rel c_ver c_fmt c_tsnum c_ext Z.eqb].
  rewrite !zlen_app. unfold be16. rewrite !zlen_cons. change (zlen (@nil Z)) with 0. lia.
Qed.

Theorem dump_file_wf ps :
  forallb payload_ok ps = true ->
  52 + fold_right (fun p acc => zlen p + 4 + acc) 0 ps < 4294967296 ->
  wf_file (dump_file ps) = true /\ lengths_consistent (dump_file ps) = true /\
  spec_read (enc_file (dump_file ps)) = Some (dump_file ps).
Proof.
  intros Hp Hsz.
  assert (Hnn : 0 <= fold_right (fun p acc => zlen p + 4 + acc) 0 ps).
  { clear. induction ps as [|p ps IH]; cbn [fold_right]; [lia|]. pose proof (zlen_nonneg p). lia. }
  assert (Hcnt : zlen ps < 4294967296).
  { assert (zlen ps <= fold_right (fun p acc => zlen p + 4 + acc) 0 ps).
    { clear. induction ps as [|p ps IH]; cbn [fold_right]; [rewrite zlen_nil; lia|].
      rewrite zlen_cons. pose proof (zlen_nonneg p). lia. }
    lia. }
  assert (Hlen : zlen (enc_file (dump_file ps)) = 52 + fold_right (fun p acc => zlen p + 4 + acc) 0 ps).
  { unfold enc_file, dump_file. cbn [f_hdr f_cdrs]. rewrite zlen_app, enc_dump_len.
    rewrite enc_fhdr_size by reflexivity. reflexivity. }
  assert (W : wf_file (dump_file ps) = true).
  { unfold wf_file. rewrite Hlen.
    unfold dump_file at 1 2 3. cbn [f_hdr f_cdrs].
    rewrite dump_cdrs_wf by exact Hp.
    unfold fhdr_wf, ts_wf, inb, zero_ts.
    cbn [file_len hdr_len hi_rel hi_ver lo_rel lo_ver open_ts last_ts ncdrs fseq reason ipaddr lost
         filter_len filter ext_len ext hi_ext lo_ext ts_month ts_date ts_hour ts_minute ts_sign ts_hdev ts_mdev].
    pose proof (zlen_nonneg ps).
    rewrite !Z.mod_small by lia.
    assert (Lc : zlen (f_cdrs (dump_file ps)) = zlen ps).
    { unfold dump_file. cbn [f_cdrs]. unfold zlen. rewrite map_length. reflexivity. }
    rewrite Lc.
    replace (zlen ps =? zlen ps) with true by lia.
    replace (52 + fold_right (fun (p : list Z) (acc : Z) => zlen p + 4 + acc) 0 ps <? 4294967296) with true by lia.
    replace (0 <=? 52 + fold_right (fun (p : list Z) (acc : Z) => zlen p + 4 + acc) 0 ps) with true by lia.
    replace (0 <=? zlen ps) with true by lia. replace (zlen ps <? 4294967296) with true by lia.
    reflexivity. }
  split; [exact W|]. split.
  - unfold lengths_consistent. rewrite Hlen. unfold dump_file. cbn [f_hdr hdr_len file_len].
    rewrite enc_fhdr_size by reflexivity. rewrite Z.mod_small by lia. cbn. lia.
  - apply spec_read_enc, W.
Qed.
