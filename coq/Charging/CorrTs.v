(* Correspondence + monitor for TimeStampToCdr: code 1 model bytes <> Go bytes;
   code 2 C02 monitor: Go's bytes do not decode to the instant and offset given. *)
From Coq Require Import List ZArith Bool.
From Verif Require Import Charging.TimeStamp.
Import ListNotations.
Open Scope Z_scope.

Fixpoint zl_eqb (a b : list Z) : bool :=
  match a, b with [], [] => true | x :: r, y :: s => (x =? y) && zl_eqb r s | _, _ => false end.

Definition check_ts (i : Z) (c : Z*Z*Z*Z*Z*Z*Z*list Z) : list (Z * Z) :=
  let '(y, mo, d, h, mi, s, off, bs) := c in
  (if zl_eqb (ts_to_cdr y mo d h mi s off) bs then [] else [(i, 1)]) ++
  (match ts_decode bs with
   | Some (y', mo', d', h', mi', s', sg, zh, zm) =>
     if (y' =? y mod 100) && (mo' =? mo) && (d' =? d) && (h' =? h) && (mi' =? mi) && (s' =? s) &&
        Bool.eqb sg (off >=? 0) && (zh =? Z.abs off / 3600) && (zm =? Z.abs off mod 3600 / 60)
     then [] else [(i, 2)]
   | None => [(i, 2)]
   end).

Fixpoint run_ts_from (i : Z) (cs : list (Z*Z*Z*Z*Z*Z*Z*list Z)) : list (Z * Z) :=
  match cs with [] => [] | c :: r => check_ts i c ++ run_ts_from (i + 1) r end.
Definition run_ts := run_ts_from 0.
