(* C03 monitor: a CDR file written by the CHF (bytes of /tmp/<supi>.cdr) is a
   well-formed TS 32.297 file: the independent reader accepts it, header and
   file lengths equal the real sizes, the count equals the number of records,
   every record header length equals its payload size and every payload is one
   complete BER element (generic TLV walk). *)
From Coq Require Import List ZArith Bool.
From Verif Require Import Common.Outcome Common.Bytes CdrFile.Model CdrFile.Spec Ber.Model Ber.SchemaGen Charging.RecordBer.
Import ListNotations.
Open Scope Z_scope.

(* one complete definite-length TLV, children included *)
Fixpoint tlv_complete (depth : nat) (bs : list Z) : bool :=
  match depth with
  | O => false
  | S d =>
    match parse_tl bs with
    | Ok (t, off) =>
      (off + t_len t =? zlen bs) &&
      (if t_constr t then
         match chunks (length bs) bs off with
         | Ok cs => forallb (tlv_complete d) cs
         | _ => false
         end
       else true)
    | _ => false
    end
  end.

(* 0 ok; 1 not readable; 2 header/file length fields wrong; 3 count wrong;
   4 a record length field differs from its payload; 5 a payload is not a complete BER element;
   6 a payload is one BER element but does not decode as a CHFRecord of the schema regenerated from /repo *)
Definition is_chf_record (bs : list Z) : bool :=
  match dec ty_CHFRecord p_chf bs with Ok _ => true | _ => false end.

Definition file_code (bs : list Z) : Z :=
  match spec_read bs with
  | None => 1
  | Some f =>
    if negb ((hdr_len (f_hdr f) =? spec_hdr_size (f_hdr f)) && (file_len (f_hdr f) =? zlen bs)) then 2
    else if negb (ncdrs (f_hdr f) =? zlen (f_cdrs f)) then 3
    else if negb (forallb (fun c => cdr_len (c_hdr c) =? zlen (c_payload c)) (f_cdrs f)) then 4
    else if negb (forallb (fun c => tlv_complete 24 (c_payload c)) (f_cdrs f)) then 5
    else if negb (forallb (fun c => is_chf_record (c_payload c)) (f_cdrs f)) then 6
    else 0
  end.

Definition run_files (fs : list (Z * Z * list Z)) : list (Z * Z * Z) :=
  flat_map (fun e => let '(id, k, bs) := e in
                     let c := file_code bs in if c =? 0 then [] else [(id, k, c)]) fs.
