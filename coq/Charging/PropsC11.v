(* C11 — no request crashes the service or wedges a subscriber.
   On the model: every request of the modelled language (any subset of
   nfConsumerIdentification / requestedUnit absent, malformed SUPI, unknown
   references, any order) is answered 2xx or 4xx.  The members outside the modelled
   language (pDUSessionChargingInformation and its nested optional members,
   nFPLMNID, recharging path parameter) and the lock release are covered by the
   exhaustive presence-lattice run of lib/p_charging.py (finite), not by a theorem. *)
From Coq Require Import List ZArith Bool.
From Verif Require Import Charging.Servers Charging.Chf Charging.ChfProofs.
Import ListNotations.
Open Scope Z_scope.

Theorem C11_no_5xx : forall rsize usize w o,
  In (rs_status (snd (step rsize usize w o))) [0; 200; 201; 204; 400; 404].
Proof. exact status_range. Qed.
Print Assumptions C11_no_5xx.

(* a rejected request leaves the subscriber as it was: the next request is handled
   from the same state *)
Theorem C11_rejected_then_next : forall rsize usize w o o',
  400 <= rs_status (snd (step rsize usize w o)) < 500 ->
  step rsize usize (fst (step rsize usize w o)) o' = step rsize usize w o'.
Proof.
  intros rsize usize w o o' H. pose proof (reject_no_effect rsize usize w o) as R.
  destruct (step rsize usize w o) as [w' r]. cbn [fst snd] in *. rewrite (R H). reflexivity.
Qed.
Print Assumptions C11_rejected_then_next.
