(* C01 over whole histories: balance plus reservation moves only by credits and by unit cost x
   reported online usage, for every account, along every history of requests. *)
From Coq Require Import List ZArith Lia Bool ZifyBool.
From Verif Require Import Charging.Servers Charging.ServersProofs Charging.Chf Charging.ChargeProofs.
Import ListNotations.
Open Scope Z_scope.

#[local] Arguments rf_sur : simpl never.
#[local] Arguments abmf_ccr : simpl never.
#[local] Arguments set_quota : simpl never.
#[local] Arguments lookup : simpl never.
#[local] Arguments charge_rg : simpl never.

(* ---- the accounts keep their tariff ---- *)

Definition cost_at (d : db) (s r : Z) : option (list Z) :=
  match lookup d s r with Some x => Some (d_cost x) | None => None end.

Lemma cost_set_quota d ue rg q s r : cost_at (set_quota d ue rg q) s r = cost_at d s r.
Proof.
  unfold cost_at. destruct (lookup d ue rg) as [x|] eqn:E.
  - destruct (Z.eq_dec s ue) as [->|Hs]; [destruct (Z.eq_dec r rg) as [->|Hr]|].
    + rewrite (lookup_set_same _ _ _ _ _ E), E. reflexivity.
    + rewrite lookup_set_other by congruence. reflexivity.
    + rewrite lookup_set_other by congruence. reflexivity.
  - rewrite (lookup_set_none _ _ _ _ E). reflexivity.
Qed.

Lemma abmf_cost d c s r : cost_at (fst (abmf_ccr d c)) s r = cost_at d s r.
Proof.
  unfold abmf_ccr. destruct (negb (c_has_sub c) || negb (c_has_mscc c)); [reflexivity|].
  destruct (lookup d (c_ue c) (c_rg c)) as [x|]; [|reflexivity].
  repeat match goal with
         | |- context [if ?b then _ else _] => destruct b
         | |- context [match ?o with Some _ => _ | None => _ end] => destruct o
         | |- context [let '(_, _) := remaining ?q in _] => destruct (remaining q)
         end; cbn [fst]; try reflexivity; apply cost_set_quota.
Qed.

Lemma charge_rg_cost d supi rg st req used s r :
  cost_at (fst (fst (charge_rg d supi rg st req used))) s r = cost_at d s r.
Proof.
  unfold charge_rg.
  destruct (q_mode st =? 1).
  - match goal with |- context [if ?c then match abmf_ccr d ?q with _ => _ end else _] =>
      destruct c; [pose proof (abmf_cost d q s r) as Ha; destruct (abmf_ccr d q) as [d1 [a|]]|] end; cbn [fst] in *.
    + destruct (rf_sur d1 _); cbn [fst]; exact Ha.
    + reflexivity.
    + destruct (rf_sur d _); reflexivity.
  - destruct (q_mode st =? 2); [|reflexivity].
    destruct (rf_sur d _) as [a|]; [|reflexivity].
    match goal with |- context [abmf_ccr d ?q] => pose proof (abmf_cost d q s r) as Ha; destruct (abmf_ccr d q) as [d1 [b|]] end;
      cbn [fst] in *; [exact Ha|reflexivity].
Qed.

(* ---- funds of one subscriber context ---- *)

Definition balance_of (d : db) (s r : Z) : Z := match lookup d s r with Some x => d_quota x | None => 0 end.

Lemma balance_bal d s r q : bal d s r = Some q -> balance_of d s r = q.
Proof. unfold bal, balance_of. destruct (lookup d s r); intros H; inversion H; reflexivity. Qed.

Lemma aget_aset_same m k v d : aget (aset m k v) k d = v.
Proof.
  induction m as [|[k' v'] m IH]; cbn [aset aget]; [rewrite Z.eqb_refl; reflexivity|].
  destruct (k' =? k) eqn:E; cbn [aget]; [rewrite Z.eqb_refl; reflexivity|rewrite E; exact IH].
Qed.

Lemma aget_aset_other m k v k' d : k' <> k -> aget (aset m k v) k' d = aget m k' d.
Proof.
  intros Hne. induction m as [|[k0 v0] m IH]; cbn [aset aget].
  - destruct (Z.eqb_spec k k'); [congruence|reflexivity].
  - destruct (k0 =? k) eqn:E; cbn [aget].
    + apply Z.eqb_eq in E. subst k0. destruct (Z.eqb_spec k k'); [congruence|reflexivity].
    + destruct (k0 =? k'); [reflexivity|exact IH].
Qed.

(* online usage of a request for one rating group *)
Definition used_of (g : usage) (r : Z) : Z :=
  if has_online (g_conts g) && (g_rg g =? r) then total_used (g_conts g) else 0.
Definition used_in (gs : list usage) (r : Z) : Z := fold_right (fun g a => used_of g r + a) 0 gs.

(* what one unit usage needs so that C01_round applies: the account exists, the rating group is in
   reserve or debit mode once the triggers are applied, and nothing wraps *)
Definition usage_ok (d : db) (u : uectx) (triggers : list Z) (g : usage) : Prop :=
  has_online (g_conts g) = true ->
  exists x, lookup d (u_supi u) (g_rg g) = Some x /\
    let m0 := if existsb (Z.eqb (g_rg g)) (u_rgs u) then aget (u_mode u) (g_rg g) 0 else 1 in
    let m1 := fst (trig_all (g_conts g) triggers (m0, false)) in
    (m1 = 1 \/ m1 = 2) /\
    round_ok (d_quota x) (aget (u_reserved u) (g_rg g) 0) (cost_of x) (total_used (g_conts g)) (reqv_of (g_req g)).

Lemma trig_all_fst cs triggers m p p' : fst (trig_all cs triggers (m, p)) = fst (trig_all cs triggers (m, p')).
Proof.
  unfold trig_all. revert m p p'. induction cs as [|k cs IH]; intros m p p'; [reflexivity|]. cbn [fold_left].
  destruct (k_qmi k =? 1); [|apply IH].
  assert (E : forall ts m p p', fst (fold_left (fun s t => if t =? 1 then (2, false) else (fst s, true)) ts (m, p)) =
                                fst (fold_left (fun s t => if t =? 1 then (2, false) else (fst s, true)) ts (m, p'))).
  { induction ts as [|t ts IHt]; intros m0 q q'; [reflexivity|]. cbn [fold_left fst]. destruct (t =? 1); [reflexivity|apply IHt]. }
  unfold trig_loop.
  destruct (fold_left _ triggers (m, p)) as [a b] eqn:E1. destruct (fold_left _ triggers (m, p')) as [a' b'] eqn:E2.
  pose proof (E triggers m p p') as H. rewrite E1, E2 in H. cbn [fst] in H. subst a'. apply IH.
Qed.

Definition ufunds (d : db) (u : uectx) (r : Z) : Z := balance_of d (u_supi u) r + aget (u_reserved u) r 0.

Lemma charge_usage_funds d u muis p triggers g r :
  usage_ok d u triggers g ->
  let '(d', u', _, _) := charge_usage (d, u, muis, p) triggers g in
  u_supi u' = u_supi u /\
  (forall xr, lookup d (u_supi u) r = Some xr -> ufunds d' u' r = ufunds d u r - cost_of xr * used_of g r) /\
  (forall s' r', s' <> u_supi u -> balance_of d' s' r' = balance_of d s' r') /\
  (forall s' r', cost_at d' s' r' = cost_at d s' r').
Proof.
  intros Hok. unfold charge_usage.
  set (rg := g_rg g).
  set (u1 := if existsb (Z.eqb rg) (u_rgs u) then u else _).
  assert (Hs1 : u_supi u1 = u_supi u) by (unfold u1; destruct (existsb _ _); reflexivity).
  assert (Hr1 : u_reserved u1 = u_reserved u) by (unfold u1; destruct (existsb _ _); reflexivity).
  destruct (trig_all (g_conts g) triggers (aget (u_mode u1) rg 0, p)) as [mode1 partial1] eqn:Et.
  destruct (has_online (g_conts g)) eqn:Eo; cbn [negb].
  2:{ (* offline usage: nothing is charged *)
      split; [exact Hs1|]. split; [|split; reflexivity].
      intros xr _. unfold ufunds, used_of. rewrite Eo, Hs1, Hr1. cbn [andb]. lia. }
  destruct (Hok Eo) as [x [Hx [Hm Hround]]]. fold rg in Hx, Hm, Hround.
  set (u2 := mkUe (u_supi u1) (u_rgs u1) (u_reserved u1) (aset (u_mode u1) rg mode1) (u_cost u1) (u_reqnum u1)
                  (u_notify u1) (u_cdr u1) (u_records u1) (u_sess u1)).
  assert (Hmode : q_mode (rg_get u2 rg) = 1 \/ q_mode (rg_get u2 rg) = 2).
  { unfold rg_get, u2. cbn [q_mode u_mode]. rewrite aget_aset_same.
    assert (E : mode1 = fst (trig_all (g_conts g) triggers (aget (u_mode u1) rg 0, p))) by (rewrite Et; reflexivity).
    rewrite (trig_all_fst _ _ _ p false) in E.
    assert (E0 : aget (u_mode u1) rg 0 = (if existsb (Z.eqb rg) (u_rgs u) then aget (u_mode u) rg 0 else 1)).
    { unfold u1. destruct (existsb (Z.eqb rg) (u_rgs u)); [reflexivity|]. cbn [u_mode]. apply aget_aset_same. }
    rewrite E0 in E. rewrite E. exact Hm. }
  assert (Hres : q_reserved (rg_get u2 rg) = aget (u_reserved u) rg 0).
  { unfold rg_get, u2. cbn [q_reserved u_reserved]. rewrite Hr1. reflexivity. }
  pose proof (charge_rg_conserves d (u_supi u) rg x (rg_get u2 rg) (g_req g) (total_used (g_conts g)) Hx Hmode) as Hc.
  rewrite Hres in Hc. specialize (Hc Hround).
  pose proof (charge_rg_cost d (u_supi u) rg (rg_get u2 rg) (g_req g) (total_used (g_conts g))) as Hcost.
  destruct (charge_rg d (u_supi u) rg (rg_get u2 rg) (g_req g) (total_used (g_conts g))) as [[d' st'] m] eqn:Ec.
  cbn [fst] in Hcost. destruct Hc as [Hbal Hframe].
  cbn [u_supi]. split; [unfold u2; cbn [u_supi]; exact Hs1|]. split; [|split].
  - intros xr Hl. unfold ufunds. cbn [u_supi u_reserved]. unfold u2. cbn [u_supi u_reserved]. rewrite Hs1, Hr1. unfold used_of. rewrite Eo. cbn [andb]. fold rg.
    destruct (Z.eqb_spec rg r) as [E|E].
    + subst r. rewrite Hx in Hl. inversion Hl; subst xr.
      rewrite (balance_bal _ _ _ _ Hbal), aget_aset_same. unfold balance_of. rewrite Hx. lia.
    + rewrite aget_aset_other by congruence.
      assert (Hb : bal d' (u_supi u) r = bal d (u_supi u) r) by (apply Hframe; congruence).
      unfold bal in Hb. unfold balance_of. destruct (lookup d' (u_supi u) r); destruct (lookup d (u_supi u) r); inversion Hb; lia.
  - intros s' r' Hne.
    assert (Hb : bal d' s' r' = bal d s' r') by (apply Hframe; congruence).
    unfold bal in Hb. unfold balance_of.
    destruct (lookup d' s' r'); destruct (lookup d s' r'); inversion Hb; reflexivity.
  - exact Hcost.
Qed.

(* ---- a whole request: the fold over its unit usages ---- *)

Fixpoint request_ok (d : db) (u : uectx) (muis : list mui) (p : bool) (triggers : list Z) (gs : list usage) : Prop :=
  match gs with
  | [] => True
  | g :: rest =>
    usage_ok d u triggers g /\
    let '(d', u', m', p') := charge_usage (d, u, muis, p) triggers g in request_ok d' u' m' p' triggers rest
  end.

Lemma cost_at_lookup d d' s r x :
  cost_at d' s r = cost_at d s r -> lookup d s r = Some x ->
  exists x', lookup d' s r = Some x' /\ cost_of x' = cost_of x.
Proof.
  unfold cost_at. intros H Hl. rewrite Hl in H. destruct (lookup d' s r) as [x'|]; [|discriminate].
  exists x'. split; [reflexivity|]. inversion H as [Hc]. unfold cost_of. rewrite Hc. reflexivity.
Qed.

Lemma charge_fold_funds triggers : forall gs d u muis p r,
  request_ok d u muis p triggers gs ->
  let '(d', u', _, _) := fold_left (fun acc g => charge_usage acc triggers g) gs (d, u, muis, p) in
  u_supi u' = u_supi u /\
  (forall xr, lookup d (u_supi u) r = Some xr -> ufunds d' u' r = ufunds d u r - cost_of xr * used_in gs r) /\
  (forall s' r', s' <> u_supi u -> balance_of d' s' r' = balance_of d s' r') /\
  (forall s' r', cost_at d' s' r' = cost_at d s' r').
Proof.
  induction gs as [|g rest IH]; intros d u muis p r Hok.
  - cbn [fold_left used_in fold_right]. split; [reflexivity|]. split; [intros; lia|]. split; reflexivity.
  - cbn [request_ok] in Hok. destruct Hok as [Hg Hrest]. cbn [fold_left].
    pose proof (charge_usage_funds d u muis p triggers g r Hg) as H1.
    destruct (charge_usage (d, u, muis, p) triggers g) as [[[d1 u1] m1] p1].
    destruct H1 as [Hs [Hf [Hb Hc]]].
    pose proof (IH d1 u1 m1 p1 r Hrest) as H2.
    destruct (fold_left (fun acc g0 => charge_usage acc triggers g0) rest (d1, u1, m1, p1)) as [[[d2 u2] m2] p2].
    destruct H2 as [Hs2 [Hf2 [Hb2 Hc2]]].
    split; [congruence|]. split; [|split].
    + intros xr Hl.
      destruct (cost_at_lookup d d1 (u_supi u) r xr (Hc _ _) Hl) as [x1 [Hl1 Hcost1]].
      rewrite <- Hs in Hl1. rewrite (Hf2 x1 Hl1), (Hf xr Hl), Hcost1.
      cbn [used_in fold_right]. fold (used_in rest r). lia.
    + intros s' r' Hne. rewrite Hb2 by congruence. apply Hb. exact Hne.
    + intros s' r'. rewrite Hc2. apply Hc.
Qed.

(* ---- the world ---- *)

Definition reserved_of (ues : list uectx) (s r : Z) : Z :=
  match find_ue ues s with Some u => aget (u_reserved u) r 0 | None => 0 end.
Definition funds (w : world) (s r : Z) : Z := balance_of (w_db w) s r + reserved_of (w_ues w) s r.

Lemma find_ue_supi l s u : find_ue l s = Some u -> u_supi u = s.
Proof.
  induction l as [|y l IH]; cbn [find_ue]; [discriminate|]. destruct (u_supi y =? s) eqn:E; [|exact IH].
  intros H. inversion H; subst. lia.
Qed.

Lemma find_put l u s : find_ue (put_ue l u) s = if u_supi u =? s then Some u else find_ue l s.
Proof.
  induction l as [|y l IH]; cbn [put_ue find_ue].
  - destruct (u_supi u =? s); reflexivity.
  - destruct (u_supi y =? u_supi u) eqn:E; cbn [find_ue].
    + destruct (u_supi u =? s) eqn:E2; [reflexivity|].
      assert (H : u_supi y =? s = false) by lia. rewrite H. reflexivity.
    + destruct (u_supi y =? s) eqn:E2.
      * assert (H : u_supi u =? s = false) by lia. rewrite H. reflexivity.
      * exact IH.
Qed.

(* replacing the context of subscriber s0 by one with reservations R *)
Lemma reserved_put l u s r :
  reserved_of (put_ue l u) s r = if u_supi u =? s then aget (u_reserved u) r 0 else reserved_of l s r.
Proof. unfold reserved_of. rewrite find_put. destruct (u_supi u =? s); reflexivity. Qed.

Section History.
  Variable rsize : record -> Z.
  Variable usize : list (Z * list entry) -> Z.
  Notation step := (step rsize usize).

  (* does an update / release reach the charging code: the subscriber and the session exist *)
  Definition reaches (w : world) (ref : list Z) (rq : request) : option uectx :=
    match find_ue (w_ues w) (r_supi rq) with
    | None => None
    | Some u =>
      match cdr_find (u_cdr u) ref with
      | None => None
      | Some idx => match nth_error (u_records u) idx with None => None | Some _ => Some u end
      end
    end.

  Definition op_ok (w : world) (o : op) : Prop :=
    match o with
    | Update ref rq | Release ref rq =>
      match reaches w ref rq with
      | Some u => request_ok (w_db w) u [] false (r_triggers rq) (r_usages rq)
      | None => True
      end
    | _ => True
    end.

  (* online units reported for (s, r) by an operation that is accepted *)
  Definition units_of (w : world) (o : op) (s r : Z) : Z :=
    match o with
    | Update ref rq | Release ref rq =>
      match reaches w ref rq with
      | Some _ => if r_supi rq =? s then used_in (r_usages rq) r else 0
      | None => 0
      end
    | _ => 0
    end.
  Definition credit_of (o : op) (s r : Z) : Z :=
    match o with Credit s' r' a => if (s' =? s) && (r' =? r) then a else 0 | _ => 0 end.

  (* what charging a request does to the funds of (s, r), whoever sends it *)
  Lemma charged_world (w : world) u rq s r x d' u1 muis partial :
    find_ue (w_ues w) (r_supi rq) = Some u ->
    lookup (w_db w) s r = Some x ->
    request_ok (w_db w) u [] false (r_triggers rq) (r_usages rq) ->
    charge_request (w_db w) u rq = (d', u1, muis, partial) ->
    u_supi u1 = r_supi rq /\
    balance_of d' s r + (if u_supi u1 =? s then aget (u_reserved u1) r 0 else reserved_of (w_ues w) s r) =
      funds w s r - cost_of x * (if r_supi rq =? s then used_in (r_usages rq) r else 0) /\
    cost_at d' s r = cost_at (w_db w) s r.
  Proof.
    intros Ef Hl Hok Ec. pose proof (find_ue_supi _ _ _ Ef) as Hsu. unfold charge_request in Ec.
    pose proof (charge_fold_funds (r_triggers rq) (r_usages rq) (w_db w) u [] false r Hok) as H.
    rewrite Ec in H. destruct H as [Hs1 [Hf [Hb Hc]]].
    split; [congruence|]. split; [|apply Hc].
    rewrite Hs1, Hsu. unfold funds, reserved_of.
    destruct (Z.eqb_spec (r_supi rq) s) as [E|E].
    - subst s. rewrite Ef. rewrite <- Hsu in Hl. specialize (Hf x Hl). unfold ufunds in Hf. rewrite Hs1, Hsu in Hf. lia.
    - rewrite (Hb s r) by congruence. lia.
  Qed.

  Lemma step_funds w o s r x :
    lookup (w_db w) s r = Some x -> op_ok w o ->
    funds (fst (step w o)) s r = funds w s r + credit_of o s r - cost_of x * units_of w o s r /\
    cost_at (w_db (fst (step w o))) s r = cost_at (w_db w) s r.
  Proof.
    intros Hl Hok. destruct o as [rq|ref rq|ref rq|s' r'|s' r' a|n]; cbn [step credit_of units_of].
    - (* create: no money moves; the subscriber context keeps its reservations *)
      unfold do_create. destruct (r_consumer rq) as [c|]; [|cbn [fst]; split; [lia|reflexivity]].
      destruct (match find_ue (w_ues w) (r_supi rq) with Some _ => false | None => negb (r_supi_ok rq) end);
        [cbn [fst]; split; [lia|reflexivity]|].
      cbn [fst w_db]. split; [|reflexivity]. unfold funds. cbn [w_db w_ues]. rewrite reserved_put.
      cbn [u_supi u_reserved]. unfold reserved_of.
      destruct (find_ue (w_ues w) (r_supi rq)) as [u0|] eqn:Ef.
      + rewrite (find_ue_supi _ _ _ Ef). destruct (r_supi rq =? s) eqn:E; [|lia].
        apply Z.eqb_eq in E. subst s. rewrite Ef. lia.
      + cbn [fresh_ue u_supi u_reserved]. destruct (r_supi rq =? s) eqn:E; [|lia].
        apply Z.eqb_eq in E. subst s. rewrite Ef. cbn [aget]. lia.
    - (* update *)
      unfold do_update. cbn [op_ok] in Hok. unfold reaches in *.
      destruct (find_ue (w_ues w) (r_supi rq)) as [u|] eqn:Ef; [|cbn [fst]; split; [lia|reflexivity]].
      destruct (cdr_find (u_cdr u) ref) as [idx|]; [|cbn [fst]; split; [lia|reflexivity]].
      destruct (nth_error (u_records u) idx) as [rec|]; [|cbn [fst]; split; [lia|reflexivity]].
      destruct (charge_request (w_db w) u rq) as [[[d' u1] muis] partial] eqn:Ec.
      destruct (charged_world w u rq s r x d' u1 muis partial Ef Hl Hok Ec) as [Hs1 [Hf Hc]].
      destruct (rsize rec + _ >? 65535); cbn [fst w_db w_ues]; (split; [|exact Hc]);
        unfold funds at 1; cbn [w_db w_ues]; rewrite reserved_put; cbn [u_supi u_reserved]; lia.
    - (* release *)
      unfold do_release. cbn [op_ok] in Hok. unfold reaches in *.
      destruct (find_ue (w_ues w) (r_supi rq)) as [u|] eqn:Ef; [|cbn [fst]; split; [lia|reflexivity]].
      destruct (cdr_find (u_cdr u) ref) as [idx|]; [|cbn [fst]; split; [lia|reflexivity]].
      destruct (nth_error (u_records u) idx) as [rec|]; [|cbn [fst]; split; [lia|reflexivity]].
      destruct (charge_request (w_db w) u rq) as [[[d' u1] muis] partial] eqn:Ec.
      destruct (charged_world w u rq s r x d' u1 muis partial Ef Hl Hok Ec) as [Hs1 [Hf Hc]].
      cbn [fst w_db w_ues]. split; [|exact Hc].
      unfold funds at 1. cbn [w_db w_ues]. rewrite reserved_put. cbn [u_supi u_reserved]. lia.
    - (* recharge: only the mode of the rating group changes *)
      unfold do_recharge. destruct (find_ue (w_ues w) s') as [u|] eqn:Ef; cbn [fst]; [|split; [lia|reflexivity]].
      split; [|reflexivity]. unfold funds. cbn [w_db w_ues]. rewrite reserved_put. cbn [u_supi u_reserved].
      rewrite (find_ue_supi _ _ _ Ef). unfold reserved_of. destruct (s' =? s) eqn:E; [|lia].
      apply Z.eqb_eq in E. subst s'. rewrite Ef. lia.
    - (* credit: the operator adds to the stored balance *)
      unfold do_credit. destruct (lookup (w_db w) s' r') as [y|] eqn:Ey; cbn [fst w_db w_ues].
      + split; [|apply cost_set_quota]. unfold funds. cbn [w_db w_ues]. unfold balance_of.
        destruct (Z.eqb_spec s' s) as [E1|E1]; [destruct (Z.eqb_spec r' r) as [E2|E2]|]; cbn [andb].
        * subst. rewrite (lookup_set_same _ _ _ _ _ Ey), Hl. rewrite Hl in Ey. inversion Ey; subst. cbn [d_quota]. lia.
        * rewrite lookup_set_other by congruence. rewrite Hl. lia.
        * rewrite lookup_set_other by congruence. rewrite Hl. lia.
      + split; [|reflexivity].
        destruct (Z.eqb_spec s' s) as [E1|E1]; [destruct (Z.eqb_spec r' r) as [E2|E2]|]; cbn [andb]; try lia.
        subst. congruence.
    - (* elapse *)
      cbn [fst]. split; [unfold funds; cbn [w_db w_ues]; lia|reflexivity].
  Qed.

  (* ---- histories ---- *)

  Fixpoint history_ok (w : world) (ops : list op) : Prop :=
    match ops with [] => True | o :: rest => op_ok w o /\ history_ok (fst (step w o)) rest end.
  Fixpoint rated (w : world) (ops : list op) (s r : Z) : Z :=
    match ops with [] => 0 | o :: rest => units_of w o s r + rated (fst (step w o)) rest s r end.
  Definition credited (ops : list op) (s r : Z) : Z := fold_right (fun o a => credit_of o s r + a) 0 ops.

  Theorem history_funds : forall ops w s r x,
    lookup (w_db w) s r = Some x -> history_ok w ops ->
    funds (run rsize usize w ops) s r = funds w s r + credited ops s r - cost_of x * rated w ops s r.
  Proof.
    induction ops as [|o rest IH]; intros w s r x Hl Hok.
    - cbn [run fold_left credited fold_right rated]. lia.
    - cbn [history_ok] in Hok. destruct Hok as [Ho Hrest].
      destruct (step_funds w o s r x Hl Ho) as [Hf Hc].
      destruct (cost_at_lookup (w_db w) (w_db (fst (step w o))) s r x Hc Hl) as [x1 [Hl1 Hcost1]].
      unfold run in *. cbn [fold_left]. rewrite (IH (fst (step w o)) s r x1 Hl1 Hrest), Hf, Hcost1.
      cbn [credited fold_right rated]. fold (credited rest s r). lia.
  Qed.
End History.

(* ---- the hypotheses, decidably: used to count how many of the harness's histories lie in the
   theorem's domain, and to discharge them on concrete histories ---- *)

Definition round_okb (q R cost used reqv : Z) : bool :=
  (- 2 ^ 61 <? q) && (q <? 2 ^ 61) && (- 2 ^ 61 <? R) && (R <? 2 ^ 61) && (0 <=? used) && (used <? 2 ^ 31) &&
  (0 <=? reqv) && (reqv <? 2 ^ 31) && (0 <? cost) && (used * cost <? 2 ^ 32) && (reqv * cost <? 2 ^ 32).

Lemma round_okb_ok q R cost used reqv : round_okb q R cost used reqv = true -> round_ok q R cost used reqv.
Proof.
  unfold round_okb. intros H. repeat (apply andb_prop in H; destruct H as [H ?]).
  constructor; lia.
Qed.

Definition usage_okb (d : db) (u : uectx) (triggers : list Z) (g : usage) : bool :=
  if has_online (g_conts g) then
    match lookup d (u_supi u) (g_rg g) with
    | None => false
    | Some x =>
      let m0 := if existsb (Z.eqb (g_rg g)) (u_rgs u) then aget (u_mode u) (g_rg g) 0 else 1 in
      let m1 := fst (trig_all (g_conts g) triggers (m0, false)) in
      ((m1 =? 1) || (m1 =? 2)) &&
      round_okb (d_quota x) (aget (u_reserved u) (g_rg g) 0) (cost_of x) (total_used (g_conts g)) (reqv_of (g_req g))
    end
  else true.

Lemma usage_okb_ok d u triggers g : usage_okb d u triggers g = true -> usage_ok d u triggers g.
Proof.
  unfold usage_okb, usage_ok. intros H Ho. rewrite Ho in H.
  destruct (lookup d (u_supi u) (g_rg g)) as [x|]; [|discriminate]. exists x. split; [reflexivity|].
  cbv zeta in H. apply andb_prop in H. destruct H as [Hm Hr]. split; [lia|apply round_okb_ok; exact Hr].
Qed.

Fixpoint request_okb (d : db) (u : uectx) (muis : list mui) (p : bool) (triggers : list Z) (gs : list usage) : bool :=
  match gs with
  | [] => true
  | g :: rest =>
    usage_okb d u triggers g &&
    let '(d', u', m', p') := charge_usage (d, u, muis, p) triggers g in request_okb d' u' m' p' triggers rest
  end.

Lemma request_okb_ok triggers : forall gs d u muis p,
  request_okb d u muis p triggers gs = true -> request_ok d u muis p triggers gs.
Proof.
  induction gs as [|g rest IH]; intros d u muis p H; [exact I|]. cbn [request_okb request_ok] in *.
  apply andb_prop in H. destruct H as [Hg Hr]. split; [apply usage_okb_ok; exact Hg|].
  destruct (charge_usage (d, u, muis, p) triggers g) as [[[d1 u1] m1] p1]. apply IH. exact Hr.
Qed.

Section HistoryB.
  Variable rsize : record -> Z.
  Variable usize : list (Z * list entry) -> Z.

  Definition op_okb (w : world) (o : op) : bool :=
    match o with
    | Update ref rq | Release ref rq =>
      match reaches w ref rq with
      | Some u => request_okb (w_db w) u [] false (r_triggers rq) (r_usages rq)
      | None => true
      end
    | _ => true
    end.

  Fixpoint history_okb (w : world) (ops : list op) : bool :=
    match ops with [] => true | o :: rest => op_okb w o && history_okb (fst (step rsize usize w o)) rest end.

  Lemma history_okb_ok : forall ops w, history_okb w ops = true -> history_ok rsize usize w ops.
  Proof.
    induction ops as [|o rest IH]; intros w H; [exact I|]. cbn [history_okb history_ok] in *.
    apply andb_prop in H. destruct H as [Ho Hr]. split; [|apply IH; exact Hr].
    destruct o; try exact I; cbn [op_okb op_ok] in *;
      (destruct (reaches w ref r) as [u|]; [apply request_okb_ok; exact Ho|exact I]).
  Qed.
End HistoryB.
