(* C01 — credit is conserved. *)
From Coq Require Import List ZArith Bool.
From Verif Require Import Charging.Servers Charging.ServersProofs Charging.Chf Charging.ChargeProofs Charging.HistoryProofs.
Import ListNotations.
Open Scope Z_scope.

(* One credit-control round for one rating group (the loop body of
   sessionChargingReservation, with the real ABMF and RF models behind it), in
   reserve or debit mode, with or without a new reservation, refund or excess
   debit: the stored balance plus the reservation held by the CHF drops by exactly
   unit cost x reported online usage, and no other account is touched.
   [round_ok]: the products fit the Unsigned32 AVPs and balances are far from the
   int64 limits (the property's own proviso). *)
Theorem C01_round : forall d supi rg x st req used,
  lookup d supi rg = Some x -> (q_mode st = 1 \/ q_mode st = 2) ->
  round_ok (d_quota x) (q_reserved st) (cost_of x) used (reqv_of req) ->
  let '(d', st', _) := charge_rg d supi rg st req used in
  bal d' supi rg = Some (d_quota x + q_reserved st - cost_of x * used - q_reserved st') /\
  (forall ue' rg', (ue', rg') <> (supi, rg) -> bal d' ue' rg' = bal d ue' rg').
Proof. exact charge_rg_conserves. Qed.
Print Assumptions C01_round.

(* Along every history of creates, updates, releases, recharges, credits and counter jumps, for every
   account (s, r): stored balance + reservation held by the CHF = what it was at the start + what the
   operator credited - unit cost x the online usage reported for it by the updates and releases the CHF
   accepted.  history_ok: at every credit-control round of the history the account of the rated group
   exists and nothing wraps (round_ok, the proviso of C01_round); it is decidable (history_okb) and is
   evaluated on the harness's histories.  Usage carried by a create is not in [rated]: the model, like the
   code, performs no credit control there (known finding C01/usage-in-create-not-rated). *)
Theorem C01_history : forall rsize usize ops w s r x,
  lookup (w_db w) s r = Some x -> history_ok rsize usize w ops ->
  funds (run rsize usize w ops) s r = funds w s r + credited ops s r - cost_of x * rated rsize usize w ops s r.
Proof. exact history_funds. Qed.
Print Assumptions C01_history.

Theorem C01_history_decidable : forall rsize usize ops w,
  history_okb rsize usize w ops = true -> history_ok rsize usize w ops.
Proof. exact history_okb_ok. Qed.
Print Assumptions C01_history_decidable.

(* non-vacuity: balance 1000, cost 2, reservation 50 of which 20 units (40) are
   reported used, 100 units requested *)
Example C01_nonvacuous :
  let d := [mkDoc 1 1 1000 [50]] in
  round_ok 1000 50 2 20 100 /\
  charge_rg d 1 1 (mkRg 50 1 2 0) (Some 100) 20 =
  ([mkDoc 1 1 810 [50]], mkRg 200 1 2 1, Some (mkMui 1 (Some 100) false)).
Proof. split; [constructor; vm_compute; (split; congruence || reflexivity || discriminate) | vm_compute; reflexivity]. Qed.
