(* Correspondence between the charging model (Chf.v, with record sizes from the
   BER encoder model) and the observations of harness/cmd/chargesim, which runs
   the real CHF (gin router, processor, Diameter clients, RF and ABMF servers,
   fake MongoDB) on generated histories.  Written by lib/p_charging.py.
   Codes: 1 status / reference / sequence echo   2 MultipleUnitInformation
          3 stored balances   4 reservation, mode, unit cost, request number
          5 records (content, order)   6 session reference -> record map
          7 notifications   8 record sizes (BER length)   9 record counter *)
From Coq Require Import List ZArith Bool.
From Verif Require Import Common.Outcome Common.Bytes Charging.Servers Charging.Chf Charging.HistoryProofs Charging.OverdraftHistory Charging.RecordBer.
Import ListNotations.
Open Scope Z_scope.

(* maps are compared up to order and zero entries *)
Fixpoint ins (e : Z * Z) (l : amap) : amap :=
  match l with [] => [e] | x :: r => if fst e <=? fst x then e :: l else x :: ins e r end.
Definition norm (m : amap) : amap :=
  fold_right ins [] (filter (fun e => negb (snd e =? 0)) m).
Fixpoint amap_eqb (a b : amap) : bool :=
  match a, b with
  | [], [] => true
  | (k, v) :: r, (k', v') :: s => (k =? k') && (v =? v') && amap_eqb r s
  | _, _ => false
  end.

Record rec_obs := mkRobs {
  ro_sid : list Z; ro_cid : Z; ro_consumer : list Z; ro_lrsn : Z; ro_cause : Z; ro_seq : Z;
  ro_usages : list entry; ro_berlen : Z }.

Record ue_obs := mkUobs {
  uo_supi : Z; uo_reserved : amap; uo_mode : amap; uo_cost : amap; uo_reqnum : amap;
  uo_cdr : list (list Z * Z); uo_records : list rec_obs }.

Record obs := mkObs {
  ob_status : Z; ob_ref : list Z; ob_seq : Z; ob_muis : list (Z * Z * bool);
  ob_quotas : list Z;
  ob_ues : list ue_obs;      (* the subscriber contexts whose observation changed at this step (all of them at the last step) *)
  ob_nues : Z;               (* how many subscriber contexts the CHF holds *)
  ob_lrsn : Z; ob_notes : list (Z * Z * Z) }.

Definition entry_eqb (a b : entry) : bool :=
  let '(a1, a2, a3, a4, a5, a6) := a in let '(b1, b2, b3, b4, b5, b6) := b in
  (a1 =? b1) && (a2 =? b2) && (a3 =? b3) && (a4 =? b4) && (a5 =? b5) && (a6 =? b6).
Fixpoint list_eqb {A B} (eqb : A -> B -> bool) (a : list A) (b : list B) : bool :=
  match a, b with
  | [], [] => true
  | x :: r, y :: s => eqb x y && list_eqb eqb r s
  | _, _ => false
  end.

Definition flat_usages (r : record) : list entry := flat_map snd (rec_usages r).

Definition rec_matches (r : record) (o : rec_obs) : bool :=
  str_eqb (rec_sid r) (ro_sid o) && (rec_cid r =? ro_cid o) && str_eqb (rec_consumer r) (ro_consumer o) &&
  (rec_lrsn r =? ro_lrsn o) && (rec_cause r =? ro_cause o) &&
  ((match rec_seq r with Some s => s | None => -1 end) =? ro_seq o) &&
  list_eqb entry_eqb (flat_usages r) (ro_usages o).

Definition cdrmap_eqb (m : list (list Z * nat)) (o : list (list Z * Z)) : bool :=
  (* same keys, same indices; order-insensitive: every model entry is in the observation and sizes agree *)
  (Nat.eqb (length m) (length o)) &&
  forallb (fun e => existsb (fun e' => str_eqb (fst e) (fst e') && (Z.of_nat (snd e) =? snd e')) o) m.

Definition mui_eqb (m : mui) (o : Z * Z * bool) : bool :=
  let '(rg, g, f) := o in
  (m_rg m =? rg) && ((match m_granted m with Some x => x | None => -1 end) =? g) && Bool.eqb (m_fui m) f.

Fixpoint quotas_eqb (d : db) (qs : list Z) : bool :=
  match d, qs with
  | [], [] => true
  | x :: r, q :: s => (d_quota x =? q) && quotas_eqb r s
  | _, _ => false
  end.

Definition ue_codes (u : uectx) (o : ue_obs) : list Z :=
  (if amap_eqb (norm (u_reserved u)) (norm (uo_reserved o)) && amap_eqb (norm (u_mode u)) (norm (uo_mode o)) &&
      amap_eqb (norm (u_cost u)) (norm (uo_cost o)) && amap_eqb (norm (u_reqnum u)) (norm (uo_reqnum o))
   then [] else [4]) ++
  (if list_eqb (fun r o => rec_matches r o) (u_records u) (uo_records o) then [] else [5]) ++
  (if cdrmap_eqb (u_cdr u) (uo_cdr o) then [] else [6]) ++
  (* -2: the record holds information outside the model (PDU session stratum): sizes not compared *)
  (if list_eqb (fun r o => (ro_berlen o =? -2) || (rsize r =? ro_berlen o)) (u_records u) (uo_records o) then [] else [8]).

(* an observation with ob_lrsn = -1 carries the answer only (a request served inside a concurrent
   burst: the state is observed once, after the burst) *)
Definition compare (w : world) (r : resp) (o : obs) : list Z :=
  (if (rs_status r =? ob_status o) && str_eqb (rs_ref r) (ob_ref o) && (rs_seq r =? ob_seq o) then [] else [1]) ++
  (if list_eqb mui_eqb (rs_mui r) (ob_muis o) then [] else [2]) ++
  if ob_lrsn o =? -1 then [] else
  (if quotas_eqb (w_db w) (ob_quotas o) then [] else [3]) ++
  flat_map (fun uo => match find_ue (w_ues w) (uo_supi uo) with
                      | Some u => ue_codes u uo
                      | None => [4; 5; 6]
                      end) (ob_ues o) ++
  (if Z.of_nat (length (w_ues w)) =? ob_nues o then [] else [4]) ++
  (if list_eqb (fun a b => let '(a1, a2, a3) := a in let '(b1, b2, b3) := b in (a1 =? b1) && (a2 =? b2) && (a3 =? b3))
               (w_notes w) (ob_notes o) then [] else [7]) ++
  (if w_lrsn w =? ob_lrsn o then [] else [9]).

Record hcase := mkHcase { hc_id : Z; hc_db : db; hc_lrsn : Z; hc_steps : list (op * obs) }.

(* after a divergence the run goes on from the model state: one report per history *)
Fixpoint run_steps (id k : Z) (w : world) (steps : list (op * obs)) : list (Z * Z * Z) :=
  match steps with
  | [] => []
  | (o, ob) :: r =>
    let '(w', rs) := step rsize usize w o in
    match compare w' rs ob with
    | [] => run_steps id (k + 1) w' r
    | codes => map (fun c => (id, k, c)) codes
    end
  end.

(* how many of the cases satisfy the hypotheses of C01_history (and how many there are) *)
Definition in_domain (cs : list hcase) : Z * Z :=
  (Z.of_nat (length (filter (fun c => history_okb rsize usize (mkWorld (hc_db c) [] (hc_lrsn c) [] []) (map fst (hc_steps c))) cs)),
   Z.of_nat (length cs)).

(* ... and of C06_history: balances start non-negative, history_ok, and the consumer stays within the
   grants of the model's answers (which the correspondence compares with the real answers) *)
Definition in_domain_c06 (cs : list hcase) : Z * Z :=
  (Z.of_nat (length (filter (fun c =>
     let w := mkWorld (hc_db c) [] (hc_lrsn c) [] [] in
     nonnegb (hc_db c) && history_okb rsize usize w (map fst (hc_steps c)) &&
     history_compliantb rsize usize (fun _ _ => 0) w (map fst (hc_steps c))) cs)),
   Z.of_nat (length cs)).

Definition run_hist (cs : list hcase) : list (Z * Z * Z) :=
  flat_map (fun c => run_steps (hc_id c) 0 (mkWorld (hc_db c) [] (hc_lrsn c) [] []) (hc_steps c)) cs.
