(* Proofs about the charging model: session references (C10), rejections (C12). *)
From Coq Require Import List ZArith Lia Bool ZifyBool.
From Verif Require Import Charging.Servers Charging.Chf.
Import ListNotations.
Open Scope Z_scope.

Ltac Zify.zify_post_hook ::= Z.div_mod_to_equations.

(* ---------- decimal strings ---------- *)

Lemma dec_digits_spec fuel : forall n acc,
  0 <= n < 10 ^ Z.of_nat fuel -> (0 < fuel)%nat ->
  exists ds, dec_digits fuel n acc = ds ++ acc /\ ds <> [] /\
             Forall (fun c => 48 <= c <= 57) ds /\ digits_val ds 0 = n /\
             (forall a, digits_val (ds ++ a) 0 = digits_val a n).
Proof.
  induction fuel as [|k IH]; intros n acc Hn Hf; [lia|].
  cbn [dec_digits].
  destruct (n / 10 =? 0) eqn:E.
  - exists [48 + n mod 10]. assert (n < 10) by lia.
    repeat split; try discriminate.
    + constructor; [lia | constructor].
    + cbn [digits_val]. lia.
    + intros a. cbn [app digits_val]. f_equal. lia.
  - destruct k as [|k'].
    { exfalso. change (10 ^ Z.of_nat 1) with 10 in Hn. lia. }
    assert (Hq : 0 <= n / 10 < 10 ^ Z.of_nat (S k')).
    { split; [lia|]. apply Z.div_lt_upper_bound; [lia|].
      replace (Z.of_nat (S (S k'))) with (1 + Z.of_nat (S k')) in Hn by lia.
      rewrite Z.pow_add_r in Hn by lia. lia. }
    destruct (IH (n / 10) ((48 + n mod 10) :: acc) Hq ltac:(lia)) as [ds [E1 [E2 [E3 [E4 E5]]]]].
    exists (ds ++ [48 + n mod 10]). rewrite E1, <- app_assoc. cbn [app].
    repeat split.
    + destruct ds; discriminate.
    + apply Forall_app. split; [exact E3 | constructor; [lia | constructor]].
    + rewrite E5. cbn [digits_val]. lia.
    + intros a. rewrite <- app_assoc. rewrite E5. cbn [app digits_val]. f_equal. lia.
Qed.

Lemma itoa_spec n : 0 <= n < 10 ^ 20 ->
  itoa n <> [] /\ Forall (fun c => 48 <= c <= 57) (itoa n) /\ digits_val (itoa n) 0 = n.
Proof.
  intros Hn. unfold itoa. replace (n <? 0) with false by lia.
  destruct (dec_digits_spec 20 n [] ltac:(change (Z.of_nat 20) with 20; lia) ltac:(lia)) as [ds [E1 [E2 [E3 [E4 _]]]]].
  rewrite E1, app_nil_r. repeat split; assumption.
Qed.

Lemma itoa_inj n m : 0 <= n < 10 ^ 20 -> 0 <= m < 10 ^ 20 -> itoa n = itoa m -> n = m.
Proof.
  intros Hn Hm E. destruct (itoa_spec n Hn) as [_ [_ E1]]. destruct (itoa_spec m Hm) as [_ [_ E2]].
  rewrite <- E1, <- E2, E. reflexivity.
Qed.

(* the text after the last '-' of a string *)
Fixpoint after_last_dash (s : list Z) (cur : list Z) : list Z :=
  match s with
  | [] => cur
  | c :: r => if c =? 45 then after_last_dash r r else after_last_dash r cur
  end.

Lemma after_last_dash_digits ds : forall cur, Forall (fun c => 48 <= c <= 57) ds ->
  after_last_dash ds cur = cur.
Proof.
  induction ds as [|c ds IH]; intros cur H; cbn [after_last_dash]; [reflexivity|].
  inversion H; subst. replace (c =? 45) with false by lia. apply IH. assumption.
Qed.

Lemma after_last_dash_app p ds : forall cur, Forall (fun c => 48 <= c <= 57) ds ->
  after_last_dash (p ++ [45] ++ ds) cur = ds.
Proof.
  induction p as [|c p IH]; intros cur H.
  - cbn [app after_last_dash Z.eqb Pos.eqb]. apply after_last_dash_digits, H.
  - cbn [app after_last_dash]. destruct (c =? 45); apply IH; assumption.
Qed.

(* any prefix (SUPI, consumer name, whatever they contain) followed by "-" and a
   decimal counter determines the counter *)
Theorem reference_determines_counter p1 p2 n1 n2 :
  0 <= n1 < 10 ^ 20 -> 0 <= n2 < 10 ^ 20 ->
  p1 ++ [45] ++ itoa n1 = p2 ++ [45] ++ itoa n2 -> n1 = n2.
Proof.
  intros H1 H2 E.
  destruct (itoa_spec n1 H1) as [_ [D1 _]]. destruct (itoa_spec n2 H2) as [_ [D2 _]].
  apply itoa_inj; try assumption.
  rewrite <- (after_last_dash_app p1 (itoa n1) [] D1), <- (after_last_dash_app p2 (itoa n2) [] D2), E.
  reflexivity.
Qed.

(* ---------- the record counter along a run ---------- *)

Section Run.
  Variable rsize : record -> Z.
  Variable usize : list (Z * list entry) -> Z.

  Lemma step_lrsn w o :
    w_lrsn (fst (step rsize usize w o)) = w_lrsn w \/
    (w_lrsn (fst (step rsize usize w o)) = u64 (w_lrsn w + 1) /\
     exists consumer, rs_ref (snd (step rsize usize w o)) = session_suffix consumer (w_lrsn w) /\
                      rs_status (snd (step rsize usize w o)) = 201) \/
    (exists n, o = Elapse n /\ w_lrsn (fst (step rsize usize w o)) = u64 (w_lrsn w + Z.max 0 n) /\
               rs_status (snd (step rsize usize w o)) = 0).
  Proof.
    destruct o as [r|ref r|ref r|supi rg|supi rg a|n]; cbn [step].
    - unfold do_create. destruct (r_consumer r) as [c|]; [|left; reflexivity].
      destruct (match find_ue (w_ues w) (r_supi r) with Some _ => false | None => negb (r_supi_ok r) end);
        [left; reflexivity|].
      right; left. cbn [fst snd w_lrsn rs_ref rs_status]. split; [reflexivity|]. exists c. split; reflexivity.
    - left. unfold do_update. destruct (find_ue (w_ues w) (r_supi r)) as [u|]; [|reflexivity].
      destruct (cdr_find (u_cdr u) ref) as [idx|]; [|reflexivity].
      destruct (nth_error (u_records u) idx) as [rec|]; [|reflexivity].
      destruct (charge_request (w_db w) u r) as [[[d' u1] muis] partial].
      destruct (rsize rec + _ >? 65535); reflexivity.
    - left. unfold do_release. destruct (find_ue (w_ues w) (r_supi r)) as [u|]; [|reflexivity].
      destruct (cdr_find (u_cdr u) ref) as [idx|]; [|reflexivity].
      destruct (nth_error (u_records u) idx) as [rec|]; [|reflexivity].
      destruct (charge_request (w_db w) u r) as [[[d' u1] muis] partial]. reflexivity.
    - left. unfold do_recharge. destruct (find_ue (w_ues w) supi); reflexivity.
    - left. unfold do_credit. destruct (lookup (w_db w) supi rg); reflexivity.
    - right; right. exists n. repeat split.
  Qed.

  (* how far one operation can advance the record counter *)
  Definition weight (o : op) : Z := match o with Elapse n => Z.max 0 n | _ => 1 end.
  Definition span (ops : list op) : Z := fold_right (fun o a => weight o + a) 0 ops.
  Lemma weight_nonneg o : 0 <= weight o.  Proof. destruct o; cbn; lia. Qed.
  Lemma span_nonneg ops : 0 <= span ops.
  Proof. induction ops as [|o ops IH]; cbn [span fold_right]; [lia|]. pose proof (weight_nonneg o). fold (span ops). lia. Qed.

  Lemma step_advance w o w' rs :
    step rsize usize w o = (w', rs) -> 0 <= w_lrsn w -> w_lrsn w + weight o < 2 ^ 64 ->
    w_lrsn w <= w_lrsn w' <= w_lrsn w + weight o.
  Proof.
    intros Es H0 Hb. pose proof (step_lrsn w o) as Hs. rewrite Es in Hs. cbn [fst snd] in Hs.
    pose proof (weight_nonneg o) as Hw.
    destruct Hs as [Hs|[[Hs [c [_ E201]]]|[n [-> [Hs _]]]]].
    - rewrite Hs. lia.
    - assert (weight o = 1) as Hw1.
      { destruct o; try reflexivity. cbn [step snd rs_status] in Es. inversion Es; subst. discriminate. }
      rewrite Hs. unfold u64. rewrite Z.mod_small by lia. lia.
    - rewrite Hs. cbn [weight] in *. unfold u64. rewrite Z.mod_small by lia. lia.
  Qed.

  (* references handed out by the creates of a run, with the counter they used *)
  Fixpoint created (w : world) (ops : list op) : list (list Z * Z) :=
    match ops with
    | [] => []
    | o :: r =>
      let '(w', rs) := step rsize usize w o in
      (if rs_status rs =? 201 then [(rs_ref rs, w_lrsn w)] else []) ++ created w' r
    end.

  (* a 201 answer only comes from a create, which advances the counter by one *)
  Lemma created_head_counter : forall o w w' rs,
    step rsize usize w o = (w', rs) -> rs_status rs = 201 ->
    0 <= w_lrsn w < 2 ^ 64 - 1 ->
    w_lrsn w' = w_lrsn w + 1 /\ weight o = 1 /\ exists c, rs_ref rs = session_suffix c (w_lrsn w).
  Proof.
    intros o w w' rs Es E201 Hb. pose proof (step_lrsn w o) as Hs. rewrite Es in Hs. cbn [fst snd] in Hs.
    destruct Hs as [Hs|[[Hs [c [Hc _]]]|[n [-> [_ Hz]]]]].
    - exfalso. destruct o as [r|ref r|ref r|supi rg|supi rg a|n]; cbn [step] in Es.
      + unfold do_create in Es. destruct (r_consumer r); [|inversion Es; subst; discriminate].
        destruct (match find_ue (w_ues w) (r_supi r) with Some _ => false | None => negb (r_supi_ok r) end);
          inversion Es; subst; try discriminate. cbn [w_lrsn] in Hs. unfold u64 in Hs. lia.
      + unfold do_update in Es. destruct (find_ue (w_ues w) (r_supi r)) as [u|]; [|inversion Es; subst; discriminate].
        destruct (cdr_find (u_cdr u) ref) as [idx|]; [|inversion Es; subst; discriminate].
        destruct (nth_error (u_records u) idx) as [rec|]; [|inversion Es; subst; discriminate].
        destruct (charge_request (w_db w) u r) as [[[d' u1] muis] partial].
        destruct (rsize rec + _ >? 65535); inversion Es; subst; discriminate.
      + unfold do_release in Es. destruct (find_ue (w_ues w) (r_supi r)) as [u|]; [|inversion Es; subst; discriminate].
        destruct (cdr_find (u_cdr u) ref) as [idx|]; [|inversion Es; subst; discriminate].
        destruct (nth_error (u_records u) idx) as [rec|]; [|inversion Es; subst; discriminate].
        destruct (charge_request (w_db w) u r) as [[[d' u1] muis] partial]. inversion Es; subst; discriminate.
      + unfold do_recharge in Es. destruct (find_ue (w_ues w) supi); inversion Es; subst; discriminate.
      + unfold do_credit in Es. destruct (lookup (w_db w) supi rg); inversion Es; subst; discriminate.
      + inversion Es; subst; discriminate.
    - split; [rewrite Hs; unfold u64; lia|]. split; [|exists c; exact Hc].
      destruct o; try reflexivity. cbn [step] in Es. inversion Es; subst. discriminate.
    - rewrite Hz in E201. discriminate.
  Qed.

  Lemma created_counters : forall ops w e,
    0 <= w_lrsn w -> w_lrsn w + span ops < 2 ^ 64 ->
    In e (created w ops) ->
    w_lrsn w <= snd e < w_lrsn w + span ops /\ exists c, fst e = session_suffix c (snd e).
  Proof.
    induction ops as [|o ops IH]; intros w e H0 Hb Hin; [contradiction|].
    cbn [created] in Hin. cbn [span fold_right] in Hb |- *. fold (span ops) in Hb |- *.
    pose proof (span_nonneg ops) as Hsp. pose proof (weight_nonneg o) as Hw.
    destruct (step rsize usize w o) as [w' rs] eqn:Es.
    pose proof (step_advance w o w' rs Es H0 ltac:(lia)) as Hl.
    apply in_app_or in Hin. destruct Hin as [Hin|Hin].
    - destruct (rs_status rs =? 201) eqn:E201; [|contradiction].
      destruct Hin as [<-|[]]. cbn [fst snd].
      destruct (created_head_counter o w w' rs Es ltac:(lia)) as [Hn [Hw1 [c Hc]]].
      { destruct (Z.eq_dec (weight o) 0) as [Hz|Hz]; [|lia].
        (* weight 0 is an Elapse, which never answers 201 *)
        destruct o; cbn [weight] in Hz; try discriminate. cbn [step] in Es. inversion Es; subst. discriminate. }
      split; [lia | exists c; exact Hc].
    - destruct (IH w' e ltac:(lia) ltac:(lia) Hin) as [[A B] C].
      split; [lia | exact C].
  Qed.

  (* every create of a run gets a reference different from all the others,
     whatever the subscriber identities and consumer names, as long as the
     64-bit record counter does not wrap *)
  Theorem references_unique : forall ops w,
    0 <= w_lrsn w -> w_lrsn w + span ops < 2 ^ 64 ->
    NoDup (map fst (created w ops)).
  Proof.
    induction ops as [|o ops IH]; intros w H0 Hb; [constructor|].
    cbn [created]. cbn [span fold_right] in Hb. fold (span ops) in Hb.
    pose proof (span_nonneg ops) as Hsp. pose proof (weight_nonneg o) as Hw.
    destruct (step rsize usize w o) as [w' rs] eqn:Es.
    pose proof (step_advance w o w' rs Es H0 ltac:(lia)) as Hl.
    destruct (rs_status rs =? 201) eqn:E201.
    - cbn [app map fst]. constructor; [|apply IH; lia].
      assert (Hlt : w_lrsn w < 2 ^ 64 - 1).
      { destruct (Z.eq_dec (weight o) 0) as [Hz|Hz]; [|lia].
        destruct o; cbn [weight] in Hz; try discriminate. cbn [step] in Es. inversion Es; subst. discriminate. }
      destruct (created_head_counter o w w' rs Es ltac:(lia) ltac:(lia)) as [Hn [Hw1 [c Hc]]].
      intros Hin. apply in_map_iff in Hin. destruct Hin as [e [He Hin]].
      destruct (created_counters ops w' e ltac:(lia) ltac:(lia) Hin) as [[A B] [c' Hc']].
      rewrite Hc' in He. rewrite Hc in He. unfold session_suffix in He.
      assert (P : 2 ^ 64 < 10 ^ 20) by reflexivity.
      pose proof (reference_determines_counter c' c (snd e) (w_lrsn w) ltac:(lia) ltac:(lia) He). lia.
    - cbn [app]. apply IH; lia.
  Qed.
End Run.

(* ---------- C12: a rejected request changes nothing ---------- *)

Theorem reject_no_effect rsize usize w o :
  let '(w', r) := step rsize usize w o in
  400 <= rs_status r < 500 -> w' = w.
Proof.
  destruct o as [r|ref r|ref r|supi rg|supi rg a|n]; cbn [step].
  - unfold do_create. destruct (r_consumer r) as [c|]; [|intros; reflexivity].
    destruct (match find_ue (w_ues w) (r_supi r) with Some _ => false | None => negb (r_supi_ok r) end);
      [intros; reflexivity|]. cbn [rs_status]. lia.
  - unfold do_update. destruct (find_ue (w_ues w) (r_supi r)) as [u|]; [|intros; reflexivity].
    destruct (cdr_find (u_cdr u) ref) as [idx|]; [|intros; reflexivity].
    destruct (nth_error (u_records u) idx) as [rec|]; [|intros; reflexivity].
    destruct (charge_request (w_db w) u r) as [[[d' u1] muis] partial].
    destruct (rsize rec + _ >? 65535); cbn [rs_status]; lia.
  - unfold do_release. destruct (find_ue (w_ues w) (r_supi r)) as [u|]; [|intros; reflexivity].
    destruct (cdr_find (u_cdr u) ref) as [idx|]; [|intros; reflexivity].
    destruct (nth_error (u_records u) idx) as [rec|]; [|intros; reflexivity].
    destruct (charge_request (w_db w) u r) as [[[d' u1] muis] partial]. cbn [rs_status]. lia.
  - unfold do_recharge. destruct (find_ue (w_ues w) supi); cbn [rs_status]; lia.
  - unfold do_credit. destruct (lookup (w_db w) supi rg); cbn [rs_status]; lia.
  - cbn [rs_status]. lia.
Qed.

(* ---------- C12: contract of the successful paths ---------- *)

Lemma create_contract rsize usize w r w' rs :
  step rsize usize w (Create r) = (w', rs) -> rs_status rs = 201 ->
  exists c, r_consumer r = Some c /\ rs_ref rs = session_suffix c (w_lrsn w) /\ rs_seq rs = r_seq r /\
            w_db w' = w_db w /\ w_notes w' = w_notes w.
Proof.
  cbn [step]. unfold do_create. destruct (r_consumer r) as [c|]; [|intros H; inversion H; subst; discriminate].
  destruct (match find_ue (w_ues w) (r_supi r) with Some _ => false | None => negb (r_supi_ok r) end);
    intros H; inversion H; subst; [discriminate|]. intros _. exists c. repeat split.
Qed.

Lemma recharge_contract rsize usize w supi rg u :
  find_ue (w_ues w) supi = Some u ->
  step rsize usize w (Recharge supi rg) =
  (mkWorld (w_db w)
     (put_ue (w_ues w) (mkUe (u_supi u) (u_rgs u) (u_reserved u) (aset (u_mode u) rg 1) (u_cost u) (u_reqnum u)
                             (u_notify u) (u_cdr u) (u_records u) (u_sess u)))
     (w_lrsn w) (w_files w) (if u_notify u <? 0 then w_notes w else w_notes w ++ [(u_notify u, supi, rg)]),
   mkResp 204 [] (-1) []).
Proof. intros H. cbn [step]. unfold do_recharge. rewrite H. reflexivity. Qed.

(* every answer of the model is one of these statuses: never 5xx *)
Theorem status_range rsize usize w o :
  In (rs_status (snd (step rsize usize w o))) [0; 200; 201; 204; 400; 404].
Proof.
  destruct o as [r|ref r|ref r|supi rg|supi rg a|n]; cbn [step].
  - unfold do_create. destruct (r_consumer r); [|cbn; tauto].
    destruct (match find_ue (w_ues w) (r_supi r) with Some _ => false | None => negb (r_supi_ok r) end); cbn; tauto.
  - unfold do_update. destruct (find_ue (w_ues w) (r_supi r)) as [u|]; [|cbn; tauto].
    destruct (cdr_find (u_cdr u) ref) as [idx|]; [|cbn; tauto].
    destruct (nth_error (u_records u) idx) as [rec|]; [|cbn; tauto].
    destruct (charge_request (w_db w) u r) as [[[d' u1] muis] partial].
    destruct (rsize rec + _ >? 65535); cbn; tauto.
  - unfold do_release. destruct (find_ue (w_ues w) (r_supi r)) as [u|]; [|cbn; tauto].
    destruct (cdr_find (u_cdr u) ref) as [idx|]; [|cbn; tauto].
    destruct (nth_error (u_records u) idx) as [rec|]; [|cbn; tauto].
    destruct (charge_request (w_db w) u r) as [[[d' u1] muis] partial]. cbn; tauto.
  - unfold do_recharge. destruct (find_ue (w_ues w) supi); cbn; tauto.
  - unfold do_credit. destruct (lookup (w_db w) supi rg); cbn; tauto.
  - cbn; tauto.
Qed.

(* ---------- C02: where the usage of a request goes ---------- *)

Definition req_entries (r : request) : list entry := flat_map snd (usages_to_cdr (r_usages r)).
Definition rec_entries (rec : record) : list entry := flat_map snd (rec_usages rec).

Lemma update_cdr_entries rec r : rec_entries (update_cdr rec r) = rec_entries rec ++ req_entries r.
Proof.
  unfold update_cdr, rec_entries, req_entries. destruct (r_usages r) as [|g gs] eqn:E.
  - cbn. rewrite app_nil_r. reflexivity.
  - cbn [rec_usages]. rewrite flat_map_app. reflexivity.
Qed.

Lemma update_cdr_identity rec r :
  rec_sid (update_cdr rec r) = rec_sid rec /\ rec_supi (update_cdr rec r) = rec_supi rec /\
  rec_cid (update_cdr rec r) = rec_cid rec /\ rec_consumer (update_cdr rec r) = rec_consumer rec /\
  rec_lrsn (update_cdr rec r) = rec_lrsn rec.
Proof. unfold update_cdr. destruct (r_usages r); repeat split. Qed.
