(* C08 — rating server prices exactly and agrees with the CHF on the unit cost;
   no stored tariff makes it stop answering. *)
From Coq Require Import List ZArith Bool.
From Verif Require Import Charging.Servers Charging.ServersProofs.
Import ListNotations.
Open Scope Z_scope.

(* for a known account the server answers, whatever unit-cost string is stored *)
Theorem C08_answers : forall d s x, known_sur d s x ->
  exists a, rf_sur d s = Answer a /\ u_session a = s_session s.
Proof. exact rf_answers. Qed.
Print Assumptions C08_answers.

(* the tariff in the answer decodes at the CHF (getUnitCost) to the unit cost the
   server applied, for every stored string *)
Theorem C08_agree : forall d s x a, known_sur d s x -> rf_sur d s = Answer a ->
  chf_unit_cost a = unit_cost (fst (tariff (d_cost x))) (snd (tariff (d_cost x))).
Proof. exact rf_cost_agrees. Qed.
Print Assumptions C08_agree.

(* debit mode: price = consumed units x unit cost, when that fits the Unsigned32 Price AVP *)
Theorem C08_debit : forall d s x a,
  known_sur d s x -> s_subtype s = 2 -> rf_sur d s = Answer a ->
  0 <= s_consumed s -> s_consumed s * chf_unit_cost a < 4294967296 ->
  u_price a = s_consumed s * chf_unit_cost a.
Proof. exact rf_debit. Qed.
Print Assumptions C08_debit.

(* reserve mode: allowed = floor(quota / cost), price = allowed x cost <= quota *)
Theorem C08_reserve : forall d s x a,
  known_sur d s x -> s_subtype s = 1 -> rf_sur d s = Answer a ->
  0 <= s_quota s < 4294967296 -> 0 < chf_unit_cost a ->
  u_allowed a = s_quota s / chf_unit_cost a /\
  u_price a = u_allowed a * chf_unit_cost a /\ u_price a <= s_quota s.
Proof. exact rf_reserve. Qed.
Print Assumptions C08_reserve.

(* non-vacuity: integer, zero, malformed and fractional tariffs *)
Example C08_nonvacuous :
  let d := [mkDoc 1 1 0 [55]; mkDoc 2 1 0 [48]; mkDoc 3 1 0 [97; 98]; mkDoc 4 1 0 [49; 46; 53]] in
  rf_sur d (mkSur true 1 true 1 1 0 100 9) = Answer (mkSua 9 7 0 14 98) /\
  rf_sur d (mkSur true 2 true 1 1 0 100 9) = Answer (mkSua 9 0 0 0 0) /\
  rf_sur d (mkSur true 3 true 1 2 5 0 9) = Answer (mkSua 9 0 0 0 0) /\
  rf_sur d (mkSur true 4 true 1 2 3 0 9) = Answer (mkSua 9 15 1 0 450).
Proof. vm_compute. repeat split; reflexivity. Qed.
