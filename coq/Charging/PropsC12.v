(* C12 — charging API contract; rejections have no effect. *)
From Coq Require Import List ZArith Bool.
From Verif Require Import Charging.Servers Charging.Chf Charging.ChfProofs.
Import ListNotations.
Open Scope Z_scope.

(* a request answered 4xx (unknown subscriber; unknown, stale or foreign session
   reference; missing consumer identification; malformed SUPI) leaves the whole
   world - account database, reservations, records, files, notifications - as it was *)
Theorem C12_reject_no_effect : forall rsize usize w o,
  let '(w', r) := step rsize usize w o in 400 <= rs_status r < 500 -> w' = w.
Proof. exact reject_no_effect. Qed.
Print Assumptions C12_reject_no_effect.

(* create: 201, reference = consumer ++ "-" ++ counter, sequence number echoed, no accounting effect *)
Theorem C12_create : forall rsize usize w r w' rs,
  step rsize usize w (Create r) = (w', rs) -> rs_status rs = 201 ->
  exists c, r_consumer r = Some c /\ rs_ref rs = session_suffix c (w_lrsn w) /\ rs_seq rs = r_seq r /\
            w_db w' = w_db w /\ w_notes w' = w_notes w.
Proof. exact create_contract. Qed.
Print Assumptions C12_create.

(* recharge for a known subscriber: 204 and exactly one notification, naming that
   rating group, to the notification URI the subscriber's consumer registered *)
Theorem C12_recharge : forall rsize usize w supi rg u,
  find_ue (w_ues w) supi = Some u ->
  0 <= u_notify u ->                       (* the consumer registered a notification URI *)
  let '(w', rs) := step rsize usize w (Recharge supi rg) in
  rs_status rs = 204 /\ w_notes w' = w_notes w ++ [(u_notify u, supi, rg)] /\ w_db w' = w_db w.
Proof.
  intros rsize usize w supi rg u H Hn. rewrite (recharge_contract rsize usize w supi rg u H).
  destruct (Z.ltb_spec (u_notify u) 0) as [Hlt|_]; [exfalso; apply (Z.lt_irrefl 0), (Z.le_lt_trans _ _ _ Hn Hlt)|].
  repeat split.
Qed.
Print Assumptions C12_recharge.

(* every answer is one of 200 / 201 / 204 / 400 / 404 (0: database top-up, not an HTTP request) *)
Theorem C12_statuses : forall rsize usize w o,
  In (rs_status (snd (step rsize usize w o))) [0; 200; 201; 204; 400; 404].
Proof. exact status_range. Qed.
Print Assumptions C12_statuses.
