(* C02 — reported usage is recorded exactly once, in the right session's CDR.
   Theorems on the record operations of the model and, over whole histories, C02_exactly_once;
   the same statement is checked on the implementation's trace by the monitor of
   lib/p_charging.py and the model is tied to the CHF record by record. *)
From Coq Require Import List ZArith Bool.
From Verif Require Import Charging.Servers Charging.Chf Charging.ChfProofs Charging.HistoryProofs Charging.RecordHistory Charging.TimeStamp.
Import ListNotations.
Open Scope Z_scope.

(* UpdateCDR appends the containers of the request, all of them, in report order,
   unchanged, and touches no identity member of the record *)
Theorem C02_update_appends : forall rec r,
  rec_entries (update_cdr rec r) = rec_entries rec ++ req_entries r.
Proof. exact update_cdr_entries. Qed.
Print Assumptions C02_update_appends.

Theorem C02_identity_kept : forall rec r,
  rec_sid (update_cdr rec r) = rec_sid rec /\ rec_supi (update_cdr rec r) = rec_supi rec /\
  rec_cid (update_cdr rec r) = rec_cid rec /\ rec_consumer (update_cdr rec r) = rec_consumer rec /\
  rec_lrsn (update_cdr rec r) = rec_lrsn rec.
Proof. exact update_cdr_identity. Qed.
Print Assumptions C02_identity_kept.

(* Along every history, from the empty CHF: the entries held by the records of session [sid] of
   subscriber [s] - all its records, oldest first - are exactly the containers reported by the accepted
   create, updates and release addressed to that session, each once, in the order reported; a request for
   another session, an unknown session or another subscriber contributes nothing to it.  (reports: the
   create that returned reference sid contributes its usage; an update / release contributes when the
   subscriber and the reference exist, i.e. when it is not answered 4xx.) *)
Theorem C02_exactly_once : forall rsize usize ops d n s sid,
  entries_of (run rsize usize (mkWorld d [] n [] []) ops) s sid =
  reported rsize usize (mkWorld d [] n [] []) ops s sid.
Proof.
  intros. rewrite (history_records rsize usize ops _ s sid (empty_world_inv d n)). reflexivity.
Qed.
Print Assumptions C02_exactly_once.

(* the opening time stamp: YYMMDDhhmmssShhmm in BCD, for every zone offset *)
Theorem C02_timestamp : forall y mo d h mi s off,
  ts_fields_ok y mo d h mi s = true -> -50400 <= off <= 50400 ->
  ts_decode (ts_to_cdr y mo d h mi s off) =
  Some (y mod 100, mo, d, h, mi, s, off >=? 0, Z.abs off / 3600, Z.abs off mod 3600 / 60).
Proof. exact ts_roundtrip. Qed.
Print Assumptions C02_timestamp.
