(* C10 — charging-session references are unique and keep designating their session. *)
From Coq Require Import List ZArith Bool.
From Verif Require Import Charging.Servers Charging.Chf Charging.ChfProofs Charging.HistoryProofs Charging.RecordHistory.
Import ListNotations.
Open Scope Z_scope.

(* Whatever the SUPI and the consumer name contain (digits at the end, empty, '-'
   inside, one a prefix of the other), the reference  <supi><consumer>-<counter>
   determines the counter. *)
Theorem C10_reference_determines_counter : forall p1 p2 n1 n2,
  0 <= n1 < 10 ^ 20 -> 0 <= n2 < 10 ^ 20 ->
  p1 ++ [45] ++ itoa n1 = p2 ++ [45] ++ itoa n2 -> n1 = n2.
Proof. exact reference_determines_counter. Qed.
Print Assumptions C10_reference_determines_counter.

(* In every history (any mix of creates, updates, releases, recharges, for any
   subscribers and names) the references handed out by the creates are pairwise
   different - even without the SUPI prefix. *)
Theorem C10_unique : forall rsize usize ops w,
  0 <= w_lrsn w -> w_lrsn w + span ops < 2 ^ 64 ->   (* span: one per request, n per Elapse n; the 64-bit counter does not wrap *)
  NoDup (map fst (created rsize usize w ops)).
Proof. exact references_unique. Qed.
Print Assumptions C10_unique.

(* A reference designates its session and only it: in every state reachable from the empty CHF, an update
   or a release addressed to [ref] leaves the recorded usage of every other session of every subscriber
   untouched, and what it adds to session [ref] of the requesting subscriber is exactly its own usage
   (nothing when the request is refused). *)
Theorem C10_designates : forall rsize usize ops d n ref rq s sid,
  let w := run rsize usize (mkWorld d [] n [] []) ops in
  forall o, o = Update ref rq \/ o = Release ref rq ->
  entries_of (fst (step rsize usize w o)) s sid =
  entries_of w s sid ++ (if (r_supi rq =? s) && str_eqb ref sid
                         then match reaches w ref rq with Some _ => req_entries rq | None => [] end
                         else []).
Proof.
  intros rsize usize ops d n ref rq s sid w o Ho.
  assert (Hw : world_inv w).
  { unfold w, run. generalize (empty_world_inv d n). generalize (mkWorld d [] n [] []).
    induction ops as [|o' rest IH]; intros w0 H0; [exact H0|]. cbn [fold_left]. apply IH.
    apply (proj1 (step_records rsize usize w0 o' 0 [] H0)). }
  destruct (step_records rsize usize w o s sid Hw) as [_ He]. rewrite He.
  destruct Ho as [-> | ->]; cbn [reports]; destruct (reaches w ref rq); destruct ((r_supi rq =? s) && str_eqb ref sid); reflexivity.
Qed.
Print Assumptions C10_designates.

(* non-vacuity: the pair of names that collided before the fix *)
Example C10_nonvacuous :
  session_suffix [97; 49] 2 <> session_suffix [97] 12 /\
  session_suffix [97; 49] 2 = [97; 49; 45; 50] /\ session_suffix [97] 12 = [97; 45; 49; 50].
Proof. vm_compute. repeat split; discriminate. Qed.
