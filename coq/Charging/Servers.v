(* Models of the two Diameter servers of the CHF package:
     pkg/abmf/abmf.go  handleCCR  (account balance management, C07)
     pkg/rf/rating.go  handleSUR / buildTaffif (rating function, C08)
   and of the CHF-side tariff decoding (getUnitCost in converged_charging.go).
   Definitions only.

   The account database (MongoDB collection policyData.ues.chargingData) is a
   list of documents keyed by (ueId, ratingGroup); subscriber identities are
   abstract numbers (the harness numbers the SUPIs it uses; a subscription id
   that is not an IMSI maps to the empty ueId, number -1).  A handler that
   panics is recovered by go-diameter and gives no answer: [NoAnswer]. *)
From Coq Require Import List ZArith Bool.
Import ListNotations.
Open Scope Z_scope.

Record doc := mkDoc { d_ue : Z; d_rg : Z; d_quota : Z; d_cost : list Z (* unitCost, ASCII *) }.
Definition db := list doc.

Fixpoint lookup (d : db) (ue rg : Z) : option doc :=
  match d with
  | [] => None
  | x :: r => if (d_ue x =? ue) && (d_rg x =? rg) then Some x else lookup r ue rg
  end.

(* RestfulAPIPutOne {quota: q} on the first matching document *)
Fixpoint set_quota (d : db) (ue rg q : Z) : db :=
  match d with
  | [] => []
  | x :: r => if (d_ue x =? ue) && (d_rg x =? rg)
              then mkDoc (d_ue x) (d_rg x) q (d_cost x) :: r
              else x :: set_quota r ue rg q
  end.

Definition wrap64 (x : Z) : Z := (x + 9223372036854775808) mod 18446744073709551616 - 9223372036854775808.
Definition u64 (x : Z) : Z := x mod 18446744073709551616.
Definition u32 (x : Z) : Z := x mod 4294967296.

Inductive answer (A : Type) : Type := Answer (a : A) | NoAnswer.
Arguments Answer {A} _.
Arguments NoAnswer {A}.

(* ---------------- ABMF ---------------- *)

Record ccr := mkCcr {
  c_has_sub : bool;            (* Subscription-Id present *)
  c_ue : Z; c_has_mscc : bool; c_rg : Z;
  c_action : Z;                (* 0 DIRECT_DEBITING 1 REFUND_ACCOUNT 2 CHECK_BALANCE 3 PRICE_ENQUIRY *)
  c_type : Z;                  (* 1 INITIAL 2 UPDATE 3 TERMINATION 4 EVENT *)
  c_reqnum : Z; c_session : Z;
  c_requested : option Z;      (* Requested-Service-Unit.CC-Total-Octets (uint64) *)
  c_used : option Z }.         (* Used-Service-Unit.CC-Total-Octets (uint64) *)

Record cca := mkCca {
  a_session : Z; a_type : Z; a_reqnum : Z;
  a_granted : option Z;        (* Granted-Service-Unit.CC-Total-Octets, when MSCC present *)
  a_fui : bool;                (* Final-Unit-Indication TERMINATE *)
  a_rem_digits : Z; a_rem_exp : Z }.

(* number of characters of strconv.FormatInt(q, 10) *)
Fixpoint ndec (fuel : nat) (q : Z) : Z :=
  match fuel with
  | O => 1
  | S k => if q <? 10 then 1 else 1 + ndec k (q / 10)
  end.
Definition dec_len (q : Z) : Z := if q <? 0 then 1 + ndec 20 (- q) else ndec 20 q.

(* pow10 as converted to an integer type on amd64 (see DESIGN: float64 ->
   integer conversion of Pow10): exact up to 10^18 *)
Definition pow10_i64 (e : Z) : Z := if (0 <=? e) && (e <=? 18) then 10 ^ e else - 9223372036854775808.

Definition remaining (q : Z) : Z * Z :=
  let e := dec_len q - 1 in
  (Z.quot q (pow10_i64 e), e).

Definition abmf_ccr (d : db) (c : ccr) : db * answer cca :=
  if negb (c_has_sub c) || negb (c_has_mscc c) then (d, NoAnswer) else
  match lookup d (c_ue c) (c_rg c) with
  | None => (d, NoAnswer)
  | Some x =>
    let q := d_quota x in
    let fin (q' : Z) (granted : option Z) (fui : bool) :=
      let '(rd, re) := remaining q' in
      (set_quota d (c_ue c) (c_rg c) q',
       Answer (mkCca (c_session c) (c_type c) (c_reqnum c) granted fui rd re)) in
    if c_action c =? 1 then
      match c_requested c with
      | None => (d, NoAnswer)
      | Some a => fin (wrap64 (q + wrap64 a)) None false
      end
    else if c_action c =? 0 then
      if (c_type c =? 1) || (c_type c =? 2) then
        match c_requested c with
        | None => (d, NoAnswer)
        | Some a =>
          let r := wrap64 a in
          if r >? q then fin (wrap64 (q - q)) (Some (u64 q)) true
          else fin (wrap64 (q - r)) (Some (u64 r)) false
        end
      else if c_type c =? 3 then
        match c_used c with
        | None => (d, NoAnswer)
        | Some u => fin (wrap64 (q - wrap64 u)) None false
        end
      else fin q None false
    else fin q None false
  end.

(* ---------------- RF ---------------- *)

Definition is_digit (c : Z) : bool := (48 <=? c) && (c <=? 57).

Fixpoint digits_val (l : list Z) (acc : Z) : Z :=
  match l with [] => acc | c :: r => digits_val r (acc * 10 + (c - 48)) end.

(* strconv.Atoi on a 64-bit platform *)
Definition atoi (s : list Z) : option Z :=
  let '(neg, body) :=
    match s with
    | 43 :: r => (false, r)      (* '+' *)
    | 45 :: r => (true, r)       (* '-' *)
    | _ => (false, s)
    end in
  match body with
  | [] => None
  | _ =>
    if forallb is_digit body then
      let v := digits_val body 0 in
      let n := if neg then - v else v in
      if (- 9223372036854775808 <=? n) && (n <=? 9223372036854775807) then Some n else None
    else None
  end.

Fixpoint index_dot (s : list Z) (i : Z) : option Z :=
  match s with [] => None | c :: r => if c =? 46 then Some i else index_dot r (i + 1) end.

Definition remove_dots (s : list Z) : list Z := filter (fun c => negb (c =? 46)) s.

(* buildTaffif: (Value-Digits, Exponent) *)
Definition tariff (s : list Z) : Z * Z :=
  match index_dot s 0 with
  | None => (match atoi s with Some n => n | None => 0 end, 0)
  | Some pos =>
    (match atoi (remove_dots s) with Some n => n | None => 0 end,
     Z.of_nat (length s) - pos - 1)
  end.

(* uint32(math.Pow10(e)) on amd64 *)
Definition pow10_u32 (e : Z) : Z := if (0 <=? e) && (e <=? 18) then u32 (10 ^ e) else 0.

(* Unsigned32(ValueDigits) * Unsigned32(Pow10(Exponent)); the same expression in
   pkg/rf (server) and in getUnitCost (CHF) *)
Definition unit_cost (digits exp : Z) : Z := u32 (u32 digits * pow10_u32 exp).

Record sur := mkSur {
  s_has_sub : bool; s_ue : Z; s_has_sr : bool; s_rg : Z;
  s_subtype : Z;               (* 1 RESERVE 2 DEBIT *)
  s_consumed : Z; s_quota : Z; s_session : Z }.

Record sua := mkSua { u_session : Z; u_digits : Z; u_exp : Z; u_allowed : Z; u_price : Z }.

Definition rf_sur (d : db) (s : sur) : answer sua :=
  if negb (s_has_sub s) || negb (s_has_sr s) then NoAnswer else
  match lookup d (s_ue s) (s_rg s) with
  | None => NoAnswer
  | Some x =>
    let '(dg, ex) := tariff (d_cost x) in
    let cost := unit_cost dg ex in
    if s_subtype s =? 2 then
      Answer (mkSua (s_session s) dg ex 0 (u32 (s_consumed s * cost)))
    else if s_subtype s =? 1 then
      if cost =? 0 then Answer (mkSua (s_session s) dg ex 0 0)
      else let allowed := s_quota s / cost in
           Answer (mkSua (s_session s) dg ex allowed (u32 (allowed * cost)))
    else Answer (mkSua (s_session s) dg ex 0 0)
  end.

(* the unit cost the CHF derives from an answer (getUnitCost) *)
Definition chf_unit_cost (a : sua) : Z := unit_cost (u_digits a) (u_exp a).
