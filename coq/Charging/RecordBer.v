(* The BER encoding of a charging record, through the encoder model and the
   regenerated schema: gives the sizes that drive record splitting and the
   payloads of the CDR file.  The recording NF id (a UUID, 36 characters) and the
   opening time stamp (9 octets) are place holders: only their lengths matter. *)
From Coq Require Import List ZArith Bool.
From Verif Require Import Common.Outcome Common.Bytes Ber.Model Ber.SchemaGen Charging.Servers Charging.Chf.
Import ListNotations.
Open Scope Z_scope.

Definition vwrap (v : value) : value := VStruct [v].
Definition p_chf : fparams := mkP false false None true false 0.    (* "explicit,choice" *)

Definition entry_value (e : entry) : value :=
  let '(rg, total, ul, dl, ssu, lsn) := e in
  VStruct [VNil; VNil; VNil; VNil; VPtr (vwrap (VInt total)); VPtr (vwrap (VInt ul)); VPtr (vwrap (VInt dl));
           VPtr (VInt ssu); VNil; VPtr (vwrap (VInt lsn)); VNil; VNil; VNil; VNil; VNil; VNil].

Definition muu_value (g : Z * list entry) : value :=
  VStruct [vwrap (VInt (fst g)); VSlice (map entry_value (snd g)); VPtr (vwrap (VBytes [])); VNil].

Definition imsi_prefix : list Z := [105; 109; 115; 105; 45].   (* "imsi-" *)

Definition record_value (r : record) : value :=
  VStruct [VInt 1; VPtr (VStruct [
    vwrap (VInt 200);
    vwrap (VBytes (repeat 48 36));
    VPtr (VStruct [vwrap (VInt 1); VBytes (itoa (rec_supi r))]);
    VStruct [vwrap (VInt 1);
             (match rec_consumer r with [] => VNil | c => VPtr (vwrap (VBytes c)) end);
             VNil; VNil; VNil; VNil];
    VNil;
    (if rec_musage_nil r then VNil else VSlice (map muu_value (rec_usages r)));
    vwrap (VBytes (repeat 0 9));
    vwrap (VInt 0);
    (match rec_seq r with Some s => VPtr (VInt s) | None => VNil end);
    vwrap (VInt (rec_cause r));
    VNil;
    VPtr (vwrap (VInt (rec_lrsn r)));
    VNil; VNil; VNil; VNil;
    VPtr (vwrap (VBytes (imsi_prefix ++ itoa (rec_supi r) ++ rec_sid r)));
    VNil; VNil; VNil; VNil; VNil; VNil; VNil; VNil; VNil; VNil;
    VPtr (vwrap (VInt (rec_cid r)))])].

Definition record_bytes (r : record) : outcome (list Z) := enc ty_CHFRecord p_chf (record_value r).

Definition rsize (r : record) : Z :=
  match record_bytes r with Ok bs => zlen bs | _ => -1 end.

Definition usize (us : list (Z * list entry)) : Z :=
  match enc (TSlice ty_MultipleUnitUsage) p_chf (VSlice (map muu_value us)) with
  | Ok bs => zlen bs | _ => -1 end.
