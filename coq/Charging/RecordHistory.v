(* C02 over whole histories: what the records of a charging session contain is exactly what the
   accepted requests addressed to that session reported, once, in order. *)
From Coq Require Import List ZArith Lia Bool ZifyBool Arith.
From Verif Require Import Charging.Servers Charging.Chf Charging.ChfProofs Charging.HistoryProofs.
Import ListNotations.
Open Scope Z_scope.

#[local] Arguments charge_request : simpl never.

(* ---- session references as strings; the session map ---- *)

Lemma str_eqb_refl a : str_eqb a a = true.
Proof. induction a as [|x a IH]; cbn [str_eqb]; [reflexivity|]. rewrite Z.eqb_refl, IH. reflexivity. Qed.

Lemma str_eqb_eq a : forall b, str_eqb a b = true -> a = b.
Proof.
  induction a as [|x a IH]; intros b H; destruct b as [|y b]; cbn [str_eqb] in H; try discriminate; [reflexivity|].
  apply andb_prop in H. destruct H as [H1 H2]. apply Z.eqb_eq in H1. subst y. rewrite (IH b H2). reflexivity.
Qed.

Lemma str_eqb_neq a b : a <> b -> str_eqb a b = false.
Proof. intros H. destruct (str_eqb a b) eqn:E; [|reflexivity]. exfalso. apply H, str_eqb_eq, E. Qed.

Lemma str_eqb_spec a b : str_eqb a b = true <-> a = b.
Proof. split; [apply str_eqb_eq|intros ->; apply str_eqb_refl]. Qed.

Lemma cdr_find_none m k : ~ In k (map fst m) -> cdr_find m k = None.
Proof.
  induction m as [|[k0 j] m IH]; intros H; cbn [cdr_find]; [reflexivity|].
  rewrite str_eqb_neq; [apply IH; intros Hin; apply H; right; exact Hin|].
  intros ->. apply H. left. reflexivity.
Qed.

Lemma cdr_find_set m k i k' :
  cdr_find (cdr_set m k i) k' = if str_eqb k k' then Some i else cdr_find m k'.
Proof.
  induction m as [|[k0 j] m IH]; cbn [cdr_set cdr_find]; [reflexivity|].
  destruct (str_eqb k0 k) eqn:E; cbn [cdr_find].
  - apply str_eqb_eq in E. subst k0. destruct (str_eqb k k'); reflexivity.
  - destruct (str_eqb k0 k') eqn:E2; [|exact IH].
    apply str_eqb_eq in E2. subst k0. rewrite str_eqb_neq; [reflexivity|].
    intros ->. rewrite str_eqb_refl in E. discriminate.
Qed.

Lemma cdr_set_keys m k i : NoDup (map fst m) -> NoDup (map fst (cdr_set m k i)) /\
  (forall x, In x (map fst (cdr_set m k i)) -> x = k \/ In x (map fst m)).
Proof.
  induction m as [|[k0 j] m IH]; intros Hn; cbn [cdr_set map fst].
  - split; [constructor; [intros []|constructor]|]. intros x [<-|[]]. left. reflexivity.
  - inversion Hn as [|a l Hnin Hn']; subst. destruct (str_eqb k0 k) eqn:E; cbn [map fst].
    + apply str_eqb_eq in E. subst k0. split; [constructor; assumption|]. intros x [<-|Hx]; [left; reflexivity|right; right; exact Hx].
    + destruct (IH Hn') as [A B]. split.
      * constructor; [|exact A]. intros Hin. destruct (B _ Hin) as [->|Hin']; [rewrite str_eqb_refl in E; discriminate|contradiction].
      * intros x [<-|Hx]; [right; left; reflexivity|]. destruct (B _ Hx) as [->|Hx']; [left; reflexivity|right; right; exact Hx'].
Qed.

Lemma cdr_find_del m k k' : NoDup (map fst m) ->
  cdr_find (cdr_del m k) k' = if str_eqb k k' then None else cdr_find m k'.
Proof.
  induction m as [|[k0 j] m IH]; intros Hn; cbn [cdr_del cdr_find]; [destruct (str_eqb k k'); reflexivity|].
  inversion Hn as [|a l Hnin Hn']; subst. destruct (str_eqb k0 k) eqn:E.
  - apply str_eqb_eq in E. subst k0. destruct (str_eqb k k') eqn:E2; [|reflexivity].
    apply str_eqb_eq in E2. subst k'. apply cdr_find_none. exact Hnin.
  - cbn [cdr_find]. destruct (str_eqb k0 k') eqn:E2.
    + apply str_eqb_eq in E2. subst k0. rewrite str_eqb_neq; [reflexivity|]. intros ->. rewrite str_eqb_refl in E. discriminate.
    + apply IH. exact Hn'.
Qed.

Lemma cdr_del_keys m k : NoDup (map fst m) -> NoDup (map fst (cdr_del m k)) /\
  (forall x, In x (map fst (cdr_del m k)) -> In x (map fst m)).
Proof.
  induction m as [|[k0 j] m IH]; intros Hn; cbn [cdr_del map fst]; [split; [constructor|intros x []]|].
  inversion Hn as [|a l Hnin Hn']; subst. destruct (str_eqb k0 k).
  - split; [exact Hn'|]. intros x Hx. right. exact Hx.
  - destruct (IH Hn') as [A B]. cbn [map fst]. split.
    + constructor; [|exact A]. intros Hin. apply Hnin. apply B. exact Hin.
    + intros x [<-|Hx]; [left; reflexivity|right; apply B; exact Hx].
Qed.

(* ---- the entries recorded for one session, over all its records, oldest first ---- *)

Fixpoint sess_entries (recs : list record) (sid : list Z) : list entry :=
  match recs with
  | [] => []
  | rec :: r => (if str_eqb (rec_sid rec) sid then rec_entries rec else []) ++ sess_entries r sid
  end.

Lemma sess_entries_app l rec sid :
  sess_entries (l ++ [rec]) sid = sess_entries l sid ++ (if str_eqb (rec_sid rec) sid then rec_entries rec else []).
Proof.
  induction l as [|x l IH]; cbn [app sess_entries]; [rewrite app_nil_r; reflexivity|].
  rewrite IH, app_assoc. reflexivity.
Qed.

(* replacing the last record of a session by one that carries more entries *)
Lemma sess_entries_set : forall l i rec rec' E sid,
  nth_error l i = Some rec -> rec_sid rec' = rec_sid rec -> rec_entries rec' = rec_entries rec ++ E ->
  (forall j r', (i < j)%nat -> nth_error l j = Some r' -> rec_sid r' <> rec_sid rec) ->
  sess_entries (list_set l i rec') sid =
  sess_entries l sid ++ (if str_eqb (rec_sid rec) sid then E else []).
Proof.
  induction l as [|x l IH]; intros i rec rec' E sid Hn Hs He Hlast; [destruct i; discriminate|].
  destruct i as [|i]; cbn [nth_error] in Hn.
  - inversion Hn; subst x. cbn [list_set sess_entries]. rewrite Hs.
    destruct (str_eqb (rec_sid rec) sid) eqn:Eq.
    + (* no later record of this session *)
      assert (Hnone : sess_entries l sid = []).
      { apply str_eqb_eq in Eq. subst sid. clear -Hlast.
        assert (H : forall j r', nth_error l j = Some r' -> rec_sid r' <> rec_sid rec).
        { intros j r' Hj. apply (Hlast (S j) r'); [lia|exact Hj]. }
        clear Hlast. induction l as [|y l IHl]; [reflexivity|]. cbn [sess_entries].
        rewrite str_eqb_neq by (apply (H 0%nat y); reflexivity). cbn [app].
        apply IHl. intros j r' Hj. apply (H (S j) r'). exact Hj. }
      rewrite Hnone, !app_nil_r, He. reflexivity.
    + rewrite app_nil_r. reflexivity.
  - cbn [list_set sess_entries]. rewrite (IH i rec rec' E sid Hn Hs He).
    + rewrite app_assoc. reflexivity.
    + intros j r' Hj Hr'. apply (Hlast (S j) r'); [lia|exact Hr'].
Qed.

Lemma nth_error_set_same {A} : forall (l : list A) i x y, nth_error l i = Some y -> nth_error (list_set l i x) i = Some x.
Proof. induction l as [|a l IH]; intros i x y H; destruct i; try discriminate; cbn [list_set nth_error] in *; [reflexivity|eapply IH; exact H]. Qed.

Lemma nth_error_set_other {A} : forall (l : list A) i j x, i <> j -> nth_error (list_set l i x) j = nth_error l j.
Proof.
  induction l as [|a l IH]; intros i j x H; [destruct i; reflexivity|].
  destruct i; destruct j; cbn [list_set nth_error]; try reflexivity; [congruence|apply IH; congruence].
Qed.

Lemma list_set_length {A} : forall (l : list A) i x, length (list_set l i x) = length l.
Proof. induction l as [|a l IH]; intros i x; destruct i; cbn [list_set length]; try reflexivity. rewrite IH. reflexivity. Qed.

(* ---- the invariant of a subscriber context ---- *)

Definition points (l : list record) (k : list Z) (i : nat) : Prop :=
  (exists rec, nth_error l i = Some rec /\ rec_sid rec = k) /\
  (forall j r', (i < j)%nat -> nth_error l j = Some r' -> rec_sid r' <> k).

(* replacing a record by one of the same session keeps what the session map points to *)
Lemma points_set l idx rec rec' k i :
  nth_error l idx = Some rec -> rec_sid rec' = rec_sid rec -> points l k i -> points (list_set l idx rec') k i.
Proof.
  intros Hn Hs [[rc [Hi Hk]] Hl]. split.
  - destruct (Nat.eq_dec idx i) as [->|Hne].
    + exists rec'. split; [apply (nth_error_set_same l i rec' rec Hn)|]. rewrite Hs. congruence.
    + exists rc. split; [rewrite nth_error_set_other by exact Hne; exact Hi|exact Hk].
  - intros j r' Hj Hr'. destruct (Nat.eq_dec idx j) as [->|Hne].
    + rewrite (nth_error_set_same l j rec' rec Hn) in Hr'. inversion Hr'; subst r'. rewrite Hs. apply (Hl j rec Hj Hn).
    + rewrite nth_error_set_other in Hr' by exact Hne. apply (Hl j r' Hj Hr').
Qed.

Definition ue_inv (u : uectx) : Prop :=
  NoDup (map fst (u_cdr u)) /\
  forall k i, cdr_find (u_cdr u) k = Some i -> points (u_records u) k i.

(* charging touches neither the session map nor the records *)
Lemma charge_usage_records acc triggers g :
  u_cdr (snd (fst (fst (charge_usage acc triggers g)))) = u_cdr (snd (fst (fst acc))) /\
  u_records (snd (fst (fst (charge_usage acc triggers g)))) = u_records (snd (fst (fst acc))) /\
  u_supi (snd (fst (fst (charge_usage acc triggers g)))) = u_supi (snd (fst (fst acc))).
Proof.
  destruct acc as [[[d u] muis] p]. unfold charge_usage. cbn [fst snd].
  set (u1 := if existsb _ _ then u else _).
  assert (H1 : u_cdr u1 = u_cdr u /\ u_records u1 = u_records u /\ u_supi u1 = u_supi u) by (unfold u1; destruct (existsb _ _); repeat split; reflexivity).
  destruct (trig_all _ _ _) as [m1 p1]. destruct (has_online (g_conts g)); cbn [negb].
  - destruct (charge_rg _ _ _ _ _ _) as [[d' st'] m]. cbn [fst snd u_cdr u_records u_supi]. exact H1.
  - cbn [fst snd]. exact H1.
Qed.

Lemma charge_request_records d u rq :
  u_cdr (snd (fst (fst (charge_request d u rq)))) = u_cdr u /\
  u_records (snd (fst (fst (charge_request d u rq)))) = u_records u /\
  u_supi (snd (fst (fst (charge_request d u rq)))) = u_supi u.
Proof.
  unfold charge_request.
  assert (H : forall gs acc, u_cdr (snd (fst (fst (fold_left (fun a g => charge_usage a (r_triggers rq) g) gs acc)))) = u_cdr (snd (fst (fst acc))) /\
                             u_records (snd (fst (fst (fold_left (fun a g => charge_usage a (r_triggers rq) g) gs acc)))) = u_records (snd (fst (fst acc))) /\
                             u_supi (snd (fst (fst (fold_left (fun a g => charge_usage a (r_triggers rq) g) gs acc)))) = u_supi (snd (fst (fst acc)))).
  { induction gs as [|g gs IH]; intros acc; [repeat split; reflexivity|]. cbn [fold_left].
    destruct (IH (charge_usage acc (r_triggers rq) g)) as [A [B B']]. destruct (charge_usage_records acc (r_triggers rq) g) as [C [D D']].
    repeat split; congruence. }
  apply (H (r_usages rq) (d, u, [], false)).
Qed.

Section Records.
  Variable rsize : record -> Z.
  Variable usize : list (Z * list entry) -> Z.
  Notation step := (step rsize usize).

  Definition world_inv (w : world) : Prop := forall s u, find_ue (w_ues w) s = Some u -> ue_inv u.

  Definition entries_of (w : world) (s : Z) (sid : list Z) : list entry :=
    match find_ue (w_ues w) s with Some u => sess_entries (u_records u) sid | None => [] end.

  (* what an operation reports for session sid of subscriber s, when it is accepted *)
  Definition reports (w : world) (o : op) (s : Z) (sid : list Z) : list entry :=
    match o with
    | Create rq =>
      match r_consumer rq with
      | Some c =>
        if (match find_ue (w_ues w) (r_supi rq) with Some _ => false | None => negb (r_supi_ok rq) end) then []
        else if (r_supi rq =? s) && str_eqb (session_suffix c (w_lrsn w)) sid then req_entries rq else []
      | None => []
      end
    | Update ref rq | Release ref rq =>
      match reaches w ref rq with
      | Some _ => if (r_supi rq =? s) && str_eqb ref sid then req_entries rq else []
      | None => []
      end
    | _ => []
    end.

  Lemma entries_put w' w u s sid :
    w_ues w' = put_ue (w_ues w) u ->
    entries_of w' s sid = if u_supi u =? s then sess_entries (u_records u) sid else entries_of w s sid.
  Proof. intros H. unfold entries_of. rewrite H, find_put. destruct (u_supi u =? s); reflexivity. Qed.

  Lemma inv_put w' w u :
    w_ues w' = put_ue (w_ues w) u -> world_inv w -> ue_inv u -> world_inv w'.
  Proof.
    intros H Hw Hu s u' Hf. rewrite H, find_put in Hf. destruct (u_supi u =? s); [inversion Hf; subst; exact Hu|apply (Hw s u' Hf)].
  Qed.

  Lemma fresh_inv s : ue_inv (fresh_ue s).
  Proof. split; [constructor|]. intros k i H. discriminate. Qed.

  Theorem step_records w o s sid :
    world_inv w ->
    world_inv (fst (step w o)) /\
    entries_of (fst (step w o)) s sid = entries_of w s sid ++ reports w o s sid.
  Proof.
    intros Hw. destruct o as [rq|ref rq|ref rq|s' r'|s' r' a|n]; cbn [step reports].
    - (* create *)
      unfold do_create. destruct (r_consumer rq) as [c|]; [|cbn [fst]; rewrite app_nil_r; split; [exact Hw|reflexivity]].
      destruct (match find_ue (w_ues w) (r_supi rq) with Some _ => false | None => negb (r_supi_ok rq) end) eqn:Eg;
        [cbn [fst]; rewrite app_nil_r; split; [exact Hw|reflexivity]|].
      cbn [fst].
      set (u := match find_ue (w_ues w) (r_supi rq) with Some u0 => u0 | None => fresh_ue (r_supi rq) end).
      set (sid0 := session_suffix c (w_lrsn w)).
      set (rec1 := update_cdr (mkRec sid0 (r_supi rq) (r_cid rq) c (wrap64 (u64 (w_lrsn w + 1))) [] true 0 None) rq).
      set (u' := mkUe (u_supi u) (u_rgs u) (u_reserved u) (u_mode u) (u_cost u) (u_reqnum u) (r_notify rq)
                      (cdr_set (u_cdr u) sid0 (length (u_records u))) (u_records u ++ [rec1]) (u_sess u)).
      assert (Hsu : u_supi u = r_supi rq).
      { unfold u. destruct (find_ue (w_ues w) (r_supi rq)) as [u0|] eqn:Ef; [apply (find_ue_supi _ _ _ Ef)|reflexivity]. }
      assert (Hui : ue_inv u).
      { unfold u. destruct (find_ue (w_ues w) (r_supi rq)) as [u0|] eqn:Ef; [apply (Hw _ _ Ef)|apply fresh_inv]. }
      assert (Hsid1 : rec_sid rec1 = sid0) by (unfold rec1; rewrite (proj1 (update_cdr_identity _ rq)); reflexivity).
      assert (Hent1 : rec_entries rec1 = req_entries rq).
      { unfold rec1. rewrite update_cdr_entries. reflexivity. }
      split.
      + eapply (inv_put _ w u'); [reflexivity|exact Hw|]. destruct Hui as [Hnd Hk]. split.
        * unfold u'. cbn [u_cdr]. apply cdr_set_keys. exact Hnd.
        * intros k i Hf. unfold u' in Hf |- *. cbn [u_cdr u_records] in Hf |- *. rewrite cdr_find_set in Hf.
          destruct (str_eqb sid0 k) eqn:E.
          -- inversion Hf; subst i. apply str_eqb_eq in E. subst k. split.
             ++ exists rec1. split; [rewrite nth_error_app2 by lia; rewrite Nat.sub_diag; reflexivity|exact Hsid1].
             ++ intros j r'' Hj Hn. exfalso. assert (nth_error (u_records u ++ [rec1]) j <> None) by congruence.
                apply nth_error_Some in H. rewrite app_length in H. cbn [length] in H. lia.
          -- destruct (Hk k i Hf) as [[rec [Hn Hs]] Hl].
             assert (Hi : (i < length (u_records u))%nat) by (apply nth_error_Some; congruence).
             split.
             ++ exists rec. split; [rewrite nth_error_app1 by exact Hi; exact Hn|exact Hs].
             ++ intros j r'' Hj Hn'. destruct (Nat.lt_ge_cases j (length (u_records u))) as [Hlt|Hge].
                ** rewrite nth_error_app1 in Hn' by exact Hlt. apply (Hl j r'' Hj Hn').
                ** rewrite nth_error_app2 in Hn' by exact Hge.
                   destruct (j - length (u_records u))%nat as [|m] eqn:Em; cbn [nth_error] in Hn'; [|destruct m; discriminate].
                   inversion Hn'; subst r''. rewrite Hsid1. intros ->. rewrite str_eqb_refl in E. discriminate.
      + erewrite (entries_put _ w u' s sid) by reflexivity. unfold u'. cbn [u_supi u_records]. rewrite Hsu.
        destruct (r_supi rq =? s) eqn:Es; cbn [andb]; [|rewrite app_nil_r; reflexivity].
        apply Z.eqb_eq in Es. subst s. rewrite sess_entries_app, Hsid1, Hent1. f_equal.
        unfold entries_of, u. destruct (find_ue (w_ues w) (r_supi rq)); reflexivity.
    - (* update *)
      unfold do_update, reaches.
      destruct (find_ue (w_ues w) (r_supi rq)) as [u|] eqn:Ef; [|cbn [fst]; rewrite app_nil_r; split; [exact Hw|reflexivity]].
      destruct (cdr_find (u_cdr u) ref) as [idx|] eqn:Ec; [|cbn [fst]; rewrite app_nil_r; split; [exact Hw|reflexivity]].
      destruct (nth_error (u_records u) idx) as [rec|] eqn:En; [|cbn [fst]; rewrite app_nil_r; split; [exact Hw|reflexivity]].
      pose proof (find_ue_supi _ _ _ Ef) as Hsu. pose proof (Hw _ _ Ef) as [Hnd Hk].
      destruct (Hk ref idx Ec) as [[rec0 [Hn0 Hs0]] Hlast]. rewrite En in Hn0. inversion Hn0; subst rec0.
      pose proof (charge_request_records (w_db w) u rq) as [Hc1 [Hc2 Hs1]].
      destruct (charge_request (w_db w) u rq) as [[[d' u1] muis] partial]. cbn [fst snd] in Hc1, Hc2, Hs1.
      set (chg := match r_usages rq with [] => 0 | _ => _ end).
      destruct (rsize rec + chg >? 65535) eqn:Esplit.
      + (* the record is full: a new record of the same session takes the usage *)
        set (nrec := mkRec (rec_sid rec) (rec_supi rec) (rec_cid rec) (rec_consumer rec) (rec_lrsn rec) [] false (rec_cause rec) (rec_seq rec)).
        set (rec4 := if partial then set_seq (set_cause (update_cdr nrec rq) 1) 1 else update_cdr nrec rq).
        assert (Hs4 : rec_sid rec4 = ref).
        { unfold rec4. destruct partial; cbn [set_seq set_cause rec_sid]; rewrite (proj1 (update_cdr_identity _ rq)); exact Hs0. }
        assert (He4 : rec_entries rec4 = req_entries rq).
        { unfold rec4. destruct partial; unfold rec_entries; cbn [set_seq set_cause rec_usages];
            change (flat_map snd (rec_usages (update_cdr nrec rq))) with (rec_entries (update_cdr nrec rq));
            rewrite update_cdr_entries; reflexivity. }
        cbn [fst u_supi u_rgs u_reserved u_mode u_cost u_reqnum u_notify u_cdr u_records u_sess].
        set (recs' := list_set (u_records u1 ++ [nrec]) (length (u_records u1)) rec4).
        assert (Hrecs : recs' = u_records u ++ [rec4]).
        { unfold recs'. rewrite Hc2. clear. induction (u_records u) as [|a l IH]; cbn [app length list_set]; [reflexivity|]. rewrite IH. reflexivity. }
        split.
        * eapply inv_put; [reflexivity|exact Hw|]. split.
          -- cbn [u_cdr]. rewrite Hc1. apply cdr_set_keys. exact Hnd.
          -- intros k i Hf. cbn [u_cdr u_records] in *. fold recs'. rewrite Hrecs. rewrite Hc1, Hc2, cdr_find_set in Hf.
             destruct (str_eqb ref k) eqn:E.
             ++ inversion Hf; subst i. apply str_eqb_eq in E. subst k. split.
                ** exists rec4. split; [rewrite nth_error_app2 by lia; rewrite Nat.sub_diag; reflexivity|exact Hs4].
                ** intros j r'' Hj Hn. exfalso. assert (H : nth_error (u_records u ++ [rec4]) j <> None) by congruence.
                   apply nth_error_Some in H. rewrite app_length in H. cbn [length] in H. lia.
             ++ destruct (Hk k i Hf) as [[rc [Hn Hs]] Hl].
                assert (Hi : (i < length (u_records u))%nat) by (apply nth_error_Some; congruence).
                split.
                ** exists rc. split; [rewrite nth_error_app1 by exact Hi; exact Hn|exact Hs].
                ** intros j r'' Hj Hn'. destruct (Nat.lt_ge_cases j (length (u_records u))) as [Hlt|Hge].
                   --- rewrite nth_error_app1 in Hn' by exact Hlt. apply (Hl j r'' Hj Hn').
                   --- rewrite nth_error_app2 in Hn' by exact Hge.
                       destruct (j - length (u_records u))%nat as [|m]; cbn [nth_error] in Hn'; [|destruct m; discriminate].
                       inversion Hn'; subst r''. rewrite Hs4. intros ->. rewrite str_eqb_refl in E. discriminate.
        * erewrite entries_put by reflexivity. cbn [u_supi u_records]. fold recs'. rewrite Hrecs.
          rewrite Hs1, Hsu.
          destruct (r_supi rq =? s) eqn:Es; cbn [andb]; [|rewrite app_nil_r; reflexivity].
          apply Z.eqb_eq in Es. subst s. unfold entries_of. rewrite Ef, sess_entries_app, Hs4, He4. reflexivity.
      + (* the record takes the usage *)
        set (rec4 := if partial then set_seq (set_cause (update_cdr rec rq) 1) 1 else update_cdr rec rq).
        assert (Hs4 : rec_sid rec4 = rec_sid rec).
        { unfold rec4. destruct partial; cbn [set_seq set_cause rec_sid]; apply (proj1 (update_cdr_identity _ rq)). }
        assert (He4 : rec_entries rec4 = rec_entries rec ++ req_entries rq).
        { unfold rec4. destruct partial; unfold rec_entries; cbn [set_seq set_cause rec_usages];
            change (flat_map snd (rec_usages (update_cdr rec rq))) with (rec_entries (update_cdr rec rq));
            rewrite update_cdr_entries; reflexivity. }
        cbn [fst u_supi u_rgs u_reserved u_mode u_cost u_reqnum u_notify u_cdr u_records u_sess].
        split.
        * eapply inv_put; [reflexivity|exact Hw|]. split; cbn [u_cdr u_records]; rewrite Hc1; [exact Hnd|].
          intros k i Hf. rewrite Hc2. apply (points_set _ idx rec rec4 k i En Hs4). apply (Hk k i Hf).
        * erewrite entries_put by reflexivity. cbn [u_supi u_records]. rewrite Hs1, Hsu, Hc2.
          destruct (r_supi rq =? s) eqn:Es; cbn [andb]; [|rewrite app_nil_r; reflexivity].
          apply Z.eqb_eq in Es. subst s. unfold entries_of. rewrite Ef.
          rewrite (sess_entries_set (u_records u) idx rec rec4 (req_entries rq) sid En Hs4 He4).
          -- rewrite Hs0. reflexivity.
          -- intros j r'' Hj Hn'. rewrite Hs0. apply (Hlast j r'' Hj Hn').
    - (* release *)
      unfold do_release, reaches.
      destruct (find_ue (w_ues w) (r_supi rq)) as [u|] eqn:Ef; [|cbn [fst]; rewrite app_nil_r; split; [exact Hw|reflexivity]].
      destruct (cdr_find (u_cdr u) ref) as [idx|] eqn:Ec; [|cbn [fst]; rewrite app_nil_r; split; [exact Hw|reflexivity]].
      destruct (nth_error (u_records u) idx) as [rec|] eqn:En; [|cbn [fst]; rewrite app_nil_r; split; [exact Hw|reflexivity]].
      pose proof (find_ue_supi _ _ _ Ef) as Hsu. pose proof (Hw _ _ Ef) as [Hnd Hk].
      destruct (Hk ref idx Ec) as [[rec0 [Hn0 Hs0]] Hlast]. rewrite En in Hn0. inversion Hn0; subst rec0.
      pose proof (charge_request_records (w_db w) u rq) as [Hc1 [Hc2 Hs1]].
      destruct (charge_request (w_db w) u rq) as [[[d' u1] muis] partial]. cbn [fst snd] in Hc1, Hc2, Hs1.
      set (rec2 := set_cause (update_cdr rec rq) 0).
      assert (Hs2 : rec_sid rec2 = rec_sid rec) by (unfold rec2; cbn [set_cause rec_sid]; apply (proj1 (update_cdr_identity _ rq))).
      assert (He2 : rec_entries rec2 = rec_entries rec ++ req_entries rq).
      { unfold rec2, rec_entries. cbn [set_cause rec_usages].
        change (flat_map snd (rec_usages (update_cdr rec rq))) with (rec_entries (update_cdr rec rq)). apply update_cdr_entries. }
      cbn [fst]. split.
      + eapply inv_put; [reflexivity|exact Hw|]. split; cbn [u_cdr u_records]; rewrite Hc1.
        * apply cdr_del_keys. exact Hnd.
        * intros k i Hf. rewrite (cdr_find_del _ ref k Hnd) in Hf. destruct (str_eqb ref k); [discriminate|].
          rewrite Hc2. apply (points_set _ idx rec rec2 k i En Hs2). apply (Hk k i Hf).
      + erewrite entries_put by reflexivity. cbn [u_supi u_records]. rewrite Hs1, Hsu, Hc2.
        destruct (r_supi rq =? s) eqn:Es; cbn [andb]; [|rewrite app_nil_r; reflexivity].
        apply Z.eqb_eq in Es. subst s. unfold entries_of. rewrite Ef.
        rewrite (sess_entries_set (u_records u) idx rec rec2 (req_entries rq) sid En Hs2 He2).
        * rewrite Hs0. reflexivity.
        * intros j r'' Hj Hn'. rewrite Hs0. apply (Hlast j r'' Hj Hn').
    - (* recharge *)
      unfold do_recharge. destruct (find_ue (w_ues w) s') as [u|] eqn:Ef; cbn [fst]; rewrite app_nil_r; [|split; [exact Hw|reflexivity]].
      split.
      + eapply inv_put; [reflexivity|exact Hw|]. apply (Hw _ _ Ef).
      + erewrite entries_put by reflexivity. cbn [u_supi u_records]. rewrite (find_ue_supi _ _ _ Ef).
        destruct (s' =? s) eqn:Es; [|reflexivity]. apply Z.eqb_eq in Es. subst s'. unfold entries_of. rewrite Ef. reflexivity.
    - (* credit *)
      unfold do_credit. destruct (lookup (w_db w) s' r'); cbn [fst]; rewrite app_nil_r; (split; [exact Hw|reflexivity]).
    - (* elapse *)
      cbn [fst]. rewrite app_nil_r. split; [exact Hw|reflexivity].
  Qed.

  (* ---- histories ---- *)

  Fixpoint reported (w : world) (ops : list op) (s : Z) (sid : list Z) : list entry :=
    match ops with [] => [] | o :: rest => reports w o s sid ++ reported (fst (step w o)) rest s sid end.

  Theorem history_records : forall ops w s sid,
    world_inv w ->
    entries_of (run rsize usize w ops) s sid = entries_of w s sid ++ reported w ops s sid.
  Proof.
    induction ops as [|o rest IH]; intros w s sid Hw; [cbn [run fold_left reported]; rewrite app_nil_r; reflexivity|].
    destruct (step_records w o s sid Hw) as [Hw' He]. unfold run in *. cbn [fold_left reported].
    rewrite (IH _ s sid Hw'), He, app_assoc. reflexivity.
  Qed.

  Lemma empty_world_inv d n : world_inv (mkWorld d [] n [] []).
  Proof. intros s u H. discriminate. Qed.
End Records.
