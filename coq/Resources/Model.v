(* Diameter connections and the background tasks that serve them (C18).
   An exchange is one call of a sending function (internal/rating.SendServiceUsageRequest,
   internal/abmf.SendAccountDebitRequest): it dials a connection at its call site - which starts a
   reader task and a watchdog task on the client side and a handler task on the peer's side - sends,
   waits for the answer or the 5 s timer, and returns.  Whether the connection is closed when the
   function returns is a property of the call site, regenerated from the sources (SitesGen.v). *)
From Coq Require Import String List Arith Bool.
Import ListNotations.

Record site := mkSite { s_file : string; s_func : string; s_call : string; s_closes : bool }.

Inductive ev :=
| Begin (x : nat) (i : nat)     (* exchange x starts at site i: the connection is dialled *)
| Finish (x : nat).             (* the sending function of exchange x returns (answer, timeout or error) *)

Record st := mkSt {
  open : list (nat * nat);      (* (exchange, site) of every established connection *)
  live : list nat }.            (* exchanges in flight *)

Definition init : st := mkSt [] [].

Section Sites.
  Variable sites : list site.
  Definition closes (i : nat) : bool := match nth_error sites i with Some s => s_closes s | None => false end.

  Definition step (s : st) (e : ev) : st :=
    match e with
    | Begin x i => mkSt ((x, i) :: open s) (x :: live s)
    | Finish x =>
      mkSt (filter (fun c => negb (Nat.eqb (fst c) x && closes (snd c))) (open s))
           (filter (fun y => negb (Nat.eqb y x)) (live s))
    end.
  Definition run (h : list ev) : st := fold_left step h init.

  (* tasks kept alive by the open connections: reader of the client, serving task of the peer *)
  Definition tasks (s : st) : nat := 2 * length (open s).
  Definition open_at (s : st) (i : nat) : nat := length (filter (fun c => Nat.eqb (snd c) i) (open s)).

  Definition all_closed : bool := forallb s_closes sites.

  (* histories: an exchange begins once, at a site that exists *)
  Fixpoint wf (seen : list nat) (h : list ev) : bool :=
    match h with
    | [] => true
    | Begin x i :: r => negb (existsb (Nat.eqb x) seen) && Nat.ltb i (length sites) && wf (x :: seen) r
    | Finish x :: r => wf seen r
    end.
End Sites.

(* n exchanges one after the other at site i *)
Fixpoint sequential (i : nat) (n : nat) : list ev :=
  match n with O => [] | S k => sequential i k ++ [Begin k i; Finish k] end.
