(* C18 — Diameter connections and background tasks stay bounded as requests accumulate. *)
From Coq Require Import String List Arith Bool Lia.
From Verif Require Import Resources.Model Resources.Proofs Resources.SitesGen.
Import ListNotations.

(* every call site of the regenerated table that dials a Diameter connection closes it when the
   sending function returns, and the two senders are there *)
Theorem C18_sites_closed :
  all_closed sites_gen = true /\
  map s_func sites_gen = ["SendAccountDebitRequest"; "SendServiceUsageRequest"]%string.
Proof. vm_compute. split; reflexivity. Qed.
Print Assumptions C18_sites_closed.

(* in every history of exchanges - any number, any interleaving of begins and returns, any sites -
   the established connections never outnumber the exchanges in flight, and once no exchange is in
   flight no connection and no task serving one is left *)
Theorem C18_bounded : forall h,
  wf sites_gen [] h = true ->
  length (open (run sites_gen h)) <= length (live (run sites_gen h)) /\
  (live (run sites_gen h) = [] -> open (run sites_gen h) = [] /\ tasks (run sites_gen h) = 0).
Proof.
  intros h Hw. split; [apply (open_bounded sites_gen (proj1 C18_sites_closed) h Hw)|].
  apply (quiescent_none sites_gen (proj1 C18_sites_closed) h Hw).
Qed.
Print Assumptions C18_bounded.

(* what the closing buys: with a site that does not close, n requests leave n connections *)
Theorem C18_unclosed_site_leaks : forall sites i n,
  closes sites i = false -> length (open (run sites (sequential i n))) = n /\ live (run sites (sequential i n)) = [].
Proof. intros sites i n H. destruct (sequential_leak sites i H n) as [A [B _]]. split; assumption. Qed.
Print Assumptions C18_unclosed_site_leaks.

Example C18_nonvacuous :
  wf sites_gen [] [Begin 0 0; Begin 1 1; Finish 0; Begin 2 0; Finish 2; Finish 1] = true /\
  length (open (run sites_gen [Begin 0 0; Begin 1 1; Finish 0; Begin 2 0])) = 2.
Proof. vm_compute. split; reflexivity. Qed.
