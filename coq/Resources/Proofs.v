From Coq Require Import String List Arith Bool Lia.
From Verif Require Import Resources.Model.
Import ListNotations.

Section Proofs.
  Variable sites : list site.
  Hypothesis Hclosed : all_closed sites = true.

  Lemma closes_in i : i < length sites -> closes sites i = true.
  Proof.
    intros Hi. unfold closes. destruct (nth_error sites i) as [s|] eqn:E.
    - unfold all_closed in Hclosed. rewrite forallb_forall in Hclosed. apply Hclosed. apply (nth_error_In _ _ E).
    - apply nth_error_None in E. lia.
  Qed.

  (* every open connection belongs to an exchange in flight, at an existing site, once *)
  Definition inv (s : st) : Prop :=
    (forall c, In c (open s) -> In (fst c) (live s) /\ snd c < length sites) /\ NoDup (map fst (open s)).

  Lemma inv_step s e seen r :
    inv s -> (forall x, In x (live s) -> In x seen) -> (forall c, In c (open s) -> In (fst c) seen) ->
    wf sites seen (e :: r) = true ->
    inv (step sites s e) /\
    (forall x, In x (live (step sites s e)) -> In x (match e with Begin x _ => x :: seen | _ => seen end)) /\
    (forall c, In c (open (step sites s e)) -> In (fst c) (match e with Begin x _ => x :: seen | _ => seen end)).
  Proof.
    intros [Ho Hn] Hl Hs Hw. destruct e as [x i|x]; cbn [step open live wf] in *.
    - apply andb_prop in Hw. destruct Hw as [Hw _]. apply andb_prop in Hw. destruct Hw as [Hfresh Hi].
      apply Nat.ltb_lt in Hi. apply negb_true_iff in Hfresh.
      assert (Hx : ~ In x seen).
      { intros Hin. assert (existsb (Nat.eqb x) seen = true); [|congruence].
        apply existsb_exists. exists x. split; [exact Hin|apply Nat.eqb_refl]. }
      split; [split|split].
      + intros c [Hc|H]; [subst c; cbn [fst snd]; split; [left; reflexivity|exact Hi]|].
        destruct (Ho c H) as [A B]. split; [right; exact A|exact B].
      + cbn [map fst]. constructor; [|exact Hn]. intros Hin. apply in_map_iff in Hin. destruct Hin as [c [Hc Hin]].
        apply Hx. cbn [fst] in Hc. rewrite <- Hc. apply (Hs c Hin).
      + intros y [<-|Hy]; [left; reflexivity|right; apply Hl; exact Hy].
      + intros c [Hc|Hc]; [subst c; left; reflexivity|right; apply (Hs c Hc)].
    - split; [split|split].
      + intros c H. apply filter_In in H. destruct H as [Hin Hf]. destruct (Ho c Hin) as [A B]. split; [|exact B].
        apply filter_In. split; [exact A|].
        destruct (Nat.eqb (fst c) x) eqn:E; [|reflexivity].
        rewrite (closes_in (snd c) B) in Hf. cbn in Hf. discriminate.
      + clear -Hn. induction (open s) as [|c r IH]; [constructor|]. cbn [filter].
        inversion Hn as [|c0 r0 Hnin Hn']; subst. destruct (negb _); [|apply IH; assumption].
        cbn [map]. constructor; [|apply IH; assumption].
        intros Hin. apply in_map_iff in Hin. destruct Hin as [c' [E Hc']]. apply filter_In in Hc'.
        apply Hnin. apply in_map_iff. exists c'. tauto.
      + intros y Hy. apply filter_In in Hy. apply Hl. tauto.
      + intros c Hc. apply filter_In in Hc. apply (Hs c (proj1 Hc)).
  Qed.

  Lemma inv_run : forall h s seen,
    inv s -> (forall x, In x (live s) -> In x seen) -> (forall c, In c (open s) -> In (fst c) seen) ->
    wf sites seen h = true -> inv (fold_left (step sites) h s).
  Proof.
    induction h as [|e r IH]; intros s seen Hi Hl Hs Hw; [exact Hi|].
    destruct (inv_step s e seen r Hi Hl Hs Hw) as [Hi' [Hl' Hs']]. cbn [fold_left].
    apply (IH _ (match e with Begin x _ => x :: seen | _ => seen end) Hi' Hl' Hs').
    destruct e; cbn [wf] in Hw; [apply andb_prop in Hw; tauto|exact Hw].
  Qed.

  Lemma NoDup_incl_length (a b : list nat) : NoDup a -> (forall x, In x a -> In x b) -> length a <= length b.
  Proof. intros Hn Hi. apply (NoDup_incl_length Hn). exact Hi. Qed.

  Theorem open_bounded h :
    wf sites [] h = true -> length (open (run sites h)) <= length (live (run sites h)).
  Proof.
    intros Hw. assert (Hi : inv (run sites h)).
    { apply (inv_run h init []); [split; [intros c []|constructor]|intros x []|intros c []|exact Hw]. }
    destruct Hi as [Ho Hn]. rewrite <- (map_length fst). apply NoDup_incl_length; [exact Hn|].
    intros x Hx. apply in_map_iff in Hx. destruct Hx as [c [<- Hc]]. apply (Ho c Hc).
  Qed.

  Theorem quiescent_none h :
    wf sites [] h = true -> live (run sites h) = [] -> open (run sites h) = [] /\ tasks (run sites h) = 0.
  Proof.
    intros Hw Hl. pose proof (open_bounded h Hw) as H. rewrite Hl in H. cbn [length] in H.
    unfold tasks. destruct (open (run sites h)); [split; reflexivity|cbn [length] in H; lia].
  Qed.
End Proofs.

Lemma filter_all {A} (f : A -> bool) l : (forall x, In x l -> f x = true) -> filter f l = l.
Proof.
  induction l as [|y r IH]; intros H; [reflexivity|]. cbn [filter]. rewrite (H y (or_introl eq_refl)).
  f_equal. apply IH. intros x Hx. apply H. right. exact Hx.
Qed.

(* a site that does not close leaks one connection per exchange *)
Lemma sequential_leak sites i : closes sites i = false -> forall n,
  length (open (run sites (sequential i n))) = n /\ live (run sites (sequential i n)) = [] /\
  (forall c, In c (open (run sites (sequential i n))) -> fst c < n /\ snd c = i).
Proof.
  intros Hc. induction n as [|k [IH1 [IH2 IH3]]].
  { split; [reflexivity|]. split; [reflexivity|]. intros c0 []. }
  cbn [sequential]. unfold run in *. rewrite fold_left_app. cbn [fold_left step open live].
  set (s := fold_left (step sites) (sequential i k) init) in *.
  assert (Hkeep : filter (fun c0 => negb (Nat.eqb (fst c0) k && closes sites (snd c0))) ((k, i) :: open s) = (k, i) :: open s).
  { cbn [filter fst snd]. rewrite Hc, andb_false_r. cbn [negb]. f_equal.
    apply filter_all. intros c0 Hin. destruct (IH3 c0 Hin) as [Hlt Hs]. rewrite Hs, Hc, andb_false_r. reflexivity. }
  rewrite Hkeep. split; [|split].
  - cbn [length]. rewrite IH1. reflexivity.
  - rewrite IH2. cbn [filter]. rewrite Nat.eqb_refl. reflexivity.
  - intros c0 [E|H]; [subst c0; cbn [fst snd]; split; [lia|reflexivity]|]. destruct (IH3 c0 H). split; [lia|assumption].
Qed.
