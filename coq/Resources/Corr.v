(* Correspondence for C18: after each charging operation (quiescent: the HTTP answer is back) the
   harness reports how many connections the operation dialled to each peer (sockets in any state that
   appeared) and how many are still established.  The model runs that many exchanges at the peer's
   site and must predict the established count. *)
From Coq Require Import String List Arith Bool ZArith.
From Verif Require Import Resources.Model Resources.SitesGen.
Import ListNotations.

(* site index of a sending function *)
Definition site_of (f : string) : nat :=
  (fix go (l : list site) (i : nat) : nat :=
     match l with [] => i | s :: r => if String.eqb (s_func s) f then i else go r (S i) end) sites_gen 0.

(* one operation: exchanges dialled towards the rating peer and the account-balance peer, established after *)
Definition rcase := (Z * list (nat * nat * nat * nat))%type.   (* id, [(k_rf, k_abmf, est_rf, est_abmf)] *)

Fixpoint exchanges (i : nat) (from n : nat) : list ev :=
  match n with O => [] | S k => Begin from i :: Finish from :: exchanges i (S from) k end.

Fixpoint replay (s : st) (next : nat) (step_no : Z) (ops : list (nat * nat * nat * nat)) : list Z :=
  match ops with
  | [] => []
  | (krf, kab, erf, eab) :: r =>
    let irf := site_of "SendServiceUsageRequest" in
    let iab := site_of "SendAccountDebitRequest" in
    let s1 := fold_left (step sites_gen) (exchanges irf next krf ++ exchanges iab (next + krf) kab) s in
    (if Nat.eqb (open_at s1 irf) erf && Nat.eqb (open_at s1 iab) eab then [] else [step_no]) ++
    replay s1 (next + krf + kab) (step_no + 1)%Z r
  end.

Definition run_res (cs : list rcase) : list (Z * Z) :=
  flat_map (fun c => map (fun k => (fst c, k)) (replay init 0 0%Z (snd c))) cs.
