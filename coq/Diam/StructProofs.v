(* C17, struct level: for tables that pass the consistency check, what the receiver's Unmarshal
   builds from the sender's Marshal is the value sent. *)
From Coq Require Import String List ZArith Lia Bool ZifyBool.
From Verif Require Import Common.Outcome Common.Bytes Common.BytesLemmas Ber.Model Ber.Arith Diam.Avp Diam.WireProofs.
Import ListNotations.
Open Scope Z_scope.

Ltac Zify.zify_post_hook ::= Z.div_mod_to_equations.

#[local] Arguments Z.add : simpl never.
#[local] Arguments Z.sub : simpl never.
#[local] Arguments Z.mul : simpl never.
#[local] Arguments Z.pow : simpl never.
#[local] Arguments Z.modulo : simpl never.
#[local] Arguments Z.div : simpl never.
#[local] Arguments Z.to_nat : simpl never.
#[local] Arguments Z.of_nat : simpl never.
#[local] Arguments Z.ltb : simpl never.
#[local] Arguments Z.leb : simpl never.
#[local] Arguments Z.gtb : simpl never.
#[local] Arguments Z.testbit : simpl never.

(* induction principle for the nested type of Go field types *)
Section GtyInd.
  Variable P : gty -> Prop.
  Hypothesis Hnum : forall k, P (GNum k).
  Hypothesis Hstr : P GStr.
  Hypothesis Htime : P GTime.
  Hypothesis Hraw : P GRaw.
  Hypothesis Hptr : forall t, P t -> P (GPtr t).
  Hypothesis Hstruct : forall fs, Forall (fun f => P (snd f)) fs -> P (GStruct fs).
  Fixpoint gty_ind' (t : gty) : P t :=
    match t with
    | GNum k => Hnum k
    | GStr => Hstr
    | GTime => Htime
    | GRaw => Hraw
    | GPtr t' => Hptr t' (gty_ind' t')
    | GStruct fs =>
      Hstruct fs ((fix go (fs : list (string * gty)) : Forall (fun f => P (snd f)) fs :=
                     match fs with
                     | [] => Forall_nil _
                     | f :: r => Forall_cons f (gty_ind' (snd f)) (go r)
                     end) fs)
    end.
End GtyInd.

Section Tables.
  Variables (d : dict) (app : Z).

  (* ---- the nested fixes are the top-level functions ---- *)

  Lemma marshal_struct fs a vs :
    marshal d app (GStruct fs) a (VStruct vs) =
    match d_type a with
    | DGrouped => do l <- marshal_fields d app fs vs; Ok [ANode (d_code a) (avp_flags a) (d_vendor a) l]
    | _ => Err
    end.
  Proof.
    cbn [marshal]. destruct (d_type a); try reflexivity.
    match goal with |- bind ?x _ = bind ?y _ => assert (E : x = y) end.
    { revert vs. induction fs as [|[n ft] fr IH]; intros vs; destruct vs as [|fv vr]; try reflexivity.
      cbn [marshal_fields]. destruct (by_name d app n); [|reflexivity].
      destruct (marshal d app ft d0 fv); try reflexivity. cbn [bind]. rewrite IH. reflexivity. }
    rewrite E. reflexivity.
  Qed.

  Lemma unmarshal_struct fs c f v l cnt :
    unmarshal d app (GStruct fs) (ANode c f v l) cnt = VStruct (scan_fields d app fs l).
  Proof.
    cbn [unmarshal]. f_equal. induction fs as [|[n ft] fr IH]; [reflexivity|].
    cbn [scan_fields]. rewrite IH. reflexivity.
  Qed.

  Definition field_codes (fs : list (string * gty)) : list Z :=
    map (fun f => match by_name d app (fst f) with Some a => d_code a | None => -1 end) fs.

  Fixpoint fields_all (fs : list (string * gty)) : bool :=
    match fs with
    | [] => true
    | (n, ft) :: fr =>
      (match by_name d app n with
       | None => false
       | Some a => entry_ok d app a && compat ft (d_type a)
       end) && fields_ok d app ft && fields_all fr
    end.

  Lemma fields_ok_struct fs :
    fields_ok d app (GStruct fs) = fields_all fs && nodupb (field_codes fs).
  Proof. reflexivity. Qed.

  Fixpoint in_range_all (fs : list (string * gty)) (vs : list gval) : bool :=
    match fs, vs with
    | [], [] => true
    | (_, ft) :: fr, fv :: vr => in_range ft fv && in_range_all fr vr
    | _, _ => false
    end.

  Lemma in_range_struct fs vs : in_range (GStruct fs) (VStruct vs) = in_range_all fs vs.
  Proof. reflexivity. Qed.

  (* ---- AVPs typed by the dictionary, and AVPs that fit the 24-bit length ---- *)

  Inductive typed : avp -> Prop :=
  | typed_leaf c f v b :
      head_ok c f v -> code_type d app c v <> DGrouped -> normalise (code_type d app c v) b = b ->
      typed (ALeaf c f v b)
  | typed_node c f v l :
      head_ok c f v -> code_type d app c v = DGrouped -> Forall typed l -> typed (ANode c f v l).

  Inductive fits : avp -> Prop :=
  | fits_leaf c f v b : hl f + zlen b < 2 ^ 24 -> fits (ALeaf c f v b)
  | fits_node c f v l : hl f + alens l < 2 ^ 24 -> Forall fits l -> fits (ANode c f v l).

  Lemma typed_fits_wf a : typed a -> fits a -> wf d app a.
  Proof.
    induction a as [c f v b|c f v l IH] using avp_ind'; intros Ht Hf.
    - inversion Ht; subst. inversion Hf; subst. apply wf_leaf; assumption.
    - inversion Ht as [|c' f' v' l' Hh Hty Hl]; subst. inversion Hf as [|c' f' v' l' Hsz Hfl]; subst.
      apply wf_node; try assumption.
      rewrite Forall_forall in *. intros y Hy. apply (IH y Hy); [apply (Hl y Hy)|apply (Hfl y Hy)].
  Qed.

  (* ---- picking AVPs by code ---- *)

  Lemma with_code_app c a b : with_code c (a ++ b) = with_code c a ++ with_code c b.
  Proof. unfold with_code. apply filter_app. Qed.

  Definition tagged (c : Z) (x : list avp) : Prop := Forall (fun y => a_code y = c) x.

  Lemma with_code_same c x : tagged c x -> with_code c x = x.
  Proof.
    induction 1 as [|y r Hy _ IH]; [reflexivity|]. unfold with_code in *. cbn [filter].
    rewrite Hy, Z.eqb_refl, IH. reflexivity.
  Qed.

  Lemma with_code_other c c' x : tagged c' x -> c <> c' -> with_code c x = [].
  Proof.
    intros H Hne. induction H as [|y r Hy _ IH]; [reflexivity|]. unfold with_code in *. cbn [filter].
    rewrite Hy. destruct (Z.eqb_spec c' c); [congruence|]. exact IH.
  Qed.

  Lemma with_code_absent c : forall cs xs,
    Forall2 tagged cs xs -> ~ In c cs -> with_code c (concat xs) = [].
  Proof.
    induction 1 as [|c' x cr xr Hx _ IH]; intros Hn; [reflexivity|].
    cbn [concat]. rewrite with_code_app, (with_code_other c c' x Hx), IH; [reflexivity| |].
    - intros Hin. apply Hn. right. exact Hin.
    - intros ->. apply Hn. left. reflexivity.
  Qed.

  Lemma picks : forall cs xs,
    Forall2 tagged cs xs -> NoDup cs ->
    forall pre, (forall c, In c cs -> with_code c pre = []) ->
    Forall2 (fun c x => with_code c (pre ++ concat xs) = x) cs xs.
  Proof.
    induction 1 as [|c x cr xr Hx Hr IH]; intros Hnd pre Hpre; [constructor|].
    inversion Hnd as [|c' cr' Hnin Hnd']; subst. constructor.
    - cbn [concat]. rewrite !with_code_app, (Hpre c (or_introl eq_refl)), (with_code_same c x Hx),
        (with_code_absent c cr xr Hr Hnin), app_nil_r. reflexivity.
    - cbn [concat]. rewrite app_assoc. apply IH; [exact Hnd'|].
      intros c' Hin. rewrite with_code_app, (Hpre c' (or_intror Hin)).
      rewrite (with_code_other c' c x Hx); [reflexivity|]. intros ->. contradiction.
  Qed.

  Lemma nodupb_NoDup l : nodupb l = true -> NoDup l.
  Proof.
    induction l as [|x r IH]; intros H; [constructor|]. cbn [nodupb] in H.
    apply andb_prop in H. destruct H as [H1 H2]. constructor; [|apply IH; exact H2].
    intros Hin. apply negb_true_iff in H1. assert (existsb (Z.eqb x) r = true); [|congruence].
    apply existsb_exists. exists x. split; [exact Hin|apply Z.eqb_refl].
  Qed.

  (* ---- one field ---- *)

  (* what marshalling a field of type t under dictionary entry a gives, and what the receiver rebuilds *)
  Definition field_rel (t : gty) (a : davp) (v : gval) (x : list avp) : Prop :=
    marshal d app t a v = Ok x /\ tagged (d_code a) x /\ Forall typed x /\
    match x with
    | [] => erase (zero t) = erase v
    | y :: r => r = [] /\ forall cnt, erase (unmarshal d app t y cnt) = erase v
    end.

  Fixpoint fields_rel (fs : list (string * gty)) (vs : list gval) (xs : list (list avp)) : Prop :=
    match fs, vs, xs with
    | [], [], [] => True
    | (n, ft) :: fr, v :: vr, x :: xr =>
      (exists a, by_name d app n = Some a /\ field_rel ft a v x) /\ fields_rel fr vr xr
    | _, _, _ => False
    end.

  Lemma fields_rel_marshal : forall fs vs xs,
    fields_rel fs vs xs -> marshal_fields d app fs vs = Ok (concat xs).
  Proof.
    induction fs as [|[n ft] fr IH]; intros vs xs H; destruct vs as [|v vr]; destruct xs as [|x xr];
      try contradiction; [reflexivity|].
    destruct H as [[a [Ha [Hm _]]] Hr]. cbn [marshal_fields]. rewrite Ha, Hm. cbn [bind].
    rewrite (IH vr xr Hr). reflexivity.
  Qed.

  Lemma fields_rel_tagged : forall fs vs xs,
    fields_rel fs vs xs -> Forall2 tagged (field_codes fs) xs.
  Proof.
    induction fs as [|[n ft] fr IH]; intros vs xs H; destruct vs as [|v vr]; destruct xs as [|x xr];
      try contradiction; [constructor|].
    destruct H as [[a [Ha [_ [Ht _]]]] Hr]. cbn [field_codes map fst]. rewrite Ha.
    constructor; [exact Ht|apply (IH vr xr Hr)].
  Qed.

  Lemma fields_rel_typed : forall fs vs xs,
    fields_rel fs vs xs -> Forall typed (concat xs).
  Proof.
    induction fs as [|[n ft] fr IH]; intros vs xs H; destruct vs as [|v vr]; destruct xs as [|x xr];
      try contradiction; [constructor|].
    destruct H as [[a [Ha [_ [_ [Hty _]]]]] Hr]. cbn [concat]. apply Forall_app. split; [exact Hty|apply (IH vr xr Hr)].
  Qed.

  (* the receiver's scan, given that picking by code returns each field's own AVPs *)
  Lemma fields_rel_scan L : forall fs vs xs,
    fields_rel fs vs xs ->
    Forall2 (fun c x => with_code c L = x) (field_codes fs) xs ->
    map erase (scan_fields d app fs L) = map erase vs.
  Proof.
    induction fs as [|[n ft] fr IH]; intros vs xs H Hp; destruct vs as [|v vr]; destruct xs as [|x xr];
      try contradiction; [reflexivity|].
    destruct H as [[a [Ha [_ [_ [_ Hx]]]]] Hr].
    cbn [field_codes map fst] in Hp. rewrite Ha in Hp.
    assert (Hc : with_code (d_code a) L = x) by (inversion Hp; assumption).
    assert (Hpr : Forall2 (fun c x => with_code c L = x) (field_codes fr) xr) by (inversion Hp; assumption).
    cbn [scan_fields map]. rewrite Ha, Hc. f_equal; [|apply (IH vr xr Hr Hpr)].
    destruct x as [|y r]; [exact Hx|]. destruct Hx as [-> Hu]. apply Hu.
  Qed.

  (* ---- numbers ---- *)

  Lemma vbit_flags a : 0 <= d_vendor a -> vbit (avp_flags a) = (d_vendor a >? 0).
  Proof.
    intros _. unfold avp_flags, vbit. destruct (d_must a); destruct (d_vendor a >? 0); reflexivity.
  Qed.

  Lemma flags_range a : 0 <= avp_flags a < 256.
  Proof. unfold avp_flags. destruct (d_must a); destruct (d_vendor a >? 0); lia. Qed.

  Lemma entry_head a : entry_ok d app a = true -> head_ok (d_code a) (avp_flags a) (d_vendor a).
  Proof.
    unfold entry_ok. intros H. repeat (apply andb_prop in H; destruct H as [H ?]).
    unfold head_ok. repeat split; try lia; try apply flags_range.
    rewrite vbit_flags by lia. lia.
  Qed.

  Lemma entry_type a : entry_ok d app a = true -> code_type d app (d_code a) (d_vendor a) = d_type a.
  Proof.
    unfold entry_ok. intros H. apply andb_prop in H. destruct H as [_ H].
    destruct (code_type d app (d_code a) (d_vendor a)); destruct (d_type a); try discriminate; reflexivity.
  Qed.

  Lemma dtype_eqb_eq x y : dtype_eqb x y = true -> x = y.
  Proof. destruct x; destruct y; try discriminate; reflexivity. Qed.

  (* an in-range integer survives: wrap, big-endian octets, read back, sign, wrap *)
  Lemma num_roundtrip k z :
    is_int k = true -> num_ok k z = true ->
    wrap_to k (dec_num k (enc_num k (wrap_to k z))) = z /\
    normalise k (enc_num k (wrap_to k z)) = enc_num k (wrap_to k z).
  Proof.
    intros Hi Hr.
    assert (Hn : normalise k (enc_num k (wrap_to k z)) = enc_num k (wrap_to k z)).
    { unfold normalise, enc_num. destruct (width k) as [w|] eqn:Ew; [|reflexivity].
      rewrite zlen_be. assert (0 <= w) by (destruct k; inversion Ew; lia).
      rewrite Z2Nat.id by lia. rewrite Z.eqb_refl. reflexivity. }
    split; [|exact Hn].
    destruct k; try discriminate; unfold enc_num, dec_num, width, wrap_to, num_ok in *;
      unfold be; rewrite ufold_digits.
    - change (8 * Z.of_nat (Z.to_nat 4)) with 32. lia.
    - change (8 * Z.of_nat (Z.to_nat 8)) with 64. lia.
    - change (8 * Z.of_nat (Z.to_nat 4)) with 32. lia.
    - change (8 * Z.of_nat (Z.to_nat 8)) with 64. lia.
    - change (8 * Z.of_nat (Z.to_nat 4)) with 32. lia.
  Qed.

  (* ---- every field type ---- *)

  Definition field_goal (t : gty) : Prop :=
    forall a v,
      entry_ok d app a = true -> compat t (d_type a) = true -> fields_ok d app t = true ->
      in_range t v = true ->
      exists x, field_rel t a v x.

  Lemma is_leaf_type k : is_int k = true -> k <> DGrouped.
  Proof. destruct k; discriminate. Qed.

  Lemma field_num k : field_goal (GNum k).
  Proof.
    intros a v He Hc _ Hr. destruct v as [z| | | | | |]; try discriminate.
    cbn [compat] in Hc. apply andb_prop in Hc. destruct Hc as [Hi Hk]. apply dtype_eqb_eq in Hk. subst k.
    cbn [in_range] in Hr. destruct (num_roundtrip (d_type a) z Hi Hr) as [Hrt Hn].
    eexists. unfold field_rel. cbn [marshal]. rewrite Hi. cbn [andb]. split; [reflexivity|].
    split; [constructor; [reflexivity|constructor]|].
    split.
    - constructor; [|constructor]. constructor; [apply entry_head; exact He| |].
      + rewrite (entry_type a He). apply is_leaf_type. exact Hi.
      + rewrite (entry_type a He). exact Hn.
    - split; [reflexivity|]. intros cnt. cbn [unmarshal]. rewrite (entry_type a He), Hi. cbn [andb erase].
      rewrite Hrt. reflexivity.
  Qed.

  Lemma field_str : field_goal GStr.
  Proof.
    intros a v He Hc _ Hr. destruct v as [|b| | | | |]; try discriminate.
    cbn [compat] in Hc. apply dtype_eqb_eq in Hc.
    eexists. unfold field_rel. cbn [marshal]. rewrite Hc. split; [reflexivity|].
    split; [constructor; [reflexivity|constructor]|].
    split.
    - constructor; [|constructor]. constructor; [apply entry_head; exact He| |]; rewrite (entry_type a He), Hc.
      + discriminate.
      + reflexivity.
    - split; [reflexivity|]. intros cnt. cbn [unmarshal]. rewrite (entry_type a He), Hc. reflexivity.
  Qed.

  Lemma field_time : field_goal GTime.
  Proof.
    intros a v He Hc _ Hr. destruct v as [| |s| | | |]; try discriminate.
    cbn [compat] in Hc. apply dtype_eqb_eq in Hc. cbn [in_range] in Hr.
    eexists. unfold field_rel. cbn [marshal]. rewrite Hc. split; [reflexivity|].
    split; [constructor; [reflexivity|constructor]|].
    split.
    - constructor; [|constructor]. constructor; [apply entry_head; exact He| |]; rewrite (entry_type a He), Hc.
      + discriminate.
      + unfold normalise, width. rewrite zlen_be. reflexivity.
    - split; [reflexivity|]. intros cnt. cbn [unmarshal]. rewrite (entry_type a He), Hc. cbn [erase].
      rewrite ufold_be; [reflexivity|]. change (8 * Z.of_nat 4) with 32. lia.
  Qed.

  Lemma field_raw : field_goal GRaw.
  Proof.
    intros a v He Hc _ Hr. destruct v as [| | |b| | |]; try discriminate.
    cbn [in_range] in Hr. destruct b as [|b0 br]; [|discriminate].
    cbn [compat] in Hc. apply dtype_eqb_eq in Hc.
    eexists. unfold field_rel. cbn [marshal]. rewrite Hc. split; [reflexivity|].
    split; [constructor; [reflexivity|constructor]|].
    split.
    - constructor; [|constructor]. constructor; [apply entry_head; exact He| |constructor].
      rewrite (entry_type a He). exact Hc.
    - split; [reflexivity|]. intros cnt. reflexivity.
  Qed.

  Lemma field_ptr t : field_goal t -> field_goal (GPtr t).
  Proof.
    intros IH a v He Hc Hf Hr. cbn [compat] in Hc. cbn [fields_ok] in Hf.
    destruct v as [| | | | |v'|]; try discriminate.
    - (* nil: nothing is sent, the receiver keeps nil *)
      exists []. unfold field_rel. cbn [marshal]. repeat split; constructor.
    - cbn [in_range] in Hr.
      assert (Hf' : fields_ok d app t = true) by (destruct t; try exact Hf; discriminate).
      destruct (IH a v' He Hc Hf' Hr) as [x [Hm [Htag [Hty Hx]]]].
      exists x. unfold field_rel. cbn [marshal]. split; [exact Hm|]. split; [exact Htag|]. split; [exact Hty|].
      destruct x as [|y r].
      + (* the pointee marshals to nothing only if it is itself a nil pointer, which the table check excludes *)
        exfalso. destruct t as [k| | | |t'|fs].
        * cbn [marshal] in Hm. destruct v'; try discriminate. destruct (is_int k && is_int (d_type a)); discriminate.
        * cbn [marshal] in Hm. destruct v'; try discriminate. destruct (d_type a); discriminate.
        * cbn [marshal] in Hm. destruct v'; try discriminate. destruct (d_type a); discriminate.
        * cbn [marshal] in Hm. destruct v'; try discriminate. destruct (d_type a); discriminate.
        * discriminate Hf.
        * destruct v' as [| | | | | |vs]; try discriminate. rewrite marshal_struct in Hm.
          destruct (d_type a); try discriminate. destruct (marshal_fields d app fs vs); discriminate.
      + destruct Hx as [-> Hu]. split; [reflexivity|]. intros cnt. cbn [unmarshal erase]. rewrite Hu. reflexivity.
  Qed.

  Lemma fields_goal_all : forall fs,
    Forall (fun f => field_goal (snd f)) fs ->
    forall vs, fields_all fs = true -> in_range_all fs vs = true ->
    exists xs, fields_rel fs vs xs.
  Proof.
    induction 1 as [|[n ft] fr Hf _ IH]; intros vs Hall Hr; destruct vs as [|v vr]; try discriminate.
    - exists []. exact I.
    - cbn [fields_all] in Hall. cbn [in_range_all] in Hr.
      apply andb_prop in Hall. destruct Hall as [Hall Hrest]. apply andb_prop in Hall. destruct Hall as [Hn Hfo].
      apply andb_prop in Hr. destruct Hr as [Hrv Hrr].
      destruct (by_name d app n) as [a|] eqn:Ea; [|discriminate].
      apply andb_prop in Hn. destruct Hn as [He Hc].
      destruct (Hf a v He Hc Hfo Hrv) as [x Hx]. destruct (IH vr Hrest Hrr) as [xr Hxr].
      exists (x :: xr). cbn [fields_rel]. split; [exists a; split; [exact Ea|exact Hx]|exact Hxr].
  Qed.

  Lemma struct_scan fs vs xs :
    fields_rel fs vs xs -> nodupb (field_codes fs) = true ->
    map erase (scan_fields d app fs (concat xs)) = map erase vs.
  Proof.
    intros H Hnd. apply (fields_rel_scan (concat xs) fs vs xs H).
    apply (picks (field_codes fs) xs (fields_rel_tagged fs vs xs H) (nodupb_NoDup _ Hnd) []).
    intros c _. reflexivity.
  Qed.

  Lemma field_struct fs : Forall (fun f => field_goal (snd f)) fs -> field_goal (GStruct fs).
  Proof.
    intros IH a v He Hc Hf Hr. destruct v as [| | | | | |vs]; try discriminate.
    cbn [compat] in Hc. apply dtype_eqb_eq in Hc.
    rewrite fields_ok_struct in Hf. apply andb_prop in Hf. destruct Hf as [Hall Hnd].
    rewrite in_range_struct in Hr.
    destruct (fields_goal_all fs IH vs Hall Hr) as [xs Hxs].
    exists [ANode (d_code a) (avp_flags a) (d_vendor a) (concat xs)]. unfold field_rel.
    rewrite marshal_struct, Hc, (fields_rel_marshal fs vs xs Hxs). cbn [bind].
    split; [reflexivity|]. split; [constructor; [reflexivity|constructor]|].
    split.
    - constructor; [|constructor]. constructor; [apply entry_head; exact He| |apply (fields_rel_typed fs vs xs Hxs)].
      rewrite (entry_type a He). exact Hc.
    - split; [reflexivity|]. intros cnt. rewrite unmarshal_struct. cbn [erase]. f_equal.
      apply (struct_scan fs vs xs Hxs Hnd).
  Qed.

  Theorem field_all t : field_goal t.
  Proof.
    induction t using gty_ind'.
    - apply field_num. - apply field_str. - apply field_time. - apply field_raw.
    - apply field_ptr. assumption.
    - apply field_struct. assumption.
  Qed.

  (* ---- a whole message ---- *)

  Theorem message_roundtrip fs vs :
    fields_ok d app (GStruct fs) = true ->
    in_range (GStruct fs) (VStruct vs) = true ->
    exists l, marshal_fields d app fs vs = Ok l /\ Forall typed l /\
              (Forall fits l ->
               receive d app fs (ser_avps l) = Ok (scan_fields d app fs l)) /\
              erase (VStruct (scan_fields d app fs l)) = erase (VStruct vs).
  Proof.
    intros Hf Hr. rewrite fields_ok_struct in Hf. apply andb_prop in Hf. destruct Hf as [Hall Hnd].
    rewrite in_range_struct in Hr.
    assert (IH : Forall (fun f => field_goal (snd f)) fs).
    { apply Forall_forall. intros f _. apply field_all. }
    destruct (fields_goal_all fs IH vs Hall Hr) as [xs Hxs].
    exists (concat xs). split; [apply (fields_rel_marshal fs vs xs Hxs)|].
    split; [apply (fields_rel_typed fs vs xs Hxs)|]. split.
    - intros Hfit. unfold receive. rewrite parse_ser; [reflexivity| |lia].
      pose proof (fields_rel_typed fs vs xs Hxs) as Hty.
      apply Forall_forall. intros y Hy. apply typed_fits_wf.
      + apply (proj1 (Forall_forall _ _) Hty y Hy).
      + apply (proj1 (Forall_forall _ _) Hfit y Hy).
    - cbn [erase]. f_equal. apply (struct_scan fs vs xs Hxs Hnd).
  Qed.
End Tables.
