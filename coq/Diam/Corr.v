(* Correspondence for C17: the Go harness (harness/cmd/diamcorr) sends values of the four message
   structs through the real Marshal -> WriteTo -> ReadMessage -> Unmarshal; the model must produce
   the same octets and the same received value, and the received value must be the sent one
   (monitor on the implementation's own output). *)
From Coq Require Import List ZArith Bool String.
From Verif Require Import Common.Outcome Common.Bytes Diam.Avp Diam.DictGen.
Import ListNotations.
Open Scope Z_scope.

Fixpoint zlist_eqb (a b : list Z) : bool :=
  match a, b with
  | [], [] => true
  | x :: r, y :: s => (x =? y) && zlist_eqb r s
  | _, _ => false
  end.

Fixpoint gval_eqb (a b : gval) {struct a} : bool :=
  match a, b with
  | VNum x, VNum y => x =? y
  | VStr x, VStr y => zlist_eqb x y
  | VTime x, VTime y => x =? y
  | VRaw x, VRaw y => zlist_eqb x y
  | VNil, VNil => true
  | VSome x, VSome y => gval_eqb x y
  | VStruct xs, VStruct ys =>
    (fix all (xs ys : list gval) : bool :=
       match xs, ys with
       | [], [] => true
       | x :: r, y :: s => gval_eqb x y && all r s
       | _, _ => false
       end) xs ys
  | _, _ => false
  end.

(* (case id, message index in msgs_gen, Go succeeded, sent value, body octets, received value) *)
Definition dcase := (Z * Z * bool * gval * list Z * gval)%type.

Definition msg_fields (k : Z) : list (string * gty) :=
  match nth_error msgs_gen (Z.to_nat k) with
  | Some (_, GStruct fs) => fs
  | _ => []
  end.

(* 1: the model's octets differ from the implementation's (or one failed and the other did not);
   2: the model's received value differs from the implementation's;
   3: monitor - the implementation received something else than what was sent;
   4: the case lies outside the theorem's domain (in_range) - a defect of the generator, not of the code *)
Definition diam_codes (c : dcase) : list Z :=
  let '(id, k, ok, sent, body, recv) := c in
  let fs := msg_fields k in
  let vs := match sent with VStruct vs => vs | _ => [] end in
  (match wire dict_gen app_gen fs vs with
   | Ok bs => if ok && zlist_eqb bs body then [] else [1]
   | _ => if ok then [1] else []
   end) ++
  (if ok then
     match receive dict_gen app_gen fs body with
     | Ok rs => if gval_eqb (VStruct rs) recv then [] else [2]
     | _ => [2]
     end
   else []) ++
  (if ok && negb (gval_eqb (erase sent) (erase recv)) then [3] else []) ++
  (if in_range (GStruct fs) sent then [] else [4]).

Definition run_diam (cs : list dcase) : list (Z * Z) :=
  flat_map (fun c => let '(id, _, _, _, _, _) := c in map (fun code => (id, code)) (diam_codes c)) cs.
