(* Diameter AVP codec and struct <-> AVP marshalling as the CHF, the rating server and the
   account-balance server use it (github.com/fiorix/go-diameter v3.0.2: diam/avp.go, group.go,
   message.go, reflect.go, dict/parser.go, dict/util.go, datatype/*.go), over the dictionary
   and struct tables regenerated from /repo on every run (Diam/DictGen.v).

   The codec is the library's; what the CHF owns are the three tables (avp:"Name" struct tags,
   the dictionary XML, the AVP codes).  The model is parametric in those tables. *)
From Coq Require Import List ZArith Bool String.
From Verif Require Import Common.Outcome Common.Bytes Ber.Model.
Import ListNotations.
Open Scope Z_scope.

(* ---- dictionary ---- *)

Inductive dtype :=
| DU32 | DU64 | DI32 | DI64 | DEnum | DF32 | DF64
| DStr            (* OctetString, UTF8String, DiameterIdentity, DiameterURI, IPFilterRule, QoSFilterRule *)
| DTime | DGrouped
| DOther.         (* Address, IPv4, IPv6, Unknown: not used by the message structures *)

Definition dtype_eqb (a b : dtype) : bool :=
  match a, b with
  | DU32, DU32 | DU64, DU64 | DI32, DI32 | DI64, DI64 | DEnum, DEnum | DF32, DF32 | DF64, DF64
  | DStr, DStr | DTime, DTime | DGrouped, DGrouped | DOther, DOther => true
  | _, _ => false
  end.

Record davp := mkDavp {
  d_file : Z;          (* which loaded dictionary the definition comes from, in load order *)
  d_app : Z;           (* application id *)
  d_name : string;
  d_code : Z;
  d_vendor : Z;
  d_type : dtype;
  d_must : bool }.     (* must="M" *)

Definition dict := list davp.

(* later loaded definitions replace earlier ones in the name and code indexes (Parser.Load) *)
Fixpoint find_last {A} (f : A -> bool) (l : list A) : option A :=
  match l with
  | [] => None
  | x :: r => match find_last f r with Some y => Some y | None => if f x then Some x else None end
  end.

(* Parser.FindAVP(appid, name): the application's own AVPs, then the base application 0 *)
Definition by_name (d : dict) (app : Z) (n : string) : option davp :=
  match find_last (fun a => (d_app a =? app) && String.eqb (d_name a) n) d with
  | Some a => Some a
  | None => find_last (fun a => (d_app a =? 0) && String.eqb (d_name a) n) d
  end.

(* Parser.FindAVPWithVendor(appid, code, vendor) as AVP.DecodeFromBytes calls it *)
Definition by_code (d : dict) (app : Z) (code vendor : Z) : option davp :=
  match find_last (fun a => (d_app a =? app) && (d_code a =? code) && (d_vendor a =? vendor)) d with
  | Some a => Some a
  | None => find_last (fun a => (d_app a =? 0) && (d_code a =? code) && (d_vendor a =? vendor)) d
  end.

Definition code_type (d : dict) (app code vendor : Z) : dtype :=
  match by_code d app code vendor with Some a => d_type a | None => DOther end.

(* ---- AVPs ---- *)

Inductive avp :=
| ALeaf (code flags vendor : Z) (b : list Z)         (* payload octets of a basic AVP *)
| ANode (code flags vendor : Z) (members : list avp).  (* grouped *)

Definition a_code (a : avp) : Z := match a with ALeaf c _ _ _ | ANode c _ _ _ => c end.

Definition vbit (flags : Z) : bool := Z.testbit flags 7.
Definition hl (flags : Z) : Z := if vbit flags then 12 else 8.
Definition pad4 (n : Z) : Z := (4 - n mod 4) mod 4.
Definition be (n : nat) (x : Z) : list Z := digits n 8 x.     (* n octets, big endian, of x mod 256^n *)
Definition zeros (n : Z) : list Z := repeat 0 (Z.to_nat n).

(* AVP.Len(): header + datum + the datum's padding; a grouped datum has padding 0 *)
Fixpoint alen (a : avp) : Z :=
  match a with
  | ALeaf _ f _ b => hl f + zlen b + pad4 (zlen b)
  | ANode _ f _ l => hl f + (fix sum (l : list avp) : Z := match l with [] => 0 | x :: r => alen x + sum r end) l
  end.
Definition alens (l : list avp) : Z := fold_right (fun a s => alen a + s) 0 l.

(* AVP.SerializeTo: code, flags, 24-bit length (header + datum, padding not counted), vendor id when
   the V bit is set, datum, zero padding *)
Definition header (code flags vendor len : Z) : list Z :=
  be 4 code ++ [flags] ++ be 3 len ++ (if vbit flags then be 4 vendor else []).

Fixpoint ser_avp (a : avp) : list Z :=
  match a with
  | ALeaf c f v b => header c f v (hl f + zlen b) ++ b ++ zeros (pad4 (zlen b))
  | ANode c f v l =>
    let payload := (fix go (l : list avp) : list Z := match l with [] => [] | x :: r => ser_avp x ++ go r end) l in
    header c f v (hl f + zlen payload) ++ payload
  end.
Definition ser_avps (l : list avp) : list Z := flat_map ser_avp l.

(* datatype.Decode: the fixed-width types answer zero when the payload has another width *)
Definition width (t : dtype) : option Z :=
  match t with
  | DU32 | DI32 | DEnum | DF32 | DTime => Some 4
  | DU64 | DI64 | DF64 => Some 8
  | _ => None
  end.
Definition normalise (t : dtype) (payload : list Z) : list Z :=
  match width t with
  | Some w => if zlen payload =? w then payload else zeros w
  | None => payload
  end.

(* Message.decodeAVPs / DecodeGrouped / AVP.DecodeFromBytes.  fuel bounds nesting and count; the
   theorems exclude OutOfFuel for fuel >= length of the input. *)
Fixpoint parse_avps (d : dict) (app : Z) (fuel : nat) (bs : list Z) : outcome (list avp) :=
  match bs with
  | [] => Ok []
  | _ =>
    match fuel with
    | O => OutOfFuel
    | S f =>
      if zlen bs <? 8 then Err
      else
        let code := ufold (firstn 4 bs) in
        let flags := nth 4 bs 0 in
        let len := ufold (firstn 3 (skipn 5 bs)) in
        if zlen bs <? len then Err
        else if len <? hl flags then Panic   (* data[:len][8:12] / [hl:]: slice bounds out of range *)
        else
          let vendor := if vbit flags then ufold (firstn 4 (skipn 8 bs)) else 0 in
          let payload := firstn (Z.to_nat (len - hl flags)) (skipn (Z.to_nat (hl flags)) bs) in
          do a <- (match code_type d app code vendor with
                   | DGrouped => do l <- parse_avps d app f payload; Ok (ANode code flags vendor l)
                   | t => Ok (ALeaf code flags vendor (normalise t payload))
                   end);
          (* n += avp.Len() *)
          do rest <- parse_avps d app f (skipn (Z.to_nat (alen a)) bs);
          Ok (a :: rest)
    end
  end.

(* ---- Go-side field types and values ---- *)

Inductive gty :=
| GNum (k : dtype)      (* datatype.Unsigned32/64, Integer32/64, Enumerated, Float, or a named type over one *)
| GStr                  (* OctetString, UTF8String, DiameterIdentity, DiameterURI, IPFilterRule *)
| GTime                 (* datatype.Time *)
| GRaw                  (* datatype.Grouped: raw octets of a grouped AVP *)
| GPtr (t : gty)
| GStruct (fs : list (string * gty)).

Inductive gval :=
| VNum (z : Z)
| VStr (b : list Z)
| VTime (secs : Z)      (* seconds since 1900-01-01, as carried on the wire *)
| VRaw (b : list Z)
| VNil
| VSome (v : gval)
| VStruct (vs : list gval).

(* the zero value of a Go type; the zero time.Time (year 1) is 202934144 s after 1900 modulo 2^32 *)
Definition zero_time : Z := 202934144.
Fixpoint zero (t : gty) : gval :=
  match t with
  | GNum _ => VNum 0
  | GStr => VStr []
  | GTime => VTime zero_time
  | GRaw => VRaw []
  | GPtr _ => VNil
  | GStruct fs => VStruct (map (fun f => zero (snd f)) fs)
  end.

(* range of a numeric Go kind *)
Definition num_ok (k : dtype) (z : Z) : bool :=
  match k with
  | DU32 | DTime => (0 <=? z) && (z <? 2 ^ 32)
  | DU64 => (0 <=? z) && (z <? 2 ^ 64)
  | DI32 | DEnum => (- 2 ^ 31 <=? z) && (z <? 2 ^ 31)
  | DI64 => (- 2 ^ 63 <=? z) && (z <? 2 ^ 63)
  | _ => false
  end.

(* Go conversion of an integer value to the numeric type k (wraps to the width and signedness) *)
Definition wrap_to (k : dtype) (z : Z) : Z :=
  match k with
  | DU32 | DTime => z mod 2 ^ 32
  | DU64 => z mod 2 ^ 64
  | DI32 | DEnum => (z + 2 ^ 31) mod 2 ^ 32 - 2 ^ 31
  | DI64 => (z + 2 ^ 63) mod 2 ^ 64 - 2 ^ 63
  | _ => z
  end.

Definition is_int (k : dtype) : bool :=
  match k with DU32 | DU64 | DI32 | DI64 | DEnum => true | _ => false end.

Definition enc_num (k : dtype) (z : Z) : list Z :=
  match width k with Some w => be (Z.to_nat w) z | None => [] end.
Definition dec_num (k : dtype) (b : list Z) : Z :=
  match k with
  | DI32 | DEnum => wrap_to DI32 (ufold b)
  | DI64 => wrap_to DI64 (ufold b)
  | _ => ufold b
  end.

Definition avp_flags (a : davp) : Z := (if d_must a then 64 else 0) + (if d_vendor a >? 0 then 128 else 0).

(* reflect.go: marshal(m, field, dictAVP).  Conversions between integer kinds are Go's (wrap);
   the other mismatches (integer <-> string, float, time) are reported as Err here: the
   consistency check of the regenerated tables excludes them, and the model is not used on them. *)
Fixpoint marshal (d : dict) (app : Z) (t : gty) (a : davp) (v : gval) {struct t} : outcome (list avp) :=
  match t, v with
  | GPtr _, VNil => Ok []
  | GPtr t', VSome v' => marshal d app t' a v'
  | GNum k, VNum z =>
    if is_int k && is_int (d_type a)
    then Ok [ALeaf (d_code a) (avp_flags a) (d_vendor a) (enc_num (d_type a) (wrap_to (d_type a) z))]
    else Err
  | GStr, VStr b =>
    match d_type a with DStr => Ok [ALeaf (d_code a) (avp_flags a) (d_vendor a) b] | _ => Err end
  | GTime, VTime s =>
    match d_type a with DTime => Ok [ALeaf (d_code a) (avp_flags a) (d_vendor a) (be 4 s)] | _ => Err end
  | GRaw, VRaw b =>
    (* the octets are the payload of a grouped AVP; the components leave these members empty, which is
       a grouped AVP without members *)
    match d_type a with
    | DGrouped => Ok [match b with
                      | [] => ANode (d_code a) (avp_flags a) (d_vendor a) []
                      | _ => ALeaf (d_code a) (avp_flags a) (d_vendor a) b
                      end]
    | _ => Err
    end
  | GStruct fs, VStruct vs =>
    match d_type a with
    | DGrouped =>
      do l <- (fix fields (fs : list (string * gty)) (vs : list gval) : outcome (list avp) :=
                 match fs, vs with
                 | [], [] => Ok []
                 | (n, ft) :: fr, fv :: vr =>
                   match by_name d app n with
                   | None => Err
                   | Some a' => do x <- marshal d app ft a' fv; do r <- fields fr vr; Ok (x ++ r)
                   end
                 | _, _ => Err
                 end) fs vs;
      Ok [ANode (d_code a) (avp_flags a) (d_vendor a) l]
    | _ => Err
    end
  | _, _ => Err
  end.

(* Message.Marshal: marshalStruct over the fields of the message struct *)
Fixpoint marshal_fields (d : dict) (app : Z) (fs : list (string * gty)) (vs : list gval) : outcome (list avp) :=
  match fs, vs with
  | [], [] => Ok []
  | (n, ft) :: fr, fv :: vr =>
    match by_name d app n with
    | None => Err
    | Some a => do x <- marshal d app ft a fv; do r <- marshal_fields d app fr vr; Ok (x ++ r)
    end
  | _, _ => Err
  end.

(* newIndex + idx[code]: the AVPs of this level carrying the code, in order *)
Definition with_code (c : Z) (l : list avp) : list avp := filter (fun a => a_code a =? c) l.

(* reflect.go: unmarshal(m, f, avps) for the AVPs found for the field's code (avps non-empty);
   the type of the datum of a received AVP is the one its code has in the dictionary *)
Fixpoint unmarshal (d : dict) (app : Z) (t : gty) (first : avp) (count : Z) {struct t} : gval :=
  match t with
  | GPtr t' => VSome (unmarshal d app t' first count)
  | GNum k =>
    match first with
    | ALeaf c _ v b => let ty := code_type d app c v in
                       if is_int k && is_int ty then VNum (wrap_to k (dec_num ty b)) else VNum 0
    | ANode _ _ _ _ => VNum 0
    end
  | GStr =>
    match first with
    | ALeaf c _ v b => match code_type d app c v with DStr => VStr b | _ => VStr [] end
    | ANode _ _ _ _ => VStr []
    end
  | GTime =>
    match first with
    | ALeaf c _ v b => match code_type d app c v with DTime => VTime (ufold b) | _ => VTime zero_time end
    | ANode _ _ _ _ => VTime zero_time
    end
  | GRaw =>
    (* a []byte field: the datum (a *GroupedAVP, or a scalar) does not convert to it; a fresh slice with
       one zero octet per AVP of that code is stored, except for string data, which converts *)
    match first with
    | ALeaf c _ v b => match code_type d app c v with DStr => VRaw b | _ => VRaw (zeros count) end
    | ANode _ _ _ _ => VRaw (zeros count)
    end
  | GStruct fs =>
    match first with
    | ANode _ _ _ l =>
      VStruct ((fix fields (fs : list (string * gty)) : list gval :=
                  match fs with
                  | [] => []
                  | (n, ft) :: fr =>
                    (match by_name d app n with
                     | None => zero ft
                     | Some a => match with_code (d_code a) l with
                                 | [] => zero ft
                                 | x :: r => unmarshal d app ft x (1 + zlen r)
                                 end
                     end) :: fields fr
                  end) fs)
    | ALeaf _ _ _ _ => zero (GStruct fs)
    end
  end.

(* Message.Unmarshal: scanStruct.  A name missing from the dictionary stops the scan with an error
   (the fields before it are set); the clients ignore that error. *)
Fixpoint scan_fields (d : dict) (app : Z) (fs : list (string * gty)) (l : list avp) : list gval :=
  match fs with
  | [] => []
  | (n, ft) :: fr =>
    (match by_name d app n with
     | None => zero ft
     | Some a => match with_code (d_code a) l with
                 | [] => zero ft
                 | x :: r => unmarshal d app ft x (1 + zlen r)
                 end
     end) :: scan_fields d app fr l
  end.

(* sender struct -> octets of the message body -> receiver struct *)
Definition wire (d : dict) (app : Z) (fs : list (string * gty)) (vs : list gval) : outcome (list Z) :=
  do l <- marshal_fields d app fs vs; Ok (ser_avps l).
Definition receive (d : dict) (app : Z) (fs : list (string * gty)) (bs : list Z) : outcome (list gval) :=
  do l <- parse_avps d app (S (List.length bs)) bs; Ok (scan_fields d app fs l).

(* what the property compares: everything but the raw grouped fields, which the CHF never fills *)
Fixpoint erase (v : gval) : gval :=
  match v with
  | VRaw _ => VRaw []
  | VSome v' => VSome (erase v')
  | VStruct vs => VStruct (map erase vs)
  | _ => v
  end.

(* the values the property quantifies over: numbers within the range of their Go type, strings of
   octets, times as 32-bit second counts, raw grouped members empty (the components never fill them),
   shapes as the struct types dictate *)
Fixpoint in_range (t : gty) (v : gval) {struct t} : bool :=
  match t, v with
  | GNum k, VNum z => num_ok k z
  | GStr, VStr b => bytes_ok b
  | GTime, VTime s => (0 <=? s) && (s <? 2 ^ 32)
  | GRaw, VRaw b => match b with [] => true | _ => false end
  | GPtr _, VNil => true
  | GPtr t', VSome v' => in_range t' v'
  | GStruct fs, VStruct vs =>
    (fix all (fs : list (string * gty)) (vs : list gval) : bool :=
       match fs, vs with
       | [], [] => true
       | (_, ft) :: fr, fv :: vr => in_range ft fv && all fr vr
       | _, _ => false
       end) fs vs
  | _, _ => false
  end.

(* ---- consistency of the tables ---- *)

(* the Go field type and the dictionary data type agree exactly *)
Fixpoint compat (t : gty) (dt : dtype) : bool :=
  match t with
  | GNum k => is_int k && dtype_eqb k dt
  | GStr => dtype_eqb dt DStr
  | GTime => dtype_eqb dt DTime
  | GRaw => dtype_eqb dt DGrouped
  | GPtr t' => compat t' dt
  | GStruct _ => dtype_eqb dt DGrouped
  end.

Fixpoint nodupb (l : list Z) : bool :=
  match l with [] => true | x :: r => negb (existsb (Z.eqb x) r) && nodupb r end.

Definition entry_ok (d : dict) (app : Z) (a : davp) : bool :=
  (0 <=? d_code a) && (d_code a <? 2 ^ 32) && (0 <=? d_vendor a) && (d_vendor a <? 2 ^ 32) &&
  (* the code, as it travels (vendor id only with the V bit), leads back to a definition of the same type *)
  dtype_eqb (code_type d app (d_code a) (d_vendor a)) (d_type a).

(* every tag of the struct type names a defined AVP of the matching type, resolvable by code, and
   sibling fields have different codes *)
Fixpoint fields_ok (d : dict) (app : Z) (t : gty) : bool :=
  match t with
  | GPtr t' => match t' with GPtr _ => false | _ => fields_ok d app t' end   (* no pointer to pointer *)
  | GStruct fs =>
    (fix all (fs : list (string * gty)) : bool :=
       match fs with
       | [] => true
       | (n, ft) :: fr =>
         (match by_name d app n with
          | None => false
          | Some a => entry_ok d app a && compat ft (d_type a)
          end) && fields_ok d app ft && all fr
       end) fs &&
    nodupb (map (fun f => match by_name d app (fst f) with Some a => d_code a | None => -1 end) fs)
  | _ => true
  end.

(* AVP codes are unique: two definitions visible to application app (its own and the base ones) that
   share (code, vendor) have the same name *)
Definition visible (app : Z) (a : davp) : bool := (d_app a =? app) || (d_app a =? 0).
Definition code_clashes (d : dict) (app : Z) : list (string * string * Z) :=
  flat_map (fun a =>
    flat_map (fun b =>
      if visible app a && visible app b && (d_code a =? d_code b) && (d_vendor a =? d_vendor b) &&
         (match String.compare (d_name a) (d_name b) with Lt => true | _ => false end)
      then [(d_name a, d_name b, d_code a)] else []) d) d.

(* one name, one definition: reloading or loading in another order changes nothing *)
Definition name_clashes (d : dict) (app : Z) : list string :=
  flat_map (fun a =>
    flat_map (fun b =>
      if (d_app a =? d_app b) && visible app a && String.eqb (d_name a) (d_name b) &&
         negb ((d_code a =? d_code b) && (d_vendor a =? d_vendor b) && dtype_eqb (d_type a) (d_type b) &&
               Bool.eqb (d_must a) (d_must b))
      then [d_name a] else []) d) d.

(* every avp:"..." tag reachable from the message structs, with what is wrong with it (empty = fine) *)
Definition sub (path n : string) : string := String.append path (String.append "/"%string n).
Fixpoint tag_problems (d : dict) (app : Z) (path : string) (t : gty) : list (string * string) :=
  match t with
  | GPtr t' => tag_problems d app path t'
  | GStruct fs =>
    (fix all (fs : list (string * gty)) : list (string * string) :=
       match fs with
       | [] => []
       | (n, ft) :: fr =>
         (match by_name d app n with
          | None => [(sub path n, "not defined in the loaded dictionaries"%string)]
          | Some a => (if compat ft (d_type a) then [] else [(sub path n, "data type differs from the Go field type"%string)]) ++
                      (if entry_ok d app a then [] else [(sub path n, "code does not resolve to a definition of the same type"%string)])
          end) ++ tag_problems d app (sub path n) ft ++ all fr
       end) fs ++
    (if nodupb (map (fun f => match by_name d app (fst f) with Some a => d_code a | None => -1 end) fs) then []
     else [(path, "two fields of one struct share an AVP code"%string)])
  | _ => []
  end.
