(* C17, wire level: parsing the serialisation of a well-formed AVP list gives the list back. *)
From Coq Require Import String List ZArith Lia Bool ZifyBool.
From Verif Require Import Common.Outcome Common.Bytes Common.BytesLemmas Ber.Model Ber.Arith Diam.Avp.
Import ListNotations.
Open Scope Z_scope.

#[local] Arguments Z.add : simpl never.
#[local] Arguments Z.sub : simpl never.
#[local] Arguments Z.mul : simpl never.
#[local] Arguments Z.pow : simpl never.
#[local] Arguments Z.modulo : simpl never.
#[local] Arguments Z.div : simpl never.
#[local] Arguments Z.to_nat : simpl never.
#[local] Arguments Z.of_nat : simpl never.
#[local] Arguments Z.ltb : simpl never.
#[local] Arguments Z.testbit : simpl never.

(* induction principle for the nested type *)
Section AvpInd.
  Variable P : avp -> Prop.
  Hypothesis Hleaf : forall c f v b, P (ALeaf c f v b).
  Hypothesis Hnode : forall c f v l, Forall P l -> P (ANode c f v l).
  Fixpoint avp_ind' (a : avp) : P a :=
    match a with
    | ALeaf c f v b => Hleaf c f v b
    | ANode c f v l =>
      Hnode c f v l ((fix go (l : list avp) : Forall P l :=
                        match l with [] => Forall_nil P | x :: r => Forall_cons x (avp_ind' x) (go r) end) l)
    end.
End AvpInd.

(* ---- unfolding the nested fixes ---- *)

Lemma alen_node c f v l : alen (ANode c f v l) = hl f + alens l.
Proof. reflexivity. Qed.

Lemma ser_node c f v l :
  ser_avp (ANode c f v l) = header c f v (hl f + zlen (ser_avps l)) ++ ser_avps l.
Proof.
  cbn [ser_avp].
  assert (E : (fix go (l0 : list avp) : list Z := match l0 with [] => [] | x :: r => ser_avp x ++ go r end) l = ser_avps l).
  { induction l as [|x r IH]; [reflexivity|]. cbn [ser_avps flat_map]. rewrite IH. reflexivity. }
  rewrite E. reflexivity.
Qed.

Lemma alens_cons a l : alens (a :: l) = alen a + alens l.  Proof. reflexivity. Qed.
Lemma ser_avps_cons a l : ser_avps (a :: l) = ser_avp a ++ ser_avps l.  Proof. reflexivity. Qed.

(* ---- octets ---- *)

Lemma be_length n x : length (be n x) = n.  Proof. apply digits_length. Qed.
Lemma zlen_be n x : zlen (be n x) = Z.of_nat n.  Proof. unfold zlen. rewrite be_length. reflexivity. Qed.
Lemma ufold_be n x : 0 <= x < 2 ^ (8 * Z.of_nat n) -> ufold (be n x) = x.
Proof. intros H. unfold be. rewrite ufold_digits. apply Z.mod_small. exact H. Qed.

Lemma zeros_length n : 0 <= n -> zlen (zeros n) = n.
Proof. intros H. unfold zeros, zlen. rewrite repeat_length. lia. Qed.

Lemma pad4_range n : 0 <= pad4 n < 4.
Proof. unfold pad4. apply Z.mod_pos_bound. lia. Qed.

Lemma hl_cases f : hl f = 8 \/ hl f = 12.
Proof. unfold hl. destruct (vbit f); auto. Qed.

Lemma header_length c f v len : zlen (header c f v len) = hl f.
Proof.
  unfold header, hl. rewrite !zlen_app, zlen_cons, !zlen_be.
  destruct (vbit f); rewrite ?zlen_be; unfold zlen; cbn [length]; lia.
Qed.

(* ---- well-formed AVPs with respect to a dictionary ---- *)

Definition head_ok (c f v : Z) : Prop :=
  0 <= c < 2 ^ 32 /\ 0 <= f < 256 /\ 0 <= v < 2 ^ 32 /\ (vbit f = false -> v = 0).

Inductive wf (d : dict) (app : Z) : avp -> Prop :=
| wf_leaf c f v b :
    head_ok c f v -> hl f + zlen b < 2 ^ 24 ->
    code_type d app c v <> DGrouped -> normalise (code_type d app c v) b = b ->
    wf d app (ALeaf c f v b)
| wf_node c f v l :
    head_ok c f v -> hl f + alens l < 2 ^ 24 ->
    code_type d app c v = DGrouped -> Forall (wf d app) l ->
    wf d app (ANode c f v l).

Lemma alen_pos a : 8 <= alen a.
Proof.
  induction a as [c f v b|c f v l IH] using avp_ind'.
  - cbn [alen]. pose proof (hl_cases f). pose proof (zlen_nonneg b). pose proof (pad4_range (zlen b)). lia.
  - rewrite alen_node. assert (0 <= alens l).
    { induction IH as [|x r Hx _ IHr]; [cbn; lia|]. rewrite alens_cons. lia. }
    pose proof (hl_cases f). lia.
Qed.

Lemma alens_nonneg l : 0 <= alens l.
Proof. induction l as [|x r IH]; [cbn; lia|]. rewrite alens_cons. pose proof (alen_pos x). lia. Qed.

(* the serialisation has the length AVP.Len() announces *)
Lemma ser_length a : zlen (ser_avp a) = alen a.
Proof.
  induction a as [c f v b|c f v l IH] using avp_ind'.
  - cbn [ser_avp alen]. rewrite !zlen_app, header_length, zeros_length by apply pad4_range. lia.
  - rewrite ser_node, alen_node, zlen_app, header_length. f_equal.
    induction IH as [|x r Hx _ IHr]; [reflexivity|].
    rewrite ser_avps_cons, zlen_app, alens_cons, Hx, IHr. reflexivity.
Qed.

Lemma sers_length l : zlen (ser_avps l) = alens l.
Proof.
  induction l as [|x r IH]; [reflexivity|]. rewrite ser_avps_cons, zlen_app, alens_cons, ser_length, IH. reflexivity.
Qed.

(* ---- reading a header back ---- *)

Section Header.
  Variables (c f v len : Z) (rest : list Z).
  Hypothesis Hh : head_ok c f v.
  Hypothesis Hlen : 0 <= len < 2 ^ 24.
  Let bs := header c f v len ++ rest.

  Lemma hdr_shape : bs = be 4 c ++ f :: be 3 len ++ (if vbit f then be 4 v else []) ++ rest.
  Proof. unfold bs, header. rewrite <- !app_assoc. reflexivity. Qed.

  Lemma hdr_code : ufold (firstn 4 bs) = c.
  Proof.
    rewrite hdr_shape. rewrite firstn_app_len by (rewrite be_length; reflexivity).
    apply ufold_be. destruct Hh as [H _]. change (8 * Z.of_nat 4) with 32. exact H.
  Qed.

  Lemma hdr_flags : nth 4 bs 0 = f.
  Proof.
    rewrite hdr_shape. rewrite app_nth2 by (rewrite be_length; lia). rewrite be_length. reflexivity.
  Qed.

  Lemma hdr_len : ufold (firstn 3 (skipn 5 bs)) = len.
  Proof.
    rewrite hdr_shape.
    change (be 4 c ++ f :: be 3 len ++ (if vbit f then be 4 v else []) ++ rest)
      with (be 4 c ++ [f] ++ be 3 len ++ (if vbit f then be 4 v else []) ++ rest).
    rewrite app_assoc. rewrite skipn_app_len by (rewrite app_length, be_length; reflexivity).
    rewrite firstn_app_len by (rewrite be_length; reflexivity).
    apply ufold_be. change (8 * Z.of_nat 3) with 24. exact Hlen.
  Qed.

  Lemma hdr_vendor : vbit f = true -> ufold (firstn 4 (skipn 8 bs)) = v.
  Proof.
    intros Hv. rewrite hdr_shape, Hv.
    change (be 4 c ++ f :: be 3 len ++ be 4 v ++ rest) with (be 4 c ++ [f] ++ be 3 len ++ be 4 v ++ rest).
    rewrite !app_assoc. rewrite <- (app_assoc _ (be 4 v) rest).
    rewrite skipn_app_len by (rewrite !app_length, !be_length; reflexivity).
    rewrite firstn_app_len by (rewrite be_length; reflexivity).
    apply ufold_be. destruct Hh as [_ [_ [H _]]]. change (8 * Z.of_nat 4) with 32. exact H.
  Qed.

  Lemma hdr_skip : skipn (Z.to_nat (hl f)) bs = rest.
  Proof.
    unfold bs. apply skipn_app_len. pose proof (header_length c f v len) as H. unfold zlen in H.
    pose proof (hl_cases f). lia.
  Qed.

  Lemma hdr_zlen : zlen bs = hl f + zlen rest.
  Proof. unfold bs. rewrite zlen_app, header_length. reflexivity. Qed.
End Header.

(* ---- the round trip on the wire ---- *)

Lemma parse_nil d app fuel : parse_avps d app fuel [] = Ok [].
Proof. destruct fuel; reflexivity. Qed.

Lemma parse_step d app f (bs : list Z) :
  bs <> [] ->
  parse_avps d app (S f) bs =
  if zlen bs <? 8 then Err
  else
    let code := ufold (firstn 4 bs) in
    let flags := nth 4 bs 0 in
    let len := ufold (firstn 3 (skipn 5 bs)) in
    if zlen bs <? len then Err
    else if len <? hl flags then Panic
    else
      let vendor := if vbit flags then ufold (firstn 4 (skipn 8 bs)) else 0 in
      let payload := firstn (Z.to_nat (len - hl flags)) (skipn (Z.to_nat (hl flags)) bs) in
      do a <- (match code_type d app code vendor with
               | DGrouped => do l <- parse_avps d app f payload; Ok (ANode code flags vendor l)
               | t => Ok (ALeaf code flags vendor (normalise t payload))
               end);
      do rest <- parse_avps d app f (skipn (Z.to_nat (alen a)) bs);
      Ok (a :: rest).
Proof. intros H. destruct bs as [|b bs]; [contradiction|]. reflexivity. Qed.

Theorem parse_ser d app : forall fuel l,
  Forall (wf d app) l -> (length (ser_avps l) <= fuel)%nat ->
  parse_avps d app fuel (ser_avps l) = Ok l.
Proof.
  induction fuel as [|fuel IH]; intros l Hwf Hfuel.
  - destruct l as [|a r]; [reflexivity|]. exfalso.
    pose proof (sers_length (a :: r)) as E. rewrite alens_cons in E. unfold zlen in E.
    pose proof (alen_pos a). pose proof (alens_nonneg r). lia.
  - destruct l as [|a r]; [reflexivity|].
    inversion Hwf as [|a' r' Ha Hr]; subst a' r'.
    rewrite ser_avps_cons in *.
    assert (Hlen_a : zlen (ser_avp a) = alen a) by apply ser_length.
    assert (Hne : ser_avp a ++ ser_avps r <> []).
    { intros E. apply (f_equal (@zlen Z)) in E. rewrite zlen_app, Hlen_a, zlen_nil in E.
      pose proof (alen_pos a). pose proof (zlen_nonneg (ser_avps r)). lia. }
    rewrite (parse_step d app fuel _ Hne). cbv zeta.
    assert (Hskip : skipn (Z.to_nat (alen a)) (ser_avp a ++ ser_avps r) = ser_avps r).
    { apply skipn_app_len. unfold zlen in Hlen_a. lia. }
    assert (Hfr : (length (ser_avps r) <= fuel)%nat).
    { rewrite app_length in Hfuel. pose proof (alen_pos a). unfold zlen in Hlen_a. lia. }
    destruct Ha as [c f v b Hh Hsz Hty Hnorm | c f v m Hh Hsz Hty Hm].
    + (* leaf *)
      cbn [ser_avp] in *. rewrite <- !app_assoc in *.
      set (rest := b ++ zeros (pad4 (zlen b)) ++ ser_avps r) in *.
      assert (Hl : 0 <= hl f + zlen b < 2 ^ 24).
      { pose proof (hl_cases f). pose proof (zlen_nonneg b). lia. }
      rewrite (hdr_zlen c f v (hl f + zlen b) rest).
      rewrite (hdr_code c f v (hl f + zlen b) rest Hh), (hdr_flags c f v (hl f + zlen b) rest),
              (hdr_len c f v (hl f + zlen b) rest Hl), (hdr_skip c f v (hl f + zlen b) rest).
      assert (Hrest : zlen rest = zlen b + pad4 (zlen b) + zlen (ser_avps r)).
      { unfold rest. rewrite !zlen_app, zeros_length by apply pad4_range. lia. }
      pose proof (hl_cases f) as Hhl. pose proof (zlen_nonneg b). pose proof (pad4_range (zlen b)).
      pose proof (zlen_nonneg (ser_avps r)).
      destruct (hl f + zlen rest <? 8) eqn:E1; [lia|].
      destruct (hl f + zlen rest <? hl f + zlen b) eqn:E2; [lia|].
      destruct (hl f + zlen b <? hl f) eqn:E3; [lia|].
      assert (Hv : (if vbit f then ufold (firstn 4 (skipn 8 (header c f v (hl f + zlen b) ++ rest))) else 0) = v).
      { destruct (vbit f) eqn:Ev; [apply (hdr_vendor c f v (hl f + zlen b) rest Hh Ev)|].
        destruct Hh as [_ [_ [_ Hz0]]]. symmetry. apply Hz0. exact Ev. }
      rewrite Hv.
      assert (Hp : firstn (Z.to_nat (hl f + zlen b - hl f)) rest = b).
      { unfold rest. apply firstn_app_len. unfold zlen. lia. }
      rewrite Hp.
      assert (Hleaf : (match code_type d app c v with
                       | DGrouped => do l <- parse_avps d app fuel b; Ok (ANode c f v l)
                       | t => Ok (ALeaf c f v (normalise t b))
                       end) = Ok (ALeaf c f v b)).
      { destruct (code_type d app c v); try (rewrite Hnorm; reflexivity). contradiction. }
      rewrite Hleaf. cbn [bind].
      fold rest in Hskip. cbn [alen] in Hskip |- *.
      change (header c f v (hl f + zlen b) ++ rest) with (header c f v (hl f + zlen b) ++ rest) in Hskip.
      rewrite Hskip. rewrite (IH r Hr Hfr). reflexivity.
    + (* grouped *)
      rewrite ser_node in *. rewrite <- app_assoc in *. rewrite sers_length in *.
      set (rest := ser_avps m ++ ser_avps r) in *.
      assert (Hl : 0 <= hl f + alens m < 2 ^ 24).
      { pose proof (hl_cases f). pose proof (alens_nonneg m). lia. }
      rewrite (hdr_zlen c f v (hl f + alens m) rest).
      rewrite (hdr_code c f v (hl f + alens m) rest Hh), (hdr_flags c f v (hl f + alens m) rest),
              (hdr_len c f v (hl f + alens m) rest Hl), (hdr_skip c f v (hl f + alens m) rest).
      assert (Hrest : zlen rest = alens m + zlen (ser_avps r)).
      { unfold rest. rewrite zlen_app, sers_length. reflexivity. }
      pose proof (hl_cases f) as Hhl. pose proof (alens_nonneg m).
      pose proof (zlen_nonneg (ser_avps r)).
      destruct (hl f + zlen rest <? 8) eqn:E1; [lia|].
      destruct (hl f + zlen rest <? hl f + alens m) eqn:E2; [lia|].
      destruct (hl f + alens m <? hl f) eqn:E3; [lia|].
      assert (Hv : (if vbit f then ufold (firstn 4 (skipn 8 (header c f v (hl f + alens m) ++ rest))) else 0) = v).
      { destruct (vbit f) eqn:Ev; [apply (hdr_vendor c f v (hl f + alens m) rest Hh Ev)|].
        destruct Hh as [_ [_ [_ Hz0]]]. symmetry. apply Hz0. exact Ev. }
      rewrite Hv, Hty.
      assert (Hp : firstn (Z.to_nat (hl f + alens m - hl f)) rest = ser_avps m).
      { unfold rest. apply firstn_app_len. pose proof (sers_length m) as E. unfold zlen in E. lia. }
      rewrite Hp.
      assert (Hfm : (length (ser_avps m) <= fuel)%nat).
      { unfold rest in Hfuel. rewrite !app_length in Hfuel. pose proof (header_length c f v (hl f + alens m)) as E. unfold zlen in E. lia. }
      rewrite (IH m Hm Hfm). cbn [bind].
      rewrite alen_node. rewrite alen_node in Hskip. fold rest in Hskip. rewrite Hskip.
      rewrite (IH r Hr Hfr). reflexivity.
Qed.
