(* C17 — Diameter messages carry every field intact; the dictionaries cover the structs. *)
From Coq Require Import String List ZArith Bool.
From Verif Require Import Common.Outcome Common.Bytes Diam.Avp Diam.WireProofs Diam.StructProofs Diam.DictGen.
Import ListNotations.
Open Scope Z_scope.

(* The tables regenerated from /repo on this run (avp:"..." tags of the four message structs and
   everything they contain; the dictionaries as the components load them; the application id and
   command codes):
   - every tag names an AVP defined for the charging application or in the base dictionary, whose
     data type is exactly the Go field's, whose code leads back to a definition of that type, and no
     two fields of one struct share a code (fields_ok);
   - no two AVP names visible to the application share a (code, vendor) pair;
   - no name has two differing definitions (the result does not depend on the load order);
   - both command codes are defined for the application. *)
Theorem C17_tables :
  forallb (fun m => fields_ok dict_gen app_gen (snd m)) msgs_gen = true /\
  code_clashes dict_gen app_gen = [] /\
  name_clashes dict_gen app_gen = [] /\
  forallb (fun c => existsb (fun ac => (fst ac =? app_gen) && (snd ac =? c)) dict_cmds_gen) cmd_codes_gen = true /\
  map fst msgs_gen = ["ServiceUsageRequest"; "ServiceUsageResponse"; "AccountDebitRequest"; "AccountDebitResponse"]%string.
Proof. vm_compute. repeat split; reflexivity. Qed.
Print Assumptions C17_tables.

(* Every value of every message struct - numbers anywhere in the range of their AVP type, any octet
   strings, any 32-bit second counts, every optional grouped member present or absent - is marshalled
   without error, and the receiver's Unmarshal of exactly those AVPs rebuilds the value sent.  When each
   AVP fits the 24-bit AVP length of the wire format, the octets written parse back to exactly those
   AVPs, so the value received from the wire is the value sent.  (erase: the raw grouped members, which
   the components never fill, are not compared.) *)
Theorem C17_roundtrip : forall name fs vs,
  In (name, GStruct fs) msgs_gen ->
  in_range (GStruct fs) (VStruct vs) = true ->
  exists l,
    marshal_fields dict_gen app_gen fs vs = Ok l /\
    erase (VStruct (scan_fields dict_gen app_gen fs l)) = erase (VStruct vs) /\
    (Forall (fits) l ->
     wire dict_gen app_gen fs vs = Ok (ser_avps l) /\
     exists rs, receive dict_gen app_gen fs (ser_avps l) = Ok rs /\ erase (VStruct rs) = erase (VStruct vs)).
Proof.
  intros name fs vs Hin Hr.
  assert (Hok : fields_ok dict_gen app_gen (GStruct fs) = true).
  { pose proof (proj1 C17_tables) as H. rewrite forallb_forall in H. apply (H (name, GStruct fs) Hin). }
  destruct (message_roundtrip dict_gen app_gen fs vs Hok Hr) as [l [Hm [_ [Hrecv Her]]]].
  exists l. split; [exact Hm|]. split; [exact Her|]. intros Hfit. split.
  - unfold wire. rewrite Hm. reflexivity.
  - exists (scan_fields dict_gen app_gen fs l). split; [apply Hrecv; exact Hfit|exact Her].
Qed.
Print Assumptions C17_roundtrip.

(* the same for any tables that pass the check: the theorem does not depend on today's dictionary *)
Theorem C17_roundtrip_any_tables : forall d app fs vs,
  fields_ok d app (GStruct fs) = true -> in_range (GStruct fs) (VStruct vs) = true ->
  exists l, marshal_fields d app fs vs = Ok l /\ Forall (typed d app) l /\
            (Forall fits l -> receive d app fs (ser_avps l) = Ok (scan_fields d app fs l)) /\
            erase (VStruct (scan_fields d app fs l)) = erase (VStruct vs).
Proof. exact message_roundtrip. Qed.
Print Assumptions C17_roundtrip_any_tables.

(* non-vacuity: the all-zero credit-control answer is in range and marshals to more than 100 octets;
   every case of the correspondence run is checked to be in range as well (Corr.v, code 4) *)
Example C17_nonvacuous :
  exists fs, In ("AccountDebitResponse"%string, GStruct fs) msgs_gen /\
  let vs := map (fun f => zero (snd f)) fs in
  in_range (GStruct fs) (VStruct vs) = true /\
  match wire dict_gen app_gen fs vs with Ok bs => 100 <? zlen bs | _ => false end = true.
Proof.
  eexists. split; [right; right; right; left; reflexivity|]. vm_compute. split; reflexivity.
Qed.
