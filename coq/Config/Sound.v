(* C20: accepted configurations start; bad ones are rejected.  Generic in the struct-tag tables T: what is
   needed of them is collected in the hypotheses of the section (all decidable, and discharged by
   computation on the tables regenerated from /repo in Config/PropsC20.v). *)
From Coq Require Import String List ZArith Bool Lia.
From Verif Require Import Common.Outcome Config.Model Config.Proofs.
Import ListNotations.
Open Scope string_scope.
Open Scope list_scope.

Section Sound.
  Variable str_ok : string -> string -> bool.
  Variable int_ok : string -> Z -> bool.
  Variable mongo_ok : string -> bool.
  Variable T : tables.
  Variable cfg : cval.
  Hypothesis Hshape : shaped T 8 "Config" cfg = true.

  Definition scheme_field : field := mkField "Scheme" "scheme" KStr (TOpts [VRequired; VNamed "scheme"]).
  Definition conf_field : field := mkField "Configuration" "configuration" (KPtr "Configuration") (TOpts [VRequired]).
  Definition sbi_field : field := mkField "Sbi" "sbi" (KPtr "Sbi") (TOpts [VRequired]).
  Definition tls_field : field := mkField "Tls" "tls" (KPtr "Tls") (TOpts [VOptional]).

  (* the reads that validation has to guarantee by itself (those under https are handled by Sbi.validate) *)
  Definition read_paths : list (list string) :=
    flat_map (fun s => match s with Read Https _ => [] | Read _ p => [p] | Routes => [] end) (startup ++ first_request) ++
    [["Configuration"; "ServiceNameList"]].

  (* what the section needs of the tables *)
  Definition tables_facts : bool :=
    forallb (guaranteed T 8 "Config") read_paths &&
    (match assoc "Config" T with Some fs => existsb (fun f => field_eqb f conf_field) fs | None => false end) &&
    (match assoc "Configuration" T with Some fs => existsb (fun f => field_eqb f sbi_field) fs | None => false end) &&
    (match assoc "Sbi" T with
     | Some fs => existsb (fun f => field_eqb f scheme_field) fs && existsb (fun f => field_eqb f tls_field) fs
     | None => false end) &&
    (match assoc "Tls" T with
     | Some fs => existsb (String.eqb "Pem") (map f_name fs) && existsb (String.eqb "Key") (map f_name fs)
     | None => false end).
  Hypothesis Hfacts : tables_facts = true.

  Lemma facts :
    (forall p, In p read_paths -> guaranteed T 8 "Config" p = true) /\
    (exists fs, assoc "Config" T = Some fs /\ In conf_field fs) /\
    (exists fs, assoc "Configuration" T = Some fs /\ In sbi_field fs) /\
    (exists fs, assoc "Sbi" T = Some fs /\ In scheme_field fs /\ In tls_field fs) /\
    (exists fs, assoc "Tls" T = Some fs /\ In "Pem" (map f_name fs) /\ In "Key" (map f_name fs)).
  Proof.
    pose proof Hfacts as H. unfold tables_facts in H.
    do 4 (apply andb_prop in H; destruct H as [H ?]).
    assert (Hin : forall fs f, existsb (fun g => field_eqb g f) fs = true -> In f fs).
    { intros fs f E. apply existsb_exists in E. destruct E as [g [Hg Eg]]. apply field_eqb_eq in Eg. subst g. exact Hg. }
    assert (Hins : forall l n, existsb (String.eqb n) l = true -> In n l).
    { intros l n E. apply existsb_exists in E. destruct E as [m [Hm Em]]. apply String.eqb_eq in Em. subst m. exact Hm. }
    split; [rewrite forallb_forall in H; exact H|].
    destruct (assoc "Config" T) as [f1|]; [|discriminate].
    destruct (assoc "Configuration" T) as [f2|]; [|discriminate].
    destruct (assoc "Sbi" T) as [f3|]; [|discriminate].
    destruct (assoc "Tls" T) as [f4|]; [|discriminate].
    repeat match goal with E : (_ && _) = true |- _ => apply andb_prop in E; destruct E end.
    repeat split; eexists; (split; [reflexivity|]); repeat split; auto.
  Qed.
  Lemma HG p : In p read_paths -> guaranteed T 8 "Config" p = true.  Proof. apply (proj1 facts). Qed.
  Lemma conf_field_in : exists fs, assoc "Config" T = Some fs /\ In conf_field fs.  Proof. apply facts. Qed.
  Lemma sbi_field_in : exists fs, assoc "Configuration" T = Some fs /\ In sbi_field fs.  Proof. apply facts. Qed.
  Lemma scheme_field_in : exists fs, assoc "Sbi" T = Some fs /\ In scheme_field fs.
  Proof. destruct facts as [_ [_ [_ [[fs [A [B _]]] _]]]]. exists fs. tauto. Qed.
  Lemma tls_field_in : exists fs, assoc "Sbi" T = Some fs /\ In tls_field fs.
  Proof. destruct facts as [_ [_ [_ [[fs [A [_ B]]] _]]]]. exists fs. tauto. Qed.
  Lemma tls_members : exists fs, assoc "Tls" T = Some fs /\ In "Pem" (map f_name fs) /\ In "Key" (map f_name fs).
  Proof. apply facts. Qed.

  Ltac in_paths := solve [apply HG; vm_compute; repeat (first [left; reflexivity | right])].

  Notation rejected := (rejected str_ok int_ok T).
  Notation struct_err := (struct_err str_ok int_ok T).
  Notation G := (guaranteed T 8 "Config").

  Lemma accepted_struct : rejected cfg = false -> struct_err "Config" cfg = false.
  Proof. unfold Model.rejected. intros H. apply orb_false_iff in H. tauto. Qed.

  Lemma read_guaranteed p : rejected cfg = false -> G p = true -> exists x, get cfg p = Ok x.
  Proof.
    intros Hr Hg. apply (guaranteed_get str_ok int_ok T p 8 "Config" cfg Hg Hshape (accepted_struct Hr)).
  Qed.

  Lemma step_guaranteed g p : rejected cfg = false -> G p = true -> run_step mongo_ok cfg (Read g p) = Ok tt.
  Proof.
    intros Hr Hg. cbn [run_step]. destruct (holds mongo_ok cfg g); [|reflexivity].
    destruct (read_guaranteed p Hr Hg) as [x ->]. reflexivity.
  Qed.

  (* a mandatory section that is absent makes validation fail *)
  Lemma missing_rejected p q : G (p ++ [q]) = true -> get cfg p = Ok CNil -> rejected cfg = true.
  Proof.
    intros Hg Hnil. destruct (rejected cfg) eqn:Hr; [reflexivity|]. exfalso.
    destruct (read_guaranteed (p ++ [q]) Hr Hg) as [x Hx]. rewrite get_app, Hnil in Hx. discriminate.
  Qed.

  (* the value reached by a two-step read is the field of the field *)
  Lemma get2 a b x : get cfg [a; b] = Ok x -> x = fld (fld cfg a) b /\ exists fs, fld cfg a = CStruct fs.
  Proof.
    change [a; b] with ([a] ++ [b]). rewrite get_app. destruct (get cfg [a]) as [y| | |] eqn:E; try discriminate.
    cbn [bind]. intros H. pose proof (get_fld1 cfg a y E) as Ha. rewrite Ha.
    pose proof (get_fld1 y b x H) as Hb. split; [symmetry; exact Hb|].
    destruct y; cbn [get] in H; try discriminate. eexists. reflexivity.
  Qed.

  Definition conf := fld cfg "Configuration".
  Definition sbi := fld conf "Sbi".

  Lemma conf_sbi_present : rejected cfg = false -> (exists cs, conf = CStruct cs) /\ (exists ss, sbi = CStruct ss).
  Proof.
    intros Hr.
    destruct (read_guaranteed ["Configuration"; "Sbi"; "Scheme"] Hr ltac:(in_paths)) as [x Hx].
    change ["Configuration"; "Sbi"; "Scheme"] with (["Configuration"; "Sbi"] ++ ["Scheme"]) in Hx.
    rewrite get_app in Hx. destruct (get cfg ["Configuration"; "Sbi"]) as [y| | |] eqn:E; try discriminate.
    destruct (get2 _ _ _ E) as [Hy [cs Hcs]]. split; [exists cs; exact Hcs|].
    cbn [bind] in Hx. fold conf in Hy. fold sbi in Hy. subst y.
    destruct sbi; cbn [get] in Hx; try discriminate. eexists. reflexivity.
  Qed.

  Lemma accepted_configuration : rejected cfg = false -> configuration_err str_ok int_ok T conf = false.
  Proof.
    intros Hr. destruct (conf_sbi_present Hr) as [[cs Hc] _]. unfold Model.rejected in Hr.
    apply orb_false_iff in Hr. destruct Hr as [H _]. fold conf in H. rewrite Hc in H. cbn [is_nil] in H.
    rewrite <- Hc in H. exact H.
  Qed.

  Lemma accepted_sbi : rejected cfg = false -> sbi_err str_ok int_ok T sbi = false.
  Proof.
    intros Hr. pose proof (accepted_configuration Hr) as H. unfold configuration_err in H.
    repeat (apply orb_false_iff in H; destruct H as [H ?]). fold sbi in H.
    destruct (conf_sbi_present Hr) as [_ [ss Hs]]. rewrite Hs in H. cbn [is_nil] in H. rewrite <- Hs in H. exact H.
  Qed.

  (* one field of an accepted struct passes typeCheck *)
  Lemma field_passes sname fs f v :
    assoc sname T = Some fs -> In f fs ->
    Model.vs_err str_ok int_ok T 8 sname v = false ->
    type_check str_ok int_ok f (fld v (f_name f)) = false.
  Proof. apply (field_passes_gen str_ok int_ok T 7). Qed.

  Lemma field_fails sname fs f v :
    assoc sname T = Some fs -> In f fs ->
    type_check str_ok int_ok f (fld v (f_name f)) = true ->
    Model.vs_err str_ok int_ok T 8 sname v = true.
  Proof. apply (field_fails_gen str_ok int_ok T 7). Qed.


  Lemma conf_shaped : rejected cfg = false -> shaped T 7 "Configuration" conf = true.
  Proof.
    intros Hr. destruct conf_field_in as [fs [Ha Hin]].
    pose proof (shaped_field T 7 "Config" cfg fs conf_field Ha Hin Hshape) as H. cbn [f_kind f_name conf_field] in H.
    fold conf in H. destruct H as [H|H]; [|exact H].
    destruct (conf_sbi_present Hr) as [[cs Hc] _]. congruence.
  Qed.

  Lemma sbi_shaped : rejected cfg = false -> shaped T 6 "Sbi" sbi = true.
  Proof.
    intros Hr. destruct sbi_field_in as [fs [Ha Hin]].
    pose proof (shaped_field T 6 "Configuration" conf fs sbi_field Ha Hin (conf_shaped Hr)) as H.
    cbn [f_kind f_name sbi_field] in H. fold sbi in H. destruct H as [H|H]; [|exact H].
    destruct (conf_sbi_present Hr) as [_ [ss Hs]]. congruence.
  Qed.

  (* an accepted configuration has a scheme, and it is http or https *)
  Lemma accepted_scheme : rejected cfg = false ->
    exists s, fld sbi "Scheme" = CStr s /\ (s = "http" \/ s = "https").
  Proof.
    intros Hr. pose proof (accepted_sbi Hr) as H. unfold sbi_err in H. apply orb_false_iff in H. destruct H as [_ H].
    destruct scheme_field_in as [fs [Ha Hin]].
    pose proof (field_passes "Sbi" fs scheme_field sbi Ha Hin H) as Ht. cbn [f_name scheme_field] in Ht.
    pose proof (shaped_field T 5 "Sbi" sbi fs scheme_field Ha Hin (sbi_shaped Hr)) as Hl.
    cbn [f_kind f_name scheme_field] in Hl.
    destruct (fld sbi "Scheme") as [s| | | | | |]; try discriminate. exists s. split; [reflexivity|].
    unfold Model.type_check in Ht. cbn [f_tag f_kind scheme_field empty_field is_empty is_required existsb] in Ht.
    destruct (String.eqb s "") eqn:Ee; [discriminate|]. cbn [leaf_objects] in Ht.
    cbn [String.eqb Ascii.eqb Bool.eqb] in Ht. rewrite orb_false_r in Ht. apply orb_false_iff in Ht. destruct Ht as [_ Ht].
    apply negb_false_iff in Ht. apply orb_prop in Ht. destruct Ht as [Ht|Ht]; apply String.eqb_eq in Ht; auto.
  Qed.

  (* under https the tls block of the SBI is present, and its two members can be read *)
  Lemma https_tls : rejected cfg = false -> holds mongo_ok cfg Https = true ->
    forall leaf, leaf = "Pem" \/ leaf = "Key" -> exists x, get cfg ["Configuration"; "Sbi"; "Tls"; leaf] = Ok x.
  Proof.
    intros Hr Hh leaf Hleaf.
    destruct (accepted_scheme Hr) as [s [Hs Hcases]].
    cbn [holds] in Hh. unfold scheme_of in Hh. fold conf in Hh. fold sbi in Hh. rewrite Hs in Hh. cbn [str_of] in Hh.
    assert (Hs' : s = "https").
    { destruct Hcases as [->| ->]; [cbn in Hh; discriminate|reflexivity]. }
    subst s.
    pose proof (accepted_sbi Hr) as He. unfold sbi_err in He. apply orb_false_iff in He. destruct He as [He _].
    rewrite Hs in He. cbn [str_of] in He.
    destruct tls_field_in as [fs [Ha Hin]].
    pose proof (shaped_field T 5 "Sbi" sbi fs tls_field Ha Hin (sbi_shaped Hr)) as Ht.
    cbn [f_kind f_name tls_field] in Ht.
    destruct Ht as [Ht|Ht]; [rewrite Ht in He; cbn in He; discriminate|].
    (* the read: configuration and sbi are structs, tls is a shaped struct with both members *)
    destruct (read_guaranteed ["Configuration"; "Sbi"] Hr ltac:(in_paths)) as [y Hy].
    destruct (get2 _ _ _ Hy) as [Hy' _]. fold conf in Hy'. fold sbi in Hy'. subst y.
    change ["Configuration"; "Sbi"; "Tls"; leaf] with (["Configuration"; "Sbi"] ++ ["Tls"; leaf]).
    rewrite get_app, Hy. cbn [bind].
    destruct (shaped_struct T 5 "Tls" (fld sbi "Tls") Ht) as [ts Hts].
    destruct (conf_sbi_present Hr) as [_ [ss Hss]]. rewrite Hss in *. cbn [get].
    unfold fld in Hts. destruct (assoc "Tls" ss) as [t|] eqn:Et; [|discriminate]. subst t.
    assert (Hl : exists x, assoc leaf ts = Some x).
    { change 5%nat with (S 4) in Ht. unfold fld in Ht. rewrite Et in Ht. cbn [Model.shaped] in Ht.
      destruct tls_members as [tfs [Etf [Hpem Hkey]]]. rewrite Etf in Ht.
      apply andb_prop in Ht. destruct Ht as [Hn _].
      apply (names_assoc tfs ts leaf Hn). destruct Hleaf as [->| ->]; assumption. }
    destruct Hl as [x Hx]. rewrite Hx. exists x. reflexivity.
  Qed.

  (* the routes are registered once per service *)
  Lemma routes_ok : rejected cfg = false -> run_step mongo_ok cfg Routes = Ok tt.
  Proof.
    intros Hr. cbn [run_step].
    destruct (read_guaranteed ["Configuration"; "ServiceNameList"] Hr ltac:(in_paths)) as [l Hl]. rewrite Hl. cbn [bind].
    destruct (get2 _ _ _ Hl) as [Hl' _]. fold conf in Hl'. subst l.
    pose proof (accepted_configuration Hr) as H. unfold configuration_err in H.
    repeat (apply orb_false_iff in H; destruct H as [H ?]).
    match goal with Hd : has_dup _ = false |- _ => rewrite (has_dup_filter str_ok int_ok known_service _ Hd) end. reflexivity.
  Qed.

  Theorem startup_sound : rejected cfg = false -> run_steps mongo_ok cfg (startup ++ first_request) = Ok tt.
  Proof.
    intros Hr. apply run_steps_ok. intros s Hin. cbn [startup first_request app In] in Hin.
    repeat (destruct Hin as [<-|Hin];
            [first [ apply (step_guaranteed _ _ Hr); in_paths
                   | apply (routes_ok Hr)
                   | cbn [run_step]; unfold C; destruct (holds mongo_ok cfg Https) eqn:Eh; [|reflexivity];
                     match goal with |- bind (get cfg [_; _; _; ?leaf]) _ = _ =>
                       destruct (https_tls Hr Eh leaf ltac:(auto)) as [x Hx]; rewrite Hx; reflexivity end ]|]).
    contradiction.
  Qed.

  (* ---- rejections ---- *)

  Theorem bad_scheme_rejected s :
    (exists cs, conf = CStruct cs) -> (exists ss, sbi = CStruct ss) -> fld sbi "Scheme" = CStr s ->
    s <> "http" -> s <> "https" -> rejected cfg = true.
  Proof.
    intros [cs Hc] [ss Hss] Hs H1 H2. unfold Model.rejected. fold conf. rewrite Hc. cbn [is_nil]. rewrite <- Hc.
    apply orb_true_iff. left. unfold configuration_err. fold sbi. rewrite Hss. cbn [is_nil]. rewrite <- Hss.
    apply orb_true_iff. left. apply orb_true_iff. left. apply orb_true_iff. left.
    unfold sbi_err. apply orb_true_iff. right.
    destruct scheme_field_in as [fs [Ha Hin]]. apply (field_fails "Sbi" fs scheme_field sbi Ha Hin).
    cbn [f_name scheme_field]. rewrite Hs. unfold Model.type_check.
    cbn [f_tag f_kind scheme_field empty_field is_empty is_required existsb].
    destruct (String.eqb s "") eqn:Ee; [reflexivity|]. cbn [leaf_objects String.eqb Ascii.eqb Bool.eqb].
    apply orb_true_iff. right. apply orb_true_iff. left. apply negb_true_iff. apply orb_false_iff.
    split; apply String.eqb_neq; assumption.
  Qed.

  Theorem unknown_service_rejected x :
    (exists cs, conf = CStruct cs) -> In x (strs_of (fld conf "ServiceNameList")) -> known_service x = false ->
    rejected cfg = true.
  Proof.
    intros [cs Hc] Hin Hk. unfold Model.rejected. fold conf. rewrite Hc. cbn [is_nil]. rewrite <- Hc.
    apply orb_true_iff. left. unfold configuration_err.
    apply orb_true_iff. left. apply orb_true_iff. left. apply orb_true_iff. right.
    apply negb_true_iff. destruct (forallb known_service (strs_of (fld conf "ServiceNameList"))) eqn:E; [|reflexivity].
    rewrite forallb_forall in E. rewrite (E x Hin) in Hk. discriminate.
  Qed.

  Theorem duplicate_service_rejected :
    (exists cs, conf = CStruct cs) -> has_dup (strs_of (fld conf "ServiceNameList")) = true -> rejected cfg = true.
  Proof.
    intros [cs Hc] Hd. unfold Model.rejected. fold conf. rewrite Hc. cbn [is_nil]. rewrite <- Hc.
    apply orb_true_iff. left. unfold configuration_err.
    apply orb_true_iff. left. apply orb_true_iff. right. exact Hd.
  Qed.
End Sound.
