(* C20 on the tables regenerated from /repo: accepted configurations start; bad ones are rejected. *)
From Coq Require Import String List ZArith Bool Lia.
From Verif Require Import Common.Outcome Config.Model Config.Proofs Config.TagsGen.
Import ListNotations.
Open Scope string_scope.
Open Scope list_scope.

Section Sound.
  Variable str_ok : string -> string -> bool.
  Variable int_ok : string -> Z -> bool.
  Variable mongo_ok : string -> bool.
  Variable cfg : cval.
  Hypothesis Hshape : shaped tables_gen 8 "Config" cfg = true.

  Notation rejected := (rejected str_ok int_ok tables_gen).
  Notation struct_err := (struct_err str_ok int_ok tables_gen).
  Notation G := (guaranteed tables_gen 8 "Config").

  Lemma accepted_struct : rejected cfg = false -> struct_err "Config" cfg = false.
  Proof. unfold Model.rejected. intros H. apply orb_false_iff in H. tauto. Qed.

  Lemma read_guaranteed p : rejected cfg = false -> G p = true -> exists x, get cfg p = Ok x.
  Proof.
    intros Hr Hg. apply (guaranteed_get str_ok int_ok tables_gen p 8 "Config" cfg Hg Hshape (accepted_struct Hr)).
  Qed.

  Lemma step_guaranteed g p : rejected cfg = false -> G p = true -> run_step mongo_ok cfg (Read g p) = Ok tt.
  Proof.
    intros Hr Hg. cbn [run_step]. destruct (holds mongo_ok cfg g); [|reflexivity].
    destruct (read_guaranteed p Hr Hg) as [x ->]. reflexivity.
  Qed.

  (* a mandatory section that is absent makes validation fail *)
  Lemma missing_rejected p q : G (p ++ [q]) = true -> get cfg p = Ok CNil -> rejected cfg = true.
  Proof.
    intros Hg Hnil. destruct (rejected cfg) eqn:Hr; [reflexivity|]. exfalso.
    destruct (read_guaranteed (p ++ [q]) Hr Hg) as [x Hx]. rewrite get_app, Hnil in Hx. discriminate.
  Qed.

  (* the value reached by a two-step read is the field of the field *)
  Lemma get2 a b x : get cfg [a; b] = Ok x -> x = fld (fld cfg a) b /\ exists fs, fld cfg a = CStruct fs.
  Proof.
    change [a; b] with ([a] ++ [b]). rewrite get_app. destruct (get cfg [a]) as [y| | |] eqn:E; try discriminate.
    cbn [bind]. intros H. pose proof (get_fld1 cfg a y E) as Ha. rewrite Ha.
    pose proof (get_fld1 y b x H) as Hb. split; [symmetry; exact Hb|].
    destruct y; cbn [get] in H; try discriminate. eexists. reflexivity.
  Qed.

  Definition conf := fld cfg "Configuration".
  Definition sbi := fld conf "Sbi".

  Lemma conf_sbi_present : rejected cfg = false -> (exists cs, conf = CStruct cs) /\ (exists ss, sbi = CStruct ss).
  Proof.
    intros Hr.
    destruct (read_guaranteed ["Configuration"; "Sbi"; "Scheme"] Hr eq_refl) as [x Hx].
    change ["Configuration"; "Sbi"; "Scheme"] with (["Configuration"; "Sbi"] ++ ["Scheme"]) in Hx.
    rewrite get_app in Hx. destruct (get cfg ["Configuration"; "Sbi"]) as [y| | |] eqn:E; try discriminate.
    destruct (get2 _ _ _ E) as [Hy [cs Hcs]]. split; [exists cs; exact Hcs|].
    cbn [bind] in Hx. fold conf in Hy. fold sbi in Hy. subst y.
    destruct sbi; cbn [get] in Hx; try discriminate. eexists. reflexivity.
  Qed.

  Lemma accepted_configuration : rejected cfg = false -> configuration_err str_ok int_ok tables_gen conf = false.
  Proof.
    intros Hr. destruct (conf_sbi_present Hr) as [[cs Hc] _]. unfold Model.rejected in Hr.
    apply orb_false_iff in Hr. destruct Hr as [H _]. fold conf in H. rewrite Hc in H. cbn [is_nil] in H.
    rewrite <- Hc in H. exact H.
  Qed.

  Lemma accepted_sbi : rejected cfg = false -> sbi_err str_ok int_ok tables_gen sbi = false.
  Proof.
    intros Hr. pose proof (accepted_configuration Hr) as H. unfold configuration_err in H.
    repeat (apply orb_false_iff in H; destruct H as [H ?]). fold sbi in H.
    destruct (conf_sbi_present Hr) as [_ [ss Hs]]. rewrite Hs in H. cbn [is_nil] in H. rewrite <- Hs in H. exact H.
  Qed.

  (* one field of an accepted struct passes typeCheck *)
  Lemma field_passes sname fs f v :
    assoc sname tables_gen = Some fs -> In f fs ->
    Model.vs_err str_ok int_ok tables_gen 8 sname v = false ->
    type_check str_ok int_ok f (fld v (f_name f)) = false.
  Proof.
    intros Ha Hin He. change 8%nat with (S 7) in He. cbn [Model.vs_err] in He. rewrite Ha in He.
    pose proof (existsb_false _ _ He f Hin) as H. cbv beta in H. apply orb_false_iff in H. tauto.
  Qed.

  Lemma field_fails sname fs f v :
    assoc sname tables_gen = Some fs -> In f fs ->
    type_check str_ok int_ok f (fld v (f_name f)) = true ->
    Model.vs_err str_ok int_ok tables_gen 8 sname v = true.
  Proof.
    intros Ha Hin Ht. change 8%nat with (S 7). cbn [Model.vs_err]. rewrite Ha.
    apply existsb_exists. exists f. split; [exact Hin|]. rewrite Ht. apply orb_true_r.
  Qed.

  Definition scheme_field : field := mkField "Scheme" "scheme" KStr (TOpts [VRequired; VNamed "scheme"]).
  Lemma scheme_field_in : exists fs, assoc "Sbi" tables_gen = Some fs /\ In scheme_field fs.
  Proof. eexists. split; [reflexivity|]. left. reflexivity. Qed.

  Definition conf_field : field := mkField "Configuration" "configuration" (KPtr "Configuration") (TOpts [VRequired]).
  Definition sbi_field : field := mkField "Sbi" "sbi" (KPtr "Sbi") (TOpts [VRequired]).
  Definition tls_field : field := mkField "Tls" "tls" (KPtr "Tls") (TOpts [VOptional]).
  Definition pem_field : field := mkField "Pem" "pem" KStr (TOpts [VType "string"; VMinLen 1; VRequired]).
  Definition key_field : field := mkField "Key" "key" KStr (TOpts [VType "string"; VMinLen 1; VRequired]).
  Definition names_field : field := mkField "ServiceNameList" "serviceNameList" KStrs (TOpts [VRequired]).

  Ltac in_table := eexists; split; [reflexivity|cbn [In]; tauto].
  Lemma conf_field_in : exists fs, assoc "Config" tables_gen = Some fs /\ In conf_field fs.  Proof. in_table. Qed.
  Lemma sbi_field_in : exists fs, assoc "Configuration" tables_gen = Some fs /\ In sbi_field fs.  Proof. in_table. Qed.
  Lemma names_field_in : exists fs, assoc "Configuration" tables_gen = Some fs /\ In names_field fs.  Proof. in_table. Qed.
  Lemma tls_field_in : exists fs, assoc "Sbi" tables_gen = Some fs /\ In tls_field fs.  Proof. in_table. Qed.
  Lemma pem_field_in : exists fs, assoc "Tls" tables_gen = Some fs /\ In pem_field fs.  Proof. in_table. Qed.
  Lemma key_field_in : exists fs, assoc "Tls" tables_gen = Some fs /\ In key_field fs.  Proof. in_table. Qed.

  Lemma conf_shaped : rejected cfg = false -> shaped tables_gen 7 "Configuration" conf = true.
  Proof.
    intros Hr. destruct conf_field_in as [fs [Ha Hin]].
    pose proof (shaped_field tables_gen 7 "Config" cfg fs conf_field Ha Hin Hshape) as H. cbn [f_kind f_name conf_field] in H.
    fold conf in H. destruct H as [H|H]; [|exact H].
    destruct (conf_sbi_present Hr) as [[cs Hc] _]. congruence.
  Qed.

  Lemma sbi_shaped : rejected cfg = false -> shaped tables_gen 6 "Sbi" sbi = true.
  Proof.
    intros Hr. destruct sbi_field_in as [fs [Ha Hin]].
    pose proof (shaped_field tables_gen 6 "Configuration" conf fs sbi_field Ha Hin (conf_shaped Hr)) as H.
    cbn [f_kind f_name sbi_field] in H. fold sbi in H. destruct H as [H|H]; [|exact H].
    destruct (conf_sbi_present Hr) as [_ [ss Hs]]. congruence.
  Qed.

  (* an accepted configuration has a scheme, and it is http or https *)
  Lemma accepted_scheme : rejected cfg = false ->
    exists s, fld sbi "Scheme" = CStr s /\ (s = "http" \/ s = "https").
  Proof.
    intros Hr. pose proof (accepted_sbi Hr) as H. unfold sbi_err in H. apply orb_false_iff in H. destruct H as [_ H].
    destruct scheme_field_in as [fs [Ha Hin]].
    pose proof (field_passes "Sbi" fs scheme_field sbi Ha Hin H) as Ht. cbn [f_name scheme_field] in Ht.
    pose proof (shaped_field tables_gen 5 "Sbi" sbi fs scheme_field Ha Hin (sbi_shaped Hr)) as Hl.
    cbn [f_kind f_name scheme_field] in Hl.
    destruct (fld sbi "Scheme") as [s| | | | | |]; try discriminate. exists s. split; [reflexivity|].
    unfold Model.type_check in Ht. cbn [f_tag f_kind scheme_field empty_field is_empty is_required existsb] in Ht.
    destruct (String.eqb s "") eqn:Ee; [discriminate|]. cbn [leaf_objects] in Ht.
    cbn [String.eqb Ascii.eqb Bool.eqb] in Ht. rewrite orb_false_r in Ht. apply orb_false_iff in Ht. destruct Ht as [_ Ht].
    apply negb_false_iff in Ht. apply orb_prop in Ht. destruct Ht as [Ht|Ht]; apply String.eqb_eq in Ht; auto.
  Qed.

  (* under https the tls block of the SBI is present, and its two members can be read *)
  Lemma https_tls : rejected cfg = false -> holds mongo_ok cfg Https = true ->
    forall leaf, leaf = "Pem" \/ leaf = "Key" -> exists x, get cfg ["Configuration"; "Sbi"; "Tls"; leaf] = Ok x.
  Proof.
    intros Hr Hh leaf Hleaf.
    destruct (accepted_scheme Hr) as [s [Hs Hcases]].
    cbn [holds] in Hh. unfold scheme_of in Hh. fold conf in Hh. fold sbi in Hh. rewrite Hs in Hh. cbn [str_of] in Hh.
    assert (Hs' : s = "https").
    { destruct Hcases as [->| ->]; [cbn in Hh; discriminate|reflexivity]. }
    subst s.
    pose proof (accepted_sbi Hr) as He. unfold sbi_err in He. apply orb_false_iff in He. destruct He as [He _].
    rewrite Hs in He. cbn [str_of] in He.
    destruct tls_field_in as [fs [Ha Hin]].
    pose proof (shaped_field tables_gen 5 "Sbi" sbi fs tls_field Ha Hin (sbi_shaped Hr)) as Ht.
    cbn [f_kind f_name tls_field] in Ht.
    destruct Ht as [Ht|Ht]; [rewrite Ht in He; cbn in He; discriminate|].
    (* the read: configuration and sbi are structs, tls is a shaped struct with both members *)
    destruct (read_guaranteed ["Configuration"; "Sbi"] Hr eq_refl) as [y Hy].
    destruct (get2 _ _ _ Hy) as [Hy' _]. fold conf in Hy'. fold sbi in Hy'. subst y.
    change ["Configuration"; "Sbi"; "Tls"; leaf] with (["Configuration"; "Sbi"] ++ ["Tls"; leaf]).
    rewrite get_app, Hy. cbn [bind].
    destruct (shaped_struct tables_gen 4 "Tls" (fld sbi "Tls") Ht) as [ts Hts].
    destruct (conf_sbi_present Hr) as [_ [ss Hss]]. rewrite Hss in *. cbn [get].
    unfold fld in Hts. destruct (assoc "Tls" ss) as [t|] eqn:Et; [|discriminate]. subst t.
    assert (Hl : exists x, assoc leaf ts = Some x).
    { change 4%nat with (S 3) in Ht. unfold fld in Ht. rewrite Et in Ht. cbn [Model.shaped] in Ht.
      destruct (assoc "Tls" tables_gen) as [tfs|] eqn:Etf; [|discriminate].
      apply andb_prop in Ht. destruct Ht as [Hn _].
      apply (names_assoc tfs ts leaf Hn). inversion Etf; subst tfs. cbn [map f_name]. destruct Hleaf as [->| ->]; cbn; tauto. }
    destruct Hl as [x Hx]. rewrite Hx. exists x. reflexivity.
  Qed.

  (* the routes are registered once per service *)
  Lemma routes_ok : rejected cfg = false -> run_step mongo_ok cfg Routes = Ok tt.
  Proof.
    intros Hr. cbn [run_step].
    destruct (read_guaranteed ["Configuration"; "ServiceNameList"] Hr eq_refl) as [l Hl]. rewrite Hl. cbn [bind].
    destruct (get2 _ _ _ Hl) as [Hl' _]. fold conf in Hl'. subst l.
    pose proof (accepted_configuration Hr) as H. unfold configuration_err in H.
    repeat (apply orb_false_iff in H; destruct H as [H ?]).
    match goal with Hd : has_dup _ = false |- _ => rewrite (has_dup_filter str_ok int_ok known_service _ Hd) end. reflexivity.
  Qed.

  Theorem startup_sound : rejected cfg = false -> run_steps mongo_ok cfg (startup ++ first_request) = Ok tt.
  Proof.
    intros Hr. apply run_steps_ok. intros s Hin. cbn [startup first_request app In] in Hin.
    repeat (destruct Hin as [<-|Hin];
            [first [ apply (step_guaranteed _ _ Hr); reflexivity
                   | apply (routes_ok Hr)
                   | cbn [run_step]; unfold C; destruct (holds mongo_ok cfg Https) eqn:Eh; [|reflexivity];
                     match goal with |- bind (get cfg [_; _; _; ?leaf]) _ = _ =>
                       destruct (https_tls Hr Eh leaf ltac:(auto)) as [x Hx]; rewrite Hx; reflexivity end ]|]).
    contradiction.
  Qed.

  (* ---- rejections ---- *)

  Theorem bad_scheme_rejected s :
    (exists cs, conf = CStruct cs) -> (exists ss, sbi = CStruct ss) -> fld sbi "Scheme" = CStr s ->
    s <> "http" -> s <> "https" -> rejected cfg = true.
  Proof.
    intros [cs Hc] [ss Hss] Hs H1 H2. unfold Model.rejected. fold conf. rewrite Hc. cbn [is_nil]. rewrite <- Hc.
    apply orb_true_iff. left. unfold configuration_err. fold sbi. rewrite Hss. cbn [is_nil]. rewrite <- Hss.
    apply orb_true_iff. left. apply orb_true_iff. left. apply orb_true_iff. left.
    unfold sbi_err. apply orb_true_iff. right.
    destruct scheme_field_in as [fs [Ha Hin]]. apply (field_fails "Sbi" fs scheme_field sbi Ha Hin).
    cbn [f_name scheme_field]. rewrite Hs. unfold Model.type_check.
    cbn [f_tag f_kind scheme_field empty_field is_empty is_required existsb].
    destruct (String.eqb s "") eqn:Ee; [reflexivity|]. cbn [leaf_objects String.eqb Ascii.eqb Bool.eqb].
    apply orb_true_iff. right. apply orb_true_iff. left. apply negb_true_iff. apply orb_false_iff.
    split; apply String.eqb_neq; assumption.
  Qed.

  Theorem unknown_service_rejected x :
    (exists cs, conf = CStruct cs) -> In x (strs_of (fld conf "ServiceNameList")) -> known_service x = false ->
    rejected cfg = true.
  Proof.
    intros [cs Hc] Hin Hk. unfold Model.rejected. fold conf. rewrite Hc. cbn [is_nil]. rewrite <- Hc.
    apply orb_true_iff. left. unfold configuration_err.
    apply orb_true_iff. left. apply orb_true_iff. left. apply orb_true_iff. right.
    apply negb_true_iff. destruct (forallb known_service (strs_of (fld conf "ServiceNameList"))) eqn:E; [|reflexivity].
    rewrite forallb_forall in E. rewrite (E x Hin) in Hk. discriminate.
  Qed.

  Theorem duplicate_service_rejected :
    (exists cs, conf = CStruct cs) -> has_dup (strs_of (fld conf "ServiceNameList")) = true -> rejected cfg = true.
  Proof.
    intros [cs Hc] Hd. unfold Model.rejected. fold conf. rewrite Hc. cbn [is_nil]. rewrite <- Hc.
    apply orb_true_iff. left. unfold configuration_err.
    apply orb_true_iff. left. apply orb_true_iff. right. exact Hd.
  Qed.
End Sound.
