(* Correspondence for C20: each case is one configuration file given to a child process
   (harness/cmd/cfgprobe): what yaml.Unmarshal made of it, the verdicts of the leaf validators on
   its leaves, and what happened: 0 rejected by ReadConfig, 1 the CHF started, 2 the process crashed. *)
From Coq Require Import String List ZArith Bool.
From Verif Require Import Common.Outcome Config.Model Config.TagsGen.
Import ListNotations.
Open Scope string_scope.

Record ccase := mkCcase {
  cc_id : Z;
  cc_cfg : cval;
  cc_strs : list (string * string * bool);   (* (validator, string, verdict) *)
  cc_ints : list (Z * bool);                 (* IsPort on the decimal print *)
  cc_seen : Z }.

Definition str_oracle (t : list (string * string * bool)) (n s : string) : bool :=
  existsb (fun e => let '(n', s', b) := e in String.eqb n n' && String.eqb s s' && b) t.
Definition int_oracle (t : list (Z * bool)) (n : string) (z : Z) : bool :=
  existsb (fun e => Z.eqb (fst e) z && snd e) t.

(* what the model says: 0 rejected, 1 starts, 2 crashes, 3 the model cannot tell (shape) *)
Definition model_outcome (c : ccase) : Z :=
  let so := str_oracle (cc_strs c) in
  let io := int_oracle (cc_ints c) in
  if negb (shaped tables_gen 8 "Config" (cc_cfg c)) then 3%Z
  else if rejected so io tables_gen (cc_cfg c) then 0%Z
  else match start (so "mongo") (cc_cfg c) with
       | Ok _ => 1%Z
       | Panic => 2%Z
       | _ => 3%Z
       end.

(* (case, model outcome, observed outcome) for every disagreement *)
Definition run_cfg (cs : list ccase) : list (Z * Z * Z) :=
  flat_map (fun c => let m := model_outcome c in
                     if Z.eqb m (cc_seen c) then [] else [(cc_id c, m, cc_seen c)]) cs.
