(* C20: a read that validation guarantees cannot hit a nil pointer. *)
From Coq Require Import String List ZArith Bool Lia.
From Verif Require Import Common.Outcome Config.Model.
Import ListNotations.
Open Scope string_scope.

Lemma strs_eqb_eq a : forall b, strs_eqb a b = true -> a = b.
Proof.
  induction a as [|x r IH]; intros b H; destruct b as [|y s]; try discriminate; [reflexivity|].
  cbn [strs_eqb] in H. apply andb_prop in H. destruct H as [H1 H2]. apply String.eqb_eq in H1. subst y.
  rewrite (IH s H2). reflexivity.
Qed.
Lemma validator_eqb_eq a b : validator_eqb a b = true -> a = b.
Proof.
  destruct a; destruct b; cbn [validator_eqb]; try discriminate; intros H; try reflexivity.
  - apply strs_eqb_eq in H. subst. reflexivity.
  - apply String.eqb_eq in H. subst. reflexivity.
  - apply Z.eqb_eq in H. subst. reflexivity.
  - apply String.eqb_eq in H. subst. reflexivity.
Qed.
Lemma validators_eqb_eq a : forall b, validators_eqb a b = true -> a = b.
Proof.
  induction a as [|x r IH]; intros b H; destruct b as [|y s]; try discriminate; [reflexivity|].
  cbn [validators_eqb] in H. apply andb_prop in H. destruct H as [H1 H2]. apply validator_eqb_eq in H1. subst y.
  rewrite (IH s H2). reflexivity.
Qed.
Lemma field_eqb_eq a b : field_eqb a b = true -> a = b.
Proof.
  unfold field_eqb. intros H. repeat (apply andb_prop in H; destruct H as [H ?]).
  destruct a as [an ay ak at']; destruct b as [bn by' bk bt]. cbn [f_name f_yaml f_kind f_tag] in *.
  apply String.eqb_eq in H. subst bn.
  match goal with E : String.eqb ay by' = true |- _ => apply String.eqb_eq in E; subst by' end.
  assert (ak = bk).
  { destruct ak; destruct bk; cbn [kind_eqb] in *; try discriminate; try reflexivity;
      match goal with E : String.eqb _ _ = true |- _ => apply String.eqb_eq in E; subst; reflexivity end. }
  assert (at' = bt).
  { destruct at'; destruct bt; cbn [vtag_eqb] in *; try discriminate; try reflexivity.
    match goal with E : validators_eqb _ _ = true |- _ => apply validators_eqb_eq in E; subst; reflexivity end. }
  subst. reflexivity.
Qed.

Section Proofs.
  Variable str_ok : string -> string -> bool.
  Variable int_ok : string -> Z -> bool.
  Variable T : tables.

  Notation vs_err := (vs_err str_ok int_ok T).
  Notation type_check := (type_check str_ok int_ok).
  Notation shaped := (shaped T).
  Notation guaranteed := (guaranteed T).

  Lemma existsb_false {A} (f : A -> bool) l : existsb f l = false -> forall x, In x l -> f x = false.
  Proof.
    induction l as [|y r IH]; intros H x Hin; [contradiction|]. cbn [existsb] in H.
    apply orb_false_iff in H. destruct H as [Hy Hr]. destruct Hin as [<-|Hin]; [exact Hy|apply IH; assumption].
  Qed.

  Lemma find_in {A} (f : A -> bool) l x : find f l = Some x -> In x l /\ f x = true.
  Proof.
    induction l as [|y r IH]; [discriminate|]. cbn [find]. destruct (f y) eqn:E.
    - intros H. inversion H; subst. split; [left; reflexivity|exact E].
    - intros H. destruct (IH H) as [Hin Hf]. split; [right; exact Hin|exact Hf].
  Qed.

  (* the value has an entry for every field name of its type *)
  Lemma names_assoc : forall (fs : list field) (vs : list (string * cval)) n,
    names_eqb (map f_name fs) (map fst vs) = true -> In n (map f_name fs) ->
    exists x, assoc n vs = Some x.
  Proof.
    induction fs as [|f fr IH]; intros vs n H Hin; [contradiction|].
    destruct vs as [|[k x] vr]; [discriminate|]. cbn [map names_eqb fst] in H.
    apply andb_prop in H. destruct H as [Hk Hr]. apply String.eqb_eq in Hk. subst k.
    cbn [assoc]. destruct (String.eqb (f_name f) n) eqn:E; [exists x; reflexivity|].
    destruct Hin as [Hn|Hin]; [rewrite Hn, String.eqb_refl in E; discriminate|].
    apply (IH vr n Hr Hin).
  Qed.

  Lemma shaped_struct fuel s x : shaped fuel s x = true -> exists xs, x = CStruct xs.
  Proof.
    destruct fuel as [|fuel']; [discriminate|]. cbn [Model.shaped].
    destruct (assoc s T); [|discriminate]. destruct x; try discriminate. intros _. eexists. reflexivity.
  Qed.

  (* what the shape says about one field *)
  Lemma shaped_field fuel sname v fs f :
    assoc sname T = Some fs -> In f fs -> shaped (S fuel) sname v = true ->
    match f_kind f with
    | KStruct s => shaped fuel s (fld v (f_name f)) = true
    | KPtr s => fld v (f_name f) = CNil \/ shaped fuel s (fld v (f_name f)) = true
    | k => leaf_shape k (fld v (f_name f)) = true
    end.
  Proof.
    intros Ha Hin Hs. cbn [Model.shaped] in Hs. rewrite Ha in Hs. destruct v as [| | | | | |vs]; try discriminate.
    apply andb_prop in Hs. destruct Hs as [_ Hs]. rewrite forallb_forall in Hs. specialize (Hs f Hin). cbv beta in Hs.
    destruct (f_kind f); try exact Hs.
    destruct (fld (CStruct vs) (f_name f)); auto.
  Qed.

  (* a guaranteed read of a value accepted by ValidateStruct succeeds *)
  Lemma guaranteed_get : forall p fuel sname v,
    guaranteed fuel sname p = true -> shaped fuel sname v = true -> vs_err fuel sname v = false ->
    exists x, get v p = Ok x.
  Proof.
    induction p as [|n r IH]; intros fuel sname v Hg Hs He; [exists v; reflexivity|].
    destruct fuel as [|fuel']; [discriminate|].
    cbn [Model.guaranteed] in Hg. cbn [Model.shaped] in Hs. cbn [Model.vs_err] in He.
    destruct (assoc sname T) as [fs|] eqn:Et; [|discriminate].
    destruct v as [| | | | | |vs]; try discriminate.
    apply andb_prop in Hs. destruct Hs as [Hnames Hfields].
    destruct (find (fun f => String.eqb (f_name f) n) fs) as [f|] eqn:Ef; [|discriminate].
    destruct (find_in _ _ _ Ef) as [Hin Hfn]. apply String.eqb_eq in Hfn.
    assert (Hn : In n (map f_name fs)) by (rewrite <- Hfn; apply in_map; exact Hin).
    destruct (names_assoc fs vs n Hnames Hn) as [x Hx].
    cbn [get]. rewrite Hx.
    pose proof (existsb_false _ _ He f Hin) as Hf. cbv beta in Hf.
    rewrite forallb_forall in Hfields. specialize (Hfields f Hin). cbv beta in Hfields.
    assert (Hfld : fld (CStruct vs) (f_name f) = x) by (unfold fld; rewrite Hfn, Hx; reflexivity).
    rewrite Hfld in Hf, Hfields.
    apply orb_false_iff in Hf. destruct Hf as [Hnest Htc].
    destruct r as [|n' r'].
    { exists x. reflexivity. }
    destruct (f_kind f) as [| | | | |s|s] eqn:Ek; try discriminate.
    - (* pointer: required, hence not nil *)
      apply andb_prop in Hg. destruct Hg as [Hg Hrest]. apply andb_prop in Hg. destruct Hg as [Hreq Hskip].
      unfold Model.type_check in Htc. rewrite Ek in Htc.
      destruct (f_tag f) as [| |vs'] eqn:Etag; try discriminate.
      destruct (match x with CNil => true | _ => false end) eqn:Enil.
      + (* nil: empty and required *)
        destruct x; try discriminate. cbn [empty_field is_empty] in Htc. rewrite Hreq in Htc. discriminate.
      + assert (Hsh : shaped fuel' s x = true) by (destruct x; try exact Hfields; discriminate).
        destruct (shaped_struct fuel' s x Hsh) as [xs ->].
        apply (IH fuel' s (CStruct xs) Hrest Hsh Hnest).
    - apply andb_prop in Hg. destruct Hg as [Hskip Hrest].
      destruct (f_tag f) as [| |vs'] eqn:Etag; try discriminate;
        apply (IH fuel' s x Hrest Hfields Hnest).
  Qed.

  (* one field of an accepted struct passes typeCheck; one failing field makes the struct fail *)
  Lemma field_passes_gen fuel sname fs f v :
    assoc sname T = Some fs -> In f fs -> vs_err (S fuel) sname v = false ->
    type_check f (fld v (f_name f)) = false.
  Proof.
    intros Ha Hin He. cbn [Model.vs_err] in He. rewrite Ha in He.
    pose proof (existsb_false _ _ He f Hin) as H. cbv beta in H. apply orb_false_iff in H. tauto.
  Qed.

  Lemma field_fails_gen fuel sname fs f v :
    assoc sname T = Some fs -> In f fs -> type_check f (fld v (f_name f)) = true ->
    vs_err (S fuel) sname v = true.
  Proof.
    intros Ha Hin Ht. cbn [Model.vs_err]. rewrite Ha.
    apply existsb_exists. exists f. split; [exact Hin|]. rewrite Ht. apply orb_true_r.
  Qed.

  Lemma get_app : forall p q v, get v (p ++ q) = (do x <- get v p; get x q).
  Proof.
    induction p as [|n r IH]; intros q v; [reflexivity|]. cbn [app get].
    destruct v as [| | | | | |fs]; try reflexivity. destruct (assoc n fs); [apply IH|reflexivity].
  Qed.

  Lemma get_fld1 v n x : get v [n] = Ok x -> fld v n = x.
  Proof.
    cbn [get]. destruct v as [| | | | | |fs]; try discriminate. unfold fld.
    destruct (assoc n fs); [|discriminate]. intros H. inversion H. reflexivity.
  Qed.

  Lemma has_dup_filter (f : string -> bool) l : has_dup l = false -> has_dup (filter f l) = false.
  Proof.
    induction l as [|x r IH]; intros H; [reflexivity|]. cbn [has_dup] in H.
    apply orb_false_iff in H. destruct H as [Hx Hr]. cbn [filter]. destruct (f x).
    - cbn [has_dup]. rewrite (IH Hr), orb_false_r.
      destruct (existsb (String.eqb x) (filter f r)) eqn:E; [|reflexivity].
      apply existsb_exists in E. destruct E as [y [Hy Hxy]]. apply filter_In in Hy.
      assert (existsb (String.eqb x) r = true) by (apply existsb_exists; exists y; tauto). congruence.
    - apply IH. exact Hr.
  Qed.

  Lemma run_steps_ok mongo_ok cfg ss :
    (forall s, In s ss -> run_step mongo_ok cfg s = Ok tt) -> run_steps mongo_ok cfg ss = Ok tt.
  Proof.
    induction ss as [|s r IH]; intros H; [reflexivity|]. cbn [run_steps].
    rewrite (H s (or_introl eq_refl)). cbn [bind]. apply IH. intros s' Hs'. apply H. right. exact Hs'.
  Qed.
End Proofs.
