(* Configuration validation and start-up of the CHF (pkg/factory/config.go, factory.go;
   internal/context/chf_context_init.go; pkg/service/init.go; pkg/rf, pkg/abmf, internal/cgf,
   internal/sbi/server.go), over the struct-tag tables regenerated from pkg/factory on every run
   (Config/TagsGen.v).

   validate: govalidator.ValidateStruct as the version in go.sum implements it (required /
   optional on leaves, pointers and nested structs; nested structs and non-nil pointers are
   validated whatever their own tag says unless it is "-"), plus the hand-written validate
   methods of Config, Configuration, Sbi and Tls.  The leaf validators host / port / url and the
   MongoDB connection-string parser are oracles: section variables whose values the
   correspondence run takes from the real functions.

   start: the configuration reads of the start-up path in the order the code makes them; a read
   through a nil pointer is the nil dereference that kills the process. *)
From Coq Require Import String List ZArith Bool.
From Verif Require Import Common.Outcome.
Import ListNotations.
Open Scope string_scope.

(* ---- tables ---- *)

Inductive validator :=
| VRequired | VOptional
| VIn (l : list string)
| VType (s : string)
| VMinLen (n : Z)
| VNamed (s : string).       (* host, port, url, scheme, ... *)

Inductive kind := KStr | KInt | KBool | KFloat | KStrs | KPtr (s : string) | KStruct (s : string).
Inductive vtag := TNone | TSkip | TOpts (vs : list validator).
Record field := mkField { f_name : string; f_yaml : string; f_kind : kind; f_tag : vtag }.
Definition tables := list (string * list field).

Fixpoint strs_eqb (a b : list string) : bool :=
  match a, b with
  | [], [] => true
  | x :: r, y :: s => String.eqb x y && strs_eqb r s
  | _, _ => false
  end.
Definition validator_eqb (a b : validator) : bool :=
  match a, b with
  | VRequired, VRequired | VOptional, VOptional => true
  | VIn x, VIn y => strs_eqb x y
  | VType x, VType y => String.eqb x y
  | VMinLen x, VMinLen y => Z.eqb x y
  | VNamed x, VNamed y => String.eqb x y
  | _, _ => false
  end.
Definition kind_eqb (a b : kind) : bool :=
  match a, b with
  | KStr, KStr | KInt, KInt | KBool, KBool | KFloat, KFloat | KStrs, KStrs => true
  | KPtr x, KPtr y | KStruct x, KStruct y => String.eqb x y
  | _, _ => false
  end.
Fixpoint validators_eqb (a b : list validator) : bool :=
  match a, b with
  | [], [] => true
  | x :: r, y :: s => validator_eqb x y && validators_eqb r s
  | _, _ => false
  end.
Definition vtag_eqb (a b : vtag) : bool :=
  match a, b with
  | TNone, TNone | TSkip, TSkip => true
  | TOpts x, TOpts y => validators_eqb x y
  | _, _ => false
  end.
Definition field_eqb (a b : field) : bool :=
  String.eqb (f_name a) (f_name b) && String.eqb (f_yaml a) (f_yaml b) && kind_eqb (f_kind a) (f_kind b) &&
  vtag_eqb (f_tag a) (f_tag b).

Fixpoint assoc {A} (n : string) (l : list (string * A)) : option A :=
  match l with
  | [] => None
  | (k, v) :: r => if String.eqb k n then Some v else assoc n r
  end.

(* ---- configuration values as yaml.Unmarshal leaves them ---- *)

Inductive cval :=
| CStr (s : string)
| CInt (z : Z)
| CBool (b : bool)
| CFloat (zero : bool)
| CStrs (l : list string)
| CNil                                   (* nil pointer: the section is absent *)
| CStruct (fs : list (string * cval)).   (* a struct, or a non-nil pointer to one; by Go field name *)

Definition fld (v : cval) (n : string) : cval :=
  match v with
  | CStruct fs => match assoc n fs with Some x => x | None => CNil end
  | _ => CNil
  end.

Definition is_required (t : vtag) : bool :=
  match t with TOpts vs => existsb (fun v => match v with VRequired => true | _ => false end) vs | _ => false end.

Section Validate.
  (* govalidator.IsHost / IsURL on a string, IsPort on the decimal print of an int *)
  Variable str_ok : string -> string -> bool.
  Variable int_ok : string -> Z -> bool.
  Variable T : tables.

  (* isEmptyValue; a struct value is empty when it equals its zero value *)
  Fixpoint is_empty (v : cval) : bool :=
    match v with
    | CStr s => String.eqb s ""
    | CInt z => Z.eqb z 0
    | CBool b => negb b
    | CFloat z => z
    | CStrs l => match l with [] => true | _ => false end
    | CNil => true
    | CStruct fs => (fix all (fs : list (string * cval)) : bool :=
                       match fs with [] => true | (_, x) :: r => is_empty x && all r end) fs
    end.
  Definition empty_field (k : kind) (v : cval) : bool :=
    match k, v with
    | KPtr _, CStruct _ => false      (* a non-nil pointer is not empty, whatever it points to *)
    | _, _ => is_empty v
    end.

  Definition known_named (n : string) : bool :=
    String.eqb n "host" || String.eqb n "port" || String.eqb n "url" || String.eqb n "scheme".

  (* one validator applied to a non-empty leaf: true = it objects *)
  Definition leaf_objects (k : kind) (v : cval) (x : validator) : bool :=
    match x, v with
    | VRequired, _ | VOptional, _ => false
    | VIn l, CStr s => negb (existsb (String.eqb s) l)
    | VIn _, _ => true
    | VType t, CStr _ => negb (String.eqb t "string")
    | VType t, CBool _ => negb (String.eqb t "bool")
    | VType t, CInt _ => negb (String.eqb t "int")
    | VType _, _ => true
    | VMinLen n, CStr s => Z.ltb (Z.of_nat (String.length s)) n
    | VMinLen _, _ => true
    | VNamed n, CStr s =>
      if String.eqb n "scheme" then negb (String.eqb s "http" || String.eqb s "https")
      else if known_named n then negb (str_ok n s) else true     (* unknown validator: "can't be applied" *)
    | VNamed n, CInt z => if known_named n then negb (int_ok n z) else true
    | VNamed _, _ => true
    end.

  (* typeCheck: true = error *)
  Definition type_check (f : field) (v : cval) : bool :=
    match f_tag f with
    | TNone | TSkip => false
    | TOpts vs =>
      if empty_field (f_kind f) v then is_required (f_tag f)
      else match f_kind f with
           | KStr | KInt | KBool | KFloat => existsb (leaf_objects (f_kind f) v) vs
           | KStrs =>
             (* each element goes through typeCheck with the same options: an empty string is an
                empty value, refused when the list is required *)
             match v with
             | CStrs l => is_required (f_tag f) && existsb (fun s => String.eqb s "") l
             | _ => true
             end
           | KPtr _ | KStruct _ =>
             (* the struct itself passes; validators other than required/optional cannot be applied *)
             existsb (fun x => match x with VRequired | VOptional => false | _ => true end) vs
           end
    end.

  (* ValidateStruct: true = err != nil.  fuel bounds the nesting of struct types. *)
  Fixpoint vs_err (fuel : nat) (sname : string) (v : cval) : bool :=
    match fuel with
    | O => true
    | S fuel' =>
      match assoc sname T with
      | None => true
      | Some fs =>
        existsb (fun f =>
          let x := fld v (f_name f) in
          (match f_kind f, f_tag f, x with
           | _, TSkip, _ => false
           | KStruct s, _, _ => vs_err fuel' s x
           | KPtr s, _, CStruct _ => vs_err fuel' s x
           | _, _, _ => false
           end) || type_check f x) fs
      end
    end.

  Definition depth : nat := 8.
  Definition struct_err (s : string) (v : cval) : bool := vs_err depth s v.

  (* ---- the validate methods of config.go ---- *)

  Definition known_service (s : string) : bool :=
    String.eqb s "nchf-convergedcharging" || String.eqb s "nchf-offlineonlycharging" ||
    String.eqb s "nchf-spendinglimitcontrol".

  Fixpoint has_dup (l : list string) : bool :=
    match l with [] => false | x :: r => existsb (String.eqb x) r || has_dup r end.

  Definition strs_of (v : cval) : list string := match v with CStrs l => l | _ => [] end.
  Definition str_of (v : cval) : string := match v with CStr s => s | _ => "" end.
  Definition is_nil (v : cval) : bool := match v with CStruct _ => false | _ => true end.

  (* Sbi.validate *)
  Definition sbi_err (sbi : cval) : bool :=
    (if is_nil (fld sbi "Tls") then String.eqb (str_of (fld sbi "Scheme")) "https"
     else struct_err "Tls" (fld sbi "Tls")) ||
    struct_err "Sbi" sbi.

  (* Configuration.validate *)
  Definition configuration_err (c : cval) : bool :=
    (if is_nil (fld c "Sbi") then false else sbi_err (fld c "Sbi")) ||
    negb (forallb known_service (strs_of (fld c "ServiceNameList"))) ||
    has_dup (strs_of (fld c "ServiceNameList")) ||
    struct_err "Configuration" c.

  (* Config.Validate as ReadConfig uses it: true = the configuration is rejected *)
  Definition rejected (cfg : cval) : bool :=
    (if is_nil (fld cfg "Configuration") then false else configuration_err (fld cfg "Configuration")) ||
    struct_err "Config" cfg.

  (* ---- start-up ---- *)

  Variable mongo_ok : string -> bool.     (* mongo.Connect accepts the connection string *)

  (* reading cfg.A.B.C: a nil pointer on the way (not at the end) is a nil dereference *)
  Fixpoint get (v : cval) (p : list string) : outcome cval :=
    match p with
    | [] => Ok v
    | n :: r =>
      match v with
      | CStruct fs => match assoc n fs with Some x => get x r | None => Err end
      | CNil => Panic
      | _ => Err
      end
    end.

  Inductive guard :=
  | Always
  | CgfEnabled        (* a.cfg.Configuration.Cgf.Enable *)
  | MongoOk           (* mongoapi.SetMongoDB did not return an error *)
  | Https.            (* cfg.GetSbiScheme() == "https" (nil-safe getter, default https) *)

  Inductive step :=
  | Read (g : guard) (p : list string)
  | Routes.           (* newRouter: registering the routes of a service twice makes gin panic *)

  Definition scheme_of (cfg : cval) : string :=
    let s := str_of (fld (fld (fld cfg "Configuration") "Sbi") "Scheme") in
    if String.eqb s "" then "https" else s.

  Definition holds (cfg : cval) (g : guard) : bool :=
    match g with
    | Always => true
    | CgfEnabled => match fld (fld (fld cfg "Configuration") "Cgf") "Enable" with CBool b => b | _ => false end
    | MongoOk => mongo_ok (str_of (fld (fld (fld cfg "Configuration") "Mongodb") "Url"))
    | Https => String.eqb (scheme_of cfg) "https"
    end.

  Definition run_step (cfg : cval) (s : step) : outcome unit :=
    match s with
    | Read g p => if holds cfg g then (do _ <- get cfg p; Ok tt) else Ok tt
    | Routes =>
      do l <- get cfg ["Configuration"; "ServiceNameList"];
      if has_dup (filter known_service (strs_of l)) then Panic else Ok tt
    end.

  Fixpoint run_steps (cfg : cval) (ss : list step) : outcome unit :=
    match ss with
    | [] => Ok tt
    | s :: r => do _ <- run_step cfg s; run_steps cfg r
    end.

  Definition C := "Configuration".

  (* the reads of the start-up path, in order *)
  Definition startup : list step := [
    (* service.NewApp -> chf_context.Init -> InitChfContext (chf_context_init.go:19-86) *)
    Read Always ["Info"; "Version"]; Read Always ["Info"; "Description"];
    Read Always [C; "Sbi"]; Read Always [C; "NrfUri"]; Read Always [C; "NrfCertPem"];
    Read Always [C; "Sbi"; "Scheme"];
    Read Always [C; "RfDiameter"; "HostIPv4"]; Read Always [C; "AbmfDiameter"; "HostIPv4"];
    Read Always ["Info"; "Version"];                                   (* AddNfServices *)
    (* sbi.NewServer -> newRouter (server.go:54-96) *)
    Routes;
    (* ChfApp.Start (init.go:137-160) *)
    Read Always [C; "Cgf"; "Enable"];
    (* cgf.OpenServer (cgf.go:63-91) *)
    Read CgfEnabled [C; "Cgf"; "HostIPv4"]; Read CgfEnabled [C; "Cgf"; "Port"];
    Read CgfEnabled [C; "Cgf"; "PassiveTransferPortRange"; "Start"];
    Read CgfEnabled [C; "Cgf"; "PassiveTransferPortRange"; "End"];
    Read CgfEnabled [C; "Sbi"; "BindingIPv4"]; Read CgfEnabled [C; "Cgf"; "ListenPort"];
    (* rf.OpenServer (pkg/rf/rating.go:44-90) *)
    Read Always [C; "Mongodb"; "Name"]; Read Always [C; "Mongodb"; "Url"];
    Read MongoOk [C; "RfDiameter"; "HostIPv4"]; Read MongoOk [C; "RfDiameter"; "Port"];
    Read MongoOk [C; "RfDiameter"; "Tls"; "Pem"]; Read MongoOk [C; "RfDiameter"; "Tls"; "Key"];
    (* abmf.OpenServer (pkg/abmf/abmf.go:44-90) *)
    Read Always [C; "Mongodb"; "Name"]; Read Always [C; "Mongodb"; "Url"];
    Read MongoOk [C; "AbmfDiameter"; "HostIPv4"]; Read MongoOk [C; "AbmfDiameter"; "Port"];
    Read MongoOk [C; "AbmfDiameter"; "Tls"; "Pem"]; Read MongoOk [C; "AbmfDiameter"; "Tls"; "Key"];
    (* Server.Run -> startServer (server.go:127-156) *)
    Read Https [C; "Sbi"; "Tls"; "Pem"]; Read Https [C; "Sbi"; "Tls"; "Key"] ].

  (* the reads made while serving the first charging request: the Diameter clients
     (internal/rating/rating.go:24-26, internal/abmf/abmf.go:25-27) and the CDR transfer
     (internal/cgf/cgf.go:291) *)
  Definition first_request : list step := [
    Read Always [C; "RfDiameter"; "HostIPv4"]; Read Always [C; "RfDiameter"; "Port"];
    Read Always [C; "RfDiameter"; "Protocol"];
    Read Always [C; "RfDiameter"; "Tls"; "Pem"]; Read Always [C; "RfDiameter"; "Tls"; "Key"];
    Read Always [C; "AbmfDiameter"; "HostIPv4"]; Read Always [C; "AbmfDiameter"; "Port"];
    Read Always [C; "AbmfDiameter"; "Protocol"];
    Read Always [C; "AbmfDiameter"; "Tls"; "Pem"]; Read Always [C; "AbmfDiameter"; "Tls"; "Key"];
    Read CgfEnabled [C; "Cgf"; "CdrFilePath"] ].

  Definition start (cfg : cval) : outcome unit := run_steps cfg startup.

  (* ---- shape: the value has exactly the fields of its struct type ---- *)

  Fixpoint names_eqb (a b : list string) : bool :=
    match a, b with
    | [], [] => true
    | x :: r, y :: s => String.eqb x y && names_eqb r s
    | _, _ => false
    end.

  (* which reads validation guarantees: every pointer on the way (but the last) is required and the
     structs on the way are validated (their tag is not "-") *)
  Definition is_skip (t : vtag) : bool := match t with TSkip => true | _ => false end.
  Fixpoint guaranteed (fuel : nat) (sname : string) (p : list string) : bool :=
    match p with
    | [] => true
    | n :: r =>
      match fuel with
      | O => false
      | S fuel' =>
        match assoc sname T with
        | None => false
        | Some fs =>
          match find (fun f => String.eqb (f_name f) n) fs with
          | None => false
          | Some f =>
            match f_kind f, r with
            | KPtr _, [] => true
            | KPtr s, _ => is_required (f_tag f) && negb (is_skip (f_tag f)) && guaranteed fuel' s r
            | KStruct s, _ => negb (is_skip (f_tag f)) && guaranteed fuel' s r
            | _, [] => true
            | _, _ => false
            end
          end
        end
      end
    end.

  Definition leaf_shape (k : kind) (v : cval) : bool :=
    match k, v with
    | KStr, CStr _ | KInt, CInt _ | KBool, CBool _ | KFloat, CFloat _ | KStrs, CStrs _ => true
    | _, _ => false
    end.

  Fixpoint shaped (fuel : nat) (sname : string) (v : cval) : bool :=
    match fuel with
    | O => false
    | S fuel' =>
      match assoc sname T, v with
      | Some fs, CStruct vs =>
        names_eqb (map f_name fs) (map fst vs) &&
        forallb (fun f =>
          let x := fld v (f_name f) in
          match f_kind f with
          | KStruct s => shaped fuel' s x
          | KPtr s => match x with CNil => true | _ => shaped fuel' s x end
          | k => leaf_shape k x
          end) fs
      | _, _ => false
      end
    end.
End Validate.
