(* C20 — validated configurations start without crashing; invalid ones are rejected. *)
From Coq Require Import String List ZArith Bool.
From Verif Require Import Common.Outcome Config.Model Config.Proofs Config.TagsGen Config.Sound.
Import ListNotations.
Open Scope string_scope.
Open Scope list_scope.

(* Whatever govalidator's leaf validators and the MongoDB connection-string parser answer (str_ok,
   int_ok, mongo_ok are arbitrary), a configuration that Config.Validate accepts - over the struct
   tags regenerated from pkg/factory on this run - goes through every configuration read of the
   start-up path (context initialisation, router, CGF when enabled, rating and account-balance
   servers, SBI server under http and https) and of the first charging request without meeting a
   nil pointer, and registers no route twice. *)
Lemma facts_gen : tables_facts tables_gen = true.
Proof. vm_compute. reflexivity. Qed.

Theorem C20_sound : forall str_ok int_ok mongo_ok cfg,
  shaped tables_gen 8 "Config" cfg = true ->
  rejected str_ok int_ok tables_gen cfg = false ->
  run_steps mongo_ok cfg (startup ++ first_request) = Ok tt.
Proof. intros. apply (startup_sound str_ok int_ok mongo_ok tables_gen cfg); [assumption|exact facts_gen|assumption]. Qed.
Print Assumptions C20_sound.

(* A mandatory section that is absent is refused: info, configuration, logger, sbi, mongodb,
   rfDiameter, abmfDiameter, cgf, and the tls blocks of the two Diameter sections. *)
Definition mandatory : list (list string * string) := [
  (["Info"], "Version"); (["Configuration"], "ChfName"); (["Logger"], "Level");
  (["Configuration"; "Sbi"], "Scheme"); (["Configuration"; "Mongodb"], "Name");
  (["Configuration"; "RfDiameter"], "Port"); (["Configuration"; "AbmfDiameter"], "Port");
  (["Configuration"; "Cgf"], "Port");
  (["Configuration"; "RfDiameter"; "Tls"], "Pem"); (["Configuration"; "AbmfDiameter"; "Tls"], "Key") ].

Theorem C20_rejects_missing_section : forall str_ok int_ok cfg p q,
  shaped tables_gen 8 "Config" cfg = true ->
  In (p, q) mandatory -> get cfg p = Ok CNil ->
  rejected str_ok int_ok tables_gen cfg = true.
Proof.
  intros str_ok int_ok cfg p q Hs Hin Hnil. apply (missing_rejected str_ok int_ok tables_gen cfg Hs p q); [|exact Hnil].
  cbn [mandatory In] in Hin.
  repeat (destruct Hin as [Hin|Hin]; [inversion Hin; subst; vm_compute; reflexivity|]). contradiction.
Qed.
Print Assumptions C20_rejects_missing_section.

(* an SBI scheme other than http / https is refused *)
Theorem C20_rejects_scheme : forall str_ok int_ok cfg s cs ss,
  fld cfg "Configuration" = CStruct cs -> fld (CStruct cs) "Sbi" = CStruct ss ->
  fld (CStruct ss) "Scheme" = CStr s -> s <> "http" -> s <> "https" ->
  rejected str_ok int_ok tables_gen cfg = true.
Proof.
  intros str_ok int_ok cfg s cs ss Hc Hs Hsch H1 H2.
  apply (bad_scheme_rejected str_ok int_ok tables_gen cfg facts_gen s); unfold sbi, conf; rewrite ?Hc, ?Hs; eauto.
Qed.
Print Assumptions C20_rejects_scheme.

(* an unknown service name, and (since the fix) a service named twice, are refused *)
Theorem C20_rejects_service : forall str_ok int_ok cfg cs x,
  fld cfg "Configuration" = CStruct cs ->
  In x (strs_of (fld (CStruct cs) "ServiceNameList")) ->
  known_service x = false ->
  rejected str_ok int_ok tables_gen cfg = true.
Proof.
  intros str_ok int_ok cfg cs x Hc Hin Hk.
  apply (unknown_service_rejected str_ok int_ok tables_gen cfg x); unfold conf; rewrite ?Hc; eauto.
Qed.
Print Assumptions C20_rejects_service.

Theorem C20_rejects_duplicate_service : forall str_ok int_ok cfg cs,
  fld cfg "Configuration" = CStruct cs ->
  has_dup (strs_of (fld (CStruct cs) "ServiceNameList")) = true ->
  rejected str_ok int_ok tables_gen cfg = true.
Proof.
  intros str_ok int_ok cfg cs Hc Hd.
  apply (duplicate_service_rejected str_ok int_ok tables_gen cfg); unfold conf; rewrite ?Hc; eauto.
Qed.
Print Assumptions C20_rejects_duplicate_service.

(* the struct-tag tables use only what the model of ValidateStruct covers *)
Definition supported_field (f : field) : bool :=
  match f_kind f, f_tag f with
  | (KPtr _ | KStruct _ | KStrs), TOpts vs => forallb (fun v => match v with VRequired | VOptional => true | _ => false end) vs
  | _, TOpts vs => forallb (fun v => match v with VNamed n => known_named n | _ => true end) vs
  | _, _ => true
  end.
Theorem C20_tables_supported :
  forallb (fun st => forallb supported_field (snd st)) tables_gen = true /\
  map fst tables_gen = ["Config"; "Info"; "Configuration"; "Sbi"; "Tls"; "Mongodb"; "Diameter"; "Cgf";
                        "Cgf.PassiveTransferPortRange"; "Logger"].
Proof. vm_compute. split; reflexivity. Qed.
Print Assumptions C20_tables_supported.

(* non-vacuity: a complete configuration is shaped, accepted (with validators that accept) and starts;
   the same without the SBI tls block under https is rejected *)
Definition tls_v := CStruct [("Pem", CStr "a.pem"); ("Key", CStr "a.key")].
Definition diam_v := CStruct [("Protocol", CStr "tcp"); ("HostIPv4", CStr "127.0.0.1"); ("Port", CInt 3868); ("Tls", tls_v)].
Definition example_cfg (scheme : string) (sbi_tls : cval) : cval :=
  CStruct [("Info", CStruct [("Version", CStr "1.0.3"); ("Description", CStr "")]);
           ("Configuration", CStruct [
              ("ChfName", CStr "CHF");
              ("Sbi", CStruct [("Scheme", CStr scheme); ("RegisterIPv4", CStr "127.0.0.1"); ("BindingIPv4", CStr "127.0.0.1");
                               ("Port", CInt 8000); ("Tls", sbi_tls)]);
              ("ServiceNameList", CStrs ["nchf-convergedcharging"]);
              ("NrfUri", CStr "http://127.0.0.10:8000"); ("NrfCertPem", CStr "");
              ("Mongodb", CStruct [("Name", CStr "free5gc"); ("Url", CStr "mongodb://localhost:27017")]);
              ("VolumeLimit", CInt 0); ("VolumeLimitPDU", CInt 0); ("ReserveQuotaRatio", CInt 0);
              ("VolumeThresholdRate", CFloat true); ("QuotaValidityTime", CInt 0);
              ("RfDiameter", diam_v); ("AbmfDiameter", diam_v);
              ("Cgf", CStruct [("Enable", CBool true); ("HostIPv4", CStr "127.0.0.1"); ("Port", CInt 2121); ("ListenPort", CInt 2122);
                               ("PassiveTransferPortRange", CStruct [("Start", CInt 2123); ("End", CInt 2130)]);
                               ("Tls", CNil); ("CdrFilePath", CStr "/tmp")])]);
           ("Logger", CStruct [("Enable", CBool true); ("Level", CStr "info"); ("ReportCaller", CBool false)])].
Example C20_nonvacuous :
  let yes2 := fun (_ _ : string) => true in let yesz := fun (_ : string) (_ : Z) => true in
  shaped tables_gen 8 "Config" (example_cfg "https" tls_v) = true /\
  rejected yes2 yesz tables_gen (example_cfg "https" tls_v) = false /\
  rejected yes2 yesz tables_gen (example_cfg "http" CNil) = false /\
  rejected yes2 yesz tables_gen (example_cfg "https" CNil) = true /\
  start (fun _ => true) (example_cfg "https" CNil) = Panic.
Proof. vm_compute. repeat split; reflexivity. Qed.
