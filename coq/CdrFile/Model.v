(* Model of cdr/cdrFile/cdrFile.go: CdrFileHeader.Encoding, CdrHeader.Encoding,
   CDRFile.Encoding and CDRFile.Decoding.  Definitions only (no proofs), so the
   model still runs when a proof breaks.

   Conventions: every struct field is a Z inside the range of its Go type
   ([struct_ok]); uint8/uint32 shifts wrap as in Go; [|] is [Z.lor]; [&] with a
   low mask is [mod 2^k]; [>>] is [/ 2^k]; every index or slice expression is
   [idx]/[slice] and yields [Panic] where Go panics.  File offsets are uint32 /
   int in Go; the model uses unbounded Z, i.e. it describes files shorter than
   4 GiB ([wf_file] carries that bound). *)
From Coq Require Import List ZArith Bool.
From Verif Require Import Common.Outcome Common.Bytes.
Import ListNotations.
Open Scope Z_scope.

Record tstamp := mkTs {
  ts_month : Z; ts_date : Z; ts_hour : Z; ts_minute : Z;
  ts_sign : Z; ts_hdev : Z; ts_mdev : Z }.

Record fhdr := mkFhdr {
  file_len : Z; hdr_len : Z;
  hi_rel : Z; hi_ver : Z; lo_rel : Z; lo_ver : Z;
  open_ts : tstamp; last_ts : tstamp;
  ncdrs : Z; fseq : Z; reason : Z;
  ipaddr : list Z;                 (* [20]byte *)
  lost : Z;
  filter_len : Z; filter : list Z;
  ext_len : Z; ext : list Z;
  hi_ext : Z; lo_ext : Z }.

Record chdr := mkChdr {
  cdr_len : Z; c_rel : Z; c_ver : Z; c_fmt : Z; c_tsnum : Z; c_ext : Z }.

Record cdr := mkCdr { c_hdr : chdr; c_payload : list Z }.
Record cfile := mkFile { f_hdr : fhdr; f_cdrs : list cdr }.

(* uint8(x) << k and uint32(x) << k *)
Definition shl8 (x k : Z) : Z := (x * 2 ^ k) mod 256.
Definition shl32 (x k : Z) : Z := (x * 2 ^ k) mod 4294967296.

Definition enc_ts (t : tstamp) : Z :=
  Z.lor (Z.lor (Z.lor (Z.lor (Z.lor (Z.lor
    (shl32 (ts_month t) 28) (shl32 (ts_date t) 23)) (shl32 (ts_hour t) 18))
    (shl32 (ts_minute t) 12)) (shl32 (ts_sign t) 11)) (shl32 (ts_hdev t) 6))
    (ts_mdev t).

Definition enc_fhdr (h : fhdr) : list Z :=
  be32 (file_len h) ++ be32 (hdr_len h) ++
  [Z.lor (shl8 (hi_rel h) 5) (hi_ver h)] ++
  [Z.lor (shl8 (lo_rel h) 5) (lo_ver h)] ++
  be32 (enc_ts (open_ts h)) ++ be32 (enc_ts (last_ts h)) ++
  be32 (ncdrs h) ++ be32 (fseq h) ++ [reason h] ++ ipaddr h ++ [lost h] ++
  be16 (filter_len h) ++ filter h ++ be16 (ext_len h) ++ ext h ++
  (if hi_rel h =? 7 then [hi_ext h] else []) ++
  (if lo_rel h =? 7 then [lo_ext h] else []).

Definition enc_chdr (c : chdr) : list Z :=
  be16 (cdr_len c) ++
  [Z.lor (shl8 (c_rel c) 5) (c_ver c)] ++
  [Z.lor (shl8 (c_fmt c) 5) (c_tsnum c)] ++
  (if c_rel c =? 7 then [c_ext c] else []).

Definition enc_cdr (c : cdr) : list Z := enc_chdr (c_hdr c) ++ c_payload c.

Definition enc_file (f : cfile) : list Z :=
  enc_fhdr (f_hdr f) ++ concat (map enc_cdr (f_cdrs f)).

(* ---- Decoding ---- *)

Definition dec_ts (ts : Z) : tstamp :=
  mkTs ((ts / 2^28) mod 256)           (* uint8(ts >> 28) *)
       ((ts / 2^23) mod 32) ((ts / 2^18) mod 32) ((ts / 2^12) mod 64)
       ((ts / 2^11) mod 2) ((ts / 2^6) mod 32) (ts mod 64).

(* the record loop: [remaining] counts down from NumberOfCdrsInFile; fuel is
   bounded by the data length because every iteration consumes >= 4 octets. *)
Fixpoint dec_cdrs (fuel : nat) (data : list Z) (remaining tail : Z)
  : outcome (list cdr) :=
  if remaining <=? 0 then Ok [] else
  match fuel with
  | O => OutOfFuel
  | S k =>
    do cl <- rd16 data tail;
    do b2 <- idx data (tail + 2);
    do b3 <- idx data (tail + 3);
    let rel := b2 / 32 in
    do e <- (if rel =? 7 then idx data (tail + 4) else Ok 0);
    let i := if rel =? 7 then 5 else 4 in
    do pl <- slice data (tail + i) (tail + i + cl);
    do rest <- dec_cdrs k data (remaining - 1) (tail + i + cl);
    Ok (mkCdr (mkChdr cl rel (b2 mod 32) (b3 / 32) (b3 mod 32) e) pl :: rest)
  end.

Definition dec_file (data : list Z) : outcome cfile :=
  do ts1 <- rd32 data 10;
  do ts2 <- rd32 data 14;
  do n <- rd32 data 18;
  do fl <- rd16 data 48;
  let xy := 50 + fl in
  do el <- rd16 data xy;
  let nn := xy + 2 + el in
  do ip <- slice data 27 47;
  do flen <- rd32 data 0;
  do hlen <- rd32 data 4;
  do b8 <- idx data 8;
  do b9 <- idx data 9;
  do fs <- rd32 data 22;
  do rs <- idx data 26;
  do lo <- idx data 47;
  do fil <- slice data 50 xy;
  do ex <- slice data (xy + 2) nn;
  let hr := b8 / 32 in
  let lr := b9 / 32 in
  do he <- (if hr =? 7 then idx data nn else Ok 0);
  let tail1 := if hr =? 7 then nn + 1 else nn in
  do le <- (if lr =? 7 then idx data tail1 else Ok 0);
  let tail2 := if lr =? 7 then tail1 + 1 else tail1 in
  do cs <- dec_cdrs (S (length data)) data n tail2;
  Ok (mkFile
        (mkFhdr flen hlen hr (b8 mod 32) lr (b9 mod 32) (dec_ts ts1) (dec_ts ts2)
                n fs rs ip lo fl fil el ex he le)
        cs).

(* ---- well-formedness (TS 32.297 widths; lengths consistent) ---- *)

Definition inb (lo hi x : Z) : bool := (lo <=? x) && (x <? hi).

Definition ts_wf (t : tstamp) : bool :=
  inb 0 16 (ts_month t) && inb 0 32 (ts_date t) && inb 0 32 (ts_hour t) &&
  inb 0 64 (ts_minute t) && inb 0 2 (ts_sign t) && inb 0 32 (ts_hdev t) &&
  inb 0 64 (ts_mdev t).

Definition fhdr_wf (h : fhdr) : bool :=
  inb 0 4294967296 (file_len h) && inb 0 4294967296 (hdr_len h) &&
  inb 0 8 (hi_rel h) && inb 0 32 (hi_ver h) &&
  inb 0 8 (lo_rel h) && inb 0 32 (lo_ver h) &&
  ts_wf (open_ts h) && ts_wf (last_ts h) &&
  inb 0 4294967296 (ncdrs h) && inb 0 4294967296 (fseq h) &&
  inb 0 256 (reason h) &&
  (Nat.eqb (length (ipaddr h)) 20) && bytes_ok (ipaddr h) &&
  inb 0 256 (lost h) &&
  inb 0 65536 (filter_len h) && (filter_len h =? zlen (filter h)) && bytes_ok (filter h) &&
  inb 0 65536 (ext_len h) && (ext_len h =? zlen (ext h)) && bytes_ok (ext h) &&
  (if hi_rel h =? 7 then inb 0 256 (hi_ext h) else hi_ext h =? 0) &&
  (if lo_rel h =? 7 then inb 0 256 (lo_ext h) else lo_ext h =? 0).

Definition chdr_wf (c : chdr) : bool :=
  inb 0 65536 (cdr_len c) && inb 0 8 (c_rel c) && inb 0 32 (c_ver c) &&
  inb 0 8 (c_fmt c) && inb 0 32 (c_tsnum c) &&
  (if c_rel c =? 7 then inb 0 256 (c_ext c) else c_ext c =? 0).

Definition cdr_wf (c : cdr) : bool :=
  chdr_wf (c_hdr c) && (cdr_len (c_hdr c) =? zlen (c_payload c)) &&
  bytes_ok (c_payload c).

Definition wf_file (f : cfile) : bool :=
  fhdr_wf (f_hdr f) && forallb cdr_wf (f_cdrs f) &&
  (ncdrs (f_hdr f) =? zlen (f_cdrs f)) &&
  (zlen (enc_file f) <? 4294967296).

(* The consistency the statement of C14/C03 also asks of a well-formed file:
   header-length and file-length fields equal the real sizes. *)
Definition lengths_consistent (f : cfile) : bool :=
  (hdr_len (f_hdr f) =? zlen (enc_fhdr (f_hdr f))) &&
  (file_len (f_hdr f) =? zlen (enc_file f)).
