(* C15 — CDR file bytes follow the TS 32.297 layout: an independent reader,
   written from clause 6.1 and sharing no offset arithmetic with the codec,
   recovers every field that was written. *)
From Coq Require Import List ZArith.
From Verif Require Import Common.Outcome Common.Bytes CdrFile.Model CdrFile.Spec CdrFile.Proofs.
Import ListNotations.
Open Scope Z_scope.

Theorem C15_layout : forall f : cfile, wf_file f = true -> spec_read (enc_file f) = Some f.
Proof. exact spec_read_enc. Qed.
Print Assumptions C15_layout.

(* header and record sizes are the ones clause 6.1 prescribes *)
Theorem C15_header_size : forall h : fhdr,
  length (ipaddr h) = 20%nat -> filter_len h = zlen (filter h) -> ext_len h = zlen (ext h) ->
  zlen (enc_fhdr h) = spec_hdr_size h.
Proof. exact enc_fhdr_size. Qed.
Print Assumptions C15_header_size.

Theorem C15_record_size : forall c : cdr,
  cdr_len (c_hdr c) = zlen (c_payload c) -> zlen (enc_cdr c) = spec_cdr_size c.
Proof. exact enc_cdr_size. Qed.
Print Assumptions C15_record_size.
