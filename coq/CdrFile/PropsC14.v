(* C14 — CDR file codec round-trips every well-formed file structure. *)
From Coq Require Import List ZArith.
From Verif Require Import Common.Outcome Common.Bytes CdrFile.Model CdrFile.Proofs.
Import ListNotations.
Open Scope Z_scope.

(* For every well-formed CDR file structure (all header fields within their
   TS 32.297 bit widths, length and count fields consistent with the content,
   any number of records with any payload bytes, any of the 64 release
   identifier pairs, extension octets present exactly for identifier 7),
   Decoding (Encoding f) = f. *)
Theorem C14_roundtrip : forall f : cfile, wf_file f = true -> dec_file (enc_file f) = Ok f.
Proof. exact dec_enc_file. Qed.
Print Assumptions C14_roundtrip.

(* Consequence: the encoding is injective on well-formed structures -- two
   different file structures never produce the same octets, so a file on disk
   identifies the structure it was written from. *)
Theorem C14_injective : forall f g : cfile,
  wf_file f = true -> wf_file g = true -> enc_file f = enc_file g -> f = g.
Proof.
  intros f g Hf Hg E. pose proof (C14_roundtrip f Hf) as A.
  rewrite E, (C14_roundtrip g Hg) in A. congruence.
Qed.
Print Assumptions C14_injective.

(* non-vacuity: only the low extension present, 2 records (one with the record
   extension), empty payload, a filter and a private extension *)
Definition ex_ts := mkTs 12 31 23 59 1 14 45.
Definition ex_file : cfile :=
  mkFile (mkFhdr 71 58 3 31 7 0 ex_ts ex_ts 2 4294967295 131
            [1;2;3;4;5;6;7;8;9;10;11;12;13;14;15;16;17;18;19;20] 255
            3 [9;8;7] 2 [255;0] 0 200)
         [mkCdr (mkChdr 0 7 31 1 19 66) []; mkCdr (mkChdr 4 0 0 7 31 0) [1;2;3;255]].
Example C14_nonvacuous : wf_file ex_file = true /\ lengths_consistent ex_file = true.
Proof. vm_compute. split; reflexivity. Qed.

(* a maximal private extension (65535 octets) and an empty file *)
Example C14_nonvacuous_big :
  wf_file (mkFile (mkFhdr 0 0 7 1 7 2 ex_ts ex_ts 0 0 0 (repeat 0 20) 0
                     0 [] 65535 (rep_patZ [171] 65535) 1 2) []) = true.
Proof. vm_compute. reflexivity. Qed.
