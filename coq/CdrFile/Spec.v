(* An independent reader for TS 32.297 clause 6.1 CDR files, written from the
   specification as a sequence of "take the next field" steps.  It keeps no
   offsets, so it cannot share an offset mistake with the encoder/decoder of
   cdrFile.go (it shares only the record types of Model.v). *)
From Coq Require Import List ZArith Bool.
From Verif Require Import Common.Bytes CdrFile.Model.
Import ListNotations.
Open Scope Z_scope.

Definition parser (A : Type) := list Z -> option (A * list Z).

Definition ret {A} (a : A) : parser A := fun s => Some (a, s).
Definition pbind {A B} (p : parser A) (f : A -> parser B) : parser B :=
  fun s => match p s with Some (a, s') => f a s' | None => None end.
Notation "'let*' x := p 'in' k" := (pbind p (fun x => k))
  (at level 200, x pattern, p at level 100, k at level 200, right associativity).

Definition take (n : nat) : parser (list Z) :=
  fun s => if Nat.leb n (length s) then Some (firstn n s, skipn n s) else None.

(* big-endian unsigned integer of [n] octets *)
Fixpoint be_val (l : list Z) (acc : Z) : Z :=
  match l with [] => acc | b :: r => be_val r (acc * 256 + b) end.
Definition uN (n : nat) : parser Z :=
  let* bs := take n in ret (be_val bs 0).
Definition u8 := uN 1.
Definition u16 := uN 2.
Definition u32 := uN 4.

(* bits [lo, lo+w) of a field, bit 0 = least significant *)
Definition bits (v lo w : Z) : Z := (v / 2 ^ lo) mod 2 ^ w.

(* 6.1.1.6/6.1.1.7: 4-octet time stamp: month(4) date(5) hour(5) minute(6)
   sign(1) hour deviation(5) minute deviation(6), most significant first *)
Definition spec_ts (v : Z) : tstamp :=
  mkTs (bits v 28 4) (bits v 23 5) (bits v 18 5) (bits v 12 6)
       (bits v 11 1) (bits v 6 5) (bits v 0 6).

Definition opt_ext (rel : Z) : parser Z :=
  if rel =? 7 then u8 else ret 0.

(* 6.1.2 CDR header: length(2) release/version(1) format/TS(1) [ext(1)] *)
Definition spec_cdr : parser cdr :=
  let* len := u16 in
  let* o3 := u8 in
  let* o4 := u8 in
  let rel := bits o3 5 3 in
  let* e := opt_ext rel in
  let* pl := take (Z.to_nat len) in
  ret (mkCdr (mkChdr len rel (bits o3 0 5) (bits o4 5 3) (bits o4 0 5) e) pl).

Fixpoint spec_cdrs (fuel : nat) (remaining : Z) : parser (list cdr) :=
  if remaining <=? 0 then ret [] else
  match fuel with
  | O => fun _ => None
  | S k => let* c := spec_cdr in
           let* r := spec_cdrs k (remaining - 1) in ret (c :: r)
  end.

(* 6.1.1 file header, in field order *)
Definition spec_file : parser cfile :=
  let* flen := u32 in
  let* hlen := u32 in
  let* o9 := u8 in
  let* o10 := u8 in
  let* t1 := u32 in
  let* t2 := u32 in
  let* n := u32 in
  let* fs := u32 in
  let* rs := u8 in
  let* ip := take 20 in
  let* lo := u8 in
  let* fl := u16 in
  let* fil := take (Z.to_nat fl) in
  let* el := u16 in
  let* ex := take (Z.to_nat el) in
  let hr := bits o9 5 3 in
  let lr := bits o10 5 3 in
  let* he := opt_ext hr in
  let* le := opt_ext lr in
  fun s =>
    (let* cs := spec_cdrs (S (length s)) n in
     ret (mkFile (mkFhdr flen hlen hr (bits o9 0 5) lr (bits o10 0 5)
                         (spec_ts t1) (spec_ts t2) n fs rs ip lo fl fil el ex he le)
                 cs)) s.

(* the whole input must be consumed *)
Definition spec_read (bs : list Z) : option cfile :=
  match spec_file bs with
  | Some (f, []) => Some f
  | _ => None
  end.

(* Size of the header as laid out by 6.1.1 (used by the C03 monitor) *)
Definition spec_hdr_size (h : fhdr) : Z :=
  50 + filter_len h + 2 + ext_len h +
  (if hi_rel h =? 7 then 1 else 0) + (if lo_rel h =? 7 then 1 else 0).
Definition spec_cdr_size (c : cdr) : Z :=
  (if c_rel (c_hdr c) =? 7 then 5 else 4) + cdr_len (c_hdr c).
