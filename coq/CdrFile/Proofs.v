(* Proofs about the CDR file codec model: round trip (C14) and agreement of
   the independent TS 32.297 reader with the encoder (C15). *)
From Coq Require Import List ZArith Lia Bool ZifyBool.
From Verif Require Import Common.Outcome Common.Bytes Common.BytesLemmas
  CdrFile.Model CdrFile.Spec.
Import ListNotations.
Open Scope Z_scope.

Ltac Zify.zify_post_hook ::= Z.div_mod_to_equations.

Lemma inb_spec lo hi x : inb lo hi x = true <-> lo <= x < hi.
Proof. unfold inb. lia. Qed.

Ltac split_andb :=
  repeat match goal with
  | H : _ && _ = true |- _ => apply andb_true_iff in H; destruct H
  end.

Ltac inb_to_Z :=
  repeat match goal with
  | H : inb _ _ _ = true |- _ => apply inb_spec in H
  end.

(* ---- octets holding release(3)/version(5) ---- *)

Lemma relver_enc r v : 0 <= r < 8 -> 0 <= v < 32 -> Z.lor (shl8 r 5) v = r * 32 + v.
Proof.
  intros Hr Hv. unfold shl8. change (2 ^ 5) with 32.
  rewrite Z.mod_small by lia.
  change 32 with (2 ^ 5). apply lor_shift_add; [lia|]. change (2 ^ 5) with 32. lia.
Qed.

(* ---- time stamps ---- *)

Definition ts_sum (t : tstamp) : Z :=
  ts_month t * 268435456 + ts_date t * 8388608 + ts_hour t * 262144 +
  ts_minute t * 4096 + ts_sign t * 2048 + ts_hdev t * 64 + ts_mdev t.

Lemma lor_add a b k : 0 <= k -> 0 <= a -> a mod 2 ^ k = 0 -> 0 <= b < 2 ^ k ->
  Z.lor a b = a + b.
Proof.
  intros Hk Ha Hm Hb.
  assert (E : a = (a / 2 ^ k) * 2 ^ k).
  { pose proof (Z.div_mod a (2 ^ k)). assert (2 ^ k > 0) by lia. lia. }
  rewrite E at 1. rewrite lor_shift_add by assumption. lia.
Qed.

Lemma enc_ts_sum t : ts_wf t = true -> enc_ts t = ts_sum t.
Proof.
  destruct t as [m d h mi s hd md]. unfold ts_wf, enc_ts, ts_sum, shl32.
  cbn [ts_month ts_date ts_hour ts_minute ts_sign ts_hdev ts_mdev].
  intros H. split_andb. inb_to_Z.
  change (2 ^ 28) with 268435456. change (2 ^ 23) with 8388608.
  change (2 ^ 18) with 262144. change (2 ^ 12) with 4096.
  change (2 ^ 11) with 2048. change (2 ^ 6) with 64.
  rewrite !Z.mod_small by lia.
  rewrite (lor_add (m * 268435456) (d * 8388608) 28); [| lia | lia | change (2^28) with 268435456; lia | change (2^28) with 268435456; lia].
  rewrite (lor_add _ (h * 262144) 23); [| lia | lia | change (2^23) with 8388608; lia | change (2^23) with 8388608; lia].
  rewrite (lor_add _ (mi * 4096) 18); [| lia | lia | change (2^18) with 262144; lia | change (2^18) with 262144; lia].
  rewrite (lor_add _ (s * 2048) 12); [| lia | lia | change (2^12) with 4096; lia | change (2^12) with 4096; lia].
  rewrite (lor_add _ (hd * 64) 11); [| lia | lia | change (2^11) with 2048; lia | change (2^11) with 2048; lia].
  rewrite (lor_add _ md 6); [| lia | lia | change (2^6) with 64; lia | change (2^6) with 64; lia].
  reflexivity.
Qed.

Lemma ts_sum_range t : ts_wf t = true -> 0 <= ts_sum t < 4294967296.
Proof.
  destruct t as [m d h mi s hd md]. unfold ts_wf, ts_sum.
  cbn [ts_month ts_date ts_hour ts_minute ts_sign ts_hdev ts_mdev].
  intros H. split_andb. inb_to_Z. lia.
Qed.

Lemma dec_ts_sum t : ts_wf t = true -> dec_ts (ts_sum t) = t.
Proof.
  destruct t as [m d h mi s hd md]. unfold ts_wf, ts_sum, dec_ts.
  cbn [ts_month ts_date ts_hour ts_minute ts_sign ts_hdev ts_mdev].
  intros H. split_andb. inb_to_Z.
  change (2 ^ 28) with 268435456. change (2 ^ 23) with 8388608.
  change (2 ^ 18) with 262144. change (2 ^ 12) with 4096.
  change (2 ^ 11) with 2048. change (2 ^ 6) with 64.
  f_equal; lia.
Qed.

Lemma spec_ts_sum t : ts_wf t = true -> spec_ts (ts_sum t) = t.
Proof.
  destruct t as [m d h mi s hd md]. unfold ts_wf, ts_sum, spec_ts, bits.
  cbn [ts_month ts_date ts_hour ts_minute ts_sign ts_hdev ts_mdev].
  intros H. split_andb. inb_to_Z.
  change (2 ^ 28) with 268435456. change (2 ^ 23) with 8388608.
  change (2 ^ 18) with 262144. change (2 ^ 12) with 4096.
  change (2 ^ 11) with 2048. change (2 ^ 6) with 64. change (2 ^ 0) with 1.
  change (2 ^ 4) with 16. change (2 ^ 5) with 32. change (2 ^ 1) with 2.
  f_equal; lia.
Qed.

(* ================= C15: the independent reader ================= *)

Lemma pbind_some {A B} (p : parser A) (f : A -> parser B) s a s' :
  p s = Some (a, s') -> pbind p f s = f a s'.
Proof. unfold pbind. intros ->. reflexivity. Qed.

Lemma take_app n (a b : list Z) : n = length a -> take n (a ++ b) = Some (a, b).
Proof.
  intros ->. unfold take. rewrite app_length.
  replace (Nat.leb (length a) (length a + length b)) with true
    by (symmetry; apply Nat.leb_le; lia).
  rewrite firstn_app_len, skipn_app_len; reflexivity.
Qed.

Lemma u32_app v rest : 0 <= v < 4294967296 -> u32 (be32 v ++ rest) = Some (v, rest).
Proof.
  intros H. unfold u32, uN. erewrite pbind_some by (apply take_app; reflexivity).
  unfold ret, be32, be_val. f_equal. f_equal. lia.
Qed.

Lemma u16_app v rest : 0 <= v < 65536 -> u16 (be16 v ++ rest) = Some (v, rest).
Proof.
  intros H. unfold u16, uN. erewrite pbind_some by (apply take_app; reflexivity).
  unfold ret, be16, be_val. f_equal. f_equal. lia.
Qed.

Lemma u8_app v rest : u8 ([v] ++ rest) = Some (v, rest).
Proof.
  unfold u8, uN. erewrite pbind_some by (apply take_app; reflexivity).
  unfold ret, be_val. cbn [Z.mul Z.add]. reflexivity.
Qed.

Lemma bits_rel r v : 0 <= r < 8 -> 0 <= v < 32 ->
  bits (r * 32 + v) 5 3 = r /\ bits (r * 32 + v) 0 5 = v.
Proof.
  intros Hr Hv. unfold bits. change (2 ^ 5) with 32. change (2 ^ 3) with 8.
  change (2 ^ 0) with 1. lia.
Qed.

Lemma opt_ext_app rel e rest :
  (if rel =? 7 then inb 0 256 e else e =? 0) = true ->
  opt_ext rel ((if rel =? 7 then [e] else []) ++ rest) = Some (e, rest).
Proof.
  unfold opt_ext. destruct (rel =? 7); intros H.
  - apply u8_app.
  - unfold ret. cbn [app]. f_equal. f_equal. lia.
Qed.

Lemma spec_cdr_enc c rest :
  cdr_wf c = true -> spec_cdr (enc_cdr c ++ rest) = Some (c, rest).
Proof.
  destruct c as [[len rel ver fm tsn e] pl]. unfold cdr_wf, chdr_wf, enc_cdr, enc_chdr.
  cbn [c_hdr c_payload cdr_len c_rel c_ver c_fmt c_tsnum c_ext].
  intros H. split_andb.
  match goal with H : (if rel =? 7 then _ else _) = true |- _ => rename H into Hext end.
  inb_to_Z.
  rewrite !relver_enc by lia.
  rewrite <- !app_assoc. unfold spec_cdr.
  erewrite pbind_some by (apply u16_app; lia).
  erewrite pbind_some by (apply u8_app).
  erewrite pbind_some by (apply u8_app).
  destruct (bits_rel rel ver) as [E1 E2]; [lia|lia|].
  destruct (bits_rel fm tsn) as [E3 E4]; [lia|lia|].
  cbv zeta. rewrite E1, E2, E3, E4.
  erewrite pbind_some by (apply opt_ext_app; exact Hext).
  erewrite pbind_some by (apply take_app; unfold zlen in *; lia).
  reflexivity.
Qed.

Lemma spec_cdrs_enc cs : forall fuel rest,
  forallb cdr_wf cs = true -> (length cs <= fuel)%nat ->
  spec_cdrs fuel (zlen cs) (concat (map enc_cdr cs) ++ rest) = Some (cs, rest).
Proof.
  induction cs as [|c cs IH]; intros fuel rest Hwf Hf.
  - destruct fuel; reflexivity.
  - cbn [forallb] in Hwf. apply andb_true_iff in Hwf. destruct Hwf as [Hc Hcs].
    destruct fuel as [|k]; [cbn [length] in Hf; lia|].
    cbn [spec_cdrs]. rewrite zlen_cons.
    replace (1 + zlen cs <=? 0) with false by (pose proof (zlen_nonneg cs); lia).
    cbn [map concat]. rewrite <- app_assoc.
    erewrite pbind_some by (apply spec_cdr_enc; exact Hc).
    replace (1 + zlen cs - 1) with (zlen cs) by lia.
    erewrite pbind_some by (apply IH; [exact Hcs | cbn [length] in Hf; lia]).
    reflexivity.
Qed.

Lemma enc_cdr_len_ge c : (4 <= length (enc_cdr c))%nat.
Proof.
  unfold enc_cdr, enc_chdr, be16. destruct (c_rel (c_hdr c) =? 7);
    cbn [app length]; rewrite ?app_length; cbn [length]; lia.
Qed.

Lemma concat_enc_len cs : (length cs <= length (concat (map enc_cdr cs)))%nat.
Proof.
  induction cs as [|c cs IH]; cbn [map concat length]; [lia|].
  rewrite app_length. pose proof (enc_cdr_len_ge c). lia.
Qed.

Theorem spec_read_enc f : wf_file f = true -> spec_read (enc_file f) = Some f.
Proof.
  destruct f as [h cs].
  destruct h as [fl hl hr hv lr lv ot lt n fs rs ip lo flen fil elen ex he le].
  unfold wf_file, fhdr_wf, enc_file, enc_fhdr.
  cbn [f_hdr f_cdrs file_len hdr_len hi_rel hi_ver lo_rel lo_ver open_ts last_ts ncdrs
       fseq reason ipaddr lost filter_len filter ext_len ext hi_ext lo_ext].
  intros H. split_andb.
  match goal with H : (if hr =? 7 then _ else _) = true |- _ => rename H into Hhe end.
  match goal with H : (if lr =? 7 then _ else _) = true |- _ => rename H into Hle end.
  match goal with H : ts_wf ot = true |- _ => rename H into Hot end.
  match goal with H : ts_wf lt = true |- _ => rename H into Hlt end.
  match goal with H : Nat.eqb (length ip) 20 = true |- _ => apply Nat.eqb_eq in H; rename H into Hip end.
  match goal with H : forallb cdr_wf cs = true |- _ => rename H into Hcs end.
  inb_to_Z.
  rewrite !relver_enc by lia. rewrite !enc_ts_sum by assumption.
  pose proof (ts_sum_range ot Hot). pose proof (ts_sum_range lt Hlt).
  rewrite <- !app_assoc.
  unfold spec_read, spec_file.
  erewrite pbind_some by (apply u32_app; lia).
  erewrite pbind_some by (apply u32_app; lia).
  erewrite pbind_some by (apply u8_app).
  erewrite pbind_some by (apply u8_app).
  erewrite pbind_some by (apply u32_app; lia).
  erewrite pbind_some by (apply u32_app; lia).
  erewrite pbind_some by (apply u32_app; lia).
  erewrite pbind_some by (apply u32_app; lia).
  erewrite pbind_some by (apply u8_app).
  erewrite pbind_some by (apply take_app; lia).
  erewrite pbind_some by (apply u8_app).
  erewrite pbind_some by (apply u16_app; lia).
  erewrite pbind_some by (apply take_app; unfold zlen in *; lia).
  erewrite pbind_some by (apply u16_app; lia).
  erewrite pbind_some by (apply take_app; unfold zlen in *; lia).
  destruct (bits_rel hr hv) as [E1 E2]; [lia|lia|].
  destruct (bits_rel lr lv) as [E3 E4]; [lia|lia|].
  cbv zeta. rewrite E1, E2, E3, E4.
  erewrite pbind_some by (apply opt_ext_app; exact Hhe).
  erewrite pbind_some by (apply opt_ext_app; exact Hle).
  rewrite <- (app_nil_r (concat (map enc_cdr cs))).
  replace n with (zlen cs) by lia.
  erewrite pbind_some.
  2:{ apply spec_cdrs_enc; [exact Hcs|]. rewrite app_nil_r.
      pose proof (concat_enc_len cs). lia. }
  unfold ret. rewrite !spec_ts_sum by assumption.
  replace (zlen cs) with n by lia. reflexivity.
Qed.

(* ================= C14: Decoding (Encoding f) = f ================= *)

Lemma relver_dec r v : 0 <= r < 8 -> 0 <= v < 32 ->
  (r * 32 + v) / 32 = r /\ (r * 32 + v) mod 32 = v.
Proof. lia. Qed.

Lemma rd16_be16 v rest : 0 <= v < 65536 -> rd16 (be16 v ++ rest) 0 = Ok v.
Proof.
  intros H. unfold rd16. rewrite (slice0_app (be16 v) rest) by reflexivity.
  cbn [bind]. rewrite ufold_be16 by lia. reflexivity.
Qed.

Lemma dec_cdrs_enc cs : forall fuel pre post,
  forallb cdr_wf cs = true -> (length cs <= fuel)%nat ->
  dec_cdrs fuel (pre ++ concat (map enc_cdr cs) ++ post) (zlen cs) (zlen pre) = Ok cs.
Proof.
  induction cs as [|c cs IH]; intros fuel pre post Hwf Hf.
  - destruct fuel; reflexivity.
  - cbn [forallb] in Hwf. apply andb_true_iff in Hwf. destruct Hwf as [Hc Hcs].
    destruct fuel as [|k]; [cbn [length] in Hf; lia|].
    cbn [dec_cdrs]. rewrite zlen_cons.
    replace (1 + zlen cs <=? 0) with false by (pose proof (zlen_nonneg cs); lia).
    replace (1 + zlen cs - 1) with (zlen cs) by lia.
    cbn [map concat]. rewrite <- app_assoc.
    destruct c as [[len rel ver fm tsn e] pl].
    unfold cdr_wf, chdr_wf in Hc.
    cbn [c_hdr c_payload cdr_len c_rel c_ver c_fmt c_tsnum c_ext] in Hc.
    split_andb.
    match goal with H : (if rel =? 7 then _ else _) = true |- _ => rename H into Hext end.
    inb_to_Z.
    destruct (relver_dec rel ver) as [E1 E2]; [lia|lia|].
    destruct (relver_dec fm tsn) as [E3 E4]; [lia|lia|].
    set (R := concat (map enc_cdr cs) ++ post).
    (* the recursive call, stated for the re-associated data *)
    assert (IH' : forall hdr, dec_cdrs k ((pre ++ hdr ++ pl) ++ R) (zlen cs) (zlen (pre ++ hdr ++ pl)) = Ok cs).
    { intros hdr. apply IH; [exact Hcs | cbn [length] in Hf; lia]. }
    unfold enc_cdr, enc_chdr.
    cbn [c_hdr c_payload cdr_len c_rel c_ver c_fmt c_tsnum c_ext].
    rewrite !relver_enc by lia.
    replace (zlen pre) with (zlen pre + 0) at 1 by lia.
    rewrite rd16_shift by lia. rewrite <- ?app_assoc.
    rewrite rd16_be16 by lia. cbn [bind].
    rewrite !idx_shift by lia.
    change (idx (be16 len ++ [rel * 32 + ver] ++ [fm * 32 + tsn] ++
                 (if rel =? 7 then [e] else []) ++ pl ++ R) 2) with (Ok (rel * 32 + ver)).
    cbn [bind].
    change (idx (be16 len ++ [rel * 32 + ver] ++ [fm * 32 + tsn] ++
                 (if rel =? 7 then [e] else []) ++ pl ++ R) 3) with (Ok (fm * 32 + tsn)).
    cbn [bind]. rewrite E1, E2, E3, E4.
    destruct (rel =? 7) eqn:Erel.
    + change (idx (be16 len ++ [rel * 32 + ver] ++ [fm * 32 + tsn] ++ [e] ++ pl ++ R) 4) with (Ok e).
      cbn [bind].
      specialize (IH' (be16 len ++ [rel * 32 + ver] ++ [fm * 32 + tsn] ++ [e])).
      rewrite <- ?app_assoc in IH'.
      replace (zlen pre + 5 + len) with
        (zlen (pre ++ be16 len ++ [rel * 32 + ver] ++ [fm * 32 + tsn] ++ [e] ++ pl))
        by (rewrite !zlen_app; unfold be16; rewrite !zlen_cons, zlen_nil; unfold zlen in *; lia).
      rewrite <- ?app_assoc.
      replace (zlen pre + 5) with (zlen (pre ++ be16 len ++ [rel * 32 + ver] ++ [fm * 32 + tsn] ++ [e]) + 0)
        by (rewrite !zlen_app; unfold be16; rewrite !zlen_cons, zlen_nil; unfold zlen in *; lia).
      replace (zlen (pre ++ be16 len ++ [rel * 32 + ver] ++ [fm * 32 + tsn] ++ [e] ++ pl))
        with (zlen (pre ++ be16 len ++ [rel * 32 + ver] ++ [fm * 32 + tsn] ++ [e]) + len).
      2:{ rewrite !zlen_app. unfold zlen in *; lia. }
      replace (pre ++ be16 len ++ [rel * 32 + ver] ++ [fm * 32 + tsn] ++ [e] ++ pl ++ R)
        with ((pre ++ be16 len ++ [rel * 32 + ver] ++ [fm * 32 + tsn] ++ [e]) ++ pl ++ R)
        by (rewrite <- ?app_assoc; reflexivity).
      rewrite slice_shift by lia.
      rewrite (slice0_app pl R) by (unfold zlen in *; lia).
      cbn [bind].
      replace (zlen (pre ++ be16 len ++ [rel * 32 + ver] ++ [fm * 32 + tsn] ++ [e]) + len)
        with (zlen (pre ++ be16 len ++ [rel * 32 + ver] ++ [fm * 32 + tsn] ++ [e] ++ pl)).
      2:{ rewrite !zlen_app. unfold zlen in *; lia. }
      rewrite <- ?app_assoc. rewrite IH'. cbn [bind].
      repeat f_equal; lia.
    + cbn [bind]. change ([] ++ pl ++ R) with (pl ++ R).
      specialize (IH' (be16 len ++ [rel * 32 + ver] ++ [fm * 32 + tsn])).
      rewrite <- ?app_assoc in IH'.
      replace (zlen pre + 4 + len) with
        (zlen (pre ++ be16 len ++ [rel * 32 + ver] ++ [fm * 32 + tsn] ++ pl))
        by (rewrite !zlen_app; unfold be16; rewrite !zlen_cons, zlen_nil; unfold zlen in *; lia).
      replace (zlen pre + 4) with (zlen (pre ++ be16 len ++ [rel * 32 + ver] ++ [fm * 32 + tsn]) + 0)
        by (rewrite !zlen_app; unfold be16; rewrite !zlen_cons, zlen_nil; unfold zlen in *; lia).
      replace (zlen (pre ++ be16 len ++ [rel * 32 + ver] ++ [fm * 32 + tsn] ++ pl))
        with (zlen (pre ++ be16 len ++ [rel * 32 + ver] ++ [fm * 32 + tsn]) + len).
      2:{ rewrite !zlen_app. unfold zlen in *; lia. }
      replace (pre ++ be16 len ++ [rel * 32 + ver] ++ [fm * 32 + tsn] ++ pl ++ R)
        with ((pre ++ be16 len ++ [rel * 32 + ver] ++ [fm * 32 + tsn]) ++ pl ++ R)
        by (rewrite <- ?app_assoc; reflexivity).
      rewrite slice_shift by lia.
      rewrite (slice0_app pl R) by (unfold zlen in *; lia).
      cbn [bind].
      replace (zlen (pre ++ be16 len ++ [rel * 32 + ver] ++ [fm * 32 + tsn]) + len)
        with (zlen (pre ++ be16 len ++ [rel * 32 + ver] ++ [fm * 32 + tsn] ++ pl)).
      2:{ rewrite !zlen_app. unfold zlen in *; lia. }
      rewrite <- ?app_assoc. rewrite IH'. cbn [bind].
      repeat f_equal; lia.
Qed.

Lemma slice_prefix pre rest lo hi :
  0 <= lo <= hi -> hi <= zlen pre -> slice (pre ++ rest) lo hi = slice pre lo hi.
Proof.
  intros H1 H2. rewrite !slice_ok; try lia.
  - f_equal. rewrite skipn_app, firstn_app.
    replace (Z.to_nat (hi - lo) - length (skipn (Z.to_nat lo) pre))%nat with 0%nat.
    + rewrite firstn_O, app_nil_r. reflexivity.
    + rewrite skipn_length. unfold zlen in *. lia.
  - rewrite zlen_app. pose proof (zlen_nonneg rest). lia.
Qed.

Lemma idx_prefix pre rest i :
  0 <= i < zlen pre -> idx (pre ++ rest) i = idx pre i.
Proof.
  intros H. unfold idx. replace (i <? 0) with false by lia.
  rewrite nth_error_app1 by (unfold zlen in *; lia). reflexivity.
Qed.

Lemma rd32_fixed pre rest off v :
  0 <= off -> off + 4 <= zlen pre -> slice pre off (off + 4) = Ok (be32 v) ->
  0 <= v < 4294967296 -> rd32 (pre ++ rest) off = Ok v.
Proof.
  intros H1 H2 H3 H4. unfold rd32. rewrite slice_prefix by lia. rewrite H3.
  cbn [bind]. rewrite ufold_be32 by lia. reflexivity.
Qed.

Lemma rd16_fixed pre rest off v :
  0 <= off -> off + 2 <= zlen pre -> slice pre off (off + 2) = Ok (be16 v) ->
  0 <= v < 65536 -> rd16 (pre ++ rest) off = Ok v.
Proof.
  intros H1 H2 H3 H4. unfold rd16. rewrite slice_prefix by lia. rewrite H3.
  cbn [bind]. rewrite ufold_be16 by lia. reflexivity.
Qed.

Lemma idx_fixed pre rest i x :
  0 <= i < zlen pre -> idx pre i = Ok x -> idx (pre ++ rest) i = Ok x.
Proof. intros H1 H2. rewrite idx_prefix by lia. exact H2. Qed.

Lemma slice_fixed pre rest lo hi r :
  0 <= lo <= hi -> hi <= zlen pre -> slice pre lo hi = Ok r ->
  slice (pre ++ rest) lo hi = Ok r.
Proof. intros H1 H2 H3. rewrite slice_prefix by lia. exact H3. Qed.

Theorem dec_enc_file f : wf_file f = true -> dec_file (enc_file f) = Ok f.
Proof.
  destruct f as [h cs].
  destruct h as [fl hl hr hv lr lv ot lt n fs rs ip lo flen fil elen ex he le].
  unfold wf_file, fhdr_wf, enc_file, enc_fhdr.
  cbn [f_hdr f_cdrs file_len hdr_len hi_rel hi_ver lo_rel lo_ver open_ts last_ts ncdrs
       fseq reason ipaddr lost filter_len filter ext_len ext hi_ext lo_ext].
  intros H. split_andb.
  match goal with H : (if hr =? 7 then _ else _) = true |- _ => rename H into Hhe end.
  match goal with H : (if lr =? 7 then _ else _) = true |- _ => rename H into Hle end.
  match goal with H : ts_wf ot = true |- _ => rename H into Hot end.
  match goal with H : ts_wf lt = true |- _ => rename H into Hlt end.
  match goal with H : Nat.eqb (length ip) 20 = true |- _ => apply Nat.eqb_eq in H; rename H into Hip end.
  match goal with H : forallb cdr_wf cs = true |- _ => rename H into Hcs end.
  match goal with H : (zlen _ <? 4294967296) = true |- _ => clear H end.
  inb_to_Z.
  rewrite !relver_enc by lia. rewrite !enc_ts_sum by assumption.
  pose proof (ts_sum_range ot Hot) as Rot. pose proof (ts_sum_range lt Hlt) as Rlt.
  do 20 (destruct ip as [|? ip]; [discriminate Hip|]).
  destruct ip; [clear Hip|discriminate Hip].
  rewrite <- !app_assoc.
  set (E := (if hr =? 7 then [he] else []) ++ (if lr =? 7 then [le] else [])).
  set (body := concat (map enc_cdr cs)).
  set (FIX := be32 fl ++ be32 hl ++ [hr * 32 + hv] ++ [lr * 32 + lv] ++ be32 (ts_sum ot) ++
              be32 (ts_sum lt) ++ be32 n ++ be32 fs ++ [rs] ++
              [z; z0; z1; z2; z3; z4; z5; z6; z7; z8; z9; z10; z11; z12; z13; z14; z15; z16; z17; z18] ++
              [lo] ++ be16 flen).
  set (T := fil ++ be16 elen ++ ex ++ E ++ body).
  match goal with |- dec_file ?d = _ =>
    replace d with (FIX ++ T)
      by (unfold FIX, T, E; rewrite <- !app_assoc; reflexivity) end.
  assert (LF : zlen FIX = 50) by reflexivity.
  unfold dec_file.
  rewrite (rd32_fixed FIX T 10 (ts_sum ot)); [ | lia | rewrite LF; lia | reflexivity | lia].
  cbn [bind].
  rewrite (rd32_fixed FIX T 14 (ts_sum lt)); [ | lia | rewrite LF; lia | reflexivity | lia].
  cbn [bind].
  rewrite (rd32_fixed FIX T 18 n); [ | lia | rewrite LF; lia | reflexivity | lia].
  cbn [bind].
  rewrite (rd16_fixed FIX T 48 flen); [ | lia | rewrite LF; lia | reflexivity | lia].
  cbn [bind].
  (* private extension length, at 50 + flen *)
  replace (50 + flen) with (zlen FIX + flen) by lia.
  replace (rd16 (FIX ++ T) (zlen FIX + flen)) with (Ok elen).
  2:{ rewrite rd16_shift by lia. unfold T.
      replace flen with (zlen fil + 0) by lia. rewrite rd16_shift by lia.
      rewrite rd16_be16 by lia. reflexivity. }
  cbn [bind].
  rewrite (slice_fixed FIX T 27 47
     [z; z0; z1; z2; z3; z4; z5; z6; z7; z8; z9; z10; z11; z12; z13; z14; z15; z16; z17; z18]);
    [ | lia | rewrite LF; lia | reflexivity].
  cbn [bind].
  rewrite (rd32_fixed FIX T 0 fl); [ | lia | rewrite LF; lia | reflexivity | lia].
  cbn [bind].
  rewrite (rd32_fixed FIX T 4 hl); [ | lia | rewrite LF; lia | reflexivity | lia].
  cbn [bind].
  rewrite (idx_fixed FIX T 8 (hr * 32 + hv)); [ | rewrite LF; lia | reflexivity].
  cbn [bind].
  rewrite (idx_fixed FIX T 9 (lr * 32 + lv)); [ | rewrite LF; lia | reflexivity].
  cbn [bind].
  rewrite (rd32_fixed FIX T 22 fs); [ | lia | rewrite LF; lia | reflexivity | lia].
  cbn [bind].
  rewrite (idx_fixed FIX T 26 rs); [ | rewrite LF; lia | reflexivity].
  cbn [bind].
  rewrite (idx_fixed FIX T 47 lo); [ | rewrite LF; lia | reflexivity].
  cbn [bind].
  (* routeing filter *)
  replace (slice (FIX ++ T) 50 (zlen FIX + flen)) with (Ok fil).
  2:{ replace 50 with (zlen FIX + 0) by lia. rewrite slice_shift by lia.
      unfold T. rewrite slice0_app by lia. reflexivity. }
  cbn [bind].
  (* private extension *)
  replace (slice (FIX ++ T) (zlen FIX + flen + 2) (zlen FIX + flen + 2 + elen)) with (Ok ex).
  2:{ replace (zlen FIX + flen + 2) with (zlen FIX + (flen + 2)) by lia.
      replace (zlen FIX + (flen + 2) + elen) with (zlen FIX + (flen + 2 + elen)) by lia.
      rewrite slice_shift by lia. unfold T.
      replace (fil ++ be16 elen ++ ex ++ E ++ body) with ((fil ++ be16 elen) ++ ex ++ E ++ body)
        by (rewrite <- app_assoc; reflexivity).
      replace (flen + 2) with (zlen (fil ++ be16 elen) + 0)
        by (rewrite zlen_app; unfold be16; rewrite !zlen_cons, zlen_nil; lia).
      replace (zlen (fil ++ be16 elen) + 0 + elen) with (zlen (fil ++ be16 elen) + elen) by lia.
      rewrite slice_shift by lia. rewrite slice0_app by lia. reflexivity. }
  cbn [bind].
  destruct (relver_dec hr hv) as [E1 E2]; [lia|lia|].
  destruct (relver_dec lr lv) as [E3 E4]; [lia|lia|].
  rewrite E1, E2, E3, E4.
  (* everything up to the records is a prefix P with E at its end *)
  set (P0 := FIX ++ fil ++ be16 elen ++ ex).
  assert (LP0 : zlen P0 = zlen FIX + flen + 2 + elen).
  { unfold P0. rewrite !zlen_app. unfold be16. rewrite !zlen_cons, zlen_nil. lia. }
  assert (D : FIX ++ T = P0 ++ E ++ body).
  { unfold P0, T. rewrite <- !app_assoc. reflexivity. }
  rewrite D. rewrite <- LP0.
  assert (CS : forall tl, tl = zlen (P0 ++ E) ->
     dec_cdrs (S (length (P0 ++ E ++ body))) (P0 ++ E ++ body) n tl = Ok cs).
  { intros tl ->. replace n with (zlen cs) by lia.
    replace (P0 ++ E ++ body) with ((P0 ++ E) ++ body ++ []) by (rewrite app_nil_r, <- app_assoc; reflexivity).
    apply dec_cdrs_enc; [exact Hcs|].
    rewrite !app_length. pose proof (concat_enc_len cs). unfold body. lia. }
  unfold E in *. clear D.
  destruct (hr =? 7) eqn:Ehr; destruct (lr =? 7) eqn:Elr.
  - replace (zlen P0) with (zlen P0 + 0) at 1 by lia. rewrite idx_shift by lia.
    change (idx (([he] ++ [le]) ++ body) 0) with (Ok he). cbn [bind].
    replace (zlen P0 + 1) with (zlen P0 + 1 + 0) at 1 by lia.
    replace (zlen P0 + 1 + 0) with (zlen P0 + 1) at 1 by lia.
    rewrite idx_shift by lia.
    change (idx (([he] ++ [le]) ++ body) 1) with (Ok le). cbn [bind].
    rewrite CS by (rewrite zlen_app; cbn [app]; rewrite ?zlen_cons, ?zlen_nil; lia). cbn [bind].
    rewrite !dec_ts_sum by assumption. reflexivity.
  - replace (zlen P0) with (zlen P0 + 0) at 1 by lia. rewrite idx_shift by lia.
    change (idx (([he] ++ []) ++ body) 0) with (Ok he). cbn [bind].
    rewrite CS by (rewrite zlen_app; cbn [app]; rewrite ?zlen_cons, ?zlen_nil; lia). cbn [bind].
    rewrite !dec_ts_sum by assumption. repeat f_equal; lia.
  - cbn [bind].
    replace (zlen P0) with (zlen P0 + 0) at 1 by lia. rewrite idx_shift by lia.
    change (idx (([] ++ [le]) ++ body) 0) with (Ok le). cbn [bind].
    rewrite CS by (rewrite zlen_app; cbn [app]; rewrite ?zlen_cons, ?zlen_nil; lia). cbn [bind].
    rewrite !dec_ts_sum by assumption. repeat f_equal; lia.
  - cbn [bind].
    rewrite CS by (rewrite zlen_app; cbn [app]; rewrite zlen_nil; lia). cbn [bind].
    rewrite !dec_ts_sum by assumption. repeat f_equal; lia.
Qed.

(* ---- sizes: the header and file lengths laid down by clause 6.1 ---- *)

Lemma enc_fhdr_size h :
  length (ipaddr h) = 20%nat -> filter_len h = zlen (filter h) -> ext_len h = zlen (ext h) ->
  zlen (enc_fhdr h) = spec_hdr_size h.
Proof.
  intros Hip Hf He. unfold enc_fhdr, spec_hdr_size.
  rewrite !zlen_app. unfold be32, be16. rewrite !zlen_cons, !zlen_nil.
  assert (Hip' : zlen (ipaddr h) = 20) by (unfold zlen; rewrite Hip; reflexivity).
  rewrite Hf, He.
  destruct (hi_rel h =? 7), (lo_rel h =? 7); rewrite ?zlen_cons;
    change (zlen (@nil Z)) with 0; lia.
Qed.

Lemma enc_cdr_size c :
  cdr_len (c_hdr c) = zlen (c_payload c) -> zlen (enc_cdr c) = spec_cdr_size c.
Proof.
  intros H. unfold enc_cdr, enc_chdr, spec_cdr_size. rewrite !zlen_app.
  unfold be16. rewrite !zlen_cons, !zlen_nil.
  destruct (c_rel (c_hdr c) =? 7); rewrite ?zlen_cons;
    change (zlen (@nil Z)) with 0; lia.
Qed.

