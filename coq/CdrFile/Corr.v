(* Correspondence and monitor evaluation for the CDR file codec.  The Go
   harness (harness/cmd/filecorr) writes [fcase]s: the structure it built, the
   bytes the real CDRFile.Encoding wrote, and what the real CDRFile.Decoding
   returned for them (or Panic).  [run_cases] returns (case id, code) for every
   disagreement:
     1  enc_file (model)  <> bytes written by Go          (correspondence)
     2  dec_file (model)  <> structure decoded by Go       (correspondence)
     3  a case generated as well-formed fails wf_file      (generator sanity)
     4  C14 monitor on the implementation: wf, but Go's decode <> input
     5  C15 monitor on the implementation: wf, but the independent reader
        does not recover the input from Go's bytes *)
From Coq Require Import List ZArith Bool.
From Verif Require Import Common.Outcome Common.Bytes CdrFile.Model CdrFile.Spec.
Import ListNotations.
Open Scope Z_scope.

Fixpoint list_eqb {A} (eqb : A -> A -> bool) (a b : list A) : bool :=
  match a, b with
  | [], [] => true
  | x :: xs, y :: ys => eqb x y && list_eqb eqb xs ys
  | _, _ => false
  end.

Definition ts_eqb (a b : tstamp) : bool :=
  (ts_month a =? ts_month b) && (ts_date a =? ts_date b) && (ts_hour a =? ts_hour b) &&
  (ts_minute a =? ts_minute b) && (ts_sign a =? ts_sign b) && (ts_hdev a =? ts_hdev b) &&
  (ts_mdev a =? ts_mdev b).

Definition fhdr_eqb (a b : fhdr) : bool :=
  (file_len a =? file_len b) && (hdr_len a =? hdr_len b) &&
  (hi_rel a =? hi_rel b) && (hi_ver a =? hi_ver b) &&
  (lo_rel a =? lo_rel b) && (lo_ver a =? lo_ver b) &&
  ts_eqb (open_ts a) (open_ts b) && ts_eqb (last_ts a) (last_ts b) &&
  (ncdrs a =? ncdrs b) && (fseq a =? fseq b) && (reason a =? reason b) &&
  list_eqb Z.eqb (ipaddr a) (ipaddr b) && (lost a =? lost b) &&
  (filter_len a =? filter_len b) && list_eqb Z.eqb (filter a) (filter b) &&
  (ext_len a =? ext_len b) && list_eqb Z.eqb (ext a) (ext b) &&
  (hi_ext a =? hi_ext b) && (lo_ext a =? lo_ext b).

Definition chdr_eqb (a b : chdr) : bool :=
  (cdr_len a =? cdr_len b) && (c_rel a =? c_rel b) && (c_ver a =? c_ver b) &&
  (c_fmt a =? c_fmt b) && (c_tsnum a =? c_tsnum b) && (c_ext a =? c_ext b).

Definition cdr_eqb (a b : cdr) : bool :=
  chdr_eqb (c_hdr a) (c_hdr b) && list_eqb Z.eqb (c_payload a) (c_payload b).

Definition cfile_eqb (a b : cfile) : bool :=
  fhdr_eqb (f_hdr a) (f_hdr b) && list_eqb cdr_eqb (f_cdrs a) (f_cdrs b).

Definition outcome_eqb {A} (eqb : A -> A -> bool) (a b : outcome A) : bool :=
  match a, b with
  | Ok x, Ok y => eqb x y
  | Err, Err | Panic, Panic | OutOfFuel, OutOfFuel => true
  | _, _ => false
  end.

Record fcase := mkFcase {
  fc_id : Z; fc_wf : bool; fc_in : cfile; fc_bytes : list Z; fc_dec : outcome cfile }.

Definition check_case (c : fcase) : list (Z * Z) :=
  let f := fc_in c in
  (if list_eqb Z.eqb (enc_file f) (fc_bytes c) then [] else [(fc_id c, 1)]) ++
  (if outcome_eqb cfile_eqb (dec_file (fc_bytes c)) (fc_dec c) then []
   else if negb (fc_wf c) && is_panic (dec_file (fc_bytes c)) && is_ok (fc_dec c)
        then []  (* malformed input: Go read past len but inside cap (os.ReadFile
                    over-allocates); the model classes that access as Panic *)
        else [(fc_id c, 2)]) ++
  (if fc_wf c then
     (if wf_file f then [] else [(fc_id c, 3)]) ++
     (if outcome_eqb cfile_eqb (fc_dec c) (Ok f) then [] else [(fc_id c, 4)]) ++
     (match spec_read (fc_bytes c) with
      | Some g => if cfile_eqb g f then [] else [(fc_id c, 5)]
      | None => [(fc_id c, 5)]
      end)
   else []).

Definition run_cases (cs : list fcase) : list (Z * Z) := flat_map check_case cs.
