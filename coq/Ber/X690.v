(* Reference encoder written from ITU-T X.690 (BER, definite lengths, minimal
   identifier and length octets) and X.680 tagging rules.  It shares no
   definition with the encoder model of Model.v (only the type descriptors and
   values): TLV trees, their serialisation, and [interp], the readable statement
   of what each Go value means in ASN.1. *)
From Coq Require Import List ZArith Bool.
From Verif Require Import Common.Outcome Common.Bytes Ber.Model.
Import ListNotations.
Open Scope Z_scope.

Inductive tlv : Type :=
| Prim (cls tag : Z) (content : list Z)
| Cons (cls tag : Z) (children : list tlv).

(* minimal big-endian digits of x >= 0 in base b (at least one digit) *)
Fixpoint to_base (fuel : nat) (b x : Z) (acc : list Z) : list Z :=
  match fuel with
  | O => acc
  | S k => let acc' := (x mod b) :: acc in
           if x / b =? 0 then acc' else to_base k b (x / b) acc'
  end.

(* 8.1.2 identifier octets *)
Definition ident (cls : Z) (constructed : bool) (tag : Z) : list Z :=
  let lead := cls * 64 + (if constructed then 32 else 0) in
  if tag <? 31 then [lead + tag]
  else
    let ds := to_base 10 128 tag [] in
    (lead + 31) :: (map (fun d => d + 128) (removelast ds) ++ [last ds 0]).

(* 8.1.3 length octets, definite form, as few octets as possible *)
Definition length_octets (n : Z) : list Z :=
  if n <? 128 then [n]
  else let ds := to_base 8 256 n [] in (128 + zlen ds) :: ds.

Fixpoint ser (x : tlv) : list Z :=
  match x with
  | Prim c t content => ident c false t ++ length_octets (zlen content) ++ content
  | Cons c t ch =>
    let body := (fix go (l : list tlv) : list Z :=
                   match l with [] => [] | y :: r => ser y ++ go r end) ch in
    ident c true t ++ length_octets (zlen body) ++ body
  end.

(* 8.3 INTEGER: two's complement, smallest number of octets *)
Fixpoint twos_len (fuel : nat) (n z : Z) : Z :=
  match fuel with
  | O => n
  | S k => if (- 2 ^ (8 * n - 1) <=? z) && (z <? 2 ^ (8 * n - 1)) then n
           else twos_len k (n + 1) z
  end.
Fixpoint be_n (n : nat) (x : Z) (acc : list Z) : list Z :=
  match n with O => acc | S k => be_n k (x / 256) (x mod 256 :: acc) end.
Definition twos (z : Z) : list Z :=
  let n := twos_len 8 1 z in be_n (Z.to_nat n) (z mod 256 ^ n) [].

(* X.680 31.2: IMPLICIT replaces class and number and keeps the form;
   EXPLICIT wraps in a constructed element *)
Definition retag (p : fparams) (x : tlv) : tlv :=
  match p_tag p with
  | None => x
  | Some n =>
    if p_explicit p then Cons 2 n [x]
    else match x with Prim _ _ c => Prim 2 n c | Cons _ _ ch => Cons 2 n ch end
  end.

(* [strict]: a character string takes its universal tag from the field
   parameter when one is given, otherwise from its declared Go type; with
   [strict = false] only the field parameter is used (the codec's own rule). *)
Fixpoint interp (strict : bool) (t : ty) (p : fparams) (v : value) {struct t} : outcome tlv :=
  match t with
  | TPtr t' => match v with VPtr v' => interp strict t' p v' | _ => Err end
  | TBool => match v with VBool b => Ok (retag p (Prim 0 1 [if b then 255 else 0])) | _ => Err end
  | TInt => match v with VInt z => Ok (retag p (Prim 0 2 (twos z))) | _ => Err end
  | TEnum => match v with VInt z => Ok (retag p (Prim 0 10 (twos z))) | _ => Err end
  | TBits =>
    match v with
    | VBits bs n => Ok (retag p (Prim 0 3 ((8 * ((n + 7) / 8) - n) :: bs)))
    | _ => Err end
  | TOctets =>
    match v with
    | VBytes bs => Ok (retag p (Prim 0 4 bs))
    | VNil => Ok (retag p (Prim 0 4 []))
    | _ => Err end
  | TNull => Ok (retag p (Prim 0 5 []))
  | TString k =>
    match v with
    | VBytes bs =>
      let u := if p_strtype p =? 0 then (if strict then k else 0) else p_strtype p in
      if strict && (u =? 0) then Err       (* no ASN.1 string type known *)
      else Ok (retag p (Prim 0 u bs))
    | _ => Err end
  | TOid => Err                                   (* not supported by the codec *)
  | TWrap t' => match v with VStruct (v0 :: _) => interp strict t' p v0 | _ => Err end
  | TChoice alts =>
    match v with
    | VStruct (VInt pr :: vs) =>
      if (pr <? 1) || (zlen alts <? pr) || p_open p then Err else
      (fix pick (l : list (fparams * ty)) (ws : list value) (k : nat) : outcome tlv :=
         match l, ws with
         | (ap, at') :: l', w :: ws' =>
           match k with
           | O => do alt <- interp strict at' ap w;
                  (* a tagged CHOICE is always tagged explicitly (X.680 31.2.7) *)
                  Ok (match p_tag p with None => alt | Some n => Cons 2 n [alt] end)
           | S k' => pick l' ws' k'
           end
         | _, _ => Err
         end) alts vs (Z.to_nat (pr - 1))
    | _ => Err
    end
  | TSeq fields =>
    match v with
    | VStruct vs =>
      do ch <-
        (fix go (l : list (fparams * ty)) (ws : list value) : outcome (list tlv) :=
           match l, ws with
           | [], [] => Ok []
           | (fp, ft) :: l', w :: ws' =>
             if p_optional fp && is_nil w then go l' ws'      (* absent OPTIONAL: omitted *)
             else if p_open fp then Err
             else do x <- interp strict ft fp w; do r <- go l' ws'; Ok (x :: r)
           | _, _ => Err
           end) fields vs;
      Ok (retag p (Cons 0 (if p_set p then 17 else 16) ch))
    | _ => Err
    end
  | TSlice t' =>
    let elems := match v with VSlice vs => Some vs | VNil => Some [] | _ => None end in
    match elems with
    | Some vs =>
      do ch <-
        (fix go (ws : list value) : outcome (list tlv) :=
           match ws with
           | [] => Ok []
           | w :: ws' => do x <- interp strict t' (clear_tag p) w; do r <- go ws'; Ok (x :: r)
           end) vs;
      Ok (retag p (Cons 0 (if p_set p then 17 else 16) ch))
    | None => Err
    end
  | TUnsupported => Err
  end.

Definition reference (t : ty) (p : fparams) (v : value) : outcome (list Z) :=
  do x <- interp true t p v; Ok (ser x).
Definition reference_lenient (t : ty) (p : fparams) (v : value) : outcome (list Z) :=
  do x <- interp false t p v; Ok (ser x).

(* ---- canonical form of a value: the representation choices that carry no
   ASN.1 meaning (nil vs empty for a mandatory OCTET STRING / SEQUENCE OF; the
   Go bool behind NULL).  An absent OPTIONAL member stays nil. ---- *)
Fixpoint canon (t : ty) (opt : bool) (v : value) {struct t} : value :=
  match t with
  | TPtr t' => match v with VPtr v' => VPtr (canon t' false v') | _ => v end
  | TOctets => match v with VNil => if opt then VNil else VBytes [] | _ => v end
  | TNull => VBool true
  | TWrap t' => match v with VStruct (v0 :: _) => VStruct [canon t' false v0] | _ => v end
  | TChoice alts =>
    match v with
    | VStruct (VInt pr :: vs) =>
      VStruct (VInt pr ::
        (fix go (l : list (fparams * ty)) (ws : list value) (k : Z) : list value :=
           match l, ws with
           | (ap, at') :: l', w :: ws' =>
             (if k =? pr then canon at' false w else w) :: go l' ws' (k + 1)
           | _, _ => ws
           end) alts vs 1)
    | _ => v
    end
  | TSeq fields =>
    match v with
    | VStruct vs =>
      VStruct ((fix go (l : list (fparams * ty)) (ws : list value) : list value :=
                  match l, ws with
                  | (fp, ft) :: l', w :: ws' => canon ft (p_optional fp) w :: go l' ws'
                  | _, _ => ws
                  end) fields vs)
    | _ => v
    end
  | TSlice t' =>
    match v with
    | VNil => if opt then VNil else VSlice []
    | VSlice vs => VSlice (map (canon t' false) vs)
    | _ => v
    end
  | _ => v
  end.

(* ---- [interp] with its recursive calls abstracted, for the proofs
   ([interp_unfold] shows it is the function above) ---- *)
Section InterpBody.
  Variable rec : ty -> fparams -> value -> outcome tlv.

  Definition interp_pick (p : fparams) :=
    fix pick (l : list (fparams * ty)) (ws : list value) (k : nat) : outcome tlv :=
      match l, ws with
      | (ap, at') :: l', w :: ws' =>
        match k with
        | O => do alt <- rec at' ap w;
               Ok (match p_tag p with None => alt | Some n => Cons 2 n [alt] end)
        | S k' => pick l' ws' k'
        end
      | _, _ => Err
      end.

  Definition interp_seq_go :=
    fix go (l : list (fparams * ty)) (ws : list value) : outcome (list tlv) :=
      match l, ws with
      | [], [] => Ok []
      | (fp, ft) :: l', w :: ws' =>
        if p_optional fp && is_nil w then go l' ws'
        else if p_open fp then Err
        else do x <- rec ft fp w; do r <- go l' ws'; Ok (x :: r)
      | _, _ => Err
      end.

  Definition interp_slice_go (t' : ty) (p : fparams) :=
    fix go (ws : list value) : outcome (list tlv) :=
      match ws with
      | [] => Ok []
      | w :: ws' => do x <- rec t' (clear_tag p) w; do r <- go ws'; Ok (x :: r)
      end.

  Definition interp_step (strict : bool) (t : ty) (p : fparams) (v : value) : outcome tlv :=
    match t with
    | TPtr t' => match v with VPtr v' => rec t' p v' | _ => Err end
    | TBool => match v with VBool b => Ok (retag p (Prim 0 1 [if b then 255 else 0])) | _ => Err end
    | TInt => match v with VInt z => Ok (retag p (Prim 0 2 (twos z))) | _ => Err end
    | TEnum => match v with VInt z => Ok (retag p (Prim 0 10 (twos z))) | _ => Err end
    | TBits =>
      match v with
      | VBits bs n => Ok (retag p (Prim 0 3 ((8 * ((n + 7) / 8) - n) :: bs)))
      | _ => Err end
    | TOctets =>
      match v with
      | VBytes bs => Ok (retag p (Prim 0 4 bs))
      | VNil => Ok (retag p (Prim 0 4 []))
      | _ => Err end
    | TNull => Ok (retag p (Prim 0 5 []))
    | TString k =>
      match v with
      | VBytes bs =>
        let u := if p_strtype p =? 0 then (if strict then k else 0) else p_strtype p in
        if strict && (u =? 0) then Err
        else Ok (retag p (Prim 0 u bs))
      | _ => Err end
    | TOid => Err
    | TWrap t' => match v with VStruct (v0 :: _) => rec t' p v0 | _ => Err end
    | TChoice alts =>
      match v with
      | VStruct (VInt pr :: vs) =>
        if (pr <? 1) || (zlen alts <? pr) || p_open p then Err else
        interp_pick p alts vs (Z.to_nat (pr - 1))
      | _ => Err
      end
    | TSeq fields =>
      match v with
      | VStruct vs =>
        do ch <- interp_seq_go fields vs;
        Ok (retag p (Cons 0 (if p_set p then 17 else 16) ch))
      | _ => Err
      end
    | TSlice t' =>
      let elems := match v with VSlice vs => Some vs | VNil => Some [] | _ => None end in
      match elems with
      | Some vs =>
        do ch <- interp_slice_go t' p vs;
        Ok (retag p (Cons 0 (if p_set p then 17 else 16) ch))
      | None => Err
      end
    | TUnsupported => Err
    end.
End InterpBody.

Lemma interp_unfold strict t p v : interp strict t p v = interp_step (interp strict) strict t p v.
Proof. destruct t; reflexivity. Qed.

Definition ser_list (l : list tlv) : list Z :=
  (fix go (l : list tlv) : list Z :=
     match l with [] => [] | y :: r => ser y ++ go r end) l.
