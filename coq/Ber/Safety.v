(* C16: the decoder model never panics and never runs out of fuel, on any
   byte string and any type descriptor. *)
From Coq Require Import List ZArith Lia Bool ZifyBool.
From Verif Require Import Common.Outcome Common.Bytes Common.BytesLemmas Ber.Model Ber.DecEq Ber.Arith.
Import ListNotations.
Open Scope Z_scope.

Ltac Zify.zify_post_hook ::= Z.div_mod_to_equations.

(* ---- induction principle for the nested type ---- *)
Section TyInd.
  Variable P : ty -> Prop.
  Hypothesis HBool : P TBool.
  Hypothesis HInt : P TInt.
  Hypothesis HEnum : P TEnum.
  Hypothesis HOctets : P TOctets.
  Hypothesis HBits : P TBits.
  Hypothesis HNull : P TNull.
  Hypothesis HOid : P TOid.
  Hypothesis HString : forall k, P (TString k).
  Hypothesis HPtr : forall t, P t -> P (TPtr t).
  Hypothesis HWrap : forall t, P t -> P (TWrap t).
  Hypothesis HChoice : forall l, Forall (fun a => P (snd a)) l -> P (TChoice l).
  Hypothesis HSeq : forall l, Forall (fun a => P (snd a)) l -> P (TSeq l).
  Hypothesis HSlice : forall t, P t -> P (TSlice t).
  Hypothesis HUns : P TUnsupported.

  Fixpoint ty_ind' (t : ty) : P t :=
    match t with
    | TBool => HBool | TInt => HInt | TEnum => HEnum | TOctets => HOctets
    | TBits => HBits | TNull => HNull | TOid => HOid | TString k => HString k
    | TPtr t' => HPtr t' (ty_ind' t')
    | TWrap t' => HWrap t' (ty_ind' t')
    | TChoice l =>
      HChoice l ((fix go (l : list (fparams * ty)) : Forall (fun a => P (snd a)) l :=
                    match l with
                    | [] => Forall_nil _
                    | a :: r => Forall_cons a (ty_ind' (snd a)) (go r)
                    end) l)
    | TSeq l =>
      HSeq l ((fix go (l : list (fparams * ty)) : Forall (fun a => P (snd a)) l :=
                 match l with
                 | [] => Forall_nil _
                 | a :: r => Forall_cons a (ty_ind' (snd a)) (go r)
                 end) l)
    | TSlice t' => HSlice t' (ty_ind' t')
    | TUnsupported => HUns
    end.
End TyInd.

Definition safe {A} (o : outcome A) : Prop := o <> Panic /\ o <> OutOfFuel.

Lemma safe_ok {A} (a : A) : safe (Ok a).
Proof. split; discriminate. Qed.
Lemma safe_err {A} : safe (@Err A).
Proof. split; discriminate. Qed.

Lemma safe_bind {A B} (m : outcome A) (f : A -> outcome B) :
  safe m -> (forall a, m = Ok a -> safe (f a)) -> safe (bind m f).
Proof.
  intros [H1 H2] Hf. destruct m; cbn [bind]; try congruence.
  - apply Hf. reflexivity.
  - apply safe_err.
Qed.

(* ---- slices of byte lists ---- *)

Lemma bytes_ok_firstn n l : bytes_ok l = true -> bytes_ok (firstn n l) = true.
Proof.
  unfold bytes_ok. revert n. induction l as [|a l IH]; intros [|n] H; cbn; auto.
  cbn in H. apply andb_true_iff in H. destruct H as [Ha Hl]. rewrite Ha. cbn. apply IH. exact Hl.
Qed.

Lemma bytes_ok_skipn n l : bytes_ok l = true -> bytes_ok (skipn n l) = true.
Proof.
  unfold bytes_ok. revert n. induction l as [|a l IH]; intros [|n] H; cbn; auto.
  cbn in H. apply andb_true_iff in H. destruct H as [Ha Hl]. apply IH. exact Hl.
Qed.

Lemma slice_spec bs lo hi :
  0 <= lo <= hi -> hi <= zlen bs ->
  exists s, slice bs lo hi = Ok s /\ zlen s = hi - lo /\ (bytes_ok bs = true -> bytes_ok s = true).
Proof.
  intros H1 H2. rewrite slice_ok by lia. eexists. split; [reflexivity|]. split.
  - unfold zlen in *. rewrite firstn_length, skipn_length. lia.
  - intros Hb. apply bytes_ok_firstn, bytes_ok_skipn, Hb.
Qed.

Lemma slice_from_spec bs lo :
  0 <= lo <= zlen bs ->
  exists s, slice_from bs lo = Ok s /\ zlen s = zlen bs - lo /\ (bytes_ok bs = true -> bytes_ok s = true).
Proof. intros H. unfold slice_from. apply slice_spec; unfold zlen in *; lia. Qed.

Lemma idx_spec bs i : 0 <= i < zlen bs -> exists b, idx bs i = Ok b /\ (bytes_ok bs = true -> 0 <= b < 256).
Proof.
  intros H. unfold idx. replace (i <? 0) with false by lia.
  destruct (nth_error bs (Z.to_nat i)) as [b|] eqn:E.
  - exists b. split; [reflexivity|]. intros Hb. unfold bytes_ok in Hb.
    rewrite forallb_forall in Hb. apply nth_error_In in E. specialize (Hb _ E).
    unfold byte_ok in Hb. lia.
  - apply nth_error_None in E. unfold zlen in H. lia.
Qed.

Lemma bytes_ok_in bs b : bytes_ok bs = true -> In b bs -> 0 <= b < 256.
Proof.
  intros Hb Hin. unfold bytes_ok in Hb. rewrite forallb_forall in Hb.
  specialize (Hb _ Hin). unfold byte_ok in Hb. lia.
Qed.

(* ---- parseTagAndLength ---- *)

Lemma tagnum_loop_off fuel bs : forall off acc tn off',
  0 <= off <= zlen bs -> tagnum_loop fuel bs off acc = (tn, off') -> off <= off' <= zlen bs.
Proof.
  induction fuel as [|k IH]; intros off acc tn off' Ho E; cbn [tagnum_loop] in E.
  - inversion E. subst. lia.
  - destruct (nth_error bs (Z.to_nat off)) as [b|] eqn:En.
    + assert (off < zlen bs).
      { assert (nth_error bs (Z.to_nat off) <> None) by congruence.
        apply nth_error_Some in H. unfold zlen. lia. }
      destruct (b / 128 =? 0).
      * inversion E. subst. lia.
      * apply IH in E; lia.
    + inversion E. subst. lia.
Qed.

Definition tl_post (bs : list Z) (r : outcome (tal * Z)) : Prop :=
  match r with
  | Ok (t, off) => 1 <= off <= zlen bs /\ (bytes_ok bs = true -> 0 <= t_len t)
  | Err => True
  | _ => False
  end.

Lemma parse_tl_spec bs : tl_post bs (parse_tl bs).
Proof.
  unfold parse_tl. destruct bs as [|b0 r]; [exact I|].
  set (bs := b0 :: r).
  assert (L : 1 <= zlen bs) by (unfold bs; rewrite zlen_cons; pose proof (zlen_nonneg r); lia).
  destruct (if b0 mod 32 =? 31 then tagnum_loop (length bs) bs 1 0 else (b0 mod 32, 1)) as [tn off] eqn:E.
  assert (Ho : 1 <= off <= zlen bs).
  { destruct (b0 mod 32 =? 31).
    - apply tagnum_loop_off in E; lia.
    - inversion E. lia. }
  destruct ((b0 mod 32 =? 31) && (off >? 10)); [exact I|].
  destruct (off >=? zlen bs) eqn:E1; [exact I|].
  destruct (idx_spec bs off) as [lb [Hlb Hlbr]]; [lia|]. rewrite Hlb. cbn [bind].
  destruct (lb <=? 127) eqn:E2.
  - cbn [tl_post t_len]. split; [lia|]. intros Hb. specialize (Hlbr Hb). lia.
  - destruct (lb mod 128 >? 4); [exact I|].
    destruct (off + 1 + lb mod 128 >? zlen bs) eqn:E3; [exact I|].
    destruct (slice_spec bs (off + 1) (off + 1 + lb mod 128)) as [s [Hs [Hl Hsb]]]; [lia|lia|].
    rewrite Hs. cbn [bind tl_post t_len]. split; [lia|].
    intros Hb. apply ufold_nonneg. intros b Hin.
    pose proof (bytes_ok_in s b (Hsb Hb) Hin). lia.
Qed.

Lemma parse_tl_safe bs : safe (parse_tl bs).
Proof.
  pose proof (parse_tl_spec bs) as H. destruct (parse_tl bs) as [[t o]| | |]; cbn in H;
    try contradiction; split; discriminate.
Qed.

Lemma parse_tl_ok bs t off :
  parse_tl bs = Ok (t, off) -> 1 <= off <= zlen bs /\ (bytes_ok bs = true -> 0 <= t_len t).
Proof. intros E. pose proof (parse_tl_spec bs) as H. rewrite E in H. exact H. Qed.

(* ---- primitives ---- *)

Lemma parse_signed_safe bs : safe (parse_signed bs).
Proof.
  unfold parse_signed. destruct bs; [apply safe_err|].
  destruct (_ >? 8); [apply safe_err | apply safe_ok].
Qed.

Lemma parse_bits_safe bs : safe (parse_bits bs).
Proof.
  unfold parse_bits. destruct bs; [apply safe_err|].
  destruct (_ || _); [apply safe_err | apply safe_ok].
Qed.

(* ---- chunk loop of SEQUENCE OF ---- *)

Lemma chunks_safe fuel bs : forall off,
  bytes_ok bs = true -> 0 <= off -> zlen bs - off <= Z.of_nat fuel ->
  safe (chunks fuel bs off) /\
  (forall cs, chunks fuel bs off = Ok cs -> Forall (fun c => bytes_ok c = true) cs).
Proof.
  induction fuel as [|k IH]; intros off Hb Ho Hf; cbn [chunks].
  - destruct (off >=? zlen bs) eqn:E; [|lia]. split; [apply safe_ok|].
    intros cs H. inversion H. constructor.
  - destruct (off >=? zlen bs) eqn:E.
    { split; [apply safe_ok|]. intros cs H. inversion H. constructor. }
    destruct (slice_from_spec bs off) as [rest [Hr [Hrl Hrb]]]; [lia|]. rewrite Hr. cbn [bind].
    pose proof (parse_tl_spec rest) as Hp.
    destruct (parse_tl rest) as [[t toff]| | |]; cbn [tl_post] in Hp; try contradiction.
    2:{ cbn [bind]. split; [apply safe_err|]. intros cs H; discriminate. }
    cbn [bind]. destruct Hp as [Hp1 Hp2]. specialize (Hp2 (Hrb Hb)).
    destruct (off + toff + t_len t >? zlen bs) eqn:E2.
    { split; [apply safe_err|]. intros cs H; discriminate. }
    destruct (slice_spec bs off (off + toff + t_len t)) as [c [Hc [_ Hcb]]]; [lia|lia|].
    rewrite Hc. cbn [bind].
    destruct (IH (off + toff + t_len t) Hb ltac:(lia) ltac:(lia)) as [[S1 S2] S3].
    destruct (chunks k bs (off + toff + t_len t)) as [cs| | |]; cbn [bind]; try congruence.
    + split; [apply safe_ok|]. intros cs' H. inversion H. constructor; [apply Hcb, Hb | apply S3; reflexivity].
    + split; [apply safe_err|]. intros cs' H; discriminate.
Qed.

(* ---- the decoder ---- *)

Definition rec_safe (rec : ty -> fparams -> list Z -> outcome value) (t : ty) : Prop :=
  forall p bs, bytes_ok bs = true -> safe (rec t p bs).

Section SafeBody.
  Variable rec : ty -> fparams -> list Z -> outcome value.

  Lemma choice_pick_safe alts rest tn :
    bytes_ok rest = true ->
    forall l k, Forall (fun a => rec_safe rec (snd a)) l -> safe (choice_pick rec alts rest tn l k).
  Proof.
    intros Hb. induction l as [|[ap at'] l IH]; intros k HF; cbn [choice_pick].
    - apply safe_err.
    - inversion HF as [|? ? Ha Hl]; subst. cbn [snd] in Ha.
      destruct (starts at' ap tn).
      + apply safe_bind; [apply Ha, Hb | intros; apply safe_ok].
      + apply IH, Hl.
  Qed.

  Lemma slice_go_safe t' p :
    rec_safe rec t' ->
    forall cs, Forall (fun c => bytes_ok c = true) cs -> safe (slice_go rec t' p cs).
  Proof.
    intros Ht. induction cs as [|c cs IH]; intros HF; cbn [slice_go].
    - apply safe_ok.
    - inversion HF; subst. apply safe_bind; [apply Ht; assumption|]. intros v _.
      apply safe_bind; [apply IH; assumption|]. intros; apply safe_ok.
  Qed.

  Lemma seq_find_safe p current tn chunk k :
    bytes_ok chunk = true -> (forall j v, safe (k j v)) ->
    forall l j, Forall (fun a => rec_safe rec (snd a)) l ->
    safe (seq_find rec p current tn chunk k l j).
  Proof.
    intros Hb Hk. induction l as [|[fp ft] l IH]; intros j HF; cbn [seq_find].
    - apply safe_err.
    - inversion HF as [|? ? Ha Hl]; subst. cbn [snd] in Ha.
      destruct (Nat.ltb j _); [apply IH, Hl|].
      destruct (p_open p); [apply safe_err|].
      destruct (starts ft fp tn).
      + apply safe_bind; [apply Ha, Hb | intros; apply Hk].
      + apply IH, Hl.
  Qed.

  Lemma seq_loop_safe fields p bs :
    bytes_ok bs = true -> Forall (fun a => rec_safe rec (snd a)) fields ->
    forall fuel offset current acc,
      0 <= offset -> zlen bs - offset <= Z.of_nat fuel ->
      safe (seq_loop rec fields p bs (zlen bs) fuel offset current acc).
  Proof.
    intros Hb HF. induction fuel as [|fk IH]; intros offset current acc Ho Hf; cbn [seq_loop].
    - destruct (offset >=? zlen bs) eqn:E; [apply safe_ok | lia].
    - destruct (offset >=? zlen bs) eqn:E; [apply safe_ok|].
      destruct (slice_from_spec bs offset) as [rest [Hr [Hrl Hrb]]]; [lia|]. rewrite Hr. cbn [bind].
      pose proof (parse_tl_spec rest) as Hp.
      destruct (parse_tl rest) as [[tn tno]| | |]; cbn [tl_post] in Hp; try contradiction;
        cbn [bind]; [|apply safe_err].
      destruct Hp as [Hp1 Hp2]. specialize (Hp2 (Hrb Hb)).
      destruct (offset + tno + t_len tn >? zlen bs) eqn:E2; [apply safe_err|].
      destruct (slice_spec bs offset (offset + tno + t_len tn)) as [c [Hc [_ Hcb]]]; [lia|lia|].
      rewrite Hc. cbn [bind].
      apply seq_find_safe; [apply Hcb, Hb | | exact HF].
      intros j v. apply IH; lia.
  Qed.

  Lemma dec_body_safe t :
    match t with
    | TWrap t' | TSlice t' => rec_safe rec t'
    | TChoice l | TSeq l => Forall (fun a => rec_safe rec (snd a)) l
    | TPtr _ => False
    | _ => True
    end ->
    forall p bs, bytes_ok bs = true -> safe (dec_body rec t p bs).
  Proof.
    intros Hrec p bs Hb. unfold dec_body.
    pose proof (parse_tl_spec bs) as Hp.
    destruct (parse_tl bs) as [[tl0 toff]| | |]; cbn [tl_post] in Hp; try contradiction;
      cbn [bind]; [|apply safe_err].
    destruct Hp as [Hp1 Hp2]. specialize (Hp2 Hb).
    destruct (toff + t_len tl0 >? zlen bs) eqn:Er; [apply safe_err|].
    destruct (negb (ident_ok t p tl0)); [apply safe_err|].
    destruct (slice_from_spec bs toff) as [c [Hc [Hcl Hcb]]]; [lia|].
    destruct t; try rewrite Hc; cbn [bind]; try apply safe_ok; try apply safe_err.
    - (* TBool *)
      destruct (toff >=? zlen bs) eqn:E; [apply safe_err|].
      destruct (idx_spec bs toff) as [b [Hbi _]]; [lia|]. rewrite Hbi. cbn [bind]. apply safe_ok.
    - (* TInt *) apply safe_bind; [apply parse_signed_safe | intros; apply safe_ok].
    - (* TEnum *) apply safe_bind; [apply parse_signed_safe | intros; apply safe_ok].
    - (* TBits *) apply parse_bits_safe.
    - (* TPtr: excluded *) contradiction.
    - (* TWrap *) apply safe_bind; [apply Hrec, Hb | intros; apply safe_ok].
    - (* TChoice *)
      destruct (p_open p); [apply safe_err|].
      destruct (p_tag p) as [n|].
      + rewrite ?Hc. cbn [bind].
        pose proof (parse_tl_spec c) as Hp'.
        destruct (parse_tl c) as [[tl2 toff2]| | |]; cbn [tl_post] in Hp'; try contradiction;
          cbn [bind]; [|apply safe_err].
        destruct (toff + toff2 + t_len tl2 >? zlen bs); [apply safe_err|]. cbn [bind].
        rewrite ?Hc. cbn [bind]. apply choice_pick_safe; [apply Hcb, Hb | exact Hrec].
      + cbn [bind].
        destruct (slice_from_spec bs 0) as [c0 [Hc0 [_ Hc0b]]]; [lia|]. rewrite Hc0. cbn [bind].
        apply choice_pick_safe; [apply Hc0b, Hb | exact Hrec].
    - (* TSeq *)
      apply seq_loop_safe; [exact Hb | exact Hrec | lia | unfold zlen; lia].
    - (* TSlice *)
      destruct (chunks_safe (length bs) bs toff Hb ltac:(lia) ltac:(unfold zlen; lia)) as [Hs Hcs].
      apply safe_bind; [exact Hs|]. intros cs Ecs.
      apply safe_bind; [apply slice_go_safe; [exact Hrec | apply Hcs, Ecs]|].
      intros; apply safe_ok.
  Qed.
End SafeBody.

Lemma dec_step_safe rec t :
  match t with
  | TPtr t' | TWrap t' | TSlice t' => rec_safe rec t'
  | TChoice l | TSeq l => Forall (fun a => rec_safe rec (snd a)) l
  | _ => True
  end ->
  forall p bs, bytes_ok bs = true -> safe (dec_step rec t p bs).
Proof.
  intros Hrec p bs Hb.
  assert (Body : forall p' bs', bytes_ok bs' = true ->
            match t with TPtr _ => True | _ => safe (dec_body rec t p' bs') end).
  { intros p' bs' Hb'. destruct t; try exact I; apply dec_body_safe; auto. }
  destruct t; cbn [dec_step];
    try (pose proof (parse_tl_spec bs) as Hp;
         destruct (parse_tl bs) as [[tl0 toff]| | |]; cbn [tl_post] in Hp; try contradiction;
         cbn [bind]; [|apply safe_err];
         destruct Hp as [Hp1 Hp2]; specialize (Hp2 Hb);
         destruct (toff + t_len tl0 >? zlen bs) eqn:Er; [apply safe_err|];
         match goal with |- safe (if ?c then _ else _) => destruct c end;
         [ destruct (negb (wrapper_ok p tl0)); [apply safe_err|];
           destruct (slice_from_spec bs toff) as [c [Hc [_ Hcb]]]; [lia|];
           rewrite Hc; cbn [bind]; apply (Body _ c), Hcb, Hb
         | apply (Body _ bs), Hb ]).
  (* TPtr *)
  apply safe_bind; [apply Hrec, Hb | intros; apply safe_ok].
Qed.

Theorem dec_safe : forall t p bs, bytes_ok bs = true -> safe (dec t p bs).
Proof.
  intros t. unfold safe.
  change (forall p bs, bytes_ok bs = true -> safe (dec t p bs)).
  induction t using ty_ind'; intros; rewrite dec_unfold; apply dec_step_safe;
    try exact I; try assumption.
Qed.

(* ---- the error classes the property lists ---- *)

Lemma dec_empty t p : match t with TPtr _ => True | _ => dec t p [] = Err end.
Proof. destruct t; try exact I; reflexivity. Qed.

Lemma dec_zero_length_int p : p_tag p = None -> dec TInt p [2; 0] = Err.
Proof. intros H. destruct p as [o op tg ex st sty]. cbn [p_tag] in H. subst tg. destruct ex; reflexivity. Qed.
Lemma dec_zero_length_bool p : p_tag p = None -> dec TBool p [1; 0] = Err.
Proof. intros H. destruct p as [o op tg ex st sty]. cbn [p_tag] in H. subst tg. destruct ex; reflexivity. Qed.
Lemma dec_zero_length_bits p : p_tag p = None -> dec TBits p [3; 0] = Err.
Proof. intros H. destruct p as [o op tg ex st sty]. cbn [p_tag] in H. subst tg. destruct ex; reflexivity. Qed.

(* a length that runs past the end of the data *)
Lemma dec_overlong t p b0 len content :
  match t with TPtr _ => False | _ => True end ->
  0 <= b0 < 256 -> b0 mod 32 <> 31 -> 0 <= len <= 127 -> zlen content < len ->
  dec t p (b0 :: len :: content) = Err.
Proof.
  intros Ht Hb0 Hlow Hlen Hshort.
  assert (E : parse_tl (b0 :: len :: content) =
              Ok (mkTal (b0 / 64) (negb ((b0 / 32) mod 2 =? 0)) (b0 mod 32) len, 2)).
  { unfold parse_tl. replace (b0 mod 32 =? 31) with false by lia. cbn [andb].
    rewrite !zlen_cons. replace (1 >=? 1 + (1 + zlen content)) with false
      by (pose proof (zlen_nonneg content); lia).
    change (idx (b0 :: len :: content) 1) with (Ok len). cbn [bind].
    replace (len <=? 127) with true by lia. reflexivity. }
  destruct t; try contradiction; rewrite dec_unfold; cbn [dec_step]; rewrite E; cbn [bind t_len];
    rewrite !zlen_cons; replace (2 + len >? 1 + (1 + zlen content)) with true by lia; reflexivity.
Qed.
