(* C04 — BER encoder output is well-formed X.690, equals an independent
   reference encoder, and marshalling never panics. *)
From Coq Require Import List ZArith Bool String.
From Verif Require Import Common.Outcome Common.Bytes Ber.Model Ber.X690 Ber.WellTyped
  Ber.Safety Ber.EncSafe Ber.RefEq Ber.SchemaGen.
Import ListNotations.
Open Scope Z_scope.

(* Marshalling never panics: for every type descriptor in the codec's language
   ([sane]: no unsupported Go kind, OPTIONAL only on pointer/slice members) and
   every value Go's type system allows for it ([wtb]), the result is bytes or
   an error. *)
Theorem C04_no_panic : forall (t : ty), sane t = true ->
  forall (p : fparams) (v : value), wtb t v = true ->
    enc t p v <> Panic /\ enc t p v <> OutOfFuel.
Proof. exact enc_safe. Qed.
Print Assumptions C04_no_panic.

(* Whenever marshalling returns bytes, they are exactly the bytes of the
   independent encoder written from X.690 ([reference] = serialisation of the
   TLV tree [interp] assigns to the value): minimal two's-complement
   INTEGER/ENUMERATED, 00/FF BOOLEAN, BIT STRING unused-bit count 8*ceil(n/8)-n,
   class and constructed bits, minimal identifier and length octets, IMPLICIT /
   EXPLICIT context tags as declared, absent OPTIONAL members omitted, CHOICE as
   its selected alternative.  [tyok]: tag numbers below 2^63 and every character
   string has a string type; the bound 2^64 on the output size is the range of
   the length-octet loop. *)
Theorem C04_matches_reference : forall t p v bs,
  tyok t p = true -> wtb t v = true -> enc t p v = Ok bs -> zlen bs < 2 ^ 64 ->
  reference t p v = Ok bs.
Proof. exact enc_matches_reference. Qed.
Print Assumptions C04_matches_reference.

(* Both theorems instantiate to every CDR schema type: the schema regenerated
   from /repo/cdr/cdrType on this run satisfies their hypotheses. *)
Definition schema_ok (e : string * ty) : bool := sane (snd e) && tyok (snd e) p0.
Theorem C04_schema : forallb schema_ok schema = true.
Proof. vm_compute. reflexivity. Qed.
Print Assumptions C04_schema.

Corollary C04_schema_types : forall name t, In (name, t) schema ->
  (forall p v, wtb t v = true -> enc t p v <> Panic) /\
  (forall v bs, wtb t v = true -> enc t p0 v = Ok bs -> zlen bs < 2 ^ 64 -> reference t p0 v = Ok bs).
Proof.
  intros name t Hin. pose proof C04_schema as H. rewrite forallb_forall in H.
  specialize (H _ Hin). unfold schema_ok in H. apply andb_true_iff in H. destruct H as [Hs Ht].
  cbn [snd] in *. split.
  - intros p v Hw. exact (proj1 (enc_safe t Hs p v Hw)).
  - intros v bs Hw He Hl. apply enc_matches_reference; assumption.
Qed.
Print Assumptions C04_schema_types.

(* non-vacuity: a ChargingRecord-like value with present and absent optional
   members, a negative integer and a byte-aligned bit string *)
Definition ex_t : ty :=
  TSeq [(mkP false false (Some 0) false false 0, TWrap TInt);
        (mkP true false (Some 1) false false 0, TPtr (TWrap (TString 22)));
        (mkP true false (Some 31) false false 0, TSlice TBits);
        (mkP false false (Some 3) false false 0, TChoice [(mkP false false (Some 0) false false 0, TPtr TBool)])].
Definition ex_v : value :=
  VStruct [VStruct [VInt (-129)]; VNil; VSlice [VBits [170] 8];
           VStruct [VInt 1; VPtr (VBool true)]].
Example C04_nonvacuous :
  sane ex_t = true /\ tyok ex_t p0 = true /\ wtb ex_t ex_v = true /\
  enc ex_t p0 ex_v = Ok [48; 16; 128; 2; 255; 127; 191; 31; 4; 3; 2; 0; 170; 163; 3; 128; 1; 255].
Proof. vm_compute. repeat split. Qed.
