(* C16, truncated input at full strength: no proper prefix of a header written by the encoder
   can be read as a header ([parse_tl_hdr_prefix]); with [dec_cut_content] (Ber/WrongType.v):
   every proper prefix of a complete element  hdr ++ content  is reported as an error. *)
From Coq Require Import List ZArith Lia Bool ZifyBool Arith.
From Verif Require Import Common.Outcome Common.Bytes Common.BytesLemmas
  Ber.Model Ber.DecEq Ber.Arith Ber.RefArith Ber.ParseHdr Ber.Safety Ber.WrongType.
Import ListNotations.
Open Scope Z_scope.

Ltac Zify.zify_post_hook ::= Z.div_mod_to_equations.

(* the tag-number loop runs to the end of octets that all carry the continuation bit *)
Lemma tagnum_loop_run : forall ds pre acc fuel,
  (forall d, In d ds -> (d / 128 =? 0) = false) -> (length ds <= fuel)%nat ->
  snd (tagnum_loop fuel (pre ++ ds) (zlen pre) acc) = zlen pre + zlen ds.
Proof.
  induction ds as [|d ds IH]; intros pre acc fuel Hc Hf.
  - rewrite app_nil_r, zlen_nil. destruct fuel; cbn [tagnum_loop]; [cbn; lia|].
    unfold zlen. rewrite Nat2Z.id.
    replace (nth_error pre (length pre)) with (@None Z) by (symmetry; apply nth_error_None; lia).
    cbn. lia.
  - destruct fuel as [|fk]; [cbn [length] in Hf; lia|]. cbn [tagnum_loop].
    unfold zlen at 1. rewrite Nat2Z.id, nth_error_mid.
    rewrite (Hc d (or_introl eq_refl)).
    replace (pre ++ d :: ds) with ((pre ++ [d]) ++ ds) by (rewrite <- app_assoc; reflexivity).
    replace (zlen pre + 1) with (zlen (pre ++ [d])) by (rewrite zlen_app, zlen_cons, zlen_nil; lia).
    rewrite IH; [|intros d' Hd'; apply Hc; right; exact Hd' | cbn [length] in Hf; lia].
    rewrite zlen_app, !zlen_cons, zlen_nil. lia.
Qed.

Lemma rev_seq_S n : rev (seq 0 (S n)) = n :: rev (seq 0 n).
Proof. rewrite seq_S, rev_app_distr. reflexivity. Qed.

Lemma firstn_rev_seq_in : forall n j i, In i (firstn j (rev (seq 0 n))) -> (n - j <= i < n)%nat.
Proof.
  induction n as [|n IH]; intros j i H.
  - cbn in H. destruct j; contradiction.
  - rewrite rev_seq_S in H. destruct j as [|j]; [contradiction|]. cbn [firstn] in H.
    destruct H as [H|H]; [subst; lia|]. specialize (IH j i H). lia.
Qed.

Lemma tagbyte_cont tn i : (1 <= i)%nat -> (tagbyte tn i / 128 =? 0) = false.
Proof.
  intros Hi. unfold tagbyte. destruct (Nat.eqb_spec i 0) as [E|E]; [lia|].
  assert (P : 0 < 2 ^ (7 * Z.of_nat i)) by (apply Z.pow_pos_nonneg; lia).
  set (M := 2 ^ (7 * Z.of_nat i)) in *. lia.
Qed.

(* a cut inside the length octets *)
Lemma len_block_prefix {A} (mk : Z -> A) pre len j :
  0 <= len < 2 ^ 32 -> (0 < j < length (len_octets len))%nat ->
  len_block mk (pre ++ firstn j (len_octets len)) (zlen pre) = Err.
Proof.
  intros Hl Hj. unfold len_octets in *. destruct (len <=? 127) eqn:E; [cbn [length] in Hj; lia|].
  destruct (len_ndigits len ltac:(lia)) as [[N1 N2] _].
  set (n := ndigits 8 255 8 len) in *.
  cbn [length] in Hj. rewrite digits_length in Hj.
  destruct j as [|j]; [lia|]. cbn [firstn].
  unfold len_block.
  replace (zlen pre) with (zlen pre + 0) at 1 by lia. rewrite idx_shift by lia.
  change (idx ((128 + Z.of_nat n) :: firstn j (digits n 8 len)) 0) with (Ok (128 + Z.of_nat n)).
  cbn [bind]. replace (128 + Z.of_nat n <=? 127) with false by lia. cbv zeta.
  replace ((128 + Z.of_nat n) mod 128) with (Z.of_nat n) by lia.
  replace (Z.of_nat n >? 4) with false by lia.
  rewrite zlen_app, zlen_cons. unfold zlen at 3. rewrite firstn_length, digits_length.
  replace (zlen pre + 1 + Z.of_nat n >? zlen pre + (1 + Z.of_nat (Nat.min j n))) with true by lia.
  reflexivity.
Qed.

Theorem parse_tl_hdr_prefix c k tn len m :
  cls_ok c -> 0 <= tn < 2 ^ 63 -> 0 <= len < 2 ^ 32 -> (m < length (hdr c k tn len))%nat ->
  parse_tl (firstn m (hdr c k tn len)) = Err.
Proof.
  intros Hc Ht Hl Hm. unfold cls_ok in Hc. unfold hdr in *.
  destruct m as [|m]; [reflexivity|].
  rewrite firstn_app. rewrite app_length in Hm.
  unfold tag_octets in *. destruct (tn <=? 30) eqn:E.
  - (* low tag number: the cut is inside the length octets *)
    set (b0 := c * 64 + (if k then 32 else 0) + tn) in *.
    assert (B3 : b0 mod 32 = tn) by (unfold b0; destruct k; lia).
    cbn [length] in *. cbn [firstn]. rewrite firstn_nil. cbn [app].
    replace (S m - 1)%nat with m by lia.
    rewrite parse_tl_unfold. cbv zeta. rewrite B3. replace (tn =? 31) with false by lia. cbn [andb].
    destruct m as [|m].
    + cbn [firstn]. reflexivity.
    + replace (1 >=? zlen (b0 :: firstn (S m) (len_octets len))) with false
        by (rewrite zlen_cons; unfold zlen; rewrite firstn_length; lia).
      change (b0 :: firstn (S m) (len_octets len)) with ([b0] ++ firstn (S m) (len_octets len)).
      change 1 with (zlen [b0]). apply len_block_prefix; [exact Hl | lia].
  - (* high tag number *)
    destruct (tag_ndigits tn Ht) as [[N1 N2] N3].
    set (n := ndigits 10 127 7 tn) in *.
    set (b0 := c * 64 + (if k then 32 else 0) + 31) in *.
    assert (B3 : b0 mod 32 = 31) by (unfold b0; destruct k; lia).
    match goal with |- context [map ?f (rev (seq 0 n))] => change f with (tagbyte tn) end.
    match type of Hm with context [map ?f (rev (seq 0 n))] => change f with (tagbyte tn) in Hm end.
    set (TB := map (tagbyte tn) (rev (seq 0 n))) in *.
    assert (LTB : length TB = n) by (unfold TB; rewrite map_length, rev_length, seq_length; reflexivity).
    cbn [length] in *. rewrite LTB in Hm |- *. cbn [firstn].
    replace (S m - S n)%nat with (m - n)%nat by lia.
    change ((b0 :: firstn m TB) ++ firstn (m - n) (len_octets len))
      with (b0 :: (firstn m TB ++ firstn (m - n) (len_octets len))).
    rewrite parse_tl_unfold. cbv zeta. rewrite B3. cbn [Z.eqb Pos.eqb andb].
    destruct (le_lt_dec n m) as [Hge|Hlt].
    + (* all tag octets are there; the cut is inside the length octets *)
      rewrite firstn_all2 by lia.
      pose proof (tagnum_loop_bytes tn n [b0] (firstn (m - n) (len_octets len)) 0
                    (length (b0 :: TB ++ firstn (m - n) (len_octets len)))) as TL.
      change (zlen [b0]) with 1 in TL. fold TB in TL.
      change ([b0] ++ TB ++ firstn (m - n) (len_octets len))
        with (b0 :: TB ++ firstn (m - n) (len_octets len)) in TL.
      rewrite TL; try lia.
      2:{ cbn [length]. rewrite app_length. lia. }
      2:{ rewrite Z.mul_0_l, Z.add_0_l. rewrite Z.mod_small by lia.
          assert (2 ^ 63 < 2 ^ 64) by (apply Z.pow_lt_mono_r; lia). lia. }
      replace (1 + Z.of_nat n >? 10) with false by lia.
      pose proof (len_octets_len len) as LL. unfold zlen in LL.
      destruct (m - n)%nat as [|j] eqn:Ej.
      * cbn [firstn]. rewrite app_nil_r.
        replace (1 + Z.of_nat n >=? zlen (b0 :: TB)) with true by (rewrite zlen_cons; unfold zlen; lia).
        reflexivity.
      * assert (X : (1 + Z.of_nat n >=? zlen (b0 :: TB ++ firstn (S j) (len_octets len))) = false).
        { rewrite zlen_cons, zlen_app. unfold zlen. rewrite firstn_length, LTB.
          assert (Y : (1 <= Nat.min (S j) (length (len_octets len)))%nat) by (apply Nat.min_glb; lia).
          lia. }
        rewrite X.
        change (b0 :: TB ++ firstn (S j) (len_octets len)) with ((b0 :: TB) ++ firstn (S j) (len_octets len)).
        replace (1 + Z.of_nat n) with (zlen (b0 :: TB)) by (rewrite zlen_cons; unfold zlen; lia).
        apply len_block_prefix; [exact Hl | lia].
    + (* the cut is inside the tag octets: the loop runs to the end of the data *)
      replace (m - n)%nat with 0%nat by lia. cbn [firstn]. rewrite app_nil_r.
      pose proof (tagnum_loop_run (firstn m TB) [b0] 0 (length (b0 :: firstn m TB))) as R.
      change (zlen [b0]) with 1 in R. change ([b0] ++ firstn m TB) with (b0 :: firstn m TB) in R.
      destruct (tagnum_loop (length (b0 :: firstn m TB)) (b0 :: firstn m TB) 1 0) as [tn' off'].
      cbn [snd] in R. rewrite R.
      2:{ intros d Hd. unfold TB in Hd. rewrite firstn_map in Hd. apply in_map_iff in Hd.
          destruct Hd as [i [Ei Hi]]. subst d. apply tagbyte_cont.
          pose proof (firstn_rev_seq_in n m i Hi). lia. }
      2:{ cbn [length]. lia. }
      destruct (1 + zlen (firstn m TB) >? 10); [reflexivity|].
      replace (1 + zlen (firstn m TB) >=? zlen (b0 :: firstn m TB)) with true by (rewrite zlen_cons; lia).
      reflexivity.
Qed.

(* every proper prefix of a complete element is an error, whatever the target type *)
Theorem dec_proper_prefix t p c k tn content m :
  cls_ok c -> 0 <= tn < 2 ^ 63 -> zlen content < 2 ^ 32 ->
  (m < length (hdr c k tn (zlen content) ++ content))%nat ->
  dec t p (firstn m (hdr c k tn (zlen content) ++ content)) = Err.
Proof.
  intros Hc Ht Hl Hm. pose proof (zlen_nonneg content) as H0. rewrite firstn_app.
  destruct (le_lt_dec (length (hdr c k tn (zlen content))) m) as [Hge|Hlt].
  - rewrite firstn_all2 by lia. apply dec_cut_content; try assumption; [lia|].
    rewrite app_length in Hm. unfold zlen. rewrite firstn_length.
    assert (Y : (Nat.min (m - length (hdr c k tn (Z.of_nat (length content)))) (length content) < length content)%nat)
      by (apply Nat.min_lt_iff; left; unfold zlen in *; lia).
    lia.
  - replace (m - length (hdr c k tn (zlen content)))%nat with 0%nat by lia. cbn [firstn]. rewrite app_nil_r.
    apply dec_truncated. left. apply parse_tl_hdr_prefix; try assumption; lia.
Qed.
