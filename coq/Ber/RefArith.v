(* The identifier / length / INTEGER octets of the encoder model coincide with
   those of the X.690 reference (two independently written digit algorithms). *)
From Coq Require Import List ZArith Lia Bool ZifyBool Znumtheory.
From Verif Require Import Common.Outcome Common.Bytes Common.BytesLemmas
  Ber.Model Ber.X690 Ber.Arith.
Import ListNotations.
Open Scope Z_scope.

Ltac Zify.zify_post_hook ::= Z.div_mod_to_equations.

Lemma digits_shift n s x : 0 < s ->
  digits (S n) s x = digits n s (x / 2 ^ s) ++ [x mod 2 ^ s].
Proof.
  intros Hs. induction n as [|n IH].
  - unfold digits. cbn [seq rev app map]. rewrite Z.mul_0_r, Z.pow_0_r, Z.div_1_r. reflexivity.
  - rewrite digits_S, IH, (digits_S n s (x / 2 ^ s)). cbn [app]. f_equal. f_equal.
    rewrite Z.div_div by (try apply Z.pow_pos_nonneg; lia).
    rewrite <- Z.pow_add_r by lia. f_equal. f_equal. lia.
Qed.

Lemma ndigits_more_fuel k lim s : forall x,
  0 < s -> lim = 2 ^ s - 1 -> 0 <= x < 2 ^ (s * Z.of_nat (S k)) ->
  ndigits (S k) lim s x = ndigits k lim s x.
Proof.
  induction k as [|k IH]; intros x Hs Hl Hx.
  - cbn [ndigits]. replace (s * Z.of_nat 1) with s in Hx by lia.
    replace (x >? lim) with false by lia. reflexivity.
  - cbn [ndigits]. destruct (x >? lim) eqn:E; [|reflexivity]. f_equal.
    change (ndigits (S k) lim s (x / 2 ^ s) = ndigits k lim s (x / 2 ^ s)).
    apply IH; [lia | exact Hl |].
    assert (P : 0 < 2 ^ s) by (apply Z.pow_pos_nonneg; lia).
    split; [apply Z.div_pos; lia|]. apply Z.div_lt_upper_bound; [lia|].
    rewrite <- Z.pow_add_r by lia.
    replace (s + s * Z.of_nat (S k)) with (s * Z.of_nat (S (S k))) by lia. lia.
Qed.

Lemma to_base_digits k s : forall x acc,
  0 < s -> 0 <= x < 2 ^ (s * Z.of_nat (S k)) ->
  to_base (S k) (2 ^ s) x acc = digits (ndigits k (2 ^ s - 1) s x) s x ++ acc.
Proof.
  induction k as [|k IH]; intros x acc Hs Hx.
  - replace (s * Z.of_nat 1) with s in Hx by lia.
    cbn [to_base ndigits]. rewrite Z.div_small by lia. cbn [Z.eqb].
    unfold digits. cbn [seq rev app map]. rewrite Z.mul_0_r, Z.pow_0_r, Z.div_1_r. reflexivity.
  - assert (P : 0 < 2 ^ s) by (apply Z.pow_pos_nonneg; lia).
    cbn [ndigits]. change (to_base (S (S k)) (2 ^ s) x acc) with
      (let acc' := x mod 2 ^ s :: acc in
       if x / 2 ^ s =? 0 then acc' else to_base (S k) (2 ^ s) (x / 2 ^ s) acc').
    cbv zeta.
    destruct (x >? 2 ^ s - 1) eqn:E.
    + assert (x / 2 ^ s <> 0).
      { intros H0. apply Z.div_small_iff in H0; lia. }
      replace (x / 2 ^ s =? 0) with false by lia.
      rewrite IH; [|lia|].
      * rewrite digits_shift by lia. rewrite <- app_assoc. reflexivity.
      * split; [apply Z.div_pos; lia|]. apply Z.div_lt_upper_bound; [lia|].
        rewrite <- Z.pow_add_r by lia.
        replace (s + s * Z.of_nat (S k)) with (s * Z.of_nat (S (S k))) by lia. lia.
    + rewrite Z.div_small by lia. cbn [Z.eqb].
      unfold digits. cbn [seq rev app map]. rewrite Z.mul_0_r, Z.pow_0_r, Z.div_1_r. reflexivity.
Qed.

(* ---- length octets ---- *)

Lemma len_octets_eq n : 0 <= n < 2 ^ 64 -> len_octets n = length_octets n.
Proof.
  intros Hn. unfold len_octets, length_octets.
  destruct (n <=? 127) eqn:E.
  - replace (n <? 128) with true by lia. reflexivity.
  - replace (n <? 128) with false by lia.
    change 256 with (2 ^ 8). rewrite (to_base_digits 7 8 n []) by (change (8 * Z.of_nat 8) with 64; lia).
    rewrite app_nil_r. change (2 ^ 8 - 1) with 255.
    rewrite (ndigits_more_fuel 7 255 8 n) by (try reflexivity; change (8 * Z.of_nat 8) with 64; lia).
    unfold zlen. rewrite digits_length. reflexivity.
Qed.

(* ---- identifier octets ---- *)

Lemma rev_seq_S m : rev (seq 0 (S m)) = rev (seq 1 m) ++ [0%nat].
Proof. cbn [seq rev]. reflexivity. Qed.

Lemma tag_octets_eq c k tn : 0 <= tn < 2 ^ 63 -> tag_octets c k tn = ident c k tn.
Proof.
  intros Ht. unfold tag_octets, ident.
  destruct (tn <=? 30) eqn:E.
  - replace (tn <? 31) with true by lia. reflexivity.
  - replace (tn <? 31) with false by lia. f_equal.
    assert (R : 0 <= tn < 2 ^ (7 * Z.of_nat 10)).
    { change (7 * Z.of_nat 10) with 70. assert (2 ^ 63 < 2 ^ 70) by (apply Z.pow_lt_mono_r; lia). lia. }
    assert (TB : to_base 10 128 tn [] = digits (ndigits 9 127 7 tn) 7 tn).
    { change 128 with (2 ^ 7). rewrite (to_base_digits 9 7 tn []) by (try lia; exact R).
      rewrite app_nil_r. reflexivity. }
    rewrite TB.
    rewrite (ndigits_more_fuel 9 127 7 tn) by (try reflexivity; try lia; exact R).
    pose proof (ndigits_pos 9 127 7 tn) as Hp.
    destruct (ndigits 9 127 7 tn) as [|m]; [lia|].
    unfold digits. rewrite rev_seq_S, !map_app. cbn [map].
    rewrite removelast_last, last_last. cbn [Nat.eqb].
    rewrite Z.mul_0_r, Z.pow_0_r, Z.div_1_r. change (2 ^ 7) with 128.
    f_equal. rewrite map_map. apply map_ext_in. intros i Hi.
    apply in_rev in Hi. apply in_seq in Hi.
    destruct i; [lia|]. cbn [Nat.eqb]. reflexivity.
Qed.

Lemma hdr_eq c k tn len : 0 <= tn < 2 ^ 63 -> 0 <= len < 2 ^ 64 ->
  hdr c k tn len = ident c k tn ++ length_octets len.
Proof. intros Ht Hl. unfold hdr. rewrite tag_octets_eq, len_octets_eq by assumption. reflexivity. Qed.

(* ---- INTEGER contents ---- *)

Definition fits (n z : Z) : bool := (- 2 ^ (8 * n - 1) <=? z) && (z <? 2 ^ (8 * n - 1)).

Lemma be_n_digits n : forall x acc, be_n n x acc = digits n 8 x ++ acc.
Proof.
  induction n as [|n IH]; intros x acc.
  - reflexivity.
  - cbn [be_n]. rewrite IH. rewrite digits_shift by lia. change (2 ^ 8) with 256.
    rewrite <- app_assoc. reflexivity.
Qed.

Lemma digits_mod n x : digits n 8 (x mod 2 ^ (8 * Z.of_nat n)) = digits n 8 x.
Proof.
  unfold digits. apply map_ext_in. intros i Hi. apply in_rev in Hi. apply in_seq in Hi.
  assert (Hn : Z.of_nat n = Z.of_nat i + (Z.of_nat n - Z.of_nat i)) by lia.
  assert (0 < Z.of_nat n - Z.of_nat i) by lia.
  set (d := Z.of_nat n - Z.of_nat i) in *.
  replace (8 * Z.of_nat n) with (8 * Z.of_nat i + 8 * d) by lia.
  rewrite Z.pow_add_r by lia.
  assert (P1 : 0 < 2 ^ (8 * Z.of_nat i)) by (apply Z.pow_pos_nonneg; lia).
  assert (P2 : 0 < 2 ^ (8 * d)) by (apply Z.pow_pos_nonneg; lia).
  set (A := 2 ^ (8 * Z.of_nat i)) in *. set (B := 2 ^ (8 * d)) in *.
  rewrite Z.rem_mul_r by lia.
  replace (x mod A + A * ((x / A) mod B)) with (((x / A) mod B) * A + x mod A) by lia.
  rewrite Z.div_add_l by lia.
  rewrite (Z.div_small (x mod A)) by (apply Z.mod_pos_bound; lia).
  rewrite Z.add_0_r. unfold B.
  replace (8 * d) with (8 + 8 * (d - 1)) by lia. rewrite Z.pow_add_r by lia.
  symmetry. apply Zmod_div_mod.
  - lia.
  - apply Z.mul_pos_pos; [lia|]. apply Z.pow_pos_nonneg; lia.
  - exists (2 ^ (8 * (d - 1))). lia.
Qed.

(* minimality of int_len *)
Lemma int_len_pos_min fuel : forall z,
  0 <= z -> (1 < int_len_pos fuel z)%nat ->
  2 ^ (8 * (Z.of_nat (int_len_pos fuel z) - 1) - 1) <= z.
Proof.
  induction fuel as [|k IH]; intros z Hz Hn; [cbn in Hn; lia|].
  cbn [int_len_pos] in *. destruct (z >? 127) eqn:E; [|lia].
  pose proof (int_len_pos_ge1 k (z / 256)) as G.
  destruct (Nat.eq_dec (int_len_pos k (z / 256)) 1) as [E1|E1].
  - rewrite E1. change (8 * (Z.of_nat 2 - 1) - 1) with 7. change (2 ^ 7) with 128. lia.
  - specialize (IH (z / 256) ltac:(apply Z.div_pos; lia) ltac:(lia)).
    replace (8 * (Z.of_nat (S (int_len_pos k (z / 256))) - 1) - 1)
      with (8 + (8 * (Z.of_nat (int_len_pos k (z / 256)) - 1) - 1)) by lia.
    rewrite Z.pow_add_r by lia. change (2 ^ 8) with 256.
    set (M := 2 ^ (8 * (Z.of_nat (int_len_pos k (z / 256)) - 1) - 1)) in *. lia.
Qed.

Lemma int_len_neg_min fuel : forall z,
  z < 0 -> (1 < int_len_neg fuel z)%nat ->
  z < - 2 ^ (8 * (Z.of_nat (int_len_neg fuel z) - 1) - 1).
Proof.
  induction fuel as [|k IH]; intros z Hz Hn; [cbn in Hn; lia|].
  cbn [int_len_neg] in *. destruct (z <? -128) eqn:E; [|lia].
  pose proof (int_len_neg_ge1 k (z / 256)) as G.
  destruct (Nat.eq_dec (int_len_neg k (z / 256)) 1) as [E1|E1].
  - rewrite E1. change (8 * (Z.of_nat 2 - 1) - 1) with 7. change (2 ^ 7) with 128. lia.
  - specialize (IH (z / 256) ltac:(lia) ltac:(lia)).
    replace (8 * (Z.of_nat (S (int_len_neg k (z / 256))) - 1) - 1)
      with (8 + (8 * (Z.of_nat (int_len_neg k (z / 256)) - 1) - 1)) by lia.
    rewrite Z.pow_add_r by lia. change (2 ^ 8) with 256.
    set (M := 2 ^ (8 * (Z.of_nat (int_len_neg k (z / 256)) - 1) - 1)) in *. lia.
Qed.

Lemma fits_mono n m z : 1 <= n <= m -> fits n z = true -> fits m z = true.
Proof.
  intros H. unfold fits. intros F.
  assert (2 ^ (8 * n - 1) <= 2 ^ (8 * m - 1)) by (apply Z.pow_le_mono_r; lia).
  set (A := 2 ^ (8 * n - 1)) in *. set (B := 2 ^ (8 * m - 1)) in *. lia.
Qed.

Lemma int_len_min z m :
  - 2 ^ 63 <= z < 2 ^ 63 -> 1 <= m < Z.of_nat (int_len z) -> fits m z = false.
Proof.
  intros Hz Hm.
  destruct (fits m z) eqn:F; [|reflexivity]. exfalso.
  assert (F' : fits (Z.of_nat (int_len z) - 1) z = true) by (apply (fits_mono m); [lia | exact F]).
  unfold fits in F'. unfold int_len in *. destruct (z >? 127) eqn:E.
  - pose proof (int_len_pos_min 8 z ltac:(lia) ltac:(lia)) as M.
    set (A := 2 ^ (8 * (Z.of_nat (int_len_pos 8 z) - 1) - 1)) in *. lia.
  - destruct (Z.ltb_spec z 0) as [Hneg|Hpos].
    + pose proof (int_len_neg_min 8 z Hneg ltac:(lia)) as M.
      set (A := 2 ^ (8 * (Z.of_nat (int_len_neg 8 z) - 1) - 1)) in *. lia.
    + assert (int_len_neg 8 z = 1%nat) by (cbn [int_len_neg]; replace (z <? -128) with false by lia; reflexivity).
      lia.
Qed.

Lemma twos_len_least fuel : forall n z target,
  1 <= n <= target -> target - n <= Z.of_nat fuel ->
  fits target z = true -> (forall m, n <= m < target -> fits m z = false) ->
  twos_len fuel n z = target.
Proof.
  induction fuel as [|k IH]; intros n z target Hn Hf Ft Hmin.
  - cbn [twos_len]. lia.
  - cbn [twos_len]. fold (fits n z).
    destruct (Z.eq_dec n target) as [->|Hne].
    + rewrite Ft. reflexivity.
    + rewrite (Hmin n) by lia. apply IH; try lia; try assumption.
      intros m Hm. apply Hmin. lia.
Qed.

Lemma int_bytes_eq z : - 2 ^ 63 <= z < 2 ^ 63 -> int_bytes z = twos z.
Proof.
  intros Hz. unfold int_bytes, twos.
  destruct (int_len_bounds z Hz) as [[L1 L2] [B1 B2]].
  assert (T : twos_len 8 1 z = Z.of_nat (int_len z)).
  { apply twos_len_least; try lia.
    - unfold fits. set (A := 2 ^ (8 * Z.of_nat (int_len z) - 1)) in *. lia.
    - intros m Hm. apply int_len_min; [exact Hz | lia]. }
  rewrite T, Nat2Z.id, be_n_digits, app_nil_r.
  rewrite pow256. apply eq_sym, digits_mod.
Qed.
