(* C04 (first part): marshalling never panics, for every sane type descriptor
   and every well-typed value. *)
From Coq Require Import List ZArith Lia Bool ZifyBool.
From Verif Require Import Common.Outcome Common.Bytes Common.BytesLemmas
  Ber.Model Ber.DecEq Ber.Safety Ber.WellTyped.
Import ListNotations.
Open Scope Z_scope.

Definition enc_rec_safe (rec : ty -> fparams -> value -> outcome (list Z)) (t : ty) : Prop :=
  forall p v, wtb t v = true -> safe (rec t p v).

Section EncSafeBody.
  Variable rec : ty -> fparams -> value -> outcome (list Z).

  Lemma enc_pick_safe p : forall l ws k,
    Forall (fun a => enc_rec_safe rec (snd a)) l ->
    (fix go (l : list (fparams * ty)) (ws : list value) : bool :=
       match l, ws with
       | [], [] => true
       | (_, at') :: l', w :: ws' => wtb at' w && go l' ws'
       | _, _ => false
       end) l ws = true ->
    (k < length l)%nat ->
    safe (enc_pick rec p l ws k).
  Proof.
    induction l as [|[ap at'] l IH]; intros ws k HF Hwt Hk; [cbn in Hk; lia|].
    destruct ws as [|w ws]; [discriminate Hwt|].
    apply andb_true_iff in Hwt. destruct Hwt as [Hw Hrest].
    inversion HF as [|? ? Ha Hl]; subst. cbn [snd] in Ha.
    cbn [enc_pick]. destruct k as [|k].
    - destruct (p_open p); [apply safe_err|].
      destruct (p_tag p).
      + apply safe_bind; [apply Ha, Hw | intros; apply safe_ok].
      + apply Ha, Hw.
    - apply IH; [exact Hl | exact Hrest | cbn in Hk; lia].
  Qed.

  Lemma enc_seq_go_safe : forall l ws,
    Forall (fun a => enc_rec_safe rec (snd a)) l ->
    (fix go (l : list (fparams * ty)) : bool :=
       match l with
       | [] => true
       | (fp, ft) :: r => (negb (p_optional fp) || nillable ft) && sane ft && go r
       end) l = true ->
    (fix go (l : list (fparams * ty)) (ws : list value) : bool :=
       match l, ws with
       | [], [] => true
       | (_, ft) :: l', w :: ws' => wtb ft w && go l' ws'
       | _, _ => false
       end) l ws = true ->
    safe (enc_seq_go rec l ws).
  Proof.
    induction l as [|[fp ft] l IH]; intros ws HF Hs Hwt.
    - destruct ws; [apply safe_ok | discriminate Hwt].
    - destruct ws as [|w ws]; [discriminate Hwt|].
      apply andb_true_iff in Hwt. destruct Hwt as [Hw Hrest].
      apply andb_true_iff in Hs. destruct Hs as [Hs1 Hs3].
      apply andb_true_iff in Hs1. destruct Hs1 as [Hs1 Hs2].
      inversion HF as [|? ? Ha Hl]; subst. cbn [snd] in Ha.
      cbn [enc_seq_go].
      destruct (p_optional fp) eqn:Eo; cbn [andb negb orb] in *.
      + rewrite Hs1. destruct (is_nil w); [apply IH; assumption|].
        destruct (p_open fp); [apply safe_err|].
        specialize (Ha fp w Hw). destruct Ha as [A1 A2].
        destruct (rec ft fp w); try congruence; [|apply safe_err].
        apply safe_bind; [apply IH; assumption | intros; apply safe_ok].
      + destruct (p_open fp); [apply safe_err|].
        specialize (Ha fp w Hw). destruct Ha as [A1 A2].
        destruct (rec ft fp w); try congruence; [|apply safe_err].
        apply safe_bind; [apply IH; assumption | intros; apply safe_ok].
  Qed.

  Lemma enc_slice_go_safe t' p : enc_rec_safe rec t' -> forall ws,
    (fix go (ws : list value) : bool :=
       match ws with [] => true | w :: r => wtb t' w && go r end) ws = true ->
    safe (enc_slice_go rec t' p ws).
  Proof.
    intros Ht. induction ws as [|w ws IH]; intros Hwt; cbn [enc_slice_go].
    - apply safe_ok.
    - apply andb_true_iff in Hwt. destruct Hwt as [Hw Hr].
      apply safe_bind; [apply Ht, Hw|]. intros b _.
      apply safe_bind; [apply IH, Hr | intros; apply safe_ok].
  Qed.

  Lemma enc_step_safe t :
    sane t = true ->
    match t with
    | TPtr t' | TWrap t' | TSlice t' => enc_rec_safe rec t'
    | TChoice l | TSeq l => Forall (fun a => enc_rec_safe rec (snd a)) l
    | _ => True
    end ->
    forall p v, wtb t v = true -> safe (enc_step rec t p v).
  Proof.
    intros Hs Hrec p v Hwt.
    destruct t as [| | | | | | |k|t'|t'|alts|fields|t'|]; cbn [enc_step]; cbn [wtb] in Hwt.
    - destruct v; try discriminate; apply safe_ok.
    - destruct v; try discriminate; apply safe_ok.
    - destruct v; try discriminate; apply safe_ok.
    - destruct v; try discriminate; cbn [bytes_of]; apply safe_ok.
    - destruct v; try discriminate; apply safe_ok.
    - destruct v; try discriminate; apply safe_ok.
    - apply safe_err.
    - destruct v; try discriminate; apply safe_ok.
    - destruct v; try discriminate; [apply safe_err | apply Hrec, Hwt].
    - destruct v as [| | | | | |[|v0 [|? ?]]|]; try discriminate. apply Hrec, Hwt.
    - destruct v as [| | | | | |[|[| pr | | | | | |] vs]|]; try discriminate.
      apply andb_true_iff in Hwt. destruct Hwt as [_ Hwt].
      destruct (pr <=? 0) eqn:E1; [apply safe_err|].
      destruct (pr >=? 1 + zlen alts) eqn:E2; [apply safe_err|].
      apply enc_pick_safe; [exact Hrec | exact Hwt | unfold zlen in E2; lia].
    - destruct v as [| | | | | |vs|]; try discriminate.
      apply safe_bind; [apply enc_seq_go_safe; [exact Hrec | exact Hs | exact Hwt]|].
      intros; apply safe_ok.
    - destruct v as [| | | | | | |vs]; try discriminate.
      + apply safe_ok.
      + apply safe_bind; [apply enc_slice_go_safe; [exact Hrec | exact Hwt]|].
        intros; apply safe_ok.
    - discriminate Hs.
  Qed.
End EncSafeBody.

Lemma sane_fields_choice l :
  (fix go (l : list (fparams * ty)) : bool :=
     match l with [] => true | (_, at') :: r => sane at' && go r end) l = true ->
  Forall (fun a => sane (snd a) = true) l.
Proof.
  induction l as [|[ap at'] l IH]; intros H; constructor.
  - apply andb_true_iff in H. exact (proj1 H).
  - apply IH. apply andb_true_iff in H. exact (proj2 H).
Qed.

Lemma sane_fields_seq l :
  (fix go (l : list (fparams * ty)) : bool :=
     match l with
     | [] => true
     | (fp, ft) :: r => (negb (p_optional fp) || nillable ft) && sane ft && go r
     end) l = true ->
  Forall (fun a => sane (snd a) = true) l.
Proof.
  induction l as [|[fp ft] l IH]; intros H; constructor.
  - apply andb_true_iff in H. destruct H as [H _]. apply andb_true_iff in H. exact (proj2 H).
  - apply IH. apply andb_true_iff in H. exact (proj2 H).
Qed.

Lemma Forall_mp {A} (P Q : A -> Prop) l :
  Forall (fun a => P a -> Q a) l -> Forall P l -> Forall Q l.
Proof.
  induction l; intros H1 H2; constructor; inversion H1; inversion H2; subst; auto.
Qed.

Theorem enc_safe : forall t, sane t = true -> forall p v, wtb t v = true -> safe (enc t p v).
Proof.
  intros t.
  change (sane t = true -> enc_rec_safe enc t).
  induction t using ty_ind'; intros Hs; unfold enc_rec_safe; intros p v Hwt;
    rewrite enc_unfold; apply enc_step_safe; try exact Hs; try exact Hwt; try exact I.
  - apply IHt, Hs.
  - apply IHt, Hs.
  - apply (Forall_mp _ _ _ H). apply sane_fields_choice, Hs.
  - apply (Forall_mp _ _ _ H). apply sane_fields_seq, Hs.
  - apply IHt, Hs.
Qed.
