(* Model of cdr/asn: the reflection-driven BER encoder (ber_marshal.go:
   makeField, appendTagAndLen, int64Encoder, bitStringEncoder) and decoder
   (ber_unmarshal.go: ParseField, parseTagAndLength, parseSignedInt64,
   parseBitString).  Definitions only.

   Go's reflect dispatch becomes a match on a type descriptor [ty]; the cases
   mirror makeField / ParseField one for one.  Every slice expression of the
   decoder is [slice]/[slice_from]/[idx] and yields [Panic] when Go would. *)
From Coq Require Import List ZArith Bool.
From Verif Require Import Common.Outcome Common.Bytes.
Import ListNotations.
Open Scope Z_scope.

(* common.go: fieldParameters, the members the codec reads *)
Record fparams := mkP {
  p_optional : bool;
  p_open : bool;
  p_tag : option Z;
  p_explicit : bool;
  p_set : bool;
  p_strtype : Z }.

Definition p0 : fparams := mkP false false None false false 0.
Definition no_explicit (p : fparams) : fparams :=
  mkP (p_optional p) (p_open p) (p_tag p) false (p_set p) (p_strtype p).
Definition clear_tag (p : fparams) : fparams :=
  mkP (p_optional p) (p_open p) None (p_explicit p) (p_set p) (p_strtype p).

Inductive ty : Type :=
| TBool | TInt | TEnum | TOctets | TBits | TNull | TOid
| TString (declared : Z)   (* Go string kinds; [declared] = universal tag of the Go type
                             (12 UTF8String, 22 IA5String, 25 GraphicString, 0 plain string);
                             the codec itself only looks at the field parameters *)
| TPtr (t : ty)
| TWrap (t : ty)                           (* struct with field 0 "Value"/"List" *)
| TChoice (alts : list (fparams * ty))     (* struct with field 0 "Present" *)
| TSeq (fields : list (fparams * ty))      (* any other struct *)
| TSlice (t : ty)
| TUnsupported.

Inductive value : Type :=
| VBool (b : bool)
| VInt (z : Z)
| VBytes (l : list Z)               (* OctetString / string contents *)
| VBits (l : list Z) (bitlen : Z)   (* asn.BitString *)
| VNil                              (* nil pointer, nil slice *)
| VPtr (v : value)
| VStruct (fs : list value)         (* wrapper: [v0]; choice: VInt present :: alts; seq: members *)
| VSlice (vs : list value).

(* ---------------- encoder ---------------- *)

(* n := 1; for x > lim { n++; x >>= shift } *)
Fixpoint ndigits (fuel : nat) (lim shift x : Z) : nat :=
  match fuel with
  | O => 1
  | S k => if x >? lim then S (ndigits k lim shift (x / 2 ^ shift)) else 1
  end.

(* the n low base-2^shift digits of x, most significant first *)
Definition digits (n : nat) (shift x : Z) : list Z :=
  map (fun i => (x / 2 ^ (shift * Z.of_nat i)) mod 2 ^ shift) (rev (seq 0 n)).

(* appendTagAndLen *)
Definition tag_octets (cls : Z) (constructed : bool) (tn : Z) : list Z :=
  let first := cls * 64 + (if constructed then 32 else 0) in
  if tn <=? 30 then [first + tn]
  else
    let n := ndigits 10 127 7 tn in
    (first + 31) ::
    map (fun i => let d := (tn / 2 ^ (7 * Z.of_nat i)) mod 128 in
                  if Nat.eqb i 0 then d else d + 128) (rev (seq 0 n)).

Definition len_octets (len : Z) : list Z :=
  if len <=? 127 then [len]
  else let n := ndigits 8 255 8 len in
       (128 + Z.of_nat n) :: digits n 8 len.

Definition hdr (cls : Z) (constructed : bool) (tn len : Z) : list Z :=
  tag_octets cls constructed tn ++ len_octets len.

(* int64Encoder.Len / Encode *)
Fixpoint int_len_pos (fuel : nat) (z : Z) : nat :=
  match fuel with
  | O => 1
  | S k => if z >? 127 then S (int_len_pos k (z / 256)) else 1
  end.
Fixpoint int_len_neg (fuel : nat) (z : Z) : nat :=
  match fuel with
  | O => 1
  | S k => if z <? -128 then S (int_len_neg k (z / 256)) else 1
  end.
Definition int_len (z : Z) : nat :=
  if z >? 127 then int_len_pos 8 z else int_len_neg 8 z.
Definition int_bytes (z : Z) : list Z := digits (int_len z) 8 z.

(* the tail of makeField: IMPLICIT / EXPLICIT context tagging *)
Definition finish (p : fparams) (cls : Z) (constructed : bool) (tn : Z)
                  (content : list Z) : list Z :=
  match p_tag p with
  | None => hdr cls constructed tn (zlen content) ++ content
  | Some n =>
    if p_explicit p then
      let inner := hdr cls constructed tn (zlen content) ++ content in
      hdr 2 true n (zlen inner) ++ inner
    else hdr 2 constructed n (zlen content) ++ content
  end.

(* reflect.Value.IsNil: defined for pointer and slice kinds only *)
Definition nillable (t : ty) : bool :=
  match t with TPtr _ | TSlice _ | TOctets | TOid => true | _ => false end.
Definition is_nil (v : value) : bool :=
  match v with VNil => true | _ => false end.

Definition seq_tag (p : fparams) : Z := if p_set p then 17 else 16.

Definition bytes_of (v : value) : option (list Z) :=
  match v with VBytes l => Some l | VNil => Some [] | _ => None end.

(* [Panic] on an ill-typed (type, value) pair cannot happen in Go; theorems
   assume [wt]. *)
Fixpoint enc (t : ty) (p : fparams) (v : value) {struct t} : outcome (list Z) :=
  match t with
  | TPtr t' =>
    match v with VPtr v' => enc t' p v' | VNil => Err | _ => Panic end
  | TBits =>
    match v with
    | VBits bs n => Ok (finish p 0 false 3 (((8 - n mod 8) mod 8) :: bs))
    | _ => Panic end
  | TOid => Err
  | TOctets =>
    match bytes_of v with Some bs => Ok (finish p 0 false 4 bs) | None => Panic end
  | TEnum =>
    match v with VInt z => Ok (finish p 0 false 10 (int_bytes z)) | _ => Panic end
  | TNull =>
    match v with VBool _ => Ok (finish p 0 false 5 []) | _ => Panic end
  | TBool =>
    match v with VBool b => Ok (finish p 0 false 1 [if b then 255 else 0]) | _ => Panic end
  | TInt =>
    match v with VInt z => Ok (finish p 0 false 2 (int_bytes z)) | _ => Panic end
  | TString k =>
    match v with
    | VBytes bs => Ok (finish p 0 false (if p_strtype p =? 0 then k else p_strtype p) bs)
    | _ => Panic end
  | TWrap t' =>
    match v with VStruct (v0 :: _) => enc t' p v0 | _ => Panic end
  | TChoice alts =>
    match v with
    | VStruct (VInt pr :: vs) =>
      if pr <=? 0 then Err
      else if pr >=? 1 + zlen alts then Err
      else
        (fix pick (l : list (fparams * ty)) (ws : list value) (k : nat) : outcome (list Z) :=
           match l, ws with
           | (ap, at') :: l', w :: ws' =>
             match k with
             | O =>
               if p_open p then Err
               else match p_tag p with
                    | None => enc at' ap w
                    | Some _ => do inner <- enc at' ap w;
                                Ok (finish (no_explicit p) 0 true 0 inner)
                    end
             | S k' => pick l' ws' k'
             end
           | _, _ => Panic
           end) alts vs (Z.to_nat (pr - 1))
    | _ => Panic
    end
  | TSeq fields =>
    match v with
    | VStruct vs =>
      do content <-
        (fix go (l : list (fparams * ty)) (ws : list value) : outcome (list Z) :=
           match l, ws with
           | [], [] => Ok []
           | (fp, ft) :: l', w :: ws' =>
             if p_optional fp && (if nillable ft then false else true) then Panic
             else if p_optional fp && is_nil w then go l' ws'
             else if p_open fp then Err
             else match enc ft fp w with
                  | Ok b => do r <- go l' ws'; Ok (b ++ r)
                  | Panic => Panic
                  | OutOfFuel => OutOfFuel
                  | Err => Err
                  end
           | _, _ => Panic
           end) fields vs;
      Ok (finish p 0 true (seq_tag p) content)
    | _ => Panic
    end
  | TSlice t' =>
    let elems := match v with VSlice vs => Some vs | VNil => Some [] | _ => None end in
    match elems with
    | Some vs =>
      do content <-
        (fix go (ws : list value) : outcome (list Z) :=
           match ws with
           | [] => Ok []
           | w :: ws' => do b <- enc t' (clear_tag p) w; do r <- go ws'; Ok (b ++ r)
           end) vs;
      Ok (finish p 0 true (seq_tag p) content)
    | None => Panic
    end
  | TUnsupported => Panic       (* berType.value stays nil *)
  end.

(* ---------------- decoder ---------------- *)

Record tal := mkTal { t_cls : Z; t_constr : bool; t_num : Z; t_len : Z }.

(* high-tag-number loop of parseTagAndLength *)
Fixpoint tagnum_loop (fuel : nat) (bs : list Z) (off : Z) (acc : Z) : Z * Z :=
  match fuel with
  | O => (acc, off)
  | S k =>
    match nth_error bs (Z.to_nat off) with
    | None => (acc, off)                          (* off >= len: loop ends *)
    | Some b =>
      let acc' := (acc * 128) mod 18446744073709551616 + b mod 128 in
      if b / 128 =? 0 then (acc', off + 1) else tagnum_loop k bs (off + 1) acc'
    end
  end.

Definition parse_tl (bs : list Z) : outcome (tal * Z) :=
  match bs with
  | [] => Err
  | b0 :: _ =>
    let cls := b0 / 64 in
    let constr := negb ((b0 / 32) mod 2 =? 0) in
    let '(tn, off) :=
      if b0 mod 32 =? 31 then tagnum_loop (length bs) bs 1 0 else (b0 mod 32, 1) in
    if (b0 mod 32 =? 31) && (off >? 10) then Err
    else if off >=? zlen bs then Err
    else
      do lb <- idx bs off;
      if lb <=? 127 then Ok (mkTal cls constr tn lb, off + 1)
      else
        let n := lb mod 128 in
        if n >? 4 then Err
        else if off + 1 + n >? zlen bs then Err
        else do s <- slice bs (off + 1) (off + 1 + n);
             Ok (mkTal cls constr tn (ufold s), off + 1 + n)
  end.

(* parseSignedInt64 *)
Definition parse_signed (bs : list Z) : outcome Z :=
  match bs with
  | [] => Err
  | b0 :: _ =>
    if zlen bs >? 8 then Err
    else Ok (if b0 / 128 =? 0 then ufold bs else ufold bs - 256 ^ zlen bs)
  end.

Definition parse_bits (bs : list Z) : outcome value :=
  match bs with
  | [] => Err
  | u :: rest =>
    if (u >? 7) || ((zlen bs =? 1) && negb (u =? 0)) then Err
    else Ok (VBits rest ((zlen bs - 1) * 8 - u))
  end.

(* zero value of a Go type *)
Fixpoint zero (t : ty) : value :=
  match t with
  | TBool | TNull => VBool false
  | TInt | TEnum => VInt 0
  | TOctets => VNil
  | TString _ => VBytes []
  | TBits => VBits [] 0          (* BitString{nil, 0}; nil vs empty bytes identified *)
  | TOid => VNil
  | TPtr _ => VNil
  | TSlice _ => VNil
  | TWrap t' => VStruct [zero t']
  | TChoice alts => VStruct (VInt 0 :: map (fun a => zero (snd a)) alts)
  | TSeq fs => VStruct (map (fun a => zero (snd a)) fs)
  | TUnsupported => VNil
  end.

Fixpoint set_nth {A} (l : list A) (n : nat) (x : A) : list A :=
  match l, n with
  | [], _ => []
  | _ :: r, O => x :: r
  | y :: r, S k => y :: set_nth r k x
  end.

(* split bs[off:] into consecutive TLVs (the chunk loop of the slice case) *)
Fixpoint chunks (fuel : nat) (bs : list Z) (off : Z) : outcome (list (list Z)) :=
  if off >=? zlen bs then Ok [] else
  match fuel with
  | O => OutOfFuel
  | S k =>
    do rest <- slice_from bs off;
    do (t, toff) <- parse_tl rest;
    let next := off + toff + t_len t in
    if next >? zlen bs then Err
    else do c <- slice bs off next;
         do r <- chunks k bs next; Ok (c :: r)
  end.

(* the identifier octets a value of type [t] must carry: what the encoder writes for it
   (identifierOf in ber_unmarshal.go) -- constructed bit and universal tag number.  An untagged
   CHOICE, a pointer and the single-member wrapper have none of their own; a tagged CHOICE sits in a
   constructed context-tagged wrapper (the number 0 below is not used: [ident_ok] compares with the
   context tag). *)
Definition prim_tag (t : ty) (p : fparams) : option (bool * Z) :=
  match t with
  | TBits => Some (false, 3) | TOctets => Some (false, 4) | TEnum => Some (false, 10)
  | TNull => Some (false, 5) | TBool => Some (false, 1) | TInt => Some (false, 2)
  | TString k => Some (false, if p_strtype p =? 0 then k else p_strtype p)
  | TSeq _ | TSlice _ => Some (true, seq_tag p)
  | TChoice _ => match p_tag p with Some _ => Some (true, 0) | None => None end
  | _ => None
  end.
(* class and number: universal, or the context tag of an IMPLICITly tagged member
   (identifierMatches) *)
Definition ident_matches (tl : tal) (k : bool) (w : Z) (p : fparams) : bool :=
  Bool.eqb (t_constr tl) k &&
  match p_tag p with
  | Some n => (t_cls tl =? 2) && (t_num tl =? n)
  | None => (t_cls tl =? 0) && (t_num tl =? w)
  end.
Definition ident_ok (t : ty) (p : fparams) (tl : tal) : bool :=
  match prim_tag t p with
  | None => true
  | Some (k, w) => ident_matches tl k w p
  end.

Definition is_choice (t : ty) : bool := match t with TChoice _ => true | _ => false end.

(* startsWith: can an element with identifier [tl] be the encoding of a [t] under [p]?  This is
   how SEQUENCE, SET and CHOICE find the member an element belongs to: by the context tag when
   the member has one, by the universal identifier of its type (or of one of the alternatives of
   an untagged CHOICE) otherwise. *)
Fixpoint starts (t : ty) (p : fparams) (tl : tal) {struct t} : bool :=
  match t with
  | TPtr t' => starts t' p tl
  | _ =>
    if (match p_tag p with Some _ => true | None => false end) && (p_explicit p || is_choice t)
    then ident_matches tl true 0 p
    else
      match t with
      | TWrap t' => starts t' p tl
      | TChoice alts =>
        (fix any (l : list (fparams * ty)) : bool :=
           match l with [] => false | (ap, at') :: r => starts at' ap tl || any r end) alts
      | _ => match prim_tag t p with Some (k, w) => ident_matches tl k w p | None => false end
      end
  end.

(* the constructed context-tagged wrapper of an EXPLICITly tagged member *)
Definition wrapper_ok (p : fparams) (tl : tal) : bool :=
  t_constr tl && (t_cls tl =? 2) &&
  match p_tag p with Some n => t_num tl =? n | None => true end.

Fixpoint dec (t : ty) (p : fparams) (bs : list Z) {struct t} : outcome value :=
  match t with
  | TPtr t' => do v <- dec t' p bs; Ok (VPtr v)
  | _ =>
   let body := fun (p : fparams) (bs : list Z) =>
    do (tl0, toff) <- parse_tl bs;
    if toff + t_len tl0 >? zlen bs then Err else
    if negb (ident_ok t p tl0) then Err else
    match t with
    | TPtr _ => Panic   (* unreachable *)
    | TBits => do c <- slice_from bs toff; parse_bits c
    | TOid => Err
    | TOctets => do c <- slice_from bs toff; Ok (VBytes c)
    | TEnum | TInt => do c <- slice_from bs toff; do z <- parse_signed c; Ok (VInt z)
    | TNull => Ok (VBool true)
    | TBool =>
      if toff >=? zlen bs then Err
      else do b <- idx bs toff; Ok (VBool (negb (b =? 0)))
    | TString _ => do c <- slice_from bs toff; Ok (VBytes c)
    | TWrap t' => do v <- dec t' p bs; Ok (VStruct [v])
    | TChoice alts =>
      if p_open p then Err else
      do (tl1, offset) <-
        match p_tag p with
        | None => Ok (tl0, 0)
        | Some _ =>
          do rest <- slice_from bs toff;
          do (tl2, toff2) <- parse_tl rest;
          if toff + toff2 + t_len tl2 >? zlen bs then Err else Ok (tl2, toff)
        end;
      do rest <- slice_from bs offset;
      (fix pick (l : list (fparams * ty)) (k : nat) : outcome value :=
         match l with
         | [] => Err                     (* present stays 0 *)
         | (ap, at') :: l' =>
           if starts at' ap tl1 then
             do v <- dec at' ap rest;
             Ok (VStruct (VInt (Z.of_nat (S k)) ::
                          set_nth (map (fun a => zero (snd a)) alts) k v))
           else pick l' (S k)
         end) alts O
    | TSeq fields =>
      let total := zlen bs in
      (fix loop (fuel : nat) (offset : Z) (current : nat) (acc : list value)
         : outcome value :=
         if offset >=? total then Ok (VStruct acc) else
         match fuel with
         | O => OutOfFuel
         | S fk =>
           do rest <- slice_from bs offset;
           do (tn, tno) <- parse_tl rest;
           let next := offset + tno + t_len tn in
           if next >? total then Err else
           do chunk <- slice bs offset next;
           (* scan members from [start] for the tag *)
           (fix find (l : list (fparams * ty)) (j : nat) : outcome value :=
              match l with
              | [] => Err                   (* corresponding type not found *)
              | (fp, ft) :: l' =>
                if Nat.ltb j (if p_set p then O else current) then find l' (S j)
                else if p_open p then Err
                else if starts ft fp tn then
                  do v <- dec ft fp chunk;
                  loop fk next (S j) (set_nth acc j v)
                else find l' (S j)
              end) fields O
         end) (length bs) toff O (map (fun a => zero (snd a)) fields)
    | TSlice t' =>
      do cs <- chunks (length bs) bs toff;
      do vs <-
        (fix go (l : list (list Z)) : outcome (list value) :=
           match l with
           | [] => Ok []
           | c :: l' => do v <- dec t' (clear_tag p) c; do r <- go l'; Ok (v :: r)
           end) cs;
      Ok (VSlice vs)
    | TUnsupported => Err
    end in
   (* EXPLICIT tagging: unwrap once, then decode with the tag parameters
      cleared (a tagged CHOICE is unwrapped by the CHOICE case itself) *)
   do (tl0, toff) <- parse_tl bs;
   if toff + t_len tl0 >? zlen bs then Err else
   if (match p_tag p with Some _ => true | None => false end) && p_explicit p &&
      negb (match t with TChoice _ => true | _ => false end)
   then if negb (wrapper_ok p tl0) then Err
        else do rest <- slice_from bs toff; body (no_explicit (clear_tag p)) rest
   else body p bs
  end.

(* ---- the same decoder with the recursive calls abstracted ([rec]): used by
   the proofs; [dec_eq] (Ber/DecEq.v) shows [dec t = dec_step dec t] by
   computation, so this is the function above, not a second model. ---- *)
Section DecBody.
  Variable rec : ty -> fparams -> list Z -> outcome value.

  Definition choice_pick (alts : list (fparams * ty)) (rest : list Z) (tn : tal) :=
    fix pick (l : list (fparams * ty)) (k : nat) : outcome value :=
      match l with
      | [] => Err
      | (ap, at') :: l' =>
        if starts at' ap tn then
          do v <- rec at' ap rest;
          Ok (VStruct (VInt (Z.of_nat (S k)) ::
                       set_nth (map (fun a => zero (snd a)) alts) k v))
        else pick l' (S k)
      end.

  Definition seq_find (p : fparams) (current : nat) (tn : tal) (chunk : list Z)
             (k : nat -> value -> outcome value) :=
    fix find (l : list (fparams * ty)) (j : nat) : outcome value :=
      match l with
      | [] => Err
      | (fp, ft) :: l' =>
        if Nat.ltb j (if p_set p then O else current) then find l' (S j)
        else if p_open p then Err
        else if starts ft fp tn then
          do v <- rec ft fp chunk; k j v
        else find l' (S j)
      end.

  Definition seq_loop (fields : list (fparams * ty)) (p : fparams) (bs : list Z) (total : Z) :=
    fix loop (fuel : nat) (offset : Z) (current : nat) (acc : list value)
      : outcome value :=
      if offset >=? total then Ok (VStruct acc) else
      match fuel with
      | O => OutOfFuel
      | S fk =>
        do rest <- slice_from bs offset;
        do (tn, tno) <- parse_tl rest;
        let next := offset + tno + t_len tn in
        if next >? total then Err else
        do chunk <- slice bs offset next;
        seq_find p current tn chunk
                 (fun j v => loop fk next (S j) (set_nth acc j v)) fields O
      end.

  Definition slice_go (t' : ty) (p : fparams) :=
    fix go (l : list (list Z)) : outcome (list value) :=
      match l with
      | [] => Ok []
      | c :: l' => do v <- rec t' (clear_tag p) c; do r <- go l'; Ok (v :: r)
      end.

  Definition dec_body (t : ty) (p : fparams) (bs : list Z) : outcome value :=
    do (tl0, toff) <- parse_tl bs;
    if toff + t_len tl0 >? zlen bs then Err else
    if negb (ident_ok t p tl0) then Err else
    match t with
    | TPtr _ => Panic
    | TBits => do c <- slice_from bs toff; parse_bits c
    | TOid => Err
    | TOctets => do c <- slice_from bs toff; Ok (VBytes c)
    | TEnum | TInt => do c <- slice_from bs toff; do z <- parse_signed c; Ok (VInt z)
    | TNull => Ok (VBool true)
    | TBool =>
      if toff >=? zlen bs then Err
      else do b <- idx bs toff; Ok (VBool (negb (b =? 0)))
    | TString _ => do c <- slice_from bs toff; Ok (VBytes c)
    | TWrap t' => do v <- rec t' p bs; Ok (VStruct [v])
    | TChoice alts =>
      if p_open p then Err else
      do (tl1, offset) <-
        match p_tag p with
        | None => Ok (tl0, 0)
        | Some _ =>
          do rest <- slice_from bs toff;
          do (tl2, toff2) <- parse_tl rest;
          if toff + toff2 + t_len tl2 >? zlen bs then Err else Ok (tl2, toff)
        end;
      do rest <- slice_from bs offset;
      choice_pick alts rest tl1 alts O
    | TSeq fields =>
      seq_loop fields p bs (zlen bs) (length bs) toff O (map (fun a => zero (snd a)) fields)
    | TSlice t' =>
      do cs <- chunks (length bs) bs toff;
      do vs <- slice_go t' p cs;
      Ok (VSlice vs)
    | TUnsupported => Err
    end.

  Definition dec_step (t : ty) (p : fparams) (bs : list Z) : outcome value :=
    match t with
    | TPtr t' => do v <- rec t' p bs; Ok (VPtr v)
    | _ =>
      do (tl0, toff) <- parse_tl bs;
      if toff + t_len tl0 >? zlen bs then Err else
      if (match p_tag p with Some _ => true | None => false end) && p_explicit p &&
         negb (match t with TChoice _ => true | _ => false end)
      then if negb (wrapper_ok p tl0) then Err
           else do rest <- slice_from bs toff; dec_body t (no_explicit (clear_tag p)) rest
      else dec_body t p bs
    end.
End DecBody.

(* ---- the encoder with its recursive calls abstracted (see [enc_unfold]) ---- *)
Section EncBody.
  Variable rec : ty -> fparams -> value -> outcome (list Z).

  Definition enc_pick (p : fparams) :=
    fix pick (l : list (fparams * ty)) (ws : list value) (k : nat) : outcome (list Z) :=
      match l, ws with
      | (ap, at') :: l', w :: ws' =>
        match k with
        | O =>
          if p_open p then Err
          else match p_tag p with
               | None => rec at' ap w
               | Some _ => do inner <- rec at' ap w;
                           Ok (finish (no_explicit p) 0 true 0 inner)
               end
        | S k' => pick l' ws' k'
        end
      | _, _ => Panic
      end.

  Definition enc_seq_go :=
    fix go (l : list (fparams * ty)) (ws : list value) : outcome (list Z) :=
      match l, ws with
      | [], [] => Ok []
      | (fp, ft) :: l', w :: ws' =>
        if p_optional fp && (if nillable ft then false else true) then Panic
        else if p_optional fp && is_nil w then go l' ws'
        else if p_open fp then Err
        else match rec ft fp w with
             | Ok b => do r <- go l' ws'; Ok (b ++ r)
             | Panic => Panic
             | OutOfFuel => OutOfFuel
             | Err => Err
             end
      | _, _ => Panic
      end.

  Definition enc_slice_go (t' : ty) (p : fparams) :=
    fix go (ws : list value) : outcome (list Z) :=
      match ws with
      | [] => Ok []
      | w :: ws' => do b <- rec t' (clear_tag p) w; do r <- go ws'; Ok (b ++ r)
      end.

  Definition enc_step (t : ty) (p : fparams) (v : value) : outcome (list Z) :=
    match t with
    | TPtr t' =>
      match v with VPtr v' => rec t' p v' | VNil => Err | _ => Panic end
    | TBits =>
      match v with
      | VBits bs n => Ok (finish p 0 false 3 (((8 - n mod 8) mod 8) :: bs))
      | _ => Panic end
    | TOid => Err
    | TOctets =>
      match bytes_of v with Some bs => Ok (finish p 0 false 4 bs) | None => Panic end
    | TEnum =>
      match v with VInt z => Ok (finish p 0 false 10 (int_bytes z)) | _ => Panic end
    | TNull =>
      match v with VBool _ => Ok (finish p 0 false 5 []) | _ => Panic end
    | TBool =>
      match v with VBool b => Ok (finish p 0 false 1 [if b then 255 else 0]) | _ => Panic end
    | TInt =>
      match v with VInt z => Ok (finish p 0 false 2 (int_bytes z)) | _ => Panic end
    | TString k =>
      match v with
      | VBytes bs => Ok (finish p 0 false (if p_strtype p =? 0 then k else p_strtype p) bs)
      | _ => Panic end
    | TWrap t' =>
      match v with VStruct (v0 :: _) => rec t' p v0 | _ => Panic end
    | TChoice alts =>
      match v with
      | VStruct (VInt pr :: vs) =>
        if pr <=? 0 then Err
        else if pr >=? 1 + zlen alts then Err
        else enc_pick p alts vs (Z.to_nat (pr - 1))
      | _ => Panic
      end
    | TSeq fields =>
      match v with
      | VStruct vs =>
        do content <- enc_seq_go fields vs;
        Ok (finish p 0 true (seq_tag p) content)
      | _ => Panic
      end
    | TSlice t' =>
      let elems := match v with VSlice vs => Some vs | VNil => Some [] | _ => None end in
      match elems with
      | Some vs =>
        do content <- enc_slice_go t' p vs;
        Ok (finish p 0 true (seq_tag p) content)
      | None => Panic
      end
    | TUnsupported => Panic
    end.
End EncBody.
