(* C05 — decode (encode v) = v for every supported value and schema type;
   unsupported constructs are errors. *)
From Coq Require Import List ZArith Bool String Lia.
From Verif Require Import Common.Outcome Common.Bytes Common.BytesLemmas Ber.Model Ber.DecEq Ber.X690
  Ber.WellTyped Ber.Safety Ber.RefEq Ber.Roundtrip Ber.SchemaGen.
Import ListNotations.
Open Scope Z_scope.

(* For every type descriptor t, field parameters p and value v such that the
   part of t that v exercises lies in the decoder's language and v is canonical
   ([ok t p v], Roundtrip.v), if marshalling returns bytes (shorter than 2^32,
   the decoder's 4-octet length limit) then unmarshalling them with the same
   parameters succeeds and yields v (up to [canon]: nil vs empty for a mandatory
   OCTET STRING / SEQUENCE OF, NULL's Go bool). No bound on depth, sizes, number
   of members or list lengths.  [ok] asks for: context tags below 2^63 (IMPLICIT or
   EXPLICIT), int64 integers, well-formed bit strings, no OBJECT IDENTIFIER and no
   open type in the exercised part, OPTIONAL on nillable kinds only, the unselected
   alternatives of a CHOICE nil, and members that can be told apart: pairwise
   different first identifiers, or in a SEQUENCE every member present different from
   the absent OPTIONAL members skipped just before it. *)
Theorem C05_roundtrip : forall t p v bs,
  ok t p v = true -> enc t p v = Ok bs -> zlen bs < 2 ^ 32 ->
  dec t p bs = Ok (canon t false v).
Proof. exact dec_enc. Qed.
Print Assumptions C05_roundtrip.

(* Consequence: on the values the theorem covers the encoding is injective up to
   [canon] -- two records that differ (other than nil vs empty) never marshal to
   the same octets. *)
Theorem C05_injective : forall t p v1 v2 bs,
  ok t p v1 = true -> ok t p v2 = true -> enc t p v1 = Ok bs -> enc t p v2 = Ok bs ->
  zlen bs < 2 ^ 32 -> canon t false v1 = canon t false v2.
Proof.
  intros t p v1 v2 bs H1 H2 E1 E2 L.
  pose proof (C05_roundtrip t p v1 bs H1 E1 L) as A.
  rewrite (C05_roundtrip t p v2 bs H2 E2 L) in A. congruence.
Qed.
Print Assumptions C05_injective.

(* OBJECT IDENTIFIER and open types are reported as errors in both directions *)
Lemma dec_oid p bs : bytes_ok bs = true -> dec TOid p bs = Err.
Proof.
  intros Hb. rewrite dec_unfold. cbn [dec_step].
  pose proof (parse_tl_spec bs) as Hp.
  destruct (parse_tl bs) as [[tl0 toff]| | |]; cbn [tl_post] in Hp; try contradiction; cbn [bind]; [|reflexivity].
  destruct Hp as [Hp1 Hp2]. destruct (toff + t_len tl0 >? zlen bs); [reflexivity|].
  assert (B : forall q cs, dec_body dec TOid q cs = Err).
  { intros q cs. unfold dec_body. pose proof (parse_tl_spec cs) as Hq.
    destruct (parse_tl cs) as [[a b]| | |]; cbn [tl_post] in Hq; try contradiction; cbn [bind]; [|reflexivity].
    destruct (b + t_len a >? zlen cs); [reflexivity|]. destruct (negb (ident_ok TOid q a)); reflexivity. }
  destruct (_ && _ && _).
  - destruct (negb (wrapper_ok p tl0)); [reflexivity|].
    destruct (slice_from_spec bs toff) as [c [Hc _]]; [lia|]. rewrite Hc. cbn [bind]. apply B.
  - apply B.
Qed.

Theorem C05_unsupported_is_error :
  (forall p v, enc TOid p v = Err) /\
  (forall p bs, bytes_ok bs = true -> dec TOid p bs = Err) /\
  (forall alts p v, p_open p = true -> wtb (TChoice alts) v = true -> enc (TChoice alts) p v <> Panic /\
                    forall bs, enc (TChoice alts) p v <> Ok bs).
Proof.
  split; [reflexivity|]. split; [exact dec_oid|].
  intros alts p v Ho Hw. rewrite enc_unfold. cbn [enc_step]. cbn [wtb] in Hw.
  destruct v as [| | | | | |[|[| pr | | | | | |] vs]|]; try discriminate.
  apply andb_true_iff in Hw. destruct Hw as [_ Hw].
  destruct (pr <=? 0) eqn:E1; [split; [discriminate | intros; discriminate]|].
  destruct (pr >=? 1 + zlen alts) eqn:E2; [split; [discriminate | intros; discriminate]|].
  rewrite (enc_pick_open p Ho); [split; [discriminate | intros; discriminate] | unfold zlen in E2; lia | exact Hw].
Qed.
Print Assumptions C05_unsupported_is_error.

(* ---- instantiation to the CDR schema (regenerated from /repo on this run) ---- *)

(* what the CHF writes: a CHFRecord marshalled with "explicit,choice" *)
Definition p_chf : fparams := mkP false false None true false 0.

(* the CHFRecord OpenCDR/UpdateCDR build for a session with one usage report
   (printed by harness/cmd/berexample from the real cdrConvert code) *)
Definition ex_record : value :=
  (VStruct [VInt (1); (VPtr (VStruct [(VStruct [(VInt (200))]); (VStruct [(VBytes [67;72;70])]); (VPtr (VStruct [(VStruct [(VInt (1))]); (VBytes [50;48;56;57;51;48;48;48;48;48;48;48;48;48;49])])); (VStruct [(VStruct [(VInt (1))]); (VPtr (VStruct [(VBytes [115;109;102;49])])); VNil; VNil; VNil; VNil]); VNil; (VSlice [(VStruct [(VStruct [(VInt (1))]); (VSlice [(VStruct [VNil; VNil; VNil; VNil; (VPtr (VStruct [(VInt (40))])); (VPtr (VStruct [(VInt (10))])); (VPtr (VStruct [(VInt (30))])); (VPtr (VInt (0))); VNil; (VPtr (VStruct [(VInt (3))])); VNil; VNil; VNil; VNil; VNil; VNil])]); (VPtr (VStruct [(VBytes [117;112;102])])); VNil])]); (VStruct [(VBytes [38;9;48;18;0;0;43;1;0])]); (VStruct [(VInt (0))]); VNil; (VStruct [(VInt (0))]); VNil; (VPtr (VStruct [(VInt (1))])); VNil; VNil; VNil; VNil; (VPtr (VStruct [(VBytes [105;109;115;105;45;50;48;56;57;51;48;48;48;48;48;48;48;48;48;49;115;109;102;49;48])])); VNil; VNil; VNil; VNil; VNil; VNil; VNil; VNil; VNil; VNil; (VPtr (VStruct [(VInt (7))]))]))]).

(* non-vacuity on the real schema: the hypotheses hold for a CHF record, and the
   round trip evaluates as the theorem says *)
Example C05_nonvacuous :
  ok ty_CHFRecord p_chf ex_record = true /\
  match enc ty_CHFRecord p_chf ex_record with
  | Ok bs => dec ty_CHFRecord p_chf bs = Ok (canon ty_CHFRecord false ex_record)
  | _ => False
  end.
Proof. vm_compute. split; reflexivity. Qed.

(* members declared without tagNum (repaired in /repo, see known_findings.txt: before, such a
   value marshalled but did not unmarshal): the hypotheses hold and the round trip evaluates as the
   theorem says for the SEQUENCE with two untagged members and for the CHOICE whose second
   alternative is an untagged CHOICE *)
Definition ex_untagged : value := VStruct [VStruct [VBytes [1;2;3;4;5;6;7;8;9;10;11;12;13;14;15;16]]; VNil].
Definition ex_untagged2 : value :=
  VStruct [VStruct [VBytes [1;2;3;4;5;6;7;8;9;10;11;12;13;14;15;16]]; VPtr (VStruct [VInt 56])].
Definition ex_untagged_choice : value :=
  VStruct [VInt 2; VNil; VPtr (VStruct [VInt 2; VNil; VPtr ex_untagged2])].
Example C05_untagged_members :
  ok ty_IPBinV6AddressWithPrefixLength p0 ex_untagged = true /\
  enc ty_IPBinV6AddressWithPrefixLength p0 ex_untagged =
    Ok [48; 18; 4; 16; 1; 2; 3; 4; 5; 6; 7; 8; 9; 10; 11; 12; 13; 14; 15; 16] /\
  dec ty_IPBinV6AddressWithPrefixLength p0 [48; 18; 4; 16; 1; 2; 3; 4; 5; 6; 7; 8; 9; 10; 11; 12; 13; 14; 15; 16] =
    Ok (canon ty_IPBinV6AddressWithPrefixLength false ex_untagged) /\
  ok ty_IPBinV6AddressWithPrefixLength p0 ex_untagged2 = true /\
  ok ty_IPBinaryAddress p0 ex_untagged_choice = true /\
  match enc ty_IPBinaryAddress p0 ex_untagged_choice with
  | Ok bs => dec ty_IPBinaryAddress p0 bs = Ok (canon ty_IPBinaryAddress false ex_untagged_choice)
  | _ => False
  end.
Proof. vm_compute. repeat split. Qed.

(* EXPLICIT tagging: an INTEGER under [3] EXPLICIT and a structure with an EXPLICIT member *)
Example C05_explicit :
  let pe := mkP false false (Some 3) true false 0 in
  let ts := TSeq [(mkP false false (Some 0) true false 0, TInt); (mkP true false (Some 1) false false 0, TPtr TBool)] in
  ok TInt pe (VInt 5) = true /\ enc TInt pe (VInt 5) = Ok [163; 3; 2; 1; 5] /\
  dec TInt pe [163; 3; 2; 1; 5] = Ok (VInt 5) /\
  ok ts pe (VStruct [VInt (-1); VNil]) = true /\
  match enc ts pe (VStruct [VInt (-1); VNil]) with
  | Ok bs => dec ts pe bs = Ok (canon ts false (VStruct [VInt (-1); VNil]))
  | _ => False
  end.
Proof. vm_compute. repeat split. Qed.

(* every SEQUENCE, SET and CHOICE of the 195 schema types is unambiguous: its members start with
   pairwise different identifiers, so the distinctness part of [ok] holds for every value of the
   schema (regenerated from /repo on this run) *)
Theorem C05_schema_unambiguous : forallb (fun e => ty_distinct (snd e)) schema = true.
Proof. vm_compute. reflexivity. Qed.
Print Assumptions C05_schema_unambiguous.
