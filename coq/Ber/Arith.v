(* Arithmetic of identifier, length and INTEGER octets: digit lists and their
   inverses. *)
From Coq Require Import List ZArith Lia Bool ZifyBool.
From Verif Require Import Common.Outcome Common.Bytes Common.BytesLemmas Ber.Model.
Import ListNotations.
Open Scope Z_scope.

Ltac Zify.zify_post_hook ::= Z.div_mod_to_equations.

Lemma digits_S n s x :
  digits (S n) s x = ((x / 2 ^ (s * Z.of_nat n)) mod 2 ^ s) :: digits n s x.
Proof.
  unfold digits. rewrite seq_S, rev_app_distr. cbn [rev app map Nat.add]. reflexivity.
Qed.

Lemma digits_length n s x : length (digits n s x) = n.
Proof. unfold digits. rewrite map_length, rev_length, seq_length. reflexivity. Qed.

Lemma fold_acc l : forall acc,
  fold_left (fun a b => a * 256 + b) l acc =
  acc * 256 ^ zlen l + fold_left (fun a b => a * 256 + b) l 0.
Proof.
  induction l as [|y l IH]; intros acc.
  - cbn [fold_left]. rewrite zlen_nil. lia.
  - cbn [fold_left]. rewrite (IH (acc * 256 + y)), (IH (0 * 256 + y)).
    rewrite zlen_cons. rewrite Z.pow_add_r by (pose proof (zlen_nonneg l); lia). lia.
Qed.

Lemma ufold_app a b : ufold (a ++ b) = ufold a * 256 ^ zlen b + ufold b.
Proof. unfold ufold. rewrite fold_left_app. apply fold_acc. Qed.

Lemma ufold_cons a l : ufold (a :: l) = a * 256 ^ zlen l + ufold l.
Proof.
  change (a :: l) with ([a] ++ l). rewrite ufold_app. unfold ufold at 1. cbn. lia.
Qed.

Lemma ufold_nonneg l : (forall b, In b l -> 0 <= b) -> 0 <= ufold l.
Proof.
  induction l as [|a l IH]; intros H.
  - cbn. lia.
  - rewrite ufold_cons. assert (0 <= a) by (apply H; left; reflexivity).
    assert (0 <= ufold l) by (apply IH; intros; apply H; right; assumption).
    assert (0 <= 256 ^ zlen l) by (apply Z.pow_nonneg; lia). nia.
Qed.

Lemma pow8 n : 2 ^ (8 * Z.of_nat (S n)) = 256 * 2 ^ (8 * Z.of_nat n).
Proof.
  replace (8 * Z.of_nat (S n)) with (8 + 8 * Z.of_nat n) by lia.
  rewrite Z.pow_add_r by lia. reflexivity.
Qed.

Lemma pow256 n : 256 ^ Z.of_nat n = 2 ^ (8 * Z.of_nat n).
Proof.
  change 256 with (2 ^ 8). rewrite <- Z.pow_mul_r by lia. reflexivity.
Qed.

(* big-endian digits of x mod 2^(8n) *)
Lemma ufold_digits n x : ufold (digits n 8 x) = x mod 2 ^ (8 * Z.of_nat n).
Proof.
  induction n as [|n IH].
  - cbn. rewrite Z.mod_1_r. reflexivity.
  - rewrite digits_S, ufold_cons, IH. unfold zlen. rewrite digits_length, pow256.
    rewrite pow8. change (2 ^ 8) with 256.
    assert (0 < 2 ^ (8 * Z.of_nat n)) by (apply Z.pow_pos_nonneg; lia).
    set (m := 2 ^ (8 * Z.of_nat n)) in *.
    rewrite (Z.mul_comm 256 m). rewrite Z.rem_mul_r by lia. lia.
Qed.

Lemma digits_bytes n x b : In b (digits n 8 x) -> 0 <= b < 256.
Proof.
  unfold digits. rewrite in_map_iff. intros [i [<- _]]. change (2 ^ 8) with 256.
  apply Z.mod_pos_bound. lia.
Qed.

(* ---- number of digits ---- *)

Lemma ndigits_pos fuel lim s x : (1 <= ndigits fuel lim s x)%nat.
Proof. destruct fuel; cbn; [lia|]. destruct (x >? lim); lia. Qed.

Lemma ndigits_le fuel lim s x : (ndigits fuel lim s x <= S fuel)%nat.
Proof.
  revert x. induction fuel as [|k IH]; intros x; cbn [ndigits]; [lia|].
  destruct (x >? lim); [|lia]. specialize (IH (x / 2 ^ s)). lia.
Qed.

(* with enough fuel, x fits in the digits counted *)
Lemma ndigits_fits fuel s x :
  0 < s -> 0 <= x < 2 ^ (s * Z.of_nat (S fuel)) ->
  x < 2 ^ (s * Z.of_nat (ndigits fuel (2 ^ s - 1) s x)).
Proof.
  intros Hs. revert x. induction fuel as [|k IH]; intros x Hx.
  - cbn [ndigits]. exact (proj2 Hx).
  - cbn [ndigits]. destruct (x >? 2 ^ s - 1) eqn:E.
    + assert (P : 0 < 2 ^ s) by (apply Z.pow_pos_nonneg; lia).
      assert (Hd : 0 <= x / 2 ^ s < 2 ^ (s * Z.of_nat (S k))).
      { split; [apply Z.div_pos; lia|]. apply Z.div_lt_upper_bound; [lia|].
        rewrite <- Z.pow_add_r by lia. replace (s + s * Z.of_nat (S k)) with (s * Z.of_nat (S (S k))) by lia.
        lia. }
      specialize (IH _ Hd).
      replace (s * Z.of_nat (S (ndigits k (2 ^ s - 1) s (x / 2 ^ s))))
        with (s + s * Z.of_nat (ndigits k (2 ^ s - 1) s (x / 2 ^ s))) by lia.
      rewrite Z.pow_add_r by lia.
      set (q := x / 2 ^ s) in *. set (M := 2 ^ (s * Z.of_nat (ndigits k (2 ^ s - 1) s q))) in *.
      assert (x = 2 ^ s * q + x mod 2 ^ s) by (apply Z.div_mod; lia).
      assert (0 <= x mod 2 ^ s < 2 ^ s) by (apply Z.mod_pos_bound; lia). nia.
    + replace (s * Z.of_nat 1) with s by lia. lia.
Qed.

(* minimality: more than one digit only when needed *)
Lemma ndigits_min fuel s x :
  0 < s -> 0 <= x ->
  (1 < ndigits fuel (2 ^ s - 1) s x)%nat ->
  2 ^ (s * (Z.of_nat (ndigits fuel (2 ^ s - 1) s x) - 1)) <= x.
Proof.
  intros Hs. revert x. induction fuel as [|k IH]; intros x Hx Hn.
  - cbn in Hn. lia.
  - cbn [ndigits] in *. destruct (x >? 2 ^ s - 1) eqn:E; [|lia].
    assert (P : 0 < 2 ^ s) by (apply Z.pow_pos_nonneg; lia).
    set (q := x / 2 ^ s) in *.
    assert (Hq : 0 <= q) by (apply Z.div_pos; lia).
    assert (Hx2 : x = 2 ^ s * q + x mod 2 ^ s) by (apply Z.div_mod; lia).
    assert (0 <= x mod 2 ^ s < 2 ^ s) by (apply Z.mod_pos_bound; lia).
    destruct (Nat.eq_dec (ndigits k (2 ^ s - 1) s q) 1) as [E1|E1].
    + rewrite E1. replace (s * (Z.of_nat 2 - 1)) with s by lia. lia.
    + pose proof (ndigits_pos k (2 ^ s - 1) s q).
      specialize (IH q Hq ltac:(lia)).
      replace (s * (Z.of_nat (S (ndigits k (2 ^ s - 1) s q)) - 1))
        with (s + s * (Z.of_nat (ndigits k (2 ^ s - 1) s q) - 1)) by lia.
      rewrite Z.pow_add_r by nia. nia.
Qed.

(* ---- INTEGER contents ---- *)

Lemma int_len_pos_ge1 fuel z : (1 <= int_len_pos fuel z)%nat.
Proof. destruct fuel; cbn [int_len_pos]; [lia|]. destruct (z >? 127); lia. Qed.
Lemma int_len_neg_ge1 fuel z : (1 <= int_len_neg fuel z)%nat.
Proof. destruct fuel; cbn [int_len_neg]; [lia|]. destruct (z <? -128); lia. Qed.

Lemma int_len_pos_le fuel : forall z, (int_len_pos fuel z <= S fuel)%nat.
Proof.
  induction fuel as [|f IH]; intros z; cbn [int_len_pos]; [lia|].
  destruct (z >? 127); [|lia]. specialize (IH (z / 256)). lia.
Qed.
Lemma int_len_neg_le fuel : forall z, (int_len_neg fuel z <= S fuel)%nat.
Proof.
  induction fuel as [|f IH]; intros z; cbn [int_len_neg]; [lia|].
  destruct (z <? -128); [|lia]. specialize (IH (z / 256)). lia.
Qed.

Lemma int_len_pos_fits fuel z :
  0 <= z < 2 ^ (8 * Z.of_nat (S fuel) - 1) ->
  z < 2 ^ (8 * Z.of_nat (int_len_pos fuel z) - 1).
Proof.
  revert z. induction fuel as [|k IH]; intros z Hz.
  - cbn [int_len_pos]. exact (proj2 Hz).
  - cbn [int_len_pos]. destruct (z >? 127) eqn:E.
    + assert (Hd : 0 <= z / 256 < 2 ^ (8 * Z.of_nat (S k) - 1)).
      { split; [apply Z.div_pos; lia|]. apply Z.div_lt_upper_bound; [lia|].
        change 256 with (2 ^ 8). rewrite <- Z.pow_add_r by lia.
        replace (8 + (8 * Z.of_nat (S k) - 1)) with (8 * Z.of_nat (S (S k)) - 1) by lia. apply Hz. }
      specialize (IH _ Hd).
      replace (8 * Z.of_nat (S (int_len_pos k (z / 256))) - 1)
        with (8 + (8 * Z.of_nat (int_len_pos k (z / 256)) - 1)) by lia.
      pose proof (int_len_pos_ge1 k (z / 256)).
      rewrite Z.pow_add_r by lia. change (2 ^ 8) with 256.
      set (M := 2 ^ (8 * Z.of_nat (int_len_pos k (z / 256)) - 1)) in *. lia.
    + change (8 * Z.of_nat 1 - 1) with 7. change (2 ^ 7) with 128. lia.
Qed.

Lemma int_len_neg_fits fuel z :
  - 2 ^ (8 * Z.of_nat (S fuel) - 1) <= z < 0 ->
  - 2 ^ (8 * Z.of_nat (int_len_neg fuel z) - 1) <= z.
Proof.
  revert z. induction fuel as [|k IH]; intros z Hz.
  - cbn [int_len_neg]. exact (proj1 Hz).
  - cbn [int_len_neg]. destruct (z <? -128) eqn:E.
    + assert (Hd : - 2 ^ (8 * Z.of_nat (S k) - 1) <= z / 256 < 0).
      { replace (8 * Z.of_nat (S (S k)) - 1) with (8 + (8 * Z.of_nat (S k) - 1)) in Hz by lia.
        rewrite Z.pow_add_r in Hz by lia. change (2 ^ 8) with 256 in Hz.
        set (M := 2 ^ (8 * Z.of_nat (S k) - 1)) in *. lia. }
      specialize (IH _ Hd).
      replace (8 * Z.of_nat (S (int_len_neg k (z / 256))) - 1)
        with (8 + (8 * Z.of_nat (int_len_neg k (z / 256)) - 1)) by lia.
      pose proof (int_len_neg_ge1 k (z / 256)).
      rewrite Z.pow_add_r by lia. change (2 ^ 8) with 256.
      set (M := 2 ^ (8 * Z.of_nat (int_len_neg k (z / 256)) - 1)) in *. lia.
    + change (8 * Z.of_nat 1 - 1) with 7. change (2 ^ 7) with 128. lia.
Qed.

Lemma int_len_bounds z :
  - 2 ^ 63 <= z < 2 ^ 63 ->
  (1 <= int_len z <= 9)%nat /\
  - 2 ^ (8 * Z.of_nat (int_len z) - 1) <= z < 2 ^ (8 * Z.of_nat (int_len z) - 1).
Proof.
  intros Hz. unfold int_len. destruct (z >? 127) eqn:E.
  - assert (F := int_len_pos_fits 8 z).
    change (8 * Z.of_nat 9 - 1) with 71 in F.
    assert (2 ^ 63 < 2 ^ 71) by (apply Z.pow_lt_mono_r; lia).
    specialize (F ltac:(lia)).
    assert (1 <= int_len_pos 8 z <= 9)%nat.
    { split; [apply int_len_pos_ge1 | apply int_len_pos_le]. }
    split; [assumption|].
    assert (0 < 2 ^ (8 * Z.of_nat (int_len_pos 8 z) - 1)) by (apply Z.pow_pos_nonneg; lia). lia.
  - assert (1 <= int_len_neg 8 z <= 9)%nat.
    { split; [apply int_len_neg_ge1 | apply int_len_neg_le]. }
    split; [assumption|].
    destruct (Z.ltb_spec z 0) as [Hneg|Hpos].
    + assert (F := int_len_neg_fits 8 z).
      change (8 * Z.of_nat 9 - 1) with 71 in F.
      assert (2 ^ 63 < 2 ^ 71) by (apply Z.pow_lt_mono_r; lia).
      specialize (F ltac:(lia)).
      assert (0 < 2 ^ (8 * Z.of_nat (int_len_neg 8 z) - 1)) by (apply Z.pow_pos_nonneg; lia). lia.
    + assert (int_len_neg 8 z = 1%nat) by (cbn [int_len_neg]; replace (z <? -128) with false by lia; reflexivity).
      rewrite H0. change (8 * Z.of_nat 1 - 1) with 7. change (2 ^ 7) with 128. lia.
Qed.
