(* C04 (second part): whenever the encoder model returns bytes, they are the
   serialisation of the X.690 reference interpretation of the value. *)
From Coq Require Import List ZArith Lia Bool ZifyBool.
From Verif Require Import Common.Outcome Common.Bytes Common.BytesLemmas
  Ber.Model Ber.DecEq Ber.X690 Ber.Arith Ber.RefArith Ber.Safety Ber.WellTyped.
Import ListNotations.
Open Scope Z_scope.

Ltac Zify.zify_post_hook ::= Z.div_mod_to_equations.

Definition tag_ok (p : fparams) : bool :=
  match p_tag p with Some n => (0 <=? n) && (n <? 2 ^ 63) | None => true end.

(* tag numbers are in range and every character string has an ASN.1 type *)
Fixpoint tyok (t : ty) (p : fparams) {struct t} : bool :=
  tag_ok p &&
  match t with
  | TString k => let u := if p_strtype p =? 0 then k else p_strtype p in (0 <? u) && (u <? 2 ^ 63)
  | TPtr t' | TWrap t' => tyok t' p
  | TSlice t' => tyok t' (clear_tag p)
  | TChoice l | TSeq l =>
    (fix go (l : list (fparams * ty)) : bool :=
       match l with [] => true | (fp, ft) :: r => tyok ft fp && go r end) l
  | _ => true
  end.

Definition small (bs : list Z) : Prop := zlen bs < 2 ^ 64.

Lemma small_app_l a b : small (a ++ b) -> small a.
Proof. unfold small. rewrite zlen_app. pose proof (zlen_nonneg b). lia. Qed.
Lemma small_app_r a b : small (a ++ b) -> small b.
Proof. unfold small. rewrite zlen_app. pose proof (zlen_nonneg a). lia. Qed.

Lemma finish_small p c k tn content : small (finish p c k tn content) -> small content.
Proof.
  unfold finish. destruct (p_tag p); [destruct (p_explicit p)|]; intros H.
  - apply small_app_r in H. apply small_app_r in H. exact H.
  - apply small_app_r in H. exact H.
  - apply small_app_r in H. exact H.
Qed.

Lemma tag_ok_range p n : tag_ok p = true -> p_tag p = Some n -> 0 <= n < 2 ^ 63.
Proof. unfold tag_ok. intros H E. rewrite E in H. lia. Qed.

Lemma ser_prim c tn content :
  ser (Prim c tn content) = ident c false tn ++ length_octets (zlen content) ++ content.
Proof. reflexivity. Qed.
Lemma ser_cons c tn ch :
  ser (Cons c tn ch) = ident c true tn ++ length_octets (zlen (ser_list ch)) ++ ser_list ch.
Proof. reflexivity. Qed.

Lemma finish_prim p c tn content :
  tag_ok p = true -> 0 <= tn < 2 ^ 63 -> small (finish p c false tn content) ->
  finish p c false tn content = ser (retag p (Prim c tn content)).
Proof.
  intros Ht Hn Hs. pose proof (finish_small _ _ _ _ _ Hs) as Hc. unfold small in *.
  pose proof (zlen_nonneg content).
  unfold finish, retag in *. destruct (p_tag p) as [n|] eqn:E.
  - pose proof (tag_ok_range p n Ht E).
    destruct (p_explicit p).
    + rewrite ser_cons. cbn [ser_list]. rewrite app_nil_r, ser_prim.
      apply small_app_r in Hs. unfold small in Hs.
      rewrite hdr_eq by (pose proof (zlen_nonneg (hdr c false tn (zlen content) ++ content)); lia).
      rewrite (hdr_eq c false tn) by lia. rewrite <- !app_assoc. reflexivity.
    + rewrite ser_prim, hdr_eq by lia. rewrite <- app_assoc. reflexivity.
  - rewrite ser_prim, hdr_eq by lia. rewrite <- app_assoc. reflexivity.
Qed.

Lemma finish_cons p c tn ch :
  tag_ok p = true -> 0 <= tn < 2 ^ 63 -> small (finish p c true tn (ser_list ch)) ->
  finish p c true tn (ser_list ch) = ser (retag p (Cons c tn ch)).
Proof.
  intros Ht Hn Hs. pose proof (finish_small _ _ _ _ _ Hs) as Hc. unfold small in *.
  pose proof (zlen_nonneg (ser_list ch)).
  unfold finish, retag in *. destruct (p_tag p) as [n|] eqn:E.
  - pose proof (tag_ok_range p n Ht E).
    destruct (p_explicit p).
    + rewrite ser_cons. cbn [ser_list]. rewrite app_nil_r, ser_cons.
      apply small_app_r in Hs. unfold small in Hs.
      rewrite hdr_eq by (pose proof (zlen_nonneg (hdr c true tn (zlen (ser_list ch)) ++ ser_list ch)); lia).
      rewrite (hdr_eq c true tn) by lia. rewrite <- !app_assoc. reflexivity.
    + rewrite ser_cons, hdr_eq by lia. rewrite <- app_assoc. reflexivity.
  - rewrite ser_cons, hdr_eq by lia. rewrite <- app_assoc. reflexivity.
Qed.

Definition ref_ok (t : ty) : Prop :=
  forall p v bs, tyok t p = true -> wtb t v = true -> enc t p v = Ok bs -> small bs ->
    exists x, interp true t p v = Ok x /\ ser x = bs.

Lemma tyok_tag t p : tyok t p = true -> tag_ok p = true.
Proof. destruct t; cbn [tyok]; intros H; apply andb_true_iff in H; exact (proj1 H). Qed.

Lemma enc_pick_ref p n : p_tag p = Some n -> tag_ok p = true -> p_open p = false ->
  forall l ws k bs,
  Forall (fun a => ref_ok (snd a)) l ->
  (fix go (l : list (fparams * ty)) : bool :=
     match l with [] => true | (fp, ft) :: r => tyok ft fp && go r end) l = true ->
  (fix go (l : list (fparams * ty)) (ws : list value) : bool :=
     match l, ws with
     | [], [] => true
     | (_, at') :: l', w :: ws' => wtb at' w && go l' ws'
     | _, _ => false
     end) l ws = true ->
  enc_pick enc p l ws k = Ok bs -> small bs ->
  exists x, interp_pick (interp true) p l ws k = Ok x /\ ser x = bs.
Proof.
  intros Et Ht Eo. induction l as [|[ap at'] l IH]; intros ws k bs HF Hty Hwt He Hs.
  - cbn in He. discriminate.
  - destruct ws as [|w ws]; [discriminate Hwt|].
    apply andb_true_iff in Hwt. destruct Hwt as [Hw Hwr].
    apply andb_true_iff in Hty. destruct Hty as [Hty1 Hty2].
    inversion HF as [|? ? Ha Hl]; subst. cbn [snd] in Ha.
    cbn [enc_pick interp_pick] in *. destruct k as [|k].
    + rewrite Eo, Et in He. rewrite Et.
      destruct (enc at' ap w) as [inner| | |] eqn:Ei; cbn [bind] in He; try discriminate.
      inversion He; subst bs; clear He.
      pose proof (finish_small _ _ _ _ _ Hs) as Hsi.
      destruct (Ha ap w inner Hty1 Hw Ei Hsi) as [x [Hx Hser]].
      rewrite Hx. cbn [bind]. eexists. split; [reflexivity|].
      rewrite ser_cons. cbn [ser_list]. rewrite app_nil_r, Hser.
      unfold finish. cbn [no_explicit p_tag p_explicit]. rewrite Et.
      pose proof (tag_ok_range p n Ht Et). unfold small in Hsi. pose proof (zlen_nonneg inner).
      rewrite hdr_eq by lia. rewrite <- app_assoc. reflexivity.
    + apply IH; assumption.
Qed.

Lemma enc_pick_ref_untagged p : p_tag p = None -> p_open p = false ->
  forall l ws k bs,
  Forall (fun a => ref_ok (snd a)) l ->
  (fix go (l : list (fparams * ty)) : bool :=
     match l with [] => true | (fp, ft) :: r => tyok ft fp && go r end) l = true ->
  (fix go (l : list (fparams * ty)) (ws : list value) : bool :=
     match l, ws with
     | [], [] => true
     | (_, at') :: l', w :: ws' => wtb at' w && go l' ws'
     | _, _ => false
     end) l ws = true ->
  enc_pick enc p l ws k = Ok bs -> small bs ->
  exists x, interp_pick (interp true) p l ws k = Ok x /\ ser x = bs.
Proof.
  intros Et Eo. induction l as [|[ap at'] l IH]; intros ws k bs HF Hty Hwt He Hs.
  - cbn in He. discriminate.
  - destruct ws as [|w ws]; [discriminate Hwt|].
    apply andb_true_iff in Hwt. destruct Hwt as [Hw Hwr].
    apply andb_true_iff in Hty. destruct Hty as [Hty1 Hty2].
    inversion HF as [|? ? Ha Hl]; subst. cbn [snd] in Ha.
    cbn [enc_pick interp_pick] in *. destruct k as [|k].
    + rewrite Eo, Et in He. rewrite Et.
      destruct (Ha ap w bs Hty1 Hw He Hs) as [x [Hx Hser]].
      rewrite Hx. cbn [bind]. eexists. split; [reflexivity | exact Hser].
    + apply IH; assumption.
Qed.

Lemma enc_pick_open p : p_open p = true -> forall l ws k,
  (k < length l)%nat ->
  (fix go (l : list (fparams * ty)) (ws : list value) : bool :=
     match l, ws with
     | [], [] => true
     | (_, at') :: l', w :: ws' => wtb at' w && go l' ws'
     | _, _ => false
     end) l ws = true ->
  enc_pick enc p l ws k = Err.
Proof.
  intros Eo. induction l as [|[ap at'] l IH]; intros ws k Hk Hwt; [cbn in Hk; lia|].
  destruct ws as [|w ws]; [discriminate Hwt|].
  apply andb_true_iff in Hwt. destruct Hwt as [_ Hwr].
  cbn [enc_pick]. destruct k.
  - rewrite Eo. reflexivity.
  - apply IH; [cbn in Hk; lia | exact Hwr].
Qed.

Lemma enc_seq_go_ref : forall l ws content,
  Forall (fun a => ref_ok (snd a)) l ->
  (fix go (l : list (fparams * ty)) : bool :=
     match l with [] => true | (fp, ft) :: r => tyok ft fp && go r end) l = true ->
  (fix go (l : list (fparams * ty)) (ws : list value) : bool :=
     match l, ws with
     | [], [] => true
     | (_, ft) :: l', w :: ws' => wtb ft w && go l' ws'
     | _, _ => false
     end) l ws = true ->
  enc_seq_go enc l ws = Ok content -> small content ->
  exists ch, interp_seq_go (interp true) l ws = Ok ch /\ ser_list ch = content.
Proof.
  induction l as [|[fp ft] l IH]; intros ws content HF Hty Hwt He Hs.
  - destruct ws; [|discriminate Hwt]. cbn in He. inversion He. exists []. split; reflexivity.
  - destruct ws as [|w ws]; [discriminate Hwt|].
    apply andb_true_iff in Hwt. destruct Hwt as [Hw Hwr].
    apply andb_true_iff in Hty. destruct Hty as [Hty1 Hty2].
    inversion HF as [|? ? Ha Hl]; subst. cbn [snd] in Ha.
    cbn [enc_seq_go interp_seq_go] in *.
    destruct (p_optional fp && (if nillable ft then false else true)); [discriminate He|].
    destruct (p_optional fp && is_nil w).
    + apply IH; assumption.
    + destruct (p_open fp); [discriminate He|].
      destruct (enc ft fp w) as [b| | |] eqn:Eb; try discriminate He.
      destruct (enc_seq_go enc l ws) as [r| | |] eqn:Er; cbn [bind] in He; try discriminate He.
      inversion He; subst content; clear He.
      destruct (Ha fp w b Hty1 Hw Eb (small_app_l _ _ Hs)) as [x [Hx Hsx]].
      destruct (IH ws r Hl Hty2 Hwr Er (small_app_r _ _ Hs)) as [ch [Hch Hsch]].
      rewrite Hx. cbn [bind]. rewrite Hch. cbn [bind].
      eexists. split; [reflexivity|]. cbn [ser_list]. fold (ser_list ch). rewrite Hsx, Hsch. reflexivity.
Qed.

Lemma enc_slice_go_ref t' p : ref_ok t' -> tyok t' (clear_tag p) = true ->
  forall ws content,
  (fix go (ws : list value) : bool :=
     match ws with [] => true | w :: r => wtb t' w && go r end) ws = true ->
  enc_slice_go enc t' p ws = Ok content -> small content ->
  exists ch, interp_slice_go (interp true) t' p ws = Ok ch /\ ser_list ch = content.
Proof.
  intros Ht Hty. induction ws as [|w ws IH]; intros content Hwt He Hs.
  - cbn in He. inversion He. exists []. split; reflexivity.
  - apply andb_true_iff in Hwt. destruct Hwt as [Hw Hwr].
    cbn [enc_slice_go interp_slice_go] in *.
    destruct (enc t' (clear_tag p) w) as [b| | |] eqn:Eb; cbn [bind] in He; try discriminate He.
    destruct (enc_slice_go enc t' p ws) as [r| | |] eqn:Er; cbn [bind] in He; try discriminate He.
    inversion He; subst content; clear He.
    destruct (Ht (clear_tag p) w b Hty Hw Eb (small_app_l _ _ Hs)) as [x [Hx Hsx]].
    destruct (IH r Hwr eq_refl (small_app_r _ _ Hs)) as [ch [Hch Hsch]].
    rewrite Hx. cbn [bind]. rewrite Hch. cbn [bind].
    eexists. split; [reflexivity|]. cbn [ser_list]. fold (ser_list ch). rewrite Hsx, Hsch. reflexivity.
Qed.

Lemma bits_unused n : 0 <= n -> (8 - n mod 8) mod 8 = 8 * ((n + 7) / 8) - n.
Proof. intros H. lia. Qed.

Lemma int64_ok_range z : int64_ok z = true -> - 2 ^ 63 <= z < 2 ^ 63.
Proof. unfold int64_ok. change (2 ^ 63) with 9223372036854775808. lia. Qed.

Theorem enc_ref : forall t, ref_ok t.
Proof.
  induction t using ty_ind'; unfold ref_ok; intros p v bs Hty Hwt He Hs;
    pose proof (tyok_tag _ _ Hty) as Htag;
    rewrite enc_unfold in He; rewrite interp_unfold;
    cbn [enc_step interp_step] in *; cbn [wtb] in Hwt; cbn [tyok] in Hty;
    apply andb_true_iff in Hty; destruct Hty as [_ Hty].
  - (* TBool *) destruct v; try discriminate. inversion He; subst bs.
    eexists. split; [reflexivity|]. symmetry. apply finish_prim; [exact Htag | lia | exact Hs].
  - (* TInt *) destruct v; try discriminate. inversion He; subst bs.
    eexists. split; [reflexivity|]. rewrite <- int_bytes_eq by (apply int64_ok_range; exact Hwt).
    symmetry. apply finish_prim; [exact Htag | lia | exact Hs].
  - (* TEnum *) destruct v; try discriminate. inversion He; subst bs.
    eexists. split; [reflexivity|]. rewrite <- int_bytes_eq by (apply int64_ok_range; exact Hwt).
    symmetry. apply finish_prim; [exact Htag | lia | exact Hs].
  - (* TOctets *) destruct v; try discriminate; cbn [bytes_of] in He; inversion He; subst bs;
      (eexists; split; [reflexivity|]; symmetry; apply finish_prim; [exact Htag | lia | exact Hs]).
  - (* TBits *) destruct v; try discriminate. inversion He; subst bs.
    eexists. split; [reflexivity|]. rewrite <- bits_unused by lia.
    symmetry. apply finish_prim; [exact Htag | lia | exact Hs].
  - (* TNull *) destruct v; try discriminate. inversion He; subst bs.
    eexists. split; [reflexivity|]. symmetry. apply finish_prim; [exact Htag | lia | exact Hs].
  - (* TOid *) discriminate.
  - (* TString *) destruct v; try discriminate. inversion He; subst bs. cbv zeta. cbn [andb].
    destruct (p_strtype p =? 0) eqn:E.
    + replace (k =? 0) with false by lia. eexists. split; [reflexivity|].
      symmetry. apply finish_prim; [exact Htag | lia | exact Hs].
    + rewrite E. eexists. split; [reflexivity|].
      symmetry. apply finish_prim; [exact Htag | lia | exact Hs].
  - (* TPtr *) destruct v; try discriminate. apply IHt; assumption.
  - (* TWrap *) destruct v as [| | | | | |[|v0 [|? ?]]|]; try discriminate. apply IHt; assumption.
  - (* TChoice *)
    destruct v as [| | | | | |[|[| pr | | | | | |] vs]|]; try discriminate.
    apply andb_true_iff in Hwt. destruct Hwt as [_ Hwt].
    destruct (pr <=? 0) eqn:E1; [discriminate|].
    destruct (pr >=? 1 + zlen l) eqn:E2; [discriminate|].
    replace (pr <? 1) with false by lia. replace (zlen l <? pr) with false by lia. cbn [orb].
    destruct (p_open p) eqn:Eo.
    { exfalso. rewrite (enc_pick_open p Eo) in He; [discriminate | unfold zlen in E2; lia | exact Hwt]. }
    destruct (p_tag p) as [n|] eqn:Et.
    + apply (enc_pick_ref p n Et Htag Eo); assumption.
    + apply (enc_pick_ref_untagged p Et Eo); assumption.
  - (* TSeq *)
    destruct v as [| | | | | |vs|]; try discriminate.
    destruct (enc_seq_go enc l vs) as [content| | |] eqn:Ec; cbn [bind] in He; try discriminate.
    inversion He; subst bs; clear He.
    destruct (enc_seq_go_ref l vs content H Hty Hwt Ec (finish_small _ _ _ _ _ Hs)) as [ch [Hch Hsc]].
    rewrite Hch. cbn [bind]. eexists. split; [reflexivity|].
    subst content. symmetry. unfold seq_tag in *.
    apply finish_cons; [exact Htag | destruct (p_set p); lia | exact Hs].
  - (* TSlice *)
    assert (exists vs, (match v with VSlice vs => Some vs | VNil => Some [] | _ => None end) = Some vs /\
              (fix go (ws : list value) : bool :=
                 match ws with [] => true | w :: r => wtb t w && go r end) vs = true) as [vs [Ev Hwv]].
    { destruct v; try discriminate; eexists; split; try reflexivity; exact Hwt. }
    rewrite Ev in *.
    destruct (enc_slice_go enc t p vs) as [content| | |] eqn:Ec; cbn [bind] in He; try discriminate.
    inversion He; subst bs; clear He.
    destruct (enc_slice_go_ref t p IHt Hty vs content Hwv Ec (finish_small _ _ _ _ _ Hs)) as [ch [Hch Hsc]].
    rewrite Hch. cbn [bind]. eexists. split; [reflexivity|].
    subst content. symmetry. unfold seq_tag in *.
    apply finish_cons; [exact Htag | destruct (p_set p); lia | exact Hs].
  - (* TUnsupported *) discriminate.
Qed.

Corollary enc_matches_reference t p v bs :
  tyok t p = true -> wtb t v = true -> enc t p v = Ok bs -> zlen bs < 2 ^ 64 ->
  reference t p v = Ok bs.
Proof.
  intros Hty Hwt He Hs. destruct (enc_ref t p v bs Hty Hwt He Hs) as [x [Hx Hser]].
  unfold reference. rewrite Hx. cbn [bind]. rewrite Hser. reflexivity.
Qed.
