(* parseTagAndLength inverts appendTagAndLen; parseSignedInt64 inverts
   int64Encoder (model level). *)
From Coq Require Import List ZArith Lia Bool ZifyBool.
From Verif Require Import Common.Outcome Common.Bytes Common.BytesLemmas
  Ber.Model Ber.Arith Ber.RefArith.
Import ListNotations.
Open Scope Z_scope.

Ltac Zify.zify_post_hook ::= Z.div_mod_to_equations.

(* the continuation-bit bytes of a high tag number *)
Definition tagbyte (tn : Z) (i : nat) : Z :=
  let d := (tn / 2 ^ (7 * Z.of_nat i)) mod 128 in if Nat.eqb i 0 then d else d + 128.

Lemma nth_error_mid {A} (pre : list A) x post :
  nth_error (pre ++ x :: post) (length pre) = Some x.
Proof. induction pre; cbn; auto. Qed.

Lemma tagnum_loop_bytes tn : forall n pre post acc fuel,
  (1 <= n)%nat -> (n <= fuel)%nat -> 0 <= acc -> 0 <= tn ->
  acc * 2 ^ (7 * Z.of_nat n) + tn mod 2 ^ (7 * Z.of_nat n) < 2 ^ 64 ->
  tagnum_loop fuel (pre ++ map (tagbyte tn) (rev (seq 0 n)) ++ post) (zlen pre) acc =
  (acc * 2 ^ (7 * Z.of_nat n) + tn mod 2 ^ (7 * Z.of_nat n), zlen pre + Z.of_nat n).
Proof.
  induction n as [|n IH]; intros pre post acc fuel Hn Hf Ha Ht Hw; [lia|].
  destruct fuel as [|fk]; [lia|].
  rewrite seq_S, rev_app_distr. cbn [rev app map Nat.add]. cbn [tagnum_loop].
  unfold zlen at 1. rewrite Nat2Z.id, nth_error_mid.
  assert (P : 0 < 2 ^ (7 * Z.of_nat n)) by (apply Z.pow_pos_nonneg; lia).
  assert (E7 : 2 ^ (7 * Z.of_nat (S n)) = 128 * 2 ^ (7 * Z.of_nat n)).
  { replace (7 * Z.of_nat (S n)) with (7 + 7 * Z.of_nat n) by lia. rewrite Z.pow_add_r by lia. reflexivity. }
  set (M := 2 ^ (7 * Z.of_nat n)) in *.
  assert (Hd : 0 <= (tn / M) mod 128 < 128) by (apply Z.mod_pos_bound; lia).
  assert (Hsplit : tn mod (128 * M) = tn mod M + M * ((tn / M) mod 128)).
  { rewrite (Z.mul_comm 128 M). apply Z.rem_mul_r; lia. }
  assert (Hm : 0 <= tn mod M < M) by (apply Z.mod_pos_bound; lia).
  rewrite E7 in Hw. rewrite Hsplit in Hw.
  destruct n as [|n'].
  - (* last digit: no continuation bit *)
    unfold tagbyte. cbn [Nat.eqb]. unfold M in *. cbn [Z.of_nat Z.mul] in *.
    change (2 ^ 0) with 1 in *. rewrite Z.div_1_r in *.
    rewrite (Z.mod_small (acc * 128)) by lia.
    rewrite Z.mod_mod by lia.
    replace (tn mod 128 / 128 =? 0) with true by lia.
    change (2 ^ (7 * 1)) with 128. f_equal; lia.
  - assert (TBm : tagbyte tn (S n') mod 128 = (tn / M) mod 128)
      by (unfold tagbyte; cbn [Nat.eqb]; fold M; lia).
    assert (TBd : (tagbyte tn (S n') / 128 =? 0) = false)
      by (unfold tagbyte; cbn [Nat.eqb]; fold M; lia).
    rewrite (Z.mod_small (acc * 128)) by nia. rewrite TBd, TBm.
    replace (zlen pre + 1) with (zlen (pre ++ [tagbyte tn (S n')]))
      by (rewrite zlen_app, zlen_cons, zlen_nil; lia).
    replace (pre ++ tagbyte tn (S n') :: map (tagbyte tn) (rev (seq 0 (S n'))) ++ post)
      with ((pre ++ [tagbyte tn (S n')]) ++ map (tagbyte tn) (rev (seq 0 (S n'))) ++ post)
      by (rewrite <- app_assoc; reflexivity).
    rewrite IH; try lia; try (fold M; nia).
    fold M. rewrite E7, Hsplit. f_equal; [lia|].
    rewrite zlen_app, zlen_cons, zlen_nil. lia.
Qed.

Lemma tag_octets_high tn :
  30 < tn -> tag_octets 0 false tn = tag_octets 0 false tn.
Proof. reflexivity. Qed.

(* number of base-128 groups of a tag number below 2^63 *)
Lemma tag_ndigits tn : 0 <= tn < 2 ^ 63 ->
  (1 <= ndigits 10 127 7 tn <= 9)%nat /\ tn < 2 ^ (7 * Z.of_nat (ndigits 10 127 7 tn)).
Proof.
  intros H. pose proof (ndigits_pos 10 127 7 tn).
  assert (F : tn < 2 ^ (7 * Z.of_nat (ndigits 10 (2 ^ 7 - 1) 7 tn))).
  { apply ndigits_fits; [lia|]. change (7 * Z.of_nat 11) with 77.
    assert (2 ^ 63 < 2 ^ 77) by (apply Z.pow_lt_mono_r; lia). lia. }
  change (2 ^ 7 - 1) with 127 in F. split; [|exact F]. split; [lia|].
  destruct (le_lt_dec (ndigits 10 127 7 tn) 9) as [L|G]; [exact L|exfalso].
  pose proof (ndigits_min 10 7 tn ltac:(lia) ltac:(lia)) as M. change (2 ^ 7 - 1) with 127 in M.
  specialize (M ltac:(lia)).
  assert (2 ^ 63 <= 2 ^ (7 * (Z.of_nat (ndigits 10 127 7 tn) - 1))) by (apply Z.pow_le_mono_r; lia).
  lia.
Qed.

Lemma len_ndigits len : 127 < len < 2 ^ 32 ->
  (1 <= ndigits 8 255 8 len <= 4)%nat /\ len < 2 ^ (8 * Z.of_nat (ndigits 8 255 8 len)).
Proof.
  intros H. pose proof (ndigits_pos 8 255 8 len).
  assert (F : len < 2 ^ (8 * Z.of_nat (ndigits 8 (2 ^ 8 - 1) 8 len))).
  { apply ndigits_fits; [lia|]. change (8 * Z.of_nat 9) with 72.
    assert (2 ^ 32 < 2 ^ 72) by (apply Z.pow_lt_mono_r; lia). lia. }
  change (2 ^ 8 - 1) with 255 in F. split; [|exact F]. split; [lia|].
  destruct (le_lt_dec (ndigits 8 255 8 len) 4) as [L|G]; [exact L|exfalso].
  pose proof (ndigits_min 8 8 len ltac:(lia) ltac:(lia)) as M. change (2 ^ 8 - 1) with 255 in M.
  specialize (M ltac:(lia)).
  assert (2 ^ 32 <= 2 ^ (8 * (Z.of_nat (ndigits 8 255 8 len) - 1))) by (apply Z.pow_le_mono_r; lia).
  lia.
Qed.

Lemma tag_octets_len c k tn : 1 <= zlen (tag_octets c k tn).
Proof.
  unfold tag_octets. destruct (tn <=? 30); rewrite zlen_cons;
    match goal with |- 1 <= 1 + zlen ?l => pose proof (zlen_nonneg l); lia end.
Qed.

Lemma len_octets_len len : 1 <= zlen (len_octets len).
Proof.
  unfold len_octets. destruct (len <=? 127); rewrite zlen_cons;
    match goal with |- 1 <= 1 + zlen ?l => pose proof (zlen_nonneg l); lia end.
Qed.

(* length octets: reading them back *)
Lemma parse_len_octets pre len post :
  0 <= len < 2 ^ 32 ->
  let bs := pre ++ len_octets len ++ post in
  let off := zlen pre in
  (do lb <- idx bs off;
   if lb <=? 127 then Ok (lb, off + 1)
   else let n := lb mod 128 in
        if n >? 4 then Err
        else if off + 1 + n >? zlen bs then Err
        else do s <- slice bs (off + 1) (off + 1 + n); Ok (ufold s, off + 1 + n))
  = Ok (len, zlen pre + zlen (len_octets len)).
Proof.
  intros Hl bs off. unfold bs, off, len_octets.
  destruct (len <=? 127) eqn:E.
  - replace (zlen pre) with (zlen pre + 0) at 1 by lia. rewrite idx_shift by lia.
    change (idx (([len]) ++ post) 0) with (Ok len). cbn [bind]. rewrite E.
    rewrite zlen_cons, zlen_nil. replace (1 + 0) with 1 by lia. reflexivity.
  - destruct (len_ndigits len ltac:(lia)) as [[N1 N2] N3].
    set (n := ndigits 8 255 8 len) in *.
    replace (zlen pre) with (zlen pre + 0) at 1 by lia. rewrite idx_shift by lia.
    change (idx (((128 + Z.of_nat n) :: digits n 8 len) ++ post) 0) with (Ok (128 + Z.of_nat n)).
    cbn [bind]. replace (128 + Z.of_nat n <=? 127) with false by lia.
    replace ((128 + Z.of_nat n) mod 128) with (Z.of_nat n) by lia.
    replace (Z.of_nat n >? 4) with false by lia.
    rewrite !zlen_app, zlen_cons. unfold zlen at 3. rewrite digits_length.
    replace (zlen pre + 1 + Z.of_nat n >? zlen pre + (1 + Z.of_nat n + zlen post)) with false
      by (pose proof (zlen_nonneg post); lia).
    replace (pre ++ ((128 + Z.of_nat n) :: digits n 8 len) ++ post)
      with ((pre ++ [128 + Z.of_nat n]) ++ digits n 8 len ++ post)
      by (rewrite <- app_assoc; reflexivity).
    replace (zlen pre + 1) with (zlen (pre ++ [128 + Z.of_nat n]) + 0)
      by (rewrite zlen_app, zlen_cons, zlen_nil; lia).
    replace (zlen (pre ++ [128 + Z.of_nat n]) + 0 + Z.of_nat n)
      with (zlen (pre ++ [128 + Z.of_nat n]) + Z.of_nat n) by lia.
    rewrite slice_shift by lia.
    rewrite (slice0_app (digits n 8 len) post) by (unfold zlen; rewrite digits_length; reflexivity).
    cbn [bind]. rewrite ufold_digits. rewrite Z.mod_small by lia.
    f_equal. f_equal. rewrite zlen_app, zlen_cons, zlen_nil.
    assert (zlen (digits n 8 len) = Z.of_nat n) by (unfold zlen; rewrite digits_length; reflexivity). lia.
Qed.

Definition cls_ok (c : Z) : Prop := 0 <= c <= 3.

Definition len_block {A} (mk : Z -> A) (bs : list Z) (off : Z) : outcome (A * Z) :=
  do lb <- idx bs off;
  if lb <=? 127 then Ok (mk lb, off + 1)
  else let n := lb mod 128 in
       if n >? 4 then Err
       else if off + 1 + n >? zlen bs then Err
       else do s <- slice bs (off + 1) (off + 1 + n); Ok (mk (ufold s), off + 1 + n).

Lemma len_block_map {A} (mk : Z -> A) bs off len o :
  len_block (fun x => x) bs off = Ok (len, o) -> len_block mk bs off = Ok (mk len, o).
Proof.
  unfold len_block. destruct (idx bs off) as [lb| | |]; cbn [bind]; try discriminate.
  destruct (lb <=? 127).
  - intros H. inversion H; subst. reflexivity.
  - cbv zeta. destruct (lb mod 128 >? 4); [discriminate|].
    destruct (off + 1 + lb mod 128 >? zlen bs); [discriminate|].
    destruct (slice bs (off + 1) (off + 1 + lb mod 128)); cbn [bind]; try discriminate.
    intros H. inversion H; subst. reflexivity.
Qed.

Lemma parse_len_block pre len post :
  0 <= len < 2 ^ 32 ->
  len_block (fun x => x) (pre ++ len_octets len ++ post) (zlen pre) =
  Ok (len, zlen pre + zlen (len_octets len)).
Proof. intros H. exact (parse_len_octets pre len post H). Qed.

Lemma parse_tl_unfold b0 r :
  parse_tl (b0 :: r) =
  let bs := b0 :: r in
  let cls := b0 / 64 in
  let constr := negb ((b0 / 32) mod 2 =? 0) in
  let '(tn, off) :=
    if b0 mod 32 =? 31 then tagnum_loop (length bs) bs 1 0 else (b0 mod 32, 1) in
  if (b0 mod 32 =? 31) && (off >? 10) then Err
  else if off >=? zlen bs then Err
  else len_block (fun l => mkTal cls constr tn l) bs off.
Proof. reflexivity. Qed.

Theorem parse_hdr c k tn len rest :
  cls_ok c -> 0 <= tn < 2 ^ 63 -> 0 <= len < 2 ^ 32 ->
  parse_tl (hdr c k tn len ++ rest) = Ok (mkTal c k tn len, zlen (hdr c k tn len)).
Proof.
  intros Hc Ht Hl. unfold cls_ok in Hc. unfold hdr. rewrite <- app_assoc.
  pose proof (len_octets_len len) as LL.
  unfold tag_octets. destruct (tn <=? 30) eqn:E.
  - (* low tag number *)
    set (b0 := c * 64 + (if k then 32 else 0) + tn).
    assert (Hb0 : b0 / 64 = c /\ negb ((b0 / 32) mod 2 =? 0) = k /\ b0 mod 32 = tn).
    { unfold b0. destruct k; cbn [negb]; repeat split; lia. }
    destruct Hb0 as [B1 [B2 B3]].
    change ([b0] ++ len_octets len ++ rest) with (b0 :: (len_octets len ++ rest)).
    rewrite parse_tl_unfold. cbv zeta. rewrite B1, B2, B3.
    replace (tn =? 31) with false by lia. cbn [andb].
    replace (1 >=? zlen (b0 :: len_octets len ++ rest)) with false
      by (rewrite zlen_cons, zlen_app; pose proof (zlen_nonneg rest); lia).
    pose proof (parse_len_block [b0] len rest Hl) as PL.
    change (zlen [b0]) with 1 in PL.
    change ([b0] ++ len_octets len ++ rest) with (b0 :: (len_octets len ++ rest)) in PL.
    rewrite (len_block_map _ _ _ _ _ PL). rewrite zlen_app. reflexivity.
  - (* high tag number *)
    destruct (tag_ndigits tn Ht) as [[N1 N2] N3].
    set (n := ndigits 10 127 7 tn) in *.
    set (b0 := c * 64 + (if k then 32 else 0) + 31).
    assert (Hb0 : b0 / 64 = c /\ negb ((b0 / 32) mod 2 =? 0) = k /\ b0 mod 32 = 31).
    { unfold b0. destruct k; cbn [negb]; repeat split; lia. }
    destruct Hb0 as [B1 [B2 B3]].
    match goal with |- context [map ?f (rev (seq 0 n))] => change f with (tagbyte tn) end.
    set (TB := map (tagbyte tn) (rev (seq 0 n))).
    assert (LTB : zlen TB = Z.of_nat n) by (unfold TB, zlen; rewrite map_length, rev_length, seq_length; reflexivity).
    change ((b0 :: TB) ++ len_octets len ++ rest) with (b0 :: (TB ++ len_octets len ++ rest)).
    rewrite parse_tl_unfold. cbv zeta. rewrite B1, B2, B3. cbn [Z.eqb Pos.eqb andb].
    pose proof (tagnum_loop_bytes tn n [b0] (len_octets len ++ rest) 0
                  (length (b0 :: TB ++ len_octets len ++ rest))) as TL.
    change (zlen [b0]) with 1 in TL. fold TB in TL.
    change ([b0] ++ TB ++ len_octets len ++ rest) with (b0 :: TB ++ len_octets len ++ rest) in TL.
    rewrite TL; try lia.
    2:{ cbn [length]. rewrite app_length. unfold zlen in LTB. lia. }
    2:{ rewrite Z.mul_0_l, Z.add_0_l. rewrite Z.mod_small by lia.
        assert (2 ^ 63 < 2 ^ 64) by (apply Z.pow_lt_mono_r; lia). lia. }
    rewrite Z.mul_0_l, Z.add_0_l, Z.mod_small by lia.
    replace (1 + Z.of_nat n >? 10) with false by lia.
    replace (1 + Z.of_nat n >=? zlen (b0 :: TB ++ len_octets len ++ rest)) with false
      by (rewrite zlen_cons, !zlen_app, LTB; pose proof (zlen_nonneg rest); lia).
    pose proof (parse_len_block (b0 :: TB) len rest Hl) as PL.
    rewrite zlen_cons, LTB in PL.
    change ((b0 :: TB) ++ len_octets len ++ rest) with (b0 :: TB ++ len_octets len ++ rest) in PL.
    rewrite (len_block_map _ _ _ _ _ PL). rewrite zlen_app, zlen_cons, LTB. reflexivity.
Qed.

(* ---- INTEGER contents ---- *)

Lemma int_len_le8 z : - 2 ^ 63 <= z < 2 ^ 63 -> (int_len z <= 8)%nat.
Proof.
  intros Hz. destruct (int_len_bounds z Hz) as [[L1 L2] _].
  destruct (le_lt_dec (int_len z) 8) as [L|G]; [exact L|exfalso].
  assert (int_len z = 9%nat) by lia.
  pose proof (int_len_min z 8 Hz ltac:(lia)) as M. unfold fits in M.
  change (8 * 8 - 1) with 63 in M. lia.
Qed.

Theorem parse_signed_int_bytes z : - 2 ^ 63 <= z < 2 ^ 63 -> parse_signed (int_bytes z) = Ok z.
Proof.
  intros Hz. destruct (int_len_bounds z Hz) as [[L1 _] [B1 B2]].
  pose proof (int_len_le8 z Hz) as L8.
  unfold int_bytes. set (n := int_len z) in *.
  destruct n as [|m] eqn:En; [lia|].
  rewrite digits_S. unfold parse_signed.
  rewrite zlen_cons. unfold zlen. rewrite digits_length.
  replace (1 + Z.of_nat m >? 8) with false by lia.
  rewrite <- digits_S. rewrite ufold_digits.
  replace (1 + Z.of_nat m) with (Z.of_nat (S m)) by lia. rewrite pow256.
  assert (P : 0 < 2 ^ (8 * Z.of_nat m)) by (apply Z.pow_pos_nonneg; lia).
  assert (E8 : 2 ^ (8 * Z.of_nat (S m)) = 256 * 2 ^ (8 * Z.of_nat m)) by apply pow8.
  assert (E7 : 2 ^ (8 * Z.of_nat (S m) - 1) = 128 * 2 ^ (8 * Z.of_nat m)).
  { replace (8 * Z.of_nat (S m) - 1) with (7 + 8 * Z.of_nat m) by lia. rewrite Z.pow_add_r by lia. reflexivity. }
  rewrite E7 in *. rewrite E8. change (2 ^ 8) with 256.
  set (M := 2 ^ (8 * Z.of_nat m)) in *.
  assert (Hq : -128 <= z / M <= 127).
  { split; [apply Z.div_le_lower_bound; lia|].
    assert (z / M < 128) by (apply Z.div_lt_upper_bound; lia). lia. }
  assert (Hz2 : z = M * (z / M) + z mod M) by (apply Z.div_mod; lia).
  assert (Hm : 0 <= z mod M < M) by (apply Z.mod_pos_bound; lia).
  destruct (Z.ltb_spec z 0) as [Hneg|Hpos].
  - assert (z / M < 0) by (apply Z.div_lt_upper_bound; lia).
    replace ((z / M) mod 256 / 128 =? 0) with false by lia.
    f_equal. assert (z mod (256 * M) = z + 256 * M).
    { symmetry. apply Z.mod_unique_pos with (q := -1); nia. }
    lia.
  - assert (0 <= z / M) by (apply Z.div_pos; lia).
    replace ((z / M) mod 256 / 128 =? 0) with true by lia.
    f_equal. apply Z.mod_small. nia.
Qed.
