(* Correspondence and monitor evaluation for the BER codec.
   Codes returned by [run_bcases] (round-trip cases written by bercorr -mode rt):
     1  enc (model) <> outcome of Go BerMarshalWithParams         (correspondence)
     2  dec (model) on Go's bytes <> outcome of Go Unmarshal       (correspondence)
     3  C04 monitor on the implementation: Go's bytes are not the reference
        X.690 encoding of the value (ser (interp ...)), or Go panicked
     4  C05 monitor on the implementation: Go decoded something other than the
        (canonical form of the) value it encoded
     31 as 3, but the only difference is the universal tag of a character string
        that has no string-type parameter (repaired in /repo; reported as a violation)
     41 as 4, for a type/params using EXPLICIT tagging (repaired in /repo; reported as a violation)
     5  C04: Go marshal panicked
     90 (not a mismatch) a marshalled value outside the hypotheses [ok] of C05_roundtrip, type or
        parameters using EXPLICIT tagging; 92 likewise, for any other reason
   and by [run_dcases] (arbitrary bytes, bercorr -mode dec):
     6  dec (model) <> outcome of Go Unmarshal                     (correspondence)
     7  C16 monitor on the implementation: Go panicked or did not terminate
     71 C16 monitor: input whose identifier octets are not the ones the target type and
        parameters require (WrongType.expected) was accepted instead of reported as an error
     72 C16 monitor: input whose outer header announces more contents than there are was accepted *)
From Coq Require Import List ZArith Bool.
From Verif Require Import Common.Outcome Common.Bytes Ber.Model Ber.X690 Ber.WrongType Ber.Roundtrip.
Import ListNotations.
Open Scope Z_scope.

Fixpoint zlist_eqb (a b : list Z) : bool :=
  match a, b with
  | [], [] => true
  | x :: xs, y :: ys => (x =? y) && zlist_eqb xs ys
  | _, _ => false
  end.

Fixpoint value_eqb (a b : value) {struct a} : bool :=
  match a, b with
  | VBool x, VBool y => Bool.eqb x y
  | VInt x, VInt y => x =? y
  | VBytes x, VBytes y => zlist_eqb x y
  | VBits x n, VBits y m => zlist_eqb x y && (n =? m)
  | VNil, VNil => true
  | VPtr x, VPtr y => value_eqb x y
  | VStruct xs, VStruct ys =>
    (fix go (l1 l2 : list value) : bool :=
       match l1, l2 with
       | [], [] => true
       | x :: r1, y :: r2 => value_eqb x y && go r1 r2
       | _, _ => false
       end) xs ys
  | VSlice xs, VSlice ys =>
    (fix go (l1 l2 : list value) : bool :=
       match l1, l2 with
       | [], [] => true
       | x :: r1, y :: r2 => value_eqb x y && go r1 r2
       | _, _ => false
       end) xs ys
  | _, _ => false
  end.

Definition outcome_eqb {A} (eqb : A -> A -> bool) (a b : outcome A) : bool :=
  match a, b with
  | Ok x, Ok y => eqb x y
  | Err, Err | Panic, Panic | OutOfFuel, OutOfFuel => true
  | _, _ => false
  end.

Fixpoint has_explicit (t : ty) : bool :=
  match t with
  | TPtr t' | TWrap t' | TSlice t' => has_explicit t'
  | TChoice l | TSeq l =>
    (fix go (l : list (fparams * ty)) : bool :=
       match l with [] => false
       | (fp, ft) :: r => p_explicit fp && (match p_tag fp with Some _ => true | None => false end)
                          || has_explicit ft || go r end) l
  | _ => false
  end.

Fixpoint has_untagged (t : ty) : bool :=
  match t with
  | TPtr t' | TWrap t' | TSlice t' => has_untagged t'
  | TChoice l | TSeq l =>
    (fix go (l : list (fparams * ty)) : bool :=
       match l with [] => false
       | (fp, ft) :: r => (match p_tag fp with Some _ => false | None => true end)
                          || has_untagged ft || go r end) l
  | _ => false
  end.

Record bcase := mkBcase {
  bc_id : Z; bc_ty : ty; bc_p : fparams; bc_v : value;
  bc_enc : outcome (list Z); bc_dec : outcome value }.

Definition check_bcase (c : bcase) : list (Z * Z) :=
  let t := bc_ty c in let p := bc_p c in let v := bc_v c in
  let i := bc_id c in
  let m_enc := enc t p v in
  (if outcome_eqb zlist_eqb m_enc (bc_enc c) then [] else [(i, 1)]) ++
  (* 90: not a mismatch -- the case lies outside the hypotheses of C05_roundtrip (counted) *)
  (match bc_enc c with
   | Ok _ => if ok t p v then []
             else if (p_explicit p && (match p_tag p with Some _ => true | None => false end)) || has_explicit t
                  then [(i, 90)] else [(i, 92)]
   | _ => [] end) ++
  match bc_enc c with
  | Ok bs =>
    (if outcome_eqb value_eqb (dec t p bs) (bc_dec c) then [] else [(i, 2)]) ++
    (if outcome_eqb zlist_eqb (reference t p v) (Ok bs) then []
     else if outcome_eqb zlist_eqb (reference_lenient t p v) (Ok bs) then [(i, 31)]
     else [(i, 3)]) ++
    (if outcome_eqb value_eqb (bc_dec c) (Ok (canon t false v)) then []
     else if (p_explicit p && (match p_tag p with Some _ => true | None => false end)) || has_explicit t
          then [(i, 41)]
     else [(i, 4)])
  | Panic => [(i, 5)]
  | _ => []
  end.

Definition run_bcases (cs : list bcase) : list (Z * Z) := flat_map check_bcase cs.

Record dcase := mkDcase {
  dc_id : Z; dc_ty : ty; dc_p : fparams; dc_bytes : list Z; dc_out : outcome value }.

Definition check_dcase (c : dcase) : list (Z * Z) :=
  let i := dc_id c in
  (if outcome_eqb value_eqb (dec (dc_ty c) (dc_p c) (dc_bytes c)) (dc_out c) then [] else [(i, 6)]) ++
  match dc_out c with
  | Panic | OutOfFuel => [(i, 7)]
  | Ok _ =>
    (* wrongly-typed input must be an error: the identifier the input starts with is the one
       the type and parameters call for ([expected], the specification of Ber/WrongType.v) *)
    match parse_tl (dc_bytes c) with
    | Ok (tl, off) =>
      (if expected (dc_ty c) (dc_p c) tl then [] else [(i, 71)]) ++
      (* truncated / over-long length: the contents the header announces are not all there
         (C16_truncated_is_error) *)
      (if off + t_len tl >? zlen (dc_bytes c) then [(i, 72)] else [])
    | _ => [(i, 71)]
    end
  | _ => []
  end.

Definition run_dcases (cs : list dcase) : list (Z * Z) := flat_map check_dcase cs.
