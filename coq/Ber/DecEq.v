(* The abstracted unfolding [dec_step] of Model.v is the decoder itself. *)
From Coq Require Import List ZArith Bool.
From Verif Require Import Common.Outcome Common.Bytes Ber.Model.
Import ListNotations.
Open Scope Z_scope.

Lemma dec_unfold t p bs : dec t p bs = dec_step dec t p bs.
Proof. destruct t; reflexivity. Qed.

Lemma enc_unfold t p v : enc t p v = enc_step enc t p v.
Proof. destruct t; reflexivity. Qed.
