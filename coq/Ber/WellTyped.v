(* Well-typed values (what Go's type system guarantees about a value of the
   reflected type) and the sanity conditions on type descriptors under which
   the codec is claimed to work. Boolean, so that they can be evaluated on the
   generated schema. *)
From Coq Require Import List ZArith Bool.
From Verif Require Import Common.Outcome Common.Bytes Ber.Model.
Import ListNotations.
Open Scope Z_scope.

Definition int64_ok (z : Z) : bool := (- 9223372036854775808 <=? z) && (z <? 9223372036854775808).

Fixpoint wtb (t : ty) (v : value) {struct t} : bool :=
  match t with
  | TBool | TNull => match v with VBool _ => true | _ => false end
  | TInt | TEnum => match v with VInt z => int64_ok z | _ => false end
  | TOctets | TOid => match v with VBytes l => bytes_ok l | VNil => true | _ => false end
  | TBits =>
    match v with
    | VBits l n => bytes_ok l && (0 <=? n) && (n <? 18446744073709551616)
    | _ => false end
  | TString _ => match v with VBytes l => bytes_ok l | _ => false end
  | TPtr t' => match v with VNil => true | VPtr v' => wtb t' v' | _ => false end
  | TWrap t' => match v with VStruct [v0] => wtb t' v0 | _ => false end
  | TChoice alts =>
    match v with
    | VStruct (VInt pr :: vs) =>
      int64_ok pr &&
      (fix go (l : list (fparams * ty)) (ws : list value) : bool :=
         match l, ws with
         | [], [] => true
         | (_, at') :: l', w :: ws' => wtb at' w && go l' ws'
         | _, _ => false
         end) alts vs
    | _ => false
    end
  | TSeq fields =>
    match v with
    | VStruct vs =>
      (fix go (l : list (fparams * ty)) (ws : list value) : bool :=
         match l, ws with
         | [], [] => true
         | (_, ft) :: l', w :: ws' => wtb ft w && go l' ws'
         | _, _ => false
         end) fields vs
    | _ => false
    end
  | TSlice t' =>
    match v with
    | VNil => true
    | VSlice vs => (fix go (ws : list value) : bool :=
                      match ws with [] => true | w :: r => wtb t' w && go r end) vs
    | _ => false
    end
  | TUnsupported => true
  end.

(* the codec's supported type language: no unsupported kinds, OPTIONAL only on
   members whose Go kind can be nil (pointer, slice) *)
Fixpoint sane (t : ty) : bool :=
  match t with
  | TUnsupported => false
  | TPtr t' | TWrap t' | TSlice t' => sane t'
  | TChoice alts =>
    (fix go (l : list (fparams * ty)) : bool :=
       match l with [] => true | (_, at') :: r => sane at' && go r end) alts
  | TSeq fields =>
    (fix go (l : list (fparams * ty)) : bool :=
       match l with
       | [] => true
       | (fp, ft) :: r => (negb (p_optional fp) || nillable ft) && sane ft && go r
       end) fields
  | _ => true
  end.
