(* C16 — the BER decoder is safe on arbitrary bytes: error or value, never a
   panic, never an out-of-range access, always terminating. *)
From Coq Require Import List ZArith Bool Lia.
From Verif Require Import Common.Outcome Common.Bytes Common.BytesLemmas Ber.Model Ber.X690 Ber.ParseHdr Ber.Safety Ber.WrongType Ber.ParsePrefix Ber.Roundtrip.
Import ListNotations.
Open Scope Z_scope.

(* For every type descriptor, every field-parameter record and every byte
   string, the decoder returns a value or an error: no index or slice
   expression leaves the bytes it was given ([Panic]) and the offset loops end
   before their fuel does ([OutOfFuel]; the fuel supplied is the input length). *)
Theorem C16_total : forall (t : ty) (p : fparams) (bs : list Z),
  bytes_ok bs = true -> dec t p bs <> Panic /\ dec t p bs <> OutOfFuel.
Proof. exact dec_safe. Qed.
Print Assumptions C16_total.

(* the listed error classes *)
Theorem C16_empty : forall t p, match t with TPtr _ => True | _ => dec t p [] = Err end.
Proof. exact dec_empty. Qed.
Print Assumptions C16_empty.

Theorem C16_overlong_length : forall t p b0 len content,
  match t with TPtr _ => False | _ => True end ->
  0 <= b0 < 256 -> b0 mod 32 <> 31 -> 0 <= len <= 127 -> zlen content < len ->
  dec t p (b0 :: len :: content) = Err.
Proof. exact dec_overlong. Qed.
Print Assumptions C16_overlong_length.

Theorem C16_zero_length_primitives : forall p, p_tag p = None ->
  dec TInt p [2; 0] = Err /\ dec TBool p [1; 0] = Err /\ dec TBits p [3; 0] = Err.
Proof.
  intros p H. split; [apply dec_zero_length_int, H|].
  split; [apply dec_zero_length_bool, H | apply dec_zero_length_bits, H].
Qed.
Print Assumptions C16_zero_length_primitives.

(* truncated input, in general: a header that cannot be read, or a declared length that runs past
   the end of the data -- in any header form, with any tag number, through pointers -- is an error;
   in particular a value cut off anywhere inside its contents *)
Theorem C16_truncated_is_error : forall t p bs,
  (parse_tl bs = Err \/ exists tl off, parse_tl bs = Ok (tl, off) /\ off + t_len tl > zlen bs) ->
  dec t p bs = Err.
Proof. exact dec_truncated. Qed.
Print Assumptions C16_truncated_is_error.

Theorem C16_cut_inside_contents : forall t p c k tn len content,
  cls_ok c -> 0 <= tn < 2 ^ 63 -> 0 <= len < 2 ^ 32 -> zlen content < len ->
  dec t p (hdr c k tn len ++ content) = Err.
Proof. exact dec_cut_content. Qed.
Print Assumptions C16_cut_inside_contents.

(* ... at full strength: every proper prefix of a complete element -- cut inside the identifier
   octets (high tag numbers included), inside the length octets or inside the contents -- is an
   error, whatever the target type and parameters *)
Theorem C16_every_proper_prefix_is_error : forall t p c k tn content m,
  cls_ok c -> 0 <= tn < 2 ^ 63 -> zlen content < 2 ^ 32 ->
  (m < length (hdr c k tn (zlen content) ++ content))%nat ->
  dec t p (firstn m (hdr c k tn (zlen content) ++ content)) = Err.
Proof. exact dec_proper_prefix. Qed.
Print Assumptions C16_every_proper_prefix_is_error.

(* in particular every truncation of what the encoder produces (for values inside the hypotheses
   of C05_roundtrip), decoded into any type *)
Theorem C16_truncated_encoding_is_error : forall t p v bs t' p' m,
  ok t p v = true -> enc t p v = Ok bs -> zlen bs < 2 ^ 32 -> (m < length bs)%nat ->
  dec t' p' (firstn m bs) = Err.
Proof.
  intros t p v bs t' p' m Hok He Hs Hm.
  destruct (roundtrip t p v bs Hok He Hs) as [_ [c [k [tn [content [E [Hc [Ht _]]]]]]]]. subst bs.
  apply dec_proper_prefix; try assumption.
  rewrite zlen_app in Hs. pose proof (zlen_nonneg (hdr c k tn (zlen content))). lia.
Qed.
Print Assumptions C16_truncated_encoding_is_error.

(* truncated header / long-form length running past the end *)
Example C16_truncated : dec TInt p0 [2] = Err /\ dec TInt p0 [2; 130; 1] = Err /\
                        dec TInt p0 [31; 129] = Err.
Proof. vm_compute. repeat split. Qed.

(* wrongly-typed input: whenever the decoder returns a value, the identifier octets the
   input starts with are the ones the target type and its parameters call for ([expected],
   Ber/WrongType.v: form and universal tag of the type, the member's context tag under
   IMPLICIT tagging, the constructed wrapper under EXPLICIT tagging and around a tagged
   CHOICE, one of the alternatives for an untagged CHOICE) -- for every type descriptor,
   parameter record and byte string.  (Before the repair recorded under C16 in
   known_findings.txt the statement was false: 04 01 05 decoded into an int64 as 5.) *)
Theorem C16_wrong_type : forall t p bs v tl off,
  dec t p bs = Ok v -> parse_tl bs = Ok (tl, off) -> expected t p tl = true.
Proof. exact dec_ok_expected. Qed.
Print Assumptions C16_wrong_type.

(* ... the form the property states it in *)
Theorem C16_wrong_type_is_error : forall t p bs tl off,
  bytes_ok bs = true -> parse_tl bs = Ok (tl, off) -> expected t p tl = false -> dec t p bs = Err.
Proof. exact dec_wrong_type_is_error. Qed.
Print Assumptions C16_wrong_type_is_error.

(* non-vacuity of both: identifiers that are not expected, reported as errors, and
   the expected one accepted *)
Example C16_wrong_type_examples :
  expected TInt p0 (mkTal 0 false 4 1) = false /\ dec TInt p0 [4; 1; 5] = Err /\
  dec TInt p0 [34; 1; 5] = Err /\ dec TBool p0 [2; 1; 5] = Err /\
  dec (TSeq []) p0 [4; 0] = Err /\ dec (TSeq []) p0 [16; 0] = Err /\
  dec TInt (mkP false false (Some 3) false false 0) [2; 1; 5] = Err /\
  dec TInt (mkP false false (Some 3) true false 0) [131; 3; 2; 1; 5] = Err /\
  expected TInt p0 (mkTal 0 false 2 1) = true /\ dec TInt p0 [2; 1; 5] = Ok (VInt 5) /\
  dec TInt (mkP false false (Some 3) true false 0) [163; 3; 2; 1; 5] = Ok (VInt 5).
Proof. vm_compute. repeat split. Qed.

(* non-vacuity: the hypothesis is met by real encodings, and Ok is reachable *)
Example C16_nonvacuous :
  bytes_ok [48; 6; 128; 1; 64; 129; 1; 65] = true /\
  dec (TSeq [(mkP false false (Some 0) false false 0, TInt);
             (mkP false false (Some 1) false false 0, TInt)]) p0
      [48; 6; 128; 1; 64; 129; 1; 65] = Ok (VStruct [VInt 64; VInt 65]).
Proof. vm_compute. split; reflexivity. Qed.
