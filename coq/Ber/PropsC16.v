(* C16 — the BER decoder is safe on arbitrary bytes: error or value, never a
   panic, never an out-of-range access, always terminating. *)
From Coq Require Import List ZArith Bool.
From Verif Require Import Common.Outcome Common.Bytes Ber.Model Ber.Safety.
Import ListNotations.
Open Scope Z_scope.

(* For every type descriptor, every field-parameter record and every byte
   string, the decoder returns a value or an error: no index or slice
   expression leaves the bytes it was given ([Panic]) and the offset loops end
   before their fuel does ([OutOfFuel]; the fuel supplied is the input length). *)
Theorem C16_total : forall (t : ty) (p : fparams) (bs : list Z),
  bytes_ok bs = true -> dec t p bs <> Panic /\ dec t p bs <> OutOfFuel.
Proof. exact dec_safe. Qed.
Print Assumptions C16_total.

(* the listed error classes *)
Theorem C16_empty : forall t p, match t with TPtr _ => True | _ => dec t p [] = Err end.
Proof. exact dec_empty. Qed.
Print Assumptions C16_empty.

Theorem C16_overlong_length : forall t p b0 len content,
  match t with TPtr _ => False | _ => True end ->
  0 <= b0 < 256 -> b0 mod 32 <> 31 -> 0 <= len <= 127 -> zlen content < len ->
  dec t p (b0 :: len :: content) = Err.
Proof. exact dec_overlong. Qed.
Print Assumptions C16_overlong_length.

Theorem C16_zero_length_primitives : forall p, p_tag p = None ->
  dec TInt p [2; 0] = Err /\ dec TBool p [1; 0] = Err /\ dec TBits p [3; 0] = Err.
Proof.
  intros p H. split; [apply dec_zero_length_int, H|].
  split; [apply dec_zero_length_bool, H | apply dec_zero_length_bits, H].
Qed.
Print Assumptions C16_zero_length_primitives.

(* truncated header / long-form length running past the end *)
Example C16_truncated : dec TInt p0 [2] = Err /\ dec TInt p0 [2; 130; 1] = Err /\
                        dec TInt p0 [31; 129] = Err.
Proof. vm_compute. repeat split. Qed.

(* KNOWN FINDING C16/wrong-type-accepted: the statement "wrongly-typed input is
   reported as an error" is false of the faithful model: the decoder never
   compares the identifier octets with the target type. *)
Theorem C16_wrong_type_refuted :
  exists bs, dec TInt p0 bs = Ok (VInt 5) /\ parse_tl bs = Ok (mkTal 0 false 4 1, 2).
Proof. exists [4; 1; 5]. vm_compute. split; reflexivity. Qed.
Print Assumptions C16_wrong_type_refuted.

(* non-vacuity: the hypothesis is met by real encodings, and Ok is reachable *)
Example C16_nonvacuous :
  bytes_ok [48; 6; 128; 1; 64; 129; 1; 65] = true /\
  dec (TSeq [(mkP false false (Some 0) false false 0, TInt);
             (mkP false false (Some 1) false false 0, TInt)]) p0
      [48; 6; 128; 1; 64; 129; 1; 65] = Ok (VStruct [VInt 64; VInt 65]).
Proof. vm_compute. split; reflexivity. Qed.
