(* C05: decode (encode v) = v on the model, for every type descriptor of the
   codec's language and every canonical value. *)
From Coq Require Import List ZArith Lia Bool ZifyBool.
From Verif Require Import Common.Outcome Common.Bytes Common.BytesLemmas
  Ber.Model Ber.DecEq Ber.X690 Ber.Arith Ber.RefArith Ber.ParseHdr Ber.Safety Ber.WellTyped Ber.RefEq
  Ber.WrongType.
Import ListNotations.
Open Scope Z_scope.

Ltac Zify.zify_post_hook ::= Z.div_mod_to_equations.

#[local] Arguments Z.add : simpl never.
#[local] Arguments Z.sub : simpl never.
#[local] Arguments Z.mul : simpl never.
#[local] Arguments Z.opp : simpl never.
#[local] Arguments Z.modulo : simpl never.
#[local] Arguments Z.div : simpl never.
#[local] Arguments Z.pow : simpl never.
#[local] Arguments Z.of_nat : simpl never.

(* ---- hypotheses on types and values ---- *)

Definition tagged (p : fparams) : bool :=
  match p_tag p with Some _ => true | None => false end.
Definition noexp (p : fparams) : bool := negb (p_explicit p) || negb (tagged p).
Definition tagnum (p : fparams) : Z := match p_tag p with Some n => n | None => -1 end.

(* the identifiers (class, form, number) an encoding of a [t] under [p] can start with *)
Definition ident3 := (Z * bool * Z)%type.
Definition ident3_eqb (a b : ident3) : bool :=
  let '(c1, k1, n1) := a in let '(c2, k2, n2) := b in (c1 =? c2) && Bool.eqb k1 k2 && (n1 =? n2).
Definition tal3 (tl : tal) : ident3 := (t_cls tl, t_constr tl, t_num tl).

Fixpoint firsts (t : ty) (p : fparams) {struct t} : list ident3 :=
  match t with
  | TPtr t' => firsts t' p
  | _ =>
    match p_tag p with
    | Some n =>
      if p_explicit p || is_choice t then [(2, true, n)]
      else match t with
           | TWrap t' => firsts t' p
           | _ => match prim_tag t p with Some (k, _) => [(2, k, n)] | None => [] end
           end
    | None =>
      match t with
      | TWrap t' => firsts t' p
      | TChoice alts =>
        (fix go (l : list (fparams * ty)) : list ident3 :=
           match l with [] => [] | (ap, at') :: r => firsts at' ap ++ go r end) alts
      | _ => match prim_tag t p with Some (k, w) => [(0, k, w)] | None => [] end
      end
    end
  end.

(* no identifier can start both members; members pairwise so: an element then belongs to at
   most one member, whatever the order in which the decoder scans them *)
Definition disjoint (a b : fparams * ty) : bool :=
  forallb (fun f => negb (existsb (ident3_eqb f) (firsts (snd b) (fst b)))) (firsts (snd a) (fst a)).
Fixpoint members_distinct (l : list (fparams * ty)) : bool :=
  match l with
  | [] => true
  | a :: r => forallb (disjoint a) r && members_distinct r
  end.

(* A SEQUENCE (not a SET) may use an identifier again once the decoder's scan position has passed the
   earlier member: what must differ from a member that is present are the absent OPTIONAL members
   skipped just before it ([gap]: the absent members since the last present one). *)
Fixpoint ordered_go (gap : list (fparams * ty)) (l : list (fparams * ty)) (ws : list value) : bool :=
  match l, ws with
  | [], [] => true
  | a :: l', w :: ws' =>
    if p_optional (fst a) && is_nil w then ordered_go (gap ++ [a]) l' ws'
    else forallb (fun b => disjoint b a) gap && ordered_go [] l' ws'
  | _, _ => false
  end.

(* ... hereditarily, for a whole type descriptor (value-independent part of [ok]) *)
Fixpoint ty_distinct (t : ty) : bool :=
  match t with
  | TPtr t' | TWrap t' | TSlice t' => ty_distinct t'
  | TChoice l | TSeq l =>
    members_distinct l &&
    (fix go (l : list (fparams * ty)) : bool :=
       match l with [] => true | (_, t') :: r => ty_distinct t' && go r end) l
  | _ => true
  end.

(* [ok t p v]: the part of the type that the value [v] actually exercises lies
   in the decoder's language, and [v] is canonical.
   - context tags below 2^63, IMPLICIT or EXPLICIT; no open types; no OBJECT
     IDENTIFIER; the members of a SEQUENCE, SET or CHOICE start with pairwise
     different identifiers (context tag, or universal identifier of the type for a
     member declared without one) -- or, in a SEQUENCE, every member present differs
     from the absent OPTIONAL members skipped just before it; OPTIONAL only on
     nillable kinds;
   - integers are int64; BIT STRING byte count = ceil(bits/8); the unselected
     alternatives of a CHOICE are nil.
   Members that are absent (nil OPTIONAL) or alternatives that are not selected
   are not constrained: e.g. a ChargingRecord without RecordExtensions is [ok]
   although ManagementExtension contains an untagged OBJECT IDENTIFIER. *)
Fixpoint ok (t : ty) (p : fparams) (v : value) {struct t} : bool :=
  tag_ok p &&
  match t with
  | TBool | TNull => match v with VBool _ => true | _ => false end
  | TInt | TEnum => match v with VInt z => int64_ok z | _ => false end
  | TOctets => match v with VBytes l => bytes_ok l | VNil => true | _ => false end
  | TOid | TUnsupported => false
  | TBits =>
    match v with
    | VBits l n => bytes_ok l && (0 <=? n) && (zlen l =? (n + 7) / 8)
    | _ => false end
  | TString k =>
    match v with
    | VBytes l => bytes_ok l &&
                  (let u := if p_strtype p =? 0 then k else p_strtype p in (0 <=? u) && (u <? 2 ^ 63))
    | _ => false end
  | TPtr t' => match v with VNil => true | VPtr v' => ok t' p v' | _ => false end
  | TWrap t' => match v with VStruct [v0] => ok t' p v0 | _ => false end
  | TChoice alts =>
    match v with
    | VStruct (VInt pr :: vs) =>
      negb (p_open p) && members_distinct alts &&
      (fix go (l : list (fparams * ty)) (ws : list value) (k : Z) : bool :=
         match l, ws with
         | [], [] => true
         | (ap, at') :: l', w :: ws' =>
           (if k =? pr then ok at' ap w else is_nil w && is_nil (zero at')) && go l' ws' (k + 1)
         | _, _ => false
         end) alts vs 1
    | _ => false
    end
  | TSeq fields =>
    match v with
    | VStruct vs =>
      negb (p_open p) && (members_distinct fields || (negb (p_set p) && ordered_go [] fields vs)) &&
      (fix go (l : list (fparams * ty)) (ws : list value) : bool :=
         match l, ws with
         | [], [] => true
         | (fp, ft) :: l', w :: ws' =>
           (if p_optional fp && is_nil w then nillable ft
            else (negb (p_optional fp) || nillable ft) && ok ft fp w) && go l' ws'
         | _, _ => false
         end) fields vs
    | _ => false
    end
  | TSlice t' =>
    match v with
    | VNil => true
    | VSlice vs => (fix go (ws : list value) : bool :=
                      match ws with [] => true | w :: r => ok t' (clear_tag p) w && go r end) vs
    | _ => false
    end
  end.

(* ---- the shape of an encoding: one header followed by its contents ---- *)

Definition shaped (p : fparams) (bs : list Z) : Prop :=
  exists c k tn content,
    bs = hdr c k tn (zlen content) ++ content /\ cls_ok c /\ 0 <= tn < 2 ^ 63 /\
    (forall n, p_tag p = Some n -> tn = n /\ c = 2).

Lemma finish_noexp p c k tn content :
  noexp p = true ->
  finish p c k tn content =
  match p_tag p with
  | Some n => hdr 2 k n (zlen content) ++ content
  | None => hdr c k tn (zlen content) ++ content
  end.
Proof.
  intros H. unfold noexp, tagged in H. unfold finish. destruct (p_tag p); [|reflexivity].
  destruct (p_explicit p); [discriminate H | reflexivity].
Qed.

Lemma finish_shaped p c k tn content :
  noexp p = true -> tag_ok p = true -> cls_ok c -> 0 <= tn < 2 ^ 63 ->
  shaped p (finish p c k tn content).
Proof.
  intros Hn Ht Hc Htn. rewrite finish_noexp by exact Hn. unfold shaped.
  destruct (p_tag p) as [n|] eqn:E.
  - exists 2, k, n, content. split; [reflexivity|]. split; [unfold cls_ok; lia|].
    split; [exact (tag_ok_range p n Ht E)|]. intros m Hm. inversion Hm. subst. split; reflexivity.
  - exists c, k, tn, content. split; [reflexivity|]. split; [assumption|]. split; [assumption|].
    intros m Hm. discriminate Hm.
Qed.

Lemma hdr_len_pos c k tn len : 2 <= zlen (hdr c k tn len).
Proof.
  unfold hdr. rewrite zlen_app. pose proof (tag_octets_len c k tn). pose proof (len_octets_len len). lia.
Qed.

(* reading back a shaped encoding followed by anything *)
Lemma shaped_parse p bs rest :
  shaped p bs -> zlen bs < 2 ^ 32 ->
  exists tal off, parse_tl (bs ++ rest) = Ok (tal, off) /\ 2 <= off /\
    off + t_len tal = zlen bs /\ 0 <= t_len tal /\
    (forall n, p_tag p = Some n -> t_num tal = n).
Proof.
  intros [c [k [tn [content [E [Hc [Ht Hn]]]]]]] Hs. subst bs.
  rewrite zlen_app in *. pose proof (zlen_nonneg content). pose proof (hdr_len_pos c k tn (zlen content)).
  rewrite <- app_assoc.
  rewrite parse_hdr by (try assumption; lia).
  eexists. eexists. split; [reflexivity|]. cbn [t_len t_num].
  split; [lia|]. split; [lia|]. split; [lia|].
  intros n En. apply Hn, En.
Qed.

(* ... the header read does not depend on what follows *)
Lemma shaped_parse_all p bs :
  shaped p bs -> zlen bs < 2 ^ 32 ->
  exists tal off, (forall rest, parse_tl (bs ++ rest) = Ok (tal, off)) /\ 2 <= off /\
    off + t_len tal = zlen bs /\ 0 <= t_len tal.
Proof.
  intros [c [k [tn [content [E [Hc [Ht Hn]]]]]]] Hs. subst bs.
  rewrite zlen_app in *. pose proof (zlen_nonneg content). pose proof (hdr_len_pos c k tn (zlen content)).
  exists (mkTal c k tn (zlen content)), (zlen (hdr c k tn (zlen content))).
  split; [|cbn [t_len]; lia].
  intros rest. rewrite <- app_assoc. apply parse_hdr; try assumption; lia.
Qed.

Lemma slice_from_app_len a b : slice_from (a ++ b) (zlen a) = Ok b.
Proof.
  unfold slice_from. rewrite slice_ok.
  - rewrite app_length. unfold zlen.
    replace (Z.to_nat (Z.of_nat (length a + length b) - Z.of_nat (length a))) with (length b) by lia.
    rewrite Nat2Z.id, skipn_app_len by reflexivity. apply f_equal. apply firstn_all.
  - unfold zlen. rewrite app_length. lia.
  - unfold zlen. lia.
Qed.

Lemma is_nil_canon t v : is_nil v = false -> canon t true v = canon t false v.
Proof. destruct t; destruct v; cbn; try reflexivity; discriminate. Qed.

Lemma nillable_zero_canon t : nillable t = true -> zero t = canon t true VNil.
Proof. destruct t; cbn; try discriminate; reflexivity. Qed.

(* ---- entering the decoder on a shaped encoding ---- *)

Definition tl_of (p : fparams) (c : Z) (k : bool) (tn len : Z) : tal :=
  match p_tag p with Some n => mkTal 2 k n len | None => mkTal c k tn len end.
Definition hdr_of (p : fparams) (c : Z) (k : bool) (tn len : Z) : list Z :=
  match p_tag p with Some n => hdr 2 k n len | None => hdr c k tn len end.

Lemma finish_hdr_of p c k tn content : noexp p = true ->
  finish p c k tn content = hdr_of p c k tn (zlen content) ++ content.
Proof. intros H. rewrite finish_noexp by exact H. unfold hdr_of. destruct (p_tag p); reflexivity. Qed.

Lemma parse_finish p c k tn content rest :
  noexp p = true -> tag_ok p = true -> cls_ok c -> 0 <= tn < 2 ^ 63 -> 0 <= zlen content < 2 ^ 32 ->
  parse_tl ((hdr_of p c k tn (zlen content) ++ content) ++ rest) =
  Ok (tl_of p c k tn (zlen content), zlen (hdr_of p c k tn (zlen content))).
Proof.
  intros Hn Ht Hc Htn Hl. unfold hdr_of, tl_of. rewrite <- app_assoc.
  destruct (p_tag p) as [n|] eqn:E.
  - apply parse_hdr; [unfold cls_ok; lia | exact (tag_ok_range p n Ht E) | lia].
  - apply parse_hdr; assumption.
Qed.

Lemma explicit_cond_false p (b : bool) : noexp p = true ->
  (match p_tag p with Some _ => true | None => false end) && p_explicit p && b = false.
Proof.
  unfold noexp, tagged. destruct (p_tag p); destruct (p_explicit p); cbn; intros H; try discriminate; reflexivity.
Qed.

(* dec_step on hdr ++ content for a non-pointer type reduces to the type-specific
   part of dec_body with toff = |hdr| *)
Lemma t_len_tl_of p c k tn len : t_len (tl_of p c k tn len) = len.
Proof. unfold tl_of. destruct (p_tag p); reflexivity. Qed.

Lemma parse_finish0 p c k tn content :
  noexp p = true -> tag_ok p = true -> cls_ok c -> 0 <= tn < 2 ^ 63 -> 0 <= zlen content < 2 ^ 32 ->
  parse_tl (hdr_of p c k tn (zlen content) ++ content) =
  Ok (tl_of p c k tn (zlen content), zlen (hdr_of p c k tn (zlen content))).
Proof.
  intros. rewrite <- (app_nil_r (hdr_of p c k tn (zlen content) ++ content)).
  apply parse_finish; assumption.
Qed.

Section Enter.
  Variable rec : ty -> fparams -> list Z -> outcome value.
  Variables (p : fparams) (c : Z) (k : bool) (tn : Z) (content : list Z).
  Hypothesis Hn : noexp p = true.
  Hypothesis Ht : tag_ok p = true.
  Hypothesis Hc : cls_ok c.
  Hypothesis Htn : 0 <= tn < 2 ^ 63.
  Hypothesis Hl : zlen content < 2 ^ 32.

  Let H := hdr_of p c k tn (zlen content).
  Let bs := H ++ content.

  Lemma enter_range : (zlen H + t_len (tl_of p c k tn (zlen content)) >? zlen bs) = false.
  Proof. unfold bs. rewrite t_len_tl_of, zlen_app. lia. Qed.

  Lemma enter_step t :
    match t with TPtr _ => False | _ => True end ->
    dec_step rec t p bs = dec_body rec t p bs.
  Proof.
    intros Hp. pose proof (zlen_nonneg content).
    destruct t; try contradiction; cbn [dec_step]; unfold bs, H;
      rewrite parse_finish0 by (try assumption; lia); cbn [bind];
      fold H; fold bs; rewrite enter_range; rewrite explicit_cond_false by exact Hn; reflexivity.
  Qed.

  (* the common prefix of dec_body *)
  Lemma enter_content : slice_from bs (zlen H) = Ok content.
  Proof. unfold bs. apply slice_from_app_len. Qed.
End Enter.

Lemma ident_ok_tl_of t p k tn len :
  (forall k' w, prim_tag t p = Some (k', w) -> k = k' /\ tn = w) -> ident_ok t p (tl_of p 0 k tn len) = true.
Proof.
  intros Hw. unfold ident_ok, ident_matches, tl_of. destruct (prim_tag t p) as [[k' w]|]; [|reflexivity].
  destruct (Hw k' w eq_refl) as [-> ->].
  destruct (p_tag p) as [n|]; cbn [t_cls t_num t_constr]; rewrite ?Z.eqb_refl, Bool.eqb_reflx; reflexivity.
Qed.

Ltac prim_tag_side :=
  let k0 := fresh "k" in let w0 := fresh "w" in let Hw0 := fresh "Hw" in
  intros k0 w0 Hw0; cbn [prim_tag] in Hw0; cbv zeta in Hw0;
  repeat match type of Hw0 with context [if ?c then _ else _] => destruct c end;
  inversion Hw0; split; reflexivity.

Definition rt_ok (t : ty) : Prop :=
  forall p v bs, ok t p v = true -> enc t p v = Ok bs -> zlen bs < 2 ^ 32 ->
    dec t p bs = Ok (canon t false v) /\ shaped p bs.
(* ... for parameters without EXPLICIT tagging; [lift] (below) extends it to all parameters *)
Definition rt_ne (t : ty) : Prop :=
  forall p v bs, noexp p = true -> ok t p v = true -> enc t p v = Ok bs -> zlen bs < 2 ^ 32 ->
    dec t p bs = Ok (canon t false v) /\ shaped p bs.

Lemma ok_split t p v : ok t p v = true -> tag_ok p = true.
Proof.
  intros H. destruct t; cbn [ok] in H; apply andb_true_iff in H; destruct H as [H _]; exact H.
Qed.

(* strip the common prefix of [ok] *)
Ltac ok_open Hok Ht :=
  pose proof (ok_split _ _ _ Hok) as Ht;
  cbn [ok] in Hok; apply andb_true_iff in Hok; destruct Hok as [_ Hok].

(* open the decoder on [finish p 0 k T content] for a primitive type *)
Ltac open_prim Hn Ht Hs :=
  rewrite finish_hdr_of in * by exact Hn;
  match goal with
  | |- dec ?t ?p (hdr_of ?p ?c ?k ?tn (zlen ?content) ++ ?content) = _ /\ _ =>
    assert (Hcl : zlen content < 2 ^ 32)
      by (rewrite zlen_app in Hs; pose proof (zlen_nonneg (hdr_of p c k tn (zlen content))); lia);
    assert (Hc0 : cls_ok c) by (unfold cls_ok; lia);
    split;
    [ rewrite dec_unfold, (enter_step dec p c k tn content Hn Ht Hc0 ltac:(lia) Hcl) by exact I;
      unfold dec_body;
      rewrite parse_finish0 by (try assumption; try lia; pose proof (zlen_nonneg content); lia);
      cbn [bind];
      rewrite (enter_range dec p c k tn content);
      rewrite ident_ok_tl_of by prim_tag_side; cbn [negb];
      try rewrite (enter_content p c k tn content); cbn [bind]
    | rewrite <- finish_hdr_of by exact Hn; apply finish_shaped; try assumption; lia ]
  end.

Lemma rt_bool : rt_ne TBool.
Proof.
  intros p v bs Hn Hok He Hs. ok_open Hok Ht.
  rewrite enc_unfold in He. cbn [enc_step] in He. destruct v; try discriminate.
  inversion He; subst bs; clear He. open_prim Hn Ht Hs.
  set (H := hdr_of p 0 false 1 (zlen [if b then 255 else 0])).
  pose proof (hdr_len_pos 0 false 1 1). 
  replace (zlen H >=? zlen (H ++ [if b then 255 else 0])) with false
    by (rewrite zlen_app, zlen_cons, zlen_nil; lia).
  replace (zlen H) with (zlen H + 0) at 1 by lia. rewrite idx_shift by lia.
  destruct b; reflexivity.
Qed.

Lemma rt_int : rt_ne TInt.
Proof.
  intros p v bs Hn Hok He Hs. ok_open Hok Ht.
  rewrite enc_unfold in He. cbn [enc_step] in He. destruct v; try discriminate.
  inversion He; subst bs; clear He. open_prim Hn Ht Hs.
  rewrite parse_signed_int_bytes by (apply int64_ok_range, Hok). reflexivity.
Qed.

Lemma rt_enum : rt_ne TEnum.
Proof.
  intros p v bs Hn Hok He Hs. ok_open Hok Ht.
  rewrite enc_unfold in He. cbn [enc_step] in He. destruct v; try discriminate.
  inversion He; subst bs; clear He. open_prim Hn Ht Hs.
  rewrite parse_signed_int_bytes by (apply int64_ok_range, Hok). reflexivity.
Qed.

Lemma rt_octets : rt_ne TOctets.
Proof.
  intros p v bs Hn Hok He Hs. ok_open Hok Ht.
  rewrite enc_unfold in He. cbn [enc_step] in He.
  destruct v; try discriminate; cbn [bytes_of] in He; inversion He; subst bs; clear He;
    open_prim Hn Ht Hs; reflexivity.
Qed.

Lemma rt_null : rt_ne TNull.
Proof.
  intros p v bs Hn Hok He Hs. ok_open Hok Ht.
  rewrite enc_unfold in He. cbn [enc_step] in He. destruct v; try discriminate.
  inversion He; subst bs; clear He. open_prim Hn Ht Hs. reflexivity.
Qed.

Lemma rt_string k : rt_ne (TString k).
Proof.
  intros p v bs Hn Hok He Hs. ok_open Hok Ht.
  rewrite enc_unfold in He. cbn [enc_step] in He. destruct v; try discriminate.
  apply andb_true_iff in Hok. destruct Hok as [_ Hu].
  inversion He; subst bs; clear He. open_prim Hn Ht Hs. reflexivity.
Qed.

Lemma rt_bits : rt_ne TBits.
Proof.
  intros p v bs Hn Hok He Hs. ok_open Hok Ht.
  rewrite enc_unfold in He. cbn [enc_step] in He. destruct v as [| | |l n| | | |]; try discriminate.
  inversion He; subst bs; clear He.
  apply andb_true_iff in Hok. destruct Hok as [Hv Hlen]. apply andb_true_iff in Hv. destruct Hv as [Hb Hn0].
  open_prim Hn Ht Hs.
  unfold parse_bits. rewrite zlen_cons. pose proof (zlen_nonneg l).
  replace ((8 - n mod 8) mod 8 >? 7) with false by lia.
  destruct (1 + zlen l =? 1) eqn:E1.
  - assert (zlen l = 0) by lia. assert (n = 0) by lia.
    replace ((8 - n mod 8) mod 8 =? 0) with true by lia. cbn [negb andb orb canon].
    f_equal. f_equal. lia.
  - cbn [andb orb canon]. f_equal. f_equal. lia.
Qed.

(* ---- entering the decoder on any shaped encoding ---- *)

Lemma shaped_enter rec t p bs :
  shaped p bs -> zlen bs < 2 ^ 32 -> noexp p = true ->
  match t with TPtr _ => False | _ => True end ->
  exists tal off,
    parse_tl bs = Ok (tal, off) /\ (off + t_len tal >? zlen bs) = false /\
    dec_step rec t p bs = dec_body rec t p bs /\
    2 <= off /\ off + t_len tal = zlen bs /\ 0 <= t_len tal /\
    (forall n, p_tag p = Some n -> t_num tal = n).
Proof.
  intros Hsh Hs Hn Hp.
  destruct (shaped_parse p bs [] Hsh Hs) as [tal [off [Hpar [Ho [Hlen [Hl0 Htag]]]]]].
  rewrite app_nil_r in Hpar. exists tal, off.
  assert (R : (off + t_len tal >? zlen bs) = false) by lia.
  repeat split; try assumption.
  destruct t; try contradiction; cbn [dec_step]; rewrite Hpar; cbn [bind]; rewrite R;
    rewrite explicit_cond_false by exact Hn; reflexivity.
Qed.

Lemma rt_ptr t : rt_ok t -> rt_ok (TPtr t).
Proof.
  intros IH p v bs Hok He Hs. ok_open Hok Ht.
  rewrite enc_unfold in He. cbn [enc_step] in He. destruct v; try discriminate.
  destruct (IH p v bs Hok He Hs) as [Hd Hsh].
  split; [|exact Hsh]. rewrite dec_unfold. cbn [dec_step]. rewrite Hd. reflexivity.
Qed.

Lemma rt_wrap t : rt_ok t -> rt_ne (TWrap t).
Proof.
  intros IH p v bs Hn Hok He Hs. ok_open Hok Ht.
  rewrite enc_unfold in He. cbn [enc_step] in He.
  destruct v as [| | | | | |[|v0 [|? ?]]|]; try discriminate.
  destruct (IH p v0 bs Hok He Hs) as [Hd Hsh].
  split; [|exact Hsh].
  destruct (shaped_enter dec (TWrap t) p bs Hsh Hs Hn I) as [tal [off [Hpar [R [Hstep _]]]]].
  rewrite dec_unfold, Hstep. unfold dec_body. rewrite Hpar. cbn [bind]. rewrite R.
  rewrite Hd. reflexivity.
Qed.

(* ---- SEQUENCE OF ---- *)

Lemma shaped_len p b : shaped p b -> 2 <= zlen b.
Proof.
  intros [c [k [tn [content [E _]]]]]. subst b. rewrite zlen_app.
  pose proof (hdr_len_pos c k tn (zlen content)). pose proof (zlen_nonneg content). lia.
Qed.

Definition chunk_ok (b : list Z) : Prop := (exists p, shaped p b) /\ zlen b < 2 ^ 32.

Lemma chunks_concat : forall (bl : list (list Z)) pre fuel,
  Forall chunk_ok bl -> (length bl <= fuel)%nat ->
  chunks fuel (pre ++ concat bl) (zlen pre) = Ok bl.
Proof.
  induction bl as [|b bl IH]; intros pre fuel HF Hf.
  - cbn [concat]. rewrite app_nil_r. destruct fuel; cbn [chunks];
      replace (zlen pre >=? zlen pre) with true by lia; reflexivity.
  - inversion HF as [|? ? [[pb Hsh] Hsz] HF']; subst.
    destruct fuel as [|fk]; [cbn in Hf; lia|].
    pose proof (shaped_len pb b Hsh) as Hb2.
    cbn [concat chunks]. rewrite zlen_app, zlen_app.
    pose proof (zlen_nonneg (concat bl)).
    replace (zlen pre >=? zlen pre + (zlen b + zlen (concat bl))) with false by lia.
    rewrite slice_from_app_len. cbn [bind].
    destruct (shaped_parse pb b (concat bl) Hsh Hsz) as [tal [off [Hpar [Ho [Hlen _]]]]].
    rewrite Hpar. cbn [bind].
    replace (zlen pre + off + t_len tal) with (zlen pre + zlen b) by lia.
    replace (zlen pre + zlen b >? zlen pre + (zlen b + zlen (concat bl))) with false by lia.
    replace (zlen pre) with (zlen pre + 0) at 1 by lia.
    rewrite slice_shift by lia. rewrite slice0_app by reflexivity. cbn [bind].
    replace (zlen pre + zlen b) with (zlen (pre ++ b)) by (rewrite zlen_app; reflexivity).
    rewrite app_assoc. rewrite IH; [reflexivity | exact HF' | cbn in Hf; lia].
Qed.

Lemma enc_slice_go_split t' p : rt_ok t' ->
  forall ws content,
  (fix go (ws : list value) : bool :=
     match ws with [] => true | w :: r => ok t' (clear_tag p) w && go r end) ws = true ->
  enc_slice_go enc t' p ws = Ok content -> zlen content < 2 ^ 32 ->
  exists bl, content = concat bl /\ Forall chunk_ok bl /\ length bl = length ws /\
             slice_go dec t' p bl = Ok (map (canon t' false) ws).
Proof.
  intros IHt. induction ws as [|w ws IH]; intros content Hcv He Hs.
  - cbn in He. inversion He. exists []. repeat split; constructor.
  - apply andb_true_iff in Hcv. destruct Hcv as [Hw Hwr].
    cbn [enc_slice_go] in He.
    destruct (enc t' (clear_tag p) w) as [b| | |] eqn:Eb; cbn [bind] in He; try discriminate He.
    destruct (enc_slice_go enc t' p ws) as [r| | |] eqn:Er; cbn [bind] in He; try discriminate He.
    inversion He; subst content; clear He.
    rewrite zlen_app in Hs. pose proof (zlen_nonneg b). pose proof (zlen_nonneg r).
    destruct (IHt (clear_tag p) w b Hw Eb ltac:(lia)) as [Hd Hsh].
    destruct (IH r Hwr eq_refl ltac:(lia)) as [bl [Ec [HF [Hlen Hgo]]]].
    exists (b :: bl). cbn [concat]. subst r. split; [reflexivity|].
    split; [constructor; [split; [exists (clear_tag p); exact Hsh | lia] | exact HF]|].
    split; [cbn [length]; lia|].
    cbn [slice_go map]. rewrite Hd. cbn [bind]. rewrite Hgo. reflexivity.
Qed.

Lemma concat_len_ge (bl : list (list Z)) :
  Forall chunk_ok bl -> Z.of_nat (length bl) <= zlen (concat bl).
Proof.
  induction bl as [|b bl IH]; intros HF; cbn [concat length].
  - change (zlen (@nil Z)) with 0. lia.
  - inversion HF as [|? ? [[pb Hsh] _] HF']; subst. rewrite zlen_app.
    pose proof (shaped_len pb b Hsh). specialize (IH HF'). lia.
Qed.

Lemma seq_tag_range p : 0 <= seq_tag p < 2 ^ 63.
Proof. unfold seq_tag. destruct (p_set p); lia. Qed.

Lemma rt_slice t : rt_ok t -> rt_ne (TSlice t).
Proof.
  intros IH p v bs Hn Hok He Hs. ok_open Hok Ht.
  rewrite enc_unfold in He. cbn [enc_step] in He.
  assert (exists vs, (match v with VSlice vs => Some vs | VNil => Some [] | _ => None end) = Some vs /\
            (fix go (ws : list value) : bool :=
               match ws with [] => true | w :: r => ok t (clear_tag p) w && go r end) vs = true /\
            canon (TSlice t) false v = VSlice (map (canon t false) vs)) as [vs [Ev [Hcv Hcan]]].
  { destruct v; try discriminate; eexists; repeat split; try reflexivity; exact Hok. }
  rewrite Ev in He. rewrite Hcan. clear Ev Hcan Hok.
  destruct (enc_slice_go enc t p vs) as [content| | |] eqn:Ec; cbn [bind] in He; try discriminate.
  inversion He; subst bs; clear He.
  rewrite finish_hdr_of in * by exact Hn.
  set (H := hdr_of p 0 true (seq_tag p) (zlen content)) in *.
  assert (Hcl : zlen content < 2 ^ 32) by (rewrite zlen_app in Hs; pose proof (zlen_nonneg H); lia).
  assert (Hc0 : cls_ok 0) by (unfold cls_ok; lia).
  pose proof (seq_tag_range p) as Hst.
  split.
  2:{ unfold H. rewrite <- finish_hdr_of by exact Hn. apply finish_shaped; assumption. }
  destruct (enc_slice_go_split t p IH vs content Hcv Ec Hcl) as [bl [Econ [HF [Hlen Hgo]]]].
  rewrite dec_unfold. unfold H.
  rewrite (enter_step dec p 0 true (seq_tag p) content Hn Ht Hc0 Hst Hcl) by exact I.
  unfold dec_body. pose proof (zlen_nonneg content).
  rewrite parse_finish0 by (try assumption; lia). cbn [bind].
  rewrite (enter_range dec p 0 true (seq_tag p) content).
  rewrite ident_ok_tl_of by prim_tag_side; cbn [negb]. fold H.
  subst content. rewrite chunks_concat; [|exact HF|].
  - cbn [bind]. rewrite Hgo. reflexivity.
  - rewrite app_length. pose proof (concat_len_ge bl HF). unfold zlen in *. lia.
Qed.

(* ---- CHOICE ---- *)

Lemma enc_pick_nth p : p_open p = false -> forall l ws k ap at' w,
  nth_error l k = Some (ap, at') -> nth_error ws k = Some w ->
  enc_pick enc p l ws k =
  match p_tag p with
  | None => enc at' ap w
  | Some _ => do inner <- enc at' ap w; Ok (finish (no_explicit p) 0 true 0 inner)
  end.
Proof.
  intros Ho. induction l as [|[a0 t0] l IH]; intros ws k ap at' w Hl Hw.
  - destruct k; discriminate Hl.
  - destruct ws as [|w0 ws]; [destruct k; discriminate Hw|].
    destruct k as [|k]; cbn [enc_pick nth_error] in *.
    + inversion Hl; inversion Hw; subst. rewrite Ho. reflexivity.
    + apply IH; assumption.
Qed.

Definition ok_choice_go (pr : Z) :=
  fix go (l : list (fparams * ty)) (ws : list value) (k : Z) : bool :=
    match l, ws with
    | [], [] => true
    | (ap, at') :: l', w :: ws' =>
      (if k =? pr then ok at' ap w else is_nil w && is_nil (zero at')) && go l' ws' (k + 1)
    | _, _ => false
    end.

Definition canon_choice_go (pr : Z) :=
  fix go (l : list (fparams * ty)) (ws : list value) (k : Z) : list value :=
    match l, ws with
    | (ap, at') :: l', w :: ws' =>
      (if k =? pr then canon at' false w else w) :: go l' ws' (k + 1)
    | _, _ => ws
    end.

Lemma is_nil_eq v : is_nil v = true -> v = VNil.
Proof. destruct v; cbn; try discriminate; reflexivity. Qed.

Lemma canon_choice_nomatch pr : forall l ws k,
  pr < k -> ok_choice_go pr l ws k = true -> canon_choice_go pr l ws k = map (fun a => zero (snd a)) l.
Proof.
  induction l as [|[a0 t0] l IH]; intros ws k Hk Hcv.
  - destruct ws; [reflexivity | discriminate Hcv].
  - destruct ws as [|w0 ws]; [discriminate Hcv|].
    cbn [ok_choice_go canon_choice_go map snd] in *.
    replace (k =? pr) with false in * by lia.
    apply andb_true_iff in Hcv. destruct Hcv as [H0 Hr].
    apply andb_true_iff in H0. destruct H0 as [N1 N2].
    rewrite (is_nil_eq _ N1), (is_nil_eq _ N2). f_equal. apply IH; [lia | exact Hr].
Qed.

Lemma canon_choice_sel pr : forall l ws k j ap at' w,
  pr = k + Z.of_nat j -> ok_choice_go pr l ws k = true ->
  nth_error l j = Some (ap, at') -> nth_error ws j = Some w ->
  canon_choice_go pr l ws k = set_nth (map (fun a => zero (snd a)) l) j (canon at' false w) /\
  ok at' ap w = true.
Proof.
  induction l as [|[a0 t0] l IH]; intros ws k j ap at' w Hpr Hcv Hl Hw.
  - destruct j; discriminate Hl.
  - destruct ws as [|w0 ws]; [destruct j; discriminate Hw|].
    cbn [ok_choice_go canon_choice_go map snd] in *.
    apply andb_true_iff in Hcv. destruct Hcv as [H0 Hr].
    destruct j as [|j]; cbn [nth_error set_nth] in *.
    + inversion Hl; inversion Hw; subst. replace (k =? k + Z.of_nat 0) with true in * by lia.
      split; [|assumption]. f_equal. apply canon_choice_nomatch; [lia | exact Hr].
    + replace (k =? pr) with false in * by lia.
      apply andb_true_iff in H0. destruct H0 as [N1 N2].
      rewrite (is_nil_eq _ N1), (is_nil_eq _ N2).
      destruct (IH ws (k + 1) j ap at' w ltac:(lia) Hr Hl Hw) as [E C].
      split; [|exact C]. rewrite E. reflexivity.
Qed.

Lemma choice_pick_sel rec alts rest tn : forall j l k0 ap at',
  (forall i a, nth_error l i = Some a -> (i < j)%nat -> starts (snd a) (fst a) tn = false) ->
  nth_error l j = Some (ap, at') -> starts at' ap tn = true ->
  choice_pick rec alts rest tn l k0 =
  do v <- rec at' ap rest;
  Ok (VStruct (VInt (Z.of_nat (S (k0 + j))) :: set_nth (map (fun a => zero (snd a)) alts) (k0 + j) v)).
Proof.
  induction j as [|j IH]; intros l k0 ap at' Hbefore Hl Hm.
  - destruct l as [|[a0 t0] l]; [discriminate Hl|]. cbn [nth_error] in Hl. inversion Hl; subst.
    cbn [choice_pick]. rewrite Hm. rewrite Nat.add_0_r. reflexivity.
  - destruct l as [|[a0 t0] l]; [discriminate Hl|]. cbn [nth_error] in Hl.
    cbn [choice_pick].
    pose proof (Hbefore 0%nat (a0, t0) eq_refl ltac:(lia)) as Hb0. cbn [fst snd] in Hb0. rewrite Hb0.
    rewrite (IH l (S k0) ap at'); [| |exact Hl|exact Hm].
    + replace (S k0 + j)%nat with (k0 + S j)%nat by lia. reflexivity.
    + intros i a Hi Hlt. apply (Hbefore (S i) a Hi). lia.
Qed.

(* distinct members *)
Lemma ident3_eqb_eq a b : ident3_eqb a b = true -> a = b.
Proof.
  destruct a as [[c1 k1] n1], b as [[c2 k2] n2]. unfold ident3_eqb. intros H.
  apply andb_true_iff in H. destruct H as [H H3]. apply andb_true_iff in H. destruct H as [H1 H2].
  apply Bool.eqb_prop in H2. f_equal; [f_equal|]; [lia | exact H2 | lia].
Qed.
Lemma ident3_eqb_refl a : ident3_eqb a a = true.
Proof. destruct a as [[c k] n]. unfold ident3_eqb. rewrite !Z.eqb_refl, Bool.eqb_reflx. reflexivity. Qed.

Lemma ident_matches_ctx tl k w p n : p_tag p = Some n ->
  ident_matches tl k w p = ident3_eqb (tal3 tl) (2, k, n).
Proof.
  intros E. unfold ident_matches, ident3_eqb, tal3. rewrite E.
  destruct (Bool.eqb (t_constr tl) k), (t_cls tl =? 2), (t_num tl =? n); reflexivity.
Qed.
Lemma ident_matches_univ tl k w p : p_tag p = None ->
  ident_matches tl k w p = ident3_eqb (tal3 tl) (0, k, w).
Proof.
  intros E. unfold ident_matches, ident3_eqb, tal3. rewrite E.
  destruct (Bool.eqb (t_constr tl) k), (t_cls tl =? 0), (t_num tl =? w); reflexivity.
Qed.

Lemma starts_firsts : forall t p tl, starts t p tl = existsb (ident3_eqb (tal3 tl)) (firsts t p).
Proof.
  induction t using ty_ind'; intros p tl;
    try (cbn [starts firsts is_choice prim_tag orb];
         destruct (p_tag p) as [n|] eqn:Et; [destruct (p_explicit p)|]; cbn [andb orb existsb];
         rewrite ?orb_false_r;
         first [ apply (ident_matches_ctx _ _ _ _ _ Et) | apply (ident_matches_univ _ _ _ _ Et) | reflexivity ]).
  - cbn [starts firsts]. apply IHt.
  - cbn [starts firsts is_choice orb].
    destruct (p_tag p) as [n|] eqn:Et; [destruct (p_explicit p)|]; cbn [andb orb existsb];
      rewrite ?orb_false_r; first [ apply (ident_matches_ctx _ _ _ _ _ Et) | apply IHt ].
  - cbn [starts firsts is_choice]. rewrite orb_true_r.
    destruct (p_tag p) as [n|] eqn:Et; cbn [andb existsb].
    + rewrite orb_false_r. apply (ident_matches_ctx _ _ _ _ _ Et).
    + induction H as [|[ap at'] r Ha Hr IHr]; [reflexivity|]. cbn [snd] in Ha.
      rewrite existsb_app, Ha, IHr. reflexivity.
Qed.

Lemma starts_in t p tl : starts t p tl = true <-> In (tal3 tl) (firsts t p).
Proof.
  rewrite starts_firsts. split.
  - intros H. apply existsb_exists in H. destruct H as [f [Hin He]].
    apply ident3_eqb_eq in He. subst f. exact Hin.
  - intros H. apply existsb_exists. exists (tal3 tl). split; [exact H | apply ident3_eqb_refl].
Qed.

Lemma disjoint_starts a b tl : disjoint a b = true ->
  starts (snd a) (fst a) tl = true -> starts (snd b) (fst b) tl = true -> False.
Proof.
  unfold disjoint. intros Hd Ha Hb. rewrite forallb_forall in Hd.
  apply starts_in in Ha. specialize (Hd _ Ha). rewrite negb_true_iff in Hd.
  rewrite <- starts_firsts in Hd. congruence.
Qed.

Lemma members_distinct_neq l : members_distinct l = true -> forall i j a b tl,
  nth_error l i = Some a -> nth_error l j = Some b -> i <> j ->
  starts (snd b) (fst b) tl = true -> starts (snd a) (fst a) tl = false.
Proof.
  induction l as [|x l IH]; intros Hd i j a b tl Ha Hb Hne Sb.
  - destruct i; discriminate Ha.
  - cbn [members_distinct] in Hd. apply andb_true_iff in Hd. destruct Hd as [Hx Hrest].
    rewrite forallb_forall in Hx.
    destruct i as [|i], j as [|j]; cbn [nth_error] in *.
    + contradiction.
    + inversion Ha; subst x.
      destruct (starts (snd a) (fst a) tl) eqn:Sa; [|reflexivity]. exfalso.
      apply (disjoint_starts a b tl); [apply Hx; eapply nth_error_In; eassumption | exact Sa | exact Sb].
    + inversion Hb; subst x.
      destruct (starts (snd a) (fst a) tl) eqn:Sa; [|reflexivity]. exfalso.
      apply (disjoint_starts b a tl); [apply Hx; eapply nth_error_In; eassumption | exact Sb | exact Sa].
    + eapply IH; eauto.
Qed.

(* the element a member was encoded into starts that member *)
Lemma dec_ok_starts t p bs v tl off :
  dec t p bs = Ok v -> parse_tl bs = Ok (tl, off) -> starts t p tl = true.
Proof. intros D P. rewrite starts_expected. exact (dec_ok_expected t p bs v tl off D P). Qed.

Lemma Forall_nth {A} (P : A -> Prop) l i a : Forall P l -> nth_error l i = Some a -> P a.
Proof. intros H Hn. rewrite Forall_forall in H. apply H. eapply nth_error_In; eassumption. Qed.

Lemma ok_choice_len pr : forall l ws k, ok_choice_go pr l ws k = true -> length l = length ws.
Proof.
  induction l as [|[a0 t0] l IH]; intros ws k H; destruct ws; try discriminate H; [reflexivity|].
  cbn [ok_choice_go] in H. apply andb_true_iff in H. cbn [length]. f_equal. eapply IH. exact (proj2 H).
Qed.

Lemma shaped_same_tag p q bs : p_tag p = p_tag q -> shaped p bs -> shaped q bs.
Proof.
  intros E [c [k [tn [content [H1 [H2 [H3 H4]]]]]]]. exists c, k, tn, content.
  split; [exact H1|]. split; [exact H2|]. split; [exact H3|].
  intros n Hq. apply H4. rewrite E. exact Hq.
Qed.

Lemma rt_choice l : Forall (fun a => rt_ok (snd a)) l -> rt_ne (TChoice l).
Proof.
  intros IH p v bs Hn Hok He Hs. ok_open Hok Ht.
  rewrite enc_unfold in He. cbn [enc_step] in He.
  destruct v as [| | | | | |[|[| pr | | | | | |] vs]|]; try discriminate.
  apply andb_true_iff in Hok. destruct Hok as [Hok Hv].
  apply andb_true_iff in Hok. destruct Hok as [Ho Hm]. rewrite negb_true_iff in Ho.
  fold (ok_choice_go pr) in Hv.
  destruct (pr <=? 0) eqn:E1; [discriminate|].
  destruct (pr >=? 1 + zlen l) eqn:E2; [discriminate|].
  set (j := Z.to_nat (pr - 1)) in *.
  assert (Hj : (j < length l)%nat) by (unfold j, zlen in *; lia).
  pose proof (ok_choice_len pr l vs 1 Hv) as Hlen.
  destruct (nth_error l j) as [[ap at']|] eqn:El; [|apply nth_error_None in El; lia].
  destruct (nth_error vs j) as [w|] eqn:Ew; [|apply nth_error_None in Ew; lia].
  destruct (canon_choice_sel pr l vs 1 j ap at' w ltac:(unfold j; lia) Hv El Ew) as [Ecan Hcw].
  pose proof (Forall_nth _ _ _ _ IH El) as IHa. cbn [snd] in IHa.
  rewrite (enc_pick_nth p Ho l vs j ap at' w El Ew) in He.
  cbn [canon]. fold (canon_choice_go pr). rewrite Ecan.
  assert (Hpr : Z.of_nat (S (0 + j)) = pr) by (unfold j; lia).
  (* the alternatives before j do not start with the identifier of the selected one *)
  assert (Hbefore : forall tal, starts at' ap tal = true -> forall i a, nth_error l i = Some a -> (i < j)%nat ->
                      starts (snd a) (fst a) tal = false).
  { intros tal Hst i a Hi Hlt. apply (members_distinct_neq l Hm i j a (ap, at') tal Hi El); [lia | exact Hst]. }
  destruct (p_tag p) as [n|] eqn:Et.
  - (* context-tagged CHOICE: constructed wrapper around the alternative *)
    destruct (enc at' ap w) as [inner| | |] eqn:Ei; cbn [bind] in He; try discriminate.
    inversion He; subst bs; clear He.
    assert (Hn' : noexp (no_explicit p) = true) by (unfold noexp, no_explicit; reflexivity).
    assert (Ht' : tag_ok (no_explicit p) = true) by (unfold tag_ok, no_explicit in *; cbn [p_tag]; exact Ht).
    rewrite finish_hdr_of in * by exact Hn'.
    set (H := hdr_of (no_explicit p) 0 true 0 (zlen inner)) in *.
    assert (Hil : zlen inner < 2 ^ 32) by (rewrite zlen_app in Hs; pose proof (zlen_nonneg H); lia).
    destruct (IHa ap w inner Hcw Ei Hil) as [Hd Hsh].
    assert (Hc0 : cls_ok 0) by (unfold cls_ok; lia).
    split.
    2:{ apply (shaped_same_tag (no_explicit p) p); [reflexivity|].
        unfold H. rewrite <- finish_hdr_of by exact Hn'. apply finish_shaped; try assumption; lia. }
    rewrite dec_unfold.
    assert (Estep : dec_step dec (TChoice l) p (H ++ inner) = dec_body dec (TChoice l) p (H ++ inner)).
    { cbn [dec_step]. unfold H. pose proof (zlen_nonneg inner).
      rewrite parse_finish0 by (try assumption; lia). cbn [bind].
      rewrite (enter_range dec (no_explicit p) 0 true 0 inner).
      rewrite explicit_cond_false by exact Hn. reflexivity. }
    rewrite Estep. unfold dec_body. pose proof (zlen_nonneg inner).
    unfold H. rewrite parse_finish0 by (try assumption; lia). cbn [bind].
    rewrite (enter_range dec (no_explicit p) 0 true 0 inner).
    assert (Hid : ident_ok (TChoice l) p (tl_of (no_explicit p) 0 true 0 (zlen inner)) = true).
    { unfold ident_ok, ident_matches, tl_of. cbn [prim_tag no_explicit p_tag]. rewrite Et.
      cbn [t_cls t_num t_constr Bool.eqb]. rewrite !Z.eqb_refl. reflexivity. }
    rewrite Hid. cbn [negb].
    rewrite Ho, Et.
    rewrite (enter_content (no_explicit p) 0 true 0 inner). cbn [bind].
    destruct (shaped_parse ap inner [] Hsh Hil) as [tal [off [Hpar [Hoff [Hlen2 [Hl0 Htg]]]]]].
    rewrite app_nil_r in Hpar. rewrite Hpar. cbn [bind].
    pose proof (dec_ok_starts at' ap inner _ tal off Hd Hpar) as Hmatch.
    fold H.
    replace (zlen H + off + t_len tal >? zlen (H ++ inner)) with false by (rewrite zlen_app; lia).
    cbn [bind]. unfold H. rewrite (enter_content (no_explicit p) 0 true 0 inner). cbn [bind].
    rewrite (choice_pick_sel dec l inner tal j l 0 ap at' (Hbefore tal Hmatch) El Hmatch).
    rewrite Hd. cbn [bind]. rewrite Hpr. reflexivity.
  - (* untagged CHOICE: the alternative's own encoding *)
    destruct (IHa ap w bs Hcw He Hs) as [Hd Hsh].
    split.
    2:{ destruct Hsh as [c [k [tn [content [H1 [H2 [H3 H4]]]]]]]. exists c, k, tn, content.
        split; [exact H1|]. split; [exact H2|]. split; [exact H3|].
        intros m Hmm. rewrite Et in Hmm. discriminate Hmm. }
    destruct (shaped_parse ap bs [] Hsh Hs) as [tal [off [Hpar [Hoff [Hlen2 [Hl0 Htg]]]]]].
    rewrite app_nil_r in Hpar.
    pose proof (dec_ok_starts at' ap bs _ tal off Hd Hpar) as Hmatch.
    rewrite dec_unfold. cbn [dec_step]. rewrite Hpar. cbn [bind].
    replace (off + t_len tal >? zlen bs) with false by lia.
    rewrite explicit_cond_false by exact Hn.
    unfold dec_body. rewrite Hpar. cbn [bind].
    replace (off + t_len tal >? zlen bs) with false by lia.
    unfold ident_ok. cbn [prim_tag]. rewrite Et. cbn [negb].
    rewrite Ho. cbn [bind].
    assert (Sl : slice_from bs 0 = Ok bs).
    { change bs with ([] ++ bs) at 1. apply (slice_from_app_len [] bs). }
    rewrite Sl. cbn [bind].
    rewrite (choice_pick_sel dec l bs tal j l 0 ap at' (Hbefore tal Hmatch) El Hmatch).
    rewrite Hd. cbn [bind]. rewrite Hpr. reflexivity.
Qed.

(* ---- SEQUENCE / SET ---- *)

Definition canon_seq_go :=
  fix go (l : list (fparams * ty)) (ws : list value) : list value :=
    match l, ws with
    | (fp, ft) :: l', w :: ws' => canon ft (p_optional fp) w :: go l' ws'
    | _, _ => ws
    end.

Definition ok_seq_go :=
  fix go (l : list (fparams * ty)) (ws : list value) : bool :=
    match l, ws with
    | [], [] => true
    | (fp, ft) :: l', w :: ws' =>
      (if p_optional fp && is_nil w then nillable ft
       else (negb (p_optional fp) || nillable ft) && ok ft fp w) && go l' ws'
    | _, _ => false
    end.

Lemma seq_find_sel rec p current tn chunk K : forall jrel l' i0 fp ft,
  (forall i a, nth_error l' i = Some a -> (i < jrel)%nat -> ((if p_set p then O else current) <= i0 + i)%nat ->
               starts (snd a) (fst a) tn = false) ->
  nth_error l' jrel = Some (fp, ft) ->
  ((if p_set p then O else current) <= i0 + jrel)%nat ->
  p_open p = false -> starts ft fp tn = true ->
  seq_find rec p current tn chunk K l' i0 = do v <- rec ft fp chunk; K (i0 + jrel)%nat v.
Proof.
  induction jrel as [|jrel IH]; intros l' i0 fp ft Hbefore Hl Hstart Ho Hm.
  - destruct l' as [|[a0 t0] l']; [discriminate Hl|]. cbn [nth_error] in Hl. inversion Hl; subst.
    cbn [seq_find]. rewrite Nat.add_0_r in *.
    replace (Nat.ltb i0 (if p_set p then 0%nat else current)) with false
      by (symmetry; apply Nat.ltb_ge; exact Hstart).
    rewrite Ho, Hm. reflexivity.
  - destruct l' as [|[a0 t0] l']; [discriminate Hl|]. cbn [nth_error] in Hl.
    cbn [seq_find].
    assert (Rest : seq_find rec p current tn chunk K l' (S i0) =
                   do v <- rec ft fp chunk; K (i0 + S jrel)%nat v).
    { rewrite (IH l' (S i0) fp ft); [| |exact Hl| |exact Ho|exact Hm].
      - replace (S i0 + jrel)%nat with (i0 + S jrel)%nat by lia. reflexivity.
      - intros i a Hi Hlt Hge. apply (Hbefore (S i) a Hi); lia.
      - lia. }
    destruct (Nat.ltb i0 (if p_set p then 0%nat else current)) eqn:Elt; [exact Rest|].
    apply Nat.ltb_ge in Elt.
    pose proof (Hbefore 0%nat (a0, t0) eq_refl ltac:(lia) ltac:(lia)) as Hb0. cbn [fst snd] in Hb0.
    rewrite Ho, Hb0. exact Rest.
Qed.

Lemma set_nth_app_len {A} (a : list A) x y r : set_nth (a ++ x :: r) (length a) y = a ++ y :: r.
Proof. induction a as [|z a IH]; cbn [app length set_nth]; [reflexivity | rewrite IH; reflexivity]. Qed.

Lemma nth_error_app_len {A} (a : list A) x r : nth_error (a ++ x :: r) (length a) = Some x.
Proof. induction a; cbn; auto. Qed.

Lemma nth_error_skipn_in {A} (l : list A) : forall c i a,
  (c <= i)%nat -> nth_error l i = Some a -> In a (skipn c l).
Proof.
  induction l as [|x l IH]; intros c i a Hc Hi; [destruct i; discriminate Hi|].
  destruct c as [|c]; [cbn [skipn]; eapply nth_error_In; exact Hi|].
  destruct i as [|i]; [lia|]. cbn [skipn nth_error] in *. apply (IH c i a); [lia | exact Hi].
Qed.

Section SeqRT.
  Variable l : list (fparams * ty).
  Variable p : fparams.
  Variable bs : list Z.
  Hypothesis Ho : p_open p = false.
  Hypothesis Hsz : zlen bs < 2 ^ 32.

  Lemma seq_loop_rt : forall rem wrem pre canon_pre fuel current B0 C,
    l = pre ++ rem ->
    Forall (fun a => rt_ok (snd a)) rem ->
    ok_seq_go rem wrem = true ->
    (members_distinct l = true \/ (p_set p = false /\ ordered_go (skipn current pre) rem wrem = true)) ->
    enc_seq_go enc rem wrem = Ok C ->
    bs = B0 ++ C ->
    (current <= length pre)%nat -> length canon_pre = length pre ->
    zlen C <= Z.of_nat fuel ->
    seq_loop dec l p bs (zlen bs) fuel (zlen B0) current (canon_pre ++ map (fun a => zero (snd a)) rem)
    = Ok (VStruct (canon_pre ++ canon_seq_go rem wrem)).
  Proof.
    induction rem as [|[fp ft] rem IH];
      intros wrem pre canon_pre fuel current B0 C El HF Hcv Hm He Ebs Hcur Hlen Hfuel.
    - destruct wrem; [|discriminate Hcv]. cbn in He. inversion He; subst C.
      rewrite app_nil_r in Ebs. cbn [map canon_seq_go].
      replace (zlen bs) with (zlen B0) by (rewrite Ebs; reflexivity).
      destruct fuel; cbn [seq_loop]; replace (zlen B0 >=? zlen B0) with true by lia; reflexivity.
    - destruct wrem as [|w wrem]; [discriminate Hcv|].
      cbn [ok_seq_go] in Hcv.
      apply andb_true_iff in Hcv. destruct Hcv as [Hhead Hcvr].
      apply Forall_cons_iff in HF. destruct HF as [IHf HFr]. cbn [snd] in IHf.
      cbn [enc_seq_go] in He. cbn [map snd canon_seq_go].
      assert (El' : pre ++ (fp, ft) :: rem = (pre ++ [(fp, ft)]) ++ rem) by (rewrite <- app_assoc; reflexivity).
      (* the step for a member that is present in the encoding *)
      assert (Present : forall b r, ok ft fp w = true ->
                (members_distinct l = true \/
                 (p_set p = false /\ forallb (fun b0 => disjoint b0 (fp, ft)) (skipn current pre) = true /\
                  ordered_go [] rem wrem = true)) ->
                enc ft fp w = Ok b -> enc_seq_go enc rem wrem = Ok r -> C = b ++ r ->
                seq_loop dec l p bs (zlen bs) fuel (zlen B0) current
                  (canon_pre ++ zero ft :: map (fun a => zero (snd a)) rem) =
                Ok (VStruct (canon_pre ++ canon ft false w :: canon_seq_go rem wrem))).
      { intros b r Hw Hsel Eb Er EC. subst C.
        assert (Hbl : zlen b < 2 ^ 32).
        { rewrite Ebs, !zlen_app in Hsz. pose proof (zlen_nonneg B0). pose proof (zlen_nonneg r). lia. }
        destruct (IHf fp w b Hw Eb Hbl) as [Hd Hsh].
        pose proof (shaped_len fp b Hsh) as Hb2. pose proof (zlen_nonneg r) as Hr0.
        rewrite zlen_app in Hfuel.
        destruct fuel as [|fk]; [lia|]. cbn [seq_loop].
        rewrite Ebs at 1. rewrite !zlen_app.
        replace (zlen B0 >=? zlen B0 + (zlen b + zlen r)) with false by lia.
        rewrite Ebs at 1. rewrite slice_from_app_len. cbn [bind].
        destruct (shaped_parse_all fp b Hsh Hbl) as [tal [off [Hpar [Hoff [Hlen2 Hl0]]]]].
        rewrite (Hpar r). cbn [bind].
        assert (Hmatch : starts ft fp tal = true).
        { apply (dec_ok_starts ft fp b _ tal off Hd). rewrite <- (Hpar []), app_nil_r. reflexivity. }
        replace (zlen B0 + off + t_len tal) with (zlen B0 + zlen b) by lia.
        rewrite Ebs at 1. rewrite !zlen_app.
        replace (zlen B0 + zlen b >? zlen B0 + (zlen b + zlen r)) with false by lia.
        rewrite Ebs at 1.
        replace (zlen B0) with (zlen B0 + 0) at 1 by lia.
        rewrite slice_shift by lia. rewrite slice0_app by reflexivity. cbn [bind].
        assert (Hnth : nth_error l (length pre) = Some (fp, ft)) by (rewrite El; apply nth_error_app_len).
        rewrite (seq_find_sel dec p current tal b _ (length pre) l 0 fp ft).
        - rewrite Hd. cbn [bind]. cbn [Nat.add].
          rewrite <- Hlen. rewrite set_nth_app_len. rewrite Hlen.
          replace (zlen B0 + zlen b) with (zlen (B0 ++ b)) by (rewrite zlen_app; reflexivity).
          replace (canon_pre ++ canon ft false w :: map (fun a => zero (snd a)) rem)
            with ((canon_pre ++ [canon ft false w]) ++ map (fun a => zero (snd a)) rem)
            by (rewrite <- app_assoc; reflexivity).
          replace (canon_pre ++ canon ft false w :: canon_seq_go rem wrem)
            with ((canon_pre ++ [canon ft false w]) ++ canon_seq_go rem wrem)
            by (rewrite <- app_assoc; reflexivity).
          apply (IH wrem (pre ++ [(fp, ft)]) (canon_pre ++ [canon ft false w]) fk (S (length pre)) (B0 ++ b) r);
            try assumption.
          + rewrite El, El'. reflexivity.
          + destruct Hsel as [Hd0|[Hset [_ Hord]]]; [left; exact Hd0|]. right. split; [exact Hset|].
            rewrite skipn_all2 by (rewrite app_length; cbn [length]; lia). exact Hord.
          + rewrite Ebs, <- app_assoc. reflexivity.
          + rewrite app_length. cbn [length]. lia.
          + rewrite !app_length. cbn [length]. lia.
          + lia.
        - intros i a Hi Hlt Hge. cbn [Nat.add] in Hge.
          destruct Hsel as [Hd0|[Hset [Hgap _]]].
          + apply (members_distinct_neq l Hd0 i (length pre) a (fp, ft) tal Hi Hnth); [lia | exact Hmatch].
          + rewrite Hset in Hge.
            destruct (starts (snd a) (fst a) tal) eqn:Sa; [|reflexivity]. exfalso.
            rewrite forallb_forall in Hgap.
            apply (disjoint_starts a (fp, ft) tal); [|exact Sa|exact Hmatch].
            apply Hgap. rewrite El in Hi. rewrite nth_error_app1 in Hi by lia.
            apply (nth_error_skipn_in pre current i a Hge Hi).
        - exact Hnth.
        - cbn [Nat.add]. destruct (p_set p); lia.
        - exact Ho.
        - exact Hmatch. }
      destruct (p_optional fp) eqn:Eopt; cbn [andb negb orb] in *.
      + destruct (is_nil w) eqn:Enil.
        * (* absent OPTIONAL member *)
          rename Hhead into Hnil. rewrite Hnil in He.
          rewrite (is_nil_eq _ Enil).
          rewrite <- (nillable_zero_canon ft Hnil).
          replace (canon_pre ++ zero ft :: map (fun a => zero (snd a)) rem)
            with ((canon_pre ++ [zero ft]) ++ map (fun a => zero (snd a)) rem)
            by (rewrite <- app_assoc; reflexivity).
          replace (canon_pre ++ zero ft :: canon_seq_go rem wrem)
            with ((canon_pre ++ [zero ft]) ++ canon_seq_go rem wrem)
            by (rewrite <- app_assoc; reflexivity).
          apply (IH wrem (pre ++ [(fp, ft)]) (canon_pre ++ [zero ft]) fuel current B0 C);
            try assumption.
          -- rewrite El, El'. reflexivity.
          -- destruct Hm as [Hd0|[Hset Hord]]; [left; exact Hd0|]. right. split; [exact Hset|].
             cbn [ordered_go fst] in Hord. rewrite Eopt, Enil in Hord. cbn [andb] in Hord.
             rewrite skipn_app. replace (current - length pre)%nat with 0%nat by lia. exact Hord.
          -- rewrite app_length. cbn [length]. lia.
          -- rewrite !app_length. cbn [length]. lia.
        * (* present OPTIONAL member *)
          apply andb_true_iff in Hhead. destruct Hhead as [Hnil Hw].
          rewrite Hnil in He.
          rewrite (is_nil_canon ft w Enil).
          destruct (p_open fp); [discriminate He|].
          destruct (enc ft fp w) as [b| | |] eqn:Eb; try discriminate He.
          destruct (enc_seq_go enc rem wrem) as [r| | |] eqn:Er; cbn [bind] in He; try discriminate He.
          inversion He; subst C; clear He.
          apply (Present b r); try reflexivity; try assumption.
          destruct Hm as [Hd0|[Hset Hord]]; [left; exact Hd0|]. right. split; [exact Hset|].
          cbn [ordered_go fst] in Hord. rewrite Eopt, Enil in Hord. cbn [andb] in Hord.
          apply andb_true_iff in Hord. exact Hord.
      + rename Hhead into Hw.
        destruct (p_open fp); [discriminate He|].
        destruct (enc ft fp w) as [b| | |] eqn:Eb; try discriminate He.
        destruct (enc_seq_go enc rem wrem) as [r| | |] eqn:Er; cbn [bind] in He; try discriminate He.
        inversion He; subst C; clear He.
        apply (Present b r); try reflexivity; try assumption.
        destruct Hm as [Hd0|[Hset Hord]]; [left; exact Hd0|]. right. split; [exact Hset|].
        cbn [ordered_go fst] in Hord. rewrite Eopt in Hord. cbn [andb] in Hord.
        apply andb_true_iff in Hord. exact Hord.
  Qed.
End SeqRT.

Lemma rt_seq l : Forall (fun a => rt_ok (snd a)) l -> rt_ne (TSeq l).
Proof.
  intros IH p v bs Hn Hok He Hs. ok_open Hok Ht.
  rewrite enc_unfold in He. cbn [enc_step] in He.
  destruct v as [| | | | | |vs|]; try discriminate.
  apply andb_true_iff in Hok. destruct Hok as [Hok Hv].
  apply andb_true_iff in Hok. destruct Hok as [Ho Hm]. rewrite negb_true_iff in Ho.
  fold ok_seq_go in Hv.
  assert (Hm' : members_distinct l = true \/ (p_set p = false /\ ordered_go (skipn 0 []) l vs = true)).
  { apply orb_true_iff in Hm. destruct Hm as [Hm|Hm]; [left; exact Hm|]. right.
    apply andb_true_iff in Hm. destruct Hm as [Hs0 Hord]. rewrite negb_true_iff in Hs0. split; assumption. }
  destruct (enc_seq_go enc l vs) as [content| | |] eqn:Ec; cbn [bind] in He; try discriminate.
  inversion He; subst bs; clear He.
  rewrite finish_hdr_of in * by exact Hn.
  set (H := hdr_of p 0 true (seq_tag p) (zlen content)) in *.
  assert (Hcl : zlen content < 2 ^ 32) by (rewrite zlen_app in Hs; pose proof (zlen_nonneg H); lia).
  assert (Hc0 : cls_ok 0) by (unfold cls_ok; lia).
  pose proof (seq_tag_range p) as Hst.
  split.
  2:{ unfold H. rewrite <- finish_hdr_of by exact Hn. apply finish_shaped; assumption. }
  rewrite dec_unfold. unfold H.
  rewrite (enter_step dec p 0 true (seq_tag p) content Hn Ht Hc0 Hst Hcl) by exact I.
  unfold dec_body. pose proof (zlen_nonneg content).
  rewrite parse_finish0 by (try assumption; lia). cbn [bind].
  rewrite (enter_range dec p 0 true (seq_tag p) content).
  rewrite ident_ok_tl_of by prim_tag_side; cbn [negb]. fold H.
  cbn [canon]. fold canon_seq_go.
  pose proof (seq_loop_rt l p (H ++ content) Ho Hs l vs [] [] (length (H ++ content)) 0%nat H content
                eq_refl IH Hv Hm' Ec eq_refl) as L.
  cbn [app length] in L. apply L; [lia | reflexivity |].
  rewrite app_length. unfold zlen. lia.
Qed.

(* ---- EXPLICIT tagging: a constructed context-tagged wrapper around the untagged encoding ---- *)

Definition strip (p : fparams) : fparams := no_explicit (clear_tag p).

(* without a tag the EXPLICIT flag is immaterial (it survives in the parameters handed to the
   elements of a SEQUENCE OF) *)
Lemma untagged_irrelevant : forall t p v, p_tag p = None ->
  enc t p v = enc t (no_explicit p) v /\ ok t p v = ok t (no_explicit p) v.
Proof.
  induction t using ty_ind'; intros p v Hp;
    try (rewrite !enc_unfold; cbn [enc_step ok]; unfold finish, tag_ok, seq_tag;
         cbn [no_explicit p_tag p_strtype p_set p_open]; rewrite ?Hp; split; reflexivity).
  - (* pointer *)
    rewrite !enc_unfold. cbn [enc_step ok]. unfold tag_ok. cbn [no_explicit p_tag]. rewrite Hp.
    destruct v; try (split; reflexivity). destruct (IHt p v Hp) as [E O]. split; assumption.
  - (* wrapper *)
    rewrite !enc_unfold. cbn [enc_step ok]. unfold tag_ok. cbn [no_explicit p_tag]. rewrite Hp.
    destruct v as [| | | | | |[|v0 [|? ?]]|]; try (split; reflexivity).
    + destruct (IHt p v0 Hp) as [E O]. split; [exact E | exact O].
    + destruct (IHt p v0 Hp) as [E O]. split; [exact E | reflexivity].
  - (* SEQUENCE OF: the elements are handed [clear_tag p] *)
    assert (HE : forall vs, enc_slice_go enc t p vs = enc_slice_go enc t (no_explicit p) vs).
    { induction vs as [|w vs IHvs]; [reflexivity|]. cbn [enc_slice_go].
      destruct (IHt (clear_tag p) w eq_refl) as [E _].
      change (clear_tag (no_explicit p)) with (no_explicit (clear_tag p)). rewrite <- E, IHvs. reflexivity. }
    assert (HO : forall vs,
              (fix go (ws : list value) : bool :=
                 match ws with [] => true | w :: r => ok t (clear_tag p) w && go r end) vs =
              (fix go (ws : list value) : bool :=
                 match ws with [] => true | w :: r => ok t (clear_tag (no_explicit p)) w && go r end) vs).
    { induction vs as [|w vs IHvs]; [reflexivity|].
      destruct (IHt (clear_tag p) w eq_refl) as [_ O].
      change (clear_tag (no_explicit p)) with (no_explicit (clear_tag p)). rewrite <- O, IHvs. reflexivity. }
    rewrite !enc_unfold. cbn [enc_step ok]. unfold finish, tag_ok, seq_tag.
    cbn [no_explicit p_tag p_set]. rewrite Hp.
    split.
    + destruct v; try reflexivity; rewrite HE; reflexivity.
    + destruct v; try reflexivity. rewrite HO. reflexivity.
Qed.

Definition not_ptr (t : ty) : Prop := match t with TPtr _ => False | _ => True end.

(* without a tag the decoder goes straight to the type-specific part *)
Lemma dec_untagged_body t q bs : p_tag q = None -> not_ptr t -> dec t q bs = dec_body dec t q bs.
Proof.
  intros Hq Hnp. rewrite dec_unfold.
  destruct t; try contradiction; cbn [dec_step]; rewrite Hq; cbn [andb]; unfold dec_body;
    destruct (parse_tl bs) as [[tl0 toff]| | |]; cbn [bind]; try reflexivity;
    destruct (toff + t_len tl0 >? zlen bs); reflexivity.
Qed.

(* the encoder wraps the untagged encoding *)
Lemma enc_explicit : forall t p n v bs,
  p_tag p = Some n -> p_explicit p = true -> enc t p v = Ok bs ->
  exists inner, enc t (strip p) v = Ok inner /\ bs = hdr 2 true n (zlen inner) ++ inner.
Proof.
  induction t using ty_ind'; intros p n v bs Ht Hx He;
    try (rewrite enc_unfold in He |- *; cbn [enc_step] in He |- *;
         destruct v; try discriminate He; cbn [bytes_of] in He |- *;
         inversion He; unfold finish; cbn [strip no_explicit clear_tag p_tag p_strtype p_explicit];
         rewrite Ht, Hx; eexists; split; reflexivity).
  - (* pointer *)
    rewrite enc_unfold in He |- *. cbn [enc_step] in He |- *. destruct v; try discriminate He.
    exact (IHt p n v bs Ht Hx He).
  - (* wrapper *)
    rewrite enc_unfold in He |- *. cbn [enc_step] in He |- *.
    destruct v as [| | | | | |[|v0 ?]|]; try discriminate He. exact (IHt p n v0 bs Ht Hx He).
  - (* CHOICE: the wrapper of a tagged CHOICE *)
    rewrite enc_unfold in He |- *. cbn [enc_step] in He |- *.
    destruct v as [| | | | | |[|[| pr | | | | | |] vs]|]; try discriminate He.
    destruct (pr <=? 0); [discriminate He|]. destruct (pr >=? 1 + zlen l); [discriminate He|].
    revert He. generalize (Z.to_nat (pr - 1)) as k. revert vs. clear H.
    induction l as [|[ap at'] l IHl]; intros vs k He; cbn [enc_pick] in He |- *; [discriminate He|].
    destruct vs as [|w vs]; [discriminate He|].
    destruct k as [|k]; [|exact (IHl vs k He)].
    cbn [strip no_explicit clear_tag p_open p_tag]. destruct (p_open p); [discriminate He|].
    rewrite Ht in He. destruct (enc at' ap w) as [inner| | |]; cbn [bind] in He; try discriminate He.
    exists inner. split; [reflexivity|]. inversion He. unfold finish. cbn [no_explicit p_tag p_explicit]. rewrite Ht. reflexivity.
  - (* SEQUENCE / SET *)
    rewrite enc_unfold in He |- *. cbn [enc_step] in He |- *. destruct v; try discriminate He.
    destruct (enc_seq_go enc l fs) as [content| | |]; cbn [bind] in He |- *; try discriminate He.
    inversion He. unfold finish, seq_tag. cbn [strip no_explicit clear_tag p_tag p_set]. rewrite Ht, Hx.
    eexists. split; reflexivity.
  - (* SEQUENCE OF *)
    assert (HE : forall vs, enc_slice_go enc t p vs = enc_slice_go enc t (strip p) vs).
    { induction vs as [|w vs IHvs]; [reflexivity|]. cbn [enc_slice_go].
      destruct (untagged_irrelevant t (clear_tag p) w eq_refl) as [E _].
      change (clear_tag (strip p)) with (no_explicit (clear_tag p)). rewrite <- E, IHvs. reflexivity. }
    rewrite enc_unfold in He |- *. cbn [enc_step] in He |- *.
    destruct v; try discriminate He; rewrite <- HE;
      match type of He with context [enc_slice_go enc t p ?vs] =>
        destruct (enc_slice_go enc t p vs) as [content| | |] end; cbn [bind] in He |- *; try discriminate He;
      inversion He; unfold finish, seq_tag; cbn [strip no_explicit clear_tag p_tag p_set]; rewrite Ht, Hx;
      eexists; split; reflexivity.
Qed.

(* the hypotheses carry over to the untagged parameters *)
Lemma ok_strip : forall t p v, ok t p v = true -> ok t (strip p) v = true.
Proof.
  induction t using ty_ind'; intros p v Hok;
    try (cbn [ok] in Hok |- *; apply andb_true_iff in Hok; destruct Hok as [_ Hok];
         unfold tag_ok; cbn [strip no_explicit clear_tag p_tag p_strtype p_open p_set andb]; exact Hok).
  - cbn [ok] in Hok |- *. apply andb_true_iff in Hok. destruct Hok as [_ Hok].
    unfold tag_ok. cbn [strip no_explicit clear_tag p_tag andb].
    destruct v; try exact Hok. exact (IHt p v Hok).
  - cbn [ok] in Hok |- *. apply andb_true_iff in Hok. destruct Hok as [_ Hok].
    unfold tag_ok. cbn [strip no_explicit clear_tag p_tag andb].
    destruct v as [| | | | | |[|v0 [|? ?]]|]; try exact Hok. exact (IHt p v0 Hok).
  - assert (HO : forall vs,
              (fix go (ws : list value) : bool :=
                 match ws with [] => true | w :: r => ok t (clear_tag p) w && go r end) vs =
              (fix go (ws : list value) : bool :=
                 match ws with [] => true | w :: r => ok t (clear_tag (strip p)) w && go r end) vs).
    { induction vs as [|w vs IHvs]; [reflexivity|].
      destruct (untagged_irrelevant t (clear_tag p) w eq_refl) as [_ O].
      change (clear_tag (strip p)) with (no_explicit (clear_tag p)). rewrite <- O, IHvs. reflexivity. }
    cbn [ok] in Hok |- *. apply andb_true_iff in Hok. destruct Hok as [_ Hok].
    replace (tag_ok (strip p)) with true by reflexivity. cbn [andb].
    destruct v; try exact Hok. rewrite <- HO. exact Hok.
Qed.

(* the decoder unwraps it *)
Lemma dec_explicit : forall t p n inner,
  p_tag p = Some n -> p_explicit p = true -> 0 <= n < 2 ^ 63 -> zlen inner < 2 ^ 32 ->
  dec t p (hdr 2 true n (zlen inner) ++ inner) = dec t (strip p) inner.
Proof.
  intros t p n inner Ht Hx Hn Hl. pose proof (zlen_nonneg inner) as Hi0.
  set (H := hdr 2 true n (zlen inner)).
  assert (Hc2 : cls_ok 2) by (unfold cls_ok; lia).
  assert (Hpar : parse_tl (H ++ inner) = Ok (mkTal 2 true n (zlen inner), zlen H))
    by (apply parse_hdr; [exact Hc2 | exact Hn | lia]).
  assert (Hrange : (zlen H + zlen inner >? zlen (H ++ inner)) = false) by (rewrite zlen_app; lia).
  assert (Hw : wrapper_ok p (mkTal 2 true n (zlen inner)) = true).
  { unfold wrapper_ok. cbn [t_constr t_cls t_num]. rewrite Ht, !Z.eqb_refl. reflexivity. }
  induction t using ty_ind';
    try (match goal with |- _ = dec ?T _ _ => rewrite (dec_untagged_body T (strip p) inner eq_refl I) end;
         rewrite dec_unfold; cbn [dec_step]; rewrite Hpar; cbn [bind t_len]; rewrite Hrange, Ht, Hx;
         cbn [andb negb]; rewrite Hw; cbn [negb]; rewrite slice_from_app_len; cbn [bind]; reflexivity).
  - (* pointer *)
    rewrite (dec_unfold (TPtr _) p), (dec_unfold (TPtr _) (strip p)). cbn [dec_step]. rewrite IHt. reflexivity.
  - (* tagged CHOICE: the CHOICE case unwraps *)
    rewrite (dec_untagged_body (TChoice l) (strip p) inner eq_refl I).
    rewrite dec_unfold. cbn [dec_step]. rewrite Hpar. cbn [bind t_len]. rewrite Hrange.
    rewrite andb_false_r. unfold dec_body at 1. rewrite Hpar. cbn [bind t_len]. rewrite Hrange.
    replace (ident_ok (TChoice l) p (mkTal 2 true n (zlen inner))) with true
      by (unfold ident_ok, ident_matches; cbn [prim_tag t_constr t_cls t_num]; rewrite Ht;
          cbn [Bool.eqb]; rewrite !Z.eqb_refl; reflexivity).
    cbn [negb]. unfold dec_body. cbn [strip no_explicit clear_tag p_open p_tag].
    rewrite Ht. rewrite slice_from_app_len. cbn [bind].
    pose proof (parse_tl_spec inner) as Hps.
    destruct (parse_tl inner) as [[tl2 toff2]| | |]; cbn [tl_post] in Hps; try contradiction; cbn [bind];
      try (destruct (p_open p); reflexivity).
    rewrite zlen_app.
    replace (zlen H + toff2 + t_len tl2 >? zlen H + zlen inner) with (toff2 + t_len tl2 >? zlen inner) by lia.
    destruct (toff2 + t_len tl2 >? zlen inner); [destruct (p_open p); reflexivity|].
    replace (ident_ok (TChoice l) (mkP (p_optional p) (p_open p) None false (p_set p) (p_strtype p)) tl2) with true
      by reflexivity.
    cbn [negb bind]. rewrite slice_from_app_len. rewrite slice_from_zero. reflexivity.
Qed.

(* from the parameters without EXPLICIT tagging to all parameters *)
Lemma lift t : not_ptr t -> rt_ne t -> rt_ok t.
Proof.
  intros Hnp R p v bs Hok He Hs.
  destruct (noexp p) eqn:Hn; [exact (R p v bs Hn Hok He Hs)|].
  unfold noexp, tagged in Hn. destruct (p_tag p) as [n|] eqn:Ht; [|destruct (p_explicit p); discriminate Hn].
  destruct (p_explicit p) eqn:Hx; [|discriminate Hn].
  pose proof (ok_split _ _ _ Hok) as Htag. pose proof (tag_ok_range p n Htag Ht) as Hnr.
  destruct (enc_explicit t p n v bs Ht Hx He) as [inner [Ei Eb]]. subst bs.
  assert (Hil : zlen inner < 2 ^ 32).
  { rewrite zlen_app in Hs. pose proof (zlen_nonneg (hdr 2 true n (zlen inner))). lia. }
  destruct (R (strip p) v inner eq_refl (ok_strip t p v Hok) Ei Hil) as [Hd _].
  split.
  - rewrite (dec_explicit t p n inner Ht Hx Hnr Hil). exact Hd.
  - exists 2, true, n, inner. split; [reflexivity|]. split; [unfold cls_ok; lia|]. split; [exact Hnr|].
    intros m Hm. rewrite Ht in Hm. inversion Hm. split; reflexivity.
Qed.

Theorem roundtrip : forall t, rt_ok t.
Proof.
  induction t using ty_ind'.
  - apply lift; [exact I | apply rt_bool].
  - apply lift; [exact I | apply rt_int].
  - apply lift; [exact I | apply rt_enum].
  - apply lift; [exact I | apply rt_octets].
  - apply lift; [exact I | apply rt_bits].
  - apply lift; [exact I | apply rt_null].
  - intros p v bs Hr. cbn [ok] in Hr. rewrite andb_false_r in Hr. discriminate.
  - apply lift; [exact I | apply rt_string].
  - apply rt_ptr, IHt.
  - apply lift; [exact I | apply rt_wrap, IHt].
  - apply lift; [exact I | apply rt_choice, H].
  - apply lift; [exact I | apply rt_seq, H].
  - apply lift; [exact I | apply rt_slice, IHt].
  - intros p v bs Hr. cbn [ok] in Hr. rewrite andb_false_r in Hr. discriminate.
Qed.

Corollary dec_enc t p v bs :
  ok t p v = true -> enc t p v = Ok bs -> zlen bs < 2 ^ 32 ->
  dec t p bs = Ok (canon t false v).
Proof. intros Hok He Hs. exact (proj1 (roundtrip t p v bs Hok He Hs)). Qed.
