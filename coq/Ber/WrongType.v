(* C16, "wrongly-typed input is reported as an error": whenever the decoder returns a
   value, the identifier octets at the start of the input are the ones the target type and
   its parameters call for.  [expected] is the specification (written out here, not taken
   from the decoder); [dec_ok_expected] is the theorem, for every type descriptor, every
   parameter record and every byte string. *)
From Coq Require Import List ZArith Lia Bool ZifyBool.
From Verif Require Import Common.Outcome Common.Bytes Common.BytesLemmas Ber.Model Ber.DecEq Ber.Safety Ber.X690 Ber.ParseHdr.
Import ListNotations.
Open Scope Z_scope.

(* primitive/constructed form and universal tag number of the types that have an
   identifier of their own (X.690 8.2-8.23; SEQUENCE 16, SET 17) *)
Definition leaf_ident (t : ty) (p : fparams) : option (bool * Z) :=
  match t with
  | TBool => Some (false, 1)
  | TInt => Some (false, 2)
  | TBits => Some (false, 3)
  | TOctets => Some (false, 4)
  | TNull => Some (false, 5)
  | TEnum => Some (false, 10)
  | TString k => Some (false, if p_strtype p =? 0 then k else p_strtype p)
  | TSeq _ | TSlice _ => Some (true, if p_set p then 17 else 16)
  | _ => None
  end.

Definition ctx_ident (k : bool) (n : Z) (tl : tal) : bool :=
  Bool.eqb (t_constr tl) k && ((t_cls tl =? 2) && (t_num tl =? n)).
Definition univ_ident (k : bool) (w : Z) (tl : tal) : bool :=
  Bool.eqb (t_constr tl) k && ((t_cls tl =? 0) && (t_num tl =? w)).

(* the identifier an encoding of a [t] under parameters [p] starts with:
   - a member tagged EXPLICIT, and a tagged CHOICE, sit in a constructed context-tagged wrapper;
   - a member tagged IMPLICIT keeps the form of its type under the context tag;
   - an untagged value carries the universal tag of its type;
   - an untagged CHOICE starts like one of its alternatives;
   - OBJECT IDENTIFIER and unsupported kinds have no identifier (and never decode). *)
Fixpoint expected (t : ty) (p : fparams) (tl : tal) {struct t} : bool :=
  match t with
  | TPtr t' => expected t' p tl
  | _ =>
    match p_tag p with
    | Some n =>
      if p_explicit p || is_choice t then ctx_ident true n tl
      else match t with
           | TWrap t' => expected t' p tl
           | _ => match leaf_ident t p with Some (k, _) => ctx_ident k n tl | None => false end
           end
    | None =>
      match t with
      | TWrap t' => expected t' p tl
      | TChoice alts =>
        (fix any (l : list (fparams * ty)) : bool :=
           match l with [] => false | (ap, at') :: r => expected at' ap tl || any r end) alts
      | _ => match leaf_ident t p with Some (k, w) => univ_ident k w tl | None => false end
      end
    end
  end.

Definition any_alt (tl : tal) :=
  fix any (l : list (fparams * ty)) : bool :=
    match l with [] => false | (ap, at') :: r => expected at' ap tl || any r end.

Definition accepts_expected (t : ty) : Prop :=
  forall p bs v tl off, dec t p bs = Ok v -> parse_tl bs = Ok (tl, off) -> expected t p tl = true.

Lemma slice_from_zero bs : slice_from bs 0 = Ok bs.
Proof.
  unfold slice_from. rewrite slice_ok by (unfold zlen; lia).
  rewrite Z.sub_0_r, Nat2Z.id. cbn [Z.to_nat skipn]. f_equal. apply firstn_all.
Qed.

Lemma wrapper_ctx p tl n : p_tag p = Some n -> wrapper_ok p tl = true -> ctx_ident true n tl = true.
Proof.
  intros Et W. unfold wrapper_ok in W. rewrite Et in W. unfold ctx_ident.
  destruct (t_constr tl); cbn [andb Bool.eqb] in *; [|discriminate W].
  exact W.
Qed.

(* open [dec t p bs = Ok v] for a non-pointer type down to the type-specific part *)
Ltac open_dec H Hpar Er :=
  rewrite dec_unfold in H; cbn [dec_step] in H; rewrite Hpar in H; cbn [bind] in H;
  match type of H with (if ?c then _ else _) = _ => destruct c eqn:Er; [discriminate H|] end.

Ltac leaf_case :=
  let p := fresh "p" in let bs := fresh "bs" in let v := fresh "v" in let tl := fresh "tl" in
  let off := fresh "off" in let H := fresh "H" in let Hpar := fresh "Hpar" in
  let Et := fresh "Et" in let Ee := fresh "Ee" in let n := fresh "n" in
  let W := fresh "W" in let I := fresh "I" in let Er := fresh "Er" in
  intros p bs v tl off H Hpar; open_dec H Hpar Er;
  destruct (p_tag p) as [n|] eqn:Et; [destruct (p_explicit p) eqn:Ee|]; cbn [andb negb] in H;
  [ (* explicit wrapper *)
    destruct (wrapper_ok p tl) eqn:W; cbn [negb] in H; [|discriminate H];
    cbn [expected is_choice]; rewrite Et, Ee; cbn [orb]; exact (wrapper_ctx p tl n Et W)
  | (* implicit tag *)
    unfold dec_body in H; rewrite Hpar in H; cbn [bind] in H; rewrite Er in H;
    destruct (ident_ok _ p tl) eqn:I; cbn [negb] in H; [|discriminate H];
    cbn [expected is_choice leaf_ident]; rewrite Et, Ee; cbn [orb];
    unfold ident_ok, ident_matches in I; cbn [prim_tag] in I; rewrite Et in I; exact I
  | (* untagged *)
    unfold dec_body in H; rewrite Hpar in H; cbn [bind] in H; rewrite Er in H;
    destruct (ident_ok _ p tl) eqn:I; cbn [negb] in H; [|discriminate H];
    cbn [expected leaf_ident]; rewrite Et;
    unfold ident_ok, ident_matches in I; cbn [prim_tag] in I; rewrite Et in I; exact I ].

Lemma pick_expected alts bs tl v : forall l k,
  Forall (fun a => accepts_expected (snd a)) l ->
  forall off, parse_tl bs = Ok (tl, off) ->
  choice_pick dec alts bs tl l k = Ok v -> any_alt tl l = true.
Proof.
  induction l as [|[ap at'] r IH]; intros k HF off Hpar H; cbn [choice_pick] in H; [discriminate H|].
  cbn [any_alt]. inversion HF as [|a0 r0 Ha Hr]; subst.
  destruct (starts at' ap tl).
  - destruct (dec at' ap bs) as [w| | |] eqn:D; cbn [bind] in H; try discriminate H.
    cbn [snd] in Ha. rewrite (Ha ap bs w tl off D Hpar). reflexivity.
  - rewrite (IH (S k) Hr off Hpar H). apply orb_true_r.
Qed.

Theorem dec_ok_expected : forall t, accepts_expected t.
Proof.
  induction t using ty_ind'; unfold accepts_expected.
  - leaf_case.
  - leaf_case.
  - leaf_case.
  - leaf_case.
  - leaf_case.
  - leaf_case.
  - (* OBJECT IDENTIFIER never decodes *)
    intros p bs v tl off H Hpar. exfalso. open_dec H Hpar Er.
    assert (B : forall q cs, dec_body dec TOid q cs <> Ok v).
    { intros q cs. unfold dec_body. destruct (parse_tl cs) as [[a b]| | |]; cbn [bind]; try discriminate.
      destruct (b + t_len a >? zlen cs); [discriminate|]. destruct (negb (ident_ok TOid q a)); discriminate. }
    destruct (_ && _ && _).
    + destruct (negb (wrapper_ok p tl)); [discriminate H|].
      destruct (slice_from bs off); cbn [bind] in H; try discriminate H. exact (B _ _ H).
    + exact (B _ _ H).
  - leaf_case.
  - (* pointer *)
    intros p bs v tl off H Hpar. rewrite dec_unfold in H. cbn [dec_step] in H.
    destruct (dec t p bs) as [w| | |] eqn:D; cbn [bind] in H; try discriminate H.
    cbn [expected]. exact (IHt p bs w tl off D Hpar).
  - (* single-member wrapper *)
    intros p bs v tl off H Hpar. open_dec H Hpar Er.
    destruct (p_tag p) as [n|] eqn:Et; [destruct (p_explicit p) eqn:Ee|]; cbn [andb negb] in H.
    + destruct (wrapper_ok p tl) eqn:W; cbn [negb] in H; [|discriminate H].
      cbn [expected is_choice]. rewrite Et, Ee. cbn [orb]. exact (wrapper_ctx p tl n Et W).
    + unfold dec_body in H. rewrite Hpar in H. cbn [bind] in H. rewrite Er in H.
      cbn [ident_ok prim_tag negb] in H.
      destruct (dec t p bs) as [w| | |] eqn:D; cbn [bind] in H; try discriminate H.
      cbn [expected is_choice]. rewrite Et, Ee. cbn [orb]. exact (IHt p bs w tl off D Hpar).
    + unfold dec_body in H. rewrite Hpar in H. cbn [bind] in H. rewrite Er in H.
      cbn [ident_ok prim_tag negb] in H.
      destruct (dec t p bs) as [w| | |] eqn:D; cbn [bind] in H; try discriminate H.
      cbn [expected]. rewrite Et. exact (IHt p bs w tl off D Hpar).
  - (* CHOICE *)
    intros p bs v tl off Hd Hpar. open_dec Hd Hpar Er.
    replace (_ && _ && negb true) with false in Hd by (rewrite andb_false_r; reflexivity).
    unfold dec_body in Hd. rewrite Hpar in Hd. cbn [bind] in Hd. rewrite Er in Hd.
    destruct (ident_ok (TChoice l) p tl) eqn:I; cbn [negb] in Hd; [|discriminate Hd].
    destruct (p_tag p) as [n|] eqn:Et.
    + cbn [expected is_choice]. rewrite Et. rewrite orb_true_r.
      unfold ident_ok, ident_matches in I. cbn [prim_tag] in I. rewrite Et in I. exact I.
    + cbn [expected]. rewrite Et. fold (any_alt tl).
      destruct (p_open p); [discriminate Hd|]. cbn [bind] in Hd.
      rewrite slice_from_zero in Hd. cbn [bind] in Hd.
      exact (pick_expected l bs tl v l 0%nat H off Hpar Hd).
  - leaf_case.
  - leaf_case.
  - (* unsupported kinds never decode *)
    intros p bs v tl off H Hpar. exfalso. open_dec H Hpar Er.
    assert (B : forall q cs, dec_body dec TUnsupported q cs <> Ok v).
    { intros q cs. unfold dec_body. destruct (parse_tl cs) as [[a b]| | |]; cbn [bind]; try discriminate.
      destruct (b + t_len a >? zlen cs); [discriminate|]. destruct (negb (ident_ok TUnsupported q a)); discriminate. }
    destruct (_ && _ && _).
    + destruct (negb (wrapper_ok p tl)); [discriminate H|].
      destruct (slice_from bs off); cbn [bind] in H; try discriminate H. exact (B _ _ H).
    + exact (B _ _ H).
Qed.

(* the decoder's own member matching ([starts], the model of startsWith) is this specification *)
Lemma starts_expected : forall t p tl, starts t p tl = expected t p tl.
Proof.
  induction t using ty_ind'; intros p tl;
    try (cbn [starts expected is_choice prim_tag leaf_ident]; unfold ident_matches, ctx_ident, univ_ident, seq_tag;
         destruct (p_tag p); destruct (p_explicit p); reflexivity).
  - cbn [starts expected]. apply IHt.
  - cbn [starts expected is_choice]. unfold ident_matches, ctx_ident.
    destruct (p_tag p); destruct (p_explicit p); cbn [andb orb]; try reflexivity; apply IHt.
  - cbn [starts expected is_choice]. unfold ident_matches, ctx_ident.
    destruct (p_tag p); [rewrite orb_true_r; reflexivity|]. cbn [andb].
    induction H as [|[ap at'] r Ha Hr IHr]; [reflexivity|]. cbn [snd] in Ha. rewrite Ha, IHr. reflexivity.
Qed.

(* contrapositive, the form the property states: wrongly-typed input is an error
   (on well-formed bytes the decoder returns a value or an error, [dec_safe]) *)
Corollary dec_wrong_type_is_error t p bs tl off :
  bytes_ok bs = true -> parse_tl bs = Ok (tl, off) -> expected t p tl = false -> dec t p bs = Err.
Proof.
  intros Hb Hpar He. destruct (dec_safe t p bs Hb) as [Hp Hf].
  destruct (dec t p bs) as [v| | |] eqn:D; try reflexivity; try contradiction.
  rewrite (dec_ok_expected t p bs v tl off D Hpar) in He. discriminate He.
Qed.

(* ---- truncated input: a header that cannot be read, or a declared length that runs past the
   end of the data, is an error whatever the type (the general form of [dec_overlong]: any
   header form, any tag number) ---- *)
Lemma dec_header_error t p bs :
  match t with TPtr _ => False | _ => True end -> parse_tl bs = Err -> dec t p bs = Err.
Proof.
  intros Hp E. rewrite dec_unfold. destruct t; try contradiction; cbn [dec_step]; rewrite E; reflexivity.
Qed.

Lemma dec_length_past_end t p bs tl off :
  match t with TPtr _ => False | _ => True end ->
  parse_tl bs = Ok (tl, off) -> off + t_len tl > zlen bs -> dec t p bs = Err.
Proof.
  intros Hp E Hgt. rewrite dec_unfold.
  destruct t; try contradiction; cbn [dec_step]; rewrite E; cbn [bind];
    replace (off + t_len tl >? zlen bs) with true by lia; reflexivity.
Qed.

(* through any chain of pointers *)
Lemma dec_truncated : forall t p bs,
  (parse_tl bs = Err \/ exists tl off, parse_tl bs = Ok (tl, off) /\ off + t_len tl > zlen bs) ->
  dec t p bs = Err.
Proof.
  induction t using ty_ind'; intros p bs Htr;
    try (destruct Htr as [Htr|[tl [off [H1 H2]]]];
         [apply dec_header_error; [exact I | exact Htr] | eapply dec_length_past_end; [exact I | exact H1 | exact H2]]).
  rewrite dec_unfold. cbn [dec_step]. rewrite (IHt p bs Htr). reflexivity.
Qed.

(* a value cut off inside its contents: any header form, any tag number, any target type *)
Lemma dec_cut_content t p c k tn len content :
  cls_ok c -> 0 <= tn < 2 ^ 63 -> 0 <= len < 2 ^ 32 -> zlen content < len ->
  dec t p (hdr c k tn len ++ content) = Err.
Proof.
  intros Hc Ht Hl Hcut. apply dec_truncated. right.
  exists (mkTal c k tn len), (zlen (hdr c k tn len)). split; [apply parse_hdr; assumption|].
  cbn [t_len]. rewrite zlen_app. lia.
Qed.
