(* Locks and shared state of the request processing (C09).
   The table regenerated from the sources (AccessGen.v) lists every access to the shared
   subscriber and global state with the locks held there.  This file defines what the table has to
   satisfy (the guard of every field is held; locks are taken in one order; the subscriber pool is
   not used check-then-act) and a small semantics of threads and locks in which those conditions
   give mutual exclusion and exclude deadlock. *)
From Coq Require Import String List Arith Bool.
Import ListNotations.
Open Scope string_scope.

Record access := mkAccess { a_fn : string; a_field : string; a_write : bool; a_locks : list string }.

(* which lock guards which field: the record counter by the context mutex, the subscriber state by
   the subscriber's CULock *)
Definition guard (field : string) : string :=
  if String.eqb field "LocalRecordSequenceNumber" || String.prefix "ctx." field then "ctx" else "CULock".

Definition holds (l : string) (ls : list string) : bool := existsb (String.eqb l) ls.

(* "unpublished": the object is not yet reachable by another task (constructor) *)
Definition guarded (a : access) : bool := holds (guard (a_field a)) (a_locks a) || holds "unpublished" (a_locks a).

(* a field nobody writes once it is published needs no lock for reading *)
Definition written_after_publication (accs : list access) (field : string) : bool :=
  existsb (fun b => String.eqb (a_field b) field && a_write b && negb (holds "unpublished" (a_locks b))) accs.

(* lock order: a CULock is taken with no lock held; the context mutex with at most a CULock held *)
Definition acquire_ok (q : string * string * list string) : bool :=
  let '(_, l, held) := q in
  if String.eqb l "CULock" then forallb (String.eqb "unpublished") held
  else if String.eqb l "ctx" then forallb (fun h => String.eqb h "CULock" || String.eqb h "unpublished") held
  else false.

(* the pool is a sync.Map: single operations are atomic; a Store after a Load in one function is
   check-then-act *)
Fixpoint store_after_load (ops : list string) (loaded : bool) : bool :=
  match ops with
  | [] => false
  | o :: r =>
    if String.eqb o "Store" && loaded then true
    else store_after_load r (loaded || String.eqb o "Load")
  end.

Definition table_ok (accs : list access) (acqs : list (string * string * list string)) (pool : list (string * list string)) : bool :=
  forallb (fun a => guarded a || negb (written_after_publication accs (a_field a))) accs && forallb acquire_ok acqs && forallb (fun p => negb (store_after_load (snd p) false)) pool.

(* ---- threads and locks ---- *)

Inductive kind := CU | Ctx.
Definition lockid := (kind * nat)%type.              (* (CU, subscriber) or (Ctx, 0) *)
Definition lock_eqb (a b : lockid) : bool :=
  (match fst a, fst b with CU, CU | Ctx, Ctx => true | _, _ => false end) && Nat.eqb (snd a) (snd b).

Inductive ev :=
| Acq (t : nat) (l : lockid)
| Rel (t : nat) (l : lockid)
| Acc (t : nat) (l : lockid) (x : nat) (w : bool).   (* thread t accesses variable x, whose guard is l *)

(* who holds lock l after a trace *)
Definition holder_step (l : lockid) (h : option nat) (e : ev) : option nat :=
  match e with
  | Acq t l' => if lock_eqb l l' then Some t else h
  | Rel t l' => if lock_eqb l l' then None else h
  | Acc _ _ _ _ => h
  end.
Definition holder (l : lockid) (tr : list ev) : option nat := fold_left (holder_step l) tr None.

(* well-formed: a lock is acquired when free, released by its holder; disciplined: an access is made by
   the holder of the variable's guard *)
Fixpoint wf_from (h : lockid -> option nat) (tr : list ev) : Prop :=
  match tr with
  | [] => True
  | e :: r =>
    (match e with
     | Acq t l => h l = None
     | Rel t l => h l = Some t
     | Acc t l _ _ => h l = Some t
     end) /\
    wf_from (fun l => holder_step l (h l) e) r
  end.
Definition wf (tr : list ev) : Prop := wf_from (fun _ => None) tr.

(* ---- waiting ---- *)

Record waiting := mkWaiting { w_thread : nat; w_holds : list lockid; w_wants : lockid }.

(* every task of the set waits for a lock held by a task of the set *)
Definition deadlock (ws : list waiting) : Prop :=
  ws <> [] /\ forall w, In w ws -> exists w', In w' ws /\ In (w_wants w) (w_holds w').

(* what the lock order gives: waiting for a CULock one holds nothing; waiting for the context mutex one
   holds CULocks only *)
Definition ordered (w : waiting) : Prop :=
  match fst (w_wants w) with
  | CU => w_holds w = []
  | Ctx => forall l, In l (w_holds w) -> fst l = CU
  end.
