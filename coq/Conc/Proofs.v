From Coq Require Import String List Arith Bool Lia.
From Verif Require Import Conc.Model.
Import ListNotations.

Lemma lock_eqb_refl l : lock_eqb l l = true.
Proof. destruct l as [[|] n]; unfold lock_eqb; cbn; apply Nat.eqb_refl. Qed.

Lemma lock_eqb_eq a b : lock_eqb a b = true -> a = b.
Proof.
  destruct a as [[|] n]; destruct b as [[|] m]; unfold lock_eqb; cbn; try discriminate;
    intros H; apply Nat.eqb_eq in H; subst; reflexivity.
Qed.

(* the holder of l changes from t only by t's release *)
Lemma holder_change l : forall seg h t,
  wf_from h seg -> h l = Some t ->
  fold_left (holder_step l) seg (h l) <> Some t ->
  In (Rel t l) seg.
Proof.
  induction seg as [|e r IH]; intros h t Hwf Hh Hne; [cbn in Hne; congruence|].
  cbn [fold_left] in Hne. destruct Hwf as [He Hr].
  destruct e as [t' l'|t' l'|t' l' x w]; cbn [holder_step] in *.
  - destruct (lock_eqb l l') eqn:E.
    + apply lock_eqb_eq in E. subst l'. congruence.
    + right. apply (IH (fun l0 => holder_step l0 (h l0) (Acq t' l')) t Hr).
      * cbn [holder_step]. rewrite E. exact Hh.
      * cbn [holder_step]. rewrite E. exact Hne.
  - destruct (lock_eqb l l') eqn:E.
    + apply lock_eqb_eq in E. subst l'. left. f_equal. congruence.
    + right. apply (IH (fun l0 => holder_step l0 (h l0) (Rel t' l')) t Hr).
      * cbn [holder_step]. rewrite E. exact Hh.
      * cbn [holder_step]. rewrite E. exact Hne.
  - right. apply (IH (fun l0 => holder_step l0 (h l0) (Acc t' l' x w)) t Hr); cbn [holder_step]; assumption.
Qed.

Lemma wf_from_app : forall a b h,
  wf_from h (a ++ b) -> wf_from h a /\ wf_from (fun l => fold_left (holder_step l) a (h l)) b.
Proof.
  induction a as [|e r IH]; intros b h H; [split; [exact I|exact H]|].
  cbn [app wf_from] in H. destruct H as [He Hr]. destruct (IH b _ Hr) as [A B].
  split; [split; assumption|exact B].
Qed.

(* Mutual exclusion: two accesses to variables guarded by the same lock, made by different threads, are
   separated by the first thread's release of that lock. *)
Theorem accesses_separated pre mid post t u l x y wx wy :
  wf (pre ++ Acc t l x wx :: mid ++ Acc u l y wy :: post) -> t <> u ->
  In (Rel t l) mid.
Proof.
  intros Hwf Hne. unfold wf in Hwf.
  destruct (wf_from_app pre _ _ Hwf) as [_ H1]. cbn [wf_from] in H1. destruct H1 as [Ht H2].
  destruct (wf_from_app mid _ _ H2) as [Hmid H3]. cbn [wf_from] in H3. destruct H3 as [Hu _].
  cbn [holder_step] in *.
  apply (holder_change l mid _ t Hmid Ht). rewrite Hu. intros E. inversion E. congruence.
Qed.

(* No deadlock among tasks that respect the lock order. *)
Theorem ordered_no_deadlock ws : (forall w, In w ws -> ordered w) -> ~ deadlock ws.
Proof.
  intros Hord [Hne Hd]. destruct ws as [|w0 ws']; [congruence|].
  destruct (Hd w0 (or_introl eq_refl)) as [w1 [Hin1 Hh1]].
  (* w1 holds a lock, so it is not waiting for a CULock: it waits for the context mutex *)
  pose proof (Hord w1 Hin1) as O1. unfold ordered in O1.
  destruct (fst (w_wants w1)) eqn:K1; [rewrite O1 in Hh1; contradiction|].
  (* someone holds the context mutex w1 waits for *)
  destruct (Hd w1 Hin1) as [w2 [Hin2 Hh2]].
  pose proof (Hord w2 Hin2) as O2. unfold ordered in O2.
  destruct (fst (w_wants w2)) eqn:K2; [rewrite O2 in Hh2; contradiction|].
  specialize (O2 _ Hh2). congruence.
Qed.
