(* C09 — concurrent requests behave like some serial order; no race, crash or deadlock. *)
From Coq Require Import String List Arith Bool.
From Verif Require Import Conc.Model Conc.Proofs Conc.AccessGen.
Import ListNotations.
Open Scope string_scope.

(* The table regenerated from internal/sbi/processor and internal/context on this run: every access to
   RatingType, ReservedQuota, AcctRequestNum, UnitCost, Cdr, Records, NotifyUri, RatingGroups is made with
   the subscriber's CULock held, every access to LocalRecordSequenceNumber with the context mutex held
   (locks held in the function itself or at every one of its call sites); a CULock is only taken with no
   lock held and the context mutex with at most a CULock held; no function stores into the subscriber pool
   after loading from it; the four request handlers are in the table. *)
Theorem C09_table :
  table_ok accesses_gen acquires_gen pool_ops_gen = true /\
  forallb (fun f => existsb (fun q => String.eqb (fst (fst q)) f) acquires_gen)
          ["ChargingDataCreate"; "ChargingDataUpdate"; "ChargingDataRelease"; "NotifyRecharge"] = true /\
  List.length accesses_gen >= 40.
Proof. vm_compute. repeat split; try reflexivity. repeat constructor. Qed.
Print Assumptions C09_table.

(* In every execution in which locks behave as locks and every access is made by the holder of the
   variable's guard, two accesses by different tasks to state guarded by one lock are separated by the
   first task's release of it: no data race, and the accesses of one critical section are not
   interleaved with another's - the handlers, each one critical section of the subscriber's CULock, take
   effect one at a time per subscriber. *)
Theorem C09_mutual_exclusion : forall pre mid post t u l x y wx wy,
  wf (pre ++ Acc t l x wx :: mid ++ Acc u l y wy :: post) -> t <> u -> In (Rel t l) mid.
Proof. exact accesses_separated. Qed.
Print Assumptions C09_mutual_exclusion.

(* Tasks that take their locks in the order of the table cannot wait for each other in a cycle. *)
Theorem C09_no_deadlock : forall ws, (forall w, In w ws -> ordered w) -> ~ deadlock ws.
Proof. exact ordered_no_deadlock. Qed.
Print Assumptions C09_no_deadlock.

(* non-vacuity: a well-formed execution of two tasks on one subscriber and the counter *)
Example C09_nonvacuous :
  wf [Acq 1 (CU, 7); Acc 1 (CU, 7) 0 true; Acq 1 (Ctx, 0); Acc 1 (Ctx, 0) 9 true; Rel 1 (Ctx, 0); Rel 1 (CU, 7);
      Acq 2 (CU, 7); Acc 2 (CU, 7) 0 false; Rel 2 (CU, 7)] /\
  ordered (mkWaiting 2 [(CU, 7)] (Ctx, 0)) /\ ordered (mkWaiting 3 [] (CU, 7)).
Proof. cbn. repeat split; try reflexivity. intros l [<-|[]]. reflexivity. Qed.
