#!/bin/sh
# One-off build after a fresh restore: full Coq build + harness binaries. Offline.
set -e
cd "$(dirname "$0")"
export GOFLAGS=-mod=mod GOPROXY=off GOSUMDB=off GOTOOLCHAIN=local
mkdir -p work evidence replays harness/bin
python3 lib/setup.py
