"""C18: Diameter connections and background tasks stay bounded as requests accumulate.
Translator: harness/cmd/sitesgen regenerates coq/Resources/SitesGen.v (every Dial call site of the Diameter
clients under /repo/internal with whether the connection is closed when the function returns).
Correspondence / measurement: N online-charging updates over one or several subscribers through the real
stack; after every operation the harness reads /proc/self/net/tcp (established sockets towards the rating and
account-balance ports), runtime.NumGoroutine and the number of answers the Diameter clients have received
(one per completed exchange); the model replays that many exchanges and must predict the established count."""
import os
import re
import random
from common import *
import p_charging as pc

BOUND_CONNS = 8          # a fixed bound, independent of the number of requests
SLACK_TASKS = 24


def body(supi, seq, used, lsn, rgs):
    return {"subscriberIdentifier": supi, "nfConsumerIdentification": {"nFName": "smf1", "nodeFunctionality": "SMF"},
            "invocationSequenceNumber": seq, "notifyUri": "$NOTIFY/cb1", "chargingId": 1,
            "multipleUnitUsage": [{"ratingGroup": rg, "requestedUnit": {"totalVolume": 100},
                                   "usedUnitContainer": [{"quotaManagementIndicator": "ONLINE_CHARGING", "totalVolume": used, "localSequenceNumber": lsn + j}]}
                                  for j, rg in enumerate(rgs)]}


def run(ctx, replay=None):
    ok, log = go_build(["sitesgen", "chargesim"])
    if not ok:
        raise RuntimeError("harness build failed:\n" + log[-3000:])
    gen = os.path.join(COQ, "Resources/SitesGen.v")
    with Lock("coq"):
        rc, out = sh([os.path.join(HARNESS, "bin", "sitesgen"), "/repo", gen], timeout=300)
    if rc != 0 or "sites=" not in out:
        raise RuntimeError("sitesgen failed:\n" + out[-2000:])
    sites = [l for l in out.splitlines() if l.startswith("site ")]
    cov = proof_stage(ctx, "Resources/PropsC18.v", ["Resources/Corr.v"])
    cov["regenerated"] = {"Resources/SitesGen.v": {"dial_sites": len(sites), "sites": sites}}
    rng = random.Random(ctx.seed * 7919 + 18)
    plans = [(1, 10, [1]), (1, 100, [1]), (3, 60, [1, 2])] if ctx.tier == "quick" else [(1, 10, [1]), (1, 100, [1]), (1, 1000, [1]), (4, 400, [1, 2]), (8, 240, [1])]
    # ---- exchanges the peer never answers (5 s timer each), in parallel with the main measurement
    import threading
    silent = {}

    def silent_run():
        class C:
            pass
        c = C()
        c.workdir = os.path.join(ctx.workdir, "silent")
        os.makedirs(c.workdir, exist_ok=True)
        sim2 = pc.Sim(c, extra=["-timeout", "40s"])
        try:
            a, b = "imsi-208930001800001", "imsi-208930001800002"
            sim2.do({"op": "account", "supi": a, "rg": 1, "quota": "100000", "unitCost": "1"})
            sim2.do({"op": "account", "supi": b, "rg": 1, "quota": "250.50", "unitCost": "1"})     # the ABMF drops requests on a non-integer balance
            ra = sim2.do({"op": "create", "body": body(a, 1, 0, 1, [1])})["location"].rsplit("/", 1)[-1]
            rb = sim2.do({"op": "create", "body": body(b, 1, 0, 1, [1])})["location"].rsplit("/", 1)[-1]
            for i in range(3):
                w = sim2.do({"op": "update", "ref": ra, "body": body(a, 2 + i, 0, 2 + i, [1])})
            steps = []
            n = 1 if ctx.tier == "quick" else 3
            for i in range(n):
                o = sim2.do({"op": "update", "ref": ra, "body": body(a, 10 + i, 10, 10 + i, [5])})       # no tariff for rating group 5: the rating function stays silent
                steps.append(("rating group without tariff", o))
                for j in range(3):
                    o = sim2.do({"op": "update", "ref": rb, "body": body(b, 2 + 3 * i + j, 0, 2 + 3 * i + j, [1])})
                    steps.append(("account balance not an integer", o))
            o = sim2.do({"op": "sleep", "ms": 1500})
            steps.append(("1.5 s later", o))
            silent.update({"warm": w, "steps": steps})
        finally:
            sim2.close()
    th = threading.Thread(target=silent_run)
    th.start()
    sim = pc.Sim(ctx, extra=["-countanswers"])
    hists, stats = [], []
    try:
        hid = 0
        for (nsub, nupd, rgs) in plans:
            hid += 1
            supis = ["imsi-2089300018%05d" % (hid * 100 + k) for k in range(nsub)]
            trace = []
            refs = {}
            for s in supis:
                for rg in rgs:
                    sim.do({"op": "account", "supi": s, "rg": rg, "quota": "100000000", "unitCost": "1"})
            prev = sim.do({"op": "sleep", "ms": 1})
            base = prev
            seq = {s: 1 for s in supis}
            for s in supis:
                o = sim.do({"op": "create", "body": body(s, 1, 0, 1, rgs)})
                refs[s] = o["location"].rsplit("/", 1)[-1]
                trace.append(("create", prev, o))
                prev = o
            warm = None
            for i in range(nupd):
                s = supis[i % nsub]
                seq[s] += 1
                kind = "update"
                if i == nupd - 1 - (i % nsub) and False:
                    kind = "release"
                o = sim.do({"op": kind, "ref": refs[s], "body": body(s, seq[s], rng.choice([0, 10, 100]), seq[s] * 4, rgs)})
                trace.append((kind, prev, o))
                prev = o
                if i == min(4, nupd - 1):
                    warm = o
            for s in supis:
                seq[s] += 1
                o = sim.do({"op": "release", "ref": refs[s], "body": body(s, seq[s], 5, seq[s] * 4, rgs)})
                trace.append(("release", prev, o))
                prev = o
            hists.append((hid, nsub, nupd, rgs, trace, warm, base))
    finally:
        sim.close()
    th.join()
    # ---- monitor on the implementation's own numbers
    found = False
    samples = []
    if silent:
        w = silent["warm"]
        sstats = [{"after": what, "ms": o.get("elapsed_ms"), "established": o["rfConns"] + o["abmfConns"], "goroutines": o["goroutines"]} for (what, o) in silent["steps"]]
        cov["unanswered_exchanges"] = {"goroutines_warm": w["goroutines"], "steps": sstats}
        worst = max(silent["steps"], key=lambda s: (s[1]["rfConns"] + s[1]["abmfConns"], s[1]["goroutines"]))
        last = silent["steps"][-1][1]
        if last["rfConns"] + last["abmfConns"] > 0 or last["goroutines"] > w["goroutines"] + 1:
            found = True
            ctx.violations.append({"property": "C18", "key": "C18/unanswered-request-leaves-resources", "found_input": True, "seed": ctx.seed,
                                   "what": "requests whose Diameter exchange got no answer (5 s timer) leave %d established connection(s) and %d goroutines (%d before)"
                                           % (last["rfConns"] + last["abmfConns"], last["goroutines"], w["goroutines"]),
                                   "replay": {"steps": sstats, "how": "update naming rating group 5 (no tariff: the rating function does not answer); update of a subscriber whose stored balance is \"250.50\" (the account server does not answer)"}})
    for (hid, nsub, nupd, rgs, trace, warm, base) in hists:
        last = trace[-1][2]
        peak = max(o["rfConns"] + o["abmfConns"] for (_, _, o) in trace)
        gpeak = max(o["goroutines"] for (_, _, o) in trace[5:]) if len(trace) > 5 else last["goroutines"]
        stats.append({"subscribers": nsub, "updates": nupd, "rating_groups": len(rgs), "exchanges_rf": last["suas"] - base["suas"],
                      "exchanges_abmf": last["ccas"] - base["ccas"], "established_peak": peak, "established_end": last["rfConns"] + last["abmfConns"],
                      "goroutines_warm": warm["goroutines"], "goroutines_peak_after_warmup": gpeak, "goroutines_end": last["goroutines"]})
        if (peak > BOUND_CONNS or gpeak > warm["goroutines"] + SLACK_TASKS) and not found:
            found = True
            ctx.violations.append({"property": "C18", "key": "C18/connections-grow", "found_input": True, "seed": ctx.seed,
                                   "what": "after %d online-charging updates over %d subscriber(s) %d Diameter connections are established (bound %d) and %d goroutines run (%d after warm-up)"
                                           % (nupd, nsub, peak, BOUND_CONNS, gpeak, warm["goroutines"]),
                                   "replay": {"subscribers": nsub, "updates": nupd, "rating_groups": rgs, "established": [o["rfConns"] + o["abmfConns"] for (_, _, o) in trace][:40],
                                              "goroutines": [o["goroutines"] for (_, _, o) in trace][:40]}})
    # ---- correspondence
    cases = []
    for (hid, nsub, nupd, rgs, trace, warm, base) in hists:
        ops = []
        for (kind, prev, o) in trace:
            ops.append("(%d, %d, %d, %d)" % (max(0, o["suas"] - prev["suas"]), max(0, o["ccas"] - prev["ccas"]), o["rfConns"], o["abmfConns"]))
        cases.append("(%d%%Z, [%s])" % (hid, "; ".join(ops)))
    fn = "ResCases0.v"
    with open(os.path.join(ctx.workdir, fn), "w") as f:
        f.write("From Coq Require Import String List Arith ZArith.\nFrom Verif Require Import Resources.Model Resources.SitesGen Resources.Corr.\nImport ListNotations.\n"
                "Definition cases : list rcase := [\n" + ";\n".join(cases) + "\n].\nDefinition M := Eval vm_compute in run_res cases.\nPrint M.\n")
    mism = []
    if ctx.proof_broken is None or os.path.exists(os.path.join(COQ, "Resources/Corr.vo")):
        okc, mism, logs = run_case_files([fn], ctx.workdir, timeout=1800)
        if not okc and ctx.proof_broken is None:
            raise RuntimeError("case evaluation failed:\n" + "\n".join(logs)[:3000])
    if not found and ctx.proof_broken:
        unclosed = [l for l in sites if "closes=false" in l]
        ctx.violations.append({"property": "C18", "key": "C18/proof", "found_input": False,
                               "what": "theorem no longer checks at %s%s" % (ctx.proof_broken["where"], ("; call sites that do not close their connection: " + "; ".join(unclosed)) if unclosed else ""),
                               "broken": ctx.proof_broken["where"], "log": ctx.proof_broken["log"]})
    elif not found and mism:
        ctx.violations.append({"property": "C18", "key": "C18/corr", "found_input": False, "seed": ctx.seed,
                               "what": "correspondence broken: established connections differ from the model's count (history %d operation %d)" % (mism[0][0], mism[0][1]),
                               "broken": "correspondence Resources/Corr.v"})
    nops = sum(len(t[4]) for t in hists)
    cov.update({"evaluations": nops, "distinct_nontrivial": nops, "exhaustive": False, "mismatches": len(mism),
                "input_distribution": {"histories": stats},
                "rule": "per history: accounts, one session per subscriber, N online-charging updates (requested 100, used 0/10/100, 1-2 rating groups) round-robin over the subscribers, releases; "
                        "quick N = 10, 100, 60x3 subscribers; thorough N up to 1000 and 8 subscribers. After every operation: sockets towards the rating and account-balance ports "
                        "(/proc/self/net/tcp, established), answers received by the Diameter clients, and runtime.NumGoroutine",
                "samples": stats[:3], "bounds": {"established_connections": BOUND_CONNS, "goroutines_over_warmup": SLACK_TASKS}})
    return finish(ctx, "proof", cov, assumptions=[
        "partial: the model counts connections and the tasks tied to them; goroutine numbers of the runtime are compared by bound (warm-up + %d), not predicted exactly" % SLACK_TASKS,
        "sitesgen recognises `defer <conn>.Close()` directly after the dial's error check; any other way of closing is reported as not closing (the proof then breaks although the property may hold)",
        "a closed connection is recognised by leaving the ESTABLISHED state; exchanges are counted by the answers the clients log at trace level (an exchange that times out is not counted)"])
