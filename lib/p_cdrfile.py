"""C14 / C15: CDR file codec (cdr/cdrFile).  Theorems in coq/CdrFile; tie by
correspondence (harness/cmd/filecorr) + monitors evaluated in Coq on the
implementation's own bytes/decodes."""
import os
from common import *

CODES = {1: "enc_file(model) != bytes written by Go CDRFile.Encoding",
         2: "dec_file(model) != structure returned by Go CDRFile.Decoding",
         3: "generator produced a non-well-formed 'wf' case",
         4: "C14 monitor: well-formed file, but Go Decoding(Encoding(f)) != f",
         5: "C15 monitor: independent TS 32.297 reader does not recover f from Go's bytes"}


def run(ctx, replay=None):
    pid = ctx.pid
    props = "CdrFile/PropsC14.v" if pid == "C14" else "CdrFile/PropsC15.v"
    cov = proof_stage(ctx, props, ["CdrFile/Corr.v"])
    ok, log = go_build(["filecorr"])
    if not ok:
        raise RuntimeError("harness build failed:\n" + log[-3000:])
    n, nmal = (300, 60) if ctx.tier == "quick" else (4000, 600)
    shards = 16 if ctx.tier == "quick" else 64
    rc, out = sh([os.path.join(HARNESS, "bin", "filecorr"), "-seed", str(ctx.seed), "-n", str(n),
                  "-nmal", str(nmal), "-shards", str(shards), "-out", ctx.workdir], timeout=1200)
    if rc != 0:
        raise RuntimeError("filecorr failed:\n" + out[-3000:])
    classes = {}
    for line in out.splitlines():
        if line.startswith("class "):
            _, c, k = line.split()
            classes[c] = int(k)
    index = {}
    for line in open(os.path.join(ctx.workdir, "index.tsv")):
        f = line.rstrip("\n").split("\t")
        index[int(f[0])] = {"wf": f[1] == "true", "class": f[2], "hash": f[3], "nontrivial": f[4] == "true", "input": f[5]}
    files = ["FileCases%d.v" % i for i in range(shards)]
    okc, mism, logs = run_case_files(files, ctx.workdir)
    if not okc:
        # the cases could not be evaluated: the model did not build
        if ctx.proof_broken is None:
            raise RuntimeError("case evaluation failed:\n" + "\n".join(logs)[:3000])
    by_code = {}
    for cid, code in mism:
        by_code.setdefault(code, []).append(cid)
    if 3 in by_code:
        raise RuntimeError("generator sanity failed for cases %s" % by_code[3][:5])
    mon = 4 if pid == "C14" else 5
    corr_codes = [1, 2] if pid == "C14" else [1]
    corr_broken = [c for c in corr_codes if c in by_code]

    def replay_for(cid, code):
        return {"property": pid, "key": "%s/code%d" % (pid, code), "seed": ctx.seed, "tier": ctx.tier,
                "case_id": cid, "code": code, "meaning": CODES[code], "input": index.get(cid, {}).get("input"),
                "class": index.get(cid, {}).get("class"),
                "rerun": "VERIF_SEED=%d ./check %s --tier %s" % (ctx.seed, pid, ctx.tier)}

    if mon in by_code:
        cid = min(by_code[mon])
        r = replay_for(cid, mon)
        r["what"] = CODES[mon] + " (case %d, class %s)" % (cid, r["class"])
        r["found_input"] = True
        ctx.violations.append(r)
    elif corr_broken or ctx.proof_broken:
        if corr_broken:
            code = corr_broken[0]
            cid = min(by_code[code])
            r = replay_for(cid, code)
            r["what"] = "correspondence broken: " + CODES[code] + " (case %d)" % cid
            r["broken"] = "correspondence CdrFile/Corr.v code %d" % code
        else:
            r = {"property": pid, "key": pid + "/proof", "what": "proof obligation no longer checks at " + ctx.proof_broken["where"],
                 "broken": ctx.proof_broken["where"], "log": ctx.proof_broken["log"]}
        r["found_input"] = False
        ctx.violations.append(r)
    wf_nontrivial = {v["hash"] for v in index.values() if v["wf"] and v["nontrivial"]}
    cov.update({
        "evaluations": len(index),
        "distinct_nontrivial": len(wf_nontrivial),
        "rule": "cases from one PRNG (seed): all 64 release-identifier pairs first, then random pairs; each field at 0/max/random within width; "
                "filter/extension lengths 0,1,2,3,17,255,256,65483..65487,65535,random; 0..5 records with payload lengths 0,1,2,5,100,65534,65535,random; "
                "plus a malformed stream (inconsistent lengths/counts, out-of-width values) compared for model agreement only. "
                "non-trivial = well-formed and has a record, a filter, a private extension or an extension octet; distinct by hash of the structure",
        "samples": [v["input"] for k, v in sorted(index.items())[:3]],
        "input_distribution": classes,
        "mismatches": {str(k): len(v) for k, v in by_code.items()},
        "correspondence": "model enc/dec vs Go Encoding/Decoding on every case; C14/C15 monitors evaluated on Go's own bytes/decodes",
    })
    return finish(ctx, "proof", cov, assumptions=[
        "model of cdrFile.go describes files shorter than 4 GiB (uint32 offsets not wrapped)",
        "reads past len but inside cap (os.ReadFile over-allocation) are classed as Panic by the model; only reachable for malformed files",
    ])
