"""Charging group: C01 C02 C03 C06 C10 C11 C12 (internal/sbi/processor, internal/context, cdr.go).
Theorems in coq/Charging/Props*.v on the model of Chf.v; tie: harness/cmd/chargesim
runs the real CHF end to end (gin router, processor, Diameter clients, RF/ABMF servers,
fake MongoDB) on histories generated interactively from one PRNG; every observation is
compared with the model in Coq (Charging/CorrChf.v) and the property monitors are
evaluated on the implementation's own trace (here)."""
import json
import re
import os
import sys
import random
import subprocess
from common import *

IMSI0 = 208930000000000
FINAL = [{"triggerType": "FINAL", "triggerCategory": "IMMEDIATE_REPORT"}]
OTHER = [{"triggerType": "QUOTA_THRESHOLD", "triggerCategory": "IMMEDIATE_REPORT"}]

CODES = {1: "status / reference / sequence echo", 2: "MultipleUnitInformation (grant, final unit)", 3: "stored balances",
         4: "reservation / mode / unit cost / request number", 5: "record content or order", 6: "session reference -> record map",
         7: "notifications", 8: "record BER size", 9: "record counter"}


def zl(s):
    return "[" + ";".join(str(b) for b in s.encode()) + "]"


def cl(xs):
    return "[" + "; ".join(xs) + "]"


def optz(v):
    return "None" if v is None else "(Some (%d))" % v


class Sim:
    """line-at-a-time driver of chargesim"""

    def __init__(self, ctx, extra=()):
        d = os.path.join(ctx.workdir, "cs%d" % random.randrange(10 ** 9))
        os.makedirs(d, exist_ok=True)
        self.p = subprocess.Popen([os.path.join(HARNESS, "bin", "chargesim"), "-dir", d, "-timeout", "14s"] + list(extra),
                                  stdin=subprocess.PIPE, stdout=subprocess.PIPE, stderr=subprocess.DEVNULL, text=True, bufsize=1)

    def do(self, op):
        self.p.stdin.write(json.dumps(op) + "\n")
        self.p.stdin.flush()
        while True:
            line = self.p.stdout.readline()
            if not line:
                raise RuntimeError("chargesim ended unexpectedly")
            line = line.strip()
            if line.startswith("{"):
                return json.loads(line)

    def close(self):
        try:
            self.p.stdin.close()
            self.p.wait(timeout=30)
        except Exception:
            self.p.kill()


# ---------------------------------------------------------------- requests

def mk_container(rng, online, total, lsn):
    ul = rng.randrange(0, total + 1) if total > 0 else 0
    dl = total - ul
    if rng.random() < 0.15:
        # the three volumes are reported independently: a record holds what was reported, not what would add up
        ul, dl = rng.choice([(40, 2), (0, 7), (total + 1, 0), (ul, dl + 3)])
    return {"qmi": 1 if online else 0, "total": total, "ul": ul, "dl": dl, "ssu": rng.choice([0, 0, 3, 11, 22]), "lsn": lsn}


def json_body(supi_s, req):
    muu = []
    for g in req["usages"]:
        u = {"ratingGroup": g["rg"], "usedUnitContainer": [
            {"quotaManagementIndicator": ["OFFLINE_CHARGING", "ONLINE_CHARGING", "QUOTA_MANAGEMENT_SUSPENDED"][k["qmi"]],
             "totalVolume": k["total"], "uplinkVolume": k["ul"], "downlinkVolume": k["dl"],
             "serviceSpecificUnits": k["ssu"], "localSequenceNumber": k["lsn"]} for k in g["conts"]]}
        if g["req"] is not None:
            u["requestedUnit"] = {"totalVolume": g["req"]}
        muu.append(u)
    b = {"subscriberIdentifier": supi_s, "invocationSequenceNumber": req["seq"], "notifyUri": "$NOTIFY/cb%d" % req["notify"],
         "chargingId": req["cid"], "multipleUnitUsage": muu}
    if req["notify"] < 0:
        del b["notifyUri"]          # the optional member is absent: the consumer registers no notification URI
    if req["consumer"] is not None:
        b["nfConsumerIdentification"] = {"nFName": req["consumer"], "nodeFunctionality": "SMF"}
    if req.get("pdu") is not None:
        # a PDU session with its own charging identifier (different from the request's chargingId)
        b["pDUSessionChargingInformation"] = {"chargingId": req["pdu"], "pduSessionInformation": {
            "pduSessionID": 1, "dnnId": "internet", "networkSlicingInfo": {"sNSSAI": {"sst": 1, "sd": "010203"}}}}
    if req["triggers"]:
        b["triggers"] = FINAL if 1 in req["triggers"] else OTHER
        if len(req["triggers"]) > 1:
            b["triggers"] = [(FINAL if t == 1 else OTHER)[0] for t in req["triggers"]]
    return b


def coq_req(req):
    us = []
    for g in req["usages"]:
        cs = cl("mkCont %d %d %d %d %d %d" % (k["qmi"], k["total"], k["ul"], k["dl"], k["ssu"], k["lsn"]) for k in g["conts"])
        us.append("mkUsage %d %s %s" % (g["rg"], optz(g["req"]), cs))
    cons = "None" if req["consumer"] is None else "(Some %s)" % zl(req["consumer"])
    return "(mkReq %d %s %s %s %s %d (%d) %d)" % (req["supi"], "true" if req["supi_ok"] else "false", cons, cl(us),
                                               cl(str(t) for t in req["triggers"]), req["seq"], req["notify"], req["cid"])


def coq_op(op):
    k = op["kind"]
    if k == "create":
        return "Create " + coq_req(op["req"])
    if k in ("update", "release"):
        return "%s %s %s" % (k.capitalize(), zl(op["ref"]), coq_req(op["req"]))
    if k == "recharge":
        return "Recharge %d %d" % (op["supi"], op["rg"])
    if k == "elapse":
        return "Elapse %d" % op["n"]
    return "Credit %d %d %d" % (op["supi"], op["rg"], op["amount"])


def amap(d):
    return cl("(%d, (%d))" % (int(k), int(v)) for k, v in sorted(d.items(), key=lambda e: int(e[0])))


def coq_obs(o, accounts, notes_cum, supis, nosize=False):
    supi_s = {n: "imsi-%d" % n for n in supis}
    status = o["status"]
    loc = o.get("location") or ""
    ref = ""
    if loc:
        tail = loc.rsplit("/", 1)[-1]
        for n, s in supi_s.items():
            if tail.startswith(s):
                ref = tail[len(s):]
    body = o.get("body")
    seq = -1
    muis = []
    if isinstance(body, dict):
        if status in (200, 201):
            seq = int(body.get("invocationSequenceNumber", 0))
        for m in body.get("multipleUnitInformation") or []:
            g = m.get("grantedUnit")
            granted = -1 if g is None else int(g.get("totalVolume", 0))
            fui = (m.get("finalUnitIndication") or {}).get("finalUnitAction", "") == "TERMINATE"
            muis.append("(%d, (%d), %s)" % (m.get("ratingGroup", 0), granted, "true" if fui else "false"))
    quotas = [int(o["db"]["%s|%d" % (supi_s[a[0]], a[1])]["quota"]) for a in accounts]
    ues = {}
    for n in supis:
        st = (o.get("ues") or {}).get(supi_s[n])
        if st is None:
            continue
        recs = []
        for r in st["records"]:
            sid = r["sessionId"]
            sid = sid[len(supi_s[n]):] if sid.startswith(supi_s[n]) else "?" + sid
            us = cl("(%d, (%d), (%d), (%d), (%d), (%d))" % tuple(e) for e in r["usages"] if e[1] != -2)
            recs.append("mkRobs %s (%d) %s (%d) (%d) (%d) %s (%d)" % (zl(sid), r["chargingId"], zl(r["consumer"]), r["lrsn"], r["cause"], r["recSeq"], us,
                                                                    -2 if nosize else r["berLen"]))
        cdr = []
        for k, i in sorted(st["cdrIndex"].items()):
            kk = k[len(supi_s[n]):] if k.startswith(supi_s[n]) else "?" + k
            cdr.append("(%s, (%d))" % (zl(kk), i))
        ues[n] = "mkUobs %d %s %s %s %s %s %s" % (n, amap(st["reserved"]), amap(st["ratingType"]), amap(st["unitCost"]),
                                                 amap(st["acctReqNum"]), cl(cdr), cl(recs))
    notes = cl("((%d), %d, (%d))" % t for t in notes_cum)
    head = "(mkObs %d %s (%d) %s %s " % (status, zl(ref), seq, cl(muis), cl("(%d)" % q for q in quotas))
    tail = " %d (%d) %s)" % (len(ues), -1 if o.get("burst_sub") else o.get("lrsn", 0), notes)
    return (head, ues, tail)


def obs_strings(obs):
    """the subscriber contexts are listed in an observation when they differ from the previous observation of the
    history (the model is compared on the contexts the request changed), and all of them at the last step"""
    out, last = [], {}
    for i, (head, ues, tail) in enumerate(obs):
        final = i == len(obs) - 1
        pick = [u for n, u in ues.items() if final or last.get(n) != u]
        last = dict(ues)
        out.append(head + cl(pick) + tail)
    return out


# ---------------------------------------------------------------- histories

class History:
    def __init__(self, hid, kind):
        self.hid, self.kind = hid, kind
        self.accounts = []          # (supi, rg, quota0, cost)
        self.ops, self.obs, self.raw = [], [], []
        self.notes = []
        self.supis = []


def gen_history(rng, sim, hid, kind, nops):
    h = History(hid, kind)
    base = IMSI0 + hid * 10
    nsub = 1 if kind in ("single", "compliant", "twin", "split", "split2", "huge", "burst") else 8 if kind == "lenwalk" else 2
    rgs = [1] if kind in ("single", "split", "split2", "huge", "burst", "lenwalk") else [1, 2] if kind == "twin" else rng.choice([[1], [1, 2]])
    twin_cost = rng.choice(["1", "2", "2", "7"])
    for s in range(nsub):
        supi = base + s
        h.supis.append(supi)
        for rg in rgs:
            if kind in ("single", "compliant"):
                quota = rng.choice([0, 1, 30, 99, 150, 250, 1000])
            else:
                quota = rng.choice([0, 150, 1000, 100000, 100000])
            cost = rng.choice(["1", "1", "2", "7"])
            if kind == "twin":
                # two rating groups of one subscriber at the same tariff, one rich and one nearly empty, asked for the
                # same volume in every request: their credit-control requests share the subscriber's Diameter session
                # and carry equal request numbers and equal amounts -- each must still be granted from its own account
                quota, cost = (rng.choice([5000, 100000]) if rg == 1 else rng.choice([0, 30, 120, 150, 250])), twin_cost
            h.accounts.append((supi, rg, quota, cost))
            o0 = sim.do({"op": "account", "supi": "imsi-%d" % supi, "rg": rg, "quota": str(quota), "unitCost": cost})
            h.lrsn0 = o0.get("lrsn", 0)
    sessions = []      # dict(supi, ref, rgs, grants {rg: last grant}, lsn, live, cid)
    seqno = [0]
    cidc = [hid * 100]
    notec = [hid * 100]

    def new_req(supi, usages, triggers=None, consumer="smf1", cid=0, notify=0, supi_ok=True):
        seqno[0] += 1
        r = {"supi": supi, "supi_ok": supi_ok, "consumer": consumer, "usages": usages, "triggers": triggers or [],
             "seq": seqno[0], "notify": notify, "cid": cid}
        if kind == "pdu":
            r["pdu"] = cid + 1000 + seqno[0]
        return r

    def send(op):
        supi_s = "imsi-%d" % (op["req"]["supi"] if "req" in op else op.get("supi", 0))
        if op["kind"] == "create":
            o = sim.do({"op": "create", "body": json_body(supi_s, op["req"])})
        elif op["kind"] in ("update", "release"):
            o = sim.do({"op": op["kind"], "ref": supi_s_ref(op), "body": json_body(supi_s, op["req"])})
        elif op["kind"] == "recharge":
            o = sim.do({"op": "recharge", "param": "%s_%d" % (supi_s, op["rg"])})
            for nt in o.get("notifications") or []:
                path = nt.get("path", "")
                k = int(path[3:]) if path.startswith("/cb") and path[3:].isdigit() else -1
                for d in (nt.get("body") or {}).get("reauthorizationDetails") or []:
                    h.notes.append((k, op["supi"], d.get("ratingGroup", -1)))
        elif op["kind"] == "elapse":
            o = sim.do({"op": "elapse", "n": str(op["n"])})
            o["status"] = 0
        else:   # credit: the operator rewrites the stored balance
            cur = None
            for (s, rg, q, c) in h.accounts:
                if s == op["supi"] and rg == op["rg"]:
                    cost = c
            last = h.raw[-1] if h.raw else None
            cur = int(last["db"]["%s|%d" % (supi_s, op["rg"])]["quota"]) if last else [a[2] for a in h.accounts if a[0] == op["supi"] and a[1] == op["rg"]][0]
            o = sim.do({"op": "account", "supi": supi_s, "rg": op["rg"], "quota": str(cur + op["amount"]), "unitCost": cost})
            o["status"] = 0
        h.ops.append(op)
        h.raw.append(o)
        h.obs.append(coq_obs(o, [(a[0], a[1]) for a in h.accounts], list(h.notes), h.supis, nosize=(kind == "pdu")))
        return o

    def supi_s_ref(op):
        return op.get("fullref") or ("imsi-%d" % op["req"]["supi"] + op["ref"])

    def usage_for(sess, rg, compliant, rngl, big=0):
        last = sess["grants"].get(rg, 0)
        if compliant:
            used = rngl.choice([0, last, last, max(last - 1, 0), rngl.randrange(0, last + 1)])
        else:
            used = last + rngl.choice([1, 10, 500])
        conts = []
        n = big if big else rngl.choice([2, 3]) if kind == "dupseq" else rngl.choice([1, 1, 1, 2])
        rem = used
        for i in range(n):
            sess["lsn"] += 1
            t = rem if i == n - 1 else rngl.randrange(0, rem + 1)
            rem -= t
            online = True if big else rngl.random() < 0.9
            conts.append(mk_container(rngl, online, t, sess["lsn"]))
            if kind == "dupseq" and i > 0 and rngl.random() < 0.6:
                # a container that repeats the sequence number and total volume of the one before it (other members
                # differ): it is a container the consumer reported, and is recorded like any other
                conts[-1]["lsn"], conts[-1]["total"] = conts[-2]["lsn"], conts[-2]["total"]
        req = rngl.choice([100, 100, 50, 10, 1, 0, 1000]) if rngl.random() < 0.93 else None
        return {"rg": rg, "req": req, "conts": conts}

    # first create
    def do_create(supi, consumer=None):
        cidc[0] += 1
        notec[0] += 1
        consumer = consumer if consumer is not None else rng.choice(["smf1", "smfA", "a1", "a", "x-1", ""])
        notify_k = -1 if (kind in ("multi", "single") and rng.random() < 0.12) else notec[0]
        us = []
        if rng.random() < 0.7 or kind == "createusage":
            # usage reported at creation: offline or zero online volume (create performs no credit control)
            sessd = {"grants": {}, "lsn": 0}
            g = usage_for(sessd, rng.choice(rgs), True, rng)
            for k in g["conts"]:
                if kind == "createusage":
                    k["qmi"], k["total"], k["ul"], k["dl"] = 1, 5, 2, 3
                elif k["qmi"] != 0:
                    k["total"], k["ul"], k["dl"] = 0, 0, 0
            us = [g]
        req = new_req(supi, us, consumer=consumer, cid=cidc[0], notify=notify_k)
        o = send({"kind": "create", "req": req})
        if o["status"] == 201:
            loc = o["location"].rsplit("/", 1)[-1]
            ref = loc[len("imsi-%d" % supi):]
            sessions.append({"supi": supi, "ref": ref, "grants": {}, "lsn": 10, "live": True, "cid": cidc[0], "notify": notify_k, "consumer": consumer})

    def do_burst(s, ncreates, ncont):
        """one heavy update on session s is started, and while it holds the subscriber's lock ncreates creates
        for the same subscriber arrive together.  The burst is recorded in the order given by the counters in the
        returned references (the linearisation the answers themselves claim); the state is observed after it."""
        g = usage_for(s, rgs[0], True, rng, big=ncont)
        ureq = new_req(s["supi"], [g], cid=s["cid"], notify=s["notify"])
        supi_s = "imsi-%d" % s["supi"]
        burst = [{"op": "update", "ref": supi_s + s["ref"], "body": json_body(supi_s, ureq)}]
        creqs = []
        for _ in range(ncreates):
            cidc[0] += 1
            creq = new_req(s["supi"], [], consumer=s["consumer"], cid=cidc[0], notify=s["notify"])
            creqs.append(creq)
            burst.append({"op": "create", "body": json_body(supi_s, creq)})
        o = sim.do({"op": "burst", "ms": 2, "burst": burst})
        subs = o.pop("sub")
        def counter(sub):
            t = (sub.get("location") or "").rsplit("-", 1)
            return int(t[1]) if len(t) == 2 and t[1].isdigit() else 1 << 70
        order = sorted(range(1, len(subs)), key=lambda i: (counter(subs[i]), i))
        steps = [({"kind": "update", "ref": s["ref"], "req": ureq}, subs[0])] + \
                [({"kind": "create", "req": creqs[i - 1]}, subs[i]) for i in order]
        refs = []
        for n, (op, sub) in enumerate(steps):
            last = n == len(steps) - 1
            oo = dict(o)
            oo.update({"status": sub["status"], "location": sub.get("location"), "body": sub.get("body"), "hung": sub.get("hung"),
                       "burst_sub": not last, "in_burst": True, "elapsed_us": sub.get("elapsed_us")})
            if op["kind"] == "create" and sub["status"] == 201:
                tail = sub["location"].rsplit("/", 1)[-1]
                refs.append(tail)
                sessions.append({"supi": s["supi"], "ref": tail[len(supi_s):], "grants": {}, "lsn": 10, "live": True,
                                 "cid": op["req"]["cid"], "notify": s["notify"], "consumer": s["consumer"]})
            if last:
                oo["burst_refs"] = refs
            h.ops.append(op)
            h.raw.append(oo)
            h.obs.append(coq_obs(oo, [(a[0], a[1]) for a in h.accounts], list(h.notes), h.supis))
        record_grants(s, subs[0])

    if kind in ("wrap32", "wrap63"):
        # the record counter crosses 2^32 (the ASN.1 range of the record's sequence number) or 2^63 (the sign
        # bit of int(counter)) while sessions opened before are still live
        edge = (1 << 32) if kind == "wrap32" else (1 << 63)
        for _ in range(3):
            do_create(h.supis[0], consumer="smf1")
        cur = h.raw[-1]["lrsn"]
        if cur < edge - 3:
            send({"kind": "elapse", "n": edge - rng.choice([1, 2, 3]) - cur})
        for step in range(nops):
            live = [s for s in sessions if s["live"]]
            r = rng.random()
            if r < 0.6 or not live:
                do_create(rng.choice(h.supis), consumer=rng.choice(["smf1", "smf1", "smf1-", "a"]))
            else:
                s = rng.choice(live)
                g = usage_for(s, rgs[0], True, rng)
                req = new_req(s["supi"], [g], cid=s["cid"], notify=s["notify"], triggers=rng.choice([[], [1]]))
                knd = rng.choice(["update", "update", "release"])
                o = send({"kind": knd, "ref": s["ref"], "req": req})
                record_grants(s, o)
                if knd == "release" and o["status"] == 204:
                    s["live"] = False
        return h

    if kind == "lenwalk":
        # consumer names of every length in chosen windows: each enclosing TLV of the record grows by one byte per
        # step, so every nesting level walks through the BER length-form boundaries (127/128, 255/256) on some step
        do_create(h.supis[0], consumer="c")
        b1 = max(r["berLen"] for r in h.raw[-1]["ues"]["imsi-%d" % h.supis[0]]["records"])   # record size with a 1-byte name
        lens = set(range(118, 130)) | set(range(226, 259))
        for edge in (128, 256):
            lens |= {L for L in range(edge - b1 - 8, edge - b1 + 12) if L > 0}
        for n, L in enumerate(sorted(lens)):
            supi = h.supis[(n // 10) % len(h.supis)]          # a few records per subscriber keep the files small
            do_create(supi, consumer="c" * L)
            s = sessions[-1]
            g = usage_for(s, rgs[0], True, rng)
            o = send({"kind": "release", "ref": s["ref"], "req": new_req(s["supi"], [g], cid=s["cid"], notify=s["notify"], triggers=[1])})
            s["live"] = False
        return h
    do_create(h.supis[0], consumer=("smf1" if kind == "burst" else None))
    if kind == "burst":
        for step in range(nops):
            live = [s for s in sessions if s["live"]]
            if step % 2 == 0:
                do_burst(live[0], rng.choice([3, 4, 6]), rng.choice([150, 300, 600]))
            else:
                # every reference handed out in the burst still designates its own record
                for s in live[1:]:
                    g = usage_for(s, rgs[0], True, rng)
                    for k in g["conts"]:
                        k["qmi"] = 0
                    knd = "release" if rng.random() < 0.4 else "update"
                    o = send({"kind": knd, "ref": s["ref"], "req": new_req(s["supi"], [g], cid=s["cid"], notify=s["notify"])})
                    if knd == "release" and o["status"] == 204:
                        s["live"] = False
        return h
    for step in range(nops):
        live = [s for s in sessions if s["live"]]
        r = rng.random()
        if kind in ("split", "split2", "huge"):
            s = live[0] if live else None
            if s is None or (kind == "split2" and len(live) < 2):
                # split2: the subscriber has a second, newer session; the older one is the one that grows
                do_create(h.supis[0])
                continue
            big = 4500 if kind == "huge" else rng.choice([300, 500, 700, 1200])
            g = usage_for(s, 1, True, rng, big=big)
            # a request-level trigger other than FINAL makes this a partial-record closure
            req = new_req(s["supi"], [g], cid=s["cid"], notify=s["notify"], triggers=rng.choice([[], [0]]))
            o = send({"kind": "update", "ref": s["ref"], "req": req})
            record_grants(s, o)
            continue
        if not live or (r < (0.5 if kind == "names" else 0.12) and kind not in ("compliant", "twin")):
            do_create(rng.choice(h.supis), consumer=(rng.choice(["a1", "a", "a-1", "1", "", "-", "a1-", "smf-12", "12"]) if kind == "names" else None))
        elif r < 0.70:
            s = rng.choice(live)
            # kind "compliant": one session at a time, every report within the last grant (the domain of C06_history)
            compliant = kind in ("compliant", "twin") or rng.random() < (0.95 if kind == "single" else 0.85)
            us = [usage_for(s, rg, compliant, rng) for rg in rng.sample(rgs, rng.choice([1, len(rgs)]))]
            if kind == "twin":
                order = rgs if rng.random() < 0.6 else list(reversed(rgs))
                us = [usage_for(s, rg, True, rng) for rg in order]
                same = rng.choice([100, 100, 50, 1000])
                for u in us:
                    u["req"] = same
            trig = rng.choice([[], [], [], [0], [1], [0, 0]])
            req = new_req(s["supi"], us, triggers=trig, cid=s["cid"], notify=(s["notify"] if rng.random() < 0.8 else -1))
            o = send({"kind": "update", "ref": s["ref"], "req": req})
            record_grants(s, o)
        elif r < 0.80:
            s = rng.choice(live)
            us = [usage_for(s, rg, True, rng) for rg in rgs if rg in s["grants"] or rng.random() < 0.3]
            trig = [1] if rng.random() < 0.7 else []
            req = new_req(s["supi"], us, triggers=trig, cid=s["cid"], notify=s["notify"])
            o = send({"kind": "release", "ref": s["ref"], "req": req})
            if o["status"] == 204:
                s["live"] = False
                if kind == "stale" and rng.random() < 0.8:
                    # the reference just released is used again at once (mostly by an update): 404 and no effect,
                    # although the subscriber, its records and -- for a consumer that kept counting -- the usage look right
                    g = usage_for({"grants": {}, "lsn": 800 + len(h.ops)}, rng.choice(rgs), False, rng)
                    send({"kind": rng.choice(["update", "update", "release"]), "ref": s["ref"], "req": new_req(s["supi"], [g], cid=s["cid"], notify=s["notify"])})
        elif r < 0.88:
            supi, rg = rng.choice([(a[0], a[1]) for a in h.accounts])
            send({"kind": "credit", "supi": supi, "rg": rg, "amount": rng.choice([100, 1000, 5])})
            send({"kind": "recharge", "supi": supi, "rg": rg})
        else:
            # requests that must be rejected without effect
            which = rng.choice(["unknown-sub", "unknown-ref", "stale", "foreign", "create-no-consumer", "create-no-consumer"])
            s = rng.choice(sessions)
            if which == "create-no-consumer":
                # a create without the mandatory nfConsumerIdentification: 400, and nothing changes -- neither the
                # notification URI a known subscriber registered, nor the set of known subscribers
                if rng.random() < 0.5:
                    notec[0] += 1
                    send({"kind": "create", "req": new_req(s["supi"], [], consumer=None, cid=1, notify=notec[0])})
                    acc = [(a[0], a[1]) for a in h.accounts if a[0] == s["supi"]]
                    if acc:
                        send({"kind": "recharge", "supi": acc[0][0], "rg": acc[0][1]})
                else:
                    notec[0] += 1
                    ghost = base + 8
                    send({"kind": "create", "req": new_req(ghost, [], consumer=None, cid=1, notify=notec[0])})
                    gq = usage_for({"grants": {}, "lsn": 950}, rng.choice(rgs), False, rng)
                    send({"kind": rng.choice(["update", "release"]), "ref": s["ref"], "req": new_req(ghost, [gq], cid=1),
                          "fullref": "imsi-%d%s" % (s["supi"], s["ref"])})
                    send({"kind": "recharge", "supi": ghost, "rg": rgs[0]})
                continue
            g = usage_for({"grants": {}, "lsn": 900}, rng.choice(rgs), False, rng)
            knd = rng.choice(["update", "release"])
            if which == "unknown-sub":
                req = new_req(base + 7, [g], cid=1)
                send({"kind": knd, "ref": s["ref"], "req": req, "fullref": "imsi-%d%s" % (s["supi"], s["ref"])})
            elif which == "unknown-ref":
                req = new_req(s["supi"], [g], cid=1)
                send({"kind": knd, "ref": "nosuchsession-1", "req": req})
            elif which == "stale":
                dead = [x for x in sessions if not x["live"]]
                if dead:
                    d = rng.choice(dead)
                    send({"kind": knd, "ref": d["ref"], "req": new_req(d["supi"], [g], cid=d["cid"])})
            else:
                others = [x for x in sessions if x["supi"] != s["supi"] and x["live"]]
                if others:
                    o2 = rng.choice(others)
                    # the reference of another subscriber's session, addressed with this subscriber's identity
                    send({"kind": knd, "ref": o2["ref"], "req": new_req(s["supi"], [g], cid=1),
                          "fullref": "imsi-%d%s" % (o2["supi"], o2["ref"])})
    return h


def record_grants(s, o):
    body = o.get("body")
    if isinstance(body, dict):
        for m in body.get("multipleUnitInformation") or []:
            g = m.get("grantedUnit")
            s["grants"][m.get("ratingGroup")] = 0 if g is None else int(g.get("totalVolume", 0))


HEADER = ("From Coq Require Import List ZArith.\nFrom Verif Require Import Charging.Servers Charging.Chf Charging.CorrChf.\n"
          "Import ListNotations.\nOpen Scope Z_scope.\n")


def history_to_coq(h):
    dbs = cl("mkDoc %d %d (%d) %s" % (a[0], a[1], a[2], zl(a[3])) for a in h.accounts)
    steps = cl("(%s, %s)" % (coq_op(op), ob) for op, ob in zip(h.ops, obs_strings(h.obs)))
    return "mkHcase %d %s %d %s" % (h.hid, dbs, h.lrsn0, steps)


def run_histories(ctx, plan, seed):
    """plan: list of (kind, nops).  Returns list of History."""
    rng = random.Random(seed)
    ok, log = go_build(["chargesim"])
    if not ok:
        raise RuntimeError("harness build failed:\n" + log[-3000:])
    hs = []
    sim = Sim(ctx)
    try:
        for i, (kind, nops) in enumerate(plan):
            hs.append(gen_history(rng, sim, i + 1, kind, nops))
    finally:
        sim.close()
    return hs


def evaluate(ctx, hs, shards=8):
    files = []
    for sidx in range(shards):
        part = hs[sidx::shards]
        if not part:
            continue
        fn = "HistCases%d.v" % sidx
        with open(os.path.join(ctx.workdir, fn), "w") as f:
            f.write(HEADER + "Definition cases : list hcase := [\n" + ";\n".join(history_to_coq(h) for h in part) +
                    "\n].\nDefinition M := Eval vm_compute in run_hist cases.\nPrint M.\n")
        files.append(fn)
    return run_case_files(files, ctx.workdir, timeout=3000)


def domain_count(ctx, hs, fun="in_domain"):
    """how many of the histories satisfy the hypotheses of C01_history (history_okb) / of C06_history
    (in_domain_c06: non-negative start, history_okb, history_compliantb), evaluated in Coq"""
    fn = "DomCases.v"
    with open(os.path.join(ctx.workdir, fn), "w") as f:
        f.write(HEADER + "Definition cases : list hcase := [\n" + ";\n".join(history_to_coq(h) for h in hs) +
                "\n].\nDefinition D := Eval vm_compute in %s cases.\nPrint D.\n" % fun)
    rc, out = sh(["coqc", "-Q", COQ, "Verif", fn], cwd=ctx.workdir, timeout=1800)
    m = re.search(r"D = \((\d+)(?:%Z)?, (\d+)(?:%Z)?\)", re.sub(r"\s+", " ", out))
    return (int(m.group(1)), int(m.group(2))) if m else None


# ---------------------------------------------------------------- monitors (on the implementation's own trace)

def online_used(req, rg):
    return sum(k["total"] for g in req["usages"] if g["rg"] == rg for k in g["conts"] if k["qmi"] == 1)


def ue_state(o, supi):
    return (o.get("ues") or {}).get("imsi-%d" % supi)


def monitor(h):
    """returns list of (property, key, step, what) for every statement violated on the observed trace"""
    out = []
    cost = {(a[0], a[1]): int(a[3]) for a in h.accounts}
    credited = {(a[0], a[1]): a[2] for a in h.accounts}
    charged = {k: 0 for k in cost}
    create_usage = False
    sessions = {}        # full ref -> dict(supi, cid, consumer, notify, expected usages, live, released)
    toucher = {}         # (supi, rg) -> set of refs that reported online usage
    last_grant = {}      # (ref, rg) -> last granted volume
    compliant = True
    prev = None
    pre_burst = None
    registered = {}      # supi -> k of the notification URI $NOTIFY/cb<k> registered by the subscriber's latest create (-1: none)
    for i, (op, o) in enumerate(zip(h.ops, h.raw)):
        kind = op["kind"]
        status = o["status"]
        if o.get("hung") or status >= 500:
            out.append(("C11", "C11/5xx-or-hung", i, "%s answered %s hung=%s" % (kind, status, o.get("hung"))))
        req = op.get("req")
        supi_s = "imsi-%d" % (req["supi"] if req else op.get("supi", 0))
        fullref = None
        if kind in ("update", "release"):
            fullref = op.get("fullref") or (supi_s + op["ref"])
        # ---- C12: contract and no effect of rejections
        if kind == "create":
            if req["consumer"] is not None and req["supi_ok"]:
                loc = (o.get("location") or "")
                tail = loc.rsplit("/", 1)[-1]
                body = o.get("body") if isinstance(o.get("body"), dict) else {}
                if status != 201 or not tail.startswith(supi_s) or body.get("invocationSequenceNumber") != req["seq"]:
                    out.append(("C12", "C12/create-contract", i, "create answered %s location=%r body=%r" % (status, loc, body)))
                else:
                    registered[req["supi"]] = req["notify"]
                    sessions[tail] = {"supi": req["supi"], "cid": req["cid"], "consumer": req["consumer"], "notify": req["notify"],
                                      "usages": [], "live": True, "released": False, "partial": False}
                    for g in req["usages"]:
                        for k in g["conts"]:
                            sessions[tail]["usages"].append([g["rg"], k["total"], k["ul"], k["dl"], k["ssu"], k["lsn"]])
                            if k["qmi"] == 1 and k["total"] > 0:
                                create_usage = True
                                if (req["supi"], g["rg"]) in charged:   # reported online usage is to be rated, whatever the request
                                    charged[(req["supi"], g["rg"])] += cost[(req["supi"], g["rg"])] * k["total"]
                    # C10: the reference is new among live sessions
                    st = ue_state(o, req["supi"])
                    if prev is not None and not o.get("in_burst"):
                        pst = ue_state(prev, req["supi"])
                        if pst and tail in pst["cdrIndex"]:
                            out.append(("C10", "C10/reference-reused", i, "create returned live reference %s" % tail))
                    if not st or tail not in st["cdrIndex"] or st["records"][st["cdrIndex"][tail]]["chargingId"] != req["cid"]:
                        out.append(("C10", "C10/reference-does-not-designate", i, "reference %s does not designate the record of its create" % tail))
        elif kind in ("update", "release"):
            valid = fullref in sessions and sessions[fullref]["live"] and sessions[fullref]["supi"] == req["supi"]
            if valid:
                s = sessions[fullref]
                body = o.get("body") if isinstance(o.get("body"), dict) else {}
                if kind == "update" and (status != 200 or body.get("invocationSequenceNumber") != req["seq"] or not body.get("invocationTimeStamp")):
                    out.append(("C12", "C12/update-contract", i, "update answered %s body=%r" % (status, body)))
                if kind == "release" and (status != 204 or o.get("body") not in ("", None)):
                    out.append(("C12", "C12/release-contract", i, "release answered %s body=%r" % (status, o.get("body"))))
                if status in (200, 204):
                    for g in req["usages"]:
                        for k in g["conts"]:
                            s["usages"].append([g["rg"], k["total"], k["ul"], k["dl"], k["ssu"], k["lsn"]])
                        used = sum(k["total"] for k in g["conts"] if k["qmi"] == 1)
                        if any(k["qmi"] == 1 for k in g["conts"]):
                            toucher.setdefault((req["supi"], g["rg"]), set()).add(fullref)
                            if (req["supi"], g["rg"]) in charged:
                                charged[(req["supi"], g["rg"])] += cost[(req["supi"], g["rg"])] * used
                            if used > last_grant.get((fullref, g["rg"]), 0):
                                compliant = False
                    if kind == "release":
                        s["live"], s["released"] = False, True
                    body = o.get("body") if isinstance(o.get("body"), dict) else {}
                    for m in body.get("multipleUnitInformation") or []:
                        gu = m.get("grantedUnit")
                        last_grant[(fullref, m.get("ratingGroup"))] = 0 if gu is None else int(gu.get("totalVolume", 0))
                    # partial closure?
                    if kind == "update" and req["triggers"] and any(k["qmi"] == 1 for g in req["usages"] for k in g["conts"]) and req["triggers"][-1] != 1:
                        s["partial"] = True
            else:
                # unknown subscriber / unknown, stale or foreign reference: 4xx and no effect
                same = prev is not None and o["db"] == prev["db"] and o.get("ues") == prev.get("ues")
                if not (400 <= status < 500) or not same:
                    out.append(("C12", "C12/rejection-has-effect", i,
                                "%s for %s answered %s; state unchanged=%s" % (kind, fullref, status, same)))
        elif kind == "recharge":
            st = ue_state(o, op["supi"])
            if st is not None:
                notes = o.get("notifications") or []
                rgs = [d.get("ratingGroup") for n in notes for d in (n.get("body") or {}).get("reauthorizationDetails") or []]
                k = registered.get(op["supi"], -1)
                paths = [n.get("path", "").rsplit("/", 1)[-1] for n in notes]
                if status != 204 or (k >= 0 and (rgs != [op["rg"]] or paths != ["cb%d" % k])) or (k < 0 and notes):
                    out.append(("C12", "C12/recharge-contract", i, "recharge answered %s notifications=%r" % (status, notes)))
        elif kind == "credit":
            if (op["supi"], op["rg"]) in credited:
                credited[(op["supi"], op["rg"])] += op["amount"]
        # ---- C01: conservation after every op
        for (supi, rg), c in cost.items():
            bal = int(o["db"]["imsi-%d|%d" % (supi, rg)]["quota"])
            st = ue_state(o, supi)
            reserved = int((st or {}).get("reserved", {}).get(str(rg), 0))
            if bal + reserved != credited[(supi, rg)] - charged[(supi, rg)]:
                key = "C01/usage-in-create-not-rated" if create_usage else "C01/identity"
                out.append(("C01", key, i, "account imsi-%d rg %d: balance %d + reserved %d != credited %d - rated usage %d"
                            % (supi, rg, bal, reserved, credited[(supi, rg)], charged[(supi, rg)])))
            # ---- C06: no overdraft for a compliant consumer
            if bal < 0 and compliant:
                shared = len(toucher.get((supi, rg), ())) > 1
                out.append(("C06", "C06/shared-reservation-across-sessions" if shared else "C06/overdraft", i,
                            "account imsi-%d rg %d balance %d after a compliant history" % (supi, rg, bal)))
        # ---- C06: grant limited to what the money buys
        if kind == "update" and status == 200 and prev is not None and fullref in sessions:
            body = o.get("body") if isinstance(o.get("body"), dict) else {}
            muis = {m.get("ratingGroup"): m for m in body.get("multipleUnitInformation") or []}
            pst = ue_state(prev, req["supi"]) or {}
            for g in req["usages"]:
                rg = g["rg"]
                if g["req"] is None or rg not in muis or (req["supi"], rg) not in cost or 1 in req["triggers"]:
                    continue
                if not any(k["qmi"] == 1 for k in g["conts"]):
                    continue
                mode_before = int(pst.get("ratingType", {}).get(str(rg), 1))
                c = cost[(req["supi"], rg)]
                used = sum(k["total"] for k in g["conts"] if k["qmi"] == 1)
                money = int(prev["db"]["imsi-%d|%d" % (req["supi"], rg)]["quota"]) + int(pst.get("reserved", {}).get(str(rg), 0)) - used * c
                gu = muis[rg].get("grantedUnit")
                granted = 0 if gu is None else int(gu.get("totalVolume", 0))
                fui = (muis[rg].get("finalUnitIndication") or {}).get("finalUnitAction", "") == "TERMINATE"
                if money < g["req"] * c:
                    if granted > max(money, 0) // c:
                        out.append(("C06", "C06/grant-exceeds-money", i, "rg %d: money %d buys %d, granted %d" % (rg, money, max(money, 0) // c, granted)))
                    elif not fui:
                        key = "C06/no-final-unit-indication-in-debit-mode" if mode_before == 2 else "C06/final-unit-indication-missing"
                        out.append(("C06", key, i, "rg %d: money %d < requested %d x %d but no final-unit indication (mode %d)" % (rg, money, g["req"], c, mode_before)))
        # ---- C10: the creates of a concurrent burst got pairwise different references, none of them live before
        if "burst_refs" in o:
            br = o["burst_refs"]
            before = [k for st in ((pre_burst or {}).get("ues") or {}).values() for k in st["cdrIndex"]]
            if len(br) != len(set(br)) or set(br) & set(before):
                out.append(("C10", "C10/concurrent-creates-share-reference", i, "concurrent creates returned %r (live before: %r)" % (br, before)))
        # ---- C10: live references are pairwise distinct (they are map keys per subscriber; compare across subscribers)
        keys = [k for st in (o.get("ues") or {}).values() for k in st["cdrIndex"]]
        if len(keys) != len(set(keys)):
            out.append(("C10", "C10/duplicate-live-reference", i, "live references not distinct: %r" % sorted(keys)))
        # ---- C02: usage recorded exactly once, in the right session's records
        for ref, s in sessions.items():
            st = ue_state(o, s["supi"])
            if not st:
                continue
            recs = [r for r in st["records"] if r["sessionId"] == ref]
            got = [e for r in recs for e in r["usages"] if e[1] != -2]
            if got != s["usages"]:
                out.append(("C02", "C02/usage-not-exactly-once", i, "session %s: recorded %r, reported %r" % (ref, got[:8], s["usages"][:8])))
                break
            for r in recs:
                if r["subscriber"] != str(s["supi"]) or r["chargingId"] != s["cid"] or r["consumer"] != s["consumer"]:
                    out.append(("C02", "C02/identity", i, "record of %s carries %r/%r/%r" % (ref, r["subscriber"], r["chargingId"], r["consumer"])))
            if recs and s["released"] and recs[-1]["cause"] != 0:
                out.append(("C02", "C02/cause", i, "released session %s closed with cause %d" % (ref, recs[-1]["cause"])))
            if recs and s["partial"] and not s["released"] and recs[-1]["cause"] != 1:
                out.append(("C02", "C02/cause", i, "partial record of %s closed with cause %d" % (ref, recs[-1]["cause"])))
        if not o.get("in_burst"):
            pre_burst = o
        prev = o
    return out


# ---------------------------------------------------------------- per-property checks

SPEC = {
    # property: (Props file, correspondence codes that matter, plan quick, plan thorough)
    "C01": ("Charging/PropsC01.v", {2, 3, 4}, [("single", 14)] * 10 + [("multi", 16)] * 8 + [("createusage", 5)] * 2),
    "C06": ("Charging/PropsC06.v", {2, 3, 4}, [("single", 16)] * 8 + [("compliant", 16)] * 7 + [("multi", 14)] * 5 + [("twin", 10)] * 4),
    "C02": ("Charging/PropsC02.v", {5, 6, 8}, [("multi", 18)] * 10 + [("pdu", 12)] * 2 + [("single", 10)] * 4 + [("split", 6)] * 2 + [("dupseq", 12)] * 3),
    "C03": ("Charging/PropsC03.v", {5, 8}, [("multi", 14)] * 8 + [("split", 10)] * 3 + [("split2", 11)] + [("huge", 2)] + [("lenwalk", 1)]),
    "C10": ("Charging/PropsC10.v", {1, 6, 9}, [("wrap32", 16)] + [("multi", 18)] * 10 + [("names", 14)] * 4 + [("burst", 4)] * 4 + [("wrap63", 8)]),
    "C12": ("Charging/PropsC12.v", {1, 3, 4, 5, 6, 7}, [("multi", 18)] * 14 + [("single", 12)] * 4 + [("stale", 14)] * 4),
    "C11": ("Charging/PropsC11.v", {1}, [("multi", 14)] * 8 + [("single", 10)] * 4 + [("split", 10)] * 2),
}
KNOWN = {"C01/usage-in-create-not-rated",
         "C06/shared-reservation-across-sessions", "C03/record-exceeds-65535"}


def file_cases(hs, wanted=()):
    """files to read back with the Coq monitor: up to 8 small ones per history spread over its steps, the steps
    named in `wanted` (where the correspondence broke), and a few large ones (cost grows with the size)"""
    out = []
    for h in hs:
        mine = []
        for k, o in enumerate(h.raw):
            for supi_s, hx in (o.get("cdrfiles") or {}).items():
                over = any(r["berLen"] > 65535 for r in ((o.get("ues") or {}).get(supi_s) or {"records": []})["records"])
                mine.append((h.hid, k, bytes.fromhex(hx), over))
        out.append(mine)
    res, seen = [], set()

    def add(f):
        if (f[0], f[1], len(f[2])) not in seen:
            seen.add((f[0], f[1], len(f[2])))
            res.append(f)
    large = []
    for mine in out:
        small = [f for f in mine if len(f[2]) <= 6000]
        large += [f for f in mine if len(f[2]) > 6000]
        n = 60 if (mine and any(h.hid == mine[0][0] and h.kind == "lenwalk" for h in hs)) else 8
        stride = max(1, len(small) // n)
        for f in small[::stride][:n] + small[-1:]:
            add(f)
        for f in mine:
            if (f[0], f[1]) in wanted and len(f[2]) <= 70000:
                add(f)
    large.sort(key=lambda f: len(f[2]))
    for f in large[:2] + large[-1:]:
        add(f)
    for mine in out:        # the first file of each history that holds a record above the limit
        for f in mine:
            if f[3] and len(f[2]) <= 140000:
                add(f)
                break
    return res


def check_files(ctx, fcs):
    shards, cur, size = [], [], 0
    for (hid, k, bs, over) in sorted(fcs, key=lambda f: -len(f[2])):
        line = "(%d, %d, %s)" % (hid, k, compress_bytes(bs))
        if len(bs) > 6000:
            shards.append([line])          # one large file per coqc process
            continue
        cur.append(line)
        size += len(bs)
        if size > 25000:
            shards.append(cur)
            cur, size = [], 0
    if cur:
        shards.append(cur)
    files = []
    for n, lines in enumerate(shards):
        fn = "FileChk%d.v" % n
        with open(os.path.join(ctx.workdir, fn), "w") as f:
            f.write("From Coq Require Import List ZArith.\nFrom Verif Require Import Common.Bytes Charging.FileCheck.\nImport ListNotations.\nOpen Scope Z_scope.\n"
                    "Definition cases : list (Z * Z * list Z) := [\n" + ";\n".join(lines) +
                    "\n].\nDefinition M := Eval vm_compute in run_files cases.\nPrint M.\n")
        files.append(fn)
    if not files:
        return True, [], []
    return run_case_files(files, ctx.workdir, timeout=3000)


def compress_bytes(bs):
    # chunked literal lists (deep list literals overflow Coq's parser stack)
    parts = []
    for i in range(0, len(bs), 1500):
        parts.append("[" + ";".join(str(b) for b in bs[i:i + 1500]) + "]")
    return "(" + " ++ ".join(parts) + ")" if parts else "[]"


def run(ctx, replay=None):
    pid = ctx.pid
    props, codes, plan = SPEC[pid]
    cov = proof_stage(ctx, props, ["Charging/CorrChf.v", "Charging/FileCheck.v"])
    if ctx.tier != "quick":
        # the strata with thousands of containers per request cost minutes each now that every Diameter exchange has its
        # own TLS connection: C03 repeats its plan 3 times, the others 12 times
        plan = plan * (3 if pid == "C03" else 12)
    import time as _t
    t0 = _t.time()
    hs = run_histories(ctx, plan, ctx.seed * 1000003 + int(pid[1:]))
    t1 = _t.time()
    okc, mism, logs = evaluate(ctx, hs, shards=16 if ctx.tier == "quick" else 64)
    t2 = _t.time()
    sys.stderr.write("timing: histories %.1fs, model evaluation %.1fs\n" % (t1 - t0, t2 - t1))
    if not okc and ctx.proof_broken is None:
        raise RuntimeError("case evaluation failed:\n" + "\n".join(logs)[:3000])
    byh = {h.hid: h for h in hs}
    dom = domain_count(ctx, hs) if (pid == "C01" and okc) else None
    dom6 = domain_count(ctx, hs, "in_domain_c06") if (pid == "C06" and okc) else None
    corr = sorted(t for t in mism if t[2] in codes)
    mons = []
    for h in hs:
        for (p, key, step, what) in monitor(h):
            if p == pid:
                mons.append((h.hid, step, key, what))
    fstats = None
    extra_cov = {}
    if dom:
        extra_cov["histories_in_domain_of_C01_history"] = {"satisfy_history_ok": dom[0], "of": dom[1]}
    if dom6:
        extra_cov["histories_in_domain_of_C06_history"] = {"satisfy_nonneg_start_history_ok_and_compliant": dom6[0], "of": dom6[1]}
    if pid == "C02":
        okb, logb = go_build(["tscorr"])
        if not okb:
            raise RuntimeError("harness build failed:\n" + logb[-3000:])
        rc, tout = sh([os.path.join(HARNESS, "bin", "tscorr"), "-seed", str(ctx.seed), "-per", "1" if ctx.tier == "quick" else "8",
                       "-out", os.path.join(ctx.workdir, "TsCases.v")])
        if rc != 0:
            raise RuntimeError("tscorr failed:\n" + tout[-2000:])
        okt, tm, tlogs = run_case_files(["TsCases.v"], ctx.workdir)
        if not okt and ctx.proof_broken is None:
            raise RuntimeError("timestamp evaluation failed:\n" + "\n".join(tlogs)[:2000])
        for (i, c) in tm:
            if c == 2:
                mons.append((0, i, "C02/timestamp", "TimeStampToCdr: the bytes written do not decode to the instant and zone offset given (case %d of tscorr)" % i))
            else:
                corr.append((0, i, 5))
        extra_cov["timestamp_cases"] = int(tout.split("cases=")[1].split()[0]) if "cases=" in tout else 0
    if pid == "C11":
        lat = run_lattice(ctx)
        extra_cov["presence_lattice"] = lat["stats"]
        for (i, what, req) in lat["bad"]:
            mons.append((0, i, "C11/5xx-or-hung", what))
            byh.setdefault(0, None)
        lattice_bad = lat["bad"]
    if pid == "C03":
        fcs = file_cases(hs, wanted={(t[0], t[1]) for t in corr})
        okf, fm, flogs = check_files(ctx, fcs)
        if not okf:
            raise RuntimeError("file check failed:\n" + "\n".join(flogs)[:3000])
        over = {(hid, k) for (hid, k, bs, ov) in fcs if ov}
        fc = {1: "the independent TS 32.297 reader rejects the file", 2: "header-length / file-length fields differ from the real sizes",
              3: "CDR count differs from the number of records", 4: "a record length field differs from its payload size",
              5: "a payload is not one complete BER element",
              6: "a payload is one BER element but does not decode as a CHFRecord (schema regenerated from /repo)"}
        def oversize_key(hid, k):
            """the recorded finding is a request that cannot fit in any record (its own usage exceeds the limit) or usage
            added by create/release, which have no size guard; an update whose usage would have fitted in a fresh
            record is a different failure"""
            h = byh[hid]
            op = h.ops[k]
            if op["kind"] != "update" or k == 0:
                return "C03/record-exceeds-65535"
            supi_s = "imsi-%d" % op["req"]["supi"]
            ref = op.get("fullref") or (supi_s + op["ref"])
            now = [r["berLen"] for r in ((h.raw[k].get("ues") or {}).get(supi_s) or {"records": []})["records"] if r["sessionId"] == ref]
            was = [r["berLen"] for r in ((h.raw[k - 1].get("ues") or {}).get(supi_s) or {"records": []})["records"] if r["sessionId"] == ref]
            if not now or not was:
                return "C03/record-exceeds-65535"
            added = sum(now) - sum(was)
            return "C03/record-exceeds-65535" if added + 400 > 65535 else "C03/update-overflows-record-without-split"
        for (hid, k, c) in fm:
            key = oversize_key(hid, k) if (hid, k) in over else "C03/file-code%d" % c
            mons.append((hid, k, key, "CDR file written at this step: " + fc.get(c, str(c))))
        fstats = {"files_checked": len(fcs), "files_with_record_over_65535": len(over), "file_violations": len(fm)}

    def replay_of(hid, step):
        h = byh.get(hid)
        if h is None:
            if pid == "C11":
                return {"lattice_request": [b for b in lattice_bad if b[0] == step][:1]}
            return {"case": step, "rerun": "VERIF_SEED=%d ./check %s" % (ctx.seed, pid)}
        return {"kind": h.kind, "accounts": h.accounts,
                "ops": [{"kind": o["kind"], **({"ref": o.get("fullref") or o.get("ref"), "request": o["req"]} if "req" in o else
                                               {k: v for k, v in o.items() if k != "kind"})} for o in h.ops[:step + 1]],
                "observed_last": {k: h.raw[step].get(k) for k in ("status", "location", "body", "db")}}

    found = False
    seen = set()
    for (hid, step, key, what) in sorted(mons):
        if key in seen:
            continue
        seen.add(key)
        v = {"property": pid, "key": key, "seed": ctx.seed, "tier": ctx.tier, "history": hid, "step": step,
             "what": "%s (history %d step %d)" % (what[:300], hid, step), "found_input": True, "replay": replay_of(hid, step)}
        ctx.violations.append(v)
        if key not in KNOWN:
            found = True
    if not found and (corr or ctx.proof_broken):
        if corr:
            hid, step, c = corr[0]
            v = {"property": pid, "key": "%s/corr%d" % (pid, c), "seed": ctx.seed, "tier": ctx.tier, "history": hid, "step": step,
                 "broken": "correspondence Charging/CorrChf.v code %d (%s)" % (c, CODES[c]),
                 "what": "correspondence broken: model and CHF differ in %s (history %d step %d)" % (CODES[c], hid, step),
                 "replay": replay_of(hid, step)}
        else:
            v = {"property": pid, "key": pid + "/proof", "broken": ctx.proof_broken["where"], "log": ctx.proof_broken["log"],
                 "what": "proof obligation no longer checks at " + ctx.proof_broken["where"]}
        v["found_input"] = False
        ctx.violations.append(v)
    nops = sum(len(h.ops) for h in hs)
    kinds, opk, stat = {}, {}, {}
    for h in hs:
        kinds[h.kind] = kinds.get(h.kind, 0) + 1
        for o, r in zip(h.ops, h.raw):
            opk[o["kind"]] = opk.get(o["kind"], 0) + 1
            stat[str(r["status"])] = stat.get(str(r["status"]), 0) + 1
    distinct = len({json.dumps(o, sort_keys=True) for h in hs for o in h.ops if o["kind"] != "credit"})
    cov.update({
        "evaluations": nops, "distinct_nontrivial": distinct,
        "rule": ("histories generated interactively (next request depends on the grants just received) from one PRNG: 1-2 subscribers x 1-2 rating groups, "
                 "balances 0..100000, unit costs 1/2/7, creates (with and without usage), updates with compliant (85-95%) or excessive usage, 1-2 unit usages x 1-2 "
                 "containers, online/offline, requested 0/1/10/50/100/1000/absent, FINAL and other triggers, releases, credit+recharge, and requests for unknown "
                 "subscriber / unknown, stale or foreign session reference; kinds: single (low balances), multi, split (300-700 containers per update), huge "
                 "(2500 containers), names (adversarial consumer names), createusage. distinct = distinct request contents; all reach the real handlers"),
        "samples": [{"kind": h.kind, "ops": [(o["kind"], r["status"]) for o, r in zip(h.ops, h.raw)]} for h in hs[:3]],
        "input_distribution": {"history_kinds": kinds, "ops": opk, "statuses": stat},
        "mismatches": {str(c): sum(1 for t in mism if t[2] == c) for c in sorted({t[2] for t in mism})},
        "monitor_hits": {k: sum(1 for m in mons if m[2] == k) for k in sorted({m[2] for m in mons})},
    })
    if fstats:
        cov["files"] = fstats
    cov.update(extra_cov)
    return finish(ctx, "proof", cov, assumptions=[
        "fake MongoDB stands for MongoDB; RF and ABMF are the CHF's own servers reached over real Diameter/TLS on loopback",
        "subscriber identities are 15-digit IMSIs; UPFID empty; one-time events, PDU-session and registration information are not in the modelled request language",
        "record sizes in the model come from the BER encoder model on the schema regenerated from /repo (NF id and time stamp as place holders of equal length)",
    ])



# ---------------------------------------------------------------- C11: presence lattice (exhaustive)

def full_body(supi_s, seq, notify=0):
    return {"subscriberIdentifier": supi_s, "invocationSequenceNumber": seq, "notifyUri": "$NOTIFY/cb%d" % notify, "chargingId": 5,
            "nfConsumerIdentification": {"nFName": "smf1", "nodeFunctionality": "SMF", "nFIPv4Address": "10.0.0.1",
                                         "nFPLMNID": {"mcc": "208", "mnc": "93"}},
            "pDUSessionChargingInformation": {"chargingId": 9, "pduSessionInformation": {
                "pduSessionID": 1, "dnnId": "internet", "networkSlicingInfo": {"sNSSAI": {"sst": 1, "sd": "010203"}}}},
            "multipleUnitUsage": [{"ratingGroup": 1, "requestedUnit": {"totalVolume": 10},
                                   "usedUnitContainer": [{"quotaManagementIndicator": "ONLINE_CHARGING", "totalVolume": 0, "localSequenceNumber": seq}]}]}


PATHS = [("nfConsumerIdentification",), ("nfConsumerIdentification", "nFPLMNID"), ("pDUSessionChargingInformation",),
         ("pDUSessionChargingInformation", "pduSessionInformation"),
         ("pDUSessionChargingInformation", "pduSessionInformation", "networkSlicingInfo"),
         ("pDUSessionChargingInformation", "pduSessionInformation", "networkSlicingInfo", "sNSSAI"),
         ("multipleUnitUsage", 0, "requestedUnit"), ("multipleUnitUsage", 0, "usedUnitContainer"), ("multipleUnitUsage",), ("notifyUri",)]


def remove_path(b, path):
    cur = b
    for k in path[:-1]:
        if isinstance(cur, dict) and k in cur:
            cur = cur[k]
        elif isinstance(cur, list) and isinstance(k, int) and k < len(cur):
            cur = cur[k]
        else:
            return
    if isinstance(cur, dict):
        cur.pop(path[-1], None)


def run_lattice(ctx):
    """every subset of the optional members absent x {create, update, release}; odd MCC/MNC and SUPI shapes;
    recharging path parameters; each followed by a well-formed request for the same subscriber with a deadline"""
    import copy
    import itertools
    sim = Sim(ctx)
    bad, n, k = [], 0, 0
    stats = {"requests": 0, "followups": 0, "by_status": {}}

    def note(o, what, req):
        stats["requests"] += 1
        stats["by_status"][str(o["status"])] = stats["by_status"].get(str(o["status"]), 0) + 1
        if o.get("hung") or o["status"] >= 500 or o["status"] == 0:
            bad.append((stats["requests"], "%s answered %s hung=%s" % (what, o["status"], o.get("hung")), req))

    try:
        base = IMSI0 + 900000
        subsets = []
        for r in range(len(PATHS) + 1):
            for c in itertools.combinations(range(len(PATHS)), r):
                subsets.append(c)
        if ctx.tier == "quick":
            rng = random.Random(ctx.seed)
            keep = [c for c in subsets if len(c) <= 2] + rng.sample([c for c in subsets if len(c) > 2], 120)
            subsets = keep
        for si, sub in enumerate(subsets):
            supi = base + si
            supi_s = "imsi-%d" % supi
            sim.do({"op": "account", "supi": supi_s, "rg": 1, "quota": "1000", "unitCost": "1"})
            # a live session to update / release
            o = sim.do({"op": "create", "body": full_body(supi_s, 1)})
            ref = (o.get("location") or "").rsplit("/", 1)[-1]
            for opk in ("create", "update", "release"):
                b = full_body(supi_s, 2)
                for pi in sub:
                    remove_path(b, PATHS[pi])
                req = {"op": opk, "body": b}
                if opk != "create":
                    req["ref"] = ref
                o2 = sim.do(req)
                note(o2, "%s without %s" % (opk, [".".join(map(str, PATHS[i])) for i in sub]), req)
                # follow-up: a well-formed request for the same subscriber must still be answered
                f = sim.do({"op": "create", "body": full_body(supi_s, 3)})
                stats["followups"] += 1
                if f.get("hung") or f["status"] != 201:
                    bad.append((stats["requests"], "follow-up create after %s without %s answered %s hung=%s" % (opk, sub, f["status"], f.get("hung")), req))
                    if f.get("hung"):
                        raise StopIteration
                if opk == "release" and o2["status"] == 204:
                    o = sim.do({"op": "create", "body": full_body(supi_s, 1)})
                    ref = (o.get("location") or "").rsplit("/", 1)[-1]
        # MCC / MNC lengths 0..4
        for mi, (mcc, mnc) in enumerate(itertools.product(["", "2", "20", "208", "2089"], ["", "9", "93", "930", "9300"])):
            supi_s = "imsi-%d" % (base + 5000 + mi)
            b = full_body(supi_s, 1)
            b["nfConsumerIdentification"]["nFPLMNID"] = {"mcc": mcc, "mnc": mnc}
            req = {"op": "create", "body": b}
            note(sim.do(req), "create with mcc=%r mnc=%r" % (mcc, mnc), req)
        # SUPI shapes
        for sj, supi_s in enumerate(["", "imsi", "imsi-", "imsi-1", "imsi-12345", "imsi-../x", "imsi-12/34567", "nai-user@x", "imsi-1234567890123456",
                                     "IMSI-208930000000001", "imsi-20893000000000a", "imsi-" + "9" * 300, "gci-1", "imsi-208930000099999"]):
            for opk in ("create", "update", "release"):
                req = {"op": opk, "body": full_body(supi_s, 1)}
                if opk != "create":
                    req["ref"] = supi_s + "smf1-0"
                note(sim.do(req), "%s with SUPI %r" % (opk, supi_s[:40]), req)
        # recharging path parameters
        for param in ["x", "imsi-208930000900000", "imsi-208930000900000_", "_1", "imsi-208930000900000_1", "imsi-208930000900000_abc",
                      "imsi-208930000900000_1_2", "imsi-208930000900000_-1", "imsi-1_99999999999999999999", "%20_1"]:
            req = {"op": "recharge", "param": param}
            note(sim.do(req), "recharge %r" % param, req)
    except StopIteration:
        pass
    finally:
        sim.close()
    return {"bad": bad, "stats": stats}
