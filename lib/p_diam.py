"""C07 / C08: the account-balance (ABMF) and rating (RF) Diameter servers.
Theorems in coq/Charging/PropsC07.v, PropsC08.v on the models of Servers.v; tie:
harness/cmd/diamsim drives the real servers (abmf.OpenServer / rf.OpenServer,
real go-diameter connections over TLS on loopback, fake MongoDB) with generated
request sequences; observations are evaluated against the model and the
property monitors in Coq (Charging/CorrServers.v)."""
import json
import os
import random
from common import *

B63 = 2 ** 63
CODES = {1: "ABMF answer differs from the model", 2: "stored balances differ from the model",
         3: "C07 monitor: grant/balance/echo of a credit-control answer is not what the property states",
         31: "C07 monitor: refund whose sum exceeds int64 wraps the stored balance",
         5: "RF answer differs from the model", 6: "C08 monitor: no answer for a known account, or price/allowed units not exact",
         8: "unit cost derived by the CHF (getUnitCost, observed as ChfUe.UnitCost) differs from the model",
         9: "C08 monitor: the CHF derives a unit cost different from the one the rating server applied",
         10: "C08 monitor: a stored unit cost made of decimal digits is not priced as that number (one consumed unit)"}
KNOWN_KEYS = {31: "C07/int64-overflow"}

COSTS = ["1", "2", "7", "007", "1000", "0", "", ".", "abc", "-3", "+5", "1.5", "0.5", "2.50", "1.0000000000", "99999999999999999999",
         "4294967296", "4294967295", "65536", "3.", ".5", "1..2", "12a", " 7", "1e3", "00", "-0", "3000000000", "1.0000000000000000000",
         # digit strings that another radix or literal syntax would read differently (decimal only: strconv.Atoi)
         "010", "0.25", "0.8", "0.09", "08", "0x10", "1_0", "0b11", "0o17", "0.010", "42949672.96"]


def coq_list(xs):
    return "[" + "; ".join(xs) + "]"


def zl(s):
    return coq_list(str(b) for b in s.encode())


def optz(v):
    return "None" if v is None else "(Some %d)" % v


def gen_amount(rng, bal):
    c = [0, 1, bal - 1, bal, bal + 1, 2 ** 32 - 1, 2 ** 32, 2 ** 32 + 1, B63 - 1, rng.randrange(0, 2000), rng.randrange(0, B63)]
    a = rng.choice(c)
    return max(0, min(a, B63 - 1))


def gen_abmf_history(rng, hid, nsteps):
    """returns (accounts, ops) ; accounts: list of (supi, ue, rg, quota, cost)"""
    nacc = rng.choice([1, 2, 2, 3])
    accounts = []
    for k in range(nacc):
        ue = hid * 10 + (k // 2)
        supi = "imsi-2089300%08d" % ue
        rg = 1 + (k % 2)
        quota = rng.choice([0, 1, 5, 100, 1000, 1000, 99999, 2 ** 32 + 1, 2 ** 62, B63 - 1, B63 - 10, rng.randrange(0, 10 ** 6)])
        if rng.random() < 0.05:
            quota = -rng.choice([1, 5, 1000])
        accounts.append((supi, ue, rg, quota, rng.choice(["1", "2", "7"])))
    ops = []
    for s in range(nsteps):
        supi, ue, rg, quota, _ = rng.choice(accounts)
        r = rng.random()
        known = True
        if r < 0.06:
            supi, ue, known = "imsi-2089399%08d" % (hid * 10 + 9), hid * 10 + 9, False
        elif r < 0.10:
            rg, known = 77, False
        action, rtype = rng.choice([(0, 1), (0, 2), (0, 2), (0, 2), (0, 3), (0, 3), (1, 2), (1, 2), (1, 3), (2, 2), (3, 1), (0, 4)])
        amt = gen_amount(rng, max(quota, 0))
        op = {"op": "ccr", "supi": supi, "rg": rg, "action": action, "reqType": rtype, "reqNum": rng.randrange(0, 2 ** 32),
              "sessionId": str(rng.randrange(0, 10 ** 9)), "requested": None, "used": None}
        if action == 0 and rtype == 3:
            op["used"] = str(amt)
        else:
            op["requested"] = str(amt)
        # requests that continue the previous request's Diameter session, as the CHF's do (one session per
        # subscriber, numbered per rating group): same Session-Id, often the same CC-Request-Number, sometimes
        # the same type and amount -- on the same or on another account.  A server that recognises "the same
        # request again" by these alone must still move the addressed balance by exactly the stated amount.
        if ops and rng.random() < 0.4:
            prev = ops[-1][0]
            op["sessionId"] = prev["sessionId"]
            if rng.random() < 0.7:
                op["reqNum"] = prev["reqNum"]
                if rng.random() < 0.6 and not (prev["action"] == 0 and prev["reqType"] == 3):
                    op["action"], op["reqType"] = prev["action"], prev["reqType"]
                    op["used"] = None
                    op["requested"] = prev["requested"] if rng.random() < 0.7 else str(amt)
        if rng.random() < 0.02:
            op["omitMscc"] = True
        ops.append((op, ue))
    return accounts, ops


def parse_cca(o):
    if not o.get("answered") or o.get("answer") is None:
        return "NoAnswer"
    a = o["answer"]
    sid = a.get("SessionId") or ""
    sess = int(sid) if sid.isdigit() else -1
    mscc = a.get("MultipleServicesCreditControl")
    granted, fui = None, False
    if mscc:
        g = mscc.get("GrantedServiceUnit")
        if g is not None:
            granted = int(g["CCTotalOctets"])
        f = mscc.get("FinalUnitIndication")
        if f is not None and int(f.get("FinalUnitAction", -1)) == 0:
            fui = True
    rb = a.get("RemainingBalance")
    rd, re_ = -999, -999
    if rb and rb.get("UnitValue"):
        rd, re_ = int(rb["UnitValue"]["ValueDigits"]), int(rb["UnitValue"]["Exponent"])
    return "(Answer (mkCca %d %d %d %s %s (%d) (%d)))" % (sess, int(a.get("CcRequestType", 0)), int(a.get("CcRequestNumber", 0)),
                                                      optz(granted), "true" if fui else "false", rd, re_)


def parse_sua(o):
    if not o.get("answered") or o.get("answer") is None:
        return "NoAnswer"
    a = o["answer"]
    sid = a.get("SessionId") or ""
    sess = int(sid) if sid.isdigit() else -1
    sr = a.get("ServiceRating") or {}
    uc = (((sr.get("MonetaryTariff") or {}).get("RateElement") or {}).get("UnitCost") or {})
    return "(Answer (mkSua %d (%d) (%d) %d %d))" % (sess, int(uc.get("ValueDigits", -999)), int(uc.get("Exponent", -999)),
                                                  int(sr.get("AllowedUnits", -1)), int(sr.get("Price", -1)))


def run_diamsim(ctx, lines, timeout=1800):
    inp = "\n".join(json.dumps(l) for l in lines) + "\n"
    d = os.path.join(ctx.workdir, "diamsim")
    os.makedirs(d, exist_ok=True)
    rc, out = sh([os.path.join(HARNESS, "bin", "diamsim"), "-dir", d, "-anstimeout", "400ms", "-quiet"],
                 inp=inp, timeout=timeout)
    res = []
    for line in out.splitlines():
        line = line.strip()
        if line.startswith("{"):
            try:
                res.append(json.loads(line))
            except Exception:
                pass
    if len(res) != len(lines):
        raise RuntimeError("diamsim: %d answers for %d ops (rc=%d)\n%s" % (len(res), len(lines), rc, out[-2000:]))
    return res


def run_chargesim(ctx, lines, timeout=1800, extra_args=()):
    inp = "\n".join(json.dumps(l) for l in lines) + "\n"
    d = os.path.join(ctx.workdir, "chargesim")
    os.makedirs(d, exist_ok=True)
    rc, out = sh([os.path.join(HARNESS, "bin", "chargesim"), "-dir", d, "-timeout", "12s"] + list(extra_args), inp=inp, timeout=timeout)
    res = []
    for line in out.splitlines():
        line = line.strip()
        if line.startswith("{"):
            try:
                res.append(json.loads(line))
            except Exception:
                pass
    if len(res) != len(lines):
        raise RuntimeError("chargesim: %d answers for %d ops (rc=%d)\n%s" % (len(res), len(lines), rc, out[-2000:]))
    return res


HEADER = ("From Coq Require Import List ZArith.\nFrom Verif Require Import Charging.Servers Charging.CorrServers.\n"
          "Import ListNotations.\nOpen Scope Z_scope.\n")


def run(ctx, replay=None):
    pid = ctx.pid
    props = "Charging/PropsC07.v" if pid == "C07" else "Charging/PropsC08.v"
    cov = proof_stage(ctx, props, ["Charging/CorrServers.v"])
    ok, log = go_build(["diamsim"])
    if not ok:
        raise RuntimeError("harness build failed:\n" + log[-3000:])
    rng = random.Random(ctx.seed * 7919 + (7 if pid == "C07" else 8))
    quick = ctx.tier == "quick"
    samples, classes = [], {}
    lines, meta = [], []
    if pid == "C07":
        nh = 40 if quick else 600
        hists = []
        for h in range(nh):
            accounts, ops = gen_abmf_history(rng, h + 1, rng.choice([3, 6, 10, 16]))
            for (supi, ue, rg, quota, cost) in accounts:
                lines.append({"op": "account", "supi": supi, "rg": rg, "quota": str(quota), "unitCost": cost})
                meta.append(("acc", h))
            for (op, ue) in ops:
                lines.append(op)
                meta.append(("ccr", h))
            hists.append((accounts, ops))
        res = run_diamsim(ctx, lines)
        # split results per history
        cases, k = [], 0
        nsteps = 0
        for h, (accounts, ops) in enumerate(hists):
            k += len(accounts)
            dbs = coq_list("mkDoc %d %d (%d) %s" % (ue, rg, quota, zl(cost)) for (supi, ue, rg, quota, cost) in accounts)
            steps = []
            prev_op = None
            for (op, ue) in ops:
                o = res[k]
                k += 1
                nsteps += 1
                qs = [int(o["db"]["%s|%d" % (supi, rg)]["quota"]) for (supi, _, rg, _, _) in accounts]
                req = None if op["requested"] is None else int(op["requested"])
                used = None if op["used"] is None else int(op["used"])
                c = "(mkCcr true %d %s %d %d %d %d %s %s %s)" % (ue, "false" if op.get("omitMscc") else "true", op["rg"], op["action"],
                                                               op["reqType"], op["reqNum"], op["sessionId"], optz(req), optz(used))
                steps.append("(%s, %s, %s)" % (c, parse_cca(o), coq_list("(%d)" % q for q in qs)))
                cls = "a%d-t%d-%s" % (op["action"], op["reqType"], "ans" if o.get("answered") else "noans")
                classes[cls] = classes.get(cls, 0) + 1
                if prev_op is not None and prev_op["sessionId"] == op["sessionId"]:
                    sc = "same-session" + ("-same-number" if prev_op["reqNum"] == op["reqNum"] else "") + \
                         ("-other-account" if (prev_op["supi"], prev_op["rg"]) != (op["supi"], op["rg"]) else "")
                    classes[sc] = classes.get(sc, 0) + 1
                prev_op = op
            cases.append("mkAcase %d %s %s" % (h, dbs, coq_list(steps)))
            if h < 2:
                samples.append({"accounts": [(a[0], a[2], a[3]) for a in accounts], "ops": [o for (o, _) in ops][:6]})
        evals, distinct = nsteps, len({json.dumps(o, sort_keys=True) for (_, ops) in hists for (o, _) in ops})
        runner, rec = "run_abmf", "abmf_case"
        index = {h: {"ops": [o for (o, _) in hists[h][1]], "accounts": [(a[0], a[2], a[3]) for a in hists[h][0]]} for h in range(nh)}
    else:
        n = 250 if quick else 4000
        cases, reqs = [], []
        for i in range(n):
            ue = 500000 + i
            supi = "imsi-2089300%08d" % ue
            cost = rng.choice(COSTS) if rng.random() < 0.8 else str(rng.randrange(1, 10 ** rng.choice([1, 3, 6, 10])))
            lines.append({"op": "account", "supi": supi, "rg": 1, "quota": "1000", "unitCost": cost})
            subtype = rng.choice([1, 1, 1, 2, 2, 3, 0])
            try:
                cnum = int(cost)
            except Exception:
                cnum = 7
            cnum = abs(cnum) or 1
            amt = rng.choice([0, 1, cnum - 1, cnum, cnum + 1, 2 ** 32 - 1, (2 ** 32) // cnum, (2 ** 32) // cnum + 1, rng.randrange(0, 5000), rng.randrange(0, 2 ** 32)])
            amt = max(0, min(amt, 2 ** 32 - 1))
            known = rng.random() > 0.04
            rsupi, rue = (supi, ue) if known else ("imsi-2089377%08d" % ue, ue + 10 ** 7)
            op = {"op": "sur", "supi": rsupi, "rg": 1, "subType": subtype, "consumed": amt if subtype == 2 else 0,
                  "quota": amt if subtype != 2 else 0, "sessionId": str(rng.randrange(0, 10 ** 9))}
            lines.append(op)
            reqs.append((ue, rue, cost, op))
        res = run_diamsim(ctx, lines)
        for i, (ue, rue, cost, op) in enumerate(reqs):
            o = res[2 * i + 1]
            s = "(mkSur true %d true 1 %d %d %d %s)" % (rue, op["subType"], op["consumed"], op["quota"], op["sessionId"])
            cases.append("mkRcase %d %s %s %s" % (i, coq_list(["mkDoc %d 1 1000 %s" % (ue, zl(cost))]), s, parse_sua(o)))
            cls = "cost=%r sub=%d %s" % (cost if cost in COSTS else "digits", op["subType"], "ans" if o.get("answered") else "noans")
            classes[cls] = classes.get(cls, 0) + 1
            if i < 4:
                samples.append({"unitCost": cost, "request": op})
        # CHF side: what getUnitCost makes of the same tariffs (observed as ChfUe.UnitCost after an update),
        # next to the cost the server applies (price of one consumed unit)
        ucosts = COSTS + [str(rng.randrange(1, 10 ** rng.choice([1, 3, 6, 10]))) for _ in range(6 if quick else 60)]
        cs_ops, ds_ops = [], []
        for j, cost in enumerate(ucosts):
            supi = "imsi-2089388%08d" % j
            bodyc = {"subscriberIdentifier": supi, "nfConsumerIdentification": {"nFName": "smf", "nodeFunctionality": "SMF"},
                     "invocationSequenceNumber": 1, "notifyUri": "$NOTIFY/cb", "chargingId": 1,
                     "multipleUnitUsage": [{"ratingGroup": 1, "requestedUnit": {"totalVolume": 1},
                                            "usedUnitContainer": [{"quotaManagementIndicator": "ONLINE_CHARGING", "totalVolume": 0, "localSequenceNumber": 1}]}]}
            cs_ops += [{"op": "account", "supi": supi, "rg": 1, "quota": "100000", "unitCost": cost}, {"op": "create", "body": bodyc}]
            ds_ops += [{"op": "account", "supi": supi, "rg": 1, "quota": "100000", "unitCost": cost},
                       {"op": "sur", "supi": supi, "rg": 1, "subType": 2, "consumed": 1, "quota": 0, "sessionId": "1"}]
        okb, logb = go_build(["chargesim"])
        if not okb:
            raise RuntimeError("harness build failed:\n" + logb[-3000:])
        r1 = run_chargesim(ctx, cs_ops)
        upd = []
        for j, cost in enumerate(ucosts):
            loc = r1[2 * j + 1].get("location", "")
            b2 = dict(cs_ops[2 * j + 1]["body"]); b2["invocationSequenceNumber"] = 2
            upd.append({"op": "update", "ref": loc.rsplit("/", 1)[-1], "body": b2})
        r2 = run_chargesim(ctx, cs_ops + upd)
        rd = run_diamsim(ctx, ds_ops)
        ucases = []
        for j, cost in enumerate(ucosts):
            supi = "imsi-2089388%08d" % j
            o = r2[len(cs_ops) + j]
            chf = ((o.get("ues") or {}).get(supi) or {}).get("unitCost", {}).get("1", -1)
            od = rd[2 * j + 1]
            srv = -1
            if od.get("answered") and od.get("answer"):
                srv = int(((od["answer"].get("ServiceRating") or {}).get("Price", -1)))
            ucases.append("mkUcase %d %s (%d) (%d)" % (n + j, zl(cost), chf, srv))
            index_extra = None
        evals, distinct = n + len(ucosts), len({(c, json.dumps(o, sort_keys=True)) for (_, _, c, o) in reqs}) + len(set(ucosts))
        runner, rec = "run_rf", "rf_case"
        index = {i: {"unitCost": reqs[i][2], "request": reqs[i][3]} for i in range(n)}
        for j, cost in enumerate(ucosts):
            index[n + j] = {"unitCost": cost, "request": "chargesim: account, create, update (ChfUe.UnitCost) / diamsim: debit of 1 unit"}
    shards = 8
    files = []
    for sidx in range(shards):
        fn = "DiamCases%d.v" % sidx
        with open(os.path.join(ctx.workdir, fn), "w") as f:
            f.write(HEADER + "Definition cases : list %s := [\n" % rec + ";\n".join(cases[sidx::shards]) +
                    "\n].\nDefinition M := Eval vm_compute in %s cases.\nPrint M.\n" % runner)
        files.append(fn)
    if pid == "C08":
        with open(os.path.join(ctx.workdir, "UcostCases.v"), "w") as f:
            f.write(HEADER + "Definition cases : list ucase := [\n" + ";\n".join(ucases) +
                    "\n].\nDefinition M := Eval vm_compute in run_ucost cases.\nPrint M.\n")
        files.append("UcostCases.v")
    okc, mism, logs = run_case_files(files, ctx.workdir)
    if not okc and ctx.proof_broken is None:
        raise RuntimeError("case evaluation failed:\n" + "\n".join(logs)[:3000])
    by_code = {}
    for t in mism:
        by_code.setdefault(t[2], []).append(t)
    mon = [3, 31] if pid == "C07" else [6, 9, 10]
    corr = [1, 2] if pid == "C07" else [5, 8]
    found = False
    for code in mon:
        if code in by_code:
            cid, step, _ = min(by_code[code])
            r = {"property": pid, "key": KNOWN_KEYS.get(code, "%s/code%d" % (pid, code)), "seed": ctx.seed, "tier": ctx.tier,
                 "case": cid, "step": step, "meaning": CODES[code], "history": index.get(cid), "found_input": True,
                 "what": "%s (history %d step %d)" % (CODES[code], cid, step)}
            ctx.violations.append(r)
            if code not in KNOWN_KEYS:
                found = True
    cb = [c for c in corr if c in by_code]
    if not found and (cb or ctx.proof_broken):
        if cb:
            cid, step, _ = min(by_code[cb[0]])
            r = {"property": pid, "key": "%s/corr%d" % (pid, cb[0]), "seed": ctx.seed, "tier": ctx.tier, "case": cid, "step": step,
                 "history": index.get(cid), "broken": "correspondence Charging/CorrServers.v code %d" % cb[0],
                 "what": "correspondence broken: %s (history %d step %d)" % (CODES[cb[0]], cid, step)}
        else:
            r = {"property": pid, "key": pid + "/proof", "broken": ctx.proof_broken["where"], "log": ctx.proof_broken["log"],
                 "what": "proof obligation no longer checks at " + ctx.proof_broken["where"]}
        r["found_input"] = False
        ctx.violations.append(r)
    cov.update({
        "evaluations": evals, "distinct_nontrivial": distinct,
        "rule": ("C07: histories of 3..16 CCRs over 1..3 accounts; action x type pairs weighted towards reserve/terminate/refund; amounts 0,1,bal-1,bal,bal+1,"
                 "2^32+-1,2^63-1,random; balances 0,1,5,100,1000,2^32+1,2^62,2^63-1, few negative; unknown subscriber / rating group; missing MSCC; 40 % of the requests continue the previous request's Diameter session "
                 "(same Session-Id, mostly the same CC-Request-Number, often the same type and amount, on the same or another account: counted as same-session* below). "
                 "C08: one account per request with unit-cost strings from a fixed adversarial list (0, empty, '.', text, signs, fractions, leading zeros, "
                 "20 digits, 2^32...) or random digit strings; consumed/quota at 0,1,cost-1,cost,cost+1,2^32-1,2^32/cost(+1),random; sub-types reserve/debit/other; "
                 "unknown subscriber. distinct = distinct request contents; every request reaches the real handler over Diameter"),
        "samples": samples, "input_distribution": classes,
        "mismatches": {str(k): len(v) for k, v in by_code.items()},
    })
    return finish(ctx, "proof", cov, assumptions=[
        "fake MongoDB (equality filter, $set) stands for MongoDB; go-diameter codec assumed to carry values intact (C17)",
        "float64->integer conversion of math.Pow10 as compiled for amd64 (exact up to 10^18, 0 / MinInt64 beyond)",
        "subscriber identities abstracted to numbers; Session-Id values are decimal strings",
    ])
