"""C17: Diameter field fidelity and dictionary coverage.
Translator: harness/cmd/dictgen regenerates coq/Diam/DictGen.v (dictionaries as loaded, avp tags of the four
message structs, application and command codes) from /repo; the theorems of Diam/PropsC17.v are re-checked
against it.  Correspondence: harness/cmd/diamcorr sends random and boundary struct values through the real
Marshal -> WriteTo -> ReadMessage -> Unmarshal and the model must give the same octets and the same received
value; the monitor compares received with sent on the implementation's own output."""
import os
import re
from common import *

CODES = {1: "the model's octets differ from the octets go-diameter wrote", 2: "the model's received value differs from the value Unmarshal built",
         3: "the receiver's struct differs from the struct sent", 4: "generated case outside the theorem's domain"}


def table_report(ctx):
    q = os.path.join(ctx.workdir, "TableQuery.v")
    with open(q, "w") as f:
        f.write("From Coq Require Import List ZArith String.\nFrom Verif Require Import Diam.Avp Diam.DictGen.\nImport ListNotations.\n"
                "Definition P := Eval vm_compute in flat_map (fun m => tag_problems dict_gen app_gen (fst m) (snd m)) msgs_gen.\nPrint P.\n"
                "Definition C := Eval vm_compute in code_clashes dict_gen app_gen.\nPrint C.\n"
                "Definition N := Eval vm_compute in name_clashes dict_gen app_gen.\nPrint N.\n")
    rc, out = sh(["coqc", "-Q", COQ, "Verif", "TableQuery.v"], cwd=ctx.workdir, timeout=600)
    out = re.sub(r"\s+", " ", out)
    def grab(name):
        m = re.search(name + r" = (.*?) : list", out)
        return m.group(1).strip() if m else "?"
    return {"tag_problems": grab("P"), "code_clashes": grab("C"), "name_clashes": grab("N")}


def isolation_stratum(ctx):
    import json
    import p_diam
    ok, log = go_build(["diamsim"])
    if not ok:
        raise RuntimeError("harness build failed:\n" + log[-3000:])
    lines, pairs = [], []
    for k, (req, action, rtype) in enumerate([(300, 0, 2), (1, 0, 2), (4000, 0, 1), (7, 1, 2), (50, 0, 2), (2 ** 32, 0, 2)]):
        a, b = "imsi-20893077%07d" % (2 * k), "imsi-20893077%07d" % (2 * k + 1)
        lines += [{"op": "account", "supi": a, "rg": 1, "quota": "100000", "unitCost": "1"},
                  {"op": "account", "supi": b, "rg": 1, "quota": "500", "unitCost": "1"},
                  {"op": "ccr", "supi": a, "rg": 1, "action": action, "reqType": rtype, "reqNum": k, "sessionId": str(1000 + k), "requested": str(req), "used": None},
                  {"op": "ccr", "supi": b, "rg": 1, "action": 0, "reqType": 2, "reqNum": k + 100, "sessionId": str(2000 + k), "requested": None, "used": None, "omitMscc": True}]
        pairs.append((len(lines) - 1, b, req))
    res = p_diam.run_diamsim(ctx, lines)
    leaks = []
    for (i, b, req) in pairs:
        o = res[i]
        bal = int(o["db"]["%s|1" % b]["quota"])
        ans = o.get("answer") or {}
        mscc = ans.get("MultipleServicesCreditControl") or {}
        granted = (mscc.get("GrantedServiceUnit") or {}).get("CCTotalOctets")
        if bal != 500 or (o.get("answered") and granted not in (None, 0, "0")):
            leaks.append({"subscriber": b, "prev_requested": req, "balance_after": bal, "granted": granted,
                          "what": "granted %s units, balance %d -> %d" % (granted, 500, bal), "ops": lines[i - 3:i + 1]})
    return {"pairs": len(pairs), "leaks": leaks}


def run(ctx, replay=None):
    ok, log = go_build(["dictgen", "diamcorr"])
    if not ok:
        raise RuntimeError("harness build failed:\n" + log[-3000:])
    gen = os.path.join(COQ, "Diam/DictGen.v")
    with Lock("coq"):
        rc, out = sh([os.path.join(HARNESS, "bin", "dictgen"), gen], timeout=300)
    m = re.search(r"avps=(\d+) files=(\d+) structs=(\d+) tags=(\d+) app=(\d+)", out)
    if rc != 0 or not m:
        ctx.violations.append({"property": "C17", "key": "C17/dictionary-does-not-load", "found_input": True,
                               "what": "the dictionaries do not load or a message struct cannot be translated: " + out[-400:]})
        return finish(ctx, "proof", {"obligations": 1, "discharged": 0, "checker_cmd": "dictgen", "trusted_base": TRUSTED_BASE})
    cov = proof_stage(ctx, "Diam/PropsC17.v", ["Diam/Corr.v"])
    cov["regenerated"] = {"Diam/DictGen.v": dict(zip(["avp_definitions", "dictionary_files", "struct_types", "avp_tags", "application"], map(int, m.groups())))}
    n = 400 if ctx.tier == "quick" else 6000
    shards = 16 if ctx.tier == "quick" else 64
    rc, out = sh([os.path.join(HARNESS, "bin", "diamcorr"), str(ctx.seed), str(n), str(shards), ctx.workdir], timeout=1200)
    if rc != 0:
        raise RuntimeError("diamcorr failed:\n" + out[-2000:])
    stats = dict(kv.split("=") for kv in out.split() if "=" in kv)
    found = False
    if ctx.proof_broken is None or os.path.exists(os.path.join(COQ, "Diam/Corr.vo")):
        okc, mism, logs = run_case_files(["DiamCases%d.v" % i for i in range(shards)], ctx.workdir, timeout=1800)
        if not okc and ctx.proof_broken is None:
            raise RuntimeError("case evaluation failed:\n" + "\n".join(logs)[:3000])
    else:
        mism = []
    bycode = {}
    for (cid, code) in mism:
        bycode.setdefault(code, []).append(cid)
    if 4 in bycode:
        raise RuntimeError("generator produced cases outside the theorem's domain: %r" % bycode[4][:5])
    if 3 in bycode:
        found = True
        ctx.violations.append({"property": "C17", "key": "C17/field-not-intact", "found_input": True, "seed": ctx.seed,
                               "what": "%s (case %d of diamcorr; %d such cases)" % (CODES[3], bycode[3][0], len(bycode[3])),
                               "rerun": "harness/bin/diamcorr %d %d %d <dir>; case ids %r" % (ctx.seed, n, shards, bycode[3][:10])})
    if int(stats.get("go_failures", 0)) > 0 and not found:
        found = True
        ctx.violations.append({"property": "C17", "key": "C17/message-not-carried", "found_input": True, "seed": ctx.seed,
                               "what": "Marshal, WriteTo or ReadMessage failed for %s generated in-range messages (marshal-error=%s read-error=%s)" %
                                       (stats.get("go_failures"), stats.get("marshal-error", 0), stats.get("read-error", 0))})
    # ---- end to end, receiver side: what the servers act on is what the request carried, not what an earlier
    # request left behind.  A CCR without Multiple-Services-Credit-Control, sent after a CCR that carried one, must
    # neither be granted units nor move a balance.
    iso = isolation_stratum(ctx)
    cov_iso = {"pairs": iso["pairs"], "leaks": len(iso["leaks"])}
    if iso["leaks"] and not found:
        found = True
        l = iso["leaks"][0]
        ctx.violations.append({"property": "C17", "key": "C17/receiver-keeps-earlier-request", "found_input": True, "seed": ctx.seed,
                               "what": "a credit-control request without Multiple-Services-Credit-Control, sent after one that requested %s units, "
                                       "was %s: the server acted on fields the request did not carry" % (l["prev_requested"], l["what"]),
                               "replay": l})
    if ctx.proof_broken:
        rep = table_report(ctx)
        witness = [k + ": " + v for k, v in rep.items() if v not in ("[]", "?")]
        if witness and not found:
            found = True
            ctx.violations.append({"property": "C17", "key": "C17/tables", "found_input": True,
                                   "what": "the avp tags, dictionaries and codes of /repo are not consistent: " + "; ".join(witness)[:600],
                                   "broken": ctx.proof_broken["where"], "tables": rep})
        elif not found:
            ctx.violations.append({"property": "C17", "key": "C17/proof", "found_input": False,
                                   "what": "theorem no longer checks at " + ctx.proof_broken["where"],
                                   "broken": ctx.proof_broken["where"], "log": ctx.proof_broken["log"]})
    elif not found and (1 in bycode or 2 in bycode):
        c = 1 if 1 in bycode else 2
        ctx.violations.append({"property": "C17", "key": "C17/corr%d" % c, "found_input": False, "seed": ctx.seed,
                               "what": "correspondence broken: %s (case %d)" % (CODES[c], bycode[c][0]),
                               "broken": "correspondence Diam/Corr.v code %d" % c})
    cov["receiver_isolation"] = cov_iso
    cov.update({"evaluations": n, "distinct_nontrivial": n, "exhaustive": False, "mismatches": {str(k): len(v) for k, v in bycode.items()},
                "input_distribution": stats,
                "rule": "values of ServiceUsageRequest/Response and AccountDebitRequest/Response built by reflection from one PRNG: each integer field 0 / max / max-1 / sign bit / "
                        "just below it / 1 / small / random over the full width (Unsigned32/64, Integer32/64, Enumerated), strings empty / 0-23 / 253-260 / 1000-4000 octets of "
                        "text or arbitrary octets, times zero / anywhere in the 32-bit NTP range / outside it / recent, each optional grouped member present (75%) or nil, raw grouped "
                        "members nil as the components leave them; sent through the real Marshal -> WriteTo -> ReadMessage -> Unmarshal with the dictionaries loaded as at start-up",
                "samples": [{"case": 0, "message": "ServiceUsageRequest"}, {"case": 3, "message": "AccountDebitResponse"}]})
    return finish(ctx, "proof", cov, assumptions=[
        "the AVP codec, the dictionary parser and the reflection marshaller are go-diameter's (v3.0.2): modelled in Diam/Avp.v and validated by the correspondence run, not verified",
        "times are compared as the AVP carries them (seconds since 1900 modulo 2^32); raw grouped members (datatype.Grouped) are left empty by all components and are not compared",
        "float, address and IP AVP types and Go conversions between integers and strings are not modelled: the table check forbids them for the message structs"])
