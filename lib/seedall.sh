#!/bin/sh
# regression over the kept seeded changes: applies each patch that still applies to /repo's HEAD, runs the quick check of
# its property, undoes the patch; one line per change.  /repo must be clean.
cd /verif
[ -z "$(git -C /repo status --porcelain)" ] || { echo "/repo is not clean"; exit 2; }
for d in seeded/C*-m*; do
  id=$(basename $d | cut -d- -f1)
  p=$d/patch.diff
  if ! git -C /repo apply --check $PWD/$p 2>/dev/null; then echo "$(basename $d) SKIP (patch no longer applies to HEAD)"; continue; fi
  git -C /repo apply $PWD/$p
  out=$(./check $id --tier quick 2>&1 | grep -E "^(VIOLATION|OK|CHECK-ERROR)" | head -1 | cut -c1-170)
  git -C /repo checkout -- . ; git -C /repo clean -fdq
  echo "$(basename $d) $out"
done
