#!/usr/bin/env python3
"""Rewrites the table of seeded/README.md from the meta.json files."""
import glob, json, os, re
ROOT = os.path.join(os.path.dirname(os.path.abspath(__file__)), "..", "seeded")
p = os.path.join(ROOT, "README.md")
s = open(p).read()
head = s[:s.index("| change | files |")]
rows = ["| change | files | what it breaks | caught by the quick check of |", "|---|---|---|---|"]
def key(d):
    m = re.match(r"C(\d+)-(m(\d+)|common)", d)
    return (int(m.group(1)), int(m.group(3)) if m.group(3) else 0)
for d in sorted([os.path.basename(x) for x in glob.glob(os.path.join(ROOT, "C*-m*"))], key=key):
    j = json.load(open(os.path.join(ROOT, d, "meta.json")))
    w = (j.get("what_it_breaks") or "").replace("|", "/").replace("\n", " ")[:230]
    rows.append("| %s | %s | %s | %s |" % (d, ", ".join(j.get("files_changed", [])), w, ", ".join(j.get("detected_by_checks", []))))
open(p, "w").write(head + "\n".join(rows) + "\n")
print(len(rows) - 2, "rows")
