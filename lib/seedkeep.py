#!/usr/bin/env python3
"""usage: lib/seedkeep.py <id> <k> <detected-by (comma list or none)> <confirm line>
copies /tmp/seeds/<id>/m<k> to /verif/seeded/<id>-m<k>/ and completes meta.json"""
import json, os, shutil, sys
pid, k, det, conf = sys.argv[1], sys.argv[2], sys.argv[3], sys.argv[4]
src = "/tmp/seeds/%s/m%s" % (pid, k)
dst = "/verif/seeded/%s-m%s" % (pid, k)
shutil.rmtree(dst, ignore_errors=True)
shutil.copytree(src, dst)
mp = os.path.join(dst, "meta.json")
m = json.load(open(mp)) if os.path.exists(mp) else {}
m["property"] = pid
m["confirmed_by_me"] = {"ran": "lib/seedconfirm.sh (apply, go build ./..., go test -vet=off -count=1 ./..., run_demo.sh with and without the patch) in a scratch worktree",
                        "result": conf}
m["detected_by_checks"] = [] if det == "none" else det.split(",")
m["checked_with"] = "lib/seedtest.sh patch.diff <ids> (git apply in /repo, ./check <id> --tier quick, git checkout -- .)"
json.dump(m, open(mp, "w"), indent=1)
print("kept", dst)
