#!/bin/sh
# usage: lib/seedtest.sh <patch.diff> <property id>...   applies the patch to /repo, runs the quick checks, undoes it
P=$1; shift
cd /repo && git apply "$P" || { echo "patch does not apply"; exit 3; }
cd /verif
for id in "$@"; do
  out=$(./check $id --tier quick 2>&1 | grep -E "^(VIOLATION|OK|KNOWN|CHECK-ERROR)" | head -5)
  echo "[$id] $out"
done
cd /repo && git checkout -- . && git status --short | head -3
