"""C13: OAuth2 on every route.  Translator + exhaustive probe: harness/cmd/routeprobe builds the
real gin engine for all 16 service lists, writes coq/Router/RoutesGen.v (Engine.Routes() and the
status answered to every route x bad-token kind); the theorems of Router/PropsC13.v are re-checked
against that table."""
import os
import re
from common import *


def run(ctx, replay=None):
    ok, log = go_build(["routeprobe"])
    if not ok:
        raise RuntimeError("harness build failed:\n" + log[-3000:])
    gen = os.path.join(COQ, "Router/RoutesGen.v")
    with Lock("coq"):
        rc, out = sh([os.path.join(HARNESS, "bin", "routeprobe"), ctx.workdir, gen], timeout=600)
    m = re.search(r"lists=(\d+) routes=(\d+) probes=(\d+) not401=(\d+) control_ok=(\d+)", out)
    if rc != 0 or not m:
        # the engine could not even be built (e.g. a panic in newRouter): that is a failing configuration
        ctx.violations.append({"property": "C13", "key": "C13/router-build", "found_input": True,
                               "what": "newRouter failed while building the engine for the 16 service lists: " + out[-400:]})
        return finish(ctx, "proof", {"obligations": 1, "discharged": 0, "checker_cmd": "routeprobe", "trusted_base": TRUSTED_BASE})
    lists, routes, probes, not401, control = map(int, m.groups())
    cov = proof_stage(ctx, "Router/PropsC13.v")
    cov["regenerated"] = {"Router/RoutesGen.v": {"service_lists": lists, "routes": routes, "probes": probes}}
    if not401 > 0 or control == 0:
        # find the first offending probe in the generated table
        txt = open(gen).read()
        bad = re.findall(r'\("(\w+)", "([^"]+)", "([^"]+)", (\d+)%Z\)', txt)
        bad = [b for b in bad if b[3] != "401"]
        ctx.violations.append({"property": "C13", "key": "C13/route-not-protected", "found_input": True,
                               "what": ("unauthenticated request answered %s%s: %s %s with mode/token kind %s" % (int(bad[0][3]) % 1000, " but a handler behind the check ran" if int(bad[0][3]) >= 1000 else "", bad[0][0], bad[0][1], bad[0][2])) if bad
                               else "positive control failed: a token signed by the NRF key was not accepted",
                               "probe": bad[:5], "rerun": "./check C13"})
    elif ctx.proof_broken:
        # the route table no longer matches the model: look for a route outside the protected set
        ctx.violations.append({"property": "C13", "key": "C13/proof", "found_input": False,
                               "what": "route table of the real engine no longer satisfies the theorems at " + ctx.proof_broken["where"],
                               "broken": ctx.proof_broken["where"], "log": ctx.proof_broken["log"]})
    cov.update({"evaluations": probes, "distinct_nontrivial": probes, "exhaustive": True,
                "rule": "all 16 duplicate-free ordered lists over the three service names x 3 modes (router built before the NRF registration sets OAuth2Required, "
                        "as at start-up; flag set before the router is built; flag set with no NRF certificate configured) x every (method, path) of Engine.Routes() x 11 bad-token kinds "
                        "(absent, garbage, alg none, HS256, RS512 foreign key, RS256 right key, missing Bearer prefix, Basic scheme, foreign-key token under scheme Token, Bearer without credentials, one word), real RSA NRF key, real processor behind the routes; "
                        "refused = status 401, body is the single problem object, no handler wrote after the check, planted subscriber context untouched, no notification sent; "
                        "positive control: a token signed by the NRF key passes on the greeting routes",
                "samples": [["GET", "/nchf-convergedcharging/v3/", "startup-order/absent", 401], ["PUT", "/nchf-convergedcharging/v3/recharging/:rechargingInfo", "no-nrf-certificate/rs512-wrong-key", 401]],
                "positive_controls_passed": control})
    return finish(ctx, "proof", cov, assumptions=[
        "verify_token stands for oauth.VerifyOAuth (github.com/free5gc/openapi); gin's routing and Abort semantics are exercised, not modelled",
        "a handler that ran would dereference the nil processor of the probe application and answer 500, not 401"])
