"""C20: validated configurations start without crashing; invalid ones are rejected.
Translator: harness/cmd/tagsgen regenerates coq/Config/TagsGen.v (struct tags of pkg/factory).
Correspondence: configurations from the presence lattice of sections and fields, each given to a child
process (harness/cmd/cfgprobe: factory.ReadConfig, then service.NewApp + Start against a stub NRF);
the model (Config/Model.v: validate, start) must predict rejected / started / crashed."""
import copy
import itertools
import os
import random
import re
import subprocess
from concurrent.futures import ThreadPoolExecutor
from common import *

SECTIONS = ["info", "logger", "configuration", "sbi", "sbi.tls", "mongodb", "rfDiameter", "rfDiameter.tls",
            "abmfDiameter", "abmfDiameter.tls", "cgf", "cgf.tls", "cgf.passiveTransferPortRange"]
SERVICES = {"c": ["nchf-convergedcharging"], "cc": ["nchf-convergedcharging", "nchf-convergedcharging"],
            "cos": ["nchf-convergedcharging", "nchf-offlineonlycharging", "nchf-spendinglimitcontrol"],
            "oso": ["nchf-offlineonlycharging", "nchf-spendinglimitcontrol", "nchf-offlineonlycharging"],
            "foo": ["nchf-foo"], "cfoo": ["nchf-convergedcharging", "nchf-foo"], "none": None, "empty-string": [""]}
OUT = {"rejected": 0, "started": 1, "crashed": 2}


def baseline(ports):
    tls = lambda: {"pem": "cert/chf.pem", "key": "cert/chf.key"}
    return {
        "info": {"version": "1.0.3", "description": "CHF configuration"},
        "configuration": {
            "chfName": "CHF",
            "sbi": {"scheme": "http", "registerIPv4": "127.0.0.1", "bindingIPv4": "127.0.0.1", "port": ports[0], "tls": tls()},
            "nrfUri": "http://127.0.0.1:%d" % ports[1], "nrfCertPem": "cert/nrf.pem",
            "serviceNameList": ["nchf-convergedcharging"],
            "mongodb": {"name": "free5gc", "url": "mongodb://127.0.0.1:27017"},
            "quotaValidityTime": 10000, "volumeLimit": 50000, "volumeLimitPDU": 10000, "volumeThresholdRate": 0.8,
            "cgf": {"enable": False, "hostIPv4": "127.0.0.1", "port": ports[2], "listenPort": ports[3],
                    "passiveTransferPortRange": {"start": ports[6], "end": ports[6] + 3}, "tls": tls(), "cdrFilePath": "/tmp"},
            "abmfDiameter": {"protocol": "tcp", "hostIPv4": "127.0.0.1", "port": ports[4], "tls": tls()},
            "rfDiameter": {"protocol": "tcp", "hostIPv4": "127.0.0.1", "port": ports[5], "tls": tls()},
        },
        "logger": {"enable": True, "level": "info", "reportCaller": False},
    }


def path_of(sec):
    if sec in ("info", "logger", "configuration"):
        return [sec]
    return ["configuration"] + sec.split(".")


def delete(cfg, path):
    d = cfg
    for k in path[:-1]:
        d = d.get(k)
        if not isinstance(d, dict):
            return
    d.pop(path[-1], None)


def setv(cfg, path, val):
    d = cfg
    for k in path[:-1]:
        d = d.get(k)
        if not isinstance(d, dict):
            return
    if val is None:
        d.pop(path[-1], None)
    else:
        d[path[-1]] = val


def yaml_text(v, ind=0):
    out = []
    for k, x in v.items():
        if isinstance(x, dict):
            out.append(" " * ind + "%s:" % k)
            out.append(yaml_text(x, ind + 2))
        elif isinstance(x, list):
            out.append(" " * ind + "%s:" % k)
            for e in x:
                out.append(" " * ind + "  - %s" % ('""' if e == "" else e))
        elif isinstance(x, bool):
            out.append(" " * ind + "%s: %s" % (k, "true" if x else "false"))
        elif isinstance(x, str):
            out.append(" " * ind + '%s: "%s"' % (k, x))
        else:
            out.append(" " * ind + "%s: %s" % (k, x))
    return "\n".join(l for l in out if l != "")


LEAF_VARIANTS = [
    (["info", "version"], ["1.0.2", None, ""]), (["logger", "level"], ["loud", None]), (["logger", "enable"], [False, None]),
    (["configuration", "chfName"], [None, ""]), (["configuration", "nrfUri"], [None, "not a url", ""]),
    (["configuration", "nrfCertPem"], [None]),
    (["configuration", "sbi", "registerIPv4"], [None, "not a host!", "localhost"]), (["configuration", "sbi", "bindingIPv4"], [None, "999.1.1.1"]),
    (["configuration", "sbi", "port"], [None, 0, 70000, -1]), (["configuration", "sbi", "tls", "pem"], [None, ""]), (["configuration", "sbi", "tls", "key"], [None]),
    (["configuration", "mongodb", "name"], [None]), (["configuration", "mongodb", "url"], [None, "garbage", "mongodb://"]),
    (["configuration", "rfDiameter", "protocol"], [None, "sctp"]), (["configuration", "rfDiameter", "hostIPv4"], [None, "bad host"]),
    (["configuration", "rfDiameter", "port"], [None, 0, 65536]), (["configuration", "rfDiameter", "tls", "pem"], [None, ""]),
    (["configuration", "rfDiameter", "tls", "key"], [None]),
    (["configuration", "abmfDiameter", "protocol"], [None]), (["configuration", "abmfDiameter", "hostIPv4"], [None]),
    (["configuration", "abmfDiameter", "port"], [None, 0]), (["configuration", "abmfDiameter", "tls", "key"], [None, ""]),
    (["configuration", "cgf", "enable"], [True, None]), (["configuration", "cgf", "hostIPv4"], [None, "bad host"]), (["configuration", "cgf", "port"], [None, 0]),
    (["configuration", "cgf", "listenPort"], [None, 70000]), (["configuration", "cgf", "cdrFilePath"], [None]),
    (["configuration", "cgf", "passiveTransferPortRange", "start"], [None, 0]), (["configuration", "cgf", "passiveTransferPortRange", "end"], [None, 99999]),
    (["configuration", "cgf", "tls", "pem"], [None]),
    (["configuration", "volumeLimit"], [None, 0]), (["configuration", "volumeThresholdRate"], [None]),
]


def variants(tier, rng):
    """list of (description, mutations) - mutations: list of (path, value|None=absent)"""
    out = []
    def removal(secs):
        return [(path_of(s), None) for s in secs]
    if tier == "quick":
        subsets = [()] + [(s,) for s in SECTIONS] + list(itertools.combinations(SECTIONS, 2))
        subsets += [tuple(rng.sample(SECTIONS, rng.randint(3, 6))) for _ in range(40)]
        schemes = ["http", "https"]
    else:
        subsets = [tuple(s for i, s in enumerate(SECTIONS) if m >> i & 1) for m in range(1 << len(SECTIONS))]
        schemes = ["http", "https", "ftp", None]
    for sub in subsets:
        for sch in schemes:
            for svc in (["c"] if tier == "quick" else ["c", "cc", "foo"]):
                out.append(("absent=%s scheme=%s services=%s" % (",".join(sub) or "-", sch, svc),
                            removal(sub) + [(["configuration", "sbi", "scheme"], sch), (["configuration", "serviceNameList"], SERVICES[svc])]))
    # scheme and service-name variants on the complete configuration and with the optional blocks absent
    for sch in ["http", "https", "ftp", "HTTPS", "", None]:
        for svc in SERVICES:
            for sub in [(), ("sbi.tls",), ("cgf.tls",), ("sbi.tls", "cgf.tls")]:
                out.append(("absent=%s scheme=%s services=%s" % (",".join(sub) or "-", sch, svc),
                            removal(sub) + [(["configuration", "sbi", "scheme"], sch), (["configuration", "serviceNameList"], SERVICES[svc])]))
    # one leaf altered or removed, cgf on and off
    for path, vals in LEAF_VARIANTS:
        for v in vals:
            for en in ([False, True] if path[1:2] == ["cgf"] or tier != "quick" else [False]):
                muts = [(path, v)]
                if path != ["configuration", "cgf", "enable"]:
                    muts.append((["configuration", "cgf", "enable"], en))
                out.append(("%s=%r cgf.enable=%s" % (".".join(path), v, en), muts))
    # cgf enabled with sections absent
    for sub in [(), ("cgf.tls",), ("cgf.passiveTransferPortRange",), ("sbi.tls",)]:
        out.append(("cgf.enable=True absent=%s" % (",".join(sub) or "-"), removal(sub) + [(["configuration", "cgf", "enable"], True)]))
    seen, res = set(), []
    for d, m in out:
        if d not in seen:
            seen.add(d)
            res.append((d, m))
    return res


def run_child(args):
    idx, desc, muts, workdir = args
    base = 21000 + (idx % 3500) * 12
    ports = [base + i for i in range(7)]
    cfg = baseline(ports)
    # removals of whole sections first (a leaf under a removed section stays removed)
    for path, val in muts:
        setv(cfg, path, copy.deepcopy(val))
    fn = os.path.join(workdir, "cfg%d.yaml" % idx)
    with open(fn, "w") as f:
        f.write(yaml_text(cfg) + "\n")
    env = dict(os.environ, GIN_MODE="release")
    try:
        p = subprocess.run([os.path.join(HARNESS, "bin", "cfgprobe"), fn, str(ports[1]), "700"], capture_output=True, text=True, timeout=60, env=env, cwd=workdir)
        out, err, rc = p.stdout, p.stderr, p.returncode
    except subprocess.TimeoutExpired:
        out, err, rc = "", "timeout", -9
    cval, so, io = None, [], []
    outcome = "crashed"
    for line in out.splitlines():
        if line.startswith("CVAL "):
            cval = line[5:]
        elif line.startswith("ORACLE "):
            m = re.match(r'ORACLE \("(\w+)", ("(?:[^"]|"")*"), (true|false)\)', line)
            if m and m.group(1) == "port":
                io.append("((%s), %s)" % (m.group(2).strip('"'), m.group(3)))
            elif m:
                so.append('("%s", %s, %s)' % (m.group(1), m.group(2), m.group(3)))
        elif line.startswith("REJECTED"):
            outcome = "rejected"
        elif line.startswith("STARTED") and rc == 0:
            outcome = "started"
    panic = ""
    if outcome == "crashed":
        if "panic" not in (out + err).lower():
            # the crash went through logger.Fatalf: run once more with the log on to see where
            try:
                p2 = subprocess.run([os.path.join(HARNESS, "bin", "cfgprobe"), fn, str(ports[1]), "700"], capture_output=True, text=True,
                                    timeout=60, env=dict(env, CFGPROBE_VERBOSE="1"), cwd=workdir)
                out, err = out + p2.stdout, err + p2.stderr
            except subprocess.TimeoutExpired:
                pass
        pl = [l for l in (out + "\n" + err).splitlines() if "panic" in l.lower() or "goroutine" in l or ".go:" in l]
        panic = " | ".join(l.strip() for l in pl[:6])[:600]
    os.remove(fn)
    return {"idx": idx, "desc": desc, "outcome": outcome, "cval": cval, "so": so, "io": io, "panic": panic, "yaml": yaml_text(cfg), "rc": rc}


def run(ctx, replay=None):
    ok, log = go_build(["tagsgen", "cfgprobe"])
    if not ok:
        raise RuntimeError("harness build failed:\n" + log[-3000:])
    gen = os.path.join(COQ, "Config/TagsGen.v")
    with Lock("coq"):
        rc, out = sh([os.path.join(HARNESS, "bin", "tagsgen"), gen], timeout=300)
    m = re.search(r"structs=(\d+) fields=(\d+)", out)
    if rc != 0 or not m:
        raise RuntimeError("tagsgen failed:\n" + out[-2000:])
    cov = proof_stage(ctx, "Config/PropsC20.v", ["Config/Corr.v"])
    cov["regenerated"] = {"Config/TagsGen.v": {"struct_types": int(m.group(1)), "fields": int(m.group(2))}}
    rng = random.Random(ctx.seed * 7919 + 20)
    vs = variants(ctx.tier, rng)
    with ThreadPoolExecutor(max_workers=16) as ex:
        res = list(ex.map(run_child, [(i, d, mu, ctx.workdir) for i, (d, mu) in enumerate(vs)]))
    dist = {}
    for r in res:
        dist[r["outcome"]] = dist.get(r["outcome"], 0) + 1
    unparsed = [r for r in res if r["cval"] is None]
    # ---- monitor: the property on the implementation's own behaviour
    crashed = [r for r in res if r["outcome"] == "crashed" and r["cval"] is not None]
    must_reject = []
    for r in res:
        d = r["desc"]
        bad_scheme = re.search(r"scheme=(ftp|HTTPS)\b", d) and "absent=-" in d
        bad_service = re.search(r"services=(foo|cfoo)\b", d) and "absent=-" in d
        missing = re.match(r"absent=(info|logger|configuration|sbi|mongodb|rfDiameter|abmfDiameter|cgf)(,|\s)", d)
        if (bad_scheme or bad_service or missing) and r["outcome"] != "rejected":
            must_reject.append(r)
    # ---- correspondence
    shards = 16 if ctx.tier == "quick" else 64
    files = []
    good = [r for r in res if r["cval"] is not None]
    for s in range(shards):
        part = good[s::shards]
        if not part:
            continue
        fn = "CfgCases%d.v" % s
        with open(os.path.join(ctx.workdir, fn), "w") as f:
            f.write("From Coq Require Import String List ZArith.\nFrom Verif Require Import Config.Model Config.TagsGen Config.Corr.\nImport ListNotations.\nOpen Scope Z_scope.\nOpen Scope string_scope.\n"
                    "Definition cases : list ccase := [\n" +
                    ";\n".join("mkCcase %d (%s) [%s] [%s] %d" % (r["idx"], r["cval"], "; ".join(r["so"]), "; ".join(r["io"]), OUT[r["outcome"]]) for r in part) +
                    "\n].\nDefinition M := Eval vm_compute in run_cfg cases.\nPrint M.\n")
        files.append(fn)
    mism = []
    if ctx.proof_broken is None or os.path.exists(os.path.join(COQ, "Config/Corr.vo")):
        okc, mism, logs = run_case_files(files, ctx.workdir, timeout=3000)
        if not okc and ctx.proof_broken is None:
            raise RuntimeError("case evaluation failed:\n" + "\n".join(logs)[:3000])
    byidx = {r["idx"]: r for r in res}
    found = False
    seen = set()
    for r in crashed:
        where = re.search(r"([\w/]+\.go:\d+)", r["panic"] or "")
        key = "C20/accepted-configuration-crashes"
        if key in seen:
            continue
        seen.add(key)
        found = True
        ctx.violations.append({"property": "C20", "key": key, "found_input": True,
                               "what": "a configuration accepted by validation crashes the start-up (%s): %s" % (r["desc"], (r["panic"] or "exit status %s" % r["rc"])[:300]),
                               "replay": {"config_yaml": r["yaml"], "crash": r["panic"], "rerun": "harness/bin/cfgprobe <file> <free port>"},
                               "others": [x["desc"] for x in crashed[1:12]]})
    for r in must_reject[:1]:
        found = True
        ctx.violations.append({"property": "C20", "key": "C20/invalid-configuration-accepted", "found_input": True,
                               "what": "a configuration that must be rejected was %s (%s)" % (r["outcome"], r["desc"]),
                               "replay": {"config_yaml": r["yaml"]}, "others": [x["desc"] for x in must_reject[1:12]]})
    if not found and ctx.proof_broken:
        ctx.violations.append({"property": "C20", "key": "C20/proof", "found_input": False,
                               "what": "theorem no longer checks at " + ctx.proof_broken["where"], "broken": ctx.proof_broken["where"], "log": ctx.proof_broken["log"]})
    elif not found and mism:
        (cid, mo, so_) = mism[0]
        r = byidx.get(cid, {})
        names = {0: "rejected", 1: "started", 2: "crashed", 3: "unknown"}
        ctx.violations.append({"property": "C20", "key": "C20/corr", "found_input": False,
                               "what": "correspondence broken: the model says %s, the CHF %s (%s); %d disagreements" % (names.get(mo), names.get(so_), r.get("desc"), len(mism)),
                               "broken": "correspondence Config/Corr.v", "replay": {"config_yaml": r.get("yaml")}})
    if unparsed and not ctx.violations:
        raise RuntimeError("child produced no parsed configuration: %r" % [(r["desc"], r["rc"]) for r in unparsed[:3]])
    cov.update({"evaluations": len(res), "distinct_nontrivial": len({r["cval"] for r in good}), "exhaustive": ctx.tier != "quick",
                "input_distribution": {"outcomes": dist, "sections": SECTIONS},
                "mismatches": len(mism),
                "rule": ("quick: every configuration with no, one or two of the 13 sections/blocks absent x scheme http/https, 40 random larger subsets, "
                         "every scheme x service-list variant with the optional blocks present or absent, every leaf removed or set to a bad value (cgf on and off); "
                         "thorough: all 2^13 subsets of absent sections x scheme (http, https, ftp, absent) x service list (one, duplicate, unknown) plus the same leaf variants. "
                         "Each configuration is one child process: factory.ReadConfig, then service.NewApp and Start against a stub NRF, 0.7 s settle; "
                         "outcome rejected / started / crashed (non-zero exit)"),
                "samples": [{"config": r["desc"], "outcome": r["outcome"]} for r in res[:3] + [x for x in res if x["outcome"] == "started"][:3]]})
    return finish(ctx, "proof", cov, assumptions=[
        "govalidator's leaf validators (IsHost, IsPort, IsURL) and the MongoDB connection-string parser are oracles of the model; their verdicts on the strings of each case come from the real functions",
        "the order and the guards of the start-up reads (Config/Model.v, startup) are transcribed by hand from the code; the lattice run validates them",
        "a listener that cannot bind or a missing certificate file is an ordinary error, not a crash"])
