"""C09: concurrent requests behave like some serial order; no race, crash or deadlock.
Translator: harness/cmd/accessgen regenerates coq/Conc/AccessGen.v (every access to the shared subscriber and
global state with the locks held, the lock acquisitions with the locks already held, the pool operations).
Runtime validation: the real stack built with the race detector, bursts of 2..16 concurrent requests (same
subscriber and rating group: updates on two sessions, a recharge, a release; the same new SUPI: creates;
different subscribers) under GOMAXPROCS 1/2/4/16; after every burst, at quiescence: no race report, no crash,
no hung request, the accounting identity, every reported container recorded exactly once, every acknowledged
session still updatable and releasable."""
import json
import os
import random
import re
import subprocess
from concurrent.futures import ThreadPoolExecutor
from common import *


def body(supi, seq, used, lsn, req, cid=1, rg=1):
    return {"subscriberIdentifier": supi, "nfConsumerIdentification": {"nFName": "smf1", "nodeFunctionality": "SMF"},
            "invocationSequenceNumber": seq, "notifyUri": "$NOTIFY/cb1", "chargingId": cid,
            "multipleUnitUsage": [{"ratingGroup": rg, "requestedUnit": {"totalVolume": req},
                                   "usedUnitContainer": [{"quotaManagementIndicator": "ONLINE_CHARGING", "totalVolume": used, "localSequenceNumber": lsn}]}]}


class Proc:
    def __init__(self, workdir, procs, tag):
        self.d = os.path.join(workdir, "run%s" % tag)
        os.makedirs(self.d, exist_ok=True)
        self.errf = open(os.path.join(self.d, "stderr.txt"), "w")
        env = dict(os.environ, GOMAXPROCS=str(procs), GORACE="halt_on_error=0 history_size=3")
        self.p = subprocess.Popen([os.path.join(HARNESS, "bin", "chargesim-race"), "-dir", self.d, "-timeout", "30s"],
                                  stdin=subprocess.PIPE, stdout=subprocess.PIPE, stderr=self.errf, text=True, bufsize=1, env=env)

    def do(self, op):
        self.p.stdin.write(json.dumps(op) + "\n")
        self.p.stdin.flush()
        while True:
            line = self.p.stdout.readline()
            if not line:
                raise RuntimeError("chargesim-race ended (crash?)")
            if line.startswith("{"):
                return json.loads(line)

    def close(self):
        try:
            self.p.stdin.close()
            rc = self.p.wait(timeout=60)
        except Exception:
            self.p.kill()
            rc = -9
        self.errf.close()
        return rc, open(os.path.join(self.d, "stderr.txt")).read()


def ue(o, supi):
    return (o.get("ues") or {}).get(supi) or {}


def run_one(args):
    idx, procs, k, seed, workdir = args
    rng = random.Random(seed)
    P = Proc(workdir, procs, "%d" % idx)
    problems, bursts, reqs = [], 0, 0
    crashed = False
    try:
        # ---- A: one subscriber, one rating group, two sessions
        a = "imsi-2089300009%05d" % (idx * 10 + 1)
        init = 10 ** 7
        P.do({"op": "account", "supi": a, "rg": 1, "quota": str(init), "unitCost": "1"})
        r1 = P.do({"op": "create", "body": body(a, 1, 0, 1, 100, cid=1)})["location"].rsplit("/", 1)[-1]
        r2 = P.do({"op": "create", "body": body(a, 1, 0, 1, 100, cid=2)})["location"].rsplit("/", 1)[-1]
        P.do({"op": "update", "ref": r1, "body": body(a, 2, 0, 2, 100, cid=1)})
        P.do({"op": "update", "ref": r2, "body": body(a, 2, 0, 2, 100, cid=2)})
        sent = {r1: [], r2: []}
        used_total = 0
        lsn = 100
        for rnd in range(2):
            burst = []
            for i in range(k):
                ref = r1 if i % 2 == 0 else r2
                lsn += 1
                u = rng.choice([0, 3, 7, 20])
                burst.append(({"op": "update", "ref": ref, "body": body(a, lsn, u, lsn, rng.choice([50, 100]), cid=1 if ref == r1 else 2)}, ref, lsn, u))
            extra = [{"op": "recharge", "param": a + "_1"}]
            o = P.do({"op": "burst", "ms": 0, "burst": [b[0] for b in burst] + extra})
            bursts += 1
            reqs += len(burst) + 1
            for (b, ref, l, u), s in zip(burst, o["sub"]):
                if s.get("hung") or s["status"] != 200:
                    problems.append(("request-failed", "update in burst answered %s hung=%s" % (s["status"], s.get("hung"))))
                else:
                    sent[ref].append(l)
                    used_total += u
            if o["sub"][-1]["status"] != 204:
                problems.append(("request-failed", "recharge in burst answered %s" % o["sub"][-1]["status"]))
            st = ue(o, a)
            bal = int(o["db"][a + "|1"]["quota"])
            res = int((st.get("reserved") or {}).get("1", 0))
            if bal + res != init - used_total:
                problems.append(("accounting-identity", "subscriber %s: balance %d + reserved %d != %d - rated usage %d after %d concurrent updates" % (a, bal, res, init, used_total, k)))
            for ref in (r1, r2):
                got = sorted(e[5] for r in st.get("records", []) if r["sessionId"] == ref for e in r["usages"] if e[5] >= 100)
                if got != sorted(sent[ref]):
                    problems.append(("usage-not-exactly-once", "session %s: containers recorded %r, reported %r" % (ref, got[:12], sorted(sent[ref])[:12])))
        # release one session while the other is being updated
        burst = [{"op": "release", "ref": r2, "body": body(a, 900, 1, 900, 0, cid=2)}] + \
                [{"op": "update", "ref": r1, "body": body(a, 901 + i, 1, 901 + i, 50, cid=1)} for i in range(max(1, k - 1))]
        o = P.do({"op": "burst", "ms": 0, "burst": burst})
        bursts += 1
        reqs += len(burst)
        if o["sub"][0]["status"] != 204 or any(s["status"] != 200 or s.get("hung") for s in o["sub"][1:]):
            problems.append(("request-failed", "release/update burst answered %r" % [s["status"] for s in o["sub"]]))
        used_total += len(burst)
        # the release of the other session arrives twice at the same moment (a retransmission): exactly one of the two
        # finds the session, the other is answered 404, and the final usage is rated and recorded once
        rb = body(a, 999, 1, 999, 0, cid=1)
        o = P.do({"op": "burst", "ms": 0, "burst": [{"op": "release", "ref": r1, "body": rb}, {"op": "release", "ref": r1, "body": rb}]})
        bursts += 1
        reqs += 2
        sts = sorted(s["status"] for s in o["sub"])
        if sts != [204, 404] or any(s.get("hung") for s in o["sub"]):
            problems.append(("double-release", "two concurrent releases of %s answered %r (one 204 and one 404 expected)" % (r1, sts)))
        used_total += 1
        got = [e[5] for r in ue(o, a).get("records", []) if r["sessionId"] == r1 for e in r["usages"] if e[5] == 999]
        if len(got) != 1:
            problems.append(("usage-not-exactly-once", "session %s: the container of its release is recorded %d times" % (r1, len(got))))
        bal = int(o["db"][a + "|1"]["quota"])
        res = int((ue(o, a).get("reserved") or {}).get("1", 0))
        if bal + res != init - used_total:
            problems.append(("accounting-identity", "subscriber %s after release: balance %d + reserved %d != %d - %d" % (a, bal, res, init, used_total)))
        # ---- B: k concurrent first requests of one new subscriber (three subscribers), and k creates of a known
        # subscriber arriving while one of its updates holds the lock
        for rep in range(3):
            b = "imsi-2089300009%05d" % (idx * 10 + 2 + rep)
            P.do({"op": "account", "supi": b, "rg": 1, "quota": "100000", "unitCost": "1"})
            burst = [{"op": "create", "body": body(b, 1, 0, 1, 10, cid=100 + i)} for i in range(k)]
            ms = 0
            if rep == 2:
                # the subscriber exists and is busy: a long update (many containers) is started 2 ms before the creates
                r0 = P.do({"op": "create", "body": body(b, 1, 0, 1, 10, cid=99)})["location"].rsplit("/", 1)[-1]
                big = body(b, 2, 0, 2, 10, cid=99)
                big["multipleUnitUsage"][0]["usedUnitContainer"] = [{"quotaManagementIndicator": "ONLINE_CHARGING", "totalVolume": 0, "localSequenceNumber": 10 + j} for j in range(150)]
                burst = [{"op": "update", "ref": r0, "body": big}] + burst
                ms = 2
            o = P.do({"op": "burst", "ms": ms, "burst": burst})
            bursts += 1
            reqs += len(burst)
            subs_c = [s for s, q in zip(o["sub"], burst) if q["op"] == "create"]
            refs = [s.get("location", "").rsplit("/", 1)[-1] for s in subs_c if s["status"] == 201]
            if len(refs) != k or len(set(refs)) != k:
                problems.append(("create-failed", "%d concurrent creates of %s subscriber: statuses %r, %d distinct references"
                                 % (k, "a busy" if rep == 2 else "a new", [s["status"] for s in subs_c], len(set(refs)))))
            for i, ref in enumerate(refs):
                o = P.do({"op": "update", "ref": ref, "body": body(b, 2, 0, 2, 10, cid=100 + i)})
                o2 = P.do({"op": "release", "ref": ref, "body": body(b, 3, 0, 3, 0, cid=100 + i)})
                reqs += 2
                if o["status"] != 200 or o2["status"] != 204:
                    problems.append(("session-lost", "session %s acknowledged to a concurrent create answers update %s, release %s" % (ref, o["status"], o2["status"])))
                    break
        # ---- C: k different subscribers
        subs = ["imsi-20893000%07d" % (idx * 100 + 50 + i) for i in range(k)]
        for s in subs:
            P.do({"op": "account", "supi": s, "rg": 1, "quota": "5000", "unitCost": "1"})
        o = P.do({"op": "burst", "ms": 0, "burst": [{"op": "create", "body": body(s, 1, 0, 1, 100)} for s in subs]})
        crefs = [x.get("location", "").rsplit("/", 1)[-1] for x in o["sub"]]
        if any(x["status"] != 201 for x in o["sub"]):
            problems.append(("create-failed", "creates of different subscribers: %r" % [x["status"] for x in o["sub"]]))
        o = P.do({"op": "burst", "ms": 0, "burst": [{"op": "update", "ref": r, "body": body(s, 2, 0, 2, 100)} for s, r in zip(subs, crefs)]})
        # partial-record closures (a request-level trigger other than FINAL) of different subscribers at once
        def partial(b):
            b["triggers"] = [{"triggerType": "VOLUME_LIMIT", "triggerCategory": "IMMEDIATE_REPORT"}]
            return b
        o = P.do({"op": "burst", "ms": 0, "burst": [{"op": "update", "ref": r, "body": partial(body(s, 3, 40, 3, 100))} for s, r in zip(subs, crefs)]})
        if any(x["status"] != 200 for x in o["sub"]):
            problems.append(("request-failed", "updates of different subscribers: %r" % [x["status"] for x in o["sub"]]))
        o = P.do({"op": "burst", "ms": 0, "burst": [{"op": "release", "ref": r, "body": body(s, 4, 5, 4, 0)} for s, r in zip(subs, crefs)]})
        bursts += 4
        reqs += 4 * k
        for s in subs:
            bal = int(o["db"][s + "|1"]["quota"])
            res = int((ue(o, s).get("reserved") or {}).get("1", 0))
            if bal + res != 5000 - 45:
                problems.append(("accounting-identity", "subscriber %s: balance %d + reserved %d != 5000 - 45" % (s, bal, res)))
                break
        # ---- D: many creates of different subscribers at once: whatever the order they are served in, every record
        # opened is stamped with its own local record sequence number (in a one-at-a-time order OpenCDR hands out
        # consecutive numbers), and the counter has advanced by exactly the number of records opened
        dsubs = ["imsi-20893000%07d" % (idx * 100 + 70 + i) for i in range(16)]
        for s in dsubs:
            P.do({"op": "account", "supi": s, "rg": 1, "quota": "5000", "unitCost": "1"})
        before = int(o.get("lrsn", 0))
        per = 12
        o = P.do({"op": "burst", "ms": 0, "burst": [{"op": "create", "body": body(s, 1, 0, 1, 10, cid=500 + j)} for j in range(per) for s in dsubs]})
        bursts += 1
        reqs += per * len(dsubs)
        okc = sum(1 for x in o["sub"] if x["status"] == 201)
        if okc != per * len(dsubs):
            problems.append(("create-failed", "%d of %d concurrent creates of 16 subscribers acknowledged" % (okc, per * len(dsubs))))
        nums = [r["lrsn"] for s in dsubs for r in ue(o, s).get("records", [])]
        dup = sorted({n for n in nums if nums.count(n) > 1})
        if dup or len(nums) != okc:
            problems.append(("record-number-not-serial", "%d records opened by %d concurrent creates of 16 subscribers carry %d distinct local record sequence numbers (e.g. %r stamped twice)"
                             % (len(nums), okc, len(set(nums)), dup[:3])))
        elif int(o.get("lrsn", 0)) - before != okc:
            problems.append(("record-number-not-serial", "the record counter advanced by %d for %d records opened" % (int(o.get("lrsn", 0)) - before, okc)))
    except RuntimeError as e:
        crashed = True
        problems.append(("crash", str(e)))
    rc, err = P.close()
    races = err.count("WARNING: DATA RACE")
    fatal = [l for l in err.splitlines() if l.startswith("fatal error") or l.startswith("panic:")]
    locs = re.findall(r"(?:Write|Read|Previous write|Previous read) at .*?\n\s+(\S+)\(\)\n\s+(\S+:\d+)", err)
    return {"idx": idx, "procs": procs, "k": k, "bursts": bursts, "requests": reqs, "problems": problems, "races": races, "fatal": fatal[:3],
            "race_sites": sorted({"%s %s" % (f.rsplit("/", 1)[-1], p.replace("/repo/", "")) for f, p in locs})[:12], "rc": rc, "crashed": crashed}


def run(ctx, replay=None):
    ok, log = go_build(["accessgen"])
    if not ok:
        raise RuntimeError("harness build failed:\n" + log[-3000:])
    gen = os.path.join(COQ, "Conc/AccessGen.v")
    with Lock("coq"):
        rc, out = sh([os.path.join(HARNESS, "bin", "accessgen"), "/repo", gen], timeout=300)
    m = re.search(r"accesses=(\d+) unguarded=(\d+) acquires=(\d+) functions=(\d+)", out)
    if rc != 0 or not m:
        raise RuntimeError("accessgen failed:\n" + out[-2000:])
    unguarded = [l for l in out.splitlines() if l.startswith("unguarded ")]
    cov = proof_stage(ctx, "Conc/PropsC09.v")
    cov["regenerated"] = {"Conc/AccessGen.v": dict(zip(["accesses", "unguarded", "acquires", "functions"], map(int, m.groups()))),
                          "dead_functions_left_out": [l[5:] for l in out.splitlines() if l.startswith("dead ")]}
    # the stack with the race detector
    env = dict(os.environ, GOFLAGS="-mod=mod", GOPROXY="off", GOSUMDB="off", GOTOOLCHAIN="local")
    sh(["cp", "/repo/go.sum", os.path.join(HARNESS, "go.sum")])
    rc, out = sh(["go", "build", "-race", "-tags", "verif", "-o", "bin/chargesim-race", "./cmd/chargesim"], cwd=HARNESS, env=env, timeout=1200)
    if rc != 0:
        raise RuntimeError("race build failed:\n" + out[-3000:])
    quick = ctx.tier == "quick"
    plan = []
    i = 0
    for procs in ([1, 4, 16] if quick else [1, 2, 4, 16]):
        for k in ([2, 8, 16] if quick else [2, 3, 4, 8, 12, 16]):
            for it in range(1 if quick else 4):
                plan.append((i, procs, k, ctx.seed * 1000 + i, ctx.workdir))
                i += 1
    with ThreadPoolExecutor(max_workers=3) as ex:
        res = list(ex.map(run_one, plan))
    found = False
    seen = set()
    for r in res:
        keys = []
        if r["races"] or r["fatal"]:
            keys.append(("C09/data-race", "the race detector reports %d data race(s)%s under GOMAXPROCS=%d with bursts of %d concurrent requests: %s"
                         % (r["races"], (" and the process died: " + "; ".join(r["fatal"])) if r["fatal"] else "", r["procs"], r["k"], "; ".join(r["race_sites"])[:400])))
        for (kind, what) in r["problems"]:
            keys.append(("C09/" + kind, "%s (GOMAXPROCS=%d, %d concurrent requests)" % (what, r["procs"], r["k"])))
        for key, what in keys:
            if key in seen:
                continue
            seen.add(key)
            found = True
            ctx.violations.append({"property": "C09", "key": key, "found_input": True, "seed": ctx.seed, "what": what[:600],
                                   "replay": {"gomaxprocs": r["procs"], "concurrent_requests": r["k"], "run_seed": ctx.seed * 1000 + r["idx"],
                                              "rerun": "VERIF_SEED=%d ./check C09" % ctx.seed, "race_sites": r["race_sites"], "problems": r["problems"][:6]}})
    if not found and ctx.proof_broken:
        ctx.violations.append({"property": "C09", "key": "C09/proof", "found_input": False,
                               "what": "theorem no longer checks at %s%s" % (ctx.proof_broken["where"], ("; accesses without their guard: " + " | ".join(unguarded[:6])) if unguarded else ""),
                               "broken": ctx.proof_broken["where"], "log": ctx.proof_broken["log"], "unguarded": unguarded[:20]})
    total_b = sum(r["bursts"] for r in res)
    total_r = sum(r["requests"] for r in res)
    cov.update({"evaluations": total_b, "distinct_nontrivial": total_b, "exhaustive": False,
                "input_distribution": {"runs": len(res), "bursts": total_b, "requests": total_r, "gomaxprocs": sorted({r["procs"] for r in res}),
                                       "concurrent_requests_per_burst": sorted({r["k"] for r in res}), "race_reports": sum(r["races"] for r in res)},
                "rule": "per run (one process built with -race, GOMAXPROCS 1/2/4/16): subscriber A with two sessions: two bursts of k updates alternating over the sessions (used 0/3/7/20, distinct "
                        "sequence numbers) plus a recharge, then a release of one session concurrent with k-1 updates of the other; k concurrent creates of a new subscriber B, each session then "
                        "updated and released; k different subscribers created, updated twice and released in bursts; k = 2, 8, 16 (thorough 2..16, four repetitions). After each burst: statuses, "
                        "balance + reserved = credited - rated usage, recorded containers = reported containers",
                "samples": [{"gomaxprocs": r["procs"], "k": r["k"], "bursts": r["bursts"], "requests": r["requests"], "races": r["races"]} for r in res[:4]]})
    return finish(ctx, "proof", cov, assumptions=[
        "partial: the theorems are about the lock discipline (guards held at every access, lock order, atomic pool operations) and a semantics of locks; which interleavings the Go scheduler "
        "produces is sampled, under the race detector, not enumerated",
        "accessgen identifies fields and locks by name (ue.<field>, <x>.CULock, self/context .Lock) and assumes the CULock held is the one of the subscriber whose field is accessed; "
        "the race detector validates that on the executions run",
        "state outside the listed fields (the Diameter client objects, the CDR file of a subscriber) is covered by the runtime runs only"])
